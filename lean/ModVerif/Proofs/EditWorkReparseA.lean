/-
  EditWorkReparse, part A — go.work: "every `LineBlock` of the tree carries a block verb of `ParseWork`" (`W.GoodBlocks`:
  godebug / use / replace — no `go (` / `toolchain (` block, nor a block of an unknown verb) is an invariant.

  * start: `parseWork` reports `unknown block type` for every other block (`workStmts`, the `workBlockVerbs` test), and
    errors are never taken back (`workStmts_errs_mono`): `parseWork_goodBlocks`; `loadWork` only renumbers;
  * every tree primitive preserves it (the go.mod proofs of Proofs/EditGoodBlocksA.lean, re-run in the sub-namespace
    `Edit.W` on `workBlockVerbs`; the names shadow their namesakes);
  * every go.work operation preserves it, for ARBITRARY arguments and with NO hypothesis on the state: the only primitive
    that makes a block out of a line is `addLine`'s hinted walk, and go.work calls it with the verbs godebug / use / replace
    only — `WorkFile.AddGoStmt` / `AddToolchainStmt` insert their line by index (`insertAt`), unlike their go.mod namesakes.
-/
import ModVerif.Proofs.EditGoodBlocksC
import ModVerif.Proofs.EditWorkTotalA
import ModVerif.Proofs.ModfileEolWork
set_option linter.unusedSimpArgs false
set_option linter.unusedVariables false
set_option linter.unnecessarySimpa false
namespace ModVerif.Modfile.Edit.W
open ModVerif ModVerif.Modfile

/-! ### the condition -/

/-- every block carries a block verb of `ParseWork` -/
def GoodBlocks (stmts : List Expr) : Prop :=
  ∀ b, Expr.lineBlock b ∈ stmts → ∀ v, b.token = [v] → verbIn v workBlockVerbs = true

def GBx : Expr → Prop
  | .lineBlock b => ∀ v, b.token = [v] → verbIn v workBlockVerbs = true
  | _ => True

def GB (stmts : List Expr) : Prop := ∀ x ∈ stmts, GBx x

theorem gb_iff (stmts : List Expr) : GB stmts ↔ GoodBlocks stmts := by
  constructor
  · intro h b hb; exact h _ hb
  · intro h x hx
    cases x with
    | lineBlock b => exact h b hx
    | line l => trivial
    | commentBlock c => trivial
    | lparen c => trivial
    | rparen c => trivial

theorem GB.nil : GB [] := by intro x hx; cases hx

theorem gb_cons {x : Expr} {xs : List Expr} : GB (x :: xs) ↔ GBx x ∧ GB xs := by
  unfold GB
  simp only [List.mem_cons, forall_eq_or_imp]

theorem gb_append {xs ys : List Expr} : GB (xs ++ ys) ↔ GB xs ∧ GB ys := by
  unfold GB
  simp only [List.mem_append]
  constructor
  · intro h; exact ⟨fun x hx => h x (Or.inl hx), fun x hx => h x (Or.inr hx)⟩
  · rintro ⟨h1, h2⟩ x (hx | hx)
    · exact h1 x hx
    · exact h2 x hx

theorem GB.of_subset {xs ys : List Expr} (h : GB ys) (hs : ∀ x ∈ xs, x ∈ ys) : GB xs := fun x hx => h x (hs x hx)

theorem gbx_of_token {b b' : LineBlock} (ht : b'.token = b.token) (h : GBx (.lineBlock b)) : GBx (.lineBlock b') := by
  intro v hv; exact h v (ht ▸ hv)

/-! ### `updateLine` and its instances -/

theorem gb_updateLine (fs : FileSyntax) (id : Nat) (g : Line → Line) (h : GB fs.stmts) : GB (fs.updateLine id g).stmts := by
  intro x hx
  unfold FileSyntax.updateLine at hx
  simp only [List.mem_map] at hx
  rcases hx with ⟨y, hy, rfl⟩
  cases y with
  | line l0 =>
    simp only
    split <;> trivial
  | lineBlock b => exact gbx_of_token (b := b) rfl (h _ hy)
  | commentBlock c => trivial
  | lparen c => trivial
  | rparen c => trivial

theorem gb_updateTokens (fs : FileSyntax) (id : Nat) (toks : List Bytes) (h : GB fs.stmts) : GB (updateLine fs id toks).stmts :=
  gb_updateLine fs id _ h

theorem gb_markRemoved (fs : FileSyntax) (id : Nat) (h : GB fs.stmts) : GB (markRemoved fs id).stmts :=
  gb_updateLine fs id _ h

theorem gb_markAll (ids : List Nat) : ∀ fs : FileSyntax, GB fs.stmts → GB (markAll fs ids).stmts := by
  induction ids with
  | nil => intro fs h; exact h
  | cons i is ih =>
    intro fs h
    simp only [markAll, List.foldl_cons]
    exact ih _ (gb_markRemoved fs i h)

/-! ### new lines: `addLine` with a block verb -/

theorem gb_append_newLine (stmts : List Expr) (new : Nat) (toks : List Bytes) (h : GB stmts) :
    GB (stmts ++ [Expr.line (mkLine new toks false)]) := by
  rw [gb_append]
  refine ⟨h, ?_⟩
  intro x hx
  simp only [List.mem_singleton] at hx
  subst hx
  trivial

theorem gb_addLineWalk (hint : Hint) (toks : List Bytes) (new : Nat) (hc : verbIn (toks.head?.getD []) workBlockVerbs = true) :
    ∀ (stmts : List Expr) (i : Nat) (r : List Expr), addLineWalk hint toks new stmts i = some r → GB stmts → GB r := by
  intro stmts
  induction stmts with
  | nil => intro i r h; simp [addLineWalk] at h
  | cons x xs ih =>
    intro i r h hg
    rcases gb_cons.1 hg with ⟨hx, hxs⟩
    have hafter : GB (x :: Expr.line (mkLine new toks false) :: xs) := gb_cons.2 ⟨hx, gb_cons.2 ⟨trivial, hxs⟩⟩
    have hrest : ∀ r, (addLineWalk hint toks new xs (i + 1)).map (x :: ·) = some r → GB r := by
      intro r hr
      cases hw : addLineWalk hint toks new xs (i + 1) with
      | none => simp [hw] at hr
      | some r' =>
        simp only [hw, Option.map_some, Option.some.injEq] at hr
        subst hr
        exact gb_cons.2 ⟨hx, ih _ _ hw hxs⟩
    unfold addLineWalk at h
    cases x with
    | line l0 =>
      simp only at h
      split at h
      · split at h
        · simp only [Option.some.injEq] at h; subst h; exact hafter
        · rename_i hconv
          simp only [Option.some.injEq] at h; subst h
          refine gb_cons.2 ⟨?_, hxs⟩
          intro v hv
          simp only at hv
          simp only [Bool.or_eq_true, Bool.not_eq_true', not_or, Bool.not_eq_true, Bool.not_eq_false] at hconv
          rw [take_one_of_headIs hconv.2 hv]; exact hc
      · exact hrest r h
    | lineBlock b =>
      simp only at h
      split at h
      · split at h
        · simp only [Option.some.injEq] at h; subst h; exact hafter
        · simp only [Option.some.injEq] at h; subst h
          exact gb_cons.2 ⟨gbx_of_token (b := b) rfl hx, hxs⟩
      · split at h
        · split at h
          · split at h
            · simp only [Option.some.injEq] at h; subst h; exact hafter
            · split at h
              · simp only [Option.some.injEq] at h; subst h
                exact gb_cons.2 ⟨gbx_of_token (b := b) rfl hx, hxs⟩
              · exact hrest r h
          · exact hrest r h
        · exact hrest r h
    | commentBlock c => simp only at h; exact hrest r h
    | lparen c => simp only at h; exact hrest r h
    | rparen c => simp only at h; exact hrest r h

theorem gb_addLine (fs : FileSyntax) (hint : Option Nat) (toks : List Bytes) (new : Nat)
    (hc : verbIn (toks.head?.getD []) workBlockVerbs = true) (h : GB fs.stmts) : GB (addLine fs hint toks new).stmts := by
  rcases addLine_cases fs hint toks new with he | ⟨hh, stmts', hw, he⟩
  · rw [he]; exact gb_append_newLine _ _ _ h
  · rw [he]; exact gb_addLineWalk hh toks new hc _ _ _ hw h

theorem gb_addLinePtr (fs : FileSyntax) (hint : Option Nat) (toks : List Bytes) (new : Nat)
    (hc : verbIn (toks.head?.getD []) workBlockVerbs = true) (h : GB fs.stmts) : GB (addLinePtr fs hint toks new).stmts := by
  unfold addLinePtr
  split
  · split
    · exact gb_append_newLine _ _ _ h
    · exact gb_addLine _ _ _ _ hc h
  · exact gb_append_newLine _ _ _ h

theorem gb_insertAt (stmts : List Expr) (i : Nat) (y : Expr) (hy : GBx y) (h : GB stmts) : GB (insertAt stmts i y) := by
  unfold insertAt
  rw [gb_append, gb_cons]
  exact ⟨h.of_subset (fun x hx => List.mem_of_mem_take hx), hy, h.of_subset (fun x hx => List.mem_of_mem_drop hx)⟩

/-! ### Cleanup, SortBlocks -/

theorem gb_cleanupStmts : ∀ (stmts : List Expr), GB stmts → GB (cleanupStmts stmts) := by
  intro stmts
  induction stmts with
  | nil => intro h; simpa [cleanupStmts] using h
  | cons x xs ih =>
    intro hg
    rcases gb_cons.1 hg with ⟨hx, hxs⟩
    have ih' := ih hxs
    cases x with
    | line l =>
      unfold cleanupStmts
      split
      · exact ih'
      · exact gb_cons.2 ⟨hx, ih'⟩
    | lineBlock b =>
      unfold cleanupStmts
      cases hlive : b.lines.filter (fun l => !l.token.isEmpty) with
      | nil => simp only [hlive]; exact ih'
      | cons l ls =>
        have hkeep : GB (Expr.lineBlock { b with lines := l :: ls } :: cleanupStmts xs) :=
          gb_cons.2 ⟨gbx_of_token (b := b) rfl hx, ih'⟩
        cases ls with
        | nil =>
          simp only [hlive]
          split
          · exact gb_cons.2 ⟨trivial, ih'⟩
          · exact hkeep
        | cons l2 ls2 => simp only [hlive]; exact hkeep
    | commentBlock c => unfold cleanupStmts; exact gb_cons.2 ⟨hx, ih'⟩
    | lparen c => unfold cleanupStmts; exact gb_cons.2 ⟨hx, ih'⟩
    | rparen c => unfold cleanupStmts; exact gb_cons.2 ⟨hx, ih'⟩

theorem gb_sortStmts (sem work : Bool) (stmts : List Expr) (h : GB stmts) : GB (sortStmts sem work stmts) := by
  intro x hx
  unfold sortStmts at hx
  simp only [List.mem_map] at hx
  rcases hx with ⟨y, hy, rfl⟩
  cases y with
  | lineBlock b => exact gbx_of_token (b := b) rfl (h _ hy)
  | line l0 => trivial
  | commentBlock c => trivial
  | lparen c => trivial
  | rparen c => trivial

theorem gb_dropKilled (kill : List Nat) : ∀ (stmts : List Expr), GB stmts → GB (dropKilled kill stmts) := by
  intro stmts
  induction stmts with
  | nil => intro h; simpa [dropKilled] using h
  | cons x xs ih =>
    intro hg
    rcases gb_cons.1 hg with ⟨hx, hxs⟩
    have ih' := ih hxs
    cases x with
    | line l =>
      unfold dropKilled
      split
      · exact ih'
      · exact gb_cons.2 ⟨hx, ih'⟩
    | lineBlock b =>
      unfold dropKilled
      simp only
      split
      · exact ih'
      · exact gb_cons.2 ⟨gbx_of_token (b := b) rfl hx, ih'⟩
    | commentBlock c => unfold dropKilled; exact gb_cons.2 ⟨hx, ih'⟩
    | lparen c => unfold dropKilled; exact gb_cons.2 ⟨hx, ih'⟩
    | rparen c => unfold dropKilled; exact gb_cons.2 ⟨hx, ih'⟩

/-! ### every go.work operation -/

theorem verbIn_godebug : verbIn (B "godebug") workBlockVerbs = true := by decide +kernel
theorem verbIn_use : verbIn (B "use") workBlockVerbs = true := by decide +kernel
theorem verbIn_replace : verbIn (B "replace") workBlockVerbs = true := by decide +kernel

theorem gb_workSortBlocks (e : EWork) (h : GB e.f.syn.stmts) : GB (workSortBlocks e).f.syn.stmts := by
  rw [workSortBlocks_syn]
  exact gb_sortStmts false true _ (gb_dropKilled _ _ h)

theorem gb_workCleanup (e : EWork) (h : GB e.f.syn.stmts) : GB (workCleanup e).f.syn.stmts := gb_cleanupStmts _ h

theorem gb_workAddGo (e e' : EWork) (v : Bytes) (he : workAddGoStmt e v = .ok e') (h : GB e.f.syn.stmts) :
    GB e'.f.syn.stmts := by
  unfold workAddGoStmt at he
  split at he
  · cases he
  · split at he
    · simp only [Except.ok.injEq] at he; subst he
      exact gb_insertAt _ _ _ trivial h
    · simp only [Except.ok.injEq] at he; subst he; exact gb_updateTokens _ _ _ h

theorem gb_workAddToolchain (e e' : EWork) (v : Bytes) (he : workAddToolchainStmt e v = .ok e') (h : GB e.f.syn.stmts) :
    GB e'.f.syn.stmts := by
  unfold workAddToolchainStmt at he
  split at he
  · cases he
  · split at he
    · simp only [Except.ok.injEq] at he; subst he
      exact gb_insertAt _ _ _ trivial h
    · simp only [Except.ok.injEq] at he; subst he; exact gb_updateTokens _ _ _ h

theorem gb_workDropGo (e : EWork) (h : GB e.f.syn.stmts) : GB (workDropGoStmt e).f.syn.stmts := by
  unfold workDropGoStmt
  split
  · exact gb_markRemoved _ _ h
  · exact h

theorem gb_workDropToolchain (e : EWork) (h : GB e.f.syn.stmts) : GB (workDropToolchainStmt e).f.syn.stmts := by
  unfold workDropToolchainStmt
  split
  · exact gb_markRemoved _ _ h
  · exact h

theorem gb_workAddGodebug (e e' : EWork) (k v : Bytes) (he : workAddGodebug e k v = .ok e') (h : GB e.f.syn.stmts) :
    GB e'.f.syn.stmts := by
  unfold workAddGodebug at he
  rcases except_bind_ok he with ⟨⟨syn, gd, next⟩, hc, he⟩
  simp only [pure, Except.pure, Except.ok.injEq] at he
  rw [← he]
  unfold addGodebugCore at hc
  rcases except_bind_ok hc with ⟨⟨l', first, dead⟩, hr, hc⟩
  cases first with
  | some i =>
    simp only [pure, Except.pure, Except.ok.injEq, Prod.mk.injEq] at hc
    show GB syn.stmts
    rw [← hc.1]
    exact gb_markAll _ _ (gb_updateTokens _ _ _ h)
  | none =>
    simp only [pure, Except.pure, Except.ok.injEq, Prod.mk.injEq] at hc
    show GB syn.stmts
    rw [← hc.1]
    exact gb_addLine _ _ _ _ verbIn_godebug h

theorem gb_workDropGodebug (e e' : EWork) (k : Bytes) (he : workDropGodebug e k = .ok e') (h : GB e.f.syn.stmts) :
    GB e'.f.syn.stmts := by
  unfold workDropGodebug at he
  rcases except_bind_ok he with ⟨⟨gd, dead⟩, hc, he⟩
  simp only [pure, Except.pure, Except.ok.injEq] at he
  rw [← he]
  exact gb_markAll _ _ h

theorem gb_addNewUse (e : EWork) (d m : Bytes) (h : GB e.f.syn.stmts) : GB (addNewUse e d m).f.syn.stmts := by
  unfold addNewUse
  exact gb_addLine _ _ _ _ verbIn_use h

theorem gb_addUse (e e' : EWork) (d m : Bytes) (he : addUse e d m = .ok e') (h : GB e.f.syn.stmts) : GB e'.f.syn.stmts := by
  unfold addUse at he
  rcases except_bind_ok he with ⟨⟨l', first, dead⟩, hr, he⟩
  cases first with
  | some i =>
    simp only [pure, Except.pure, Except.ok.injEq] at he
    rw [← he]
    exact gb_markAll _ _ (gb_updateTokens _ _ _ h)
  | none =>
    simp only [pure, Except.pure, Except.ok.injEq] at he
    rw [← he]
    exact gb_addNewUse e d m h

theorem gb_dropUse (e e' : EWork) (d : Bytes) (he : dropUse e d = .ok e') (h : GB e.f.syn.stmts) : GB e'.f.syn.stmts := by
  unfold dropUse at he
  rcases except_bind_ok he with ⟨⟨gd, dead⟩, hc, he⟩
  simp only [pure, Except.pure, Except.ok.injEq] at he
  rw [← he]
  exact gb_markAll _ _ h

theorem gb_workAddReplace (e e' : EWork) (a b c d : Bytes) (he : workAddReplace e a b c d = .ok e') (h : GB e.f.syn.stmts) :
    GB e'.f.syn.stmts := by
  unfold workAddReplace at he
  rcases except_bind_ok he with ⟨⟨syn, gd, next⟩, hc, he⟩
  simp only [pure, Except.pure, Except.ok.injEq] at he
  rw [← he]
  unfold addReplaceCore at hc
  rcases except_bind_ok hc with ⟨⟨l', first, dead⟩, hr, hc⟩
  cases first with
  | some i =>
    simp only [pure, Except.pure, Except.ok.injEq, Prod.mk.injEq] at hc
    show GB syn.stmts
    rw [← hc.1]
    exact gb_markAll _ _ (gb_updateTokens _ _ _ h)
  | none =>
    simp only [pure, Except.pure, Except.ok.injEq, Prod.mk.injEq] at hc
    show GB syn.stmts
    rw [← hc.1]
    exact gb_addLinePtr _ _ _ _ verbIn_replace h

theorem gb_workDropReplace (e e' : EWork) (a b : Bytes) (he : workDropReplace e a b = .ok e') (h : GB e.f.syn.stmts) :
    GB e'.f.syn.stmts := by
  unfold workDropReplace at he
  rcases except_bind_ok he with ⟨⟨syn, rp⟩, hc, he⟩
  simp only [pure, Except.pure, Except.ok.injEq] at he
  rw [← he]
  unfold dropReplaceCore at hc
  rcases except_bind_ok hc with ⟨⟨rp', dead⟩, hr, hc⟩
  simp only [pure, Except.pure, Except.ok.injEq, Prod.mk.injEq] at hc
  show GB syn.stmts
  rw [← hc.1]
  exact gb_markAll _ _ h

theorem gb_setUseLoop (us : List Use) : ∀ (need : List (Bytes × Bytes)) (syn : FileSyntax) (us' : List Use)
    (need' : List (Bytes × Bytes)) (syn' : FileSyntax), setUseLoop us need syn = .ok (us', need', syn') →
    GB syn.stmts → GB syn'.stmts := by
  induction us with
  | nil =>
    intro need syn us' need' syn' he h
    simp only [setUseLoop, Except.ok.injEq, Prod.mk.injEq] at he
    rw [← he.2.2]; exact h
  | cons d ds ih =>
    intro need syn us' need' syn' he h
    unfold setUseLoop at he
    split at he
    · rcases except_bind_ok he with ⟨⟨a, b, c⟩, hr, he⟩
      simp only [pure, Except.pure, Except.ok.injEq, Prod.mk.injEq] at he
      rw [← he.2.2]
      exact ih _ _ _ _ _ hr h
    · rcases except_bind_ok he with ⟨i, hd, he⟩
      rcases except_bind_ok he with ⟨⟨a, b, c⟩, hr, he⟩
      simp only [pure, Except.pure, Except.ok.injEq, Prod.mk.injEq] at he
      rw [← he.2.2]
      exact ih _ _ _ _ _ hr (gb_markRemoved _ _ h)

theorem gb_foldl_addNewUse (ws : List (Bytes × Bytes)) : ∀ e : EWork, GB e.f.syn.stmts →
    GB (ws.foldl (fun e w => addNewUse e w.1 w.2) e).f.syn.stmts := by
  induction ws with
  | nil => intro e h; exact h
  | cons w ws ih => intro e h; exact ih _ (gb_addNewUse e _ _ h)

theorem gb_setUse (e e' : EWork) (dirs : List (Bytes × Bytes)) (perm : List (Bytes × Bytes) → List (Bytes × Bytes))
    (he : setUse e dirs perm = .ok e') (h : GB e.f.syn.stmts) : GB e'.f.syn.stmts := by
  unfold setUse at he
  rcases except_bind_ok he with ⟨⟨us, need', syn'⟩, hr, he⟩
  simp only [pure, Except.pure, Except.ok.injEq] at he
  rw [← he]
  apply gb_workSortBlocks
  apply gb_foldl_addNewUse
  exact gb_setUseLoop _ _ _ _ _ _ hr h

/-- ★ **every go.work operation preserves `GoodBlocks`** — arbitrary arguments, no hypothesis on the state -/
theorem applyWork_gb (e e' : EWork) (op : Op) (h : GB e.f.syn.stmts) (ha : applyWork e op = some (.ok e')) :
    GB e'.f.syn.stmts := by
  cases op with
  | addGo v => simp only [applyWork, Option.some.injEq] at ha; exact gb_workAddGo e e' v ha h
  | dropGo => simp only [applyWork, Option.some.injEq, Except.ok.injEq] at ha; subst ha; exact gb_workDropGo e h
  | addToolchain n => simp only [applyWork, Option.some.injEq] at ha; exact gb_workAddToolchain e e' n ha h
  | dropToolchain => simp only [applyWork, Option.some.injEq, Except.ok.injEq] at ha; subst ha; exact gb_workDropToolchain e h
  | addGodebug k v => simp only [applyWork, Option.some.injEq] at ha; exact gb_workAddGodebug e e' k v ha h
  | dropGodebug k => simp only [applyWork, Option.some.injEq] at ha; exact gb_workDropGodebug e e' k ha h
  | addUse d m => simp only [applyWork, Option.some.injEq] at ha; exact gb_addUse e e' d m ha h
  | addNewUse d m => simp only [applyWork, Option.some.injEq, Except.ok.injEq] at ha; subst ha; exact gb_addNewUse e d m h
  | dropUse d => simp only [applyWork, Option.some.injEq] at ha; exact gb_dropUse e e' d ha h
  | setUse w r => simp only [applyWork, Option.some.injEq] at ha; exact gb_setUse e e' w _ ha h
  | addReplace a b c d => simp only [applyWork, Option.some.injEq] at ha; exact gb_workAddReplace e e' a b c d ha h
  | dropReplace a b => simp only [applyWork, Option.some.injEq] at ha; exact gb_workDropReplace e e' a b ha h
  | sortBlocks => simp only [applyWork, Option.some.injEq, Except.ok.injEq] at ha; subst ha; exact gb_workSortBlocks e h
  | cleanup => simp only [applyWork, Option.some.injEq, Except.ok.injEq] at ha; subst ha; exact gb_workCleanup e h
  | addModule p => simp [applyWork] at ha
  | addRequire p v => simp [applyWork] at ha
  | addNewRequire p v i => simp [applyWork] at ha
  | dropRequire p => simp [applyWork] at ha
  | setRequire w r => simp [applyWork] at ha
  | setRequireSeparateIndirect w r => simp [applyWork] at ha
  | addExclude p v => simp [applyWork] at ha
  | dropExclude p v => simp [applyWork] at ha
  | addRetract a b c => simp [applyWork] at ha
  | dropRetract a b => simp [applyWork] at ha
  | addTool p => simp [applyWork] at ha
  | dropTool p => simp [applyWork] at ha

/-- a whole session preserves `GoodBlocks` (any operation list) -/
theorem runOpsWork_gb (ops : List Op) : ∀ (e : EWork) (res0 : List Bool) (i : Nat) (e' : EWork) (res : List Bool),
    GB e.f.syn.stmts → runOps applyWork e ops res0 i = .done e' res → GB e'.f.syn.stmts := by
  induction ops with
  | nil =>
    intro e res0 i e' res hg hr
    simp only [runOps, SessionResult.done.injEq] at hr
    rw [← hr.1]; exact hg
  | cons op ops ih =>
    intro e res0 i e' res hg hr
    unfold runOps at hr
    cases ha : applyWork e op with
    | none => simp [ha] at hr
    | some r =>
      cases r with
      | ok e1 =>
        simp only [ha] at hr
        exact ih e1 _ _ e' res (applyWork_gb e e1 op hg ha) hr
      | error err =>
        simp only [ha] at hr
        by_cases hret : err.isReturned = true
        · simp only [hret, if_true] at hr
          exact ih e _ _ e' res hg hr
        · simp only [Bool.not_eq_true] at hret
          simp [hret] at hr

/-! ### the parsed file -/

theorem workStmts_gb (fix : Option Fixer) : ∀ (xs : List Expr) (st st' : WorkState) (xs' : List Expr),
    workStmts fix st xs = (st', xs') → st'.errsRev = [] → GB xs' := by
  intro xs
  induction xs with
  | nil =>
    intro st st' xs' h _
    simp only [workStmts, Prod.mk.injEq] at h
    rw [← h.2]; exact GB.nil
  | cons x rest ih =>
    intro st st' xs' h he
    unfold workStmts at h
    have tail : ∀ (st1 : WorkState) (x' : Expr),
        (workStmts fix st1 rest).1 = st' → xs' = x' :: (workStmts fix st1 rest).2 → GBx x' → GB xs' := by
      intro st1 x' h1 h2 hhead
      cases hB : workStmts fix st1 rest with
      | mk st2 xs2 =>
        rw [hB] at h1 h2
        simp only at h1 h2
        subst h1 h2
        exact gb_cons.2 ⟨hhead, ih st1 st2 xs2 hB he⟩
    cases x with
    | line l =>
      cases htok : l.token with
      | nil =>
        simp only [htok] at h
        exact tail st (.line l) (Prod.mk.inj h).1 (Prod.mk.inj h).2.symm trivial
      | cons verb args =>
        simp only [htok] at h
        cases hA : WorkFile.add st l verb args fix with
        | mk st1 args' =>
          simp only [hA] at h
          exact tail st1 (.line { l with token := verb :: args' }) (Prod.mk.inj h).1 (Prod.mk.inj h).2.symm trivial
    | lineBlock b =>
      simp only at h
      have herr : ∀ (p : Position) (k : RuleErrKind), (workStmts fix (st.err p k) rest).1 = st' → False := by
        intro p k h1
        have hm := Proofs.ModfileFmtWork.workStmts_errs_mono fix rest (st.err p k)
        rw [h1, he] at hm
        exact Proofs.ModfileFmtWork.work_err_ne_nil st p k (List.suffix_nil.1 hm)
      split at h
      · rename_i verb hbt
        split at h
        · rename_i hverb
          cases hA : workBlockLines verb fix st b.lines with
          | mk st1 ls1 =>
            simp only [hA] at h
            refine tail st1 (.lineBlock { b with lines := ls1 }) (Prod.mk.inj h).1 (Prod.mk.inj h).2.symm ?_
            intro v hv
            simp only [hbt, List.cons.injEq, and_true] at hv
            rw [← hv]; exact hverb
        · exact (herr _ _ (Prod.mk.inj h).1).elim
      · exact (herr _ _ (Prod.mk.inj h).1).elim
    | commentBlock c =>
      simp only at h
      exact tail st (.commentBlock c) (Prod.mk.inj h).1 (Prod.mk.inj h).2.symm trivial
    | lparen c =>
      simp only at h
      exact tail st (.lparen c) (Prod.mk.inj h).1 (Prod.mk.inj h).2.symm trivial
    | rparen c =>
      simp only at h
      exact tail st (.rparen c) (Prod.mk.inj h).1 (Prod.mk.inj h).2.symm trivial

/-- ★ **a parsed go.work has block verbs on all its blocks**: `go ( … )`, `toolchain ( … )` and blocks of unknown verbs are
    `unknown block type` errors of `ParseWork` -/
theorem parseWork_goodBlocks {name data : Bytes} {fix : Option Fixer} {f : WorkFile} (h : parseWork name data fix = .ok f) :
    GoodBlocks f.syn.stmts := by
  unfold parseWork at h
  cases hp : parse name data with
  | error e => simp [hp] at h
  | ok fs =>
    simp only [hp] at h
    cases hA : workStmts fix { file := { syn := fs } } fs.stmts with
    | mk st stmts =>
      simp only [hA] at h
      split at h
      · rename_i he
        simp only [Except.ok.injEq] at h
        subst h
        have he' : st.errsRev = [] := by simpa using he
        exact (gb_iff _).1 (workStmts_gb fix fs.stmts _ st stmts hA he')
      · cases h

theorem gb_shift (fs : FileSyntax) : GB (shiftSyntax fs).stmts ↔ GB fs.stmts := by
  unfold shiftSyntax GB
  simp only [List.mem_map]
  constructor
  · intro h x hx
    have := h _ ⟨x, hx, rfl⟩
    cases x <;> exact this
  · rintro h x ⟨y, hy, rfl⟩
    have := h y hy
    cases y <;> exact this

theorem goodBlocks_loadWork (f : WorkFile) : GoodBlocks (loadWork f).f.syn.stmts ↔ GoodBlocks f.syn.stmts := by
  rw [← gb_iff, ← gb_iff]; exact gb_shift f.syn

/-! ### Boolean test -/

def goodBlocksB (stmts : List Expr) : Bool :=
  stmts.all fun
    | .lineBlock b => (match b.token with
      | [v] => verbIn v workBlockVerbs
      | _ => true)
    | _ => true

theorem goodBlocksB_sound {stmts : List Expr} (h : goodBlocksB stmts = true) : GoodBlocks stmts := by
  intro b hb v hv
  have := List.all_eq_true.1 h _ hb
  simp only [hv] at this
  exact this

theorem goodBlocksB_complete {stmts : List Expr} (h : GoodBlocks stmts) : goodBlocksB stmts = true := by
  unfold goodBlocksB
  rw [List.all_eq_true]
  intro x hx
  cases x with
  | lineBlock b =>
    simp only
    split
    · rename_i v hv; exact h b hx v hv
    · rfl
  | line l => rfl
  | commentBlock c => rfl
  | lparen c => rfl
  | rparen c => rfl

/-- ★ **`GoodBlocks` is an invariant of go.work sessions**: from every parsed go.work, after ANY session that runs to
    completion — whatever the arguments — before and after the final Cleanup -/
theorem goodBlocks_run (name data : Bytes) (f : WorkFile) (ops : List Op) (e' : EWork) (res : List Bool)
    (hf : parseWork name data none = .ok f) (h : runOps applyWork (loadWork f) ops [] 0 = .done e' res) :
    GoodBlocks e'.f.syn.stmts ∧ GoodBlocks (workCleanup e').f.syn.stmts := by
  have h0 : GB (loadWork f).f.syn.stmts := (gb_iff _).2 ((goodBlocks_loadWork f).2 (parseWork_goodBlocks hf))
  have h1 := runOpsWork_gb ops (loadWork f) [] 0 e' res h0 h
  exact ⟨(gb_iff _).1 h1, (gb_iff _).1 (gb_workCleanup e' h1)⟩

end ModVerif.Modfile.Edit.W
