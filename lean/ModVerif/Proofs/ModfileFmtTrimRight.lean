/-
  C02: algebra of `GoStrings.trimSpace`, part b: `trimRightSpace` and `trimLeftSpace` characterised.

  `trimRightSpace s` is the prefix of `s` that ends with the last rune (as seen by `DecodeLastRune`) that
  is not white space; what is cut off is a concatenation of well-formed white-space encodings
  (`trimRightSpace_cases`).  In particular the forward width used by the Go code at the start of that rune
  never reaches into the removed part.  A string that is empty or ends (backward decode) in a rune that is
  not white space is a fixed point (`trimRightSpace_fix`).  The same for the left side.
-/
import ModVerif.Proofs.ModfileFmtTrimBase
namespace ModVerif.Proofs.ModfileFmtTrim
open ModVerif ModVerif.GoStrings ModVerif.Proofs.ModfileLex ModVerif.Proofs.ModfileFmtUtf8

/-! ### the backward scan -/

theorem scan_some : ∀ (fuel : Nat) (rev tail rb fromI : Bytes), SpaceSeq tail →
    trimRightScan fuel rev tail = some (rb, fromI) →
    ∃ rev' sp, rev' ≠ [] ∧ SpaceSeq sp ∧ rev'.reverse ++ sp = rev.reverse ++ tail ∧
      UnicodePrint.isSpace (decodeLastRuneRev rev').1 = false ∧
      rb = rev'.drop (decodeLastRuneRev rev').2 ∧
      fromI = (rev'.take (decodeLastRuneRev rev').2).reverse ++ sp := by
  intro fuel
  induction fuel with
  | zero => intro rev tail rb fromI _ h; simp [trimRightScan] at h
  | succ fuel ih =>
    intro rev tail rb fromI ht h
    cases rev with
    | nil => simp [trimRightScan] at h
    | cons b0 rest =>
      unfold trimRightScan at h
      simp only at h
      by_cases hs : UnicodePrint.isSpace (decodeLastRuneRev (b0 :: rest)).1 = true
      · rw [if_pos hs] at h
        have hseq : SpaceSeq (((b0 :: rest).take (decodeLastRuneRev (b0 :: rest)).2).reverse ++ tail) :=
          SpaceSeq.cons _ tail _ (decodeLast_space_seg b0 rest hs) hs ht
        obtain ⟨rev', sp, hne, hsp, heq, hns, hrb, hfrom⟩ := ih _ _ rb fromI hseq h
        refine ⟨rev', sp, hne, hsp, ?_, hns, hrb, hfrom⟩
        rw [heq, ← List.append_assoc, ← List.reverse_append, List.take_append_drop]
      · rw [if_neg hs] at h
        simp only [Option.some.injEq, Prod.mk.injEq] at h
        obtain ⟨rfl, rfl⟩ := h
        exact ⟨b0 :: rest, tail, by simp, ht, rfl, by simpa using hs, rfl, rfl⟩

theorem scan_none : ∀ (fuel : Nat) (rev tail : Bytes), rev.length < fuel → SpaceSeq tail →
    trimRightScan fuel rev tail = none → SpaceSeq (rev.reverse ++ tail) := by
  intro fuel
  induction fuel with
  | zero => intro rev tail hlt; omega
  | succ fuel ih =>
    intro rev tail hlt ht h
    cases rev with
    | nil => simpa using ht
    | cons b0 rest =>
      unfold trimRightScan at h
      simp only at h
      by_cases hs : UnicodePrint.isSpace (decodeLastRuneRev (b0 :: rest)).1 = true
      · rw [if_pos hs] at h
        have hseq : SpaceSeq (((b0 :: rest).take (decodeLastRuneRev (b0 :: rest)).2).reverse ++ tail) :=
          SpaceSeq.cons _ tail _ (decodeLast_space_seg b0 rest hs) hs ht
        have hsz := decodeLast_size b0 rest
        have := ih _ _ (by simp only [List.length_drop, List.length_cons] at hlt ⊢; omega) hseq h
        rw [← List.append_assoc, ← List.reverse_append, List.take_append_drop] at this
        exact this
      · rw [if_neg hs] at h
        cases h

/-- the scan stops at once on a string whose last rune is not white space -/
theorem scan_stop (fuel : Nat) (rev tail : Bytes) (hne : rev ≠ [])
    (hs : UnicodePrint.isSpace (decodeLastRuneRev rev).1 = false) :
    trimRightScan (fuel + 1) rev tail =
      some (rev.drop (decodeLastRuneRev rev).2, (rev.take (decodeLastRuneRev rev).2).reverse ++ tail) := by
  cases rev with
  | nil => exact absurd rfl hne
  | cons b0 rest =>
    unfold trimRightScan
    simp only
    rw [if_neg (by simp [hs])]

/-- what `trimRightSpace` makes of a scan result -/
theorem trimRight_of_scan (s rev' sp : Bytes) (hne : rev' ≠ []) (hsp : NoContStart sp)
    (h : trimRightScan (s.length + 1) s.reverse [] =
      some (rev'.drop (decodeLastRuneRev rev').2, (rev'.take (decodeLastRuneRev rev').2).reverse ++ sp)) :
    trimRightSpace s = rev'.reverse := by
  unfold trimRightSpace
  rw [h]
  cases rev' with
  | nil => exact absurd rfl hne
  | cons b0 rest =>
    have hsz := decodeLast_size b0 rest
    have hw := forward_width b0 rest sp hsp
    generalize hsize : (decodeLastRuneRev (b0 :: rest)).2 = size at *
    generalize hseg : ((b0 :: rest).take size).reverse = seg at *
    have hlen : seg.length = size := by
      rw [← hseg]; simp only [List.length_reverse, List.length_take]; omega
    cases seg with
    | nil => simp at hlen; omega
    | cons c t =>
      simp only [List.cons_append]
      rw [width_if c (t ++ sp)]
      rw [show c :: (t ++ sp) = (c :: t) ++ sp from rfl, hw, List.take_left' hlen, ← hseg,
        ← List.reverse_append, List.take_append_drop]

/-- `trimRightSpace` characterised: either the whole string is a concatenation of white-space
    encodings and the result is empty, or the result is a non-empty prefix whose last rune (backward
    decode) is not white space, and what was cut off is a concatenation of white-space encodings. -/
theorem trimRightSpace_cases (s : Bytes) :
    (trimRightSpace s = [] ∧ SpaceSeq s) ∨
    (∃ sp, trimRightSpace s ≠ [] ∧ SpaceSeq sp ∧ s = trimRightSpace s ++ sp ∧
      UnicodePrint.isSpace (decodeLastRuneRev (trimRightSpace s).reverse).1 = false) := by
  cases h : trimRightScan (s.length + 1) s.reverse [] with
  | none =>
    left
    refine ⟨by unfold trimRightSpace; rw [h], ?_⟩
    have := scan_none _ _ [] (by simp) SpaceSeq.nil h
    simpa using this
  | some p =>
    right
    obtain ⟨rb, fromI⟩ := p
    obtain ⟨rev', sp, hne, hsp, heq, hns, rfl, rfl⟩ := scan_some _ _ _ rb fromI SpaceSeq.nil h
    have hres := trimRight_of_scan s rev' sp hne hsp.noContStart h
    refine ⟨sp, ?_, hsp, ?_, ?_⟩
    · rw [hres]; simpa using hne
    · rw [hres, heq]; simp
    · rw [hres]; simpa using hns

/-- fixed points of `trimRightSpace` -/
theorem trimRightSpace_nil : trimRightSpace [] = [] := by
  simp [trimRightSpace, trimRightScan]

theorem trimRightSpace_fix (u : Bytes) (hne : u ≠ [])
    (hs : UnicodePrint.isSpace (decodeLastRuneRev u.reverse).1 = false) : trimRightSpace u = u := by
  have hne' : u.reverse ≠ [] := by simpa using hne
  have := trimRight_of_scan u u.reverse [] hne' noContStart_nil
    (scan_stop u.length u.reverse [] hne' hs)
  simpa using this

theorem trimRightSpace_idem (s : Bytes) : trimRightSpace (trimRightSpace s) = trimRightSpace s := by
  rcases trimRightSpace_cases s with ⟨h, _⟩ | ⟨sp, hne, _, _, hs⟩
  · rw [h, trimRightSpace_nil]
  · exact trimRightSpace_fix _ hne hs

/-! ### the left side -/

theorem trimLeftAux_spec : ∀ (fuel : Nat) (s : Bytes), s.length ≤ fuel →
    ∃ p, SpaceSeq p ∧ s = p ++ trimLeftSpaceAux fuel s ∧
      (trimLeftSpaceAux fuel s = [] ∨
        UnicodePrint.isSpace (Utf8.decodeRune (trimLeftSpaceAux fuel s)).1 = false) := by
  intro fuel
  induction fuel with
  | zero =>
    intro s hl
    have : s = [] := List.eq_nil_of_length_eq_zero (by omega)
    subst this
    exact ⟨[], SpaceSeq.nil, by simp [trimLeftSpaceAux], Or.inl (by simp [trimLeftSpaceAux])⟩
  | succ fuel ih =>
    intro s hl
    cases s with
    | nil => exact ⟨[], SpaceSeq.nil, by simp [trimLeftSpaceAux], Or.inl (by simp [trimLeftSpaceAux])⟩
    | cons b t =>
      unfold trimLeftSpaceAux
      simp only
      by_cases hs : UnicodePrint.isSpace (Utf8.decodeRune (b :: t)).1 = true
      · rw [if_pos hs]
        have hw := decodeRune_width (b :: t) (by simp)
        obtain ⟨p, hp, heq, hor⟩ := ih ((b :: t).drop (Utf8.decodeRune (b :: t)).2)
          (by simp only [List.length_drop, List.length_cons] at hl ⊢; omega)
        -- the dropped rune is a well-formed white-space encoding
        have hdec : Utf8.decode (b :: t) = some (Utf8.decodeRune (b :: t)) := by
          unfold Utf8.decodeRune at hs ⊢
          cases hd : Utf8.decode (b :: t) with
          | some rw => rfl
          | none => rw [hd] at hs; exact absurd hs (by decide)
        have hseg : Utf8.decode ((b :: t).take (Utf8.decodeRune (b :: t)).2) =
            some ((Utf8.decodeRune (b :: t)).1, ((b :: t).take (Utf8.decodeRune (b :: t)).2).length) := by
          have := decode_take (r := (Utf8.decodeRune (b :: t)).1) (w := (Utf8.decodeRune (b :: t)).2)
            hdec []
          rw [List.append_nil] at this
          rw [this, List.length_take, Nat.min_eq_left hw.2]
        refine ⟨(b :: t).take (Utf8.decodeRune (b :: t)).2 ++ p, SpaceSeq.cons _ p _ hseg hs hp, ?_, hor⟩
        rw [List.append_assoc, ← heq, List.take_append_drop]
      · rw [if_neg hs]
        exact ⟨[], SpaceSeq.nil, rfl, Or.inr (by simpa using hs)⟩

/-- `trimLeftSpace` characterised: a concatenation of white-space encodings is cut off; the result is
    empty or starts (forward decode) with a rune that is not white space. -/
theorem trimLeftSpace_cases (s : Bytes) :
    ∃ p, SpaceSeq p ∧ s = p ++ trimLeftSpace s ∧
      (trimLeftSpace s = [] ∨ UnicodePrint.isSpace (Utf8.decodeRune (trimLeftSpace s)).1 = false) :=
  trimLeftAux_spec s.length s (Nat.le_refl _)

theorem trimLeftSpace_nil : trimLeftSpace [] = [] := by
  simp [trimLeftSpace, trimLeftSpaceAux]

theorem trimLeftSpace_fix (t : Bytes) (hs : UnicodePrint.isSpace (Utf8.decodeRune t).1 = false) :
    trimLeftSpace t = t := by
  unfold trimLeftSpace
  cases t with
  | nil => simp [trimLeftSpaceAux]
  | cons b t =>
    simp only [List.length_cons]
    unfold trimLeftSpaceAux
    simp only
    rw [if_neg (by simp [hs])]

theorem trimLeftSpace_idem (s : Bytes) : trimLeftSpace (trimLeftSpace s) = trimLeftSpace s := by
  obtain ⟨_, _, _, h | h⟩ := trimLeftSpace_cases s
  · rw [h, trimLeftSpace_nil]
  · exact trimLeftSpace_fix _ h

/-! ### non-vacuity -/

example : trimRightScan 5 ([47, 120, 32, 9] : Bytes).reverse [] = some ([47], [120, 32, 9]) := by decide
example : trimRightScan 3 ([32, 9] : Bytes).reverse [] = none := by decide
example : ([47, 0x80] : Bytes) ≠ [] ∧
    UnicodePrint.isSpace (decodeLastRuneRev ([47, 0x80] : Bytes).reverse).1 = false := by decide
example : UnicodePrint.isSpace (Utf8.decodeRune [47, 32]).1 = false := by decide
example : trimRightSpace [47, 32, 0xE3, 0x80, 0x80] = [47] := by decide
example : trimLeftSpace [0xE3, 0x80, 0x80, 32, 47, 32] = [47, 32] := by decide

end ModVerif.Proofs.ModfileFmtTrim
