/- ByVersion.Less is a strict total order; a sorted permutation is unique, and the model's `sort` is it. -/
import ModVerif.Proofs.SemverCanonical
namespace ModVerif.Semver
open ModVerif StrictCmp

/-- ByVersion.Less as a three-way comparator: Compare, ties broken by the strings themselves -/
def lessCmp (a b : Bytes) : Int :=
  lex (optLowCmp keyCmp) bytesCmp (vkey a, a) (vkey b, b)

theorem lessCmp_strict : StrictCmp lessCmp :=
  comap (lex_strict (optLowCmp_strict keyCmp_strict) bytesCmp_strict) (fun a => (vkey a, a))
    (by intro x y h; exact (Prod.mk.inj h).2)

theorem less_iff (a b : Bytes) : less a b = true ↔ lessCmp a b = -1 := by
  unfold less lessCmp lex
  simp only [← compare_eq_key]
  by_cases h : Semver.compare a b = 0
  · simp [h, bytesCmp]
    by_cases e : a = b
    · subst e; simp [bytesLt_irrefl]
    · cases hl : bytesLt a b <;> simp [e]
  · have hr := optLowCmp_strict keyCmp_strict |>.range (vkey a) (vkey b)
    rw [← compare_eq_key] at hr
    simp [h]
    omega

/-- "not greater": the order a sorted list must respect -/
def le (a b : Bytes) : Prop := less b a = false

theorem le_iff (a b : Bytes) : le a b ↔ lessCmp a b ≤ 0 := by
  unfold le
  have h := less_iff b a
  have a1 := lessCmp_strict.antisymm a b
  have r := lessCmp_strict.range a b
  cases hl : less b a
  · simp
    have : ¬ lessCmp b a = -1 := fun e => by rw [h.2 e] at hl; cases hl
    omega
  · simp
    have := h.1 hl
    omega

theorem le_total (a b : Bytes) : le a b ∨ le b a := by
  rw [le_iff, le_iff]
  have := lessCmp_strict.antisymm a b
  omega

theorem le_antisymm (a b : Bytes) (h1 : le a b) (h2 : le b a) : a = b := by
  rw [le_iff] at h1 h2
  have := lessCmp_strict.antisymm a b
  exact (lessCmp_strict.eq_iff a b).1 (by omega)

theorem le_trans {a b c : Bytes} (h1 : le a b) (h2 : le b c) : le a c := by
  rw [le_iff] at *; exact lessCmp_strict.le_trans h1 h2

theorem insertSorted_perm (x : Bytes) : ∀ l : List Bytes, (insertSorted x l).Perm (x :: l)
  | [] => List.Perm.refl _
  | y :: ys => by
    unfold insertSorted
    split
    · exact ((insertSorted_perm x ys).cons y).trans (List.Perm.swap x y ys)
    · exact List.Perm.refl _

theorem sort_perm : ∀ l : List Bytes, (sort l).Perm l
  | [] => List.Perm.refl _
  | x :: xs => by
    have : sort (x :: xs) = insertSorted x (sort xs) := rfl
    rw [this]
    exact (insertSorted_perm x (sort xs)).trans ((sort_perm xs).cons x)

theorem insertSorted_pairwise (x : Bytes) : ∀ l : List Bytes, l.Pairwise le → (insertSorted x l).Pairwise le
  | [], _ => by simp [insertSorted]
  | y :: ys, h => by
    unfold insertSorted
    have hy := List.pairwise_cons.1 h
    split
    · rename_i hlt
      -- y < x : y stays first
      have hyx : le y x := by
        rcases le_total y x with h | h
        · exact h
        · unfold le at h; rw [hlt] at h; cases h
      apply List.pairwise_cons.2
      refine ⟨?_, insertSorted_pairwise x ys hy.2⟩
      intro z hz
      have := (insertSorted_perm x ys).mem_iff.1 hz
      rcases List.mem_cons.1 this with rfl | hz
      · exact hyx
      · exact hy.1 z hz
    · rename_i hnlt
      have hxy : le x y := by unfold le; simpa using hnlt
      apply List.pairwise_cons.2
      refine ⟨?_, h⟩
      intro z hz
      rcases List.mem_cons.1 hz with rfl | hz
      · exact hxy
      · exact le_trans hxy (hy.1 z hz)

theorem sort_pairwise : ∀ l : List Bytes, (sort l).Pairwise le
  | [] => List.Pairwise.nil
  | x :: xs => by
    have : sort (x :: xs) = insertSorted x (sort xs) := rfl
    rw [this]
    exact insertSorted_pairwise x _ (sort_pairwise xs)

/-- any permutation of `l` that is ordered (no element is `Less` than an earlier one) is `sort l` -/
theorem sorted_perm_unique (l l' : List Bytes) (hp : l'.Perm l) (hs : l'.Pairwise le) : l' = sort l :=
  List.Perm.eq_of_pairwise (fun a b _ _ h1 h2 => le_antisymm a b h1 h2) hs (sort_pairwise l)
    (hp.trans (sort_perm l).symm)

end ModVerif.Semver
