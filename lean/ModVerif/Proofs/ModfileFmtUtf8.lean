/-
  C02 stage 1, part a: context (in)dependence of UTF-8 decoding.

  The lexer decodes a rune at the head of the REMAINING INPUT, so a priori the decoding of the bytes of
  a token depends on what follows the token.  The lemmas here show that it does not, as long as the
  decoding stays inside the token and the new context starts with an ASCII byte (or is empty):
  a well-formed sequence is determined by its own bytes (`decode_take`), all bytes of a multi-byte
  sequence are ≥ 0x80 (`decode_multibyte`), hence an ill-formed head stays ill-formed in front of an ASCII
  byte (`decodeRune_ctx`).
-/
import ModVerif.Proofs.ModfileLex
namespace ModVerif.Proofs.ModfileFmtUtf8
open ModVerif ModVerif.Proofs.ModfileLex

/-- a well-formed sequence is determined by its own bytes -/
theorem decode_take {s : Bytes} {r w : Nat} (h : Utf8.decode s = some (r, w)) (z : Bytes) :
    Utf8.decode (s.take w ++ z) = some (r, w) := by
  unfold Utf8.decode at h
  split at h
  · simp at h
  · rename_i b0 rest
    simp only at h
    repeat' split at h
    all_goals first
      | (simp at h; done)
      | (simp only [Option.some.injEq, Prod.mk.injEq] at h
         obtain ⟨rfl, rfl⟩ := h
         simp [Utf8.decode, *])

/-- every byte of a multi-byte sequence is ≥ 0x80 -/
theorem decode_multibyte {s : Bytes} {r w : Nat} (h : Utf8.decode s = some (r, w)) (hw : 1 < w) :
    ∀ b ∈ s.take w, 0x80 ≤ b.toNat := by
  unfold Utf8.decode at h
  split at h
  · simp at h
  · rename_i b0 rest
    simp only at h
    repeat' split at h
    all_goals first
      | (simp at h; done)
      | (simp only [Option.some.injEq, Prod.mk.injEq] at h
         obtain ⟨rfl, rfl⟩ := h
         simp_all [Utf8.isCont, Utf8.inRange] <;> omega)

/-- the context starts with an ASCII byte or is empty -/
def AsciiStart (r : Bytes) : Prop := ∀ b ∈ r.head?, b.toNat < 0x80

theorem asciiStart_nil : AsciiStart [] := by intro b h; simp at h

theorem asciiStart_cons {b : UInt8} {t : Bytes} (h : b.toNat < 0x80) : AsciiStart (b :: t) := by
  intro c hc; simp at hc; subst hc; exact h

/-- `decode` of `a ++ r1` that stays inside `a` is the same in front of any other context -/
theorem decode_ctx_some {a r1 r2 : Bytes} {r w : Nat} (h : Utf8.decode (a ++ r1) = some (r, w))
    (hw : w ≤ a.length) : Utf8.decode (a ++ r2) = some (r, w) := by
  have := decode_take h (a.drop w ++ r2)
  rw [List.take_append_of_le_length hw, ← List.append_assoc, List.take_append_drop] at this
  exact this

/-- Context independence of `decodeRune`: if decoding in front of `r1` stays inside `a`, then decoding
    in front of a context that is empty or starts with an ASCII byte gives the same rune and width. -/
theorem decodeRune_ctx (a r1 r2 : Bytes) (ha : a ≠ [])
    (hw : (Utf8.decodeRune (a ++ r1)).2 ≤ a.length) (hd : AsciiStart r2) :
    Utf8.decodeRune (a ++ r2) = Utf8.decodeRune (a ++ r1) := by
  unfold Utf8.decodeRune at hw ⊢
  cases h1 : Utf8.decode (a ++ r1) with
  | some rw =>
    obtain ⟨r, w⟩ := rw
    rw [h1] at hw
    rw [decode_ctx_some h1 hw]
  | none =>
    cases h2 : Utf8.decode (a ++ r2) with
    | none => rfl
    | some rw =>
      exfalso
      obtain ⟨r, w⟩ := rw
      by_cases hle : w ≤ a.length
      · rw [decode_ctx_some h2 hle] at h1; cases h1
      · have hlen := (decode_width h2).2
        have ha1 : 1 ≤ a.length := by
          cases a with
          | nil => exact absurd rfl ha
          | cons _ _ => simp
        cases r2 with
        | nil => simp at hlen; omega
        | cons b t =>
          have hb : b.toNat < 0x80 := hd b (by simp)
          have hmem : b ∈ (a ++ b :: t).take w := by
            have : (a ++ b :: t).take w = a ++ (b :: t).take (w - a.length) := by
              rw [List.take_append]
              have : List.take w a = a := List.take_of_length_le (by omega)
              rw [this]
            rw [this]
            have : (b :: t).take (w - a.length) = b :: t.take (w - a.length - 1) := by
              obtain ⟨k, hk⟩ : ∃ k, w - a.length = k + 1 := ⟨w - a.length - 1, by omega⟩
              rw [hk]; simp
            rw [this]; simp
          have := decode_multibyte h2 (by omega) b hmem
          omega

/-- the same with the roles fixed: from inside-the-token decoding in any context to the empty context -/
theorem decodeRune_ctx_nil (a r1 : Bytes) (ha : a ≠ [])
    (hw : (Utf8.decodeRune (a ++ r1)).2 ≤ a.length) :
    Utf8.decodeRune a = Utf8.decodeRune (a ++ r1) := by
  have := decodeRune_ctx a r1 [] ha hw asciiStart_nil
  simpa using this

/-- from the empty context to a context starting with an ASCII byte -/
theorem decodeRune_append (a r2 : Bytes) (ha : a ≠ []) (hd : AsciiStart r2) :
    Utf8.decodeRune (a ++ r2) = Utf8.decodeRune a := by
  have := decodeRune_ctx a [] r2 ha (by simpa using (decodeRune_width a ha).2) hd
  simpa using this

/-- a multi-byte sequence encodes a rune ≥ 0x80; a one-byte sequence is an ASCII byte -/
theorem decode_rune_ge {s : Bytes} {r w : Nat} (h : Utf8.decode s = some (r, w)) :
    (1 < w → 0x80 ≤ r) ∧ (w = 1 → ∃ b t, s = b :: t ∧ b.toNat < 0x80 ∧ r = b.toNat) := by
  unfold Utf8.decode at h
  split at h
  · simp at h
  · rename_i b0 rest
    simp only at h
    repeat' split at h
    all_goals first
      | (simp at h; done)
      | (simp only [Option.some.injEq, Prod.mk.injEq] at h
         obtain ⟨rfl, rfl⟩ := h
         simp_all [Utf8.isCont, Utf8.inRange] <;> omega)

/-- decoding at a non-ASCII byte: the rune is ≥ 0x80 and so is every consumed byte -/
theorem decodeRune_nonascii (b : UInt8) (t : Bytes) (hb : 0x80 ≤ b.toNat) :
    0x80 ≤ (Utf8.decodeRune (b :: t)).1 ∧
    ∀ c ∈ (b :: t).take (Utf8.decodeRune (b :: t)).2, 0x80 ≤ c.toNat := by
  unfold Utf8.decodeRune
  cases h : Utf8.decode (b :: t) with
  | none =>
    refine ⟨by decide, ?_⟩
    intro c hc
    simp at hc
    subst hc; exact hb
  | some rw =>
    obtain ⟨r, w⟩ := rw
    have hg := decode_rune_ge h
    have hw := (decode_width h).1
    by_cases h1 : w = 1
    · obtain ⟨b', t', heq, hlt, _⟩ := hg.2 h1
      simp only [List.cons.injEq] at heq
      obtain ⟨rfl, _⟩ := heq
      omega
    · exact ⟨hg.1 (by omega), decode_multibyte h (by show 1 < w; omega)⟩

/-- the rune is a newline exactly when the first byte is; then it is one byte wide; otherwise no
    consumed byte is a newline -/
theorem decodeRune_newline (b : UInt8) (t : Bytes) :
    ((Utf8.decodeRune (b :: t)).1 = 10 → b = 10 ∧ (Utf8.decodeRune (b :: t)).2 = 1) ∧
    ((Utf8.decodeRune (b :: t)).1 ≠ 10 → ∀ c ∈ (b :: t).take (Utf8.decodeRune (b :: t)).2, c ≠ 10) := by
  by_cases hb : b.toNat < 0x80
  · rw [decodeRune_ascii b t hb]
    constructor
    · intro h
      exact ⟨UInt8.toNat_inj.1 (by simpa using h), rfl⟩
    · intro h c hc
      simp at hc
      subst hc
      intro h10
      exact h (by rw [h10]; rfl)
  · have := decodeRune_nonascii b t (by omega)
    constructor
    · intro h; omega
    · intro _ c hc h10
      have := this.2 c hc
      rw [h10] at this
      exact absurd this (by decide)

end ModVerif.Proofs.ModfileFmtUtf8
