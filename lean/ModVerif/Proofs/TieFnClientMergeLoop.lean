/-
  Tie proofs, sumdb/client.go (merge unit): the `for` loop of `Client.mergeLatest` and `Client.mergeLatest` of the regenerated
  client against the hand model.

  FUEL AGAINST RETRIES.  The Go loop is unbounded (a hostile `WriteConfig` can answer `ErrWriteConflict` forever).  The model
  runs it on `P.retries` (`.error .fuel` = still running after `retries` rounds), the generated code on its fuel
  (`Err.fuel`).  The relation proved here: whenever the model's loop ENDS within `f` rounds (`MergeLoopOk P E f w`, in
  particular its result is not `.fuel`), the generated loop with any fuel `≥ loopFuel S f w` — one unit per round the model
  actually goes around, above what each round's `mergeLatestMem` needs — ends with the same result in the corresponding
  world.  Nothing is claimed when the model gives up (`.fuel`): the generated loop with more fuel simply goes on.
-/
import ModVerif.Proofs.TieFnClientMergeMem
namespace ModVerif.TieFnClientMerge
open ModVerif ModVerif.GoRt ModVerif.Client ModVerif.Generated.SumdbClient ModVerif.TieFnClientRep

section
variable {σ H : Type} [DecidableEq H] [Inhabited H] {P : Params H} {E : Env σ}

omit [DecidableEq H] [Inhabited H] in
/-- an external operation changes only the state and the trace -/
theorem RepRun.withS' {w w' : World σ H} {cw : GW σ H} (h : RepRun P E w cw) (hc : w'.c = w.c) :
    RepRun P E w' (withS cw w') :=
  h.of_frame (h.toRepCore.withS hc) (withS_frame _ _) (frameM_of_c hc)

omit [DecidableEq H] [Inhabited H] in
theorem withS_frameI (cw : GW σ H) (w' : World σ H) : FrameI cw (withS cw w') := FrameG.toI (withS_frame cw w')

omit [DecidableEq H] [Inhabited H] in
theorem frameJ_of_c {w w' : World σ H} (h : w'.c = w.c) : FrameJ w w' := FrameM.toJ (frameM_of_c h)

theorem latestFile_eq (name : Bytes) : name ++ ([47, 108, 97, 116, 101, 115, 116] : Bytes) = latestFile name := by
  rw [lit_latest]; rfl

theorem whenCode_eq_one (wh : When) : whenCode wh = 1 ↔ wh = .past := by
  cases wh <;> simp [whenCode]

theorem whenCode_eq_three (wh : When) : whenCode wh = 3 ↔ wh = .future := by
  cases wh <;> simp [whenCode]

/-! ### the model's loop, round by round -/

/-- the end of a round: the answer of `WriteConfig` -/
def writeTail (P : Params H) (E : Env σ) (f : Nat) (w1 : World σ H) (msg : Bytes) : Except Client.Err Unit × World σ H :=
  match (writeBack E w1 msg).1 with
  | .conflict => mergeLatestLoop P E f (writeBack E w1 msg).2
  | .ok => (.ok (), (writeBack E w1 msg).2)
  | .error => (.error .config, (writeBack E w1 msg).2)

/-- a round after `ReadConfig` answered `msg` -/
def roundTail (P : Params H) (E : Env σ) (f : Nat) (w0 : World σ H) (msg : Bytes) : Except Client.Err Unit × World σ H :=
  match (mergeLatestMem P E w0 msg).1 with
  | .error e => (.error e, (mergeLatestMem P E w0 msg).2)
  | .ok when =>
    if when != .past then (.ok (), (mergeLatestMem P E w0 msg).2)
    else writeTail P E f (mergeLatestMem P E w0 msg).2 msg

omit [Inhabited H] in
theorem mergeLatestLoop_succ (f : Nat) (w : World σ H) :
    mergeLatestLoop P E (f + 1) w =
      match cfgMsg E w with
      | none => (.error .config, cfgWorld E w)
      | some msg => roundTail P E f (cfgWorld E w) msg := by
  rw [mergeLatestLoop]
  unfold cfgMsg cfgWorld roundTail writeTail writeBack
  cases (readConfig E w (latestFile w.c.name)).1 with
  | none => rfl
  | some msg =>
    simp only []
    cases (mergeLatestMem P E (readConfig E w (latestFile w.c.name)).2 msg).1 with
    | error e => rfl
    | ok when =>
      simp only []
      split
      · rfl
      · cases (writeConfig E (mergeLatestMem P E (readConfig E w (latestFile w.c.name)).2 msg).2
            (latestFile (mergeLatestMem P E (readConfig E w (latestFile w.c.name)).2 msg).2.c.name) msg
            (mergeLatestMem P E (readConfig E w (latestFile w.c.name)).2 msg).2.c.latestMsg).1 <;> rfl

/-- what the induction provides for the next round: the loop from any represented world, `f` rounds, fuel `g` -/
def LoopSpec (S : TileSpecs P E) (f g : Nat) : Prop :=
  ∀ (w : World σ H) (cw : GW σ H), RepRun P E w cw → MergeLoopOk P E f w → loopFuel S f w ≤ g →
    ∃ r' cw', Client_mergeLatest_loop1 (envOf P E) g cw = .ok (Ctl.ret (r', cw')) ∧
      RepRun P E (mergeLatestLoop P E f w).2 cw' ∧ RepUnit r' (mergeLatestLoop P E f w).1 ∧
      FrameI cw cw' ∧ FrameJ w (mergeLatestLoop P E f w).2

/-- the end of a round on both sides: `WriteConfig`, then out or around -/
theorem write_step (S : TileSpecs P E) (f g : Nat) (ih : LoopSpec S f g) (w1 : World σ H) (cw1 : GW σ H)
    (rr1 : RepRun P E w1 cw1) (msg : Bytes)
    (hok : (writeBack E w1 msg).1 = .conflict → MergeLoopOk P E f (writeBack E w1 msg).2)
    (hf : writeFuel (E := E) (loopFuel S f) w1 msg ≤ g) :
    ∃ r' cw',
      (match (envOf P E).writeConfig (cw1.name ++ ([47, 108, 97, 116, 101, 115, 116] : Bytes)) msg cw1.latestMsg cw1 with
        | (wr6, world) =>
          if (!decide (wr6 = (some "ErrWriteConflict"))) then (pure (Ctl.ret (wr6, world)) : M (Ctl (Option String × GW σ H) (GW σ H)))
          else Client_mergeLatest_loop1 (envOf P E) g world) = .ok (Ctl.ret (r', cw')) ∧
      RepRun P E (writeTail P E f w1 msg).2 cw' ∧ RepUnit r' (writeTail P E f w1 msg).1 ∧
      FrameI cw1 cw' ∧ FrameJ w1 (writeTail P E f w1 msg).2 := by
  rw [rr1.name, latestFile_eq, rr1.latestMsg, writeConfig_eq rr1.s]
  have rr2 : RepRun P E (writeBack E w1 msg).2 (withS cw1 (writeBack E w1 msg).2) := RepRun.withS' rr1 rfl
  have fi2 : FrameI cw1 (withS cw1 (writeBack E w1 msg).2) := withS_frameI _ _
  have fj2 : FrameJ w1 (writeBack E w1 msg).2 := frameJ_of_c rfl
  show ∃ r' cw', (if (!decide (writeResErr (writeBack E w1 msg).1 = (some "ErrWriteConflict"))) then
      (pure (Ctl.ret (writeResErr (writeBack E w1 msg).1, withS cw1 (writeBack E w1 msg).2)) : M (Ctl (Option String × GW σ H) (GW σ H)))
      else Client_mergeLatest_loop1 (envOf P E) g (withS cw1 (writeBack E w1 msg).2)) = .ok (Ctl.ret (r', cw')) ∧ _
  unfold writeTail
  unfold writeFuel at hf
  cases hwr : (writeBack E w1 msg).1 with
  | ok =>
    have hd2 : (!decide (writeResErr WriteRes.ok = some "ErrWriteConflict")) = true := by decide
    simp only [hd2, if_true, pure, Except.pure]
    exact ⟨_, _, rfl, rr2, rfl, fi2, fj2⟩
  | error =>
    have hd2 : (!decide (writeResErr WriteRes.error = some "ErrWriteConflict")) = true := by decide
    simp only [hd2, if_true, pure, Except.pure]
    exact ⟨_, _, rfl, rr2, ⟨_, rfl, errAbs_config⟩, fi2, fj2⟩
  | conflict =>
    have hd2 : (!decide (writeResErr WriteRes.conflict = some "ErrWriteConflict")) = false := by decide
    simp only [hd2, Bool.false_eq_true, if_false]
    rw [hwr] at hf
    obtain ⟨r3, cw3, e3, rr3, rs3, fi3, fj3⟩ := ih _ _ rr2 (hok hwr) hf
    exact ⟨_, _, e3, rr3, rs3, fi2.trans fi3, fj2.trans fj3⟩

/-- a round on both sides after `ReadConfig` answered `msg` -/
theorem round_step (S : TileSpecs P E) (f g : Nat) (ih : LoopSpec S f g) (w0 : World σ H) (cw0 : GW σ H)
    (rr0 : RepRun P E w0 cw0) (msg : Bytes) (hmem : MergeMemOk P E w0 msg)
    (hrest : (mergeLatestMem P E w0 msg).1 = .ok .past → (writeBack E (mergeLatestMem P E w0 msg).2 msg).1 = .conflict →
      MergeLoopOk P E f (writeBack E (mergeLatestMem P E w0 msg).2 msg).2)
    (hf : roundFuel S (loopFuel S f) w0 msg ≤ g) :
    ∃ r' cw',
      ((do
        let t4 ← (Client_mergeLatestMem (envOf P E) g msg cw0)
        let (wr5, world) := t4
        let (when_1, err_1) := wr5
        if (!(err_1).isNone) then (pure (Ctl.ret (err_1, world))) else (if (!decide (when_1 = (1 : Int))) then (pure (Ctl.ret ((none : Option String), world))) else (do
          let latestMsg := ((world).latestMsg)
          let (wr6, world) := (envOf P E).writeConfig (((world).name) ++ ([47, 108, 97, 116, 101, 115, 116] : Bytes)) msg latestMsg world
          let err_2 := wr6
          if (!decide (err_2 = (some "ErrWriteConflict"))) then (pure (Ctl.ret (err_2, world))) else (Client_mergeLatest_loop1 (envOf P E) g world)))) :
        M (Ctl (Option String × GW σ H) (GW σ H))) = .ok (Ctl.ret (r', cw')) ∧
      RepRun P E (roundTail P E f w0 msg).2 cw' ∧ RepUnit r' (roundTail P E f w0 msg).1 ∧
      FrameI cw0 cw' ∧ FrameJ w0 (roundTail P E f w0 msg).2 := by
  have hf1 : memFuel S w0 msg ≤ g := Nat.le_trans (Nat.le_max_left _ _) hf
  obtain ⟨r1, cw1, e1, rr1, rs1, fi1, fj1⟩ := mergeLatestMem_eq S w0 cw0 msg g rr0 hmem hf1
  rw [e1]
  obtain ⟨i, err1⟩ := r1
  unfold roundTail
  cases hmm : (mergeLatestMem P E w0 msg).1 with
  | error e =>
    rw [hmm] at rs1
    simp only [bind, Except.bind, RepErr_not_isNone rs1, if_true, pure, Except.pure]
    exact ⟨_, _, rfl, rr1, rs1, fi1, fj1⟩
  | ok when =>
    rw [hmm] at rs1
    obtain ⟨he, hi⟩ := rs1
    simp only at he hi
    subst he
    unfold RepWhen at hi
    subst hi
    by_cases hpast : when = .past
    · subst hpast
      have hb : (When.past != When.past) = false := by decide
      simp only [hb, Bool.false_eq_true, if_false]
      have hf2 : writeFuel (E := E) (loopFuel S f) (mergeLatestMem P E w0 msg).2 msg ≤ g := by
        unfold roundFuel at hf
        rw [hmm] at hf
        exact Nat.le_trans (Nat.le_max_right _ _) hf
      obtain ⟨r3, cw3, e3, rr3, rs3, fi3, fj3⟩ := write_step S f g ih _ cw1 rr1 msg (hrest hmm) hf2
      exact ⟨r3, cw3, e3, rr3, rs3, fi1.trans fi3, fj1.trans fj3⟩
    · have hd : (!decide (whenCode when = 1)) = true := by
        have : ¬ whenCode when = 1 := fun h => hpast ((whenCode_eq_one when).1 h)
        simp [this]
      have hb : (when != When.past) = true := by simpa using hpast
      simp only [bind, Except.bind, Option.isNone_none, Bool.not_true, Bool.false_eq_true, if_false, hd, hb, if_true,
        pure, Except.pure]
      exact ⟨_, _, rfl, rr1, rfl, fi1, fj1⟩

/-- the `for` loop of `mergeLatest` -/
theorem mergeLatest_loop1_eq (S : TileSpecs P E) : ∀ (f g : Nat), LoopSpec S f g := by
  intro f
  induction f with
  | zero => intro g w cw _ hok _; exact absurd hok id
  | succ f ih =>
    intro fuel w cw hr hok hf
    rw [mergeLatestLoop_succ]
    rw [loopFuel] at hf
    have hpos : 1 ≤ fuel := by
      cases hc : cfgMsg E w with
      | none => rw [hc] at hf; exact hf
      | some m => rw [hc] at hf; simp only at hf; omega
    obtain ⟨g, rfl⟩ : ∃ g, fuel = g + 1 := ⟨fuel - 1, by omega⟩
    rw [Client_mergeLatest_loop1]
    rw [hr.name, latestFile_eq, readConfig_eq hr.s]
    have rr0 : RepRun P E (cfgWorld E w) (withS cw (cfgWorld E w)) := RepRun.withS' hr rfl
    have fi0 : FrameI cw (withS cw (cfgWorld E w)) := withS_frameI _ _
    have fj0 : FrameJ w (cfgWorld E w) := frameJ_of_c rfl
    cases hrc : cfgMsg E w with
    | none =>
      have hrc' : (readConfig E w (latestFile w.c.name)).1 = none := hrc
      rw [hrc']
      simp only [readOut_none, Option.isNone_some, Bool.not_false, if_true, pure, Except.pure]
      exact ⟨_, _, rfl, rr0, ⟨_, rfl, errAbs_config⟩, fi0, fj0⟩
    | some msg =>
      have hrc' : (readConfig E w (latestFile w.c.name)).1 = some msg := hrc
      rw [hrc']
      obtain ⟨hmem, hrest⟩ := hok msg hrc
      rw [hrc] at hf
      have hf' : roundFuel S (loopFuel S f) (cfgWorld E w) msg ≤ g := by simp only at hf; omega
      obtain ⟨r3, cw3, e3, rr3, rs3, fi3, fj3⟩ :=
        round_step S f g (ih g) (cfgWorld E w) (withS cw (cfgWorld E w)) rr0 msg hmem hrest hf'
      exact ⟨r3, cw3, e3, rr3, rs3, fi0.trans fi3, fj0.trans fj3⟩

/-- ★ `mergeLatest` -/
theorem mergeLatest_eq (S : TileSpecs P E) (w : World σ H) (cw : GW σ H) (msg : Bytes) (fuel : Nat)
    (hr : RepRun P E w cw) (hok : MergeOk P E w msg) (hf : mergeFuel S w msg ≤ fuel) :
    ∃ r' cw', Client_mergeLatest (envOf P E) fuel msg cw = .ok (r', cw') ∧
      RepRun P E (mergeLatest P E w msg).2 cw' ∧ RepUnit r' (mergeLatest P E w msg).1 ∧
      FrameI cw cw' ∧ FrameJ w (mergeLatest P E w msg).2 := by
  obtain ⟨hmem, hloop⟩ := hok
  have hf1 : memFuel S w msg ≤ fuel := Nat.le_trans (Nat.le_max_left _ _) hf
  have hf2 : loopFuel S P.retries (mergeLatestMem P E w msg).2 ≤ fuel := Nat.le_trans (Nat.le_max_right _ _) hf
  unfold Client_mergeLatest
  obtain ⟨r1, cw1, e1, rr1, rs1, fi1, fj1⟩ := mergeLatestMem_eq S w cw msg fuel hr hmem hf1
  rw [e1]
  obtain ⟨i, err1⟩ := r1
  simp only [bind, Except.bind]
  have hm : mergeLatest P E w msg =
      match (mergeLatestMem P E w msg).1 with
      | .error e => (.error e, (mergeLatestMem P E w msg).2)
      | .ok when => if when != .future then (.ok (), (mergeLatestMem P E w msg).2)
          else mergeLatestLoop P E P.retries (mergeLatestMem P E w msg).2 := by
    unfold mergeLatest
    simp only []
    cases (mergeLatestMem P E w msg).1 <;> rfl
  rw [hm]
  cases hmm : (mergeLatestMem P E w msg).1 with
  | error e =>
    rw [hmm] at rs1
    simp only [RepErr_not_isNone rs1, if_true, pure, Except.pure]
    exact ⟨_, _, rfl, rr1, rs1, fi1, fj1⟩
  | ok when =>
    rw [hmm] at rs1
    obtain ⟨he, hi⟩ := rs1
    simp only at he hi
    subst he
    unfold RepWhen at hi
    subst hi
    simp only [Option.isNone_none, Bool.not_true, Bool.false_eq_true, if_false]
    by_cases hfut : when = .future
    · subst hfut
      have hd : (!decide (whenCode When.future = 3)) = false := by decide
      have hb : (When.future != When.future) = false := by decide
      simp only [hd, hb, Bool.false_eq_true, if_false]
      obtain ⟨r3, cw3, e3, rr3, rs3, fi3, fj3⟩ := mergeLatest_loop1_eq S P.retries fuel _ cw1 rr1 (hloop hmm) hf2
      rw [e3]
      exact ⟨_, _, rfl, rr3, rs3, fi1.trans fi3, fj1.trans fj3⟩
    · have hd : (!decide (whenCode when = 3)) = true := by
        have : ¬ whenCode when = 3 := fun h => hfut ((whenCode_eq_three when).1 h)
        simp [this]
      have hb : (when != When.future) = true := by simpa using hfut
      simp only [hd, hb, if_true, pure, Except.pure]
      exact ⟨_, _, rfl, rr1, rfl, fi1, fj1⟩

end
end ModVerif.TieFnClientMerge
