/-
  Helper lemmas for Tie/FnEditReq.lean, part D: `addReplace` (rule.go:1513, the function shared by `File.AddReplace` and
  `WorkFile.AddReplace`; the `replace` slice is an in-out parameter) and `File_AddReplace` of the regenerated edit operations
  (Generated/FnEdit.lean) against the model's `addReplaceCore` / `addReplace`.

  * `addReplace_loop_sim`: the loop (state: index, heap, `need`, `hint`) against `firstRest` (first match rewritten, later
    matches cleared) and `lastWith` (the hint: the last entry with the same old path — only when nothing matched);
  * `addReplace_sim` / `addReplace_sim'`: the function on `RepR` (syntax graph + `Replace` pointer list), frame `FrameR`;
  * `File_AddReplace_sim`.

  Owner: edit-req.
-/
import ModVerif.Proofs.TieFnEditReqC
set_option linter.unusedSimpArgs false
set_option linter.unusedVariables false
namespace ModVerif.Tie.FnEditReqD
open ModVerif ModVerif.GoRt ModVerif.Generated.Edit ModVerif.Tie.FnEditRep ModVerif.Tie.FnEditTreeA ModVerif.Tie.FnEditReqA
  ModVerif.Tie.FnEditReqB ModVerif.Tie.FnEditReqC
open ModVerif.Modfile.Edit (clearAll firstRest markAll markRemoved deref nilId EditErr EFile addLine addLinePtr addLineWalk Hint mkLine
  insertAfterId loc locStmt treeIds lastWith)
open ModVerif.TieFnEditAddLine (nodeCount Frame)
open ModVerif.Drv.GenEdit (isPrintI quoteI)

/-- the model's match predicate of `addReplace` -/
def replMatch (oldPath oldVers : Bytes) (r : Modfile.Replace) : Bool :=
  r.old.path == oldPath && (oldVers.isEmpty || r.old.version == oldVers)

/-- the `t8` of the loop body (after the object at `r` has been read) -/
theorem replMatch_gen (x : Modfile.Replace) (oldPath oldVers : Bytes) :
    ((if (decide ((replaceG x).Old.Path = oldPath)) then (do
        let t7 ← (if (decide (oldVers = ([] : Bytes))) then (pure true : M Bool) else
          (pure (decide ((replaceG x).Old.Version = oldVers))))
        pure t7) else pure false) : M Bool) = .ok (replMatch oldPath oldVers x) := by
  unfold replMatch
  by_cases hp : x.old.path = oldPath
  · have h1 : decide ((replaceG x).Old.Path = oldPath) = true := decide_eq_true hp
    have hp' : (x.old.path == oldPath) = true := by simpa using hp
    rw [if_pos h1]
    by_cases hv0 : oldVers = []
    · subst hv0; simp [hp']
    · have h2 : ¬ (decide (oldVers = ([] : Bytes)) = true) := by simpa using hv0
      have hv0' : oldVers.isEmpty = false := by cases oldVers <;> simp_all
      rw [if_neg h2]
      simp only [bind_ok, pure_eq_ok, hp', hv0', Bool.true_and, Bool.false_or]
      by_cases hv : x.old.version = oldVers
      · have h3 : decide ((replaceG x).Old.Version = oldVers) = true := decide_eq_true hv
        rw [h3]; simp [hv]
      · have h3 : decide ((replaceG x).Old.Version = oldVers) = false := decide_eq_false hv
        rw [h3]; simp [hv]
  · have h1 : ¬ (decide ((replaceG x).Old.Path = oldPath) = true) := by
      intro hd; exact hp (of_decide_eq_true hd)
    have hp' : (x.old.path == oldPath) = false := by simpa using hp
    rw [if_neg h1]; simp [hp']

/-- the model after the "update the first match" step -/
theorem updStep_repl {h : Heap} {x : Int} {ps : List Int} {fs : Modfile.FileSyntax} {rp : List Modfile.Replace}
    (R : RepR h x ps fs rp) {i : Nat} {r : Int} {y : Modfile.Replace}
    (hr : ps[i]? = some r) (hx : rp[i]? = some y) (h0 : y.lineId ≠ 0) (old new : Modfile.ModVersion) (tokens : List Bytes) :
    ∃ l, heapGet h.lines (y.lineId : Int) = .ok (lineG l) ∧
      RepR (setLineH { h with replaces := h.replaces.set (r.toNat - 1) (replaceG { y with old := old, new := new }) }
          (y.lineId : Int) (updateTokLine tokens l)) x ps (Modfile.Edit.updateLine fs y.lineId tokens)
        (rp.set i { y with old := old, new := new }) := by
  obtain ⟨hg, hle⟩ := R.replace.rel.get i r y hr hx
  obtain ⟨l, hl, hid⟩ := R.linesG.ofId h0 hle
  refine ⟨l, hl, ?_⟩
  have R1 := R.setReplace (i := i) (r := r) hr { y with old := old, new := new } hle
  have R2 := R1.setLine (IdEquiv_updateTok tokens) (p := (y.lineId : Int)) (l0 := l) hl
  simpa [Modfile.Edit.updateLine, updateTokLine] using R2

theorem dropStep_replR {h : Heap} {x : Int} {ps : List Int} {fs : Modfile.FileSyntax} {rp : List Modfile.Replace}
    (R : RepR h x ps fs rp) {i : Nat} {r : Int} {y : Modfile.Replace}
    (hr : ps[i]? = some r) (hx : rp[i]? = some y) (h0 : y.lineId ≠ 0) :
    ∃ l, heapGet h.lines (y.lineId : Int) = .ok (lineG l) ∧
      RepR { setLineH h (y.lineId : Int) (markRemovedLine l) with replaces := h.replaces.set (r.toNat - 1) (default : Replace) }
        x ps (markRemoved fs y.lineId) (rp.set i Modfile.Edit.clearedReplace) := by
  obtain ⟨hg, hle⟩ := R.replace.rel.get i r y hr hx
  obtain ⟨l, hl, hid⟩ := R.linesG.ofId h0 hle
  refine ⟨l, hl, ?_⟩
  have R1 := R.setLine IdEquiv_markRemoved hl
  have R2 := R1.setReplace (i := i) (r := r) hr Modfile.Edit.clearedReplace (by simp [Modfile.Edit.clearedReplace, nilId])
  simpa [markRemoved, replaceG_cleared, markRemovedLine] using R2

theorem lastWith_cons {α : Type} (m : α → Bool) (id : α → Nat) (x : α) (xs : List α) (acc : Option Nat) :
    lastWith m id (x :: xs) acc = lastWith m id xs (if m x then some (id x) else acc) := rfl

theorem addReplace_loop_sim (x : Int) (ps : List Int) (oldPath oldVers : Bytes) (old new : Modfile.ModVersion) (tokens : List Bytes)
    (htok : tokens ≠ []) :
    ∀ (suf : List Int) (xsuf : List Modfile.Replace) (pre : List Int) (xpre : List Modfile.Replace) (h : Heap)
      (fs : Modfile.FileSyntax) (fuel : Nat) (need : Bool) (acc : Option Nat),
      RepR h x ps fs (xpre ++ xsuf) → ps = pre ++ suf → pre.length = xpre.length → suf.length + 1 ≤ fuel →
      match firstRest (replMatch oldPath oldVers) (·.lineId) (fun r => { r with old := old, new := new })
          Modfile.Edit.clearedReplace xsuf need with
      | .ok (rest, first, dead) =>
        ∃ h' hint', addReplace_loop1 isPrintI quoteI x ps oldPath oldVers (mvG old) (mvG new) tokens fuel (pre.length : Int) h need
              ((acc.getD 0 : Nat) : Int) = .ok (len ps, h', need && first.isNone, hint') ∧
          (need = true → first = none →
            hint' = (((lastWith (fun r : Modfile.Replace => r.old.path == oldPath) (·.lineId) xsuf acc).getD 0 : Nat) : Int)) ∧
          FrameR h h' ∧ h'.lines.length = h.lines.length ∧
          RepR h' x ps (markAll (firstSyn fs tokens first) dead) (xpre ++ rest)
      | .error _ => addReplace_loop1 isPrintI quoteI x ps oldPath oldVers (mvG old) (mvG new) tokens fuel (pre.length : Int) h need
              ((acc.getD 0 : Nat) : Int) = .error .panic
  | [], xsuf, pre, xpre, h, fs, fuel, need, acc, R, ho, hl, hf => by
    obtain ⟨fuel, rfl⟩ : ∃ k, fuel = k + 1 := ⟨fuel - 1, by omega⟩
    have hx : xsuf = [] := REntsL.nil_of_nil (by have := R.replace.rel; rwa [ho] at this) hl
    subst hx
    simp only [firstRest]
    refine ⟨h, ((acc.getD 0 : Nat) : Int), ?_, fun _ _ => by simp [lastWith], FrameR.refl h, rfl, ?_⟩
    · unfold addReplace_loop1
      have : ps = pre := by simpa using ho
      simp [this, not_lt_len_end, len_eq]
    · simpa [firstSyn, markAll] using R
  | r :: suf, xsuf, pre, xpre, h, fs, fuel, need, acc, R, ho, hl, hf => by
    obtain ⟨fuel, rfl⟩ : ∃ k, fuel = k + 1 := ⟨fuel - 1, by omega⟩
    obtain ⟨y, xsuf, rfl⟩ := REntsL.cons_of_cons (by have := R.replace.rel; rwa [ho] at this) hl
    have hr : ps[pre.length]? = some r := by rw [ho]; simp
    have hx : (xpre ++ y :: xsuf)[pre.length]? = some y := by rw [hl]; simp
    obtain ⟨hg, hle⟩ := R.replace.rel.get _ r y hr hx
    have hset1 : ∀ z, (xpre ++ y :: xsuf).set pre.length z = (xpre ++ [z]) ++ xsuf := by
      intro z; rw [hl]; simp
    generalize hL : addReplace_loop1 isPrintI quoteI x ps oldPath oldVers (mvG old) (mvG new) tokens (fuel + 1) (pre.length : Int) h need
      ((acc.getD 0 : Nat) : Int) = L
    unfold addReplace_loop1 at hL
    rw [ho] at hL
    simp only [lt_len_mid, decide_true, if_true, idxL_mid, bind_ok, hg, replMatch_gen y oldPath oldVers] at hL
    rw [← ho, succ_len_snoc pre r] at hL
    subst hL
    simp only [firstRest]
    by_cases hm : replMatch oldPath oldVers y = true
    · simp only [hm, if_true]
      by_cases h0 : y.lineId = 0
      · simp only [deref, h0, nilId, beq_self_eq_true, if_true, bind, Except.bind]
        cases need with
        | false =>
          simp only [Bool.false_eq_true, if_false, replaceG_Syntax, h0]
          rw [Line_markRemoved_nil (by simp)]
        | true =>
          simp only [if_true]
          rw [heapSet_of_get _ hg]
          simp only [heapGet_listSet_same _ hg]
          rw [heapSet_listSet_same hg]
          simp only [heapGet_listSet_same _ hg, replaceG_Syntax, h0]
          rw [FileSyntax_updateLine_nil _ (by simp)]
      · have hd : deref y.lineId = .ok y.lineId := by simp [deref, nilId, h0]
        simp only [hd, bind, Except.bind]
        cases need with
        | true =>
          simp only [if_true]
          obtain ⟨l, hline, R'⟩ := updStep_repl R hr hx h0 old new tokens
          rw [hset1] at R'
          rw [heapSet_of_get _ hg]
          simp only [heapGet_listSet_same _ hg]
          rw [heapSet_listSet_same hg]
          simp only [heapGet_listSet_same _ hg, replaceG_Syntax]
          have hU := FileSyntax_updateLine_eq
            (h := { h with replaces := h.replaces.set (r.toNat - 1) (replaceG { y with old := old, new := new }) })
            (x := x) (l := l) (tokens := tokens) hline (fun _ => htok)
          have hobj : ({ Old := mvG old, New := mvG new, Syntax := (y.lineId : Int) } : Replace) = replaceG { y with old := old, new := new } := rfl
          rw [hobj, hU]
          dsimp only
          have ih := addReplace_loop_sim x ps oldPath oldVers old new tokens htok suf xsuf (pre ++ [r])
            (xpre ++ [{ y with old := old, new := new }]) _ _ fuel false acc R' (by simp [ho]) (by simp [hl]) (by simp at hf; omega)
          cases hc : firstRest (replMatch oldPath oldVers) (·.lineId) (fun r => { r with old := old, new := new })
              Modfile.Edit.clearedReplace xsuf false with
          | error err => rw [hc] at ih; simpa using ih
          | ok v =>
            obtain ⟨rest, first, dead⟩ := v
            have hfn := firstRest_false_first _ _ _ _ _ _ _ _ hc
            subst hfn
            rw [hc] at ih
            obtain ⟨h', hint', h1, _, hF, hL', h2⟩ := ih
            dsimp only [pure, Except.pure]
            refine ⟨h', hint', by simpa using h1, (fun _ hn => by cases hn), ?_, by simpa using hL', ?_⟩
            · exact (FrameR.trans (FrameR.setReplaces h _) (FrameR.setLineH _ _ _)).trans hF
            · simpa [firstSyn] using h2
        | false =>
          simp only [Bool.false_eq_true, if_false, replaceG_Syntax]
          obtain ⟨l, hline, R'⟩ := dropStep_replR R hr hx h0
          rw [hset1] at R'
          rw [Line_markRemoved_eq hline]
          dsimp only
          simp only [setLineH_replaces, hg, heapSet_of_get _ hg, heapGet_listSet_same _ hg]
          have ih := fun acc' => addReplace_loop_sim x ps oldPath oldVers old new tokens htok suf xsuf (pre ++ [r])
            (xpre ++ [Modfile.Edit.clearedReplace]) _ _ fuel false acc' R' (by simp [ho]) (by simp [hl]) (by simp at hf; omega)
          by_cases hp0 : (default : Replace).Old.Path = oldPath
          · rw [if_pos (decide_eq_true hp0)]
            rw [show (default : Replace).Syntax = ((((some 0 : Option Nat).getD 0 : Nat)) : Int) from rfl]
            have ih := ih (some 0)
            cases hc : firstRest (replMatch oldPath oldVers) (·.lineId) (fun r => { r with old := old, new := new })
                Modfile.Edit.clearedReplace xsuf false with
            | error err => rw [hc] at ih; simpa using ih
            | ok v =>
              obtain ⟨rest, first, dead⟩ := v
              have hfn := firstRest_false_first _ _ _ _ _ _ _ _ hc
              subst hfn
              rw [hc] at ih
              obtain ⟨h', hint', h1, _, hF, hL', h2⟩ := ih
              dsimp only [pure, Except.pure]
              refine ⟨h', hint', by simpa using h1, (fun hn => by cases hn), ?_, by simpa using hL', ?_⟩
              · exact (FrameR.trans (FrameR.setLineH h _ _) (FrameR.setReplaces _ _)).trans hF
              · simpa [firstSyn, markAll] using h2
          · rw [if_neg (by simpa using hp0)]
            have ih := ih acc
            cases hc : firstRest (replMatch oldPath oldVers) (·.lineId) (fun r => { r with old := old, new := new })
                Modfile.Edit.clearedReplace xsuf false with
            | error err => rw [hc] at ih; simpa using ih
            | ok v =>
              obtain ⟨rest, first, dead⟩ := v
              have hfn := firstRest_false_first _ _ _ _ _ _ _ _ hc
              subst hfn
              rw [hc] at ih
              obtain ⟨h', hint', h1, _, hF, hL', h2⟩ := ih
              dsimp only [pure, Except.pure]
              refine ⟨h', hint', by simpa using h1, (fun hn => by cases hn), ?_, by simpa using hL', ?_⟩
              · exact (FrameR.trans (FrameR.setLineH h _ _) (FrameR.setReplaces _ _)).trans hF
              · simpa [firstSyn, markAll] using h2
    · have hm' : replMatch oldPath oldVers y = false := by simpa using hm
      simp only [hm', Bool.false_eq_true, if_false]
      have ih := fun acc' => addReplace_loop_sim x ps oldPath oldVers old new tokens htok suf xsuf (pre ++ [r])
        (xpre ++ [y]) h fs fuel need acc' (by simpa using R) (by simp [ho]) (by simp [hl]) (by simp at hf; omega)
      by_cases hp : y.old.path = oldPath
      · rw [if_pos (show decide ((replaceG y).Old.Path = oldPath) = true from decide_eq_true hp)]
        rw [show (replaceG y).Syntax = ((((some y.lineId : Option Nat).getD 0 : Nat)) : Int) from rfl]
        have hp' : (y.old.path == oldPath) = true := by simpa using hp
        have ih := ih (some y.lineId)
        simp only [bind, Except.bind]
        cases hc : firstRest (replMatch oldPath oldVers) (·.lineId) (fun r => { r with old := old, new := new })
            Modfile.Edit.clearedReplace xsuf need with
        | error err => rw [hc] at ih; simpa using ih
        | ok v =>
          obtain ⟨rest, first, dead⟩ := v
          rw [hc] at ih
          obtain ⟨h', hint', h1, hh, hF, hL', h2⟩ := ih
          dsimp only [pure, Except.pure]
          refine ⟨h', hint', by simpa using h1, (fun hn hf' => ?_), hF, hL', by simpa using h2⟩
          have := hh hn hf'
          rw [this, lastWith_cons]
          simp [hp']
      · rw [if_neg (show ¬ (decide ((replaceG y).Old.Path = oldPath) = true) from fun hd => hp (of_decide_eq_true hd))]
        have hp' : (y.old.path == oldPath) = false := by simpa using hp
        have ih := ih acc
        simp only [bind, Except.bind]
        cases hc : firstRest (replMatch oldPath oldVers) (·.lineId) (fun r => { r with old := old, new := new })
            Modfile.Edit.clearedReplace xsuf need with
        | error err => rw [hc] at ih; simpa using ih
        | ok v =>
          obtain ⟨rest, first, dead⟩ := v
          rw [hc] at ih
          obtain ⟨h', hint', h1, hh, hF, hL', h2⟩ := ih
          dsimp only [pure, Except.pure]
          refine ⟨h', hint', by simpa using h1, (fun hn hf' => ?_), hF, hL', by simpa using h2⟩
          have := hh hn hf'
          rw [this, lastWith_cons]
          simp [hp']

/-- the tokens of a `replace` line -/
def replTokens (oldPath oldVers newPath newVers : Bytes) : List Bytes :=
  [B "replace", Modfile.autoQuote oldPath] ++ (if oldVers.isEmpty then [] else [oldVers]) ++
    [B "=>", Modfile.autoQuote newPath] ++ (if newVers.isEmpty then [] else [newVers])

theorem replTokens_ne (a b c d : Bytes) : replTokens a b c d ≠ [] := by simp [replTokens]

theorem replTokens_cons (a b c d : Bytes) : ∃ t0 trest, replTokens a b c d = t0 :: trest := ⟨_, _, rfl⟩

/-- `module.Version{Path: p, Version: v}` -/
def mkMV (p v : Bytes) : Modfile.ModVersion := { path := p, version := v }

/-- **`addReplace`** (rule.go:1513, shared by `File.AddReplace` and `WorkFile.AddReplace`) on the syntax graph `x` and the
    `Replace` pointer list `ps` = the model's `addReplaceCore` -/
theorem addReplace_sim (A : AddLinePtrSpec) {h : Heap} {x : Int} {ps : List Int} {fs : Modfile.FileSyntax} {rp : List Modfile.Replace}
    (R : RepR h x ps fs rp) (oldPath oldVers newPath newVers : Bytes) (fuel : Nat)
    (hf1 : oldPath.length + 1 ≤ fuel) (hf2 : newPath.length + 1 ≤ fuel) (hf3 : rp.length + 1 ≤ fuel)
    (hf4 : nodeCount fs.stmts + 3 ≤ fuel) :
    match Modfile.Edit.addReplaceCore fs rp (h.lines.length + 1) oldPath oldVers newPath newVers with
    | .ok (fs', rp', n') => ∃ h' ps', addReplace isPrintI quoteI fuel x ps oldPath oldVers newPath newVers h = .ok ((none, ps'), h') ∧
        RepR h' x ps' fs' rp' ∧ FrameR h h' ∧ n' = h'.lines.length + 1
    | .error _ => addReplace isPrintI quoteI fuel x ps oldPath oldVers newPath newVers h = .error .panic := by
  have hgen : addReplace isPrintI quoteI fuel x ps oldPath oldVers newPath newVers h = (do
      let r ← addReplace_loop1 isPrintI quoteI x ps oldPath oldVers (mvG (mkMV oldPath oldVers))
        (mvG (mkMV newPath newVers)) (replTokens oldPath oldVers newPath newVers) fuel 0 h true 0
      if r.2.2.1 then (do
        let t24 ← FileSyntax_addLine fuel x (Expr.Line r.2.2.2) (replTokens oldPath oldVers newPath newVers) r.2.1
        let a := heapAlloc t24.2.replaces (Replace.mk (mvG (mkMV oldPath oldVers)) (mvG (mkMV newPath newVers)) t24.1)
        pure ((none, ps ++ [a.1]), { t24.2 with replaces := a.2 }))
      else pure ((none, ps), r.2.1)) := by
    have hB1 : ([114, 101, 112, 108, 97, 99, 101] : Bytes) = B "replace" := by decide +kernel
    have hB2 : ([61, 62] : Bytes) = B "=>" := by decide +kernel
    unfold addReplace
    simp only [AutoQuote_ok oldPath fuel hf1, AutoQuote_ok newPath fuel hf2, bind_ok, hB1, hB2]
    cases oldVers <;> cases newVers <;> simp [replTokens] <;> rfl
  rw [hgen]
  have hcore : Modfile.Edit.addReplaceCore fs rp (h.lines.length + 1) oldPath oldVers newPath newVers = (do
      let (rp', first, dead) ← firstRest (replMatch oldPath oldVers) (·.lineId)
        (fun r => { r with old := mkMV oldPath oldVers, new := mkMV newPath newVers }) Modfile.Edit.clearedReplace rp true
      match first with
      | some i => pure (markAll (Modfile.Edit.updateLine fs i (replTokens oldPath oldVers newPath newVers)) dead, rp', h.lines.length + 1)
      | none => pure (addLinePtr fs (lastWith (fun r : Modfile.Replace => r.old.path == oldPath) (·.lineId) rp none)
          (replTokens oldPath oldVers newPath newVers) (h.lines.length + 1),
          rp' ++ [{ old := mkMV oldPath oldVers, new := mkMV newPath newVers, lineId := h.lines.length + 1 }], h.lines.length + 1 + 1)) := rfl
  rw [hcore]
  have hlen := R.replace.rel.length
  have hloop := addReplace_loop_sim x ps oldPath oldVers (mkMV oldPath oldVers) (mkMV newPath newVers)
    (replTokens oldPath oldVers newPath newVers) (replTokens_ne _ _ _ _) ps rp [] [] h fs fuel true none (by simpa using R) rfl rfl (by omega)
  simp only [List.length_nil, Option.getD_none, show ((0 : Nat) : Int) = 0 from rfl, List.nil_append] at hloop
  cases hc : firstRest (replMatch oldPath oldVers) (·.lineId)
      (fun r => { r with old := mkMV oldPath oldVers, new := mkMV newPath newVers }) Modfile.Edit.clearedReplace rp true with
  | error err => rw [hc] at hloop; simp [hloop, bind, Except.bind]
  | ok v =>
    obtain ⟨rest, first, dead⟩ := v
    rw [hc] at hloop
    obtain ⟨h', hint', h1, hh, hF, hL', h2⟩ := hloop
    rw [h1]
    simp only [bind, Except.bind]
    cases first with
    | some i =>
      simp only [Option.isNone_some, Bool.and_false, Bool.false_eq_true, if_false, pure, Except.pure]
      exact ⟨h', ps, rfl, by simpa [firstSyn] using h2, hF, by rw [hL']⟩
    | none =>
      obtain ⟨hr1, hd1⟩ := firstRest_true_none _ _ _ _ _ _ _ hc
      subst hr1 hd1
      have hhint := hh trivial rfl
      subst hhint
      simp only [firstSyn, markAll, List.foldl_nil] at h2
      obtain ⟨t0, trest, htk⟩ := replTokens_cons oldPath oldVers newPath newVers
      obtain ⟨h1', l, a1, F, hlen1, rs, ht, hG, hl, hnew, _⟩ := addLinePtr_syn A h2.syn h2.tok h2.linesG
        (lastWith (fun r : Modfile.Replace => r.old.path == oldPath) (·.lineId) rest none) t0 trest fuel hf4
      rw [← htk] at a1 rs ht
      simp only [Option.isNone_none, Bool.and_true, if_true, a1, pure, Except.pure, heapAlloc]
      have R1 : RepR h1' x ps _ rest := ⟨rs, ht, hG, h2.replace.mono (get_of_eq F.replaces) (by omega)⟩
      have R2 := R1.pushReplace { old := mkMV oldPath oldVers, new := mkMV newPath newVers, lineId := h'.lines.length + 1 } (by simp [hlen1])
      refine ⟨_, _, rfl, ?_, ?_, ?_⟩
      · rw [← hL']; exact R2
      · exact hF.trans ((FrameR.ofFrame F (by omega)).trans (FrameR.setReplaces _ _))
      · simp [hlen1, hL']

/-- the same in the form "for every result of the model" -/
theorem addReplace_sim' (A : AddLinePtrSpec) {h : Heap} {x : Int} {ps : List Int} {fs : Modfile.FileSyntax} {rp : List Modfile.Replace}
    (R : RepR h x ps fs rp) (oldPath oldVers newPath newVers : Bytes) (fuel : Nat)
    (hf1 : oldPath.length + 1 ≤ fuel) (hf2 : newPath.length + 1 ≤ fuel) (hf3 : rp.length + 1 ≤ fuel)
    (hf4 : nodeCount fs.stmts + 3 ≤ fuel) :
    (∀ fs' rp' n', Modfile.Edit.addReplaceCore fs rp (h.lines.length + 1) oldPath oldVers newPath newVers = .ok (fs', rp', n') →
      ∃ h' ps', addReplace isPrintI quoteI fuel x ps oldPath oldVers newPath newVers h = .ok ((none, ps'), h') ∧
        RepR h' x ps' fs' rp' ∧ FrameR h h' ∧ n' = h'.lines.length + 1) ∧
    (∀ er, Modfile.Edit.addReplaceCore fs rp (h.lines.length + 1) oldPath oldVers newPath newVers = .error er →
      addReplace isPrintI quoteI fuel x ps oldPath oldVers newPath newVers h = .error .panic) := by
  have := addReplace_sim A R oldPath oldVers newPath newVers fuel hf1 hf2 hf3 hf4
  constructor
  · intro fs' rp' n' hc; rw [hc] at this; exact this
  · intro er hc; rw [hc] at this; exact this


/-- `File.AddReplace` (rule.go:1509) -/
theorem File_AddReplace_sim (A : AddLinePtrSpec) {h : Heap} {fp : Int} {e : EFile} (R : RepF h fp e)
    (oldPath oldVers newPath newVers : Bytes) (fuel : Nat)
    (hf1 : oldPath.length + 1 ≤ fuel) (hf2 : newPath.length + 1 ≤ fuel) (hf3 : e.f.replace.length + 1 ≤ fuel)
    (hf4 : nodeCount e.f.syn.stmts + 3 ≤ fuel) :
    match Modfile.Edit.addReplace e oldPath oldVers newPath newVers with
    | .ok e' => ∃ h', File_AddReplace isPrintI quoteI fuel fp oldPath oldVers newPath newVers h = .ok (none, h') ∧ RepF h' fp e'
    | .error _ => File_AddReplace isPrintI quoteI fuel fp oldPath oldVers newPath newVers h = .error .panic := by
  obtain ⟨o, ho, R⟩ := R
  have hs := addReplace_sim A (RepFAt.toRepR R) oldPath oldVers newPath newVers fuel hf1 hf2 hf3 hf4
  unfold File_AddReplace Modfile.Edit.addReplace
  simp only [ho, bind_ok]
  rw [R.next]
  cases hc : Modfile.Edit.addReplaceCore e.f.syn e.f.replace (h.lines.length + 1) oldPath oldVers newPath newVers with
  | error err => rw [hc] at hs; simp [hs, bind, Except.bind]
  | ok v =>
    obtain ⟨fs', rp', n'⟩ := v
    rw [hc] at hs
    obtain ⟨h', ps', h1, Rr, hF, hn⟩ := hs
    have R' := RepFAt.ofRepR R hF Rr
    have hg1 : heapGet h'.mods fp = .ok o := by rw [hF.mods]; exact ho
    obtain ⟨m, hset, RF⟩ := RepF.ofSetMods (h := h') (fp := fp) (o := o) hg1 R'
    simp only [h1, bind_ok, hg1, hset, pure_eq_ok, bind, Except.bind, pure, Except.pure]
    refine ⟨_, rfl, ?_⟩
    rw [hn]; exact RF

end ModVerif.Tie.FnEditReqD
