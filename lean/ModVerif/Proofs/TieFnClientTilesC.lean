/-
  Tie proofs for the regenerated sumdb client, tiles part C: `tileReader_SaveTiles` (its two loops) = the model's
  `saveTiles`.  The Go code first marks (loop 1, computing the `save` flags), then writes (loop 2); the model marks and
  writes tile by tile.  `saveTiles_split`: the model's function is "mark all, then write the flagged ones" (marking only
  changes `c.tileSaved`, writing only the state and the trace).
-/
import ModVerif.Proofs.TieFnClientTilesB
set_option linter.unusedSectionVars false
set_option linter.unusedVariables false
namespace ModVerif.TieFnClientTiles
open ModVerif ModVerif.GoRt ModVerif.GoRtTile ModVerif.Generated.SumdbClient ModVerif.TieFnClientRep
open ModVerif.TieFnTile (toGen ofGen GTile)

/-! ### the model's `saveTiles`, factored -/

/-- the `save` flags of loop 1 -/
def flagsOf : List Tile.Tile → List Tile.Tile → List Bool
  | _, [] => []
  | saved, t :: ts => if saved.contains t then false :: flagsOf saved ts else true :: flagsOf (t :: saved) ts

/-- `c.tileSaved` after loop 1 -/
def savedAfter : List Tile.Tile → List Tile.Tile → List Tile.Tile
  | saved, [] => saved
  | saved, t :: ts => if saved.contains t then savedAfter saved ts else savedAfter (t :: saved) ts

theorem flagsOf_length : ∀ (ts saved : List Tile.Tile), (flagsOf saved ts).length = ts.length := by
  intro ts
  induction ts with
  | nil => intro _; rfl
  | cons t ts ih =>
    intro saved
    simp only [flagsOf]
    split <;> simp [ih]

section
variable {σ H : Type}

/-- loop 2: the flagged tiles are written, in order -/
def writeFlagged (E : Client.Env σ) (name : Bytes) : Client.World σ H → List (Tile.Tile × Bytes) → List Bool → Client.World σ H
  | w, (t, d) :: rest, true :: fs => writeFlagged E name (Client.writeCache E w (Client.tileCacheKey name t) d) rest fs
  | w, _ :: rest, false :: fs => writeFlagged E name w rest fs
  | w, _, _ => w

theorem writeFlagged_c (E : Client.Env σ) (name : Bytes) : ∀ (l : List (Tile.Tile × Bytes)) (fs : List Bool)
    (w : Client.World σ H), (writeFlagged E name w l fs).c = w.c := by
  intro l
  induction l with
  | nil => intro fs w; cases fs <;> rfl
  | cons p l ih =>
    intro fs w
    obtain ⟨t, d⟩ := p
    cases fs with
    | nil => rfl
    | cons f fs =>
      cases f with
      | true => simp only [writeFlagged]; rw [ih]; rfl
      | false => simp only [writeFlagged]; rw [ih]

/-- writing does not look at the client -/
theorem writeFlagged_setc (E : Client.Env σ) (name : Bytes) : ∀ (l : List (Tile.Tile × Bytes)) (fs : List Bool)
    (w : Client.World σ H) (c' : Client.Client H),
    writeFlagged E name { w with c := c' } l fs = { writeFlagged E name w l fs with c := c' } := by
  intro l
  induction l with
  | nil => intro fs w c'; cases fs <;> rfl
  | cons p l ih =>
    intro fs w c'
    obtain ⟨t, d⟩ := p
    cases fs with
    | nil => rfl
    | cons f fs =>
      cases f with
      | true =>
        simp only [writeFlagged]
        exact ih fs (Client.writeCache E w (Client.tileCacheKey name t) d) c'
      | false => simp only [writeFlagged]; exact ih fs w c'

/-- `saveTiles` = mark all (loop 1), then write the flagged tiles (loop 2) -/
theorem saveTiles_split (E : Client.Env σ) : ∀ (l : List (Tile.Tile × Bytes)) (w : Client.World σ H),
    Client.saveTiles E w l =
      { writeFlagged E w.c.name w l (flagsOf w.c.tileSaved (l.map (·.1))) with
        c := { w.c with tileSaved := savedAfter w.c.tileSaved (l.map (·.1)) } } := by
  intro l
  induction l with
  | nil => intro w; rfl
  | cons p l ih =>
    intro w
    obtain ⟨t, d⟩ := p
    simp only [Client.saveTiles, List.map_cons, flagsOf, savedAfter]
    by_cases hct : w.c.tileSaved.contains t = true
    · simp only [hct, if_true, writeFlagged]
      exact ih w
    · simp only [hct, Bool.false_eq_true, if_false, writeFlagged]
      rw [ih]
      have e : Client.writeCache E (Client.markTileSaved w t) (Client.tileCacheKey w.c.name t) d =
          { Client.writeCache E w (Client.tileCacheKey w.c.name t) d with
            c := { w.c with tileSaved := t :: w.c.tileSaved } } := rfl
      rw [e, writeFlagged_setc]

end

section
variable {σ H : Type} [DecidableEq H] [Inhabited H] {P : Client.Params H} {E : Client.Env σ}

/-! ### loop 1: marking -/

theorem save_loop1 (cw : GW σ H) : ∀ (rest pre : List Tile.Tile) (spre : List Bool) (saved : List Tile.Tile)
    (ts : List (GTile × Bool)) (fuel : Nat),
    (∀ t ∈ rest, TOk t) → spre.length = pre.length →
    (∀ u, TOk u → (mapGet ts (toGen u) false).1 = saved.contains u) → rest.length + 1 ≤ fuel →
    ∃ ts', tileReader_SaveTiles_loop1 (envOf P E) ((pre ++ rest).map toGen) fuel ((pre.length : Nat) : Int)
          (spre ++ List.replicate rest.length false) { cw with tileSaved := ts } =
        .ok ((((pre.length + rest.length : Nat)) : Int), spre ++ flagsOf saved rest, { cw with tileSaved := ts' }) ∧
      ∀ u, TOk u → (mapGet ts' (toGen u) false).1 = (savedAfter saved rest).contains u := by
  intro rest
  induction rest with
  | nil =>
    intro pre spre saved ts fuel _ hs hsv hf
    obtain ⟨f, rfl⟩ : ∃ f, fuel = f + 1 := ⟨fuel - 1, by omega⟩
    refine ⟨ts, ?_, hsv⟩
    rw [tileReader_SaveTiles_loop1]
    have : decide (((pre.length : Nat) : Int) < len (List.map toGen (pre ++ []))) = false := by simp [len]
    rw [this]
    simp [flagsOf]
  | cons t rest ih =>
    intro pre spre saved ts fuel hr hs hsv hf
    obtain ⟨f, rfl⟩ : ∃ f, fuel = f + 1 := ⟨fuel - 1, by simp at hf; omega⟩
    have hf' : rest.length + 1 ≤ f := by simp at hf; omega
    have ht : TOk t := hr t (by simp)
    rw [tileReader_SaveTiles_loop1]
    have hmap : (pre ++ t :: rest).map toGen = pre.map toGen ++ toGen t :: rest.map toGen := by simp
    have hlt : decide (((pre.length : Nat) : Int) < len (List.map toGen (pre ++ t :: rest))) = true := by
      rw [hmap]; have := lt_len_mid (pre.map toGen) (toGen t) (rest.map toGen); simpa using this
    rw [hlt, if_pos rfl]
    have hidx : idxL (List.map toGen (pre ++ t :: rest)) ((pre.length : Nat) : Int) = .ok (toGen t) := by
      rw [hmap]; have := idxL_mid (pre.map toGen) (toGen t) (rest.map toGen); simpa using this
    rw [hidx, mbind_ok]
    have hidx1 : ((pre.length : Nat) : Int) + 1 = (((pre ++ [t]).length : Nat) : Int) := by simp
    have htl : pre ++ t :: rest = (pre ++ [t]) ++ rest := by simp
    simp only []
    rw [hsv t ht]
    by_cases hct : saved.contains t = true
    · simp only [hct, Bool.not_true, Bool.false_eq_true, if_false, flagsOf, savedAfter, if_true]
      have hsave : spre ++ List.replicate (t :: rest).length false = (spre ++ [false]) ++ List.replicate rest.length false := by
        simp [List.replicate_succ]
      rw [hidx1, htl, hsave]
      obtain ⟨ts', g1, g2⟩ := ih (pre ++ [t]) (spre ++ [false]) saved ts f (fun u hu => hr u (by simp [hu]))
        (by simp [hs]) hsv hf'
      refine ⟨ts', ?_, g2⟩
      rw [g1]
      simp [Nat.add_assoc, Nat.add_comm 1]
    · have hct' : saved.contains t = false := by simpa using hct
      simp only [hct', Bool.not_false, if_true, flagsOf, savedAfter, Bool.false_eq_true, if_false]
      have hsave : setIdxL (spre ++ List.replicate (t :: rest).length false) ((pre.length : Nat) : Int) true =
          .ok ((spre ++ [true]) ++ List.replicate rest.length false) := by
        rw [← hs]
        have := setIdxL_mid spre false true (List.replicate rest.length false)
        simpa [List.replicate_succ] using this
      rw [hsave, mbind_ok, hidx1, htl]
      obtain ⟨ts', g1, g2⟩ := ih (pre ++ [t]) (spre ++ [true]) (t :: saved) (mapSet ts (toGen t) true) f
        (fun u hu => hr u (by simp [hu])) (by simp [hs])
        (by
          intro u hu
          rw [TieFnNote.mapGet_mapSet_true, contains_cons_tile, hsv u hu]
          congr 1
          by_cases e : t = u
          · subst e; simp
          · have : ¬ toGen t = toGen u := fun e' => e (toGen_inj t u ht hu e')
            simp [e, this]) hf'
      refine ⟨ts', ?_, g2⟩
      show tileReader_SaveTiles_loop1 (envOf P E) _ f _ _ { cw with tileSaved := mapSet ts (toGen t) true } = _
      rw [g1]
      simp [Nat.add_assoc, Nat.add_comm 1]

/-! ### loop 2: writing -/

theorem withS_withS (cw : GW σ H) (a b : Client.World σ H) : withS (withS cw a) b = withS cw b := rfl

theorem save_loop2 : ∀ (rest pre : List Tile.Tile) (drest dpre : List Bytes) (fs spre : List Bool)
    (w : Client.World σ H) (cw : GW σ H) (fuel : Nat),
    (∀ t ∈ rest, t.h ≤ 62 ∧ t.n < 2 ^ 63) → drest.length = rest.length → fs.length = rest.length →
    dpre.length = pre.length → spre.length = pre.length → cw.s = (w.s, w.tr) → rest.length + 9 ≤ fuel →
    tileReader_SaveTiles_loop2 (envOf P E) ((pre ++ rest).map toGen) (dpre ++ drest) (spre ++ fs) fuel
        ((pre.length : Nat) : Int) cw =
      .ok ((((pre.length + rest.length : Nat)) : Int), withS cw (writeFlagged E cw.name w (rest.zip drest) fs)) := by
  intro rest
  induction rest with
  | nil =>
    intro pre drest dpre fs spre w cw fuel _ hd hfs _ _ hs hf
    obtain ⟨f, rfl⟩ : ∃ f, fuel = f + 1 := ⟨fuel - 1, by omega⟩
    rw [tileReader_SaveTiles_loop2]
    have : decide (((pre.length : Nat) : Int) < len (List.map toGen (pre ++ []))) = false := by simp [len]
    rw [this]
    have e : withS cw (writeFlagged E cw.name w ([].zip drest) fs) = cw := by
      have : writeFlagged E cw.name w ([].zip drest) fs = w := by simp [writeFlagged]
      rw [this]
      cases cw
      simp only at hs
      subst hs
      rfl
    rw [e]
    simp
  | cons t rest ih =>
    intro pre drest dpre fs spre w cw fuel hr hd hfs hdp hsp hs hf
    obtain ⟨f, rfl⟩ : ∃ f, fuel = f + 1 := ⟨fuel - 1, by simp at hf; omega⟩
    have hf' : rest.length + 9 ≤ f := by simp at hf; omega
    obtain ⟨hth, htn⟩ := hr t (by simp)
    obtain ⟨d, drest, rfl⟩ : ∃ d dr, drest = d :: dr := by
      cases drest with
      | nil => simp at hd
      | cons d dr => exact ⟨d, dr, rfl⟩
    obtain ⟨b, fs, rfl⟩ : ∃ b fr, fs = b :: fr := by
      cases fs with
      | nil => simp at hfs
      | cons b fr => exact ⟨b, fr, rfl⟩
    rw [tileReader_SaveTiles_loop2]
    have hmap : (pre ++ t :: rest).map toGen = pre.map toGen ++ toGen t :: rest.map toGen := by simp
    have hlt : decide (((pre.length : Nat) : Int) < len (List.map toGen (pre ++ t :: rest))) = true := by
      rw [hmap]; have := lt_len_mid (pre.map toGen) (toGen t) (rest.map toGen); simpa using this
    rw [hlt, if_pos rfl]
    have hidx : idxL (List.map toGen (pre ++ t :: rest)) ((pre.length : Nat) : Int) = .ok (toGen t) := by
      rw [hmap]; have := idxL_mid (pre.map toGen) (toGen t) (rest.map toGen); simpa using this
    have hidxs : idxL (spre ++ b :: fs) ((pre.length : Nat) : Int) = .ok b := by rw [← hsp]; exact idxL_mid _ _ _
    have hidxd : idxL (dpre ++ d :: drest) ((pre.length : Nat) : Int) = .ok d := by rw [← hdp]; exact idxL_mid _ _ _
    generalize hWC : (envOf P E).writeCache = WC
    rw [hidx, mbind_ok]
    simp only []
    rw [hidxs, mbind_ok]
    have hidx1 : ((pre.length : Nat) : Int) + 1 = (((pre ++ [t]).length : Nat) : Int) := by simp
    have htl : pre ++ t :: rest = (pre ++ [t]) ++ rest := by simp
    have hdl : dpre ++ d :: drest = (dpre ++ [d]) ++ drest := by simp
    have hsl : spre ++ b :: fs = (spre ++ [b]) ++ fs := by simp
    cases b with
    | true =>
      simp only [if_true]
      rw [tilePathX_eq f t hth htn (by omega), mbind_ok, hidxd, mbind_ok]
      have hwc : WC (cw.name ++ [47] ++ Tile.tilePath t) d cw =
          ((), withS cw (Client.writeCache E w (Client.tileCacheKey cw.name t) d)) := by
        rw [← hWC]; exact writeCache_eq hs _ _
      rw [hwc]
      simp only []
      rw [hidx1, htl, hdl, hsl]
      rw [ih (pre ++ [t]) drest (dpre ++ [d]) fs (spre ++ [true]) (Client.writeCache E w (Client.tileCacheKey cw.name t) d)
        (withS cw (Client.writeCache E w (Client.tileCacheKey cw.name t) d)) f (fun u hu => hr u (by simp [hu]))
        (by simpa using hd) (by simpa using hfs) (by simp [hdp]) (by simp [hsp]) rfl hf']
      simp [writeFlagged, withS_withS, Nat.add_assoc, Nat.add_comm 1]
    | false =>
      simp only [Bool.false_eq_true, if_false]
      rw [hidx1, htl, hdl, hsl]
      rw [ih (pre ++ [t]) drest (dpre ++ [d]) fs (spre ++ [false]) w cw f (fun u hu => hr u (by simp [hu]))
        (by simpa using hd) (by simpa using hfs) (by simp [hdp]) (by simp [hsp]) hs hf']
      simp [writeFlagged, Nat.add_assoc, Nat.add_comm 1]

/-! ### SaveTiles -/

/-- `tileReader_SaveTiles` = `saveTiles` -/
theorem SaveTiles_eq {w : Client.World σ H} {cw : GW σ H} (hc : RepCore P E w cw) (tiles : List Tile.Tile)
    (data : List Bytes) (hlen : data.length = tiles.length) (hr : ∀ t ∈ tiles, TRange t) (fuel : Nat)
    (hf : tiles.length + 9 ≤ fuel) :
    ∃ cw', tileReader_SaveTiles (envOf P E) fuel (tiles.map toGen) data cw = .ok ((), cw') ∧
      RepCore P E (Client.saveTiles E w (tiles.zip data)) cw' ∧
      FrameG cw cw' ∧ FrameM w (Client.saveTiles E w (tiles.zip data)) ∧ cw'.tileCache = cw.tileCache ∧
      (Client.saveTiles E w (tiles.zip data)).c.tileCache = w.c.tileCache := by
  unfold tileReader_SaveTiles
  have hlenT : len (List.map toGen tiles) = ((tiles.length : Nat) : Int) := by simp [len]
  rw [hlenT, makeList_natCast, mbind_ok]
  have hcw : cw = { cw with tileSaved := cw.tileSaved } := rfl
  obtain ⟨ts', h1, h2⟩ := save_loop1 (P := P) (E := E) cw tiles [] [] w.c.tileSaved cw.tileSaved fuel
    (fun t ht => (hr t ht).ok) rfl hc.tileSaved (by omega)
  simp only [List.nil_append, List.length_nil, Nat.zero_add] at h1
  have h0 : (0 : Int) = ((0 : Nat) : Int) := rfl
  simp only []
  rw [h0, hcw, h1, mbind_ok]
  simp only []
  have hl2 := save_loop2 (P := P) (E := E) tiles [] data [] (flagsOf w.c.tileSaved tiles) [] w
    ({ cw with tileSaved := ts' }) fuel (fun t ht => ⟨(hr t ht).h, (hr t ht).n⟩) hlen (flagsOf_length _ _) rfl rfl hc.s hf
  simp only [List.nil_append, List.length_nil, Nat.zero_add] at hl2
  rw [hl2, mbind_ok]
  have hmapfst : (tiles.zip data).map (·.1) = tiles := by
    rw [List.map_fst_zip]; omega
  have hsplit := saveTiles_split E (tiles.zip data) w
  rw [hmapfst] at hsplit
  have hname : cw.name = w.c.name := hc.name
  refine ⟨_, rfl, ?_, ⟨rfl, rfl, rfl, rfl, rfl, rfl, rfl, rfl, rfl, rfl⟩, ?_, rfl, ?_⟩
  · rw [hsplit]
    show RepCore P E _ (withS { cw with tileSaved := ts' } (writeFlagged E cw.name w (tiles.zip data) (flagsOf w.c.tileSaved tiles)))
    rw [hname]
    exact { s := rfl, name := rfl, verifiers := hc.verifiers, vlen := hc.vlen, nosumdb := hc.nosumdb,
            record := hc.record, tileCache := hc.tileCache, latestN := hc.latestN, latestMsg := hc.latestMsg,
            tileSaved := h2 }
  · rw [hsplit]; exact ⟨rfl, rfl, rfl, rfl, rfl, rfl⟩
  · rw [hsplit]

end
end ModVerif.TieFnClientTiles
