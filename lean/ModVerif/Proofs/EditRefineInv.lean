/-
  EditRefine, part 12 — the typed lists and the syntax tree describe the same directives (C15, tree half).

  `entries f`: one `Ent` per live typed entry — the id of its syntax line and what that line must look like
  (`acc`: the full tokens render the entry: verb, AutoQuoted path, version, …; for a requirement also: the
  end-of-line comment carries the `// indirect` marker iff the entry is indirect).
  `Match es vs`: the entries point at pairwise different live lines of the tree, each line is as its entry says,
  and every live line of the tree belongs to an entry.  `Inv e` = tree well-formedness + `Match`.
  This file: the definitions, the generic frame lemmas, and the functional form of the shared loops.
-/
import ModVerif.Proofs.EditRefineTree
set_option linter.unusedSimpArgs false
namespace ModVerif.Modfile.Edit
open ModVerif ModVerif.Modfile

structure Ent where
  id : Nat
  acc : List Bytes → List Comment → Prop

/-- `isIndirect` only looks at the end-of-line comments -/
def isIndirectS (s : List Comment) : Bool := isIndirect { comments := { suffix := s } }

theorem isIndirect_eq (l : Line) : isIndirect l = isIndirectS l.comments.suffix := rfl

/-- a token that is the value itself or its AutoQuoted form -/
def tokIs (x v : Bytes) : Prop := x = v ∨ x = autoQuote v

def replaceToks (r : Replace) : List Bytes :=
  [B "replace", autoQuote r.old.path] ++ (if r.old.version.isEmpty then [] else [r.old.version]) ++
    [B "=>", autoQuote r.new.path] ++ (if r.new.version.isEmpty then [] else [r.new.version])

def entM (m : Module) : Ent := ⟨m.lineId, fun t _ => t = [B "module", autoQuote m.mod.path]⟩
def entGo (g : Go) : Ent := ⟨g.lineId, fun t _ => t = [B "go", g.version]⟩
def entTc (t : Toolchain) : Ent := ⟨t.lineId, fun tk _ => tk = [B "toolchain", t.name]⟩
def entG (g : Godebug) : Ent := ⟨g.lineId, fun t _ => t = [B "godebug", g.key ++ [61] ++ g.value]⟩
def entRq (r : Require) : Ent :=
  ⟨r.lineId, fun t s => t = [B "require", autoQuote r.mod.path, r.mod.version] ∧ isIndirectS s = r.indirect⟩
def entX (x : Exclude) : Ent := ⟨x.lineId, fun t _ => t = [B "exclude", autoQuote x.mod.path, x.mod.version]⟩
def entRp (r : Replace) : Ent := ⟨r.lineId, fun t _ => t = replaceToks r⟩
def entRt (r : Retract) : Ent :=
  ⟨r.lineId, fun t _ => (∃ x, t = [B "retract", x] ∧ tokIs x r.interval.low ∧ r.interval.low = r.interval.high) ∨
    (∃ x y, t = [B "retract", [91], x, [44], y, [93]] ∧ tokIs x r.interval.low ∧ tokIs y r.interval.high)⟩
def entT (t : Tool) : Ent := ⟨t.lineId, fun tk _ => ∃ x, tk = [B "tool", x] ∧ tokIs x t.path⟩
def entU (u : Use) : Ent := ⟨u.lineId, fun t _ => t = [B "use", autoQuote u.path]⟩

def entsOf {α : Type} (live : α → Bool) (mk : α → Ent) (l : List α) : List Ent := (l.filter live).map mk

def entries (f : File) : List Ent :=
  f.module.toList.map entM ++ (f.go.toList.map entGo ++ (f.toolchain.toList.map entTc ++
  (entsOf liveG entG f.godebug ++ (entsOf liveRq entRq f.require ++ (entsOf liveX entX f.exclude ++
  (entsOf liveRp entRp f.replace ++ (entsOf liveRt entRt f.retract ++ entsOf liveT entT f.tool)))))))

structure Match (es : List Ent) (vs : List VLine) : Prop where
  nodup : (es.map (·.id)).Nodup
  cover : ∀ en ∈ es, ∃ v ∈ vs, v.id = en.id ∧ en.acc v.toks v.suffix
  surj : ∀ v ∈ vs, ∃ en ∈ es, en.id = v.id

/-- **The tree invariant**: a well-formed tree whose live lines are exactly the renderings of the live typed entries -/
structure Inv (e : EFile) : Prop where
  tree : TreeWF e.f.syn.stmts e.next
  mtch : Match (entries e.f) (view e.f.syn.stmts)
  tinv : TInv e

/-! ### generic frame lemmas -/

theorem Match.ids_lt {es : List Ent} {stmts : List Expr} {next : Nat} (h : Match es (view stmts)) (hw : TreeWF stmts next) :
    ∀ en ∈ es, en.id < next := by
  intro en hen
  rcases h.cover en hen with ⟨v, hv, hid, _⟩
  rw [← hid]; exact hw.lt _ (view_id_mem_treeIds hv)

/-- change one segment `K` of the entries and the lines with ids in `S` -/
theorem Match.frame {A K K' C : List Ent} {vs vs' : List VLine} (S : List Nat)
    (h : Match (A ++ (K ++ C)) vs)
    (hout : ∀ v, v.id ∉ S → (v ∈ vs' ↔ v ∈ vs))
    (hS : ∀ i ∈ S, i ∈ K.map (·.id) ∨ ∀ en ∈ A ++ (K ++ C), en.id ≠ i)
    (hK'nd : (K'.map (·.id)).Nodup)
    (hK'ids : ∀ en' ∈ K', en'.id ∈ K.map (·.id) ∨ ∀ en ∈ A ++ (K ++ C), en.id ≠ en'.id)
    (hcov : ∀ en' ∈ K', ∃ v ∈ vs', v.id = en'.id ∧ en'.acc v.toks v.suffix)
    (hsurjS : ∀ v ∈ vs', v.id ∈ S → ∃ en' ∈ K', en'.id = v.id)
    (hkeep : ∀ en ∈ K, en.id ∉ S → ∃ en' ∈ K', en'.id = en.id) :
    Match (A ++ (K' ++ C)) vs' := by
  have hnd := h.nodup
  simp only [List.map_append] at hnd
  rcases List.nodup_append.1 hnd with ⟨ndA, ndKC, disA⟩
  rcases List.nodup_append.1 ndKC with ⟨ndK, ndC, disKC⟩
  -- an id of A or C is not in S
  have hAC : ∀ en, (en ∈ A ∨ en ∈ C) → en.id ∉ S := by
    intro en hen hs
    rcases hS en.id hs with hk | hfresh
    · rcases hen with ha | hc
      · exact disA en.id (List.mem_map.2 ⟨en, ha, rfl⟩) en.id (List.mem_append_left _ hk) rfl
      · exact disKC en.id hk en.id (List.mem_map.2 ⟨en, hc, rfl⟩) rfl
    · rcases hen with ha | hc
      · exact hfresh en (List.mem_append_left _ ha) rfl
      · exact hfresh en (List.mem_append_right _ (List.mem_append_right _ hc)) rfl
  refine ⟨?_, ?_, ?_⟩
  · simp only [List.map_append]
    apply List.nodup_append.2
    refine ⟨ndA, ?_, ?_⟩
    · apply List.nodup_append.2
      refine ⟨hK'nd, ndC, ?_⟩
      intro a ha b hb e
      rcases List.mem_map.1 ha with ⟨en', hen', rfl⟩
      rcases hK'ids en' hen' with hk | hfresh
      · exact disKC _ hk _ hb e
      · rcases List.mem_map.1 hb with ⟨en, hen, rfl⟩
        exact hfresh en (List.mem_append_right _ (List.mem_append_right _ hen)) e.symm
    · intro a ha b hb e
      rcases List.mem_append.1 hb with hb | hb
      · rcases List.mem_map.1 hb with ⟨en', hen', rfl⟩
        rcases hK'ids en' hen' with hk | hfresh
        · exact disA a ha _ (List.mem_append_left _ hk) e
        · rcases List.mem_map.1 ha with ⟨en, hen, rfl⟩
          exact hfresh en (List.mem_append_left _ hen) e
      · exact disA a ha b (List.mem_append_right _ hb) e
  · intro en hen
    rcases List.mem_append.1 hen with ha | hkc
    · rcases h.cover en (List.mem_append_left _ ha) with ⟨v, hv, hid, hacc⟩
      exact ⟨v, (hout v (by rw [hid]; exact hAC en (Or.inl ha))).2 hv, hid, hacc⟩
    · rcases List.mem_append.1 hkc with hk | hc
      · exact hcov en hk
      · rcases h.cover en (List.mem_append_right _ (List.mem_append_right _ hc)) with ⟨v, hv, hid, hacc⟩
        exact ⟨v, (hout v (by rw [hid]; exact hAC en (Or.inr hc))).2 hv, hid, hacc⟩
  · intro v hv
    by_cases hs : v.id ∈ S
    · rcases hsurjS v hv hs with ⟨en', hen', hid⟩
      exact ⟨en', List.mem_append_right _ (List.mem_append_left _ hen'), hid⟩
    · rcases h.surj v ((hout v hs).1 hv) with ⟨en, hen, hid⟩
      rcases List.mem_append.1 hen with ha | hkc
      · exact ⟨en, List.mem_append_left _ ha, hid⟩
      · rcases List.mem_append.1 hkc with hk | hc
        · rcases hkeep en hk (by rw [hid]; exact hs) with ⟨en', hen', hid'⟩
          exact ⟨en', List.mem_append_right _ (List.mem_append_left _ hen'), hid'.trans hid⟩
        · exact ⟨en, List.mem_append_right _ (List.mem_append_right _ hc), hid⟩

/-- the same lines in another order -/
theorem Match.perm {es : List Ent} {vs vs' : List VLine} (h : Match es vs) (hp : vs'.Perm vs) : Match es vs' :=
  ⟨h.nodup, fun en hen => by rcases h.cover en hen with ⟨v, hv, r⟩; exact ⟨v, hp.symm.subset hv, r⟩,
   fun v hv => h.surj v (hp.subset hv)⟩

/-- drop the entries and the lines with ids in a kill list -/
theorem Match.filter {es : List Ent} {vs : List VLine} (h : Match es vs) (kill : List Nat) :
    Match (es.filter fun en => !kill.contains en.id) (vs.filter fun v => !kill.contains v.id) := by
  refine ⟨List.Nodup.sublist (List.filter_sublist.map _) h.nodup, ?_, ?_⟩
  · intro en hen
    rcases List.mem_filter.1 hen with ⟨h1, h2⟩
    rcases h.cover en h1 with ⟨v, hv, hid, hacc⟩
    exact ⟨v, List.mem_filter.2 ⟨hv, by rw [hid]; exact h2⟩, hid, hacc⟩
  · intro v hv
    rcases List.mem_filter.1 hv with ⟨h1, h2⟩
    rcases h.surj v h1 with ⟨en, hen, hid⟩
    exact ⟨en, List.mem_filter.2 ⟨hen, by rw [hid]; exact h2⟩, hid⟩

/-! ### the shared loops, element by element -/

section loopmem
variable {α : Type} (m : α → Bool) (id : α → Nat) (upd : α → α) (cleared : α) (live : α → Bool)

theorem clearAll_mem (hc : live cleared = false) (l : List α) : ∀ (l' : List α) (dead : List Nat),
    clearAll m id cleared l = .ok (l', dead) →
    (∀ y ∈ l', live y = true → y ∈ l ∧ m y = false) ∧ (∀ x ∈ l, m x = false → x ∈ l') ∧
    (∀ x ∈ l, m x = true → id x ∈ dead) ∧ (∀ d ∈ dead, ∃ x ∈ l, m x = true ∧ id x = d) := by
  induction l with
  | nil =>
    intro l' dead h; simp [clearAll] at h; rcases h with ⟨rfl, rfl⟩
    exact ⟨fun _ h => (by cases h), fun _ h => (by cases h), fun _ h => (by cases h), fun _ h => (by cases h)⟩
  | cons x xs ih =>
    intro l' dead h
    unfold clearAll at h
    by_cases hmx : m x = true
    · simp only [hmx, if_true, bind, Except.bind] at h
      cases hd : deref (id x) with
      | error e => simp [hd] at h
      | ok i =>
        have hi : i = id x := by
          unfold deref at hd; split at hd <;> simp at hd; exact hd.symm
        cases hr : clearAll m id cleared xs with
        | error e => simp [hd, hr] at h
        | ok r =>
          rcases r with ⟨rest, dead'⟩
          simp [hd, hr, pure, Except.pure] at h
          rcases h with ⟨rfl, rfl⟩
          rcases ih rest dead' hr with ⟨h1, h2, h3, h4⟩
          refine ⟨?_, ?_, ?_, ?_⟩
          · intro y hy hl
            rcases List.mem_cons.1 hy with rfl | hy
            · rw [hc] at hl; cases hl
            · exact ⟨List.mem_cons_of_mem _ (h1 y hy hl).1, (h1 y hy hl).2⟩
          · intro y hy hm
            rcases List.mem_cons.1 hy with rfl | hy
            · rw [hmx] at hm; cases hm
            · exact List.mem_cons_of_mem _ (h2 y hy hm)
          · intro y hy hm
            rcases List.mem_cons.1 hy with rfl | hy
            · rw [hi]; exact List.mem_cons_self
            · exact List.mem_cons_of_mem _ (h3 y hy hm)
          · intro d hd'
            rcases List.mem_cons.1 hd' with rfl | hd'
            · exact ⟨x, List.mem_cons_self, hmx, hi.symm⟩
            · rcases h4 d hd' with ⟨y, hy, r⟩; exact ⟨y, List.mem_cons_of_mem _ hy, r⟩
    · simp only [hmx, bind, Except.bind] at h
      cases hr : clearAll m id cleared xs with
      | error e => simp [hr] at h
      | ok r =>
        rcases r with ⟨rest, dead'⟩
        simp [hr, pure, Except.pure] at h
        rcases h with ⟨rfl, rfl⟩
        rcases ih rest dead' hr with ⟨h1, h2, h3, h4⟩
        simp only [Bool.not_eq_true] at hmx
        refine ⟨?_, ?_, ?_, ?_⟩
        · intro y hy hl
          rcases List.mem_cons.1 hy with rfl | hy
          · exact ⟨List.mem_cons_self, hmx⟩
          · exact ⟨List.mem_cons_of_mem _ (h1 y hy hl).1, (h1 y hy hl).2⟩
        · intro y hy hm
          rcases List.mem_cons.1 hy with rfl | hy
          · exact List.mem_cons_self
          · exact List.mem_cons_of_mem _ (h2 y hy hm)
        · intro y hy hm
          rcases List.mem_cons.1 hy with rfl | hy
          · rw [hmx] at hm; cases hm
          · exact h3 y hy hm
        · intro d hd'
          rcases h4 d hd' with ⟨y, hy, r⟩; exact ⟨y, List.mem_cons_of_mem _ hy, r⟩

theorem firstRest_mem (hc : live cleared = false) (l : List α) : ∀ (need : Bool) (l' : List α) (first : Option Nat)
    (dead : List Nat), firstRest m id upd cleared l need = .ok (l', first, dead) →
    (∀ y ∈ l', live y = true → (y ∈ l ∧ m y = false) ∨
        (need = true ∧ ∃ x0 ∈ l, m x0 = true ∧ y = upd x0 ∧ first = some (id x0))) ∧
    (∀ x ∈ l, m x = false → x ∈ l') ∧
    (∀ x ∈ l, m x = true → (need = true ∧ first = some (id x)) ∨ id x ∈ dead) ∧
    (∀ d ∈ dead, ∃ x ∈ l, m x = true ∧ id x = d) ∧
    (∀ i, first = some i → need = true ∧ ∃ x0 ∈ l, m x0 = true ∧ id x0 = i ∧ upd x0 ∈ l') := by
  induction l with
  | nil =>
    intro need l' first dead h; simp [firstRest] at h; rcases h with ⟨rfl, rfl, rfl⟩
    exact ⟨fun _ h => (by cases h), fun _ h => (by cases h), fun _ h => (by cases h), fun _ h => (by cases h), fun _ h => (by cases h)⟩
  | cons x xs ih =>
    intro need l' first dead h
    unfold firstRest at h
    by_cases hmx : m x = true
    · simp only [hmx, if_true, bind, Except.bind] at h
      cases hd : deref (id x) with
      | error e => simp [hd] at h
      | ok i =>
        have hi : i = id x := by
          unfold deref at hd; split at hd <;> simp at hd; exact hd.symm
        cases hr : firstRest m id upd cleared xs false with
        | error e => simp [hd, hr] at h
        | ok r =>
          rcases r with ⟨rest, first', dead'⟩
          rcases ih false rest first' dead' hr with ⟨h1, h2, h3, h4, h5⟩
          have hf' : first' = none := by
            cases hf : first' with
            | none => rfl
            | some j => exact absurd (h5 j hf).1 (by simp)
          cases need with
          | true =>
            simp [hd, hr, pure, Except.pure] at h
            rcases h with ⟨rfl, rfl, rfl⟩
            refine ⟨?_, ?_, ?_, ?_, ?_⟩
            · intro y hy hl
              rcases List.mem_cons.1 hy with rfl | hy
              · exact Or.inr ⟨rfl, x, List.mem_cons_self, hmx, rfl, by rw [hi]⟩
              · rcases h1 y hy hl with ⟨a, b⟩ | ⟨c, _⟩
                · exact Or.inl ⟨List.mem_cons_of_mem _ a, b⟩
                · cases c
            · intro y hy hm
              rcases List.mem_cons.1 hy with rfl | hy
              · rw [hmx] at hm; cases hm
              · exact List.mem_cons_of_mem _ (h2 y hy hm)
            · intro y hy hm
              rcases List.mem_cons.1 hy with rfl | hy
              · exact Or.inl ⟨rfl, by rw [hi]⟩
              · rcases h3 y hy hm with ⟨c, _⟩ | d
                · cases c
                · exact Or.inr d
            · intro d hd'
              rcases h4 d hd' with ⟨y, hy, r⟩; exact ⟨y, List.mem_cons_of_mem _ hy, r⟩
            · intro j hj
              simp only [Option.some.injEq] at hj
              exact ⟨rfl, x, List.mem_cons_self, hmx, by rw [← hj, hi], List.mem_cons_self⟩
          | false =>
            simp [hd, hr, pure, Except.pure] at h
            rcases h with ⟨rfl, rfl, rfl⟩
            refine ⟨?_, ?_, ?_, ?_, ?_⟩
            · intro y hy hl
              rcases List.mem_cons.1 hy with rfl | hy
              · rw [hc] at hl; cases hl
              · rcases h1 y hy hl with ⟨a, b⟩ | ⟨c, _⟩
                · exact Or.inl ⟨List.mem_cons_of_mem _ a, b⟩
                · cases c
            · intro y hy hm
              rcases List.mem_cons.1 hy with rfl | hy
              · rw [hmx] at hm; cases hm
              · exact List.mem_cons_of_mem _ (h2 y hy hm)
            · intro y hy hm
              rcases List.mem_cons.1 hy with rfl | hy
              · exact Or.inr (by rw [hi]; exact List.mem_cons_self)
              · rcases h3 y hy hm with ⟨c, _⟩ | d
                · cases c
                · exact Or.inr (List.mem_cons_of_mem _ d)
            · intro d hd'
              rcases List.mem_cons.1 hd' with rfl | hd'
              · exact ⟨x, List.mem_cons_self, hmx, hi.symm⟩
              · rcases h4 d hd' with ⟨y, hy, r⟩; exact ⟨y, List.mem_cons_of_mem _ hy, r⟩
            · intro j hj; rw [hf'] at hj; cases hj
    · simp only [hmx, bind, Except.bind] at h
      cases hr : firstRest m id upd cleared xs need with
      | error e => simp [hr] at h
      | ok r =>
        rcases r with ⟨rest, first', dead'⟩
        simp [hr, pure, Except.pure] at h
        rcases h with ⟨rfl, rfl, rfl⟩
        rcases ih need rest first' dead' hr with ⟨h1, h2, h3, h4, h5⟩
        simp only [Bool.not_eq_true] at hmx
        refine ⟨?_, ?_, ?_, ?_, ?_⟩
        · intro y hy hl
          rcases List.mem_cons.1 hy with rfl | hy
          · exact Or.inl ⟨List.mem_cons_self, hmx⟩
          · rcases h1 y hy hl with ⟨a, b⟩ | ⟨c, x0, hx0, r⟩
            · exact Or.inl ⟨List.mem_cons_of_mem _ a, b⟩
            · exact Or.inr ⟨c, x0, List.mem_cons_of_mem _ hx0, r⟩
        · intro y hy hm
          rcases List.mem_cons.1 hy with rfl | hy
          · exact List.mem_cons_self
          · exact List.mem_cons_of_mem _ (h2 y hy hm)
        · intro y hy hm
          rcases List.mem_cons.1 hy with rfl | hy
          · rw [hmx] at hm; cases hm
          · exact h3 y hy hm
        · intro d hd'
          rcases h4 d hd' with ⟨y, hy, r⟩; exact ⟨y, List.mem_cons_of_mem _ hy, r⟩
        · intro j hj
          rcases h5 j hj with ⟨c, x0, hx0, a, b, d⟩
          exact ⟨c, x0, List.mem_cons_of_mem _ hx0, a, b, List.mem_cons_of_mem _ d⟩

/-- the live ids after the loops are a sublist of those before -/
theorem clearAll_liveIds (hc : live cleared = false) (l : List α) : ∀ (l' : List α) (dead : List Nat),
    clearAll m id cleared l = .ok (l', dead) → (liveIds live id l').Sublist (liveIds live id l) := by
  induction l with
  | nil => intro l' dead h; simp [clearAll] at h; rcases h with ⟨rfl, _⟩; exact List.Sublist.refl _
  | cons x xs ih =>
    intro l' dead h
    unfold clearAll at h
    by_cases hmx : m x = true
    · simp only [hmx, if_true, bind, Except.bind] at h
      cases hd : deref (id x) with
      | error e => simp [hd] at h
      | ok i =>
        cases hr : clearAll m id cleared xs with
        | error e => simp [hd, hr] at h
        | ok r =>
          rcases r with ⟨rest, dead'⟩
          simp [hd, hr, pure, Except.pure] at h
          rcases h with ⟨rfl, _⟩
          rw [liveIds_cons, liveIds_cons]
          simp only [hc, Bool.false_eq_true, if_false]
          split
          · exact List.Sublist.cons _ (ih rest dead' hr)
          · exact ih rest dead' hr
    · simp only [hmx, bind, Except.bind] at h
      cases hr : clearAll m id cleared xs with
      | error e => simp [hr] at h
      | ok r =>
        rcases r with ⟨rest, dead'⟩
        simp [hr, pure, Except.pure] at h
        rcases h with ⟨rfl, _⟩
        rw [liveIds_cons, liveIds_cons]
        split
        · exact List.Sublist.cons_cons _ (ih rest dead' hr)
        · exact ih rest dead' hr

theorem firstRest_liveIds (hc : live cleared = false) (hml : ∀ x, m x = true → live x = true)
    (hlu : ∀ x, m x = true → live (upd x) = true) (hid : ∀ x, id (upd x) = id x) (l : List α) :
    ∀ (need : Bool) (l' : List α) (first : Option Nat) (dead : List Nat),
      firstRest m id upd cleared l need = .ok (l', first, dead) → (liveIds live id l').Sublist (liveIds live id l) := by
  induction l with
  | nil => intro need l' first dead h; simp [firstRest] at h; rcases h with ⟨rfl, _⟩; exact List.Sublist.refl _
  | cons x xs ih =>
    intro need l' first dead h
    unfold firstRest at h
    by_cases hmx : m x = true
    · simp only [hmx, if_true, bind, Except.bind] at h
      cases hd : deref (id x) with
      | error e => simp [hd] at h
      | ok i =>
        cases hr : firstRest m id upd cleared xs false with
        | error e => simp [hd, hr] at h
        | ok r =>
          rcases r with ⟨rest, first', dead'⟩
          have h2 := ih false rest first' dead' hr
          have hl := hml x hmx
          cases need with
          | true =>
            simp [hd, hr, pure, Except.pure] at h
            rcases h with ⟨rfl, _, _⟩
            rw [liveIds_cons, liveIds_cons]
            simp only [hlu x hmx, hl, if_true, hid]
            exact List.Sublist.cons_cons _ h2
          | false =>
            simp [hd, hr, pure, Except.pure] at h
            rcases h with ⟨rfl, _, _⟩
            rw [liveIds_cons, liveIds_cons]
            simp only [hc, hl, Bool.false_eq_true, if_false, if_true]
            exact List.Sublist.cons _ h2
    · simp only [hmx, bind, Except.bind] at h
      cases hr : firstRest m id upd cleared xs need with
      | error e => simp [hr] at h
      | ok r =>
        rcases r with ⟨rest, first', dead'⟩
        simp [hr, pure, Except.pure] at h
        rcases h with ⟨rfl, _, _⟩
        rw [liveIds_cons, liveIds_cons]
        split
        · exact List.Sublist.cons_cons _ (ih need rest first' dead' hr)
        · exact ih need rest first' dead' hr

/-- no first match reported: nothing matched, the list is returned as it is -/
theorem firstRest_none (l : List α) : ∀ (l' : List α) (dead : List Nat),
    firstRest m id upd cleared l true = .ok (l', none, dead) → l.any m = false ∧ l' = l ∧ dead = [] := by
  induction l with
  | nil => intro l' dead h; simp [firstRest] at h; exact ⟨rfl, h.1, h.2⟩
  | cons x xs ih =>
    intro l' dead h
    unfold firstRest at h
    by_cases hmx : m x = true
    · simp only [hmx, if_true, bind, Except.bind] at h
      cases hd : deref (id x) with
      | error e => simp [hd] at h
      | ok i =>
        cases hr : firstRest m id upd cleared xs false with
        | error e => simp [hd, hr] at h
        | ok r =>
          rcases r with ⟨rest, first', dead'⟩
          simp [hd, hr, pure, Except.pure] at h
    · simp only [hmx, bind, Except.bind] at h
      cases hr : firstRest m id upd cleared xs true with
      | error e => simp [hr] at h
      | ok r =>
        rcases r with ⟨rest, first', dead'⟩
        simp [hr, pure, Except.pure] at h
        rcases h with ⟨rfl, rfl, rfl⟩
        rcases ih rest dead' hr with ⟨h1, h2, h3⟩
        simp only [Bool.not_eq_true] at hmx
        exact ⟨by simp [hmx, h1], by rw [h2], h3⟩

end loopmem

/-! ### one typed list (a segment of the entries) changed by a loop, the tree by the matching surgery -/

section seg
variable {α : Type} (m : α → Bool) (id : α → Nat) (upd : α → α) (cleared : α) (live : α → Bool) (mk : α → Ent)

theorem entsOf_ids (hmk : ∀ x, (mk x).id = id x) (l : List α) : (entsOf live mk l).map (·.id) = liveIds live id l := by
  unfold entsOf liveIds
  rw [List.map_map]
  apply List.map_congr_left
  intro x _; exact hmk x

theorem mem_entsOf {l : List α} {en : Ent} : en ∈ entsOf live mk l ↔ ∃ x ∈ l, live x = true ∧ mk x = en := by
  unfold entsOf
  simp only [List.mem_map, List.mem_filter]
  constructor
  · rintro ⟨x, ⟨h1, h2⟩, h3⟩; exact ⟨x, h1, h2, h3⟩
  · rintro ⟨x, h1, h2, h3⟩; exact ⟨x, ⟨h1, h2⟩, h3⟩

/-- live entries with the same line id are the same entry -/
theorem live_inj {l : List α} (hnd : (liveIds live id l).Nodup) {x y : α} (hx : x ∈ l) (hy : y ∈ l)
    (hlx : live x = true) (hly : live y = true) (he : id x = id y) : x = y := by
  induction l with
  | nil => cases hx
  | cons z zs ih =>
    rw [liveIds_cons] at hnd
    by_cases hz : live z = true
    · simp only [hz, if_true, List.nodup_cons] at hnd
      rcases List.mem_cons.1 hx with rfl | hx' <;> rcases List.mem_cons.1 hy with rfl | hy'
      · rfl
      · exact absurd ((mem_liveIds live id).2 ⟨y, hy', hly, he.symm⟩) hnd.1
      · exact absurd ((mem_liveIds live id).2 ⟨x, hx', hlx, he⟩) hnd.1
      · exact ih hnd.2 hx' hy'
    · simp only [hz, Bool.false_eq_true, if_false] at hnd
      rcases List.mem_cons.1 hx with rfl | hx'
      · exact absurd hlx hz
      · rcases List.mem_cons.1 hy with rfl | hy'
        · exact absurd hly hz
        · exact ih hnd hx' hy'

theorem seg_nodup {A C : List Ent} {K : List Ent} {vs : List VLine} (h : Match (A ++ (K ++ C)) vs) :
    (K.map (·.id)).Nodup := by
  have := h.nodup
  simp only [List.map_append] at this
  exact (List.nodup_append.1 (List.nodup_append.1 this).2.1).1

/-- **Drop**: `clearAll` on the typed list, `markAll` of the dereferenced ids on the tree -/
theorem Match.clearSeg (hmk : ∀ x, (mk x).id = id x) (hc : live cleared = false) (hml : ∀ x, m x = true → live x = true)
    {A C : List Ent} {L L' : List α} {dead : List Nat} {fs : FileSyntax} {next : Nat} (hw : TreeWF fs.stmts next)
    (h : Match (A ++ (entsOf live mk L ++ C)) (view fs.stmts))
    (hr : clearAll m id cleared L = .ok (L', dead)) :
    Match (A ++ (entsOf live mk L' ++ C)) (view (markAll fs dead).stmts) := by
  rcases clearAll_mem m id cleared live hc L L' dead hr with ⟨c1, c2, c3, c4⟩
  have hsub := clearAll_liveIds m id cleared live hc L L' dead hr
  have hndK : (liveIds live id L).Nodup := by rw [← entsOf_ids id live mk hmk]; exact seg_nodup h
  rcases markAll_spec dead fs next hw with ⟨_, _, hview⟩
  refine Match.frame dead h ?_ ?_ ?_ ?_ ?_ ?_ ?_
  · intro v hv; rw [hview v]; exact ⟨fun a => a.1, fun a => ⟨a, hv⟩⟩
  · intro d hd
    rcases c4 d hd with ⟨x, hx, hmx, rfl⟩
    left
    rw [entsOf_ids id live mk hmk]
    exact (mem_liveIds live id).2 ⟨x, hx, hml x hmx, rfl⟩
  · rw [entsOf_ids id live mk hmk]; exact List.Nodup.sublist hsub hndK
  · intro en' hen'
    left
    rw [entsOf_ids id live mk hmk]
    apply hsub.subset
    rw [← entsOf_ids id live mk hmk]
    exact List.mem_map.2 ⟨en', hen', rfl⟩
  · intro en' hen'
    rcases (mem_entsOf live mk).1 hen' with ⟨y, hy, hly, rfl⟩
    rcases c1 y hy hly with ⟨hyL, hmy⟩
    rcases h.cover (mk y) (List.mem_append_right _ (List.mem_append_left _ ((mem_entsOf live mk).2 ⟨y, hyL, hly, rfl⟩)))
      with ⟨v, hv, hid, hacc⟩
    refine ⟨v, (hview v).2 ⟨hv, ?_⟩, hid, hacc⟩
    intro hd
    rcases c4 v.id hd with ⟨x, hx, hmx, hxid⟩
    have : x = y := live_inj id live hndK hx hyL (hml x hmx) hly (by rw [hxid, hid, hmk])
    rw [this, hmy] at hmx; cases hmx
  · intro v hv hs
    exact absurd hs ((hview v).1 hv).2
  · intro en hen hs
    rcases (mem_entsOf live mk).1 hen with ⟨x, hx, hlx, rfl⟩
    have hmx : m x = false := by
      cases hm : m x with
      | false => rfl
      | true => exact absurd (by rw [hmk]; exact c3 x hx hm) hs
    exact ⟨mk x, (mem_entsOf live mk).2 ⟨x, c2 x hx hmx, hlx, rfl⟩, rfl⟩

/-- the first match's line id is not among the removed ones (ids of live entries are pairwise different) -/
theorem firstRest_first_not_dead (hc : live cleared = false) (hml : ∀ x, m x = true → live x = true) (l : List α) :
    ∀ (l' : List α) (i : Nat) (dead : List Nat), (liveIds live id l).Nodup →
      firstRest m id upd cleared l true = .ok (l', some i, dead) → i ∉ dead := by
  induction l with
  | nil => intro l' i dead _ h; simp [firstRest] at h
  | cons x xs ih =>
    intro l' i dead hnd h
    have hnd' := nodup_tail id live hnd
    unfold firstRest at h
    by_cases hmx : m x = true
    · simp only [hmx, if_true, bind, Except.bind] at h
      cases hd : deref (id x) with
      | error e => simp [hd] at h
      | ok j =>
        have hj : j = id x := by
          unfold deref at hd; split at hd <;> simp at hd; exact hd.symm
        cases hr : firstRest m id upd cleared xs false with
        | error e => simp [hd, hr] at h
        | ok r =>
          rcases r with ⟨rest, first', dead'⟩
          simp [hd, hr, pure, Except.pure] at h
          rcases h with ⟨_, rfl, rfl⟩
          rcases firstRest_mem m id upd cleared live hc xs false rest first' dead' hr with ⟨_, _, _, c4, _⟩
          intro hdd
          rcases c4 j hdd with ⟨y, hy, hmy, hyid⟩
          rw [liveIds_cons] at hnd
          simp only [hml x hmx, if_true, List.nodup_cons] at hnd
          exact hnd.1 ((mem_liveIds live id).2 ⟨y, hy, hml y hmy, by rw [hyid, hj]⟩)
    · simp only [hmx, bind, Except.bind] at h
      cases hr : firstRest m id upd cleared xs true with
      | error e => simp [hr] at h
      | ok r =>
        rcases r with ⟨rest, first', dead'⟩
        simp [hr, pure, Except.pure] at h
        rcases h with ⟨_, rfl, rfl⟩
        exact ih rest i dead' hnd' hr

/-- **Set the first, remove the others** (a match exists): `firstRest` on the typed list; on the tree the first
    match's line gets the new tokens `verb :: t :: rest`, the later matches' lines are removed -/
theorem Match.updSeg (hmk : ∀ x, (mk x).id = id x) (hc : live cleared = false) (hml : ∀ x, m x = true → live x = true)
    (hlu : ∀ x, m x = true → live (upd x) = true) (hid : ∀ x, id (upd x) = id x)
    (verb t : Bytes) (rest : List Bytes)
    (hacc : ∀ x, m x = true → ∀ t0 s, (mk x).acc t0 s → t0.head? = some verb ∧ (mk (upd x)).acc (verb :: t :: rest) s)
    {A C : List Ent} {L L' : List α} {i : Nat} {dead : List Nat} {fs : FileSyntax} {next : Nat} (hw : TreeWF fs.stmts next)
    (h : Match (A ++ (entsOf live mk L ++ C)) (view fs.stmts))
    (hr : firstRest m id upd cleared L true = .ok (L', some i, dead)) :
    Match (A ++ (entsOf live mk L' ++ C)) (view (markAll (updateLine fs i (verb :: t :: rest)) dead).stmts) := by
  rcases firstRest_mem m id upd cleared live hc L true L' (some i) dead hr with ⟨c1, c2, c3, c4, c5⟩
  have hsub := firstRest_liveIds m id upd cleared live hc hml hlu hid L true L' (some i) dead hr
  have hndK : (liveIds live id L).Nodup := by rw [← entsOf_ids id live mk hmk]; exact seg_nodup h
  rcases c5 i rfl with ⟨_, x0, hx0, hm0, hid0, hux0⟩
  have hl0 := hml x0 hm0
  -- the line of the first match
  rcases h.cover (mk x0) (List.mem_append_right _ (List.mem_append_left _ ((mem_entsOf live mk).2 ⟨x0, hx0, hl0, rfl⟩)))
    with ⟨v0, hv0, hv0id, hacc0⟩
  rw [hmk, hid0] at hv0id
  rcases hacc x0 hm0 _ _ hacc0 with ⟨hverb, hacc1⟩
  have hw1 : TreeWF (updateLine fs i (verb :: t :: rest)).stmts next := hw.updateTokens i _
  rcases markAll_spec dead _ next hw1 with ⟨_, _, hview⟩
  have hupd := mem_view_updateTokens fs next i verb t rest hw v0 hv0 hv0id hverb
  have hi_dead : i ∉ dead := firstRest_first_not_dead m id upd cleared live hc hml L L' i dead hndK hr
  refine Match.frame (i :: dead) h ?_ ?_ ?_ ?_ ?_ ?_ ?_
  · intro v hv
    simp only [List.mem_cons, not_or] at hv
    rw [hview v, hupd v]
    constructor
    · rintro ⟨(⟨_, hvv⟩ | rfl), _⟩
      · exact hvv
      · exact absurd hv0id hv.1
    · intro hvv; exact ⟨Or.inl ⟨hv.1, hvv⟩, hv.2⟩
  · intro d hd
    left
    rw [entsOf_ids id live mk hmk]
    rcases List.mem_cons.1 hd with rfl | hd
    · exact (mem_liveIds live id).2 ⟨x0, hx0, hl0, hid0⟩
    · rcases c4 d hd with ⟨x, hx, hmx, rfl⟩
      exact (mem_liveIds live id).2 ⟨x, hx, hml x hmx, rfl⟩
  · rw [entsOf_ids id live mk hmk]; exact List.Nodup.sublist hsub hndK
  · intro en' hen'
    left
    rw [entsOf_ids id live mk hmk]
    apply hsub.subset
    rw [← entsOf_ids id live mk hmk]
    exact List.mem_map.2 ⟨en', hen', rfl⟩
  · intro en' hen'
    rcases (mem_entsOf live mk).1 hen' with ⟨y, hy, hly, rfl⟩
    rcases c1 y hy hly with ⟨hyL, hmy⟩ | ⟨_, x1, hx1, hm1, rfl, hf⟩
    · -- an untouched entry
      rcases h.cover (mk y) (List.mem_append_right _ (List.mem_append_left _ ((mem_entsOf live mk).2 ⟨y, hyL, hly, rfl⟩)))
        with ⟨v, hv, hvid, hacc'⟩
      have hne : v.id ≠ i := by
        intro e
        have : y = x0 := live_inj id live hndK hyL hx0 hly hl0 (by rw [← hmk, ← hvid, e, hid0])
        rw [this, hm0] at hmy; cases hmy
      refine ⟨v, (hview v).2 ⟨(hupd v).2 (Or.inl ⟨hne, hv⟩), ?_⟩, hvid, hacc'⟩
      intro hd
      rcases c4 v.id hd with ⟨x, hx, hmx, hxid⟩
      have : x = y := live_inj id live hndK hx hyL (hml x hmx) hly (by rw [hxid, hvid, hmk])
      rw [this, hmy] at hmx; cases hmx
    · -- the updated first match
      simp only [Option.some.injEq] at hf
      have : x1 = x0 := live_inj id live hndK hx1 hx0 (hml x1 hm1) hl0 (by rw [← hf, hid0])
      subst this
      refine ⟨{ v0 with toks := verb :: t :: rest }, (hview _).2 ⟨(hupd _).2 (Or.inr rfl), ?_⟩, ?_, hacc1⟩
      · simp only [hv0id]; exact hi_dead
      · simp only [hmk, hid, hv0id, hid0]
  · intro v hv hs
    rcases (hview v).1 hv with ⟨hvv, hnd⟩
    rcases List.mem_cons.1 hs with hvi | hvd
    · exact ⟨mk (upd x0), (mem_entsOf live mk).2 ⟨upd x0, hux0, hlu x0 hm0, rfl⟩, by rw [hmk, hid, hid0, hvi]⟩
    · exact absurd hvd hnd
  · intro en hen hs
    simp only [List.mem_cons, not_or] at hs
    rcases (mem_entsOf live mk).1 hen with ⟨x, hx, hlx, rfl⟩
    have hmx : m x = false := by
      cases hm : m x with
      | false => rfl
      | true =>
        rcases c3 x hx hm with ⟨_, hf⟩ | hdd
        · simp only [Option.some.injEq] at hf
          exact absurd (by rw [hmk, ← hf]) hs.1
        · exact absurd (by rw [hmk]; exact hdd) hs.2
    exact ⟨mk x, (mem_entsOf live mk).2 ⟨x, c2 x hx hmx, hlx, rfl⟩, rfl⟩

/-- **Append**: a new live entry at the end of the typed list, a new line with a fresh id in the tree -/
theorem Match.appendSeg (hmk : ∀ x, (mk x).id = id x) {A C : List Ent} {L : List α} {x : α} {vs vs' : List VLine}
    (hlx : live x = true) (toks : List Bytes) (sfx : List Comment) (hacc : (mk x).acc toks sfx)
    (h : Match (A ++ (entsOf live mk L ++ C)) vs)
    (hfresh : ∀ en ∈ A ++ (entsOf live mk L ++ C), en.id ≠ id x)
    (hvs : vs'.Perm (vs ++ [⟨id x, toks, sfx⟩])) :
    Match (A ++ (entsOf live mk (L ++ [x]) ++ C)) vs' := by
  have hK' : entsOf live mk (L ++ [x]) = entsOf live mk L ++ [mk x] := by
    simp [entsOf, List.filter_append, hlx]
  have hvfresh : ∀ v ∈ vs, v.id ≠ id x := by
    intro v hv e
    rcases h.surj v hv with ⟨en, hen, hid⟩
    exact hfresh en hen (hid.trans e)
  have hmem : ∀ v, v ∈ vs' ↔ v ∈ vs ∨ v = ⟨id x, toks, sfx⟩ := by
    intro v; rw [hvs.mem_iff]; simp
  rw [hK']
  refine Match.frame [id x] h ?_ ?_ ?_ ?_ ?_ ?_ ?_
  · intro v hv
    simp only [List.mem_singleton] at hv
    rw [hmem v]
    constructor
    · rintro (a | rfl)
      · exact a
      · exact absurd rfl hv
    · exact Or.inl
  · intro i hi
    rw [List.mem_singleton.1 hi]
    exact Or.inr hfresh
  · simp only [List.map_append, List.map_cons, List.map_nil]
    apply List.nodup_append.2
    refine ⟨seg_nodup h, List.pairwise_singleton _ _, ?_⟩
    intro a ha b hb
    rw [List.mem_singleton] at hb
    rcases List.mem_map.1 ha with ⟨en, hen, rfl⟩
    rw [hb, hmk]
    exact hfresh en (List.mem_append_right _ (List.mem_append_left _ hen))
  · intro en' hen'
    rcases List.mem_append.1 hen' with hk | hx
    · exact Or.inl (List.mem_map.2 ⟨en', hk, rfl⟩)
    · rw [List.mem_singleton.1 hx, hmk]; exact Or.inr hfresh
  · intro en' hen'
    rcases List.mem_append.1 hen' with hk | hx
    · rcases h.cover en' (List.mem_append_right _ (List.mem_append_left _ hk)) with ⟨v, hv, hid, ha⟩
      exact ⟨v, (hmem v).2 (Or.inl hv), hid, ha⟩
    · rw [List.mem_singleton.1 hx]
      exact ⟨⟨id x, toks, sfx⟩, (hmem _).2 (Or.inr rfl), (hmk x).symm, hacc⟩
  · intro v _ hs
    exact ⟨mk x, List.mem_append_right _ (List.mem_singleton.2 rfl), by rw [hmk, List.mem_singleton.1 hs]⟩
  · intro en hen _
    exact ⟨en, List.mem_append_left _ hen, rfl⟩

end seg

/-! ### a one-entry segment (module / go / toolchain) -/

/-- the entry's line gets new tokens with the same verb -/
theorem Match.updOne {A C : List Ent} {en en' : Ent} {fs : FileSyntax} {next : Nat} (hw : TreeWF fs.stmts next)
    (h : Match (A ++ ([en] ++ C)) (view fs.stmts)) (hid : en'.id = en.id) (verb t : Bytes) (rest : List Bytes)
    (hacc : ∀ t0 s, en.acc t0 s → t0.head? = some verb ∧ en'.acc (verb :: t :: rest) s) :
    Match (A ++ ([en'] ++ C)) (view (updateLine fs en.id (verb :: t :: rest)).stmts) := by
  rcases h.cover en (List.mem_append_right _ (List.mem_append_left _ (List.mem_singleton.2 rfl))) with ⟨v0, hv0, hv0id, hacc0⟩
  rcases hacc _ _ hacc0 with ⟨hverb, hacc1⟩
  have hupd := mem_view_updateTokens fs next en.id verb t rest hw v0 hv0 hv0id hverb
  refine Match.frame [en.id] h ?_ ?_ ?_ ?_ ?_ ?_ ?_
  · intro v hv
    simp only [List.mem_singleton] at hv
    rw [hupd v]
    constructor
    · rintro (⟨_, a⟩ | rfl)
      · exact a
      · exact absurd hv0id hv
    · intro a; exact Or.inl ⟨hv, a⟩
  · intro i hi; rw [List.mem_singleton.1 hi]; exact Or.inl (by simp)
  · simp
  · intro e1 he1; rw [List.mem_singleton.1 he1, hid]; exact Or.inl (by simp)
  · intro e1 he1
    rw [List.mem_singleton.1 he1]
    exact ⟨{ v0 with toks := verb :: t :: rest }, (hupd _).2 (Or.inr rfl), by simp [hv0id, hid], hacc1⟩
  · intro v _ hs
    exact ⟨en', List.mem_singleton.2 rfl, by rw [hid, List.mem_singleton.1 hs]⟩
  · intro e1 he1 hs
    rw [List.mem_singleton.1 he1] at hs
    exact absurd (List.mem_singleton.2 rfl) hs

/-- the entry and its line are removed -/
theorem Match.dropOne {A C : List Ent} {en : Ent} {fs : FileSyntax} {next : Nat} (hw : TreeWF fs.stmts next)
    (h : Match (A ++ ([en] ++ C)) (view fs.stmts)) :
    Match (A ++ ([] ++ C)) (view (markRemoved fs en.id).stmts) := by
  have hview := mem_view_markRemoved fs en.id hw.nodup
  refine Match.frame [en.id] h ?_ ?_ ?_ ?_ ?_ ?_ ?_
  · intro v hv
    simp only [List.mem_singleton] at hv
    rw [hview v]
    exact ⟨fun a => a.1, fun a => ⟨a, hv⟩⟩
  · intro i hi; rw [List.mem_singleton.1 hi]; exact Or.inl (by simp)
  · simp
  · intro e1 he1; cases he1
  · intro e1 he1; cases he1
  · intro v hv hs
    exact absurd (List.mem_singleton.1 hs) ((hview v).1 hv).2
  · intro e1 he1 hs
    rw [List.mem_singleton.1 he1] at hs
    exact absurd (List.mem_singleton.2 rfl) hs

theorem seg_disjoint {A K C : List Ent} {vs : List VLine} (h : Match (A ++ (K ++ C)) vs) {en en' : Ent}
    (hen : en ∈ A ∨ en ∈ C) (hen' : en' ∈ K) : en.id ≠ en'.id := by
  have hnd := h.nodup
  simp only [List.map_append] at hnd
  rcases List.nodup_append.1 hnd with ⟨_, ndKC, disA⟩
  rcases List.nodup_append.1 ndKC with ⟨_, _, disKC⟩
  rcases hen with ha | hc
  · exact disA _ (List.mem_map.2 ⟨en, ha, rfl⟩) _ (List.mem_append_left _ (List.mem_map.2 ⟨en', hen', rfl⟩))
  · exact fun e => disKC _ (List.mem_map.2 ⟨en', hen', rfl⟩) _ (List.mem_map.2 ⟨en, hc, rfl⟩) e.symm

end ModVerif.Modfile.Edit
