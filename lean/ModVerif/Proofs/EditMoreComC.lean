/-
  EditMore, part 24 — for C16 `comments_survive`, SetRequireSeparateIndirect: exact frame lemmas without hypotheses on the
  ids (`keepsEq_updateLine'`, `sepLoop_keepsEq`), and splitting the loop at a requirement (`sepLoop_split`).
-/
import ModVerif.Proofs.EditMoreComB
set_option linter.unusedSimpArgs false
namespace ModVerif.Modfile.Edit
open ModVerif ModVerif.Modfile

theorem KeepsEq.toKeeps {S : List Nat} {a b : List Expr} (h : KeepsEq S a b) : Keeps S a b :=
  fun x hx hs => ⟨x, h x hx hs, x.le_refl⟩

/-- `FileSyntax.updateLine id g` leaves every line with another id literally as it is (no hypothesis on the ids) -/
theorem keepsEq_updateLine' (fs : FileSyntax) (id : Nat) (g : Line → Line) : KeepsEq [id] fs.stmts (fs.updateLine id g).stmts := by
  unfold FileSyntax.updateLine
  simp only
  generalize fs.stmts = stmts
  induction stmts with
  | nil => exact KeepsEq.refl _ _
  | cons x xs ih =>
    simp only [List.map_cons]
    intro v hv hs
    rw [viewX_cons] at hv ⊢
    rcases List.mem_append.1 hv with hv | hv
    · refine List.mem_append_left _ ?_
      cases x with
      | line l =>
        simp only
        split
        · rename_i hl
          rw [viewX_line] at hv
          split at hv
          · cases hv
          · simp only [List.mem_singleton] at hv
            subst hv
            exact absurd (List.mem_singleton.2 (eq_of_beq hl)) hs
        · exact hv
      | lineBlock b =>
        simp only
        rw [viewX_block] at hv ⊢
        rcases List.mem_map.1 hv with ⟨l, hl, rfl⟩
        rcases List.mem_filter.1 hl with ⟨hl1, hl2⟩
        simp only [List.mem_singleton] at hs
        exact List.mem_map.2 ⟨l, List.mem_filter.2 ⟨keeps_updateLineIn id g b.lines l hl1 hs, hl2⟩, rfl⟩
      | commentBlock c => exact hv
      | lparen c => exact hv
      | rparen c => exact hv
    · exact List.mem_append_right _ (ih v hv hs)

theorem keepsEq_moveExisting (syn : FileSyntax) (i idx next : Nat) : KeepsEq [i] syn.stmts (moveExisting syn i idx next).stmts := by
  unfold moveExisting
  cases syn.findLine i with
  | none => exact KeepsEq.refl _ _
  | some old =>
    simp only
    have h1 := keepsEq_updateLine' syn i (fun l => { l with token := [] })
    have h2 := keepsEq_appendToBlock (syn.updateLine i fun l => { l with token := [] }).stmts idx
      { old with id := next, token := (if (!old.inBlock && !old.token.isEmpty && headIs old.token (B "require")) = true then old.token.drop 1 else old.token), inBlock := true }
    have := h1.trans h2
    simpa using this

theorem sepLoop_keepsEq (ctx : SepCtx) (need : List Want) (rs : List Require) : ∀ (have_ : List Bytes) (syn : FileSyntax) (next : Nat)
    (rs' : List Require) (have' : List Bytes) (syn' : FileSyntax) (next' : Nat),
    sepLoop ctx need rs have_ syn next = .ok (rs', have', syn', next') → KeepsEq (rs.map (·.lineId)) syn.stmts syn'.stmts := by
  induction rs with
  | nil =>
    intro have_ syn next rs' have' syn' next' h
    simp only [sepLoop, Except.ok.injEq, Prod.mk.injEq] at h
    rcases h with ⟨_, _, rfl, _⟩
    exact KeepsEq.refl _ _
  | cons r rs ih =>
    intro have_ syn next rs' have' syn' next' h
    have remove : ∀ (res : List Require × List Bytes × FileSyntax × Nat),
        sepLoop ctx need rs have_ (markRemoved syn r.lineId) next = .ok res →
        KeepsEq ((r :: rs).map (·.lineId)) syn.stmts res.2.2.1.stmts := by
      intro res hr
      rcases res with ⟨rs'', h'', syn'', next''⟩
      have k1 : KeepsEq [r.lineId] syn.stmts (markRemoved syn r.lineId).stmts :=
        keepsEq_updateLine' syn r.lineId (fun l => { l with token := [], comments := { l.comments with suffix := [] } })
      have := k1.trans (ih _ _ _ _ _ _ _ hr)
      simpa using this
    unfold sepLoop at h
    cases hf : need.find? (fun a => a.path == r.mod.path) with
    | some w =>
      simp only [hf] at h
      by_cases hc : have_.contains r.mod.path = true
      · simp only [hc, if_true, bind, Except.bind] at h
        cases hd : deref r.lineId with
        | error err => simp [hd] at h
        | ok i =>
          have hi : i = r.lineId := by unfold deref at hd; split at hd <;> simp at hd; exact hd.symm
          subst hi
          simp only [hd] at h
          cases hr : sepLoop ctx need rs have_ (markRemoved syn r.lineId) next with
          | error err => simp [hr] at h
          | ok res =>
            have := remove res hr
            rcases res with ⟨rs'', h'', syn'', next''⟩
            simp only [hr, pure, Except.pure, Except.ok.injEq, Prod.mk.injEq] at h
            rcases h with ⟨_, _, rfl, _⟩
            exact this
      · simp only [Bool.not_eq_true] at hc
        simp only [hc, Bool.false_eq_true, if_false, bind, Except.bind] at h
        cases hd : deref r.lineId with
        | error err => simp [hd] at h
        | ok i =>
          have hi : i = r.lineId := by unfold deref at hd; split at hd <;> simp at hd; exact hd.symm
          subst hi
          simp only [hd] at h
          generalize ht : (if (w.indirect && (ctx.oneFlat || inBlockOrig ctx r.lineId ctx.directOrig)) = true then
              (({ r with mod := { r.mod with version := w.vers }, indirect := w.indirect, lineId := next } : Require),
                moveExisting (syn.updateLine r.lineId fun l => setIndirectLine w.indirect (setVersionLine w.vers l)) r.lineId ctx.indirectIdx next, next + 1)
            else if (!w.indirect && (ctx.oneFlat || inBlockOrig ctx r.lineId ctx.indirectOrig)) = true then
              (({ r with mod := { r.mod with version := w.vers }, indirect := w.indirect, lineId := next } : Require),
                moveExisting (syn.updateLine r.lineId fun l => setIndirectLine w.indirect (setVersionLine w.vers l)) r.lineId ctx.directIdx next, next + 1)
            else (({ r with mod := { r.mod with version := w.vers }, indirect := w.indirect } : Require),
                syn.updateLine r.lineId fun l => setIndirectLine w.indirect (setVersionLine w.vers l), next)) = t at h
          have htp : KeepsEq [r.lineId] syn.stmts t.2.1.stmts := by
            have k1 := keepsEq_updateLine' syn r.lineId (fun l => setIndirectLine w.indirect (setVersionLine w.vers l))
            have km : ∀ idx, KeepsEq [r.lineId] syn.stmts
                (moveExisting (syn.updateLine r.lineId fun l => setIndirectLine w.indirect (setVersionLine w.vers l)) r.lineId idx next).stmts := by
              intro idx
              exact (k1.trans (keepsEq_moveExisting _ r.lineId idx next)).mono (by simp)
            rw [← ht]; split
            · exact km _
            · split
              · exact km _
              · exact k1
          rcases t with ⟨r2, syn2, next2⟩
          simp only at htp h
          cases hr : sepLoop ctx need rs (r2.mod.path :: have_) syn2 next2 with
          | error err => simp [hr] at h
          | ok res =>
            rcases res with ⟨rs'', h'', syn'', next''⟩
            simp only [hr, pure, Except.pure, Except.ok.injEq, Prod.mk.injEq] at h
            rcases h with ⟨_, _, rfl, _⟩
            have := htp.trans (ih _ _ _ _ _ _ _ hr)
            simpa using this
    | none =>
      simp only [hf, bind, Except.bind] at h
      cases hd : deref r.lineId with
      | error err => simp [hd] at h
      | ok i =>
        have hi : i = r.lineId := by unfold deref at hd; split at hd <;> simp at hd; exact hd.symm
        subst hi
        simp only [hd] at h
        cases hr : sepLoop ctx need rs have_ (markRemoved syn r.lineId) next with
        | error err => simp [hr] at h
        | ok res =>
          have := remove res hr
          rcases res with ⟨rs'', h'', syn'', next''⟩
          simp only [hr, pure, Except.pure, Except.ok.injEq, Prod.mk.injEq] at h
          rcases h with ⟨_, _, rfl, _⟩
          exact this

theorem sepLoop_cons (ctx : SepCtx) (need : List Want) (r : Require) (rs : List Require) (have_ : List Bytes) (syn : FileSyntax) (next : Nat) :
    sepLoop ctx need (r :: rs) have_ syn next =
      (match need.find? (·.path == r.mod.path) with
      | some w =>
        if have_.contains r.mod.path then do
          let i ← deref r.lineId
          let (rs', h', syn', next') ← sepLoop ctx need rs have_ (markRemoved syn i) next
          pure (clearedRequire :: rs', h', syn', next')
        else do
          let i ← deref r.lineId
          let syn := syn.updateLine i (fun l => setIndirectLine w.indirect (setVersionLine w.vers l))
          let r := { r with mod := { r.mod with version := w.vers }, indirect := w.indirect }
          let (r, syn, next) :=
            if w.indirect && (ctx.oneFlat || inBlockOrig ctx i ctx.directOrig) then
              ({ r with lineId := next }, moveExisting syn i ctx.indirectIdx next, next + 1)
            else if !w.indirect && (ctx.oneFlat || inBlockOrig ctx i ctx.indirectOrig) then
              ({ r with lineId := next }, moveExisting syn i ctx.directIdx next, next + 1)
            else (r, syn, next)
          let (rs', h', syn', next') ← sepLoop ctx need rs (r.mod.path :: have_) syn next
          pure (r :: rs', h', syn', next')
      | none => do
        let i ← deref r.lineId
        let (rs', h', syn', next') ← sepLoop ctx need rs have_ (markRemoved syn i) next
        pure (clearedRequire :: rs', h', syn', next')) := by
  rw [sepLoop]
  rfl

/-- splitting the loop: the first part, then the rest from the state it leaves; the paths it records as present are
    paths of its own entries -/
theorem sepLoop_split (ctx : SepCtx) (need : List Want) (rs : List Require) : ∀ (d : List Require) (have_ : List Bytes) (syn : FileSyntax)
    (next : Nat) (rs' : List Require) (have' : List Bytes) (syn' : FileSyntax) (next' : Nat),
    sepLoop ctx need (d ++ rs) have_ syn next = .ok (rs', have', syn', next') →
    ∃ d' hm synm nextm rs'', sepLoop ctx need d have_ syn next = .ok (d', hm, synm, nextm) ∧
      sepLoop ctx need rs hm synm nextm = .ok (rs'', have', syn', next') ∧ rs' = d' ++ rs'' ∧
      (∀ p ∈ hm, p ∈ have_ ∨ ∃ r' ∈ d, r'.mod.path = p) := by
  intro d
  induction d with
  | nil =>
    intro have_ syn next rs' have' syn' next' h
    exact ⟨[], have_, syn, next, rs', by simp [sepLoop], h, rfl, fun p hp => Or.inl hp⟩
  | cons r d ih =>
    intro have_ syn next rs' have' syn' next' h
    simp only [List.cons_append] at h
    rw [sepLoop_cons] at h
    rw [sepLoop_cons ctx need r d]
    cases hf : need.find? (fun a => a.path == r.mod.path) with
    | some w =>
      simp only [hf] at h ⊢
      by_cases hc : have_.contains r.mod.path = true
      · simp only [hc, if_true, bind, Except.bind] at h ⊢
        cases hd : deref r.lineId with
        | error err => simp [hd] at h
        | ok i =>
          simp only [hd] at h ⊢
          cases hr : sepLoop ctx need (d ++ rs) have_ (markRemoved syn i) next with
          | error err => simp [hr] at h
          | ok res =>
            rcases res with ⟨a, b, c, e⟩
            rcases ih _ _ _ _ _ _ _ hr with ⟨d', hm, synm, nextm, rs'', q1, q2, q3, q4⟩
            simp only [hr, pure, Except.pure, Except.ok.injEq, Prod.mk.injEq] at h
            rcases h with ⟨rfl, rfl, rfl, rfl⟩
            refine ⟨clearedRequire :: d', hm, synm, nextm, rs'', by simp [q1, pure, Except.pure], q2, by simp [q3], ?_⟩
            intro p hp
            rcases q4 p hp with h1 | ⟨r', hr', e1⟩
            · exact Or.inl h1
            · exact Or.inr ⟨r', List.mem_cons_of_mem _ hr', e1⟩
      · simp only [Bool.not_eq_true] at hc
        simp only [hc, Bool.false_eq_true, if_false, bind, Except.bind] at h ⊢
        cases hd : deref r.lineId with
        | error err => simp [hd] at h
        | ok i =>
          simp only [hd] at h ⊢
          generalize ht : (if (w.indirect && (ctx.oneFlat || inBlockOrig ctx i ctx.directOrig)) = true then
              (({ r with mod := { r.mod with version := w.vers }, indirect := w.indirect, lineId := next } : Require),
                moveExisting (syn.updateLine i fun l => setIndirectLine w.indirect (setVersionLine w.vers l)) i ctx.indirectIdx next, next + 1)
            else if (!w.indirect && (ctx.oneFlat || inBlockOrig ctx i ctx.indirectOrig)) = true then
              (({ r with mod := { r.mod with version := w.vers }, indirect := w.indirect, lineId := next } : Require),
                moveExisting (syn.updateLine i fun l => setIndirectLine w.indirect (setVersionLine w.vers l)) i ctx.directIdx next, next + 1)
            else (({ r with mod := { r.mod with version := w.vers }, indirect := w.indirect } : Require),
                syn.updateLine i fun l => setIndirectLine w.indirect (setVersionLine w.vers l), next)) = t at h ⊢
          have htp : t.1.mod.path = r.mod.path := by
            rw [← ht]; split
            · rfl
            · split <;> rfl
          rcases t with ⟨r2, syn2, next2⟩
          simp only at h htp ⊢
          cases hr : sepLoop ctx need (d ++ rs) (r2.mod.path :: have_) syn2 next2 with
          | error err => simp [hr] at h
          | ok res =>
            rcases res with ⟨a, b, c, e⟩
            rcases ih _ _ _ _ _ _ _ hr with ⟨d', hm, synm, nextm, rs'', q1, q2, q3, q4⟩
            simp only [hr, pure, Except.pure, Except.ok.injEq, Prod.mk.injEq] at h
            rcases h with ⟨rfl, rfl, rfl, rfl⟩
            refine ⟨r2 :: d', hm, synm, nextm, rs'', by simp [q1, pure, Except.pure], q2, by simp [q3], ?_⟩
            intro p hp
            rcases q4 p hp with h1 | ⟨r', hr', e1⟩
            · rcases List.mem_cons.1 h1 with h1 | h1
              · exact Or.inr ⟨r, List.mem_cons_self, by rw [h1, htp]⟩
              · exact Or.inl h1
            · exact Or.inr ⟨r', List.mem_cons_of_mem _ hr', e1⟩
    | none =>
      simp only [hf, bind, Except.bind] at h ⊢
      cases hd : deref r.lineId with
      | error err => simp [hd] at h
      | ok i =>
        simp only [hd] at h ⊢
        cases hr : sepLoop ctx need (d ++ rs) have_ (markRemoved syn i) next with
        | error err => simp [hr] at h
        | ok res =>
          rcases res with ⟨a, b, c, e⟩
          rcases ih _ _ _ _ _ _ _ hr with ⟨d', hm, synm, nextm, rs'', q1, q2, q3, q4⟩
          simp only [hr, pure, Except.pure, Except.ok.injEq, Prod.mk.injEq] at h
          rcases h with ⟨rfl, rfl, rfl, rfl⟩
          refine ⟨clearedRequire :: d', hm, synm, nextm, rs'', by simp [q1, pure, Except.pure], q2, by simp [q3], ?_⟩
          intro p hp
          rcases q4 p hp with h1 | ⟨r', hr', e1⟩
          · exact Or.inl h1
          · exact Or.inr ⟨r', List.mem_cons_of_mem _ hr', e1⟩

end ModVerif.Modfile.Edit
