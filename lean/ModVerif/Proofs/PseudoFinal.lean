/- Helper lemmas for C18: the clauses of the property, assembled per form of pseudo-version. -/
import ModVerif.Proofs.PseudoOrder
import ModVerif.Proofs.PseudoTime
namespace ModVerif.Proofs.Pseudo
open ModVerif ModVerif.PseudoSpec
open ModVerif.Pseudo hiding isDigit isAlnum

theorem roundtrip_aux {major older ts rev : Bytes}
    (hbase : Semver.isValid older = true ∨ (older = [] ∧ MajorArg major)) (hts : Ts ts) (hrev : Rev rev) :
    ∃ pv, pseudoVersion major older ts rev = .ok pv ∧
      pseudoVersionBase pv = .ok (Semver.canonical older ++ Semver.build older) ∧
      pseudoVersionRev pv = .ok rev ∧
      pseudoVersionTime pv = (if timeValid ts then .ok ts else .error .time) := by
  rcases hbase with hv | ⟨rfl, hm⟩
  · unfold Semver.isValid at hv
    cases hp : Semver.parse older with
    | none => simp [hp] at hv
    | some p =>
      obtain ⟨n1, n2, n3, hpre, hbld, _⟩ := parse_inv hp
      obtain ⟨c1, _, c3⟩ := canonical_parts hp
      rcases hpre with h0 | ⟨body, hb, hb1, hb2⟩
      · obtain ⟨pat', hinc, npat', _, _, hdec⟩ := incDecimal_num n3
        obtain ⟨pat'', hinc', hpv⟩ := pseudoVersion_release (major := major) (ts := ts) (rev := rev) hp h0
        rw [hinc] at hinc'
        injection hinc' with e
        subst e
        refine ⟨_, hpv, ?_, rev_pvText n1 n2 npat' (Mid.release _ _) hts hrev hbld,
          time_pvText n1 n2 npat' (Mid.release _ _) hts hrev hbld⟩
        rw [base_release n1 n2 npat' hts hrev hbld hdec n3.1, c1, c3, h0]
        simp
      · refine ⟨_, pseudoVersion_prerelease hp hb, ?_,
          rev_pvText n1 n2 n3 (Mid.prerelease _ _ body hb1 hb2) hts hrev hbld,
          time_pvText n1 n2 n3 (Mid.prerelease _ _ body hb1 hb2) hts hrev hbld⟩
        rw [base_prerelease n1 n2 n3 hb1 hb2 hts hrev hbld, c1, c3, hb]
  · have hnone : Semver.parse [] = none := rfl
    obtain ⟨c1, c2⟩ := canonical_none hnone
    rw [c1, c2]
    rcases hm with rfl | ⟨m, nm, rfl⟩
    · exact ⟨_, pseudoVersion_nobase hnone (Or.inl ⟨rfl, rfl⟩), base_nobase num0 hts hrev,
        rev_pvText num0 num0 num0 Mid.nobase hts hrev buildOK_nil,
        time_pvText num0 num0 num0 Mid.nobase hts hrev buildOK_nil⟩
    · exact ⟨_, pseudoVersion_nobase hnone (Or.inr rfl), base_nobase nm hts hrev,
        rev_pvText nm num0 num0 Mid.nobase hts hrev buildOK_nil,
        time_pvText nm num0 num0 Mid.nobase hts hrev buildOK_nil⟩

theorem pvPre_ne_nil (R0 ts rev : Bytes) : pvPre R0 ts rev ≠ [] := by simp [pvPre]

theorem between_aux {major older ts rev : Bytes} {p : Semver.Parsed} (hp : Semver.parse older = some p)
    (hts : Ts ts) (hrev : Rev rev) :
    ∃ pv, pseudoVersion major older ts rev = .ok pv ∧ Semver.compare older pv = -1 ∧
      (p.prerelease = [] → ∀ z, Num z → decValue z = decValue p.patch + 1 →
          Semver.compare pv (118 :: p.major ++ 46 :: p.minor ++ 46 :: z) = -1) ∧
      (p.prerelease ≠ [] → Semver.compare pv (118 :: p.major ++ 46 :: p.minor ++ 46 :: p.patch) = -1) := by
  obtain ⟨n1, n2, n3, hpre, hbld, _⟩ := parse_inv hp
  have hrel : ∀ z, Num z → Semver.parse (118 :: p.major ++ 46 :: p.minor ++ 46 :: z)
      = some { major := p.major, minor := p.minor, patch := z } := by
    intro z nz
    have := parse_full n1 n2 nz preOK_nil buildOK_nil
    simpa using this
  rcases hpre with h0 | ⟨body, hb, hb1, hb2⟩
  · obtain ⟨pat', hinc, npat', hval, hcmp, _⟩ := incDecimal_num n3
    obtain ⟨pat'', hinc', hpv⟩ := pseudoVersion_release (major := major) (ts := ts) (rev := rev) hp h0
    rw [hinc] at hinc'
    injection hinc' with e
    subst e
    have hq := parse_pvText n1 n2 npat' (Mid.release _ _) hts hrev hbld
    refine ⟨_, hpv, compare_patch_lt hp hq rfl rfl hcmp, fun _ z nz hz => ?_, fun h => absurd h0 h⟩
    have ez : z = pat' := num_unique nz npat' (hz.trans hval.symm)
    subst ez
    rw [compare_same_nums hq (hrel z npat') rfl rfl rfl]
    exact comparePrerelease_nil _ (pvPre_ne_nil _ _ _)
  · have hR := Mid.prerelease p.minor p.patch body hb1 hb2
    have hq := parse_pvText n1 n2 n3 hR hts hrev hbld
    refine ⟨_, pseudoVersion_prerelease hp hb, ?_, fun h => by rw [hb] at h; simp at h, fun _ => ?_⟩
    · rw [compare_same_nums hp hq rfl rfl rfl, hb]
      exact comparePrerelease_ext hR hts hrev
    · rw [compare_same_nums hq (hrel p.patch n3) rfl rfl rfl]
      exact comparePrerelease_nil _ (pvPre_ne_nil _ _ _)

theorem nobase_aux {major ts rev : Bytes} (hm : MajorArg major) (hts : Ts ts) (hrev : Rev rev) :
    ∃ pv, pseudoVersion major [] ts rev = .ok pv ∧
      Semver.compare pv ((if major = [] then [118, 48] else major) ++ [46, 48, 46, 48]) = -1 := by
  have hnone : Semver.parse [] = none := rfl
  have key : ∀ m, Num m → Semver.compare (pvText m [48] [48] [] ts rev []) (118 :: m ++ [46, 48, 46, 48]) = -1 := by
    intro m nm
    have hq := parse_pvText nm num0 num0 Mid.nobase hts hrev buildOK_nil
    have hw : Semver.parse (118 :: m ++ [46, 48, 46, 48]) = some { major := m, minor := [48], patch := [48] } := by
      have := parse_full nm num0 num0 preOK_nil buildOK_nil
      simpa using this
    rw [compare_same_nums hq hw rfl rfl rfl]
    exact comparePrerelease_nil _ (pvPre_ne_nil _ _ _)
  rcases hm with rfl | ⟨m, nm, rfl⟩
  · exact ⟨_, pseudoVersion_nobase hnone (Or.inl ⟨rfl, rfl⟩), by simpa using key [48] num0⟩
  · exact ⟨_, pseudoVersion_nobase hnone (Or.inr rfl), by simpa using key m nm⟩

theorem time_mono_aux {major older ts1 ts2 rev1 rev2 : Bytes}
    (hbase : Semver.isValid older = true ∨ (older = [] ∧ MajorArg major))
    (h1 : Ts ts1) (h2 : Ts ts2) (r1 : Rev rev1) (r2 : Rev rev2) (hlt : bytesLt ts1 ts2 = true) :
    ∃ pv1 pv2, pseudoVersion major older ts1 rev1 = .ok pv1 ∧ pseudoVersion major older ts2 rev2 = .ok pv2 ∧
      Semver.compare pv1 pv2 = -1 := by
  obtain ⟨maj, min, pat, R0, bld, n1, n2, n3, hR, hbld, hpv⟩ := pseudoVersion_shape hbase
  refine ⟨_, _, hpv ts1 rev1, hpv ts2 rev2, ?_⟩
  rw [compare_same_nums (parse_pvText n1 n2 n3 hR h1 r1 hbld) (parse_pvText n1 n2 n3 hR h2 r2 hbld) rfl rfl rfl]
  exact comparePrerelease_time hR h1 h2 r1 r2 hlt

theorem valid_recognised_aux {major older ts rev : Bytes}
    (hbase : Semver.isValid older = true ∨ (older = [] ∧ MajorArg major)) (hts : Ts ts) (hrev : Rev rev) :
    ∃ pv, pseudoVersion major older ts rev = .ok pv ∧ Semver.isValid pv = true ∧ isPseudoVersion pv = true := by
  obtain ⟨maj, min, pat, R0, bld, n1, n2, n3, hR, hbld, hpv⟩ := pseudoVersion_shape hbase
  exact ⟨_, hpv ts rev, isPseudoVersion_pvText n1 n2 n3 hR hts hrev hbld⟩

end ModVerif.Proofs.Pseudo
