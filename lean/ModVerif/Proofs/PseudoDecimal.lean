/- Helper lemmas for C18: incDecimal / decDecimal on digit strings. -/
import ModVerif.Model.Pseudo
import ModVerif.Spec.PseudoSpec
namespace ModVerif.Proofs.Pseudo
open ModVerif ModVerif.PseudoSpec
open ModVerif.Pseudo hiding isDigit isAlnum

/-- a statement about every byte can be checked on the 256 values -/
theorem forall_uint8 {P : UInt8 → Prop} (h : ∀ f : Fin 256, P ⟨⟨f⟩⟩) : ∀ c, P c := fun ⟨⟨f⟩⟩ => h f

theorem isDigit_eq : Pseudo.isDigit = PseudoSpec.isDigit := rfl
theorem isDigit_eq' : Semver.isDigit = PseudoSpec.isDigit := rfl
theorem isAlnum_eq : Pseudo.isAlnum = PseudoSpec.isAlnum := rfl

theorem digit_range : ∀ c : UInt8, isDigit c = true → 48 ≤ c.toNat ∧ c.toNat ≤ 57 :=
  forall_uint8 (by decide +kernel)

theorem digit_succ : ∀ c : UInt8, isDigit c = true → (c == 57) = false →
    isDigit (c + 1) = true ∧ (c + 1).toNat = c.toNat + 1 ∧ c + 1 ≠ 48 ∧ c < c + 1 ∧ ((c + 1 == 48) = false)
      ∧ c + 1 - 1 = c ∧ ((c + 1 == 49) = true → c = 48) :=
  forall_uint8 (by decide +kernel)

theorem digit_nine : ∀ c : UInt8, (c == 57) = true → c = 57 := forall_uint8 (by decide +kernel)

theorem decValue_replicate_zero : ∀ n, decValue (List.replicate n 48) = 0
  | 0 => rfl
  | n + 1 => by simp [List.replicate_succ, decValue, decValue_replicate_zero n]

theorem decValue_replicate_nine : ∀ n, decValue (List.replicate n 57) + 1 = 10 ^ n
  | 0 => rfl
  | n + 1 => by
    have ih := decValue_replicate_nine n
    simp [List.replicate_succ, decValue]
    rw [Nat.pow_succ]; omega

theorem decAux_zeros : ∀ n, decAux (List.replicate n 48) = (List.replicate n 57, true)
  | 0 => rfl
  | n + 1 => by simp [List.replicate_succ, decAux, decAux_zeros n]

theorem bytesLt_cons_self (c : UInt8) {a b : Bytes} (h : bytesLt a b = true) : bytesLt (c :: a) (c :: b) = true := by
  simp [bytesLt, h, UInt8.lt_irrefl]

theorem bytesLt_cons_lt {c d : UInt8} (a b : Bytes) (h : c < d) : bytesLt (c :: a) (d :: b) = true := by
  simp [bytesLt, h]

/-- the loop of incDecimal on a digit string -/
theorem incAux_spec : ∀ cs : Bytes, (∀ c ∈ cs, isDigit c = true) →
    ((incAux cs).2 = true → cs = List.replicate cs.length 57 ∧ (incAux cs).1 = List.replicate cs.length 48) ∧
    ((incAux cs).2 = false →
        (incAux cs).1.length = cs.length ∧ (∀ c ∈ (incAux cs).1, isDigit c = true) ∧
        decValue (incAux cs).1 = decValue cs + 1 ∧ bytesLt cs (incAux cs).1 = true ∧
        ((incAux cs).1.head? ≠ some 48 ∨ (incAux cs).1.head? = cs.head?) ∧
        decAux (incAux cs).1 = (cs, false))
  | [], _ => by simp [incAux]
  | c :: cs, h => by
    have hc : isDigit c = true := h c (by simp)
    have hcs : ∀ x ∈ cs, isDigit x = true := fun x hx => h x (by simp [hx])
    have ih := incAux_spec cs hcs
    cases hcarry : (incAux cs).2 with
    | true =>
      obtain ⟨e1, e2⟩ := ih.1 hcarry
      cases h9 : (c == 57) with
      | true =>
        have : c = 57 := digit_nine c h9
        subst this
        have hs : incAux (57 :: cs) = (48 :: (incAux cs).1, true) := by simp [incAux, hcarry]
        rw [hs]
        refine ⟨fun _ => ?_, fun hf => by simp at hf⟩
        simp only [List.length_cons, List.replicate_succ]
        exact ⟨by rw [← e1], by rw [← e2]⟩
      | false =>
        have hs : incAux (c :: cs) = ((c + 1) :: (incAux cs).1, false) := by simp [incAux, hcarry, h9]
        rw [hs]
        obtain ⟨d1, d2, d3, d4, d5, d6, _⟩ := digit_succ c hc h9
        have hr := digit_range c hc
        refine ⟨fun hf => by simp at hf, fun _ => ?_⟩
        refine ⟨by simp [e2], ?_, ?_, bytesLt_cons_lt _ _ d4, Or.inl (by simp [d3]), ?_⟩
        · intro x hx
          rcases List.mem_cons.mp hx with rfl | hx
          · exact d1
          · rw [e2] at hx; rw [List.eq_of_mem_replicate hx]; decide
        · have e9 := decValue_replicate_nine cs.length
          rw [← e1] at e9
          simp only [decValue, d2]
          rw [e2, decValue_replicate_zero, List.length_replicate]
          have : (c.toNat + 1 - 48) = (c.toNat - 48) + 1 := by omega
          rw [this, Nat.add_mul]; omega
        · simp only [decAux]
          rw [e2, decAux_zeros]
          simp [d5, d6, ← e1]
    | false =>
      obtain ⟨f1, f2, f3, f4, f5, f6⟩ := ih.2 hcarry
      have hs : incAux (c :: cs) = (c :: (incAux cs).1, false) := by simp [incAux, hcarry]
      rw [hs]
      refine ⟨fun hf => by simp at hf, fun _ => ?_⟩
      refine ⟨by simp [f1], ?_, ?_, bytesLt_cons_self c f4, Or.inr (by simp), ?_⟩
      · intro x hx
        rcases List.mem_cons.mp hx with rfl | hx
        · exact hc
        · exact f2 x hx
      · simp only [decValue, f1, f3]; omega
      · simp [decAux, f6]

theorem incDecimal_isSome {d : Bytes} (hne : d ≠ []) : ∃ r, incDecimal d = some r := by
  unfold incDecimal
  cases hc : (incAux d).2 with
  | true =>
    cases hr : (incAux d).1 with
    | nil =>
      exfalso
      cases d with
      | nil => exact hne rfl
      | cons c cs =>
        simp only [incAux] at hr
        revert hr
        cases (incAux cs) with
        | mk r b => cases b <;> simp <;> split <;> simp
    | cons x t =>
      refine ⟨49 :: t ++ [48], ?_⟩
      have : incAux d = (x :: t, true) := by rw [← hr, ← hc]
      simp [this]
  | false =>
    refine ⟨(incAux d).1, ?_⟩
    have : incAux d = ((incAux d).1, false) := by rw [← hc]
    rw [this]; simp

/-- incDecimal on a number: never panics, the value grows by one, the result is again a number,
    it compares above the argument as semver compares numbers, and decDecimal undoes it. -/
theorem incDecimal_num {d : Bytes} (hd : Num d) :
    ∃ r, incDecimal d = some r ∧ Num r ∧ decValue r = decValue d + 1 ∧
      Semver.compareInt d r = -1 ∧ decDecimal r = d := by
  obtain ⟨hne, hdig, hlead⟩ := hd
  have sp := incAux_spec d hdig
  unfold incDecimal
  cases hc : (incAux d).2 with
  | true =>
    obtain ⟨e1, e2⟩ := sp.1 hc
    cases d with
    | nil => exact absurd rfl hne
    | cons c cs =>
      simp only [List.length_cons, List.replicate_succ] at e1 e2
      have hst : incAux (c :: cs) = (48 :: List.replicate cs.length 48, true) := by rw [← e2, ← hc]
      refine ⟨49 :: List.replicate cs.length 48 ++ [48], by simp [hst], ?_, ?_, ?_, ?_⟩
      · refine ⟨by simp, ?_, Or.inr (by simp)⟩
        intro x hx
        simp at hx
        rcases hx with rfl | ⟨_, rfl⟩ | rfl <;> decide
      · have e9 := decValue_replicate_nine (cs.length + 1)
        rw [List.replicate_succ, ← e1] at e9
        have : (49 :: List.replicate cs.length 48 ++ [48] : Bytes) = 49 :: List.replicate (cs.length + 1) 48 := by
          simp [List.replicate_succ']
        rw [this]
        simp only [decValue, decValue_replicate_zero, List.length_replicate]
        rw [← e9]; simp [decValue]
      · unfold Semver.compareInt
        have hlen : (c :: cs).length < (49 :: List.replicate cs.length 48 ++ [48] : Bytes).length := by simp
        have hneq : (c :: cs) ≠ (49 :: List.replicate cs.length 48 ++ [48] : Bytes) := by
          intro h; rw [← h] at hlen; omega
        rw [if_neg hneq, if_pos hlen]
      · have : (49 :: List.replicate cs.length 48 ++ [48] : Bytes) = 49 :: List.replicate (cs.length + 1) 48 := by
          simp [List.replicate_succ']
        rw [this]
        simp only [decDecimal, decAux_zeros]
        simp
        exact e1.symm
  | false =>
    obtain ⟨f1, f2, f3, f4, f5, f6⟩ := sp.2 hc
    have hst : incAux d = ((incAux d).1, false) := by rw [← hc]
    refine ⟨(incAux d).1, by rw [hst]; simp, ⟨?_, f2, ?_⟩, f3, ?_, ?_⟩
    · intro h; rw [h] at f1; simp at f1; exact hne (List.eq_nil_of_length_eq_zero f1.symm)
    · rcases f5 with h | h
      · exact Or.inr h
      · rcases hlead with rfl | hl
        · left; simp [incAux] at *
        · exact Or.inr (by rw [h]; exact hl)
    · unfold Semver.compareInt
      have hneq : d ≠ (incAux d).1 := by
        intro h
        have : decValue d = decValue d + 1 := by rw [← f3, ← h]
        omega
      simp [hneq, f1, f4]
    · -- decDecimal (incAux d).1 = d
      cases d with
      | nil => exact absurd rfl hne
      | cons c cs =>
        have hcD : isDigit c = true := hdig c (by simp)
        have hcs : ∀ x ∈ cs, isDigit x = true := fun x hx => hdig x (by simp [hx])
        have sp' := incAux_spec cs hcs
        cases hc' : (incAux cs).2 with
        | true =>
          obtain ⟨e1, e2⟩ := sp'.1 hc'
          cases h9 : (c == 57) with
          | true => simp [incAux, hc', h9] at hc
          | false =>
            obtain ⟨d1, d2, d3, d4, d5, d6, d7⟩ := digit_succ c hcD h9
            have hs : incAux (c :: cs) = ((c + 1) :: (incAux cs).1, false) := by simp [incAux, hc', h9]
            rw [hs]
            simp only [decDecimal]
            rw [e2, decAux_zeros]
            simp only [d5]
            cases h1 : (c + 1 == 49) with
            | true =>
              have hc48 : c = 48 := d7 h1
              rcases hlead with hl | hl
              · simp at hl; obtain ⟨_, rfl⟩ := hl; simp [d6]
              · simp [hc48] at hl
            | false => simp [d6, ← e1]
        | false =>
          obtain ⟨g1, g2, g3, g4, g5, g6⟩ := sp'.2 hc'
          have hs : incAux (c :: cs) = (c :: (incAux cs).1, false) := by simp [incAux, hc']
          rw [hs]
          simp [decDecimal, g6]

end ModVerif.Proofs.Pseudo
