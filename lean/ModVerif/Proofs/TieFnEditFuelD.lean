/-
  Closed fuel of the FnEdit session ties, part D (agent edit-fuel): a whole session.  From ANY state `e` satisfying the model
  invariant `Edit.P.Inv` (line ids pairwise different), for a session with valid arguments (`Edit.RunValidLive`) that does not
  use the two bulk requirement setters: the potential after the run is at most `W e + opsG ops` (`run_W`), hence
  `3 * (W e + opsG ops) + 1 ≤ fuel` gives `FuelOK fuel e ops` and `FinalFuel fuel e ops` — the fuel hypotheses of
  `runOps_tie_valid` / `session_tie_valid` / `nilDeref_unreachable_gen` from the INITIAL state and the operation sizes alone.
-/
import ModVerif.Proofs.TieFnEditFuelC
import ModVerif.Proofs.TieFnEditSessionE
set_option linter.unusedSimpArgs false
set_option linter.unusedVariables false
namespace ModVerif.Tie.FnEditFuelD
open ModVerif ModVerif.Modfile ModVerif.Tie.FnEditFuelA ModVerif.Tie.FnEditFuelB ModVerif.Tie.FnEditFuelC
open ModVerif.Tie.FnEditSessionA ModVerif.Tie.FnEditSessionB ModVerif.Tie.FnEditSessionC ModVerif.Tie.FnEditSessionE
open ModVerif.Modfile.Edit (EFile EditErr applyMod treeIds)

/-- the growth allowance of an operation list: `Σ (4 · opSize op + 32)` -/
def opsG (ops : List EditSpec.Op) : Nat := (ops.map G).sum

@[simp] theorem opsG_nil : opsG [] = 0 := rfl
@[simp] theorem opsG_cons (op : EditSpec.Op) (ops : List EditSpec.Op) : opsG (op :: ops) = G op + opsG ops := by simp [opsG]

/-- **the fuel of every step of the model run from the initial potential and the operation sizes** -/
theorem fuelOK_of_W (fuel : Nat) : ∀ (ops : List EditSpec.Op) (e : EFile), Edit.P.Inv e → Edit.RunValidLive e (ops.map opM) →
    (∀ op ∈ ops, NotBulk op) → 3 * (W e + opsG ops) ≤ fuel → FuelOK fuel e ops
  | [], _, _, _, _, _ => trivial
  | op :: ops, e, hi, hv, hb, hf => by
    obtain ⟨hargs, hvn, hvr⟩ := hv
    have hb1 : NotBulk op := hb op List.mem_cons_self
    have hb2 : ∀ o ∈ ops, NotBulk o := fun o ho => hb o (List.mem_cons_of_mem _ ho)
    simp only [opsG_cons] at hf
    refine ⟨?_, ?_, ?_⟩
    · have := stepFuel_le e op hb1; omega
    · intro e' hx
      have hw := applyMod_W e e' op hb1 hi.tree.nodup hx
      exact fuelOK_of_W fuel ops e' (Edit.P.applyMod_inv_all e e' _ hargs hi hx) (hvn e' hx) hb2 (by omega)
    · intro err hx hr
      exact fuelOK_of_W fuel ops e hi (hvr err hx hr) hb2 (by omega)

/-- **the potential after a run** -/
theorem run_W : ∀ (ops : List EditSpec.Op) (e : EFile) (acc : List Bool) (i : Nat) (e' : EFile) (res : List Bool),
    Edit.P.Inv e → Edit.RunValidLive e (ops.map opM) → (∀ op ∈ ops, NotBulk op) →
    Edit.runOps applyMod e (ops.map opM) acc i = .done e' res → W e' ≤ W e + opsG ops
  | [], e, acc, i, e', res, _, _, _, h => by
    simp only [List.map_nil, Edit.runOps, Edit.SessionResult.done.injEq] at h
    rw [← h.1]; simp
  | op :: ops, e, acc, i, e', res, hi, hv, hb, h => by
    obtain ⟨hargs, hvn, hvr⟩ := hv
    have hb1 : NotBulk op := hb op List.mem_cons_self
    have hb2 : ∀ o ∈ ops, NotBulk o := fun o ho => hb o (List.mem_cons_of_mem _ ho)
    simp only [List.map_cons, Edit.runOps] at h
    simp only [opsG_cons]
    cases hx : applyMod e (opM op) with
    | none => rw [hx] at h; cases h
    | some x =>
      cases x with
      | ok e1 =>
        rw [hx] at h
        have hw := applyMod_W e e1 op hb1 hi.tree.nodup hx
        have := run_W ops e1 _ _ e' res (Edit.P.applyMod_inv_all e e1 _ hargs hi hx) (hvn e1 hx) hb2 h
        omega
      | error err =>
        rw [hx] at h
        simp only [] at h
        split at h
        · rename_i hr
          have := run_W ops e _ _ e' res hi (hvr err hx hr) hb2 h
          omega
        · cases h

/-- the fuel of the final Cleanup -/
theorem finalFuel_of_W (fuel : Nat) (ops : List EditSpec.Op) (e : EFile) (hi : Edit.P.Inv e)
    (hv : Edit.RunValidLive e (ops.map opM)) (hb : ∀ op ∈ ops, NotBulk op) (hf : W e + opsG ops + 1 ≤ fuel) :
    FinalFuel fuel e ops := by
  intro e' res hx
  have h1 := run_W ops e [] 0 e' res hi hv hb hx
  have h2 := cleanupFuel_le e'
  omega

end ModVerif.Tie.FnEditFuelD
