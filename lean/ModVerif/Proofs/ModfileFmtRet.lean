/-
  C02 clause 3 with a version fixer and `retract` directives, part a: the deferred `fixRetract` pass on a tree whose
  retract tokens already are fixed versions.

  * `pvi_fix_of_dontFix` — the key step "the fixer sees its own image": if `parseVersionInterval` with the
    placeholder fixer `dontFixRetract` (what `File.add` uses) leaves the interval tokens as they are and reads the
    interval `vi`, and both bounds are fixpoints of the real fixer at the module path, then `parseVersionInterval`
    with the real fixer leaves the tokens as they are and reads the same `vi`.
  * `fixRetractLoop_fixpoint` — `fixRetractLoop` over a tree with pairwise distinct line identities in which every
    retract entry has such a line returns the entries, the tree and the error list unchanged (`findLine` finds THE
    line, `updateLine` writes back the tokens it already has).
  * `addStmts_rettok` — a run of the directive layer that rewrites no token records, for every retract entry it
    appends, a line of the tree with that identity whose interval tokens are a fixpoint of the `dontFixRetract` parse
    with exactly that interval.
-/
import ModVerif.Proofs.ModfileC20Lax
import ModVerif.Proofs.ModfileC20Ids
namespace ModVerif.Proofs.ModfileFmtRet
open ModVerif ModVerif.Modfile ModVerif.Proofs.ModfileC20

/-! ### parseVersion / parseVersionInterval: from the placeholder fixer to the real one -/

theorem pv_dont {p t t' v : Bytes} (h : parseVersion p t (some dontFixRetract) = (t', .ok v)) :
    t' = v ∧ ∃ q, parseString t = some (v, q) := by
  unfold parseVersion at h
  cases hp : parseString t with
  | none => simp [hp] at h
  | some r =>
    obtain ⟨s, q⟩ := r
    simp only [hp, dontFixRetract, Prod.mk.injEq, Except.ok.injEq] at h
    obtain ⟨h1, h2⟩ := h
    subst h2
    exact ⟨h1.symm, q, rfl⟩

theorem pv_fix {path : Bytes} {fx : Fixer} {t v q : Bytes} (hp : parseString t = some (v, q))
    (hf : fx path v = .ok v) : parseVersion path t (some fx) = (v, .ok v) := by
  unfold parseVersion
  simp only [hp, hf]

/-- a version token that the placeholder parse leaves alone is left alone by a fixer that fixes its value -/
theorem pv_step {p path : Bytes} {fx : Fixer} {t v : Bytes}
    (h : parseVersion p t (some dontFixRetract) = (t, .ok v)) (hf : fx path v = .ok v) :
    parseVersion path t (some fx) = (t, .ok v) := by
  obtain ⟨h1, q, hq⟩ := pv_dont h
  rw [pv_fix hq hf, ← h1]

/-- ★ the fixer sees its own image -/
theorem pvi_fix_of_dontFix (path : Bytes) (fx : Fixer) (args : List Bytes) (vi : VersionInterval) (rest : List Bytes)
    (h : parseVersionInterval [] args (some dontFixRetract) = (args, .ok (vi, rest)))
    (hl : fx path vi.low = .ok vi.low) (hh : fx path vi.high = .ok vi.high) :
    parseVersionInterval path args (some fx) = (args, .ok (vi, rest)) := by
  cases args with
  | nil => simp [parseVersionInterval] at h
  | cons t0 rest0 =>
    by_cases c1 : t0 = [40]
    · simp [parseVersionInterval, c1] at h
    by_cases c2 : t0 = [91]
    · subst c2
      cases rest0 with
      | nil => simp [parseVersionInterval] at h
      | cons t1 rest1 =>
        rcases hv1 : parseVersion [] t1 (some dontFixRetract) with ⟨t1', r1⟩
        cases r1 with
        | error e => simp [parseVersionInterval, hv1] at h
        | ok low =>
          cases rest1 with
          | nil => simp [parseVersionInterval, hv1] at h
          | cons c rest2 =>
            by_cases c3 : c = [44]
            · subst c3
              cases rest2 with
              | nil => simp [parseVersionInterval, hv1] at h
              | cons t2 rest3 =>
                rcases hv2 : parseVersion [] t2 (some dontFixRetract) with ⟨t2', r2⟩
                cases r2 with
                | error e => simp [parseVersionInterval, hv1, hv2] at h
                | ok high =>
                  cases rest3 with
                  | nil => simp [parseVersionInterval, hv1, hv2] at h
                  | cons r rest4 =>
                    by_cases c4 : r = [93]
                    · subst c4
                      simp [parseVersionInterval, hv1, hv2] at h
                      obtain ⟨⟨e1, e2⟩, e3, e4⟩ := h
                      subst e1 e2 e3 e4
                      have k1 := pv_step hv1 hl
                      have k2 := pv_step hv2 hh
                      simp [parseVersionInterval, k1, k2]
                    · simp [parseVersionInterval, hv1, hv2, c4] at h
            · simp [parseVersionInterval, hv1, c3] at h
    · rcases hv : parseVersion [] t0 (some dontFixRetract) with ⟨t0', r0⟩
      cases r0 with
      | error e => simp [parseVersionInterval, c1, c2, hv] at h
      | ok v =>
        simp [parseVersionInterval, c1, c2, hv] at h
        obtain ⟨e1, e2, e3⟩ := h
        subst e1 e2 e3
        have k := pv_step hv hl
        simp [parseVersionInterval, c1, c2, k]

/-! ### `updateLine` that writes back what is there -/

theorem updateLineIn_self (id : Nat) (g : Line → Line) :
    ∀ (ls : List Line), (∀ l ∈ ls, l.id = id → g l = l) → updateLineIn id g ls = ls := by
  intro ls
  induction ls with
  | nil => intro _; rfl
  | cons l rest ih =>
    intro h
    unfold updateLineIn
    split
    · rename_i hid
      rw [h l (by simp) (by simpa using hid)]
    · rw [ih (fun x hx => h x (List.mem_cons_of_mem _ hx))]

theorem updateLine_self (fs : FileSyntax) (id : Nat) (g : Line → Line)
    (h : ∀ l ∈ linesOf fs.stmts, l.id = id → g l = l) : fs.updateLine id g = fs := by
  cases fs with
  | mk name comments stmts =>
    unfold FileSyntax.updateLine
    simp only at h ⊢
    congr 1
    induction stmts with
    | nil => rfl
    | cons x rest ih =>
      cases x with
      | line l =>
        simp only [linesOf_line] at h
        rw [List.map_cons, ih (fun y hy => h y (List.mem_cons_of_mem _ hy))]
        congr 1
        show (if l.id == id then Expr.line (g l) else Expr.line l) = Expr.line l
        split
        · rename_i hid
          rw [h l (by simp) (by simpa using hid)]
        · rfl
      | lineBlock b =>
        simp only [linesOf_block] at h
        rw [List.map_cons, ih (fun y hy => h y (List.mem_append_right _ hy))]
        congr 1
        simp only
        rw [updateLineIn_self id g b.lines (fun y hy => h y (List.mem_append_left _ hy))]
      | commentBlock c => simp only [linesOf_commentBlock] at h; rw [List.map_cons, ih h]
      | lparen c => simp only [linesOf_lparen] at h; rw [List.map_cons, ih h]
      | rparen c => simp only [linesOf_rparen] at h; rw [List.map_cons, ih h]

theorem frArgs_append (l : Line) : (frArgs l).1 ++ (frArgs l).2 = l.token := by
  unfold frArgs
  cases l.token with
  | nil => rfl
  | cons t0 rest =>
    simp only
    split <;> rfl

/-! ### `fixRetractLoop` on fixed tokens -/

/-- the retract entry `r` has a line in `fs` whose interval tokens the real fixer leaves alone, reading `r.interval` -/
def RetFix (path : Bytes) (fx : Fixer) (fs : FileSyntax) (r : Retract) : Prop :=
  ∃ a ∈ linesOf fs.stmts, a.id = r.lineId ∧ ∃ rest,
    parseVersionInterval path (frArgs a).2 (some fx) = ((frArgs a).2, .ok (r.interval, rest))

/-- ★ `fixRetractLoop` is the identity on a tree with distinct line identities whose retract tokens are fixed -/
theorem fixRetractLoop_fixpoint (path : Bytes) (fx : Fixer) :
    ∀ (rs : List Retract) (fs : FileSyntax) (e : List RuleErr), NodupIds fs.stmts →
    (∀ r ∈ rs, RetFix path fx fs r) → fixRetractLoop path fx rs fs e = (rs, fs, e) := by
  intro rs
  induction rs with
  | nil => intro fs e _ _; rfl
  | cons r rest ih =>
    intro fs e hn hall
    obtain ⟨a, ha, hid, rst, hpv⟩ := hall r (by simp)
    have hfind := findLine_of_mem hn ha
    rw [hid] at hfind
    rw [fixRetractLoop_cons, hfind]
    simp only [frStep, hpv]
    have hupd : fs.updateLine r.lineId (fun l' => { l' with token := (frArgs a).1 ++ (frArgs a).2 }) = fs := by
      apply updateLine_self
      intro l hl hlid
      have : l = a := inj_of_nodup_ids hn hl ha (by rw [hlid, hid])
      subst this
      rw [frArgs_append]
    rw [hupd, ih fs e hn (fun r' hr' => hall r' (List.mem_cons_of_mem _ hr'))]

/-! ### what a run of the directive layer records about the retract entries it appends -/

/-- one `File.add` step: the retract list is unchanged, or one entry for this line was appended by the `retract`
    case, whose interval is what the placeholder parse reads from the arguments (new arguments = `r.2`) -/
def RetStep (l : Line) (verb : Bytes) (args : List Bytes) (old : List Retract) (r : AddState × List Bytes) : Prop :=
  r.1.file.retract = old ∨ ∃ x rest, r.1.file.retract = old ++ [x] ∧ x.lineId = l.id ∧ verb = B "retract" ∧
    parseVersionInterval [] args (some dontFixRetract) = (r.2, .ok (x.interval, rest))

macro "retl_auto" : tactic =>
  `(tactic| (repeat' (first | split | (dsimp only))) <;> exact Or.inl rfl)

theorem add_retstep (st : AddState) (block : Option Comments) (line : Line) (verb : Bytes) (args : List Bytes)
    (fix : Option Fixer) (strict : Bool) :
    RetStep line verb args st.file.retract (File.add st block line verb args fix strict) := by
  rw [add_eq]
  split
  · exact Or.inl rfl
  split
  · unfold addGo; retl_auto
  split
  · unfold addToolchain; retl_auto
  split
  · unfold addModule; retl_auto
  split
  · unfold addGodebugV; retl_auto
  split
  · unfold addReqExc; retl_auto
  split
  · unfold addReplaceV; retl_auto
  split
  · rename_i hv
    have hverb : verb = B "retract" := by simpa using hv
    unfold addRetractV
    simp only
    rcases hp : parseVersionInterval [] args (some dontFixRetract) with ⟨args', res⟩
    cases res with
    | error e => simp only; split <;> exact Or.inl rfl
    | ok p =>
      obtain ⟨vi, rest⟩ := p
      simp only
      split
      · exact Or.inl rfl
      · exact Or.inr ⟨_, rest, rfl, rfl, hverb, hp⟩
  split
  · unfold addToolV; retl_auto
  · exact Or.inl rfl

/-- every retract entry is old, or has a line among `ls` with its identity whose tokens are `keep ++ args` with
    `keep` empty or the verb, `args` a fixpoint of the placeholder parse reading the entry's interval -/
def RetTokIn (old : List Retract) (ls : List Line) (new : List Retract) : Prop :=
  ∀ r ∈ new, r ∈ old ∨ ∃ l ∈ ls, l.id = r.lineId ∧ ∃ keep args rest, l.token = keep ++ args ∧
    (keep = [] ∨ keep = [B "retract"]) ∧
    parseVersionInterval [] args (some dontFixRetract) = (args, .ok (r.interval, rest))

theorem RetTokIn.weaken {old new : List Retract} {ls ls' : List Line} (h : RetTokIn old ls new)
    (hs : ∀ l ∈ ls, l ∈ ls') : RetTokIn old ls' new := by
  intro r hr
  rcases h r hr with h | ⟨l, hl, rest⟩
  · exact Or.inl h
  · exact Or.inr ⟨l, hs l hl, rest⟩

theorem RetTokIn.trans {a b c : List Retract} {l1 l2 : List Line} (h1 : RetTokIn a l1 b) (h2 : RetTokIn b l2 c) :
    RetTokIn a (l1 ++ l2) c := by
  intro r hr
  rcases h2 r hr with h | ⟨l, hl, rest⟩
  · rcases h1 r h with h | ⟨l, hl, rest⟩
    · exact Or.inl h
    · exact Or.inr ⟨l, List.mem_append_left _ hl, rest⟩
  · exact Or.inr ⟨l, List.mem_append_right _ hl, rest⟩

/-- one step followed by a tail -/
theorem RetTokIn.step {old mid new : List Retract} {l : Line} {ls : List Line} {verb : Bytes} {args : List Bytes}
    {keep : List Bytes} {res : AddState × List Bytes}
    (h1 : RetStep l verb args old res) (hmid : res.1.file.retract = mid) (hfix : res.2 = args)
    (htok : l.token = keep ++ args) (hkeep : keep = [] ∨ keep = [verb])
    (h2 : RetTokIn mid ls new) : RetTokIn old (l :: ls) new := by
  intro r hr
  rcases h2 r hr with h | ⟨l', hl', rest⟩
  · rcases h1 with h1 | ⟨x, rst, h1, hx, hverb, hpv⟩
    · rw [← hmid, h1] at h; exact Or.inl h
    · rw [← hmid, h1] at h
      simp only [List.mem_append, List.mem_singleton] at h
      rcases h with h | rfl
      · exact Or.inl h
      · refine Or.inr ⟨l, by simp, hx.symm, keep, args, rst, htok, ?_, ?_⟩
        · rw [← hverb]; exact hkeep
        · rw [hfix] at hpv; exact hpv
  · exact Or.inr ⟨l', List.mem_cons_of_mem _ hl', rest⟩

theorem addBlockLines_rettok (block : Comments) (verb : Bytes) (fix : Option Fixer) (strict : Bool) :
    ∀ (ls : List Line) (st : AddState), (addBlockLines block verb fix strict st ls).2 = ls →
    RetTokIn st.file.retract ls (addBlockLines block verb fix strict st ls).1.file.retract := by
  intro ls
  induction ls with
  | nil => intro st _ r hr; exact Or.inl hr
  | cons l rest ih =>
    intro st hfp
    unfold addBlockLines at hfp ⊢
    simp only [List.cons.injEq] at hfp
    obtain ⟨h1, h2⟩ := hfp
    have htk : (File.add st (some block) l verb l.token fix strict).2 = l.token := by
      have := congrArg Line.token h1
      simpa using this
    exact RetTokIn.step (keep := []) (add_retstep st (some block) l verb l.token fix strict) rfl htk (by simp)
      (Or.inl rfl) (ih _ h2)

theorem addStmts_rettok (fix : Option Fixer) (strict : Bool) :
    ∀ (xs : List Expr) (st : AddState), (addStmts fix strict st xs).2 = xs →
    RetTokIn st.file.retract (linesOf xs) (addStmts fix strict st xs).1.file.retract := by
  intro xs
  induction xs with
  | nil => intro st _ r hr; exact Or.inl hr
  | cons x rest ih =>
    intro st hfp
    unfold addStmts at hfp ⊢
    cases x with
    | line l =>
      cases htok : l.token with
      | nil =>
        simp only [htok, linesOf_line, List.cons.injEq] at hfp ⊢
        exact (ih st hfp.2).weaken (fun x hx => List.mem_cons_of_mem _ hx)
      | cons verb args =>
        simp only [htok, linesOf_line, List.cons.injEq, Expr.line.injEq] at hfp ⊢
        obtain ⟨h1, h2⟩ := hfp
        have htk : (File.add st none l verb args fix strict).2 = args := by
          have := congrArg Line.token h1
          simpa [htok] using this
        exact RetTokIn.step (keep := [verb]) (add_retstep st none l verb args fix strict) rfl htk (by simp [htok])
          (Or.inr rfl) (ih _ h2)
    | lineBlock b =>
      have hskip : ∀ st' : AddState, st'.file.retract = st.file.retract → (addStmts fix strict st' rest).2 = rest →
          RetTokIn st.file.retract (b.lines ++ linesOf rest) (addStmts fix strict st' rest).1.file.retract := by
        intro st' h hf
        rw [← h]
        exact (ih st' hf).weaken (fun x hx => List.mem_append_right _ hx)
      simp only [linesOf_block] at hfp ⊢
      cases hbt : b.token with
      | nil =>
        simp only [hbt, List.cons.injEq] at hfp ⊢
        exact hskip _ (by cases strict <;> rfl) hfp.2
      | cons verb tl =>
        cases tl with
        | nil =>
          by_cases hv : verbIn verb blockVerbs = true
          · simp only [hbt, hv, if_true, List.cons.injEq, Expr.lineBlock.injEq] at hfp ⊢
            obtain ⟨h1, h2⟩ := hfp
            have hb : (addBlockLines b.comments verb fix strict st b.lines).2 = b.lines := by
              have := congrArg LineBlock.lines h1
              simpa using this
            exact RetTokIn.trans (addBlockLines_rettok b.comments verb fix strict b.lines st hb) (ih _ h2)
          · simp only [hbt, hv, if_false, List.cons.injEq] at hfp ⊢
            exact hskip _ (by cases strict <;> rfl) hfp.2
        | cons t2 ts =>
          simp only [hbt, List.cons.injEq] at hfp ⊢
          exact hskip _ (by cases strict <;> rfl) hfp.2
    | commentBlock c => simp only [linesOf_commentBlock, List.cons.injEq] at hfp ⊢; exact ih st hfp.2
    | lparen c => simp only [linesOf_lparen, List.cons.injEq] at hfp ⊢; exact ih st hfp.2
    | rparen c => simp only [linesOf_rparen, List.cons.injEq] at hfp ⊢; exact ih st hfp.2

end ModVerif.Proofs.ModfileFmtRet
