/-
  Helper lemmas for Props/C01.lean (`lookup_authentic`): the authenticity invariant of the sequential client
  (Model/Client.lean) against an arbitrary environment.  Composition of C07 (`open_sound`), C09 (`store_get`,
  `treeHash_eq_mth`) and C10 (`readHashes_authenticated`).
-/
import ModVerif.Model.Client
import ModVerif.Props.C07
import ModVerif.Props.C09
import ModVerif.Props.C10
namespace ModVerif.Client
open ModVerif ModVerif.Tlog ModVerif.Tile

set_option linter.unusedSectionVars false

section
variable {σ H : Type} [DecidableEq H]

/-! ### vocabulary -/

/-- the RFC 6962 tree hash of the first `n` records of `D` -/
def rootAt (P : Params H) (D : List Bytes) (n : Nat) : H := RFC6962.mth P.node P.empty ((D.take n).map P.leaf)

/-- `hd` is a tree head of the log `D` -/
def IsHead (P : Params H) (D : List Bytes) (hd : Head H) : Prop := hd.n ≤ D.length ∧ hd.hash = rootAt P D hd.n

/-- (i) signature soundness of one key: whatever text the key's verifier accepts and `ParseTree` reads as a tree head
    is a head of `D` -/
def VerifierSound (P : Params H) (D : List Bytes) (v : Note.Verifier) : Prop :=
  ∀ text sig t, v.verify text sig = true → TlogNote.parseTree text = some t →
    IsHead P D ⟨t.n.toNat, P.dec t.hash⟩

/-- every key the configuration ever hands out is sound -/
def KeySound (P : Params H) (D : List Bytes) (E : Env σ) : Prop :=
  ∀ s k v, (E.readConfig s (B "key")).1 = some k →
    Note.NewVerifier P.sha P.edVerify (GoStrings.trimSpace k) = .ok v → VerifierSound P D v

/-- what the verifier list accepts is a head of `D` -/
def SigSound (P : Params H) (D : List Bytes) (vs : List Note.Verifier) : Prop :=
  ∀ msg hd, openTree P vs msg = .ok hd → IsHead P D hd

/-- the record number `checkRecord` authenticates for the id in a response (O5: a negative id is read as 0) -/
def recIndex (id : Int) : Nat := if id < 0 then 0 else id.toNat

/-- `data` is a lookup response whose record text has the leaf hash of a record of `D` and whose remainder is empty or
    a tree note the verifier list accepts -/
def AuthResponse (P : Params H) (D : List Bytes) (vs : List Note.Verifier) (data : Bytes) : Prop :=
  ∃ id text rest, TlogNote.parseRecord data = some (id, text, rest) ∧
    (∃ r, D[recIndex id]? = some r ∧ P.leaf text = P.leaf r) ∧
    (rest = [] ∨ ∃ hd, openTree P vs rest = .ok hd)

/-- `d` is the content of the true tile `t` of a prefix of `D` -/
def AuthTile (P : Params H) (D : List Bytes) (t : Tile) (d : Bytes) : Prop :=
  ∃ n st, n ≤ D.length ∧ buildStore P.leaf P.node (D.take n) = .ok st ∧ trueTile st t = some (decodeTile P d) ∧
    d.length = t.w * P.hashSize

/-- an effect that C01 allows -/
def GoodEffect (P : Params H) (D : List Bytes) (vs : List Note.Verifier) (name : Bytes) : Effect → Prop
  | .writeCache f d => AuthResponse P D vs d ∨ ∃ t, f = tileCacheKey name t ∧ AuthTile P D t d
  | .writeConfig _ old new _ =>
      ∃ hd, openTree P vs new = .ok hd ∧ IsHead P D hd ∧
        (old = [] ∨ ∃ ho, openTree P vs old = .ok ho ∧ ho.n < hd.n)
  | .securityError _ => True
  | .read _ _ _ => True

/-! ### the frame of the operations below `mergeLatestMem` -/

/-- `w'` differs from `w` only in the environment state, the tile caches and by allowed effects -/
structure Low (P : Params H) (D : List Bytes) (w w' : World σ H) : Prop where
  verifiers : w'.c.verifiers = w.c.verifiers
  name : w'.c.name = w.c.name
  record : w'.c.record = w.c.record
  inited : w'.c.inited = w.c.inited
  latest : w'.c.latest = w.c.latest
  latestMsg : w'.c.latestMsg = w.c.latestMsg
  trace : ∃ es, w'.tr = w.tr ++ es ∧ ∀ e ∈ es, GoodEffect P D w.c.verifiers w.c.name e

theorem Low.refl (P : Params H) (D : List Bytes) (w : World σ H) : Low P D w w :=
  ⟨rfl, rfl, rfl, rfl, rfl, rfl, [], by simp, by simp⟩

theorem Low.trans {P : Params H} {D : List Bytes} {w1 w2 w3 : World σ H} (a : Low P D w1 w2) (b : Low P D w2 w3) :
    Low P D w1 w3 := by
  obtain ⟨es1, e1, g1⟩ := a.trace
  obtain ⟨es2, e2, g2⟩ := b.trace
  refine ⟨b.verifiers.trans a.verifiers, b.name.trans a.name, b.record.trans a.record, b.inited.trans a.inited,
    b.latest.trans a.latest, b.latestMsg.trans a.latestMsg, es1 ++ es2, by rw [e2, e1, List.append_assoc], ?_⟩
  intro e he
  rcases List.mem_append.mp he with h | h
  · exact g1 e h
  · have := g2 e h
    rwa [a.verifiers, a.name] at this

theorem low_readRemote (P : Params H) (D : List Bytes) (E : Env σ) (w : World σ H) (p : Bytes) :
    Low P D w (readRemote E w p).2 :=
  ⟨rfl, rfl, rfl, rfl, rfl, rfl, _, rfl, by simp [GoodEffect]⟩

theorem low_readCache (P : Params H) (D : List Bytes) (E : Env σ) (w : World σ H) (p : Bytes) :
    Low P D w (readCache E w p).2 :=
  ⟨rfl, rfl, rfl, rfl, rfl, rfl, _, rfl, by simp [GoodEffect]⟩

theorem low_readConfig (P : Params H) (D : List Bytes) (E : Env σ) (w : World σ H) (p : Bytes) :
    Low P D w (readConfig E w p).2 :=
  ⟨rfl, rfl, rfl, rfl, rfl, rfl, _, rfl, by simp [GoodEffect]⟩

theorem low_markTileSaved (P : Params H) (D : List Bytes) (w : World σ H) (t : Tile) :
    Low P D w (markTileSaved w t) :=
  ⟨rfl, rfl, rfl, rfl, rfl, rfl, [], by simp [markTileSaved], by simp⟩

theorem low_securityError (P : Params H) (D : List Bytes) (E : Env σ) (w : World σ H) (m : Bytes) :
    Low P D w (securityError E w m) :=
  ⟨rfl, rfl, rfl, rfl, rfl, rfl, _, rfl, by simp [GoodEffect]⟩

theorem low_writeCache (P : Params H) (D : List Bytes) (E : Env σ) (w : World σ H) (f d : Bytes)
    (h : GoodEffect P D w.c.verifiers w.c.name (.writeCache f d)) : Low P D w (writeCache E w f d) :=
  ⟨rfl, rfl, rfl, rfl, rfl, rfl, _, rfl, by simpa using h⟩

/-! ### tiles -/

theorem low_condReadCache (P : Params H) (D : List Bytes) (E : Env σ) {w w' : World σ H} (c : Bool) (k : Bytes)
    (l : Low P D w w') : Low P D w (if c then readCache E w' k else (none, w')).2 := by
  cases c
  · exact l
  · exact l.trans (low_readCache P D E _ _)

theorem low_condReadRemote (P : Params H) (D : List Bytes) (E : Env σ) {w w' : World σ H} (c : Bool) (k : Bytes)
    (l : Low P D w w') : Low P D w (if c then readRemote E w' k else (none, w')).2 := by
  cases c
  · exact l
  · exact l.trans (low_readRemote P D E _ _)

theorem low_readTileWork (P : Params H) (D : List Bytes) (E : Env σ) (w : World σ H) (t : Tile) :
    Low P D w (readTileWork E w t).2 := by
  have l1 := low_readCache P D E w (tileCacheKey w.c.name t)
  have l2 := low_condReadCache P D E (t != { t with w := 2 ^ t.h }) (tileCacheKey w.c.name { t with w := 2 ^ t.h }) l1
  have l3 := l2.trans (low_readRemote P D E _ (tileRemotePath t))
  have l4 := low_condReadRemote P D E (t != { t with w := 2 ^ t.h }) (tileRemotePath { t with w := 2 ^ t.h }) l3
  simp only [readTileWork]
  split
  · exact l1.trans (low_markTileSaved P D _ t)
  · split
    · exact l2.trans (low_markTileSaved P D _ t)
    · split
      · exact l3
      · split <;> exact l4

theorem low_readTile (P : Params H) (D : List Bytes) (E : Env σ) (w : World σ H) (t : Tile) :
    Low P D w (readTile E w t).2 := by
  unfold readTile
  split
  · exact Low.refl P D w
  · have l := low_readTileWork P D E w t
    exact ⟨l.verifiers, l.name, l.record, l.inited, l.latest, l.latestMsg, l.trace⟩

theorem low_readTilesAll (P : Params H) (D : List Bytes) (E : Env σ) :
    ∀ (ts : List Tile) (w : World σ H), Low P D w (readTilesAll E w ts).2 := by
  intro ts
  induction ts with
  | nil => intro w; exact Low.refl P D w
  | cons t ts ih => intro w; exact (low_readTile P D E w t).trans (ih _)

theorem readTilesAll_length (E : Env σ) : ∀ (ts : List Tile) (w : World σ H), (readTilesAll E w ts).1.length = ts.length := by
  intro ts
  induction ts with
  | nil => intro w; rfl
  | cons t ts ih => intro w; simp [readTilesAll, ih]

theorem firstError_length : ∀ (rs : List (Except Err Bytes)) (ds : List Bytes), firstError rs = .ok ds → ds.length = rs.length := by
  intro rs
  induction rs with
  | nil => intro ds h; simp [firstError] at h; subst h; rfl
  | cons r rs ih =>
    intro ds h
    cases r with
    | error e => simp [firstError] at h
    | ok d =>
      simp only [firstError] at h
      cases hr : firstError rs with
      | error e => simp [hr] at h
      | ok ds' =>
        simp [hr] at h; subst h
        simp [ih ds' hr]

theorem low_saveTiles (P : Params H) (D : List Bytes) (E : Env σ) :
    ∀ (l : List (Tile × Bytes)) (w : World σ H), (∀ td ∈ l, AuthTile P D td.1 td.2) → Low P D w (saveTiles E w l) := by
  intro l
  induction l with
  | nil => intro w _; exact Low.refl P D w
  | cons td rest ih =>
    intro w h
    obtain ⟨t, d⟩ := td
    have hrest : ∀ td ∈ rest, AuthTile P D td.1 td.2 := fun td htd => h td (List.mem_cons_of_mem _ htd)
    unfold saveTiles
    split
    · exact ih w hrest
    · refine ((low_markTileSaved P D w t).trans (low_writeCache P D E _ _ _ ?_)).trans (ih _ hrest)
      exact Or.inr ⟨t, rfl, h (t, d) (List.mem_cons_self ..)⟩

/-! ### ReadHashes through the client's tile reader -/

theorem lookup_zip_get {α : Type} : ∀ (tiles : List Tile) (xs : List α), tiles.Nodup →
    ∀ (i : Nat) (t : Tile) (x : α), tiles[i]? = some t → xs[i]? = some x → (tiles.zip xs).lookup t = some x := by
  intro tiles
  induction tiles with
  | nil => intro xs _ i t x h; simp at h
  | cons t0 ts ih =>
    intro xs hnd i t x h1 h2
    cases xs with
    | nil => simp at h2
    | cons x0 xr =>
      cases i with
      | zero =>
        simp only [List.getElem?_cons_zero, Option.some.injEq] at h1 h2
        subst h1 h2
        simp
      | succ k =>
        simp only [List.getElem?_cons_succ] at h1 h2
        have hne : t ≠ t0 := by
          intro e; subst e
          exact (List.nodup_cons.mp hnd).1 (List.mem_of_getElem? h1)
        simp only [List.zip_cons_cons, List.lookup]
        have : (t == t0) = false := by simpa using hne
        rw [this]
        exact ih xr (List.nodup_cons.mp hnd).2 k t x h1 h2

theorem bytesWidthsOk_spec (size : Nat) : ∀ (tiles : List Tile) (ds : List Bytes), bytesWidthsOk size tiles ds = true →
    ds.length = tiles.length ∧ ∀ td ∈ tiles.zip ds, td.2.length = td.1.w * size := by
  intro tiles
  induction tiles with
  | nil =>
    intro ds h
    cases ds with
    | nil => simp
    | cons d ds => simp [bytesWidthsOk] at h
  | cons t ts ih =>
    intro ds h
    cases ds with
    | nil => simp [bytesWidthsOk] at h
    | cons d dr =>
      simp only [bytesWidthsOk, Bool.and_eq_true, beq_iff_eq] at h
      obtain ⟨a, b⟩ := ih dr h.2
      refine ⟨by simp [a], ?_⟩
      intro td htd
      simp only [List.zip_cons_cons, List.mem_cons] at htd
      rcases htd with e | e
      · subst e; exact h.1
      · exact b td e

/-- the store of the first `n` records exists -/
theorem store_exists (P : Params H) (D : List Bytes) (hD : D.length < 2 ^ 62) (n : Nat) :
    ∃ st, buildStore P.leaf P.node (D.take n) = .ok st := by
  obtain ⟨st, h, _⟩ := Props.C09.store_invariant P.leaf P.node P.empty (D.take n)
    (by rw [List.length_take]; have : 2 ^ 62 < 2 ^ 64 := by decide
        omega)
  exact ⟨st, h⟩

theorem tileHeight_pos (P : Params H) : 1 ≤ tileHeight P := by
  unfold tileHeight
  split
  · decide
  · rename_i h
    have : P.height ≠ 0 := by simpa using h
    omega

/-- ★ whatever the environment answers: `ReadHashes` on a head of `D` leaves only allowed effects (every tile written to
    the cache is the true tile) and, when it succeeds, returns the true stored hashes of the first `tree.n` records -/
theorem readHashes_spec (P : Params H) (D : List Bytes) (hD : D.length < 2 ^ 62)
    (hcf : ∀ a b c d : H, P.node a b = P.node c d → a = c ∧ b = d)
    (E : Env σ) (w : World σ H) (tree : Head H) (htree : IsHead P D tree) (idx : List Nat) :
    Low P D w (readHashes P E w tree idx).2 ∧
    ∀ hs, (readHashes P E w tree idx).1 = .ok hs →
      ∃ st, buildStore P.leaf P.node (D.take tree.n) = .ok st ∧ idx.mapM (st[·]?) = some hs := by
  obtain ⟨st, hst⟩ := store_exists P D hD tree.n
  have hlen : (D.take tree.n).length = tree.n := by rw [List.length_take]; exact Nat.min_eq_left htree.1
  have hroot : tree.hash = RFC6962.mth P.node P.empty ((D.take tree.n).map P.leaf) := htree.2
  simp only [readHashes]
  cases hp : plan (tileHeight P) tree.n idx with
  | error e => exact ⟨Low.refl P D w, by intro hs h; cases h⟩
  | ok p =>
    simp only
    by_cases hstx : p.stx.isEmpty = true
    · rw [if_pos hstx]
      refine ⟨Low.refl P D w, ?_⟩
      intro hs h
      simp only [Except.ok.injEq] at h
      subst h
      have := (Tile.plan_stx_nil (tileHeight P) tree.n idx p hp (by simpa using hstx)).2
      subst this
      exact ⟨st, hst, rfl⟩
    · rw [if_neg hstx]
      have lr : Low P D w (readTiles E w p.tiles).2 := low_readTilesAll P D E p.tiles w
      cases hfe : (readTiles E w p.tiles).1 with
      | error e => exact ⟨lr, by intro hs h; cases h⟩
      | ok datas =>
        simp only
        by_cases hwd : bytesWidthsOk P.hashSize p.tiles datas = true
        · rw [if_neg (by simp [hwd])]
          obtain ⟨hdl, hdw⟩ := bytesWidthsOk_spec P.hashSize p.tiles datas hwd
          -- the pure reader over the fetched table, on the true head of D.take tree.n
          have hauth := Props.C10.readHashes_authenticated P.leaf P.node P.empty (D.take tree.n) st hst
            (by rw [hlen]; have := htree.1; omega) hcf (tileHeight P) (tileHeight_pos P) idx
            (fun t => (p.tiles.zip (datas.map (decodeTile P))).lookup t)
          rw [hlen, ← hroot] at hauth
          obtain ⟨hres, hsaved⟩ := hauth
          have hresult : ∀ hs, liftTlog (Tile.readHashes P.node tree.n tree.hash (tileHeight P) idx
              (fun t => (p.tiles.zip (datas.map (decodeTile P))).lookup t)).result = .ok hs →
              ∃ st, buildStore P.leaf P.node (D.take tree.n) = .ok st ∧ idx.mapM (st[·]?) = some hs := by
            intro hs h
            refine ⟨st, hst, hres hs ?_⟩
            revert h
            cases (Tile.readHashes P.node tree.n tree.hash (tileHeight P) idx
              (fun t => (p.tiles.zip (datas.map (decodeTile P))).lookup t)).result with
            | error e => intro h; cases h
            | ok x => intro h; simpa [liftTlog] using h
          cases hsv : (Tile.readHashes P.node tree.n tree.hash (tileHeight P) idx
              (fun t => (p.tiles.zip (datas.map (decodeTile P))).lookup t)).saved with
          | none => exact ⟨lr, hresult⟩
          | some sv =>
            simp only
            refine ⟨lr.trans (low_saveTiles P D E _ _ ?_), hresult⟩
            -- every saved (tile, bytes) pair decodes to the true tile
            rcases TileAuth.readHashes_cases P.node tree.n tree.hash (tileHeight P) idx
              (fun t => (p.tiles.zip (datas.map (decodeTile P))).lookup t) with ⟨a1, _⟩ | ⟨p', data', b1, _, b3, _, _, b6, _⟩
            · rw [a1] at hsv; cases hsv
            · rw [hp] at b1
              cases b1
              have hnd := (Props.C10.plan_parents_first (tileHeight P) tree.n (tileHeight_pos P) (by have := htree.1; omega) idx p hp).2.2.1
              have hm : p.tiles.mapM (fun t => (p.tiles.zip (datas.map (decodeTile P))).lookup t) =
                  some (datas.map (decodeTile P)) := by
                apply TileAuth.mapM_option_of_get
                · simp [hdl]
                · intro i a hi
                  have hilt : i < p.tiles.length := (List.getElem?_eq_some_iff.mp hi).1
                  have hx : (datas.map (decodeTile P))[i]? = some ((datas.map (decodeTile P))[i]'(by simp [hdl, hilt])) :=
                    List.getElem?_eq_getElem _
                  exact ⟨_, hx, lookup_zip_get p.tiles _ hnd i a _ hi hx⟩
              rw [hm] at b3
              cases b3
              intro td htd
              obtain ⟨t, d⟩ := td
              have hmem : (t, decodeTile P d) ∈ p.tiles.zip (datas.map (decodeTile P)) := by
                rw [List.zip_map_right]
                exact List.mem_map.mpr ⟨(t, d), htd, rfl⟩
              refine ⟨tree.n, st, htree.1, hst, ?_, hdw (t, d) htd⟩
              exact hsaved _ b6 (t, decodeTile P d) hmem
        · rw [if_pos (by simp [hwd])]
          exact ⟨lr, by intro hs h; cases h⟩

/-! ### TreeHash / ProveTree through the tile reader, checkTrees -/

theorem treeHash_reader_congr (node : H → H → H) (empty : H) (n : Nat) (indexes : List Nat) (r r' : HashReader H)
    (hsub : subTreeIndex 0 n = .ok indexes) (hr : r indexes = r' indexes) :
    Tlog.treeHash node empty n r = Tlog.treeHash node empty n r' := by
  unfold Tlog.treeHash
  split
  · rfl
  · simp only [hsub, bind, Except.bind, readChecked, hr]

theorem rootAt_zero (P : Params H) (D : List Bytes) : rootAt P D 0 = P.empty := by
  simp [rootAt]

theorem rootAt_take (P : Params H) (D : List Bytes) (n m : Nat) (h : n ≤ m) :
    RFC6962.mth P.node P.empty (((D.take m).map P.leaf).take n) = rootAt P D n := by
  unfold rootAt
  rw [← List.map_take, List.take_take, Nat.min_eq_left h]

theorem treeHashVia_spec (P : Params H) (D : List Bytes) (hD : D.length < 2 ^ 62)
    (hcf : ∀ a b c d : H, P.node a b = P.node c d → a = c ∧ b = d)
    (E : Env σ) (w : World σ H) (n : Nat) (tree : Head H) (htree : IsHead P D tree) (hn : n ≤ tree.n) :
    Low P D w (treeHashVia P E w n tree).2 ∧ ∀ h, (treeHashVia P E w n tree).1 = .ok h → h = rootAt P D n := by
  simp only [treeHashVia]
  by_cases h0 : (n == 0) = true
  · rw [if_pos h0]
    refine ⟨Low.refl P D w, ?_⟩
    intro h hh
    simp only [Except.ok.injEq] at hh
    have : n = 0 := by simpa using h0
    subst this
    rw [rootAt_zero]; exact hh.symm
  · rw [if_neg h0]
    cases hsub : subTreeIndex 0 n with
    | error e => exact ⟨Low.refl P D w, by intro h hh; cases hh⟩
    | ok indexes =>
      simp only
      obtain ⟨lw, hres⟩ := readHashes_spec P D hD hcf E w tree htree indexes
      cases hr : (readHashes P E w tree indexes).1 with
      | error e => exact ⟨lw, by intro h hh; cases hh⟩
      | ok hs =>
        simp only
        refine ⟨lw, ?_⟩
        intro h hh
        obtain ⟨st, hst, hm⟩ := hres hs hr
        have hlen : (D.take tree.n).length = tree.n := by rw [List.length_take]; exact Nat.min_eq_left htree.1
        have hn1 := htree.1
        have hb1 : (D.take tree.n).length < 2 ^ 64 := by
          rw [hlen]; have : (2:Nat) ^ 62 < 2 ^ 64 := by decide
          omega
        have hb2 : n < 2 ^ 63 := by
          have : (2:Nat) ^ 62 < 2 ^ 63 := by decide
          omega
        have hth := Props.C09.treeHash_eq_mth P.leaf P.node P.empty (D.take tree.n) hb1 st hst n
          (by rw [hlen]; exact hn) hb2
        rw [treeHash_reader_congr P.node P.empty n indexes (storeReader st) (fun _ => some hs) hsub
          (by simp only [storeReader]; exact hm)] at hth
        rw [hth] at hh
        simp only [liftTlog, Except.ok.injEq] at hh
        rw [← hh]
        exact rootAt_take P D n tree.n hn

theorem low_proveTreeVia (P : Params H) (D : List Bytes) (hD : D.length < 2 ^ 62)
    (hcf : ∀ a b c d : H, P.node a b = P.node c d → a = c ∧ b = d)
    (E : Env σ) (w : World σ H) (t n : Nat) (tree : Head H) (htree : IsHead P D tree) :
    Low P D w (proveTreeVia P E w t n tree).2 := by
  simp only [proveTreeVia]
  split
  · exact Low.refl P D w
  · split
    · exact Low.refl P D w
    · split
      · exact Low.refl P D w
      · rename_i indexes _ _
        have lw := (readHashes_spec P D hD hcf E w tree htree indexes).1
        split <;> exact lw

/-- ★ `checkTrees(older, newer)` with `newer` a head of `D` and `older.N ≤ newer.N`: only allowed effects, and an `ok`
    answer means that `older` is a head of `D` as well (this is `ClientLatest.Sound.chk_ok` for this client) -/
theorem checkTrees_spec (P : Params H) (D : List Bytes) (hD : D.length < 2 ^ 62)
    (hcf : ∀ a b c d : H, P.node a b = P.node c d → a = c ∧ b = d)
    (E : Env σ) (w : World σ H) (older : Head H) (olderNote : Bytes) (newer : Head H) (newerNote : Bytes)
    (hnewer : IsHead P D newer) (hle : older.n ≤ newer.n) :
    Low P D w (checkTrees P E w older olderNote newer newerNote).2 ∧
    ((checkTrees P E w older olderNote newer newerNote).1 = .ok () → IsHead P D older) := by
  simp only [checkTrees]
  obtain ⟨lw, hres⟩ := treeHashVia_spec P D hD hcf E w older.n newer hnewer hle
  cases hr : (treeHashVia P E w older.n newer).1 with
  | error e => exact ⟨lw, by intro hh; cases hh⟩
  | ok h =>
    simp only
    by_cases heq : h = older.hash
    · rw [if_pos heq]
      refine ⟨lw, fun _ => ⟨Nat.le_trans hle hnewer.1, ?_⟩⟩
      rw [← heq]; exact hres h hr
    · rw [if_neg heq]
      refine ⟨(lw.trans (low_proveTreeVia P D hD hcf E _ newer.n older.n newer hnewer)).trans
        (low_securityError P D E _ _), by intro hh; cases hh⟩

/-! ### the authenticity invariant -/

/-- what holds of the client between any two steps once the verifier is installed -/
structure Core (P : Params H) (D : List Bytes) (w : World σ H) : Prop where
  sig : SigSound P D w.c.verifiers
  latest : IsHead P D w.c.latest
  latestMsg : w.c.latest.n ≠ 0 → openTree P w.c.verifiers w.c.latestMsg = .ok w.c.latest
  record : ∀ f data, (f, Except.ok data) ∈ w.c.record → AuthResponse P D w.c.verifiers data
  trace : ∀ e ∈ w.tr, GoodEffect P D w.c.verifiers w.c.name e

/-- frame of `mergeLatest`: the head may move -/
structure Mid (P : Params H) (D : List Bytes) (w w' : World σ H) : Prop where
  verifiers : w'.c.verifiers = w.c.verifiers
  name : w'.c.name = w.c.name
  record : w'.c.record = w.c.record
  inited : w'.c.inited = w.c.inited
  trace : ∃ es, w'.tr = w.tr ++ es ∧ ∀ e ∈ es, GoodEffect P D w.c.verifiers w.c.name e

theorem Mid.refl (P : Params H) (D : List Bytes) (w : World σ H) : Mid P D w w :=
  ⟨rfl, rfl, rfl, rfl, [], by simp, by simp⟩

theorem Low.mid {P : Params H} {D : List Bytes} {w w' : World σ H} (l : Low P D w w') : Mid P D w w' :=
  ⟨l.verifiers, l.name, l.record, l.inited, l.trace⟩

theorem Mid.trans {P : Params H} {D : List Bytes} {w1 w2 w3 : World σ H} (a : Mid P D w1 w2) (b : Mid P D w2 w3) :
    Mid P D w1 w3 := by
  obtain ⟨es1, e1, g1⟩ := a.trace
  obtain ⟨es2, e2, g2⟩ := b.trace
  refine ⟨b.verifiers.trans a.verifiers, b.name.trans a.name, b.record.trans a.record, b.inited.trans a.inited,
    es1 ++ es2, by rw [e2, e1, List.append_assoc], ?_⟩
  intro e he
  rcases List.mem_append.mp he with h | h
  · exact g1 e h
  · have := g2 e h
    rwa [a.verifiers, a.name] at this

/-- a `Low` step keeps the invariant -/
theorem Core.low {P : Params H} {D : List Bytes} {w w' : World σ H} (c : Core P D w) (l : Low P D w w') : Core P D w' := by
  obtain ⟨es, e, g⟩ := l.trace
  refine ⟨by rw [l.verifiers]; exact c.sig, by rw [l.latest]; exact c.latest,
    by rw [l.latest, l.verifiers, l.latestMsg]; exact c.latestMsg,
    by rw [l.record, l.verifiers]; exact c.record, ?_⟩
  rw [e, l.verifiers, l.name]
  intro x hx
  rcases List.mem_append.mp hx with h | h
  · exact c.trace x h
  · exact g x h

/-- `c.mergeLatestMem(msg)`: the invariant is kept; `past` means the stored message is empty or an accepted head strictly
    older than the (unchanged, non-empty) in-memory head -/
theorem mergeLatestMem_spec (P : Params H) (D : List Bytes) (hD : D.length < 2 ^ 62)
    (hcf : ∀ a b c d : H, P.node a b = P.node c d → a = c ∧ b = d)
    (E : Env σ) (w : World σ H) (hc : Core P D w) (msg : Bytes) :
    Core P D (mergeLatestMem P E w msg).2 ∧ Mid P D w (mergeLatestMem P E w msg).2 ∧
    ((mergeLatestMem P E w msg).1 = .ok .past →
      (mergeLatestMem P E w msg).2.c.latest.n ≠ 0 ∧
      (msg = [] ∨ ∃ ho, openTree P w.c.verifiers msg = .ok ho ∧ ho.n < (mergeLatestMem P E w msg).2.c.latest.n)) ∧
    (∀ wh, (mergeLatestMem P E w msg).1 = .ok wh → msg = [] ∨ ∃ ho, openTree P w.c.verifiers msg = .ok ho) := by
  generalize hr : mergeLatestMem P E w msg = r
  simp only [mergeLatestMem] at hr
  by_cases hm : msg.isEmpty = true
  · rw [if_pos hm] at hr
    subst hr
    have hnil : msg = [] := by simpa using hm
    refine ⟨hc, Mid.refl P D w, ?_, fun _ _ => Or.inl hnil⟩
    intro h
    simp only [Except.ok.injEq] at h
    refine ⟨?_, Or.inl hnil⟩
    intro h0
    simp only at h0
    rw [h0] at h
    simp at h
  · rw [if_neg hm] at hr
    cases ho : openTree P w.c.verifiers msg with
    | error e =>
      rw [ho] at hr; simp only at hr; subst hr
      exact ⟨hc, Mid.refl P D w, (by intro h; cases h), (by intro wh h; cases h)⟩
    | ok tree =>
      rw [ho] at hr; simp only at hr
      have htree : IsHead P D tree := hc.sig msg tree ho
      by_cases hle : tree.n ≤ w.c.latest.n
      · rw [if_pos hle] at hr
        obtain ⟨lw, _⟩ := checkTrees_spec P D hD hcf E w tree msg w.c.latest w.c.latestMsg hc.latest hle
        cases hk : (checkTrees P E w tree msg w.c.latest w.c.latestMsg).1 with
        | error e =>
          rw [hk] at hr; simp only at hr; subst hr
          exact ⟨hc.low lw, lw.mid, (by intro h; cases h), (by intro wh h; cases h)⟩
        | ok u =>
          rw [hk] at hr; simp only at hr; subst hr
          refine ⟨hc.low lw, lw.mid, ?_, fun _ _ => Or.inr ⟨tree, rfl⟩⟩
          intro h
          simp only [Except.ok.injEq] at h
          simp only
          rw [lw.latest]
          by_cases hlt : tree.n < w.c.latest.n
          · exact ⟨by omega, Or.inr ⟨tree, rfl, hlt⟩⟩
          · rw [if_neg hlt] at h; cases h
      · rw [if_neg hle] at hr
        obtain ⟨lw, _⟩ := checkTrees_spec P D hD hcf E w w.c.latest w.c.latestMsg tree msg htree (by omega)
        cases hk : (checkTrees P E w w.c.latest w.c.latestMsg tree msg).1 with
        | error e =>
          rw [hk] at hr; simp only at hr; subst hr
          exact ⟨hc.low lw, lw.mid, (by intro h; cases h), (by intro wh h; cases h)⟩
        | ok u =>
          rw [hk] at hr; simp only at hr; subst hr
          have hc' := hc.low lw
          refine ⟨⟨hc'.sig, htree, ?_, hc'.record, hc'.trace⟩,
            ⟨lw.verifiers, lw.name, lw.record, lw.inited, lw.trace⟩, (by intro h; cases h), fun _ _ => Or.inr ⟨tree, rfl⟩⟩
          intro _
          show openTree P (checkTrees P E w w.c.latest w.c.latestMsg tree msg).2.c.verifiers msg = .ok tree
          rw [lw.verifiers]; exact ho

theorem low_writeConfig (P : Params H) (D : List Bytes) (E : Env σ) (w : World σ H) (f o n : Bytes)
    (h : ∀ r, GoodEffect P D w.c.verifiers w.c.name (.writeConfig f o n r)) : Low P D w (writeConfig E w f o n).2 :=
  ⟨rfl, rfl, rfl, rfl, rfl, rfl, _, rfl, by simpa using h _⟩

theorem mergeLatestLoop_spec (P : Params H) (D : List Bytes) (hD : D.length < 2 ^ 62)
    (hcf : ∀ a b c d : H, P.node a b = P.node c d → a = c ∧ b = d) (E : Env σ) :
    ∀ (f : Nat) (w : World σ H), Core P D w →
      Core P D (mergeLatestLoop P E f w).2 ∧ Mid P D w (mergeLatestLoop P E f w).2 := by
  intro f
  induction f with
  | zero => intro w hc; exact ⟨hc, Mid.refl P D w⟩
  | succ f ih =>
    intro w hc
    generalize hr : mergeLatestLoop P E (f + 1) w = r
    simp only [mergeLatestLoop] at hr
    have l1 := low_readConfig P D E w (latestFile w.c.name)
    have c1 := hc.low l1
    cases hcfg : (readConfig E w (latestFile w.c.name)).1 with
    | none => rw [hcfg] at hr; simp only at hr; subst hr; exact ⟨c1, l1.mid⟩
    | some msg =>
      rw [hcfg] at hr; simp only at hr
      obtain ⟨c2, m2, hpast, _⟩ := mergeLatestMem_spec P D hD hcf E _ c1 msg
      cases hm : (mergeLatestMem P E (readConfig E w (latestFile w.c.name)).2 msg).1 with
      | error e => rw [hm] at hr; simp only at hr; subst hr; exact ⟨c2, l1.mid.trans m2⟩
      | ok wh =>
        rw [hm] at hr; simp only at hr
        by_cases hw : (wh != When.past) = true
        · rw [if_pos hw] at hr; subst hr; exact ⟨c2, l1.mid.trans m2⟩
        · rw [if_neg hw] at hr
          have hwp : wh = .past := by simpa using hw
          subst hwp
          obtain ⟨hn0, hold⟩ := hpast hm
          have l3 := low_writeConfig P D E (mergeLatestMem P E (readConfig E w (latestFile w.c.name)).2 msg).2
            (latestFile (mergeLatestMem P E (readConfig E w (latestFile w.c.name)).2 msg).2.c.name) msg
            (mergeLatestMem P E (readConfig E w (latestFile w.c.name)).2 msg).2.c.latestMsg (by
              intro r
              refine ⟨_, c2.latestMsg hn0, c2.latest, ?_⟩
              rw [m2.verifiers]
              exact hold)
          have c3 := c2.low l3
          have m3 := (l1.mid.trans m2).trans l3.mid
          cases hwr : (writeConfig E (mergeLatestMem P E (readConfig E w (latestFile w.c.name)).2 msg).2
            (latestFile (mergeLatestMem P E (readConfig E w (latestFile w.c.name)).2 msg).2.c.name) msg
            (mergeLatestMem P E (readConfig E w (latestFile w.c.name)).2 msg).2.c.latestMsg).1 with
          | ok => rw [hwr] at hr; simp only at hr; subst hr; exact ⟨c3, m3⟩
          | error => rw [hwr] at hr; simp only at hr; subst hr; exact ⟨c3, m3⟩
          | conflict =>
            rw [hwr] at hr; simp only at hr; subst hr
            obtain ⟨c4, m4⟩ := ih _ c3
            exact ⟨c4, m3.trans m4⟩

/-- `c.mergeLatest(msg)` keeps the invariant; on success the message was empty or accepted by the verifier list -/
theorem mergeLatest_spec (P : Params H) (D : List Bytes) (hD : D.length < 2 ^ 62)
    (hcf : ∀ a b c d : H, P.node a b = P.node c d → a = c ∧ b = d)
    (E : Env σ) (w : World σ H) (hc : Core P D w) (msg : Bytes) :
    Core P D (mergeLatest P E w msg).2 ∧ Mid P D w (mergeLatest P E w msg).2 ∧
    ((mergeLatest P E w msg).1 = .ok () → msg = [] ∨ ∃ ho, openTree P w.c.verifiers msg = .ok ho) := by
  generalize hr : mergeLatest P E w msg = r
  simp only [mergeLatest] at hr
  obtain ⟨c1, m1, _, hacc⟩ := mergeLatestMem_spec P D hD hcf E w hc msg
  cases hm : (mergeLatestMem P E w msg).1 with
  | error e => rw [hm] at hr; simp only at hr; subst hr; exact ⟨c1, m1, by intro h; cases h⟩
  | ok wh =>
    rw [hm] at hr; simp only at hr
    by_cases hw : (wh != When.future) = true
    · rw [if_pos hw] at hr; subst hr; exact ⟨c1, m1, fun _ => hacc wh hm⟩
    · rw [if_neg hw] at hr; subst hr
      obtain ⟨c2, m2⟩ := mergeLatestLoop_spec P D hD hcf E P.retries _ c1
      exact ⟨c2, m1.trans m2, fun _ => hacc wh hm⟩

/-! ### checkRecord, Lookup -/

theorem mapM_single {α β : Type} (f : α → Option β) (a : α) (bs : List β) (h : [a].mapM f = some bs) :
    ∃ b, f a = some b ∧ bs = [b] := by
  rw [List.mapM_cons] at h
  cases hf : f a with
  | none => simp [hf] at h
  | some b =>
    simp only [hf, List.mapM_nil] at h
    exact ⟨b, rfl, by simpa using h.symm⟩

/-- ★ `checkRecord(id, text)` succeeding means: `text` has the leaf hash of record `recIndex id` of `D` -/
theorem checkRecord_spec (P : Params H) (D : List Bytes) (hD : D.length < 2 ^ 62)
    (hcf : ∀ a b c d : H, P.node a b = P.node c d → a = c ∧ b = d)
    (E : Env σ) (w : World σ H) (hc : Core P D w) (id : Int) (text : Bytes) :
    Low P D w (checkRecord P E w id text).2 ∧
    ((checkRecord P E w id text).1 = .ok () → ∃ r, D[recIndex id]? = some r ∧ P.leaf text = P.leaf r) := by
  generalize hr : checkRecord P E w id text = r
  simp only [checkRecord] at hr
  by_cases hid : id ≥ (w.c.latest.n : Int)
  · rw [if_pos hid] at hr; subst hr; exact ⟨Low.refl P D w, by intro h; cases h⟩
  · rw [if_neg hid] at hr
    have hidx : (if id < 0 then 0 else storedHashIndex 0 id.toNat) = storedHashIndex 0 (recIndex id) := by
      unfold recIndex
      split
      · rfl
      · rfl
    rw [hidx] at hr
    obtain ⟨lw, hres⟩ := readHashes_spec P D hD hcf E w w.c.latest hc.latest [storedHashIndex 0 (recIndex id)]
    cases hh : (readHashes P E w w.c.latest [storedHashIndex 0 (recIndex id)]).1 with
    | error e => rw [hh] at hr; simp only at hr; subst hr; exact ⟨lw, by intro h; cases h⟩
    | ok hs =>
      rw [hh] at hr; simp only at hr
      obtain ⟨st, hst, hm⟩ := hres hs hh
      obtain ⟨b, hb, hbs⟩ := mapM_single _ _ _ hm
      subst hbs
      simp only at hr
      by_cases heq : b = P.leaf text
      · rw [if_pos heq] at hr; subst hr
        refine ⟨lw, fun _ => ?_⟩
        have hn := hc.latest.1
        have hlen : (D.take w.c.latest.n).length = w.c.latest.n := by rw [List.length_take]; exact Nat.min_eq_left hn
        have hb64 : (D.take w.c.latest.n).length < 2 ^ 64 := by
          rw [hlen]; have : (2:Nat) ^ 62 < 2 ^ 64 := by decide
          omega
        -- the record number is inside the authenticated tree
        have hj : recIndex id < w.c.latest.n := by
          unfold recIndex
          split
          · -- negative id: position 0 exists in the store, so the tree is not empty
            have hl := (Props.C09.store_invariant_of_ok P.leaf P.node P.empty _ hb64 st hst).1
            rw [hlen] at hl
            apply Nat.pos_of_ne_zero
            intro h0
            rw [h0] at hl
            have : st = [] := List.eq_nil_of_length_eq_zero (by simpa [storedHashCount] using hl)
            subst this
            unfold recIndex at hb
            simp at hb
          · omega
        have hget := Props.C09.store_get P.leaf P.node P.empty _ hb64 st hst 0 (recIndex id) (by rw [hlen]; omega)
        rw [hb] at hget
        have hjl : recIndex id < ((D.take w.c.latest.n).map P.leaf).length := by rw [List.length_map, hlen]; exact hj
        rw [TlogStore.leavesOf_zero _ _ hjl] at hget
        simp only [TlogStore.mth_singleton, Option.some.injEq] at hget
        refine ⟨D[recIndex id]'(by omega), List.getElem?_eq_getElem _, ?_⟩
        rw [← heq, hget]
        simp [List.getElem_take]
      · rw [if_neg heq] at hr; subst hr; exact ⟨lw, by intro h; cases h⟩

/-- the validation part of `lookupWork`, for data obtained from anywhere -/
theorem lookupValidate_spec (P : Params H) (D : List Bytes) (hD : D.length < 2 ^ 62)
    (hcf : ∀ a b c d : H, P.node a b = P.node c d → a = c ∧ b = d)
    (E : Env σ) (w0 w : World σ H) (hm0 : Mid P D w0 w) (hc : Core P D w) (file data : Bytes) (wc : Bool)
    (r : Except Err Bytes × World σ H)
    (hr : (match TlogNote.parseRecord data with
      | none => (Except.error Err.recordSyntax, w)
      | some (id, text, treeMsg) =>
        match (mergeLatest P E w treeMsg).1 with
        | .error e => (.error e, (mergeLatest P E w treeMsg).2)
        | .ok () =>
          match (checkRecord P E (mergeLatest P E w treeMsg).2 id text).1 with
          | .error e => (.error e, (checkRecord P E (mergeLatest P E w treeMsg).2 id text).2)
          | .ok () =>
            (.ok data, if wc then writeCache E (checkRecord P E (mergeLatest P E w treeMsg).2 id text).2 file data
              else (checkRecord P E (mergeLatest P E w treeMsg).2 id text).2)) = r) :
    Core P D r.2 ∧ Mid P D w0 r.2 ∧ (∀ d, r.1 = .ok d → AuthResponse P D w0.c.verifiers d) := by
  cases hp : TlogNote.parseRecord data with
  | none => rw [hp] at hr; simp only at hr; subst hr; exact ⟨hc, hm0, by intro d h; cases h⟩
  | some x =>
    obtain ⟨id, text, treeMsg⟩ := x
    rw [hp] at hr; simp only at hr
    obtain ⟨c1, m1, hacc⟩ := mergeLatest_spec P D hD hcf E w hc treeMsg
    cases hm : (mergeLatest P E w treeMsg).1 with
    | error e => rw [hm] at hr; simp only at hr; subst hr; exact ⟨c1, hm0.trans m1, by intro d h; cases h⟩
    | ok u =>
      rw [hm] at hr; simp only at hr
      obtain ⟨l2, hrec⟩ := checkRecord_spec P D hD hcf E _ c1 id text
      have c2 := c1.low l2
      have m2 := (hm0.trans m1).trans l2.mid
      cases hk : (checkRecord P E (mergeLatest P E w treeMsg).2 id text).1 with
      | error e => rw [hk] at hr; simp only at hr; subst hr; exact ⟨c2, m2, by intro d h; cases h⟩
      | ok u2 =>
        rw [hk] at hr; simp only at hr
        have hauth : AuthResponse P D w.c.verifiers data := ⟨id, text, treeMsg, hp, hrec hk, hacc hm⟩
        have hauth0 : AuthResponse P D w0.c.verifiers data := by rw [← hm0.verifiers]; exact hauth
        cases wc with
        | false =>
          simp only [Bool.false_eq_true, if_false] at hr; subst hr
          exact ⟨c2, m2, by intro d h; simp only [Except.ok.injEq] at h; subst h; exact hauth0⟩
        | true =>
          simp only [if_true] at hr; subst hr
          have l3 := low_writeCache P D E (checkRecord P E (mergeLatest P E w treeMsg).2 id text).2 file data
            (Or.inl (by rw [l2.verifiers, m1.verifiers]; exact hauth))
          exact ⟨c2.low l3, m2.trans l3.mid, by intro d h; simp only [Except.ok.injEq] at h; subst h; exact hauth0⟩

theorem lookupWork_spec (P : Params H) (D : List Bytes) (hD : D.length < 2 ^ 62)
    (hcf : ∀ a b c d : H, P.node a b = P.node c d → a = c ∧ b = d)
    (E : Env σ) (w : World σ H) (hc : Core P D w) (file remotePath : Bytes) :
    Core P D (lookupWork P E w file remotePath).2 ∧ Mid P D w (lookupWork P E w file remotePath).2 ∧
    (∀ d, (lookupWork P E w file remotePath).1 = .ok d → AuthResponse P D w.c.verifiers d) := by
  generalize hr : lookupWork P E w file remotePath = r
  simp only [lookupWork] at hr
  have l1 := low_readCache P D E w file
  cases h1 : (readCache E w file).1 with
  | some data =>
    rw [h1] at hr; simp only at hr
    exact lookupValidate_spec P D hD hcf E w _ l1.mid (hc.low l1) file data false r hr
  | none =>
    rw [h1] at hr; simp only at hr
    have l2 := l1.trans (low_readRemote P D E _ remotePath)
    cases h2 : (readRemote E (readCache E w file).2 remotePath).1 with
    | none => rw [h2] at hr; simp only at hr; subst hr; exact ⟨hc.low l2, l2.mid, by intro d h; cases h⟩
    | some data =>
      rw [h2] at hr; simp only at hr
      exact lookupValidate_spec P D hD hcf E w _ l2.mid (hc.low l2) file data true r hr

/-! ### signature soundness of the verifier list (C07 `open_sound`) -/

theorem verifierList_single_found (v k : Note.Verifier) (name : Bytes) (hash : UInt32)
    (h : Note.VerifierList [v] name hash = .found k) : k = v := by
  unfold Note.VerifierList at h
  by_cases hc : (v.name == name && v.hash == hash) = true
  · simp only [List.filter_cons, hc, if_true, List.filter_nil] at h
    cases h; rfl
  · simp only [List.filter_cons, hc, List.filter_nil] at h
    cases h

theorem verifierList_nil_not_found (k : Note.Verifier) (name : Bytes) (hash : UInt32) :
    Note.VerifierList [] name hash ≠ .found k := by
  unfold Note.VerifierList
  simp

theorem sigSound_nil (P : Params H) (D : List Bytes) : SigSound P D [] := by
  intro msg hd h
  unfold openTree at h
  cases ho : Note.Open msg (Note.VerifierList []) with
  | error e => simp [ho] at h
  | ok nt =>
    obtain ⟨hne, _, hver⟩ := Props.C07.open_sound ho
    cases hs : nt.sigs with
    | nil => exact absurd hs hne
    | cons s rest =>
      obtain ⟨k, raw, hk, _⟩ := hver s (by rw [hs]; exact List.mem_cons_self ..)
      exact absurd hk (verifierList_nil_not_found k _ _)

/-- ★ composition with C07: if the configured key's verifier only accepts heads of `D`, then every message that
    `note.Open` + `ParseTree` accept under the client's verifier list is a head of `D` -/
theorem sigSound_of_verifierSound (P : Params H) (D : List Bytes) (v : Note.Verifier) (hv : VerifierSound P D v) :
    SigSound P D [v] := by
  intro msg hd h
  unfold openTree at h
  cases ho : Note.Open msg (Note.VerifierList [v]) with
  | error e => simp [ho] at h
  | ok nt =>
    simp only [ho] at h
    cases hp : TlogNote.parseTree nt.text with
    | none => simp [hp] at h
    | some t =>
      simp only [hp, Except.ok.injEq] at h
      subst h
      obtain ⟨hne, _, hver⟩ := Props.C07.open_sound ho
      cases hs : nt.sigs with
      | nil => exact absurd hs hne
      | cons s rest =>
        obtain ⟨k, raw, hk, _, _, _, _, _, hvf⟩ := hver s (by rw [hs]; exact List.mem_cons_self ..)
        have := verifierList_single_found v k _ _ hk
        subst this
        exact hv nt.text (raw.drop 4) t hvf hp

/-! ### initialisation and Lookup -/

/-- the client before `init` has run -/
structure Pristine (P : Params H) (w : World σ H) : Prop where
  tr : w.tr = []
  latest : w.c.latest = ⟨0, P.empty⟩
  record : w.c.record = []
  verifiers : w.c.verifiers = []

/-- the invariant between two calls of `Lookup` -/
structure Inv (P : Params H) (D : List Bytes) (w : World σ H) : Prop where
  core : Core P D w
  pristine : w.c.inited = none → Pristine P w

theorem isHead_zero (P : Params H) (D : List Bytes) : IsHead P D ⟨0, P.empty⟩ :=
  ⟨Nat.zero_le _, (rootAt_zero P D).symm⟩

/-- the state `NewClient` returns satisfies the invariant, whatever the environment state -/
theorem inv_newClient (P : Params H) (D : List Bytes) (s : σ) : Inv P D ⟨s, newClient P, []⟩ := by
  refine ⟨⟨sigSound_nil P D, isHead_zero P D, by intro h; exact absurd rfl h, by intro f d h; simp [newClient] at h,
    by intro e h; simp at h⟩, fun _ => ⟨rfl, rfl, rfl, rfl⟩⟩

theorem core_setInit {P : Params H} {D : List Bytes} {w : World σ H} (c : Core P D w) (e : Option Err) :
    Core P D (setInit w e) :=
  ⟨c.sig, c.latest, c.latestMsg, c.record, c.trace⟩

theorem initWork_spec (P : Params H) (D : List Bytes) (hD : D.length < 2 ^ 62)
    (hcf : ∀ a b c d : H, P.node a b = P.node c d → a = c ∧ b = d)
    (E : Env σ) (hkey : KeySound P D E) (w : World σ H) (hp : Pristine P w) :
    Core P D (initWork P E w) ∧ (initWork P E w).c.inited ≠ none := by
  generalize hr : initWork P E w = r
  simp only [initWork] at hr
  have hc0 : Core P D w := by
    refine ⟨by rw [hp.verifiers]; exact sigSound_nil P D, by rw [hp.latest]; exact isHead_zero P D,
      by rw [hp.latest]; intro h; exact absurd rfl h, by rw [hp.record]; intro f d h; simp at h,
      by rw [hp.tr]; intro e h; simp at h⟩
  have l1 := low_readConfig P D E w (B "key")
  have c1 := hc0.low l1
  cases hk : (readConfig E w (B "key")).1 with
  | none => rw [hk] at hr; simp only at hr; subst hr; exact ⟨core_setInit c1 _, by simp [setInit]⟩
  | some vkey =>
    rw [hk] at hr; simp only at hr
    cases hv : Note.NewVerifier P.sha P.edVerify (GoStrings.trimSpace vkey) with
    | error e => rw [hv] at hr; simp only at hr; subst hr; exact ⟨core_setInit c1 _, by simp [setInit]⟩
    | ok v =>
      rw [hv] at hr; simp only at hr
      have hvs : VerifierSound P D v := hkey w.s vkey v hk hv
      have c2 : Core P D ({ (readConfig E w (B "key")).2 with
          c := { (readConfig E w (B "key")).2.c with verifiers := [v], name := v.name } } : World σ H) := by
        refine ⟨sigSound_of_verifierSound P D v hvs, c1.latest, ?_, ?_, ?_⟩
        · intro h
          exfalso
          apply h
          show (readConfig E w (B "key")).2.c.latest.n = 0
          rw [l1.latest, hp.latest]
        · intro f d h
          have : (readConfig E w (B "key")).2.c.record = [] := by rw [l1.record, hp.record]
          simp only [this] at h
          simp at h
        · intro e he
          have : (readConfig E w (B "key")).2.tr = [Effect.read .config (B "key") (E.readConfig w.s (B "key")).1.isSome] := by
            simp [readConfig, hp.tr]
          simp only [this, List.mem_singleton] at he
          subst he
          trivial
      have l3 := low_readConfig P D E ({ (readConfig E w (B "key")).2 with
          c := { (readConfig E w (B "key")).2.c with verifiers := [v], name := v.name } } : World σ H) (latestFile v.name)
      have c3 := c2.low l3
      cases hl : (readConfig E ({ (readConfig E w (B "key")).2 with
          c := { (readConfig E w (B "key")).2.c with verifiers := [v], name := v.name } } : World σ H) (latestFile v.name)).1 with
      | none => rw [hl] at hr; simp only at hr; subst hr; exact ⟨core_setInit c3 _, by simp [setInit]⟩
      | some data =>
        rw [hl] at hr; simp only at hr
        obtain ⟨c4, _, _⟩ := mergeLatest_spec P D hD hcf E _ c3 data
        cases hm : (mergeLatest P E (readConfig E ({ (readConfig E w (B "key")).2 with
          c := { (readConfig E w (B "key")).2.c with verifiers := [v], name := v.name } } : World σ H) (latestFile v.name)).2 data).1 with
        | error e => rw [hm] at hr; simp only at hr; subst hr; exact ⟨core_setInit c4 _, by simp [setInit]⟩
        | ok u => rw [hm] at hr; simp only at hr; subst hr; exact ⟨core_setInit c4 _, by simp [setInit]⟩

theorem init_spec (P : Params H) (D : List Bytes) (hD : D.length < 2 ^ 62)
    (hcf : ∀ a b c d : H, P.node a b = P.node c d → a = c ∧ b = d)
    (E : Env σ) (hkey : KeySound P D E) (w : World σ H) (hi : Inv P D w) :
    Core P D (init P E w) ∧ (init P E w).c.inited ≠ none := by
  unfold init
  cases h : w.c.inited with
  | some x => simp only; exact ⟨hi.core, by rw [h]; simp⟩
  | none => simp only; exact initWork_spec P D hD hcf E hkey w (hi.pristine h)

theorem lookup_mem {α β : Type} [BEq α] [LawfulBEq α] : ∀ (l : List (α × β)) (k : α) (v : β), l.lookup k = some v → (k, v) ∈ l := by
  intro l
  induction l with
  | nil => intro k v h; simp at h
  | cons x rest ih =>
    intro k v h
    obtain ⟨k0, v0⟩ := x
    simp only [List.lookup] at h
    by_cases hk : (k == k0) = true
    · simp only [hk] at h
      have : k = k0 := by simpa using hk
      cases h; subst this
      exact List.mem_cons_self ..
    · have hk' : (k == k0) = false := by simpa using hk
      simp only [hk'] at h
      exact List.mem_cons_of_mem _ (ih k v h)

/-- ★ one `Lookup` against an arbitrary environment: the invariant is kept and a successful answer consists of the lines,
    filtered by the prefix, of an authentic response -/
theorem lookup_spec (P : Params H) (D : List Bytes) (hD : D.length < 2 ^ 62)
    (hcf : ∀ a b c d : H, P.node a b = P.node c d → a = c ∧ b = d)
    (E : Env σ) (hkey : KeySound P D E) (w : World σ H) (hi : Inv P D w) (path vers : Bytes) :
    Inv P D (lookup P E w path vers).2 ∧
    ∀ lines, (lookup P E w path vers).1 = .ok lines →
      ∃ data, AuthResponse P D (lookup P E w path vers).2.c.verifiers data ∧
        lines = filterLines (path ++ [32] ++ vers ++ [32]) data := by
  generalize hr : lookup P E w path vers = r
  simp only [lookup] at hr
  by_cases hskip : Module.matchPrefixPatterns P.glob P.nosumdb path = true
  · rw [if_pos hskip] at hr; subst hr; exact ⟨hi, by intro l h; cases h⟩
  · rw [if_neg hskip] at hr
    obtain ⟨c1, hin⟩ := init_spec P D hD hcf E hkey w hi
    have inv1 : Inv P D (init P E w) := ⟨c1, fun h => absurd h hin⟩
    cases hie : (init P E w).c.inited with
    | none => exact absurd hie hin
    | some ie =>
      cases ie with
      | some e => rw [hie] at hr; simp only at hr; subst hr; exact ⟨inv1, by intro l h; cases h⟩
      | none =>
        rw [hie] at hr; simp only at hr
        cases hep : Module.escapePath path with
        | error e => rw [hep] at hr; simp only at hr; subst hr; exact ⟨inv1, by intro l h; cases h⟩
        | ok epath =>
          rw [hep] at hr; simp only at hr
          cases hev : Module.escapeVersion P.isLetter (trimGoMod vers) with
          | error e => rw [hev] at hr; simp only at hr; subst hr; exact ⟨inv1, by intro l h; cases h⟩
          | ok evers =>
            rw [hev] at hr; simp only at hr
            cases hlk : (init P E w).c.record.lookup ((init P E w).c.name ++ (B "/lookup/" ++ epath ++ [64] ++ evers)) with
            | some res =>
              rw [hlk] at hr; simp only at hr
              cases res with
              | error e => simp only at hr; subst hr; exact ⟨inv1, by intro l h; cases h⟩
              | ok data =>
                simp only at hr; subst hr
                refine ⟨inv1, ?_⟩
                intro l h
                simp only [Except.ok.injEq] at h
                exact ⟨data, c1.record _ data (lookup_mem _ _ _ hlk), h.symm⟩
            | none =>
              rw [hlk] at hr; simp only at hr
              obtain ⟨c2, m2, hauth⟩ := lookupWork_spec P D hD hcf E (init P E w) c1
                ((init P E w).c.name ++ (B "/lookup/" ++ epath ++ [64] ++ evers)) (B "/lookup/" ++ epath ++ [64] ++ evers)
              -- the world after recording the result in c.record
              have c3 : Core P D ({ (lookupWork P E (init P E w) ((init P E w).c.name ++ (B "/lookup/" ++ epath ++ [64] ++ evers))
                    (B "/lookup/" ++ epath ++ [64] ++ evers)).2 with
                  c := { (lookupWork P E (init P E w) ((init P E w).c.name ++ (B "/lookup/" ++ epath ++ [64] ++ evers))
                    (B "/lookup/" ++ epath ++ [64] ++ evers)).2.c with
                    record := ((init P E w).c.name ++ (B "/lookup/" ++ epath ++ [64] ++ evers),
                      (lookupWork P E (init P E w) ((init P E w).c.name ++ (B "/lookup/" ++ epath ++ [64] ++ evers))
                        (B "/lookup/" ++ epath ++ [64] ++ evers)).1) ::
                      (lookupWork P E (init P E w) ((init P E w).c.name ++ (B "/lookup/" ++ epath ++ [64] ++ evers))
                        (B "/lookup/" ++ epath ++ [64] ++ evers)).2.c.record } } : World σ H) := by
                refine ⟨c2.sig, c2.latest, c2.latestMsg, ?_, c2.trace⟩
                intro f d hmem
                simp only [List.mem_cons, Prod.mk.injEq] at hmem
                rcases hmem with ⟨_, h2⟩ | h2
                · have := hauth d h2.symm
                  rw [← m2.verifiers] at this
                  exact this
                · exact c2.record f d h2
              have hin3 : ∀ x, (lookupWork P E (init P E w) ((init P E w).c.name ++ (B "/lookup/" ++ epath ++ [64] ++ evers))
                    (B "/lookup/" ++ epath ++ [64] ++ evers)).2.c.inited = none → x := by
                intro x h
                rw [m2.inited] at h
                exact absurd h hin
              cases hres : (lookupWork P E (init P E w) ((init P E w).c.name ++ (B "/lookup/" ++ epath ++ [64] ++ evers))
                    (B "/lookup/" ++ epath ++ [64] ++ evers)).1 with
              | error e =>
                rw [hres] at hr c3; simp only at hr; subst hr
                exact ⟨⟨c3, fun h => hin3 _ h⟩, by intro l h; cases h⟩
              | ok data =>
                rw [hres] at hr c3; simp only at hr; subst hr
                refine ⟨⟨c3, fun h => hin3 _ h⟩, ?_⟩
                intro l h
                simp only [Except.ok.injEq] at h
                refine ⟨data, ?_, h.symm⟩
                have := hauth data hres
                rw [← m2.verifiers] at this
                exact this

/-! ### the hypothesis in the wording of DESIGN §6: "every text the key verifies is `formatTree` of a head of `D`" -/

/-- If every text the verifier accepts is `FormatTree` of a tree head `(n, MTH(D[0:n]))`, `n ≤ |D|`, of the one log `D`
    (prefix-closed timeline), and hashes survive their 32-byte encoding, then the verifier is sound in the sense used
    by `lookup_authentic`. -/
theorem verifierSound_of_formatTree (P : Params H) (D : List Bytes) (v : Note.Verifier)
    (hD : (D.length : Int) ≤ Decimal.int64Max)
    (henc : ∀ h, (P.enc h).length = 32) (hdec : ∀ h, P.dec (P.enc h) = h)
    (hv : ∀ text sig, v.verify text sig = true →
      ∃ n, n ≤ D.length ∧ text = TlogNote.formatTree ⟨(n : Int), P.enc (rootAt P D n)⟩) :
    VerifierSound P D v := by
  intro text sig t hver hp
  obtain ⟨n, hn, ht⟩ := hv text sig hver
  subst ht
  rw [Props.C09.parseTree_formatTree ⟨(n : Int), P.enc (rootAt P D n)⟩ (by simp) (by simp only; omega) (henc _)] at hp
  cases hp
  exact ⟨by simpa using hn, by simp [hdec]⟩

/-! ### runs -/

/-- the client after a sequence of lookups -/
def runLookups (P : Params H) (E : Env σ) : World σ H → List (Bytes × Bytes) → World σ H
  | w, [] => w
  | w, q :: qs => runLookups P E (lookup P E w q.1 q.2).2 qs

theorem inv_runLookups (P : Params H) (D : List Bytes) (hD : D.length < 2 ^ 62)
    (hcf : ∀ a b c d : H, P.node a b = P.node c d → a = c ∧ b = d)
    (E : Env σ) (hkey : KeySound P D E) :
    ∀ (qs : List (Bytes × Bytes)) (w : World σ H), Inv P D w → Inv P D (runLookups P E w qs) := by
  intro qs
  induction qs with
  | nil => intro w h; exact h
  | cons q qs ih => intro w h; exact ih _ (lookup_spec P D hD hcf E hkey w h q.1 q.2).1

end
end ModVerif.Client
