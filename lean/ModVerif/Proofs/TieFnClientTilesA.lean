/-
  Tie proofs for the regenerated sumdb client, tiles part A: `Client_tileCacheKey`, `Client_tileRemotePath`,
  `Client_markTileSaved`, `Client_readTile_cacheFn1` (= the model's `readTileWork`), `Client_readTile`.
  Representation: Proofs/TieFnClientRep.lean.  The tie theorems themselves are in `Tie/FnClientTiles.lean`.
-/
import ModVerif.Proofs.TieFnClientRep
import ModVerif.Proofs.TieFnTilePath
import ModVerif.Proofs.GoRtLemmas
set_option linter.unusedSectionVars false
set_option linter.unusedVariables false
namespace ModVerif.TieFnClientTiles
open ModVerif ModVerif.GoRt ModVerif.GoRtTile ModVerif.Generated.SumdbClient ModVerif.TieFnClientRep
open ModVerif.TieFnTile (toGen ofGen GTile)

/-- the tiles the client handles: `toGen` is injective on them, `Tile.Path` is the model's `tilePath` (`1 << H` and `N`
    are int64 values), and the width fits the height (`data[:len(data)/full.W*tile.W]` is within `data`) -/
structure TRange (t : Tile.Tile) : Prop where
  ok : TOk t
  h : t.h ≤ 62
  n : t.n < 2 ^ 63
  w : t.w ≤ 2 ^ t.h

section
variable {σ H : Type} [DecidableEq H] [Inhabited H]

/-! ### paths -/

theorem tilePathX_eq (fuel : Nat) (t : Tile.Tile) (hh : t.h ≤ 62) (hn : t.n < 2 ^ 63) (hf : 8 ≤ fuel) :
    tilePathX fuel (toGen t) = .ok (Tile.tilePath t) :=
  TieFnTile.Tile_Path_eq fuel t hh hn hf

theorem tileCacheKey_eq (fuel : Nat) (t : Tile.Tile) (hh : t.h ≤ 62) (hn : t.n < 2 ^ 63) (hf : 8 ≤ fuel) (cw : GW σ H) :
    Client_tileCacheKey fuel (toGen t) cw = .ok (Client.tileCacheKey cw.name t, cw) := by
  unfold Client_tileCacheKey
  rw [tilePathX_eq fuel t hh hn hf]
  rfl

theorem tileRemotePath_eq (fuel : Nat) (t : Tile.Tile) (hh : t.h ≤ 62) (hn : t.n < 2 ^ 63) (hf : 8 ≤ fuel) (cw : GW σ H) :
    Client_tileRemotePath fuel (toGen t) cw = .ok (Client.tileRemotePath t, cw) := by
  unfold Client_tileRemotePath
  rw [tilePathX_eq fuel t hh hn hf]
  rfl

/-! ### markTileSaved -/

/-- the generated world after `markTileSaved` -/
def markG (cw : GW σ H) (g : GTile) : GW σ H := { cw with tileSaved := mapSet cw.tileSaved g true }

theorem markTileSaved_eq (g : GTile) (cw : GW σ H) : Client_markTileSaved g cw = ((), markG cw g) := rfl

theorem markG_frame (cw : GW σ H) (g : GTile) : FrameG cw (markG cw g) := ⟨rfl, rfl, rfl, rfl, rfl, rfl, rfl, rfl, rfl, rfl⟩

theorem markM_frame (w : Client.World σ H) (t : Tile.Tile) : FrameM w (Client.markTileSaved w t) :=
  ⟨rfl, rfl, rfl, rfl, rfl, rfl⟩

theorem contains_cons_tile (t u : Tile.Tile) (l : List Tile.Tile) :
    (t :: l).contains u = (decide (t = u) || l.contains u) := by
  rw [List.contains_cons]
  congr 1
  by_cases h : t = u
  · subst h; simp
  · have : ¬ u = t := fun e => h e.symm
    simp [h, this]

theorem markTileSaved_core {P : Client.Params H} {E : Client.Env σ} {w : Client.World σ H} {cw : GW σ H}
    (h : RepCore P E w cw) (t : Tile.Tile) (ht : TOk t) :
    RepCore P E (Client.markTileSaved w t) (markG cw (toGen t)) :=
  { s := h.s, name := h.name, verifiers := h.verifiers, vlen := h.vlen, nosumdb := h.nosumdb, record := h.record,
    tileCache := h.tileCache, latestN := h.latestN, latestMsg := h.latestMsg,
    tileSaved := by
      intro u hu
      show (mapGet (mapSet cw.tileSaved (toGen t) true) (toGen u) false).1 = (t :: w.c.tileSaved).contains u
      rw [TieFnNote.mapGet_mapSet_true, contains_cons_tile, h.tileSaved u hu]
      congr 1
      by_cases e : t = u
      · subst e; simp
      · have : ¬ toGen t = toGen u := fun e' => e (toGen_inj t u ht hu e')
        simp [e, this] }

/-! ### the full tile -/

/-- `full := tile; full.W = 1 << uint(tile.H)` -/
def fullOf (t : Tile.Tile) : Tile.Tile := { t with w := 2 ^ t.h }

theorem fullOf_range (t : Tile.Tile) (h : TRange t) : TRange (fullOf t) :=
  ⟨h.ok, h.h, h.n, Nat.le_refl _⟩

theorem toGen_fullOf (t : Tile.Tile) : ({ toGen t with W := ((2 ^ t.h : Nat) : Int) } : GTile) = toGen (fullOf t) := rfl

theorem ne_full_iff (t : Tile.Tile) (h : TRange t) :
    (!decide (toGen t = toGen (fullOf t))) = (t != fullOf t) := by
  by_cases e : t = fullOf t
  · have e' : toGen t = toGen (fullOf t) := congrArg toGen e
    simp [e', ← e]
  · have e' : ¬ toGen t = toGen (fullOf t) := fun e' => e (toGen_inj _ _ h.ok (fullOf_range t h).ok e')
    simp [e, e']

/-- `data[:len(data)/full.W*tile.W]` -/
theorem cut_eq (data : Bytes) (t : Tile.Tile) (h : TRange t) :
    (do let t13 ← quo (len data) (((2 ^ t.h : Nat)) : Int)
        sliceTo data (t13 * ((t.w : Nat) : Int)) : M Bytes) = .ok (Client.cutFull data (2 ^ t.h) t.w) := by
  have hp : 2 ^ t.h ≠ 0 := Nat.pos_iff_ne_zero.mp (Nat.pow_pos (by omega))
  have h1 : quo (len data) (((2 ^ t.h : Nat)) : Int) = .ok (((data.length / 2 ^ t.h : Nat)) : Int) := by
    have := quo_natCast data.length (2 ^ t.h) hp
    simpa [len] using this
  rw [h1, mbind_ok]
  have h2 : ((data.length / 2 ^ t.h : Nat) : Int) * ((t.w : Nat) : Int) = ((data.length / 2 ^ t.h * t.w : Nat) : Int) := by
    simp
  rw [h2]
  have hle : data.length / 2 ^ t.h * t.w ≤ data.length :=
    Nat.le_trans (Nat.mul_le_mul_left _ h.w) (Nat.div_mul_le_self _ _)
  rw [sliceTo_natCast hle]
  rfl

/-! ### readTileWork -/

variable {P : Client.Params H} {E : Client.Env σ}

/-- the second half of the model's `readTileWork`: the requested tile, then the full tile, from the server -/
def remoteM (E : Client.Env σ) (w2 : Client.World σ H) (t : Tile.Tile) : Except Client.Err Bytes × Client.World σ H :=
  let r3 := Client.readRemote E w2 (Client.tileRemotePath t)
  match r3.1 with
  | some data => (.ok data, r3.2)
  | none =>
    let r4 := if t != fullOf t then Client.readRemote E r3.2 (Client.tileRemotePath (fullOf t)) else (none, r3.2)
    match r4.1 with
    | some data => (.ok (Client.cutFull data (fullOf t).w t.w), r4.2)
    | none => (.error .remote, r4.2)

theorem readTileWork_unfold (w : Client.World σ H) (t : Tile.Tile) :
    Client.readTileWork E w t =
      (let r1 := Client.readCache E w (Client.tileCacheKey w.c.name t)
       match r1.1 with
       | some data => (.ok data, Client.markTileSaved r1.2 t)
       | none =>
         let r2 := if t != fullOf t then Client.readCache E r1.2 (Client.tileCacheKey w.c.name (fullOf t)) else (none, r1.2)
         match r2.1 with
         | some data => (.ok (Client.cutFull data (fullOf t).w t.w), Client.markTileSaved r2.2 t)
         | none => remoteM E r2.2 t) := rfl

/-- the continuation `k15` of the generated closure (the two remote reads), over the environment `EE` -/
def remoteG (EE : ClientEnv (GS σ) H) (fuel : Nat) (tile full : GTile) (world : GW σ H) : M (Cached × GW σ H) := do
  let t7 ← (Client_tileRemotePath fuel tile world)
  let (wr8, world) := t7
  let (wr9, world) := EE.readRemote wr8 world
  let (data, err) := wr9
  if ((err).isNone) then (pure (({ (default : Cached) with data := data, err := (none : Option String) } : Cached), world)) else (if (!decide (tile = full)) then (do
    let t10 ← (Client_tileRemotePath fuel full world)
    let (wr11, world) := t10
    let (wr12, world) := EE.readRemote wr11 world
    let (data_1, err_1) := wr12
    if ((err_1).isNone) then (do
      let t13 ← quo (len data_1) ((full).W)
      let t14 ← sliceTo data_1 (t13 * ((tile).W))
      pure (({ (default : Cached) with data := t14, err := (none : Option String) } : Cached), world)) else (pure (({ (default : Cached) with data := ([] : Bytes), err := err } : Cached), world))) else (pure (({ (default : Cached) with data := ([] : Bytes), err := err } : Cached), world)))

/-- the generated closure with its continuation named -/
theorem cacheFn1_unfold (EE : ClientEnv (GS σ) H) (fuel : Nat) (tile : GTile) (world : GW σ H) :
    Client_readTile_cacheFn1 EE fuel tile world = (do
      let t2 ← (Client_tileCacheKey fuel tile world)
      let (wr3, world) := t2
      let (wr4, world) := EE.readCache wr3 world
      let (data, err) := wr4
      if ((err).isNone) then (do
        let (wr5, world) := (Client_markTileSaved tile world)
        pure (({ (default : Cached) with data := data, err := (none : Option String) } : Cached), world)) else (do
        let full := tile
        let t6 ← shl (1 : Int) (toU64 ((tile).H))
        let full := { (full) with W := (t6) }
        if (!decide (tile = full)) then (do
          let t16 ← (Client_tileCacheKey fuel full world)
          let (wr17, world) := t16
          let (wr18, world) := EE.readCache wr17 world
          let (data_2, err_2) := wr18
          if ((err_2).isNone) then (do
            let (wr19, world) := (Client_markTileSaved tile world)
            let t20 ← quo (len data_2) ((full).W)
            let t21 ← sliceTo data_2 (t20 * ((tile).W))
            pure (({ (default : Cached) with data := t21, err := (none : Option String) } : Cached), world)) else (remoteG EE fuel tile full world)) else (remoteG EE fuel tile full world))) := rfl

theorem bind_pair {α β : Type} (x : M α) (f : α → β) (g : α → GW σ H) :
    (x >>= fun a => (pure (f a, g a) : M (β × GW σ H))) = (match x with | .ok a => .ok (f a, g a) | .error e => .error e) := by
  cases x <;> rfl

/-- `data[:len(data)/full.W*tile.W]` inside the closure -/
theorem cut_bind (data : Bytes) (t : Tile.Tile) (h : TRange t) (world : GW σ H) :
    (do let t13 ← quo (len data) ((toGen (fullOf t)).W)
        let t14 ← sliceTo data (t13 * ((toGen t).W))
        pure (({ (default : Cached) with data := t14, err := (none : Option String) } : Cached), world) : M (Cached × GW σ H)) =
      .ok ({ data := Client.cutFull data (2 ^ t.h) t.w, err := none }, world) := by
  have hcut := cut_eq data t h
  have e1 : (toGen (fullOf t)).W = (((2 ^ t.h : Nat)) : Int) := rfl
  have e2 : (toGen t).W = ((t.w : Nat) : Int) := rfl
  rw [e1, e2]
  have hp : 2 ^ t.h ≠ 0 := Nat.pos_iff_ne_zero.mp (Nat.pow_pos (by omega))
  have h1 : quo (len data) (((2 ^ t.h : Nat)) : Int) = .ok (((data.length / 2 ^ t.h : Nat)) : Int) := by
    have := quo_natCast data.length (2 ^ t.h) hp
    simpa [len] using this
  rw [h1, mbind_ok] at hcut ⊢
  rw [hcut, mbind_ok]
  rfl

/-- the remote half -/
theorem remote_eq {w w2 : Client.World σ H} {cw cw2 : GW σ H} (hc2 : RepCore P E w2 cw2) (hw2 : w2.c = w.c)
    (fg2 : FrameG cw cw2) (htc2 : cw2.tileCache = cw.tileCache) (t : Tile.Tile) (ht : TRange t) (fuel : Nat) (hf : 8 ≤ fuel) :
    ∃ c cw', remoteG (envOf P E) fuel (toGen t) (toGen (fullOf t)) cw2 = .ok (c, cw') ∧
      RepCore P E (remoteM E w2 t).2 cw' ∧ RepCached c (remoteM E w2 t).1 ∧ FrameG cw cw' ∧
      (remoteM E w2 t).2.c = w.c ∧ cw'.tileCache = cw.tileCache := by
  have hfull := fullOf_range t ht
  unfold remoteG remoteM
  generalize hRR : (envOf P E).readRemote = RR
  have hRReq : ∀ (w' : Client.World σ H) (cw' : GW σ H), cw'.s = (w'.s, w'.tr) → ∀ file,
      RR file cw' = (readOut "remote" (Client.readRemote E w' file).1, withS cw' (Client.readRemote E w' file).2) := by
    intro w' cw' hs file; rw [← hRR]; exact readRemote_eq hs file
  rw [tileRemotePath_eq fuel t ht.h ht.n hf cw2, mbind_ok]
  simp only []
  rw [hRReq w2 cw2 hc2.s]
  have hc3 : RepCore P E (Client.readRemote E w2 (Client.tileRemotePath t)).2
      (withS cw2 (Client.readRemote E w2 (Client.tileRemotePath t)).2) := hc2.withS rfl
  generalize hr3 : Client.readRemote E w2 (Client.tileRemotePath t) = r3 at hc3 ⊢
  have hr3c : r3.2.c = w.c := by rw [← hr3]; exact hw2
  obtain ⟨a3, w3⟩ := r3
  simp only at hc3 hr3c ⊢
  cases a3 with
  | some d3 =>
    simp only [readOut_some, Option.isNone_none, if_true]
    exact ⟨_, _, rfl, hc3, ⟨rfl, rfl⟩, fg2.trans (withS_frame _ _), hr3c, htc2⟩
  | none =>
    simp only [readOut_none, Option.isNone_some, Bool.false_eq_true, if_false]
    rw [ne_full_iff t ht]
    by_cases hne : (t != fullOf t) = true
    · simp only [hne, if_true]
      rw [tileRemotePath_eq fuel (fullOf t) hfull.h hfull.n hf, mbind_ok]
      simp only []
      rw [hRReq w3 (withS cw2 w3) hc3.s]
      have hc4 : RepCore P E (Client.readRemote E w3 (Client.tileRemotePath (fullOf t))).2
          (withS (withS cw2 w3) (Client.readRemote E w3 (Client.tileRemotePath (fullOf t))).2) := hc3.withS rfl
      generalize hr4 : Client.readRemote E w3 (Client.tileRemotePath (fullOf t)) = r4 at hc4 ⊢
      have hr4c : r4.2.c = w.c := by rw [← hr4]; exact hr3c
      obtain ⟨a4, w4⟩ := r4
      simp only at hc4 hr4c ⊢
      cases a4 with
      | some d4 =>
        simp only [readOut_some, Option.isNone_none, if_true]
        have := cut_bind d4 t ht (withS (withS cw2 w3) w4)
        simp only [] at this
        rw [this]
        exact ⟨_, _, rfl, hc4, ⟨rfl, rfl⟩, (fg2.trans (withS_frame _ _)).trans (withS_frame _ _), hr4c, htc2⟩
      | none =>
        simp only [readOut_none, Option.isNone_some, Bool.false_eq_true, if_false]
        exact ⟨_, _, rfl, hc4, ⟨_, rfl, errAbs_remote⟩, (fg2.trans (withS_frame _ _)).trans (withS_frame _ _), hr4c, htc2⟩
    · simp only [hne, Bool.false_eq_true, if_false]
      exact ⟨_, _, rfl, hc3, ⟨_, rfl, errAbs_remote⟩, fg2.trans (withS_frame _ _), hr3c, htc2⟩

/-- `Client_readTile_cacheFn1` = `readTileWork`: the complete result.  The generated world afterwards is the old one with
    the new state/trace, and the tile marked saved exactly when the model marks it. -/
theorem cacheFn1_eq {w : Client.World σ H} {cw : GW σ H} (hc : RepCore P E w cw) (t : Tile.Tile) (ht : TRange t)
    (fuel : Nat) (hf : 8 ≤ fuel) :
    ∃ c cw', Client_readTile_cacheFn1 (envOf P E) fuel (toGen t) cw = .ok (c, cw') ∧
      RepCore P E (Client.readTileWork E w t).2 cw' ∧ RepCached c (Client.readTileWork E w t).1 ∧
      FrameG cw cw' ∧ FrameM w (Client.readTileWork E w t).2 ∧ cw'.tileCache = cw.tileCache ∧
      (Client.readTileWork E w t).2.c.tileCache = w.c.tileCache := by
  have hfull := fullOf_range t ht
  have hH : toU64 ((toGen t).H) = ((t.h : Nat) : Int) := toU64_natCast (by have := ht.h; show t.h < 2 ^ 64; omega)
  have hname : cw.name = w.c.name := hc.name
  rw [cacheFn1_unfold, readTileWork_unfold]
  generalize hRC : (envOf P E).readCache = RC
  have hRCeq : ∀ (w' : Client.World σ H) (cw' : GW σ H), cw'.s = (w'.s, w'.tr) → ∀ file,
      RC file cw' = (readOut "cache" (Client.readCache E w' file).1, withS cw' (Client.readCache E w' file).2) := by
    intro w' cw' hs file; rw [← hRC]; exact readCache_eq hs file
  rw [tileCacheKey_eq fuel t ht.h ht.n hf cw, mbind_ok]
  simp only []
  rw [hRCeq w cw hc.s, hname]
  have hc1 : RepCore P E (Client.readCache E w (Client.tileCacheKey w.c.name t)).2
      (withS cw (Client.readCache E w (Client.tileCacheKey w.c.name t)).2) := hc.withS rfl
  generalize hr1 : Client.readCache E w (Client.tileCacheKey w.c.name t) = r1 at hc1 ⊢
  have hr1c : r1.2.c = w.c := by rw [← hr1]; rfl
  obtain ⟨a1, w1⟩ := r1
  simp only at hc1 hr1c ⊢
  cases a1 with
  | some d1 =>
    simp only [readOut_some, Option.isNone_none, if_true, markTileSaved_eq]
    refine ⟨_, _, rfl, markTileSaved_core hc1 t ht.ok, ⟨rfl, rfl⟩, (withS_frame _ _).trans (markG_frame _ _),
      (frameM_of_c hr1c).trans (markM_frame _ _), rfl, ?_⟩
    show w1.c.tileCache = _; rw [hr1c]
  | none =>
    simp only [readOut_none, Option.isNone_some, Bool.false_eq_true, if_false]
    rw [hH, shl_one_natCast, mbind_ok]
    rw [toGen_fullOf, ne_full_iff t ht]
    by_cases hne : (t != fullOf t) = true
    · simp only [hne, if_true]
      rw [tileCacheKey_eq fuel (fullOf t) hfull.h hfull.n hf, mbind_ok]
      simp only []
      rw [hRCeq w1 (withS cw w1) hc1.s, withS_name, hname]
      have hc2 : RepCore P E (Client.readCache E w1 (Client.tileCacheKey w.c.name (fullOf t))).2
          (withS (withS cw w1) (Client.readCache E w1 (Client.tileCacheKey w.c.name (fullOf t))).2) := hc1.withS rfl
      generalize hr2 : Client.readCache E w1 (Client.tileCacheKey w.c.name (fullOf t)) = r2 at hc2 ⊢
      have hr2c : r2.2.c = w.c := by rw [← hr2]; exact hr1c
      obtain ⟨a2, w2⟩ := r2
      simp only at hc2 hr2c ⊢
      cases a2 with
      | some d2 =>
        simp only [readOut_some, Option.isNone_none, if_true, markTileSaved_eq]
        have := cut_bind d2 t ht (markG (withS (withS cw w1) w2) (toGen t))
        simp only [] at this
        rw [show (toGen (fullOf t)).W = (((2 ^ t.h : Nat)) : Int) from rfl] at this
        rw [this]
        refine ⟨_, _, rfl, markTileSaved_core hc2 t ht.ok, ⟨rfl, rfl⟩,
          ((withS_frame _ _).trans (withS_frame _ _)).trans (markG_frame _ _),
          (frameM_of_c hr2c).trans (markM_frame _ _), rfl, ?_⟩
        show w2.c.tileCache = _; rw [hr2c]
      | none =>
        simp only [readOut_none, Option.isNone_some, Bool.false_eq_true, if_false]
        obtain ⟨c, cw', h1, h2, h3, h4, h5, h6⟩ := remote_eq (w := w) (cw := cw) hc2 hr2c
          ((withS_frame _ _).trans (withS_frame _ _)) rfl t ht fuel hf
        exact ⟨c, cw', h1, h2, h3, h4, frameM_of_c h5, h6, by rw [h5]⟩
    · simp only [hne, Bool.false_eq_true, if_false]
      obtain ⟨c, cw', h1, h2, h3, h4, h5, h6⟩ := remote_eq (w := w) (cw := cw) hc1 hr1c (withS_frame _ _) rfl t ht fuel hf
      exact ⟨c, cw', h1, h2, h3, h4, frameM_of_c h5, h6, by rw [h5]⟩

/-! ### readTile -/

theorem lookup_cons_tile {β : Type} (t u : Tile.Tile) (r : β) (l : List (Tile.Tile × β)) :
    List.lookup u ((t, r) :: l) = if t = u then some r else l.lookup u := by
  rw [List.lookup_cons]
  by_cases h : t = u
  · subst h; simp
  · have : (u == t) = false := by simp; exact fun e => h e.symm
    simp [h, this]

/-- a new entry in `c.tileCache` on both sides -/
theorem tileCache_set_core {w : Client.World σ H} {cw : GW σ H} (hc : RepCore P E w cw) (t : Tile.Tile) (ht : TOk t)
    (c : Cached) (r : Except Client.Err Bytes) (hr : RepCached c r) :
    RepCore P E { w with c := { w.c with tileCache := (t, r) :: w.c.tileCache } }
      { cw with tileCache := mapSet cw.tileCache (toGen t) c } :=
  { s := hc.s, name := hc.name, verifiers := hc.verifiers, vlen := hc.vlen, nosumdb := hc.nosumdb, record := hc.record,
    latestN := hc.latestN, latestMsg := hc.latestMsg, tileSaved := hc.tileSaved,
    tileCache := by
      intro u hu
      show RepOpt RepCached (mapLookup (mapSet cw.tileCache (toGen t) c) (toGen u)) (List.lookup u ((t, r) :: w.c.tileCache))
      rw [mapLookup_mapSet, lookup_cons_tile]
      by_cases e : t = u
      · subst e; rw [if_pos rfl, if_pos rfl]; exact hr
      · have : ¬ toGen t = toGen u := fun e' => e (toGen_inj t u ht hu e')
        rw [if_neg this, if_neg e]
        exact hc.tileCache u hu }

/-- `Client_readTile` = `readTile` -/
theorem readTile_eq {w : Client.World σ H} {cw : GW σ H} (hc : RepCore P E w cw) (t : Tile.Tile) (ht : TRange t)
    (fuel : Nat) (hf : 8 ≤ fuel) :
    ∃ p cw', Client_readTile (envOf P E) fuel (toGen t) cw = .ok (p, cw') ∧
      RepCore P E (Client.readTile E w t).2 cw' ∧ RepRes p (Client.readTile E w t).1 ∧
      FrameG cw cw' ∧ FrameM w (Client.readTile E w t).2 := by
  unfold Client_readTile Client.readTile
  simp only []
  rw [mapGet_eq]
  have hl := hc.tileCache t ht.ok
  cases hg : mapLookup cw.tileCache (toGen t) with
  | some c =>
    cases hm : List.lookup t w.c.tileCache with
    | none => rw [hg, hm] at hl; exact hl.elim
    | some r =>
      rw [hg, hm] at hl
      exact ⟨_, _, rfl, hc, hl, FrameG.refl _, FrameM.refl _⟩
  | none =>
    cases hm : List.lookup t w.c.tileCache with
    | some r => rw [hg, hm] at hl; exact hl.elim
    | none =>
      obtain ⟨c, cw', h1, h2, h3, h4, h5, h6, h7⟩ := cacheFn1_eq hc t ht fuel hf
      simp only [h1, mbind_ok]
      refine ⟨_, _, rfl, tileCache_set_core h2 t ht.ok c _ h3, h3, ?_, ?_⟩
      · exact ⟨h4.didLookup, h4.initDone, h4.initErr, h4.name, h4.verifiers, h4.tileHeight, h4.nosumdb, h4.record,
          h4.latest, h4.latestMsg⟩
      · exact ⟨h5.inited, h5.name, h5.verifiers, h5.latest, h5.latestMsg, h5.record⟩

end
end ModVerif.TieFnClientTiles
