/-
  ClientMore, part 2 — "the installer of a head is responsible for flushing it": the inductive invariant `FlushInv` of
  honest runs of the latest-tree-head machine, from which `latest_ends_at_max` follows in terminal states.
-/
import ModVerif.Proofs.ClientMoreHonest
namespace ModVerif.ClientLatest
variable {M T : Type}

/-- Goroutine `t` is still going to bring the stored head up to (at least) the current in-memory head of its client:
it is inside the flush loop of `mergeLatest` at a point from which it re-reads `c.latest` before it can return, or its
snapshot of `c.latest` / of `c.latestMsg` is still current. -/
def Resp (P : Params M T) (le : T → T → Prop) (cl : Nat → Nat) (s : St M T) (t : Nat) : Prop :=
  (s.th t).pc = .readConfig ∨ (s.th t).pc = .memRead .loop ∨ (s.th t).pc = .readLatestMsg ∨
  (((s.th t).pc = .memCheck .loop ∨ (s.th t).pc = .memInstall .loop) ∧ le (s.latest (cl t)) (s.th t).latest) ∨
  ((s.th t).pc = .writeConfig ∧ le (s.latest (cl t)) (cfgTree P (s.th t).lm))

/-- program counters of the first `mergeLatestMem` call (before any `ReadConfig`) -/
def FirstPhase (p : PC) : Prop :=
  p = .entry ∨ p = .start ∨ p = .memRead .first ∨ p = .memCheck .first ∨ p = .memInstall .first

structure FlushInv (P : Params M T) (le : T → T → Prop) (cl : Nat → Nat) (s : St M T) : Prop where
  cfg_first : ∀ t, FirstPhase (s.th t).pc → (s.th t).cfg = none
  cfg_le : ∀ t, le (cfgTree P (s.th t).cfg) (cfgTree P s.config)
  cfg_merged : ∀ t, ((s.th t).pc = .done .ok ∨ (s.th t).pc = .readLatestMsg ∨ (s.th t).pc = .writeConfig) →
      le (cfgTree P (s.th t).cfg) (s.latest (cl t))
  lm_below : ∀ t, (s.th t).pc = .writeConfig → le (cfgTree P (s.th t).lm) (s.latest (cl t))
  flush : ∀ c, le (s.latest c) (cfgTree P s.config) ∨ ∃ t, cl t = c ∧ Resp P le cl s t

theorem flush_init (P : Params M T) (le : T → T → Prop) (hS : Sound P le) (cl : Nat → Nat) (c0 : Option M) :
    FlushInv P le cl (init P c0) := by
  constructor
  · intro t _; rfl
  · intro t; exact hS.zero_le _
  · intro t _; exact hS.zero_le _
  · intro t h; simp [init] at h
  · intro c; left; exact hS.zero_le _

variable [DecidableEq M] [DecidableEq T]

theorem flush_step_cfg_first (P : Params M T) (le : T → T → Prop) (cl : Nat → Nat) (presented : Nat → Option M)
    (priv : Nat → Bool) (s s' : St M T) (t : Nat) (r : Res)
    (hF : FlushInv P le cl s) (h : step P cl presented priv s t r = some s') :
    ∀ t', FirstPhase (s'.th t').pc → (s'.th t').cfg = none := by
  have f1 := hF.cfg_first
  step_cases
  all_goals (simp only [FirstPhase] at *; grind [upd])

theorem flush_step_cfg_le (P : Params M T) (le : T → T → Prop) (hS : Sound P le) (cl : Nat → Nat)
    (presented : Nat → Option M) (priv : Nat → Bool) (s s' : St M T) (t : Nat) (r : Res)
    (hI : Inv P le cl presented priv s) (hF : FlushInv P le cl s) (h : step P cl presented priv s t r = some s') :
    ∀ t', le (cfgTree P (s'.th t').cfg) (cfgTree P s'.config) := by
  have f2 := hF.cfg_le
  have i1 := hI.write_up t
  obtain ⟨s1, s2, s3, s4⟩ := hS
  step_cases
  all_goals grind [upd]

theorem flush_step_cfg_merged (P : Params M T) (le : T → T → Prop) (hS : Sound P le) (cl : Nat → Nat)
    (presented : Nat → Option M) (priv : Nat → Bool) (s s' : St M T) (t : Nat) (r : Res)
    (hI : Inv P le cl presented priv s) (hF : FlushInv P le cl s) (h : step P cl presented priv s t r = some s') :
    ∀ t', ((s'.th t').pc = .done .ok ∨ (s'.th t').pc = .readLatestMsg ∨ (s'.th t').pc = .writeConfig) →
      le (cfgTree P (s'.th t').cfg) (s'.latest (cl t')) := by
  have f1 := hF.cfg_first t
  have f3 := hF.cfg_merged
  have i1 := hI.snap t
  have i2 := hI.checked t
  have i3 := hI.loop_msg t
  have i4 := hI.cfg_below t
  obtain ⟨s1, s2, s3, s4⟩ := hS
  step_cases
  all_goals (simp only [FirstPhase] at *; grind [upd, cfgTree_some, cfgTree_none])

theorem flush_step_lm_below (P : Params M T) (le : T → T → Prop) (hS : Sound P le) (cl : Nat → Nat)
    (presented : Nat → Option M) (priv : Nat → Bool) (s s' : St M T) (t : Nat) (r : Res)
    (hI : Inv P le cl presented priv s) (hF : FlushInv P le cl s) (h : step P cl presented priv s t r = some s') :
    ∀ t', (s'.th t').pc = .writeConfig → le (cfgTree P (s'.th t').lm) (s'.latest (cl t')) := by
  have f4 := hF.lm_below
  have i1 := hI.mem_msg (cl t)
  have i2 := hI.checked t
  have i5 := cfgTree_of_MsgOf P _ _ i1
  obtain ⟨s1, s2, s3, s4⟩ := hS
  step_cases
  all_goals grind [upd]

/-- frame: a step of `t` leaves the local state of every other goroutine alone -/
theorem step_th_frame (P : Params M T) (cl : Nat → Nat) (presented : Nat → Option M) (priv : Nat → Bool)
    (s s' : St M T) (t : Nat) (r : Res) (h : step P cl presented priv s t r = some s') (t' : Nat) (ht : t' ≠ t) :
    s'.th t' = s.th t' := by
  step_cases
  all_goals simp [upd, ht]

/-- frame: a step of `t` leaves the in-memory head of every other client alone -/
theorem step_latest_frame (P : Params M T) (cl : Nat → Nat) (presented : Nat → Option M) (priv : Nat → Bool)
    (s s' : St M T) (t : Nat) (r : Res) (h : step P cl presented priv s t r = some s') (c : Nat) (hc : c ≠ cl t) :
    s'.latest c = s.latest c := by
  step_cases
  all_goals simp [upd, hc]

/-- what a step of `t` does to the responsibility for its own client's head -/
theorem flush_step_own (P : Params M T) (le : T → T → Prop) (Ch : T → Prop) (cl : Nat → Nat)
    (presented : Nat → Option M) (priv : Nat → Bool) (c0 : Option M) (hH : Honest P le Ch presented c0)
    (s s' : St M T) (t : Nat) (r : Res)
    (hI : Inv P le cl presented priv s) (hC : ChainInv P Ch s) (hF : FlushInv P le cl s) (hok : CfgOk s t r)
    (h : step P cl presented priv s t r = some s')
    (hpre : Resp P le cl s t ∨ le (s.latest (cl t)) (cfgTree P s.config) ∨ s'.latest (cl t) ≠ s.latest (cl t)) :
    Resp P le cl s' t ∨ le (s'.latest (cl t)) (cfgTree P s'.config) := by
  have f2 := hF.cfg_le t
  have i1 := hI.snap t
  have i2 := hI.checked t
  have i3 := hI.loop_msg t
  have i6 := hI.write_up t
  have i4 := hI.mem_msg (cl t)
  have i5 := cfgTree_of_MsgOf P _ _ i4
  have c1 := hC.th_msg t; have c2 := hC.th_tree t; have c3 := hC.th_latest t
  have c4 := hC.latest_ch (cl t)
  have c5 := goodMsg_cfgTree P Ch hH.zero_ch _ hC.config_good
  have gp := goodMsg_parse_ne P Ch
  have hc := hH.chk_honest
  have hsz := hH.size_le
  obtain ⟨s1, s2, s3, s4⟩ := hH.sound
  unfold CfgOk at hok
  step_cases
  all_goals (simp only [Resp] at *; grind [upd, cfgTree_some, cfgTree_none])

omit [DecidableEq M] [DecidableEq T] in
theorem resp_frame (P : Params M T) (le : T → T → Prop) (cl : Nat → Nat) (s s' : St M T) (t0 : Nat)
    (h1 : s'.th t0 = s.th t0) (h2 : s'.latest (cl t0) = s.latest (cl t0)) (h : Resp P le cl s t0) :
    Resp P le cl s' t0 := by
  simpa only [Resp, h1, h2] using h

/-- the flush clause is preserved by a step, given what the step does to the responsibility for its own client -/
theorem flush_step_flush_of_own (P : Params M T) (le : T → T → Prop) (hS : Sound P le) (cl : Nat → Nat)
    (presented : Nat → Option M) (priv : Nat → Bool) (s s' : St M T) (t : Nat) (r : Res)
    (hI : Inv P le cl presented priv s) (hF : FlushInv P le cl s)
    (h : step P cl presented priv s t r = some s')
    (hown : (Resp P le cl s t ∨ le (s.latest (cl t)) (cfgTree P s.config) ∨ s'.latest (cl t) ≠ s.latest (cl t)) →
      (Resp P le cl s' t ∨ le (s'.latest (cl t)) (cfgTree P s'.config))) :
    ∀ c, le (s'.latest c) (cfgTree P s'.config) ∨ ∃ t', cl t' = c ∧ Resp P le cl s' t' := by
  intro c
  have hcfg : le (cfgTree P s.config) (cfgTree P s'.config) := by
    rcases step_config P le hS cl presented priv s s' t r hI h with ⟨e, _⟩ | ⟨_, _, _, hle⟩
    · rw [e]; exact hS.refl _
    · exact hle
  have own_c : c = cl t →
      (Resp P le cl s t ∨ le (s.latest (cl t)) (cfgTree P s.config) ∨ s'.latest (cl t) ≠ s.latest (cl t)) →
      le (s'.latest c) (cfgTree P s'.config) ∨ ∃ t', cl t' = c ∧ Resp P le cl s' t' := by
    intro hc hpre
    subst hc
    rcases hown hpre with h1 | h1
    · exact Or.inr ⟨t, rfl, h1⟩
    · exact Or.inl h1
  rcases hF.flush c with hle | ⟨t0, ht0, hr0⟩
  · by_cases hc : c = cl t
    · exact own_c hc (Or.inr (Or.inl (hc ▸ hle)))
    · left
      rw [step_latest_frame P cl presented priv s s' t r h c hc]
      exact hS.trans _ _ _ hle hcfg
  · by_cases ht : t0 = t
    · subst ht
      exact own_c ht0.symm (Or.inl hr0)
    · by_cases hl : s'.latest c = s.latest c
      · right
        refine ⟨t0, ht0, resp_frame P le cl s s' t0 (step_th_frame P cl presented priv s s' t r h t0 ht) ?_ hr0⟩
        rw [ht0]; exact hl
      · have hc : c = cl t := by
          by_cases hne : c = cl t
          · exact hne
          · exact absurd (step_latest_frame P cl presented priv s s' t r h c hne) hl
        exact own_c hc (Or.inr (Or.inr (hc ▸ hl)))

theorem flush_step_flush (P : Params M T) (le : T → T → Prop) (Ch : T → Prop) (cl : Nat → Nat)
    (presented : Nat → Option M) (priv : Nat → Bool) (c0 : Option M) (hH : Honest P le Ch presented c0)
    (s s' : St M T) (t : Nat) (r : Res)
    (hI : Inv P le cl presented priv s) (hC : ChainInv P Ch s) (hF : FlushInv P le cl s) (hok : CfgOk s t r)
    (h : step P cl presented priv s t r = some s') :
    ∀ c, le (s'.latest c) (cfgTree P s'.config) ∨ ∃ t', cl t' = c ∧ Resp P le cl s' t' :=
  flush_step_flush_of_own P le hH.sound cl presented priv s s' t r hI hF h
    (flush_step_own P le Ch cl presented priv c0 hH s s' t r hI hC hF hok h)

theorem flush_step (P : Params M T) (le : T → T → Prop) (Ch : T → Prop) (cl : Nat → Nat)
    (presented : Nat → Option M) (priv : Nat → Bool) (c0 : Option M) (hH : Honest P le Ch presented c0)
    (s s' : St M T) (t : Nat) (r : Res)
    (hI : Inv P le cl presented priv s) (hC : ChainInv P Ch s) (hF : FlushInv P le cl s) (hok : CfgOk s t r)
    (h : step P cl presented priv s t r = some s') : FlushInv P le cl s' :=
  ⟨flush_step_cfg_first P le cl presented priv s s' t r hF h,
   flush_step_cfg_le P le hH.sound cl presented priv s s' t r hI hF h,
   flush_step_cfg_merged P le hH.sound cl presented priv s s' t r hI hF h,
   flush_step_lm_below P le hH.sound cl presented priv s s' t r hI hF h,
   flush_step_flush P le Ch cl presented priv c0 hH s s' t r hI hC hF hok h⟩

theorem flush_reachable (P : Params M T) (le : T → T → Prop) (Ch : T → Prop) (cl : Nat → Nat)
    (presented : Nat → Option M) (priv : Nat → Bool) (c0 : Option M) (hH : Honest P le Ch presented c0)
    (s : St M T) (h : HReachable P cl presented priv c0 s) : FlushInv P le cl s := by
  induction h with
  | init => exact flush_init P le hH.sound cl c0
  | step t r hr hok hs ih =>
    exact flush_step P le Ch cl presented priv c0 hH _ _ t r
      (inv_reachable P le hH.sound cl presented priv c0 _ hr.reachable)
      (honest_invs P le Ch cl presented priv c0 hH _ hr).1 ih hok hs

end ModVerif.ClientLatest
