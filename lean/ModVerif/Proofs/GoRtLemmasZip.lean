/-
  General lemmas about the GoRt run-time vocabulary (Basic/GoRt.lean, Basic/GoRtUtf8.lean) used by the tie proofs of
  zip/zip.go (Tie/FnZip.lean):

  * `strings.Index` with an arbitrary needle as an `Option Nat` (`indexOpt`), its range, and `strings.Contains` with a
    one-byte needle as `List.any`;
  * `toI32` on small values; `encodeRune` of a natural number;
  * `mapGet` / `mapSet` on association lists seen through a map of the entries (`find?_map_key`).

  Core Lean only.  Namespace `ModVerif.GoRtZip` (own namespace: importable together with the other `GoRtLemmas*.lean`).
-/
import ModVerif.Basic.GoRt
import ModVerif.Basic.GoRtUtf8
import ModVerif.Proofs.GoRtLemmas
import ModVerif.Proofs.GoRtLemmasStr
namespace ModVerif.GoRtZip
open ModVerif ModVerif.GoRt

/-- decidable equality on results, so that the non-vacuity examples of the tie theorems close by kernel `decide` -/
instance exceptDecEq {ε α : Type} [DecidableEq ε] [DecidableEq α] : DecidableEq (Except ε α)
  | .ok a, .ok b => if h : a = b then isTrue (by rw [h]) else isFalse (fun e => h (Except.ok.inj e))
  | .error a, .error b => if h : a = b then isTrue (by rw [h]) else isFalse (fun e => h (Except.error.inj e))
  | .ok _, .error _ => isFalse (fun e => by cases e)
  | .error _, .ok _ => isFalse (fun e => by cases e)

/-! ### strings.Index as an option -/

/-- offset of the first occurrence of `pat` -/
def indexOpt (pat : Bytes) : Bytes → Option Nat
  | [] => if pat.isEmpty then some 0 else none
  | c :: rest => if isPrefixOfB pat (c :: rest) then some 0 else (indexOpt pat rest).map (· + 1)

theorem indexAux_eq (pat : Bytes) : ∀ (s : Bytes) (k : Nat),
    indexAux pat s k = match indexOpt pat s with | some j => ((k + j : Nat) : Int) | none => -1
  | [], k => by
    unfold indexAux indexOpt
    cases pat.isEmpty <;> simp
  | c :: rest, k => by
    unfold indexAux indexOpt
    by_cases h : isPrefixOfB pat (c :: rest) = true
    · simp [h]
    · simp only [h, Bool.false_eq_true, if_false]
      rw [indexAux_eq pat rest (k + 1)]
      cases indexOpt pat rest with
      | none => rfl
      | some j => simp only [Option.map_some]; congr 1; omega

theorem index_eq (s pat : Bytes) :
    index s pat = match indexOpt pat s with | some j => (j : Int) | none => -1 := by
  unfold index
  rw [indexAux_eq]
  cases indexOpt pat s <;> simp

theorem isPrefixOfB_length : ∀ (p s : Bytes), isPrefixOfB p s = true → p.length ≤ s.length
  | [], _, _ => by simp
  | _ :: _, [], h => by simp [isPrefixOfB] at h
  | a :: as, b :: bs, h => by
    simp only [isPrefixOfB, Bool.and_eq_true] at h
    have := isPrefixOfB_length as bs h.2
    simp; omega

/-- an occurrence found at `j` lies inside the string -/
theorem indexOpt_range (pat : Bytes) : ∀ (s : Bytes) (j : Nat), indexOpt pat s = some j → j + pat.length ≤ s.length
  | [], j, h => by
    unfold indexOpt at h
    by_cases hp : pat.isEmpty = true
    · simp only [hp, if_true, Option.some.injEq] at h
      have : pat = [] := by simpa using hp
      subst this; subst h; simp
    · simp [hp] at h
  | c :: rest, j, h => by
    unfold indexOpt at h
    by_cases hp : isPrefixOfB pat (c :: rest) = true
    · simp only [hp, if_true, Option.some.injEq] at h
      subst h
      have := isPrefixOfB_length _ _ hp
      omega
    · simp only [hp, Bool.false_eq_true, if_false] at h
      cases hi : indexOpt pat rest with
      | none => rw [hi] at h; cases h
      | some i =>
        rw [hi] at h
        simp only [Option.map_some, Option.some.injEq] at h
        have := indexOpt_range pat rest i hi
        subst h
        simp only [List.length_cons]; omega

/-- `strings.Contains(s, "c")` for a one-byte needle -/
theorem contains_single_any (s : Bytes) (c : UInt8) : contains s [c] = s.any (· == c) := by
  rw [GoRtStr.contains_single]
  induction s with
  | nil => rfl
  | cons x t ih =>
    simp only [List.contains_cons, List.any_cons, ih]
    congr 1
    by_cases h : x = c
    · subst h; rfl
    · have h' : ¬ c = x := fun e => h e.symm
      rw [beq_eq_false_iff_ne.mpr h, beq_eq_false_iff_ne.mpr h']

/-! ### runes -/

theorem toI32_small (x : Int) (h0 : 0 ≤ x) (h1 : x < 2147483648) : toI32 x = x := by
  unfold toI32
  have : x % 4294967296 = x := Int.emod_eq_of_lt h0 (by omega)
  simp only [this]
  rw [if_pos h1]

theorem encodeRune_natCast (n : Nat) : encodeRune (n : Int) = Utf8.encode n := by
  simp [encodeRune]

/-! ### maps as association lists, seen through a map of the entries -/

section maps
variable {κ ν β : Type} [DecidableEq κ]

/-- looking a key up commutes with a re-packing `f` of the entries that keeps the key (`key (f p) = p.1`) -/
theorem find?_map_key [BEq κ] [LawfulBEq κ] (f : κ × ν → β) (key : β → κ) (hk : ∀ p, key (f p) = p.1) (k : κ) :
    ∀ m : List (κ × ν), (m.map f).find? (fun e => key e == k) = (m.find? (fun p => decide (p.1 = k))).map f
  | [] => rfl
  | p :: m => by
    simp only [List.map_cons, List.find?_cons, hk]
    by_cases h : p.1 = k
    · simp [h]
    · have h' : (p.1 == k) = false := by simpa using h
      simp only [h, h', decide_false]
      exact find?_map_key f key hk k m

theorem mapGet_found (m : List (κ × ν)) (k : κ) (z : ν) (p : κ × ν)
    (h : m.find? (fun p => decide (p.1 = k)) = some p) : mapGet m k z = (p.2, true) := by
  simp [mapGet, h]

theorem mapGet_none (m : List (κ × ν)) (k : κ) (z : ν)
    (h : m.find? (fun p => decide (p.1 = k)) = none) : mapGet m k z = (z, false) := by
  simp [mapGet, h]

theorem mapSet_none (m : List (κ × ν)) (k : κ) (v : ν)
    (h : m.find? (fun p => decide (p.1 = k)) = none) : mapSet m k v = m ++ [(k, v)] := by
  simp [mapSet, h]

end maps

end ModVerif.GoRtZip
