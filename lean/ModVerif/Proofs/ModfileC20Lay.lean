/-
  C20 `modulePath_agrees`, lexer level: the layout of the input around a token — only blanks (space,
  tab, CR) between the end of one token and the start of the next, what the raw bytes of each kind of
  token look like, and what follows an identifier.
-/
import ModVerif.Proofs.ModfileC20Lex
namespace ModVerif.Proofs.ModfileC20
open ModVerif ModVerif.Modfile ModVerif.Proofs.ModfileLex ModVerif.Proofs.ModfilePos ModVerif.Proofs.ModfileC20Utf8

/-- only the blanks `skipSpaces` skips -/
def WS (g : Bytes) : Prop := ∀ b ∈ g, b = 32 ∨ b = 9 ∨ b = 13

theorem WS.nil : WS [] := by intro b h; cases h

theorem WS.append {a b : Bytes} (ha : WS a) (hb : WS b) : WS (a ++ b) := by
  intro x hx
  rcases List.mem_append.mp hx with h | h
  · exact ha x h
  · exact hb x h

/-- reading an ASCII rune moves exactly its byte from `remaining` to `consumedRev` and `tokRev` -/
theorem readRune_ascii {i i' : Input} {r : Nat} (h : readRune i = .ok (r, i')) (hr : i.peekRune < 128) :
    i'.consumedRev = UInt8.ofNat i.peekRune :: i.consumedRev ∧ i'.tokRev = UInt8.ofNat i.peekRune :: i.tokRev ∧
    i.remaining = UInt8.ofNat i.peekRune :: i'.remaining ∧ r = i.peekRune := by
  unfold readRune at h
  unfold Input.peekRune at hr ⊢
  split at h
  · cases h
  · rename_i a t hrem
    simp only [Except.ok.injEq, Prod.mk.injEq] at h
    obtain ⟨hr', rfl⟩ := h
    rw [hrem] at hr hr' ⊢
    simp only at hr ⊢
    rcases decodeRune_cases a t with ⟨hlt, heq⟩ | ⟨hge, hr2, _⟩
    · rw [heq] at hr' ⊢
      simp [← hr']
    · omega

theorem skipSpaces_gap : ∀ (fuel : Nat) (i i' : Input), skipSpaces fuel i = .ok i' →
    ∃ gap, WS gap ∧ i'.consumedRev = gap.reverse ++ i.consumedRev ∧ i.remaining = gap ++ i'.remaining ∧
      i'.token = i.token ∧ i'.commentsRev = i.commentsRev := by
  intro fuel
  induction fuel with
  | zero => intro i i' h; simp [skipSpaces] at h
  | succ n ih =>
    intro i i' h
    unfold skipSpaces at h
    split at h
    · cases h; exact ⟨[], WS.nil, rfl, rfl, rfl, rfl⟩
    · simp only at h
      split at h
      · rename_i hc
        cases h1 : readRune i with
        | error e => simp [h1, bind, Except.bind] at h
        | ok v =>
          simp only [h1, bind, Except.bind] at h
          have hlt : i.peekRune < 128 := by
            simp only [Bool.or_eq_true, beq_iff_eq] at hc
            omega
          obtain ⟨hcons, _, hrem, _⟩ := readRune_ascii (show readRune i = .ok (v.1, v.2) by rw [h1]) hlt
          obtain ⟨htok, hcom, _⟩ := readRune_token (show readRune i = .ok (v.1, v.2) by rw [h1])
          obtain ⟨gap, hws, hc2, hr2, ht2, hcm2⟩ := ih v.2 i' h
          refine ⟨UInt8.ofNat i.peekRune :: gap, ?_, ?_, ?_, by rw [ht2, htok], by rw [hcm2, hcom]⟩
          · intro b hb
            simp only [List.mem_cons] at hb
            rcases hb with rfl | hb
            · simp only [Bool.or_eq_true, beq_iff_eq] at hc
              rcases hc with (hc | hc) | hc <;> rw [hc] <;> decide
            · exact hws b hb
          · rw [hc2, hcons]; simp
          · rw [hrem, hr2]; simp
      · cases h; exact ⟨[], WS.nil, rfl, rfl, rfl, rfl⟩


theorem readRune_r {i i' : Input} {r : Nat} (h : readRune i = .ok (r, i')) : r = i.peekRune := by
  unfold readRune at h
  unfold Input.peekRune
  split at h
  · cases h
  · rename_i a t hrem
    simp only [Except.ok.injEq, Prod.mk.injEq] at h
    rw [hrem]
    show r = (Utf8.decodeRune (a :: t)).1
    rw [← hrem]; exact h.1.symm

/-- the bytes of the token being scanned are the last consumed bytes after `base` -/
def OnBase (base : Bytes) (j : Input) : Prop := j.consumedRev = j.tokRev ++ base

theorem onBase_readRune {base : Bytes} (i : Input) (r : Nat) (i' : Input) (hp : OnBase base i)
    (h : readRune i = .ok (r, i')) : OnBase base i' := by
  unfold readRune at h
  split at h
  · cases h
  · simp only [Except.ok.injEq, Prod.mk.injEq] at h
    obtain ⟨_, rfl⟩ := h
    unfold OnBase at hp ⊢
    simp only [hp, List.append_assoc]

theorem consumeLine_end : ∀ (fuel : Nat) (i i' : Input), consumeLine fuel i = .ok i' →
    i'.consumedRev.head? = some 10 ∨ i'.remaining = [] := by
  intro fuel
  induction fuel with
  | zero => intro i i' h; simp [consumeLine] at h
  | succ n ih =>
    intro i i' h
    unfold consumeLine at h
    split at h
    · rename_i he
      cases h
      right
      unfold Input.eof at he
      simpa using he
    · cases h1 : readRune i with
      | error e => simp [h1, bind, Except.bind] at h
      | ok v =>
        simp only [h1, bind, Except.bind] at h
        split at h
        · rename_i h10
          cases h
          left
          have hr := readRune_r (show readRune i = .ok (v.1, v.2) by rw [h1])
          have h10' : v.1 = 10 := by simpa using h10
          obtain ⟨hc, _⟩ := readRune_ascii (show readRune i = .ok (v.1, v.2) by rw [h1]) (by rw [← hr, h10']; decide)
          rw [hc, ← hr, h10']; rfl
        · exact ih _ _ h

theorem readIdent_exit : ∀ (fuel : Nat) (i i' : Input), readIdent fuel i = .ok i' →
    isIdent i'.peekRune = false ∨ i'.peekPrefix [47, 47] = true := by
  intro fuel
  induction fuel with
  | zero => intro i i' h; simp [readIdent] at h
  | succ n ih =>
    intro i i' h
    unfold readIdent at h
    split at h
    · split at h
      · rename_i hp; cases h; exact Or.inr hp
      · split at h
        · cases h
        · cases h1 : readRune i with
          | error e => simp [h1, bind, Except.bind] at h
          | ok v =>
            simp only [h1, bind, Except.bind] at h
            exact ih _ _ h
    · rename_i hid
      cases h
      left
      simpa using hid

/-- layout facts of one `readToken` step -/
structure Lay (i i' : Input) : Prop where
  gap : ∃ gap, WS gap ∧ i'.consumedRev = i'.tokRev ++ (gap.reverse ++ i.consumedRev)
  eof : i'.token.kind = .eof → i'.remaining = [] ∧ i'.tokRev = []
  comment : i'.token.kind.isComment = true →
    (∃ more, i'.tokRev = more ++ [47, 47]) ∧ (i'.consumedRev.head? = some 10 ∨ i'.remaining = [])
  string : i'.token.kind = .string → ∃ q rest, i'.tokRev.reverse = q :: rest ∧ (q = 34 ∨ q = 96)
  ident : i'.token.kind = .ident → isIdent i'.peekRune = false ∨ i'.peekPrefix [47, 47] = true

end ModVerif.Proofs.ModfileC20
