/-
  C20 `modulePath_agrees`, lexer level: the layout of the input around a token — only blanks (space,
  tab, CR) between the end of one token and the start of the next, what the raw bytes of each kind of
  token look like, and what follows an identifier.
-/
import ModVerif.Proofs.ModfileC20Lex
namespace ModVerif.Proofs.ModfileC20
open ModVerif ModVerif.Modfile ModVerif.Proofs.ModfileLex ModVerif.Proofs.ModfilePos ModVerif.Proofs.ModfileC20Utf8

/-- only the blanks `skipSpaces` skips -/
def WS (g : Bytes) : Prop := ∀ b ∈ g, b = 32 ∨ b = 9 ∨ b = 13

theorem WS.nil : WS [] := by intro b h; cases h

theorem WS.append {a b : Bytes} (ha : WS a) (hb : WS b) : WS (a ++ b) := by
  intro x hx
  rcases List.mem_append.mp hx with h | h
  · exact ha x h
  · exact hb x h

/-- reading an ASCII rune moves exactly its byte from `remaining` to `consumedRev` and `tokRev` -/
theorem readRune_ascii {i i' : Input} {r : Nat} (h : readRune i = .ok (r, i')) (hr : i.peekRune < 128) :
    i'.consumedRev = UInt8.ofNat i.peekRune :: i.consumedRev ∧ i'.tokRev = UInt8.ofNat i.peekRune :: i.tokRev ∧
    i.remaining = UInt8.ofNat i.peekRune :: i'.remaining ∧ r = i.peekRune := by
  unfold readRune at h
  unfold Input.peekRune at hr ⊢
  split at h
  · cases h
  · rename_i a t hrem
    simp only [Except.ok.injEq, Prod.mk.injEq] at h
    obtain ⟨hr', rfl⟩ := h
    rw [hrem] at hr hr' ⊢
    simp only at hr ⊢
    rcases decodeRune_cases a t with ⟨hlt, heq⟩ | ⟨hge, hr2, _⟩
    · rw [heq] at hr' ⊢
      simp [← hr']
    · omega

theorem skipSpaces_gap : ∀ (fuel : Nat) (i i' : Input), skipSpaces fuel i = .ok i' →
    ∃ gap, WS gap ∧ i'.consumedRev = gap.reverse ++ i.consumedRev ∧ i.remaining = gap ++ i'.remaining ∧
      i'.token = i.token ∧ i'.commentsRev = i.commentsRev := by
  intro fuel
  induction fuel with
  | zero => intro i i' h; simp [skipSpaces] at h
  | succ n ih =>
    intro i i' h
    unfold skipSpaces at h
    split at h
    · cases h; exact ⟨[], WS.nil, rfl, rfl, rfl, rfl⟩
    · simp only at h
      split at h
      · rename_i hc
        cases h1 : readRune i with
        | error e => simp [h1, bind, Except.bind] at h
        | ok v =>
          simp only [h1, bind, Except.bind] at h
          have hlt : i.peekRune < 128 := by
            simp only [Bool.or_eq_true, beq_iff_eq] at hc
            omega
          obtain ⟨hcons, _, hrem, _⟩ := readRune_ascii (show readRune i = .ok (v.1, v.2) by rw [h1]) hlt
          obtain ⟨htok, hcom, _⟩ := readRune_token (show readRune i = .ok (v.1, v.2) by rw [h1])
          obtain ⟨gap, hws, hc2, hr2, ht2, hcm2⟩ := ih v.2 i' h
          refine ⟨UInt8.ofNat i.peekRune :: gap, ?_, ?_, ?_, by rw [ht2, htok], by rw [hcm2, hcom]⟩
          · intro b hb
            simp only [List.mem_cons] at hb
            rcases hb with rfl | hb
            · simp only [Bool.or_eq_true, beq_iff_eq] at hc
              rcases hc with (hc | hc) | hc <;> rw [hc] <;> decide
            · exact hws b hb
          · rw [hc2, hcons]; simp
          · rw [hrem, hr2]; simp
      · cases h; exact ⟨[], WS.nil, rfl, rfl, rfl, rfl⟩


theorem readRune_r {i i' : Input} {r : Nat} (h : readRune i = .ok (r, i')) : r = i.peekRune := by
  unfold readRune at h
  unfold Input.peekRune
  split at h
  · cases h
  · rename_i a t hrem
    simp only [Except.ok.injEq, Prod.mk.injEq] at h
    rw [hrem]
    show r = (Utf8.decodeRune (a :: t)).1
    rw [← hrem]; exact h.1.symm

/-- the bytes of the token being scanned are the last consumed bytes after `base` -/
def OnBase (base : Bytes) (j : Input) : Prop := j.consumedRev = j.tokRev ++ base

theorem onBase_readRune {base : Bytes} (i : Input) (r : Nat) (i' : Input) (hp : OnBase base i)
    (h : readRune i = .ok (r, i')) : OnBase base i' := by
  unfold readRune at h
  split at h
  · cases h
  · simp only [Except.ok.injEq, Prod.mk.injEq] at h
    obtain ⟨_, rfl⟩ := h
    unfold OnBase at hp ⊢
    simp only [hp, List.append_assoc]

theorem consumeLine_end : ∀ (fuel : Nat) (i i' : Input), consumeLine fuel i = .ok i' →
    i'.consumedRev.head? = some 10 ∨ i'.remaining = [] := by
  intro fuel
  induction fuel with
  | zero => intro i i' h; simp [consumeLine] at h
  | succ n ih =>
    intro i i' h
    unfold consumeLine at h
    split at h
    · rename_i he
      cases h
      right
      unfold Input.eof at he
      simpa using he
    · cases h1 : readRune i with
      | error e => simp [h1, bind, Except.bind] at h
      | ok v =>
        simp only [h1, bind, Except.bind] at h
        split at h
        · rename_i h10
          cases h
          left
          have hr := readRune_r (show readRune i = .ok (v.1, v.2) by rw [h1])
          have h10' : v.1 = 10 := by simpa using h10
          obtain ⟨hc, _⟩ := readRune_ascii (show readRune i = .ok (v.1, v.2) by rw [h1]) (by rw [← hr, h10']; decide)
          rw [hc, ← hr, h10']; rfl
        · exact ih _ _ h

theorem readIdent_exit : ∀ (fuel : Nat) (i i' : Input), readIdent fuel i = .ok i' →
    isIdent i'.peekRune = false ∨ i'.peekPrefix [47, 47] = true := by
  intro fuel
  induction fuel with
  | zero => intro i i' h; simp [readIdent] at h
  | succ n ih =>
    intro i i' h
    unfold readIdent at h
    split at h
    · split at h
      · rename_i hp; cases h; exact Or.inr hp
      · split at h
        · cases h
        · cases h1 : readRune i with
          | error e => simp [h1, bind, Except.bind] at h
          | ok v =>
            simp only [h1, bind, Except.bind] at h
            exact ih _ _ h
    · rename_i hid
      cases h
      left
      simpa using hid

/-- layout facts of one `readToken` step -/
structure Lay (i i' : Input) : Prop where
  gap : ∃ gap, WS gap ∧ i'.consumedRev = i'.tokRev ++ (gap.reverse ++ i.consumedRev)
  eof : i'.token.kind = .eof → i'.remaining = [] ∧ i'.tokRev = []
  comment : i'.token.kind.isComment = true →
    (∃ more, i'.tokRev = more ++ [47, 47]) ∧ (i'.consumedRev.head? = some 10 ∨ i'.remaining = [])
  string : i'.token.kind = .string → ∃ q rest, i'.tokRev.reverse = q :: rest ∧ (q = 34 ∨ q = 96)
  ident : i'.token.kind = .ident → isIdent i'.peekRune = false ∨ i'.peekPrefix [47, 47] = true


theorem onBase_start (i : Input) : OnBase i.consumedRev (startToken i) := rfl

theorem lay_of_endToken {i j : Input} {k : TokKind} {gap : Bytes} (hws : WS gap)
    (hb : OnBase (gap.reverse ++ i.consumedRev) j)
    (heof : k = .eof → j.remaining = [] ∧ j.tokRev = [])
    (hcom : k.isComment = true →
      (∃ more, j.tokRev = more ++ [47, 47]) ∧ (j.consumedRev.head? = some 10 ∨ j.remaining = []))
    (hstr : k = .string → ∃ q rest, j.tokRev.reverse = q :: rest ∧ (q = 34 ∨ q = 96))
    (hid : k = .ident → isIdent j.peekRune = false ∨ j.peekPrefix [47, 47] = true) :
    Lay i (endToken k j) :=
  ⟨⟨gap, hws, hb⟩, heof, hcom, hstr, hid⟩

theorem lay_comments {i i' : Input} (c : List Comment) (h : Lay i i') : Lay i { i' with commentsRev := c } :=
  ⟨h.gap, h.eof, h.comment, h.string, h.ident⟩

theorem peekPrefix_slashes {i : Input} (h : i.peekPrefix [47, 47] = true) : ∃ t, i.remaining = 47 :: 47 :: t := by
  unfold Input.peekPrefix at h
  cases hr : i.remaining with
  | nil => rw [hr] at h; simp [isPrefixOfB] at h
  | cons a r1 =>
    rw [hr] at h
    cases r1 with
    | nil => simp [isPrefixOfB] at h
    | cons b r2 =>
      simp [isPrefixOfB] at h
      exact ⟨r2, by rw [← h.1, ← h.2]⟩

theorem readComment_lay {i i0 i' : Input} {gap : Bytes} (hws : WS gap)
    (h0 : i0.consumedRev = gap.reverse ++ i.consumedRev) (hp : i0.peekPrefix [47, 47] = true)
    (h : readComment i0 = .ok i') : Lay i i' := by
  obtain ⟨t, ht⟩ := peekPrefix_slashes hp
  unfold readComment at h
  simp only [bind, Except.bind] at h
  cases h1 : readRune (startToken i0) with
  | error e => simp [h1] at h
  | ok v1 =>
    have hv1 : readRune (startToken i0) = .ok (v1.1, v1.2) := by rw [h1]
    have hpk1 : (startToken i0).peekRune = 47 := by
      unfold Input.peekRune
      rw [startToken_remaining, ht]
      exact congrArg Prod.fst (decodeRune_ascii 47 _ (by decide))
    obtain ⟨_, htk1, hrem1, _⟩ := readRune_ascii hv1 (by rw [hpk1]; decide)
    rw [hpk1, startToken_remaining, ht] at hrem1
    simp only [h1] at h
    cases h2 : readRune v1.2 with
    | error e => simp [h2] at h
    | ok v2 =>
      have hv2 : readRune v1.2 = .ok (v2.1, v2.2) := by rw [h2]
      have hrem1' : v1.2.remaining = 47 :: t := by
        have : (UInt8.ofNat 47 : UInt8) = 47 := rfl
        rw [this] at hrem1
        exact (List.cons.inj hrem1).2.symm
      have hpk2 : v1.2.peekRune = 47 := by
        unfold Input.peekRune
        rw [hrem1']
        exact congrArg Prod.fst (decodeRune_ascii 47 _ (by decide))
      obtain ⟨_, htk2, _, _⟩ := readRune_ascii hv2 (by rw [hpk2]; decide)
      simp only [h2] at h
      cases h3 : consumeLine (v2.2.remaining.length + 1) v2.2 with
      | error e => simp [h3] at h
      | ok v3 =>
        simp only [h3] at h
        have hb1 := onBase_readRune _ _ _ (onBase_start i0) hv1
        have hb2 := onBase_readRune _ _ _ hb1 hv2
        have hb3 : OnBase i0.consumedRev v3 :=
          consumeLine_pres (P := OnBase i0.consumedRev) onBase_readRune _ _ _ hb2 h3
        have hmore : ∃ more, v3.tokRev = more ++ [47, 47] := by
          have : ∃ more, v2.2.tokRev = more ++ [47, 47] := by
            refine ⟨[], ?_⟩
            rw [htk2, htk1, hpk1, hpk2]; rfl
          exact consumeLine_pres (P := fun j => ∃ more, j.tokRev = more ++ [47, 47])
            (by
              intro j r j' ⟨more, hm⟩ hr
              unfold readRune at hr
              split at hr
              · cases hr
              · simp only [Except.ok.injEq, Prod.mk.injEq] at hr
                obtain ⟨_, rfl⟩ := hr
                exact ⟨(List.take (Utf8.decodeRune j.remaining).2 j.remaining).reverse ++ more, by simp [hm]⟩) _ _ _ this h3
        have hend := consumeLine_end _ _ _ h3
        rw [h0] at hb3
        have hlay : ∀ k : TokKind, k.isComment = true → Lay i (endToken k v3) := by
          intro k hk
          refine lay_of_endToken hws hb3 ?_ (fun _ => ⟨hmore, hend⟩) ?_ ?_ <;>
            (intro hkk; rw [hkk] at hk; cases hk)
        split at h
        · cases h; exact hlay _ rfl
        · cases h; exact lay_comments _ (hlay _ rfl)


theorem tokRev_suffix_readRune (q : UInt8) (j : Input) (r : Nat) (j' : Input)
    (hp : ∃ more, j.tokRev = more ++ [q]) (hr : readRune j = .ok (r, j')) : ∃ more, j'.tokRev = more ++ [q] := by
  obtain ⟨more, hm⟩ := hp
  unfold readRune at hr
  split at hr
  · cases hr
  · simp only [Except.ok.injEq, Prod.mk.injEq] at hr
    obtain ⟨_, rfl⟩ := hr
    exact ⟨(List.take (Utf8.decodeRune j.remaining).2 j.remaining).reverse ++ more, by simp [hm]⟩

theorem readToken_lay {i i' : Input} (h : readToken i = .ok i') : Lay i i' := by
  unfold readToken at h
  simp only [bind, Except.bind] at h
  cases h0 : skipSpaces (i.remaining.length + 1) i with
  | error e => simp [h0] at h
  | ok i0 =>
    obtain ⟨gap, hws, hc0, _, _, _⟩ := skipSpaces_gap _ _ _ h0
    simp only [h0] at h
    have hbase : OnBase (gap.reverse ++ i.consumedRev) (startToken i0) := by
      have := onBase_start i0
      rw [hc0] at this; exact this
    split at h
    · rename_i hcond
      simp only [Bool.and_eq_true] at hcond
      exact readComment_lay hws hc0 hcond.2 h
    · split at h
      · cases h
      · split at h
        · rename_i heof
          cases h
          refine lay_of_endToken hws hbase (fun _ => ⟨?_, rfl⟩) ?_ ?_ ?_
          · have : i0.eof = true := heof
            unfold Input.eof at this
            simpa using this
          · intro hk; cases hk
          · intro hk; cases hk
          · intro hk; cases hk
        · split at h
          · cases h1 : readRune (startToken i0) with
            | error e => simp [h1] at h
            | ok v1 =>
              simp only [h1] at h
              cases h
              have hb1 := onBase_readRune _ _ _ hbase (show readRune (startToken i0) = .ok (v1.1, v1.2) by rw [h1])
              refine lay_of_endToken hws hb1 ?_ ?_ ?_ ?_ <;> (intro hk; cases hk)
          · split at h
            · rename_i hq
              cases h1 : readRune (startToken i0) with
              | error e => simp [h1] at h
              | ok v1 =>
                have hv1 : readRune (startToken i0) = .ok (v1.1, v1.2) := by rw [h1]
                simp only [h1] at h
                cases h2 : readString (startToken i0).peekRune (v1.2.remaining.length + 1) v1.2 with
                | error e => simp [h2] at h
                | ok v2 =>
                  simp only [h2] at h
                  cases h
                  have hb1 := onBase_readRune _ _ _ hbase hv1
                  have hb2 : OnBase (gap.reverse ++ i.consumedRev) v2 :=
                    readString_pres (P := OnBase (gap.reverse ++ i.consumedRev)) onBase_readRune _ _ _ _ hb1 h2
                  have hq' : (startToken i0).peekRune = 34 ∨ (startToken i0).peekRune = 96 := by
                    simpa [quoteRunes] using hq
                  have hlt : (startToken i0).peekRune < 128 := by rcases hq' with h | h <;> rw [h] <;> decide
                  obtain ⟨_, htk, _, _⟩ := readRune_ascii hv1 hlt
                  have hsuf1 : ∃ more, v1.2.tokRev = more ++ [UInt8.ofNat (startToken i0).peekRune] := ⟨[], by rw [htk]; rfl⟩
                  obtain ⟨more, hm⟩ := readString_pres (P := fun j => ∃ more, j.tokRev = more ++ [UInt8.ofNat (startToken i0).peekRune])
                    (tokRev_suffix_readRune _) _ _ _ _ hsuf1 h2
                  refine lay_of_endToken hws hb2 ?_ ?_ ?_ ?_
                  · intro hk; cases hk
                  · intro hk; cases hk
                  · intro _
                    refine ⟨UInt8.ofNat (startToken i0).peekRune, more.reverse, by rw [hm]; simp, ?_⟩
                    rcases hq' with h | h <;> rw [h]
                    · left; rfl
                    · right; rfl
                  · intro hk; cases hk
            · split at h
              · cases h
              · generalize h2 : readIdent _ (startToken i0) = res at h
                cases res with
                | error e => simp at h
                | ok v2 =>
                  simp only at h
                  cases h
                  have hb2 : OnBase (gap.reverse ++ i.consumedRev) v2 :=
                    readIdent_pres (P := OnBase (gap.reverse ++ i.consumedRev)) onBase_readRune _ _ _ hbase h2
                  refine lay_of_endToken hws hb2 ?_ ?_ ?_ ?_
                  · intro hk; cases hk
                  · intro hk; cases hk
                  · intro hk; cases hk
                  · intro _; exact readIdent_exit _ _ _ h2


/-! ### the same facts in terms of the input, for the states the parser reaches -/

/-- peekRune of a byte string: 0 at the end -/
def peekOf (s : Bytes) : Nat :=
  match s with
  | [] => 0
  | _ :: _ => (Utf8.decodeRune s).1

theorem peekRune_eq (i : Input) : i.peekRune = peekOf i.remaining := by
  unfold Input.peekRune peekOf; cases i.remaining <;> rfl

theorem isPrefixOfB_iff {p s : Bytes} : isPrefixOfB p s = true ↔ p <+: s := by
  induction p generalizing s with
  | nil => simp [isPrefixOfB]
  | cons a p ih =>
    cases s with
    | nil => simp [isPrefixOfB]
    | cons b s => simp [isPrefixOfB, ih, List.cons_prefix_cons]

/-- layout facts about the pending token of a reachable state, in terms of the input -/
structure RLay (data : Bytes) (i : Input) : Prop where
  eofText : i.token.kind = .eof → i.token.text = []
  eof : i.token.kind = .eof → data.drop i.token.pos.byte = []
  comment : i.token.kind.isComment = true → [47, 47] <+: i.token.text
  string : i.token.kind = .string → ∃ q rest, i.token.text = q :: rest ∧ (q = 34 ∨ q = 96)
  ident : i.token.kind = .ident →
    isIdent (peekOf (data.drop i.token.endPos.byte)) = false ∨ [47, 47] <+: data.drop i.token.endPos.byte
  eol : (i.token.kind.isEOL = true ∨ i.token.kind = .comment) →
    (∃ a, data.take i.pos.byte = a ++ [10]) ∨ data.drop i.pos.byte = []

theorem take_pos {data : Bytes} {i : Input} (hb : Inv data i) : data.take i.pos.byte = i.consumedRev.reverse := by
  rw [← hb.split, hb.byte, ← List.length_reverse]
  exact List.take_left

theorem drop_pos {data : Bytes} {i : Input} (hb : Inv data i) : data.drop i.pos.byte = i.remaining := by
  rw [← hb.split, hb.byte, ← List.length_reverse]
  exact List.drop_left

theorem take_tokpos {data : Bytes} {i : Input} {pre : Bytes} (hb : Inv data i) (hpre : i.consumedRev = i.tokRev ++ pre) :
    data.take i.token.pos.byte = pre.reverse := by
  obtain ⟨pre', hpre', hlen⟩ := hb.tok
  have : pre' = pre := List.append_cancel_left (hpre'.symm.trans hpre)
  subst this
  rw [← hb.split, hpre, List.reverse_append, List.append_assoc, ← hlen, ← List.length_reverse]
  exact List.take_left

theorem rlay_of_step {data : Bytes} {j i : Input} (hj : LInv0 data j) (h : readToken j = .ok i) : RLay data i := by
  have hl := readToken_lay h
  have ht : TokOK2 data i := by
    have := readToken_res hj
    rw [h] at this; exact this
  have hb := ht.inv.base
  obtain ⟨gap, _, hg⟩ := hl.gap
  refine ⟨?_, ?_, ?_, ?_, ?_, ?_⟩
  · intro hk
    obtain ⟨_, htk⟩ := hl.eof hk
    have hnc : i.token.kind.isComment = false := by rw [hk]; rfl
    rw [ht.exact hnc, htk]; rfl
  · intro hk
    obtain ⟨hr, htk⟩ := hl.eof hk
    have h1 := take_tokpos hb hg
    have h2 := take_pos hb
    rw [hg, htk, List.nil_append] at h2
    have : data.take i.token.pos.byte = data.take i.pos.byte := by rw [h1, h2]
    have hd := drop_pos hb
    rw [hr] at hd
    have hlen : i.token.pos.byte = i.pos.byte ∨ (data.length ≤ i.token.pos.byte ∧ data.length ≤ i.pos.byte) := by
      have := congrArg List.length this
      simp only [List.length_take] at this
      omega
    rcases hlen with hlen | hlen
    · rw [hlen]; exact hd
    · exact List.drop_eq_nil_of_le hlen.1
  · intro hk
    obtain ⟨⟨more, hm⟩, _⟩ := hl.comment hk
    -- the token text is the scanned bytes without the line end
    have htext : ∃ more', i.token.text = (more' ++ [47, 47]).reverse := by
      rcases ht.raw with hr | hr | hr
      · exact ⟨more, by rw [← hm, ← hr]⟩
      · have := congrArg List.reverse hr
        simp only [List.reverse_reverse, List.reverse_append, List.reverse_cons, List.reverse_nil, List.nil_append,
          List.singleton_append] at this
        rw [hm] at this
        cases more with
        | nil => simp at this
        | cons a rest =>
          simp only [List.cons_append, List.cons.injEq] at this
          exact ⟨rest, by rw [this.2, List.reverse_reverse]⟩
      · have := congrArg List.reverse hr
        simp only [List.reverse_reverse, List.reverse_append, List.reverse_cons, List.reverse_nil, List.nil_append,
          List.cons_append] at this
        rw [hm] at this
        match more, this with
        | [], this => simp at this
        | [a], this => simp at this
        | a :: b :: rest, this =>
          simp only [List.cons_append, List.cons.injEq] at this
          exact ⟨rest, by rw [this.2.2, List.reverse_reverse]⟩
    obtain ⟨more', hm'⟩ := htext
    rw [hm']
    simp
  · intro hk
    have hnc : i.token.kind.isComment = false := by rw [hk]; rfl
    rw [ht.exact hnc]
    exact hl.string hk
  · intro hk
    have hd : data.drop i.token.endPos.byte = i.remaining := by rw [ht.endPos]; exact drop_pos hb
    rw [hd]
    rcases hl.ident hk with h1 | h1
    · left; rw [← peekRune_eq]; exact h1
    · right; exact isPrefixOfB_iff.mp h1
  · intro hk
    have hcons : i.consumedRev.head? = some 10 ∨ i.remaining = [] := by
      cases hkind : i.token.kind with
      | eof => exact Or.inr (hl.eof hkind).1
      | eolComment => exact (hl.comment (by rw [hkind]; rfl)).2
      | comment => exact (hl.comment (by rw [hkind]; rfl)).2
      | punct c =>
        rw [hkind] at hk
        have hc : c = 10 := by
          rcases hk with hk | hk
          · simpa [TokKind.isEOL] using hk
          · cases hk
        subst hc
        have htxt := ht.punct 10 hkind
        have hnc : i.token.kind.isComment = false := by rw [hkind]; rfl
        have := ht.exact hnc
        rw [htxt] at this
        have htr : i.tokRev = [10] := by
          have := congrArg List.reverse this
          simpa using this.symm
        left
        rw [hg, htr]; rfl
      | ident => rw [hkind] at hk; rcases hk with hk | hk <;> cases hk
      | string => rw [hkind] at hk; rcases hk with hk | hk <;> cases hk
    rcases hcons with hc | hc
    · left
      rw [take_pos hb]
      cases hcr : i.consumedRev with
      | nil => rw [hcr] at hc; cases hc
      | cons a rest =>
        rw [hcr] at hc
        simp only [List.head?_cons, Option.some.injEq] at hc
        exact ⟨rest.reverse, by rw [hc]; simp⟩
    · right
      rw [drop_pos hb]; exact hc


theorem reach_rlay {data : Bytes} {i : Input} (h : Reach data i) : RLay data i := by
  induction h with
  | start h => exact rlay_of_step (linv0_newInput data) h
  | lex hj h _ => exact rlay_of_step (reach_tokOK2 hj).inv.toLInv0 h
  | setId n _ ih => exact ⟨ih.eofText, ih.eof, ih.comment, ih.string, ih.ident, ih.eol⟩

/-- between the end of one token and the start of the next there are only blanks -/
theorem step_gap {data : Bytes} {j i : Input} (hj : LInv0 data j) (h : readToken j = .ok i) :
    ∃ gap, WS gap ∧ data.take i.token.pos.byte = data.take j.pos.byte ++ gap := by
  have ht : TokOK2 data i := by
    have := readToken_res hj
    rw [h] at this; exact this
  obtain ⟨gap, hws, hg⟩ := (readToken_lay h).gap
  refine ⟨gap, hws, ?_⟩
  rw [take_tokpos ht.inv.base hg, take_pos hj.base]
  simp

theorem ws_no_newline {g : Bytes} (h : WS g) : ∀ b ∈ g, (b != 10) = true := by
  intro b hb
  rcases h b hb with rfl | rfl | rfl <;> decide

theorem lastLine_append_ws (a g : Bytes) (hg : WS g) (ha : a = [] ∨ ∃ a', a = a' ++ [10]) : lastLine (a ++ g) = g := by
  unfold lastLine
  rw [List.reverse_append, List.takeWhile_append_of_pos (by
    intro b hb; exact ws_no_newline hg b (List.mem_reverse.mp hb))]
  rcases ha with rfl | ⟨a', rfl⟩
  · simp
  · simp

/-- the pending token is the first on its source line, or the input is exhausted -/
def SOL (data : Bytes) (i : Input) : Prop := WS (lastLine (data.take i.token.pos.byte)) ∨ i.token.kind = .eof

theorem readToken_at_eof {j i : Input} (hr : j.remaining = []) (h : readToken j = .ok i) : i.token.kind = .eof := by
  unfold readToken at h
  have hs : skipSpaces (j.remaining.length + 1) j = .ok j := by
    unfold skipSpaces
    simp [Input.eof, hr]
  have he : j.eof = true := by simp [Input.eof, hr]
  have he2 : (startToken j).eof = true := he
  simp only [bind, Except.bind, hs, he, he2, Bool.not_true, Bool.false_and, Bool.false_eq_true, if_false, if_true] at h
  cases h; rfl

theorem sol_first {data : Bytes} {i : Input} (h : readToken (newInput data) = .ok i) : SOL data i := by
  obtain ⟨gap, hws, hg⟩ := step_gap (linv0_newInput data) h
  left
  have : data.take (newInput data).pos.byte = [] := by simp [newInput]
  rw [hg, this, lastLine_append_ws [] gap hws (Or.inl rfl)]
  exact hws

theorem sol_after_eol {data : Bytes} {j i : Input} (hj : Reach data j)
    (hk : j.token.kind.isEOL = true ∨ j.token.kind = .comment) (h : readToken j = .ok i) : SOL data i := by
  have hinv := (reach_tokOK2 hj).inv
  rcases (reach_rlay hj).eol hk with ⟨a, ha⟩ | hd
  · obtain ⟨gap, hws, hg⟩ := step_gap hinv.toLInv0 h
    left
    rw [hg, ha, lastLine_append_ws _ gap hws (Or.inr ⟨a, rfl⟩)]
    exact hws
  · right
    apply readToken_at_eof _ h
    rw [← drop_pos hinv.base]; exact hd


/-- a non-comment token's text is exactly the input between its start and its end -/
theorem tok_exact_take {data : Bytes} {i : Input} (h : TokOK2 data i) (hk : i.token.kind.isComment = false) :
    data.take i.token.endPos.byte = data.take i.token.pos.byte ++ i.token.text := by
  obtain ⟨pre, hpre, _⟩ := h.inv.base.tok
  rw [h.endPos, take_pos h.inv.base, take_tokpos h.inv.base hpre, h.exact hk, hpre, List.reverse_append]

theorem drop_of_take_eq {data g : Bytes} {b c : Nat} (h : data.take c = data.take b ++ g) :
    data.drop b = g ++ data.drop c := by
  have h1 : data.take b ++ data.drop b = data.take b ++ (g ++ data.drop c) := by
    rw [List.take_append_drop, ← List.append_assoc, ← h, List.take_append_drop]
  exact List.append_cancel_left h1


/-- What follows a token: unless the text has the shape of a non-identifier token (empty, one byte, a
    comment, a quoted string), the input after it does not continue with an identifier rune — or it
    continues with `//`. -/
def IdentEnd (data : Bytes) (t : Bytes) (b : Nat) : Prop :=
  t = [] ∨ t.length = 1 ∨ [47, 47] <+: t ∨ t.head? = some 34 ∨ t.head? = some 96 ∨
  (isIdent (peekOf (data.drop b)) = false ∨ [47, 47] <+: data.drop b)

theorem reach_identEnd {data : Bytes} {i : Input} (h : Reach data i) :
    IdentEnd data i.token.text i.token.endPos.byte := by
  have hrl := reach_rlay h
  have hf := (reach_tokOK2 h).facts
  unfold IdentEnd
  cases hk : i.token.kind with
  | eof => exact Or.inl (hrl.eofText hk)
  | eolComment => exact Or.inr (Or.inr (Or.inl (hrl.comment (by rw [hk]; rfl))))
  | comment => exact Or.inr (Or.inr (Or.inl (hrl.comment (by rw [hk]; rfl))))
  | punct c => exact Or.inr (Or.inl (by rw [hf.punct c hk]; rfl))
  | string =>
    obtain ⟨q, rest, hq, hq'⟩ := hrl.string hk
    rcases hq' with rfl | rfl
    · exact Or.inr (Or.inr (Or.inr (Or.inl (by rw [hq]; rfl))))
    · exact Or.inr (Or.inr (Or.inr (Or.inr (Or.inl (by rw [hq]; rfl)))))
  | ident => exact Or.inr (Or.inr (Or.inr (Or.inr (Or.inr (hrl.ident hk)))))

end ModVerif.Proofs.ModfileC20
