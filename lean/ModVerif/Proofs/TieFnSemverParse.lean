/-
  Tie proofs for the regenerated semver functions, part 3: `parse`.
  Go's `parse` has named results and returns the partially filled struct also when ok = false; `parseFull` mirrors
  that over the model's sub-parsers, `parseResidue` is the struct it returns on failure (callers ignore it).
-/
import ModVerif.Proofs.TieFnSemverIdent
set_option linter.unusedVariables false
namespace ModVerif.TieFnSemver
open ModVerif ModVerif.GoRt
open ModVerif.Generated.Semver (parsed)

/-- the Go struct `parsed` of a model `Parsed` -/
def ofParsed (p : Semver.Parsed) : parsed :=
  { major := p.major, minor := p.minor, patch := p.patch, short := p.short, prerelease := p.prerelease, build := p.build }

def endFull (p : parsed) (v : Bytes) : parsed × Bool := (p, v.isEmpty)

def buildFull (p : parsed) (v : Bytes) : parsed × Bool :=
  match v with
  | 43 :: _ =>
    match Semver.parseBuild v with
    | none => ({ p with build := [] }, false)
    | some (t, r) => endFull { p with build := t } r
  | _ => endFull p v

def preFull (p : parsed) (v : Bytes) : parsed × Bool :=
  match v with
  | 45 :: _ =>
    match Semver.parsePrerelease v with
    | none => ({ p with prerelease := [] }, false)
    | some (t, r) => buildFull { p with prerelease := t } r
  | _ => buildFull p v

/-- from the '.' before the patch number on (`v` is non-empty there) -/
def patchFull (p : parsed) (e : UInt8) (v5 : Bytes) : parsed × Bool :=
  if e ≠ 46 then (p, false) else
  match Semver.parseInt v5 with
  | none => ({ p with patch := [] }, false)
  | some (pat, v6) => preFull { p with patch := pat } v6

/-- from the '.' before the minor number on -/
def minorFull (p : parsed) (d : UInt8) (v3 : Bytes) : parsed × Bool :=
  if d ≠ 46 then (p, false) else
  match Semver.parseInt v3 with
  | none => ({ p with minor := [] }, false)
  | some (min, v4) =>
    match v4 with
    | [] => ({ p with minor := min, patch := [48], short := [46, 48] }, true)
    | e :: v5 => patchFull { p with minor := min } e v5

/-- `parse` with the named results Go returns also on failure (the partially filled struct): a mirror of the Go
    function over the model's sub-parsers.  `parseResidue` is its struct component. -/
def parseFull (v : Bytes) : parsed × Bool :=
  match v with
  | [] => (default, false)
  | c :: v1 =>
    if c ≠ 118 then (default, false) else
    match Semver.parseInt v1 with
    | none => ({ (default : parsed) with major := [] }, false)
    | some (maj, v2) =>
      match v2 with
      | [] => ({ (default : parsed) with major := maj, minor := [48], patch := [48], short := [46, 48, 46, 48] }, true)
      | d :: v3 => minorFull { (default : parsed) with major := maj } d v3

/-- the struct Go's `parse` returns together with ok = false (callers ignore it) -/
def parseResidue (v : Bytes) : parsed := (parseFull v).1

theorem parseInt_rest_len {v t r : Bytes} (h : Semver.parseInt v = some (t, r)) : r.length + 1 ≤ v.length := by
  cases v with
  | nil => simp [Semver.parseInt] at h
  | cons c rest =>
    simp only [Semver.parseInt] at h
    split at h
    · simp at h
    · split at h
      · simp at h
      · simp at h
        have := (List.dropWhile_sublist (l := rest) Semver.isDigit).length_le
        rw [← h.2]; simp; omega

theorem parsePrerelease_rest_len {v t r : Bytes} (h : Semver.parsePrerelease v = some (t, r)) :
    r.length + 1 ≤ v.length := by
  unfold Semver.parsePrerelease at h
  split at h
  · split at h
    · simp at h
      rename_i rest _
      have := (List.dropWhile_sublist (l := rest) (· != 43)).length_le
      rw [← h.2]; simp; omega
    · simp at h
  · simp at h

/-! The generated `parse` cut into stages (copied from Generated/FnSemver.lean; `parse_staged` checks by `rfl`
    that the pieces recompose to the generated definition, so any change of the source breaks it). -/

def gEnd (p : parsed) (v : Bytes) (ok : Bool) : M (parsed × Bool) :=
  ((if (!decide (v = ([] : Bytes))) then (do
    let ok := false
    pure (p, ok)) else (do
    let ok := true
    pure (p, ok))) : M (parsed × Bool))

def gBuild (fuel : Nat) (p : parsed) (v : Bytes) (ok : Bool) : M (parsed × Bool) := ((do
  let t17 ← (if (decide ((len v) > (0 : Int))) then (do
    let t16 ← idx v (0 : Int)
    pure (decide (t16 = (43 : Int)))) else pure false)
  if t17 then (do
    let t19 ← (Generated.Semver.parseBuild fuel v)
    let (a20, v, ok) := t19
    let p := { p with build := a20 }
    if (!ok) then (pure (p, ok)) else (gEnd p v ok)) else (gEnd p v ok)) : M (parsed × Bool))

def gTail (fuel : Nat) (p : parsed) (v : Bytes) (ok : Bool) : M (parsed × Bool) := (do
  let t15 ← (if (decide ((len v) > (0 : Int))) then (do
    let t14 ← idx v (0 : Int)
    pure (decide (t14 = (45 : Int)))) else pure false)
  if t15 then (do
    let t22 ← (Generated.Semver.parsePrerelease fuel v)
    let (a23, v, ok) := t22
    let p := { p with prerelease := a23 }
    if (!ok) then (pure (p, ok)) else (gBuild fuel p v ok)) else (gBuild fuel p v ok))

def gPatch (fuel : Nat) (p : parsed) (v : Bytes) (ok : Bool) : M (parsed × Bool) := (do
  let t10 ← idx v (0 : Int)
  if (!decide (t10 = (46 : Int))) then (do
    let ok := false
    pure (p, ok)) else (do
    let t11 ← sliceFrom v (1 : Int)
    let t12 ← (Generated.Semver.parseInt fuel t11)
    let (a13, v, ok) := t12
    let p := { p with patch := a13 }
    if (!ok) then (pure (p, ok)) else (gTail fuel p v ok)))

def gMinor (fuel : Nat) (p : parsed) (v : Bytes) (ok : Bool) : M (parsed × Bool) := (do
  let t6 ← idx v (0 : Int)
  if (!decide (t6 = (46 : Int))) then (do
    let ok := false
    pure (p, ok)) else (do
    let t7 ← sliceFrom v (1 : Int)
    let t8 ← (Generated.Semver.parseInt fuel t7)
    let (a9, v, ok) := t8
    let p := { p with minor := a9 }
    if (!ok) then (pure (p, ok)) else (if (decide (v = ([] : Bytes))) then (do
      let p := { p with patch := ([48] : Bytes) }
      let p := { p with short := ([46, 48] : Bytes) }
      pure (p, ok)) else (gPatch fuel p v ok))))

def gParse (fuel : Nat) (v : Bytes) : M (parsed × Bool) := do
  let p := (default : parsed)
  let ok := false
  let t2 ← (if (decide (v = ([] : Bytes))) then pure true else (do
    let t1 ← idx v (0 : Int)
    pure (!decide (t1 = (118 : Int)))))
  if t2 then (pure (p, ok)) else (do
    let t3 ← sliceFrom v (1 : Int)
    let t4 ← (Generated.Semver.parseInt fuel t3)
    let (a5, v, ok) := t4
    let p := { p with major := a5 }
    if (!ok) then (pure (p, ok)) else (if (decide (v = ([] : Bytes))) then (do
      let p := { p with minor := ([48] : Bytes) }
      let p := { p with patch := ([48] : Bytes) }
      let p := { p with short := ([46, 48, 46, 48] : Bytes) }
      pure (p, ok)) else (gMinor fuel p v ok)))

theorem parse_staged (fuel : Nat) (v : Bytes) : Generated.Semver.parse fuel v = gParse fuel v := rfl

theorem gEnd_ok (p : parsed) (v : Bytes) (ok : Bool) : gEnd p v ok = .ok (endFull p v) := by
  cases v <;> simp [gEnd, endFull]

theorem gBuild_ok (fuel : Nat) (p : parsed) (v : Bytes) (ok : Bool) (hf : v.length ≤ fuel) :
    gBuild fuel p v ok = .ok (buildFull p v) := by
  cases v with
  | nil => simp [gBuild, gEnd_ok, buildFull]
  | cons c r =>
    have hpos : len (c :: r) > 0 := by simp [len_eq]
    unfold gBuild
    simp only [hpos, decide_true, if_true, idx_zero_cons, bind_ok, pure_eq_ok, gEnd_ok,
      byte_eq_int (n := 43) (d := 43) rfl]
    by_cases h : c = 43
    · subst h
      simp only [decide_true, if_true, parseBuild_ok _ fuel hf, bind_ok, buildFull]
      cases hp : Semver.parseBuild (43 :: r) with
      | none => simp
      | some tr => obtain ⟨t, r'⟩ := tr; simp
    · simp only [h, decide_false, Bool.false_eq_true, if_false]
      unfold buildFull
      split
      · rename_i heq; simp at heq; exact absurd heq.1 h
      · rfl

theorem gTail_ok (fuel : Nat) (p : parsed) (v : Bytes) (ok : Bool) (hf : 2 * v.length ≤ fuel) :
    gTail fuel p v ok = .ok (preFull p v) := by
  cases v with
  | nil => simp [gTail, gBuild_ok, preFull]
  | cons c r =>
    have hpos : len (c :: r) > 0 := by simp [len_eq]
    unfold gTail
    simp only [hpos, decide_true, if_true, idx_zero_cons, bind_ok, pure_eq_ok,
      byte_eq_int (n := 45) (d := 45) rfl]
    by_cases h : c = 45
    · subst h
      simp only [decide_true, if_true, parsePrerelease_ok _ fuel hf, bind_ok, preFull]
      cases hp : Semver.parsePrerelease (45 :: r) with
      | none => simp
      | some tr =>
        obtain ⟨t, r'⟩ := tr
        have := parsePrerelease_rest_len hp
        simp [gBuild_ok fuel _ r' true (by omega)]
    · simp only [h, decide_false, Bool.false_eq_true, if_false]
      rw [gBuild_ok fuel p (c :: r) ok (by omega)]
      unfold preFull
      split
      · rename_i heq; simp at heq; exact absurd heq.1 h
      · rfl

theorem gPatch_ok (fuel : Nat) (p : parsed) (e : UInt8) (v5 : Bytes) (ok : Bool) (hf : 2 * (v5.length + 1) ≤ fuel) :
    gPatch fuel p (e :: v5) ok = .ok (patchFull p e v5) := by
  unfold gPatch patchFull
  simp only [idx_zero_cons, sliceFrom_one_cons, bind_ok, pure_eq_ok, byte_eq_int (n := 46) (d := 46) rfl,
    parseInt_ok v5 fuel (by omega)]
  by_cases h : e = 46
  · simp only [h, decide_true, Bool.not_true, Bool.false_eq_true, if_false, ne_eq, not_true_eq_false]
    cases hp : Semver.parseInt v5 with
    | none => simp
    | some tr =>
      obtain ⟨t, r'⟩ := tr
      have := parseInt_rest_len hp
      simp [gTail_ok fuel _ r' true (by omega)]
  · simp [h]

theorem gMinor_ok (fuel : Nat) (p : parsed) (d : UInt8) (v3 : Bytes) (ok : Bool) (hf : 2 * (v3.length + 1) ≤ fuel) :
    gMinor fuel p (d :: v3) ok = .ok (minorFull p d v3) := by
  unfold gMinor minorFull
  simp only [idx_zero_cons, sliceFrom_one_cons, bind_ok, pure_eq_ok, byte_eq_int (n := 46) (d := 46) rfl,
    parseInt_ok v3 fuel (by omega)]
  by_cases h : d = 46
  · simp only [h, decide_true, Bool.not_true, Bool.false_eq_true, if_false, ne_eq, not_true_eq_false]
    cases hp : Semver.parseInt v3 with
    | none => simp
    | some tr =>
      obtain ⟨t, r'⟩ := tr
      have := parseInt_rest_len hp
      cases r' with
      | nil => simp
      | cons e v5 =>
        simp only [List.length_cons] at this
        simp [gPatch_ok fuel _ e v5 true (by omega)]
  · simp [h]

theorem gParse_ok (fuel : Nat) (v : Bytes) (hf : 2 * v.length ≤ fuel) : gParse fuel v = .ok (parseFull v) := by
  cases v with
  | nil => simp [gParse, parseFull]
  | cons c v1 =>
    simp only [List.length_cons] at hf
    unfold gParse parseFull
    simp only [idx_zero_cons, sliceFrom_one_cons, bind_ok, pure_eq_ok, byte_eq_int (n := 118) (d := 118) rfl,
      parseInt_ok v1 fuel (by omega)]
    by_cases h : c = 118
    · simp only [h, decide_true, Bool.not_true, if_false, ne_eq, not_true_eq_false]
      cases hp : Semver.parseInt v1 with
      | none => simp
      | some tr =>
        obtain ⟨t, r'⟩ := tr
        have := parseInt_rest_len hp
        cases r' with
        | nil => simp
        | cons d v3 =>
          simp only [List.length_cons] at this
          simp [gMinor_ok fuel _ d v3 true (by omega)]
    · simp [h]

/-! ### the mirror agrees with the model's `parse` -/

theorem build_rel (p : Semver.Parsed) (v : Bytes) :
    (∀ q r, Semver.parseBuildOpt p v = some (q, r) → buildFull (ofParsed p) v = endFull (ofParsed q) r) ∧
    (Semver.parseBuildOpt p v = none → (buildFull (ofParsed p) v).2 = false) := by
  unfold Semver.parseBuildOpt buildFull
  split
  · cases hb : Semver.parseBuild _ with
    | none => simp
    | some tr => obtain ⟨t, r'⟩ := tr; simp; rfl
  · rename_i hne
    split
    · exact absurd rfl (hne _)
    · simp

theorem pre_rel (p : Semver.Parsed) (v : Bytes) :
    (∀ q r, Semver.parsePreOpt p v = some (q, r) → preFull (ofParsed p) v = buildFull (ofParsed q) r) ∧
    (Semver.parsePreOpt p v = none → (preFull (ofParsed p) v).2 = false) := by
  unfold Semver.parsePreOpt preFull
  split
  · cases hb : Semver.parsePrerelease _ with
    | none => simp
    | some tr => obtain ⟨t, r'⟩ := tr; simp; rfl
  · rename_i hne
    split
    · exact absurd rfl (hne _)
    · simp

theorem tail_rel (p : Semver.Parsed) (v : Bytes) :
    (∀ q, Semver.parseTail p v = some q → preFull (ofParsed p) v = (ofParsed q, true)) ∧
    (Semver.parseTail p v = none → (preFull (ofParsed p) v).2 = false) := by
  unfold Semver.parseTail
  cases h1 : Semver.parsePreOpt p v with
  | none => simp [(pre_rel p v).2 h1]
  | some pr =>
    obtain ⟨p1, v1⟩ := pr
    rw [(pre_rel p v).1 p1 v1 h1]
    cases h2 : Semver.parseBuildOpt p1 v1 with
    | none => simp [(build_rel p1 v1).2 h2, h2]
    | some pr2 =>
      obtain ⟨p2, v2⟩ := pr2
      rw [(build_rel p1 v1).1 p2 v2 h2]
      cases v2 <;> simp [endFull, h2]

theorem B_dot00 : B ".0.0" = [46, 48, 46, 48] := by decide +kernel
theorem B_dot0 : B ".0" = [46, 48] := by decide +kernel

theorem parseFull_rel (v : Bytes) :
    (∀ q, Semver.parse v = some q → parseFull v = (ofParsed q, true)) ∧
    (Semver.parse v = none → (parseFull v).2 = false) := by
  unfold Semver.parse parseFull
  cases v with
  | nil => simp
  | cons c v1 =>
    by_cases hc : c = 118
    · subst hc
      simp only [ne_eq, not_true_eq_false, if_false]
      cases h1 : Semver.parseInt v1 with
      | none => simp
      | some tr =>
        obtain ⟨maj, v2⟩ := tr
        simp only
        cases v2 with
        | nil => simp [ofParsed, B_dot00]; exact ⟨rfl, rfl⟩
        | cons d v3 =>
          unfold minorFull
          by_cases hd : d = 46
          · subst hd
            simp only [ne_eq, not_true_eq_false, if_false]
            cases h2 : Semver.parseInt v3 with
            | none => simp
            | some tr2 =>
              obtain ⟨min, v4⟩ := tr2
              simp only
              cases v4 with
              | nil => simp [ofParsed, B_dot0]; exact ⟨rfl, rfl⟩
              | cons e v5 =>
                unfold patchFull
                by_cases he : e = 46
                · subst he
                  simp only [ne_eq, not_true_eq_false, if_false]
                  cases h3 : Semver.parseInt v5 with
                  | none => simp
                  | some tr3 =>
                    obtain ⟨pat, v6⟩ := tr3
                    simp only
                    exact tail_rel { major := maj, minor := min, patch := pat } v6
                · simp [he]
          · simp [hd]
    · simp [hc]

theorem parse_ok (v : Bytes) (fuel : Nat) (hf : 2 * v.length ≤ fuel) :
    Generated.Semver.parse fuel v =
      .ok (match Semver.parse v with | some p => (ofParsed p, true) | none => (parseResidue v, false)) := by
  rw [parse_staged, gParse_ok fuel v hf]
  cases h : Semver.parse v with
  | none =>
    have := (parseFull_rel v).2 h
    simp only [parseResidue]
    rw [← this]
  | some q => simp [(parseFull_rel v).1 q h]

end ModVerif.TieFnSemver
