/-
  Helper lemmas for the tie of the regenerated `dirhash.HashDir`, part 6: the result embeddings, the `hash` argument as the
  driver instantiates it (the regenerated `Hash1`), and the file `HashDir` opens for a listed name.

  Core Lean only.
-/
import ModVerif.Proofs.TieFnDirhashDirMain
namespace ModVerif.TieFnDirhashDir
open ModVerif ModVerif.GoRt ModVerif.ZipSpec ModVerif.Proofs.ZipB
open ModVerif.Generated.Dirhash (FileInfo)

/-- the error `filepath.Walk` hands to the callback for a missing root -/
def lstatMsg : String := "lstat: no such file or directory"
/-- the (unformatted) text of DirFiles' own error -/
def notDirMsg : String := "%s is not a directory"

/-- the error values of the model as Go errors; `e` is the text of a failing `open` -/
def embedErr (e : String) : Dirhash.Err → Option String
  | .walk => some lstatMsg
  | .notDir => some notDirMsg
  | .newline => some TieFnDirhash.newlineMsg
  | .openFail => some e

/-- the model's `dirFiles` result as the Go result pair `([]string, error)`; `dirFiles` reports `walk` / `notDir` only -/
def embedFiles : Except Dirhash.Err (List Bytes) → List Bytes × Option String
  | .ok l => (l, none)
  | .error er => ([], embedErr "" er)

/-- the model's `hashDir` result as the Go result pair `(string, error)` -/
def embedHash (e : String) : Except Dirhash.Err Bytes → Bytes × Option String
  | .ok h => (h, none)
  | .error er => ([], embedErr e er)

/-- the `hash` argument of `HashDir` as the driver passes it: the regenerated `Hash1` (over an abstract SHA-256) with
    enough fuel; a run-time error of the regenerated code would surface as a "panic:" text -/
def genHash (sha : Bytes → Bytes) : List Bytes → (Bytes → Bytes × Option String) → Bytes × Option String :=
  fun fl op =>
    match Generated.Dirhash.Hash1 Base64.encodeStd (fun acc pre => pre ++ sha acc) (fl.length + 4) fl op with
    | .ok r => r
    | .error e => ([], some ("panic:" ++ e.toString))

theorem embedHash_hash1 (sha : Bytes → Bytes) (names : List Bytes) (openF : Bytes → Option Bytes) (e : String) :
    embedHash e (Dirhash.hash1 sha names openF) = TieFnDirhash.embed e (Dirhash.hash1 sha names openF) := by
  cases h : Dirhash.hash1 sha names openF with
  | ok r => rfl
  | error er =>
    rcases TieFnDirhash.hash1_err sha names openF er h with rfl | rfl <;> rfl

/-- `genHash` with a callback that behaves on the listed names like the model's `openF` -/
theorem genHash_eq (sha : Bytes → Bytes) (names : List Bytes) (openF : Bytes → Option Bytes) (e : String)
    (op : Bytes → Bytes × Option String) (h : ∀ n ∈ names, op n = TieFnDirhash.openOf openF e n) :
    genHash sha names op = embedHash e (Dirhash.hash1 sha names openF) := by
  unfold genHash
  rw [Hash1_congr sha names op (TieFnDirhash.openOf openF e) _ (by omega) h,
    Tie.FnDirhash.Hash1_tie_embed sha names openF e _ (by omega), embedHash_hash1]

/-! ### the file HashDir opens -/

/-- `filepath.Join(d, "/" ++ rel) = filepath.Join(d, rel)` for a non-empty `d` -/
theorem fpJoin_slash {d rel : Bytes} (hd : d ≠ []) (hn : NormalName rel) : fpJoin d (47 :: rel) = fpJoin d rel := by
  have e : fpJoin d rel = Zip.fpJoin d rel := rfl
  rw [e, fpJoin_eq_render d hn]
  unfold fpJoin pathClean
  have hd' : (d == []) = false := by simpa using hd
  simp only [hd', Bool.false_eq_true, if_false]
  have hne : ((47 :: rel : Bytes) == []) = false := by simp
  simp only [hne, Bool.false_eq_true, if_false]
  rw [pathClean_eq_render]
  have hr : PathClean.isRooted (d ++ [47] ++ 47 :: rel) = PathClean.isRooted d := by
    rw [List.append_assoc]; exact isRooted_append_ne_nil _ _ hd
  rw [hr]
  congr 1
  unfold PathClean.comps
  rw [hr]
  have hs : d ++ [47] ++ 47 :: rel = d ++ 47 :: (47 :: rel) := by simp
  rw [hs, splitOn_append_sep, splitOn_sep_cons]
  have : splitOn 47 d ++ [] :: splitOn 47 rel = (splitOn 47 d ++ [[]]) ++ splitOn 47 rel := by simp
  rw [this, cleanComps_append_normal _ _ _ hn, cleanComps_append_empty]

/-- for a clean relative prefix: the name listed for `rel` is `pfx/rel`, and HashDir opens `Join(d, rel)` for it -/
theorem opened_path {d pfx rel : Bytes} (hd : d ≠ []) (hp : Dirhash.CleanRel pfx) (hr : Dirhash.CleanRel rel)
    (hn : NormalName rel) :
    fpJoin d (Dirhash.trimPrefix (Dirhash.joinPath pfx rel) pfx) = fpJoin d rel := by
  rw [Dirhash.joinPath_cleanRel hp hr, Dirhash.trimPrefix_append]
  exact fpJoin_slash hd hn

end ModVerif.TieFnDirhashDir
