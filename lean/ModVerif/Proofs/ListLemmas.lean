/- small list lemmas about takeWhile / dropWhile / splitOn used by the grammar proofs -/
import ModVerif.Proofs.SemverOrder
namespace ModVerif
open ModVerif.Semver (joinSep joinSep_splitOn splitOn_ne_nil)

theorem all_takeWhile {α} (p : α → Bool) : ∀ l : List α, (l.takeWhile p).all p = true
  | [] => rfl
  | x :: xs => by
    unfold List.takeWhile
    cases h : p x
    · rfl
    · simp [h, all_takeWhile p xs]

theorem dropWhile_head {α} (p : α → Bool) : ∀ (l : List α) (c : α) (r : List α),
    l.dropWhile p = c :: r → p c = false
  | [], c, r, h => by simp at h
  | x :: xs, c, r, h => by
    unfold List.dropWhile at h
    cases hp : p x
    · simp [hp] at h; rw [← h.1]; exact hp
    · simp [hp] at h; exact dropWhile_head p xs c r h

/-- `r` does not start with an element satisfying `p` -/
def NoHead {α} (p : α → Bool) (r : List α) : Prop := ∀ c r', r = c :: r' → p c = false

theorem takeWhile_append_all {α} (p : α → Bool) : ∀ (l r : List α), l.all p = true → NoHead p r →
    (l ++ r).takeWhile p = l
  | [], r, _, hr => by
    cases r with
    | nil => rfl
    | cons c r' => simp [List.takeWhile, hr c r' rfl]
  | x :: xs, r, hl, hr => by
    simp at hl
    simp [List.takeWhile, hl.1]
    exact takeWhile_append_all p xs r (by simpa using hl.2) hr

theorem dropWhile_append_all {α} (p : α → Bool) : ∀ (l r : List α), l.all p = true → NoHead p r →
    (l ++ r).dropWhile p = r
  | [], r, _, hr => by
    cases r with
    | nil => rfl
    | cons c r' => simp [List.dropWhile, hr c r' rfl]
  | x :: xs, r, hl, hr => by
    simp at hl
    simp [List.dropWhile, hl.1]
    exact dropWhile_append_all p xs r (by simpa using hl.2) hr

/-- elements of the pieces of `splitOn sep b` are elements of `b` other than `sep` -/
theorem mem_splitOn (sep : UInt8) : ∀ (b : Bytes) (s : Bytes), s ∈ splitOn sep b → ∀ c ∈ s, c ∈ b ∧ c ≠ sep
  | [], s, hs, c, hc => by
    simp [splitOn] at hs; subst hs; simp at hc
  | x :: rest, s, hs, c, hc => by
    unfold splitOn at hs
    by_cases h : x == sep
    · simp [h] at hs
      rcases hs with rfl | hs
      · simp at hc
      · have := mem_splitOn sep rest s hs c hc
        exact ⟨List.mem_cons_of_mem _ this.1, this.2⟩
    · simp only [h] at hs
      have hx : x ≠ sep := by simpa using h
      cases hsp : splitOn sep rest with
      | nil => exact absurd hsp (splitOn_ne_nil sep rest)
      | cons a as =>
        rw [hsp] at hs
        simp at hs
        rcases hs with rfl | hs
        · simp at hc
          rcases hc with rfl | hc
          · exact ⟨List.mem_cons_self, hx⟩
          · have := mem_splitOn sep rest a (by rw [hsp]; exact List.mem_cons_self) c hc
            exact ⟨List.mem_cons_of_mem _ this.1, this.2⟩
        · have := mem_splitOn sep rest s (by rw [hsp]; exact List.mem_cons_of_mem _ hs) c hc
          exact ⟨List.mem_cons_of_mem _ this.1, this.2⟩

theorem splitOn_noSep (sep : UInt8) : ∀ x : Bytes, sep ∉ x → splitOn sep x = [x]
  | [], _ => rfl
  | c :: cs, hx => by
    have hc : (c == sep) = false := by
      simp; intro e; exact hx (by rw [e]; exact List.mem_cons_self)
    have ih := splitOn_noSep sep cs (fun h => hx (List.mem_cons_of_mem _ h))
    unfold splitOn; simp [hc, ih]

theorem splitOn_noSep_append (sep : UInt8) (t : Bytes) : ∀ x : Bytes, sep ∉ x →
    splitOn sep (x ++ sep :: t) = x :: splitOn sep t
  | [], _ => by simp [splitOn]
  | c :: cs, hx => by
    have hc : (c == sep) = false := by
      simp; intro e; exact hx (by rw [e]; exact List.mem_cons_self)
    have ih := splitOn_noSep_append sep t cs (fun h => hx (List.mem_cons_of_mem _ h))
    simp only [List.cons_append]
    rw [splitOn]; simp [hc, ih]

/-- splitting a join gives back the pieces, when no piece contains the separator -/
theorem splitOn_joinSep (sep : UInt8) : ∀ (ids : List Bytes), ids ≠ [] → (∀ i ∈ ids, sep ∉ i) →
    splitOn sep (joinSep sep ids) = ids
  | [], h, _ => absurd rfl h
  | [x], _, hx => by
    simp only [joinSep]; exact splitOn_noSep sep x (hx x List.mem_cons_self)
  | x :: y :: rest, _, hx => by
    have ih := splitOn_joinSep sep (y :: rest) (by simp) (fun i hi => hx i (List.mem_cons_of_mem _ hi))
    simp only [joinSep]
    rw [splitOn_noSep_append sep _ x (hx x List.mem_cons_self), ih]

end ModVerif
