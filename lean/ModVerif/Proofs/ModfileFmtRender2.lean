/-
  C02 stage 3, part g: the printer on lines, blocks, statement lists and files: `format_eq_rStmts`.
-/
import ModVerif.Proofs.ModfileFmtRender
namespace ModVerif.Proofs.ModfileFmtRender
open ModVerif ModVerif.Modfile ModVerif.Proofs.ModfileFmtUtf8
open ModVerif.Proofs.ModfileFmtTok ModVerif.Proofs.ModfileFmtLex ModVerif.Proofs.ModfileFmtLine
open ModVerif.Proofs.ModfileFmtStream ModVerif.Proofs.ModfileFmtTree ModVerif.Proofs.ModfileFmtTrim

theorem queueSuffix_nil (p : Printer) : p.queueSuffix [] = p := by
  simp [Printer.queueSuffix]

/-- the buffer ends in the middle of a line with a byte after which `newline` writes a newline -/
def MidOK (buf : Bytes) : Prop := ∃ y r, buf = y :: r ∧ OKByte y

theorem MidOK.clean {buf : Bytes} (h : MidOK buf) : Clean1 (10 :: buf) := by
  obtain ⟨y, r, h, hy⟩ := h
  exact ⟨y, r, by rw [h], hy.2.2⟩

theorem midOK_of_lastOK {t : Bytes} (h : LastOK t) (rest : Bytes) : MidOK (t.reverse ++ rest) := by
  obtain ⟨y, r, hr, hy⟩ := h.rev
  exact ⟨y, r ++ rest, by rw [hr]; rfl, hy⟩

theorem newline_midOK {buf : Bytes} (h : MidOK buf) (m : Nat) :
    Printer.newline ⟨buf, [], m⟩ = ⟨tabs m ++ 10 :: buf, [], m⟩ := by
  obtain ⟨y, r, hb, hy⟩ := h
  subst hb
  exact newline_mid y r m hy

/-- one block line (after the newline that ends the previous line) -/
theorem exprLine_blk (l : Line) (allow : Bool) (buf : Bytes) (hm : MidOK buf) (hl : WFBlkLine allow l) :
    Printer.exprLine (Printer.newline ⟨buf, [], 1⟩) l = ⟨(rLineS l).reverse ++ buf, [], 1⟩ ∧
      MidOK ((rLineS l).reverse ++ buf) := by
  have hclean := hm.clean
  obtain ⟨h1, _, _⟩ := emitBefore_eq l.comments.before 1 allow (10 :: buf) hclean.bol
    (prBefore_of_blk _ _ hl.before) (fun _ => hclean)
  have hlast := tokStr_lastOK l.token [] hl.ne hl.tok
  have hr : (rLineS l).reverse ++ buf =
      (tokStr l.token []).reverse ++ (tabs 1 ++ ((rBefore 1 l.comments.before).reverse ++ 10 :: buf)) := by
    simp [rLineS, tabs]
  refine ⟨?_, by rw [hr]; exact midOK_of_lastOK hlast _⟩
  unfold Printer.exprLine
  rw [newline_midOK hm 1, h1, tokens_eq, hl.suffix, queueSuffix_nil, hr]
  rfl

theorem exprLines_eq : ∀ (ls : List Line) (allow : Bool) (buf : Bytes), MidOK buf → WFBlkLines allow ls →
    Printer.exprLines ⟨buf, [], 1⟩ ls = ⟨(ls.flatMap rLineS).reverse ++ buf, [], 1⟩ ∧
      MidOK ((ls.flatMap rLineS).reverse ++ buf) := by
  intro ls
  induction ls with
  | nil => intro _ buf hm _; exact ⟨by simp [Printer.exprLines], by simpa using hm⟩
  | cons l ls ih =>
    intro allow buf hm hwf
    obtain ⟨hl, hls⟩ := hwf
    obtain ⟨h1, h2⟩ := exprLine_blk l allow buf hm hl
    obtain ⟨h3, h4⟩ := ih true _ h2 hls
    have hr : ((l :: ls).flatMap rLineS).reverse ++ buf = (ls.flatMap rLineS).reverse ++ ((rLineS l).reverse ++ buf) := by
      simp
    refine ⟨?_, by rw [hr]; exact h4⟩
    simp only [Printer.exprLines]
    rw [h1, h3, hr]

theorem tabs_zero : tabs 0 = [] := rfl

/-- a block statement, from the beginning of a line at margin 0 -/
theorem exprLineBlock_eq (b : LineBlock) (base : Bytes) (hb : BOL base) (hwf : WFBlock b) :
    Printer.exprLineBlock ⟨base, [], 0⟩ b = ⟨(rBlock b).reverse ++ base, [], 0⟩ ∧
      MidOK ((rBlock b).reverse ++ base) := by
  -- comments before the block
  obtain ⟨h1, hbol1, _⟩ := emitBefore_eq b.comments.before 0 false base hb (prBefore_of_top _ _ hwf.before)
    (by intro h; cases h)
  simp only [tabs_zero, List.nil_append] at h1
  -- header, blank, `(`
  have hhdr := tokStr_lastOK b.token [] hwf.ne hwf.tok
  let buf1 : Bytes := 40 :: 32 :: ((tokStr b.token []).reverse ++ ((rBefore 0 b.comments.before).reverse ++ base))
  have hm1 : MidOK buf1 := ⟨40, _, rfl, by refine ⟨?_, ?_, ?_⟩ <;> decide⟩
  -- the lines
  obtain ⟨h2, hm2⟩ := exprLines_eq b.lines false buf1 hm1 hwf.lines
  -- the newline before `)` and the comments before it
  let buf2 : Bytes := (b.lines.flatMap rLineS).reverse ++ buf1
  have hclean2 : Clean1 (10 :: buf2) := hm2.clean
  obtain ⟨h3, _, _⟩ := emitBefore_eq b.rparen.comments.before 0 (!b.lines.isEmpty) (10 :: buf2) hclean2.bol
    (prBefore_of_blk _ _ hwf.rbefore) (fun _ => hclean2)
  simp only [tabs_zero, List.nil_append] at h3
  have hr : (rBlock b).reverse ++ base = 41 :: ((rBefore 0 b.rparen.comments.before).reverse ++ 10 :: buf2) := by
    simp [rBlock, buf2, buf1]
  refine ⟨?_, by rw [hr]; exact ⟨41, _, rfl, by refine ⟨?_, ?_, ?_⟩ <;> decide⟩⟩
  unfold Printer.exprLineBlock
  simp only [h1, tokens_eq, Printer.exprLParen, hwf.lparen, Printer.exprRParen, hwf.rsuffix, hwf.suffix]
  have e1 : Printer.emitBefore
      (Printer.writeByte (Printer.write ⟨(rBefore 0 b.comments.before).reverse ++ base, [], 0⟩ (tokStr b.token [])) 32)
      ({} : Comments).before =
      ⟨32 :: ((tokStr b.token []).reverse ++ ((rBefore 0 b.comments.before).reverse ++ base)), [], 0⟩ := by
    simp [Printer.emitBefore, Printer.writeByte, Printer.write]
  simp only [e1, queueSuffix_nil]
  have e2 : ({ (Printer.writeByte ⟨32 :: ((tokStr b.token []).reverse ++ ((rBefore 0 b.comments.before).reverse ++ base)), [], 0⟩ 40) with
      margin := (Printer.writeByte ⟨32 :: ((tokStr b.token []).reverse ++ ((rBefore 0 b.comments.before).reverse ++ base)), [], 0⟩ 40).margin + 1 } : Printer) =
      ⟨buf1, [], 1⟩ := rfl
  have e2' : (show Comments from {}).suffix = [] := rfl
  simp only [show (({} : Comments).suffix) = [] from rfl, queueSuffix_nil, e2, h2]
  have e3 : ({ (⟨buf2, [], 1⟩ : Printer) with margin := (⟨buf2, [], 1⟩ : Printer).margin - 1 } : Printer) = ⟨buf2, [], 0⟩ := rfl
  have h3' : Printer.emitBefore ⟨10 :: ((b.lines.flatMap rLineS).reverse ++ buf1), [], 0⟩ b.rparen.comments.before =
      ⟨(rBefore 0 b.rparen.comments.before).reverse ++ 10 :: buf2, [], 0⟩ := h3
  simp only [e3, newline_midOK hm2 0, tabs_zero, List.nil_append, Printer.writeByte, queueSuffix_nil, hr]
  rw [h3']

/-! ### statements and files -/

theorem commentLines_nil (p : Printer) : p.commentLines [] = p := rfl

theorem lastReal_top {cs : List Comment} (hne : cs ≠ []) (h : TopBeforeOK cs) : LastReal cs := by
  cases hl : cs.getLast? with
  | none => simp at hl; exact absurd hl hne
  | some c => exact ⟨c, hl, (commentOK_lastOK (h c (List.mem_of_getLast? hl)).2).1⟩

/-- one statement, including the newline that ends it -/
theorem stmt_eq (s : Expr) (base : Bytes) (hb : BOL base) (hwf : WFStmt s) :
    (match s with
     | .commentBlock x => Printer.exprCommentBlock ⟨base, [], 0⟩ x
     | s => (Printer.expr ⟨base, [], 0⟩ s).newline) = ⟨(rStmt s).reverse ++ base, [], 0⟩ ∧
      Clean1 ((rStmt s).reverse ++ base) ∧ s.comments.after = [] := by
  cases s with
  | commentBlock x =>
    obtain ⟨hne, hbefore, hsuf, haft⟩ := hwf
    obtain ⟨h1, _, h3⟩ := emitBefore_eq x.comments.before 0 false base hb (prBefore_of_top _ _ hbefore)
      (by intro h; cases h)
    simp only [tabs_zero, List.nil_append] at h1
    refine ⟨?_, h3 (lastReal_top hne hbefore), haft⟩
    simp only [Printer.exprCommentBlock, h1, hsuf, queueSuffix_nil, rStmt]
  | line l =>
    have hwf : WFLine l := hwf
    obtain ⟨h1, _, _⟩ := emitBefore_eq l.comments.before 0 false base hb (prBefore_of_top _ _ hwf.before)
      (by intro h; cases h)
    simp only [tabs_zero, List.nil_append] at h1
    have hlast := tokStr_lastOK l.token [] hwf.ne hwf.tok
    have hm : MidOK ((tokStr l.token []).reverse ++ ((rBefore 0 l.comments.before).reverse ++ base)) :=
      midOK_of_lastOK hlast _
    have hr : (rStmt (.line l)).reverse ++ base =
        10 :: ((tokStr l.token []).reverse ++ ((rBefore 0 l.comments.before).reverse ++ base)) := by
      simp [rStmt]
    refine ⟨?_, by rw [hr]; exact hm.clean, hwf.after⟩
    simp only [Printer.expr, Printer.exprLine, h1, tokens_eq, hwf.suffix, queueSuffix_nil, Printer.write]
    rw [newline_midOK hm 0, hr]
    rfl
  | lineBlock b =>
    have hwf : WFBlock b := hwf
    obtain ⟨h1, hm⟩ := exprLineBlock_eq b base hb hwf
    have hr : (rStmt (.lineBlock b)).reverse ++ base = 10 :: ((rBlock b).reverse ++ base) := by
      simp [rStmt]
    refine ⟨?_, by rw [hr]; exact hm.clean, hwf.after⟩
    simp only [Printer.expr, h1]
    rw [newline_midOK hm 0, hr]
    rfl
  | lparen x => exact absurd hwf id
  | rparen x => exact absurd hwf id

theorem stmts_eq : ∀ (ss : List Expr) (base : Bytes), BOL base → WFStmts ss →
    Printer.stmts ⟨base, [], 0⟩ ss = ⟨(rStmts ss).reverse ++ base, [], 0⟩ ∧
      (ss ≠ [] → Clean1 ((rStmts ss).reverse ++ base)) := by
  intro ss
  induction ss with
  | nil => intro base _ _; exact ⟨by simp [Printer.stmts, rStmts], fun h => absurd rfl h⟩
  | cons s rest ih =>
    intro base hb hwf
    obtain ⟨h1, hc1, haft⟩ := stmt_eq s base hb (hwf s (by simp))
    cases rest with
    | nil =>
      refine ⟨?_, fun _ => by simpa [rStmts] using hc1⟩
      unfold Printer.stmts
      simp only [haft, commentLines_nil, List.isEmpty_nil, if_true, Printer.stmts, rStmts]
      exact h1
    | cons r rs =>
      have hsep : Printer.newline ⟨(rStmt s).reverse ++ base, [], 0⟩ = ⟨10 :: ((rStmt s).reverse ++ base), [], 0⟩ := by
        have := newline_bol 0 0 _ hc1
        simpa [tabs_zero] using this
      obtain ⟨h2, hc2⟩ := ih (10 :: ((rStmt s).reverse ++ base)) (Or.inr ⟨_, rfl⟩) (fun x h => hwf x (by simp [h]))
      have hr : (rStmts (s :: r :: rs)).reverse ++ base = (rStmts (r :: rs)).reverse ++ 10 :: ((rStmt s).reverse ++ base) := by
        simp [rStmts]
      refine ⟨?_, fun _ => by rw [hr]; exact hc2 (by simp)⟩
      conv => lhs; unfold Printer.stmts
      simp only [haft, commentLines_nil, List.isEmpty_cons, Bool.false_eq_true, if_false, hr]
      exact (congrArg (fun p => (Printer.newline p).stmts (r :: rs)) h1).trans (by rw [hsep, h2])

/-- ★ What `Format` prints for a well-shaped tree without header comments: `rStmts`. -/
theorem format_eq_rStmts (f : FileSyntax) (hwf : WFStmts f.stmts) (hc : f.comments.before = []) :
    format f = rStmts f.stmts := by
  obtain ⟨h1, h2⟩ := stmts_eq f.stmts [] (Or.inl rfl) hwf
  unfold format Printer.file
  simp only [hc, commentLines_nil]
  have : (({} : Printer)) = ⟨[], [], 0⟩ := rfl
  rw [this, h1]
  simp only [List.append_nil]
  rw [ModfilePrint.trimTrailingBlank_of_not_blank]
  · simp
  · by_cases hne : f.stmts = []
    · simp [hne, rStmts, ModfilePrint.EndsBlankRev]
    · obtain ⟨y, r, hr, hy⟩ := h2 hne
      simp only [List.append_nil] at hr
      rw [hr]
      unfold ModfilePrint.EndsBlankRev
      split
      · rename_i heq; simp at heq
      · rename_i heq
        simp only [List.cons.injEq, true_and] at heq
        exact absurd heq.1 hy
      · exact id

end ModVerif.Proofs.ModfileFmtRender
