/-
  Tie proof, zip/zip.go `checkFiles` (Generated/FnZip.lean) against the hand model `Zip.checkFilesSt` (Model/Zip.lean):
  the representation of the model's state as the variables of the generated code, and the hoisted closure `addError`.

  * errors: a model `Reason` is the message text `reasonText r` (inverse of the driver's `Drv.GenZip.reasonOf`; on the three
    collision reasons it is tie-zip's `errText`, the `fmt.Errorf` literal);
  * `errPaths : map[string]struct{}` is the association list `epOf l` of the model's list `St.errPaths` (first reports, in
    order; the model never lists a path twice);
  * `haveGoMod : map[string]bool` is `hgOf l`: the model's list `Pre.haveGoMod` (which may repeat a directory) inserted
    key by key with value `true`;
  * `collisions` is tie-zip's `ofCC`; `cf` is `embCF`; `validFiles` is the model's list through the driver's `toGFile`.
-/
import ModVerif.Generated.FnZip
import ModVerif.Model.Zip
import ModVerif.Drv.GenZip
import ModVerif.Proofs.GoRtLemmas
import ModVerif.Proofs.GoRtLemmasZip
import ModVerif.Proofs.TieFnZipCC
namespace ModVerif.TieFnZipCf
open ModVerif ModVerif.GoRt ModVerif.GoRtZip ModVerif.TieFnZip
open ModVerif.Generated.Zip (pathInfo File FileError CheckedFiles)
open ModVerif.Drv.GenZip (toGFile modeBits)

/-! ### representation -/

/-- the message text of a reason as the generated code carries it (sentinel errors by their Go names, `CheckFilePath` and
    `Lstat` errors as the driver instantiates them, collisions by their format literal) -/
def reasonText : Zip.Reason → String
  | .notClean => "errPathNotClean"
  | .notRelative => "errPathNotRelative"
  | .vendored => "errVendored"
  | .submoduleFile => "errSubmoduleFile"
  | .hgArchival => "errHgArchivalTxt"
  | .filePath => "filepath"
  | .goModCase => "errGoModCase"
  | .lstat => "lstat"
  | .caseCollision => "case-insensitive file name collision: %q and %q"
  | .fileAndDir => "entry %q is both a file and a directory"
  | .multiple => "multiple entries for file %q"
  | .symlink => "errSymlink"
  | .notRegular => "errNotRegular"
  | .goModSize => "errGoModSize"
  | .licenseSize => "errLICENSESize"
  | .vcs => "vcs"
  | .submoduleDir => "submoduleDir"
  | .noPrefix => "noPrefix"
  | .goModNotRoot => "goModNotRoot"
  | .panic => "panic"

/-- the driver's short name of a reason (what `Drv/Zip.lean` prints for the model) -/
def reasonShort : Zip.Reason → String
  | .notClean => "notclean" | .notRelative => "notrelative" | .vendored => "vendored"
  | .submoduleFile => "submodulefile" | .hgArchival => "hgarchival" | .filePath => "filepath"
  | .goModCase => "gomodcase" | .lstat => "lstat" | .caseCollision => "casecollision"
  | .fileAndDir => "fileanddir" | .multiple => "multiple" | .symlink => "symlink" | .notRegular => "notregular"
  | .goModSize => "gomodsize" | .licenseSize => "licensesize"
  | .vcs => "unknown:vcs" | .submoduleDir => "unknown:submoduleDir" | .noPrefix => "unknown:noPrefix"
  | .goModNotRoot => "unknown:goModNotRoot" | .panic => "unknown:panic"

/-- `reasonText` is a right inverse of the driver's `reasonOf` -/
theorem reasonOf_reasonText (r : Zip.Reason) : Drv.GenZip.reasonOf (reasonText r) = reasonShort r := by
  cases r <;> decide +kernel

theorem reasonText_injective : ∀ a b : Zip.Reason, reasonText a = reasonText b → a = b := by
  intro a b h
  cases a <;> cases b <;> first | rfl | (exact absurd h (by decide +kernel))

def embFE (e : Bytes × Zip.Reason) : FileError := { Path := e.1, Err := some (reasonText e.2) }

/-- the literal of `fmt.Errorf("module source tree too large (max size is %d bytes)", MaxZipFile)` -/
def sizeErrorText : String := "module source tree too large (max size is %d bytes)"

/-- the model's report as the generated `CheckedFiles` -/
def embCF (cf : Zip.CheckedFiles) : CheckedFiles :=
  { Valid := cf.valid, Omitted := cf.omitted.map embFE, Invalid := cf.invalid.map embFE,
    SizeError := if cf.sizeError then some sizeErrorText else none }

/-- the set `errPaths` as an association list -/
def epOf (l : List Bytes) : List (Bytes × Unit) := l.map (fun p => (p, ()))

/-- the map `haveGoMod`: the model's list inserted key by key -/
def hgOf (l : List Bytes) : List (Bytes × Bool) := l.foldl (fun m d => mapSet m d true) []

/-- the final state of the model as the triple `checkFiles` returns -/
def embedCf (s : Zip.St) : CheckedFiles × List File × List Int :=
  (embCF s.cf, s.validFiles.map toGFile, s.validFiles.map (·.size))

theorem embCF_default : embCF {} = (default : CheckedFiles) := rfl

/-! ### association lists -/

theorem find_epOf (l : List Bytes) (k : Bytes) :
    (epOf l).find? (fun q => decide (q.1 = k)) = if l.contains k then some (k, ()) else none := by
  induction l with
  | nil => rfl
  | cons x t ih =>
    simp only [epOf, List.map_cons, List.find?_cons, List.contains_cons]
    by_cases h : x = k
    · subst h; simp
    · have h' : (k == x) = false := by
        rw [beq_eq_false_iff_ne]; exact fun e => h e.symm
      simp only [h, decide_false, h', Bool.false_or]
      exact ih

theorem mapGet_epOf (l : List Bytes) (k : Bytes) : (mapGet (epOf l) k ()).2 = l.contains k := by
  unfold mapGet
  rw [find_epOf]
  cases l.contains k <;> rfl

theorem mapSet_epOf (l : List Bytes) (k : Bytes) (h : l.contains k = false) :
    mapSet (epOf l) k () = epOf (l ++ [k]) := by
  rw [mapSet_none]
  · simp [epOf]
  · rw [find_epOf, h]; rfl

/-- values of a `haveGoMod` map are all `true` -/
def AllTrue (m : List (Bytes × Bool)) : Prop := ∀ q ∈ m, q.2 = true

theorem mapSet_true_allTrue (m : List (Bytes × Bool)) (k : Bytes) (h : AllTrue m) : AllTrue (mapSet m k true) := by
  unfold mapSet
  split
  · intro q hq
    obtain ⟨q', hq', rfl⟩ := List.mem_map.mp hq
    split
    · rfl
    · exact h q' hq'
  · intro q hq
    rcases List.mem_append.mp hq with hq | hq
    · exact h q hq
    · simp at hq; subst hq; rfl

theorem find_map_upd (k d : Bytes) : ∀ m : List (Bytes × Bool),
    ((m.map (fun p => if p.1 = k then (k, true) else p)).find? (fun q => decide (q.1 = d))).isSome =
      (m.find? (fun q => decide (q.1 = d))).isSome
  | [] => rfl
  | p :: m => by
    simp only [List.map_cons, List.find?_cons]
    by_cases hp : p.1 = k
    · simp only [hp, if_true]
      by_cases hk : k = d
      · simp [hk]
      · simp only [hk, decide_false]; exact find_map_upd k d m
    · simp only [hp, if_false]
      by_cases hd : p.1 = d
      · simp [hd]
      · simp only [hd, decide_false]; exact find_map_upd k d m

/-- membership in the map after `m[k] = true` -/
theorem mapSet_find_isSome (m : List (Bytes × Bool)) (k d : Bytes) :
    ((mapSet m k true).find? (fun q => decide (q.1 = d))).isSome =
      ((m.find? (fun q => decide (q.1 = d))).isSome || decide (k = d)) := by
  unfold mapSet
  split
  · rename_i hf
    rw [find_map_upd]
    by_cases hk : k = d
    · subst hk; simp [hf]
    · simp [hk]
  · rw [List.find?_append]
    cases hm : m.find? (fun q => decide (q.1 = d)) with
    | some q => simp
    | none =>
      simp only [Option.none_or, List.find?_cons, List.find?_nil, Option.isSome_none, Bool.false_or]
      by_cases hk : k = d <;> simp [hk]

theorem hgOf_append (l : List Bytes) (d : Bytes) : hgOf (l ++ [d]) = mapSet (hgOf l) d true := by
  simp [hgOf, List.foldl_append]

theorem hgFold_allTrue : ∀ (l : List Bytes) (m : List (Bytes × Bool)), AllTrue m →
    AllTrue (l.foldl (fun m d => mapSet m d true) m)
  | [], _, h => h
  | k :: l, m, h => hgFold_allTrue l _ (mapSet_true_allTrue m k h)

theorem hgOf_allTrue (l : List Bytes) : AllTrue (hgOf l) :=
  hgFold_allTrue l [] (fun q hq => by cases hq)

theorem hgFold_find (d : Bytes) : ∀ (l : List Bytes) (m : List (Bytes × Bool)),
    ((l.foldl (fun m d => mapSet m d true) m).find? (fun q => decide (q.1 = d))).isSome =
      ((m.find? (fun q => decide (q.1 = d))).isSome || l.contains d)
  | [], m => by simp
  | k :: l, m => by
    rw [List.foldl_cons, hgFold_find d l, mapSet_find_isSome, List.contains_cons, Bool.or_assoc]
    congr 1
    by_cases hk : k = d
    · subst hk; simp
    · have : (d == k) = false := by rw [beq_eq_false_iff_ne]; exact fun e => hk e.symm
      simp [hk, this]

theorem hgOf_find (l : List Bytes) (d : Bytes) :
    ((hgOf l).find? (fun q => decide (q.1 = d))).isSome = l.contains d := by
  unfold hgOf
  rw [hgFold_find]; simp

/-- `haveGoMod[dir]` on the map built by the first loop is membership in the model's list -/
theorem mapGet_hgOf (l : List Bytes) (d : Bytes) : (mapGet (hgOf l) d false).1 = l.contains d := by
  rw [← hgOf_find]
  unfold mapGet
  cases h : (hgOf l).find? (fun q => decide (q.1 = d)) with
  | none => rfl
  | some q =>
    have := hgOf_allTrue l q (List.mem_of_find?_eq_some h)
    simp [this]

/-! ### the closure `addError` -/

section addError
variable (cfp : Bytes → Option String) (ef : Bytes → Bytes → Bool) (pgv : Bytes → Bytes → Bytes) (sf : Int → Int)
  (tl : Bytes → Bytes) (vc : Bytes → Bytes → Int) (vl : Bytes → Bytes)

@[simp] theorem addError_cc (s : Zip.St) (p : Bytes) (o : Bool) (r : Zip.Reason) : (s.addError p o r).cc = s.cc := by
  unfold Zip.St.addError; split
  · rfl
  · split <;> rfl

@[simp] theorem addError_maxSize (s : Zip.St) (p : Bytes) (o : Bool) (r : Zip.Reason) :
    (s.addError p o r).maxSize = s.maxSize := by
  unfold Zip.St.addError; split
  · rfl
  · split <;> rfl

@[simp] theorem addError_validFiles (s : Zip.St) (p : Bytes) (o : Bool) (r : Zip.Reason) :
    (s.addError p o r).validFiles = s.validFiles := by
  unfold Zip.St.addError; split
  · rfl
  · split <;> rfl

/-- the closure `addError` is `St.addError`: the captured variables `errPaths` and `cf` go in and come out -/
theorem addError_eq (fuel : Nat) (vf : List File) (vs : List Int) (s : Zip.St) (path : Bytes) (omitted : Bool)
    (r : Zip.Reason) :
    Generated.Zip.checkFiles_addError cfp ef pgv sf tl vc vl fuel vf vs path omitted (some (reasonText r))
        (epOf s.errPaths) (embCF s.cf) =
      .ok ((), epOf (s.addError path omitted r).errPaths, embCF (s.addError path omitted r).cf) := by
  unfold Generated.Zip.checkFiles_addError Zip.St.addError
  have hg := mapGet_epOf s.errPaths path
  cases hc : s.errPaths.contains path with
  | true =>
    rw [hc] at hg
    simp only [hg, if_true]
    rfl
  | false =>
    rw [hc] at hg
    simp only [hg, Bool.false_eq_true, if_false, mapSet_epOf _ _ hc]
    cases omitted with
    | true => simp [embCF, embFE, pure, Except.pure]
    | false => simp [embCF, embFE, pure, Except.pure]

end addError

end ModVerif.TieFnZipCf
