/-
  C02 stage 2, part b: an argument that `AutoQuote` leaves unquoted is ONE identifier token (or a lone
  bracket / comma).  Links `Utf8.runes` (skip-counter recursion) to the `decodeRune`/`drop` recursion of
  `IdentBody`, and `GoStrings.contains` to prefix tests at every offset.
-/
import ModVerif.Model.Modfile.Rule
import ModVerif.Proofs.ModfileFmtQuoteTable
namespace ModVerif.Proofs.ModfileFmtQuote
open ModVerif ModVerif.Modfile ModVerif.Proofs.ModfileLex ModVerif.Proofs.ModfileFmtUtf8
open ModVerif.Proofs.ModfileFmtTok ModVerif.Proofs.ModfileFmtLex

/-! ### `Utf8.runes` as a `decodeRune` / `drop` recursion -/

theorem runesAux_eq_drop : ∀ (k : Nat) (s : Bytes), Utf8.runesAux k s = Utf8.runes (s.drop k) := by
  intro k
  induction k with
  | zero => intro s; rfl
  | succ n ih =>
    intro s
    cases s with
    | nil => rfl
    | cons b t => simp only [Utf8.runesAux, List.drop_succ_cons]; exact ih t

/-- the rune loop of `range s`: decode the head, skip its width -/
theorem runes_step (s : Bytes) (hs : s ≠ []) :
    Utf8.runes s = (Utf8.decodeRune s).1 :: Utf8.runes (s.drop (Utf8.decodeRune s).2) := by
  cases s with
  | nil => exact absurd rfl hs
  | cons b t =>
    have hw := (decodeRune_width (b :: t) hs).1
    show Utf8.runesAux 0 (b :: t) = _
    simp only [Utf8.runesAux, runesAux_eq_drop]
    obtain ⟨n, hn⟩ : ∃ n, (Utf8.decodeRune (b :: t)).2 = n + 1 := ⟨(Utf8.decodeRune (b :: t)).2 - 1, by omega⟩
    rw [hn]
    simp

example : Utf8.runes [97, 98] = (Utf8.decodeRune [97, 98]).1 :: Utf8.runes ([97, 98].drop (Utf8.decodeRune [97, 98]).2) :=
  runes_step _ (by simp)

/-! ### `strings.Contains` and prefix tests -/

theorem isPrefixOfB_nil_false {sub : Bytes} (h : sub ≠ []) : isPrefixOfB sub [] = false := by
  cases sub with
  | nil => exact absurd rfl h
  | cons a as => rfl

theorem indexAux_none {sub : Bytes} : ∀ (s : Bytes) (i : Nat), GoStrings.indexAux sub s i = none →
    ∀ k, isPrefixOfB sub (s.drop k) = false := by
  intro s
  induction s with
  | nil =>
    intro i h k
    simp only [GoStrings.indexAux] at h
    split at h
    · cases h
    · rename_i he
      simp only [List.drop_nil]
      exact isPrefixOfB_nil_false (by intro hh; subst hh; simp at he)
  | cons c rest ih =>
    intro i h k
    simp only [GoStrings.indexAux] at h
    split at h
    · cases h
    · rename_i hp
      cases k with
      | zero => simpa using hp
      | succ n => simp only [List.drop_succ_cons]; exact ih (i + 1) h n

/-- `strings.Contains(s, sub)` is false: `sub` is a prefix at no offset -/
theorem contains_false {s sub : Bytes} (h : GoStrings.contains s sub = false) :
    ∀ k, isPrefixOfB sub (s.drop k) = false := by
  apply indexAux_none s 0
  unfold GoStrings.contains GoStrings.index at h
  cases hh : GoStrings.indexAux sub s 0 with
  | none => rfl
  | some v => rw [hh] at h; cases h

example : GoStrings.contains [97, 47, 98] [47, 47] = false := by decide

/-! ### identifier bodies from rune-wise facts -/

theorem identBody_of_runes : ∀ (n : Nat) (s : Bytes), s.length ≤ n →
    (∀ r ∈ Utf8.runes s, isIdent r = true) →
    (∀ k, isPrefixOfB [47, 47] (s.drop k) = false) →
    (∀ k, isPrefixOfB [47, 42] (s.drop k) = false) → IdentBody s := by
  intro n
  induction n with
  | zero =>
    intro s hl _ _ _
    have : s = [] := List.eq_nil_of_length_eq_zero (by omega)
    subst this; exact .nil
  | succ n ih =>
    intro s hl hr h1 h2
    by_cases hs : s = []
    · subst hs; exact .nil
    · have hw := decodeRune_width s hs
      rw [runes_step s hs] at hr
      refine .cons hs (hr _ (by simp)) (by simpa using h1 0) (by simpa using h2 0) ?_
      apply ih
      · simp only [List.length_drop]; omega
      · intro r hmem; exact hr r (by simp [hmem])
      · intro k; simpa [List.drop_drop, Nat.add_comm] using h1 ((Utf8.decodeRune s).2 + k)
      · intro k; simpa [List.drop_drop, Nat.add_comm] using h2 ((Utf8.decodeRune s).2 + k)

example : (∀ r ∈ Utf8.runes [97], isIdent r = true) := by decide

/-! ### the rune loop of `MustQuote` -/

theorem mustQuoteRunes_false {len : Nat} : ∀ (rs : List Nat), mustQuoteRunes len rs = false →
    ∀ r ∈ rs, mustQuoteAlways.contains r = false ∧ (mustQuoteIfLong.contains r = true → len ≤ 1) ∧
      UnicodePrint.isPrint r = true := by
  intro rs
  induction rs with
  | nil => intro _ r hr; simp at hr
  | cons a rest ih =>
    intro h r hr
    unfold mustQuoteRunes at h
    split at h
    · cases h
    · rename_i ha
      split at h
      · rename_i hl
        split at h
        · cases h
        · rename_i hlen
          rcases List.mem_cons.1 hr with rfl | hmem
          · refine ⟨by simpa using ha, fun _ => by omega, ?_⟩
            revert hl
            simp only [mustQuoteIfLong, List.contains_cons, List.contains_nil, Bool.or_false, Bool.or_eq_true, beq_iff_eq]
            intro hl
            rcases hl with h | h | h | h | h | h | h <;> subst h <;> decide
          · exact ih h r hmem
      · rename_i hl
        split at h
        · cases h
        · rename_i hp
          rcases List.mem_cons.1 hr with rfl | hmem
          · exact ⟨by simpa using ha, fun hh => absurd hh hl, by simpa using hp⟩
          · exact ih h r hmem

example : mustQuoteRunes 2 [97, 98] = false := by decide

/-- what `MustQuote(s) = false` says -/
theorem mustQuote_false {s : Bytes} (h : mustQuote s = false) :
    mustQuoteRunes s.length (Utf8.runes s) = false ∧ s ≠ [] ∧
    GoStrings.contains s [47, 47] = false ∧ GoStrings.contains s [47, 42] = false := by
  unfold mustQuote at h
  simp only [Bool.or_eq_false_iff] at h
  obtain ⟨⟨⟨h1, h2⟩, h3⟩, h4⟩ := h
  refine ⟨h1, ?_, h3, h4⟩
  intro hs; subst hs; simp at h2

example : mustQuote [97, 47, 98] = false := by decide

/-- ★ an argument that needs no quotes and is not a lone bracket / comma is ONE identifier token -/
theorem autoQuote_unquoted_ident {s : Bytes} (h : mustQuote s = false) (hp : ∀ c ∈ punctBytes, s ≠ [c]) :
    TokOK .ident s := by
  obtain ⟨hr, hne, h1, h2⟩ := mustQuote_false h
  have hall := mustQuoteRunes_false _ hr
  have hid : ∀ r ∈ Utf8.runes s, isIdent r = true := by
    intro r hmem
    obtain ⟨ha, hl, hpr⟩ := hall r hmem
    apply isIdent_of_print hpr
    intro hx
    simp only [List.mem_cons, List.not_mem_nil, or_false] at hx
    rcases hx with hx | hx
    · subst hx; revert ha; decide
    · have hlong : mustQuoteIfLong.contains r = true := by
        rcases hx with h | h | h | h | h | h | h <;> subst h <;> decide
      have hlen := hl hlong
      -- `s` is one byte
      cases s with
      | nil => exact absurd rfl hne
      | cons b t =>
        have ht : t = [] := List.eq_nil_of_length_eq_zero (by simp only [List.length_cons] at hlen; omega)
        subst ht
        rw [runes_step [b] (by simp)] at hmem
        have hw := decodeRune_width [b] (by simp)
        have hd : [b].drop (Utf8.decodeRune [b]).2 = [] := by
          apply List.drop_of_length_le; simp; omega
        rw [hd] at hmem
        simp only [Utf8.runes, Utf8.runesAux, List.mem_cons, List.not_mem_nil, or_false] at hmem
        have hlt : (Utf8.decodeRune [b]).1 < 0x80 := by
          rw [← hmem]
          rcases hx with h | h | h | h | h | h | h <;> subst h <;> decide
        obtain ⟨b', t', heq, hb', _⟩ := ascii_rune_head (s := [b]) (by simp) hlt
        simp only [List.cons.injEq] at heq
        obtain ⟨rfl, _⟩ := heq
        rw [← hmem] at hb'
        apply hp b ?_ rfl
        have : b = UInt8.ofNat r := by
          apply UInt8.toNat_inj.1
          rw [hb']
          rcases hx with h | h | h | h | h | h | h <;> subst h <;> rfl
        subst this
        rcases hx with h | h | h | h | h | h | h <;> subst h <;> decide
  refine .ident s hne (identBody_of_runes s.length s (Nat.le_refl _) hid (contains_false h1) (contains_false h2)) ?_
  have hmem : (Utf8.decodeRune s).1 ∈ Utf8.runes s := by rw [runes_step s hne]; simp
  have ha := (hall _ hmem).1
  cases hq : quoteRunes.contains (Utf8.decodeRune s).1 with
  | false => rfl
  | true =>
    exfalso
    simp only [quoteRunes, List.contains_cons, List.contains_nil, Bool.or_false, Bool.or_eq_true, beq_iff_eq] at hq
    rcases hq with hq | hq <;> rw [hq] at ha <;> revert ha <;> decide

example : mustQuote [97, 47, 98] = false ∧ ∀ c ∈ punctBytes, ([97, 47, 98] : Bytes) ≠ [c] := by decide

/-- ★ an argument that needs no quotes is ONE token: an identifier, or a lone bracket / comma -/
theorem autoQuote_unquoted {s : Bytes} (h : mustQuote s = false) :
    TokOK .ident s ∨ ∃ c, c ∈ punctBytes ∧ s = [c] := by
  by_cases hp : ∀ c ∈ punctBytes, s ≠ [c]
  · exact Or.inl (autoQuote_unquoted_ident h hp)
  · right
    obtain ⟨c, hp⟩ := Classical.not_forall.1 hp
    obtain ⟨hc, hs⟩ := Classical.not_imp.1 hp
    have hs := Classical.not_not.1 hs
    exact ⟨c, hc, hs⟩

example : mustQuote [40] = false := by decide

end ModVerif.Proofs.ModfileFmtQuote
