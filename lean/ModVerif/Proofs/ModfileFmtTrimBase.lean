/-
  C02: algebra of `GoStrings.trimSpace`, part a: the building blocks.

  * `NoContStart z`: `z` is empty or does not start with a UTF-8 continuation byte; decoding a non-empty
    string in front of such a context is the same as decoding it alone (`decodeRune_append_ncs`).
  * `SpaceSeq z`: `z` is a concatenation of well-formed encodings of white-space runes.
  * `decodeLast_cases`: what `decodeLastRuneRev` returns.
  * `forward_width`: the width of a FORWARD decode at the start of the rune found by the backward decode,
    in front of a `NoContStart` context, is the size the backward decode reported.
-/
import ModVerif.Basic.GoStrings
import ModVerif.Proofs.ModfileLex
import ModVerif.Proofs.ModfileFmtUtf8
namespace ModVerif.Proofs.ModfileFmtTrim
open ModVerif ModVerif.GoStrings ModVerif.Proofs.ModfileLex ModVerif.Proofs.ModfileFmtUtf8

/-! ### continuation bytes -/

/-- a well-formed sequence does not start with a continuation byte -/
theorem decode_head_not_cont {b : UInt8} {t : Bytes} {r w : Nat}
    (h : Utf8.decode (b :: t) = some (r, w)) : Utf8.isCont b = false := by
  unfold Utf8.decode at h
  simp only at h
  repeat' split at h
  all_goals first
    | (simp at h; done)
    | (simp [Utf8.isCont]; omega)

/-- the second byte of a multi-byte sequence is a continuation byte -/
theorem decode_second_cont {b0 b1 : UInt8} {t : Bytes} {r w : Nat}
    (h : Utf8.decode (b0 :: b1 :: t) = some (r, w)) (hw : 1 < w) : Utf8.isCont b1 = true := by
  unfold Utf8.decode at h
  simp only at h
  repeat' split at h
  all_goals first
    | (simp at h; done)
    | (simp only [Option.some.injEq, Prod.mk.injEq] at h
       obtain ⟨_, rfl⟩ := h
       simp_all [Utf8.isCont, Utf8.inRange] <;> omega)

/-- every byte of a well-formed sequence after the first is a continuation byte -/
theorem decode_tail_cont {b0 : UInt8} {t : Bytes} {r w : Nat}
    (h : Utf8.decode (b0 :: t) = some (r, w)) : ∀ c ∈ t.take (w - 1), Utf8.isCont c = true := by
  unfold Utf8.decode at h
  simp only at h
  repeat' split at h
  all_goals first
    | (simp at h; done)
    | (simp only [Option.some.injEq, Prod.mk.injEq] at h
       obtain ⟨_, rfl⟩ := h
       simp_all [Utf8.isCont, Utf8.inRange] <;> omega)

/-- a lone non-ASCII byte is ill-formed -/
theorem decode_single_nonascii (b : UInt8) (hb : 0x80 ≤ b.toNat) : Utf8.decode [b] = none := by
  unfold Utf8.decode
  simp only
  repeat' split
  all_goals first
    | rfl
    | omega

/-- the context is empty or does not start with a continuation byte -/
def NoContStart (z : Bytes) : Prop := ∀ b ∈ z.head?, Utf8.isCont b = false

theorem noContStart_nil : NoContStart [] := by intro b h; simp at h

theorem noContStart_cons {b : UInt8} {t : Bytes} (h : Utf8.isCont b = false) : NoContStart (b :: t) := by
  intro c hc; simp at hc; subst hc; exact h

/-- a non-ASCII byte in front of a `NoContStart` context decodes with width 1 -/
theorem decodeRune_single_width (b : UInt8) (z : Bytes) (hb : 0x80 ≤ b.toNat) (hz : NoContStart z) :
    (Utf8.decodeRune (b :: z)).2 = 1 := by
  unfold Utf8.decodeRune
  cases h : Utf8.decode (b :: z) with
  | none => rfl
  | some rw =>
    obtain ⟨r, w⟩ := rw
    exfalso
    have hg := decode_rune_ge h
    have hw := decode_width h
    by_cases h1 : w = 1
    · obtain ⟨b', t', heq, hlt, _⟩ := hg.2 h1
      simp only [List.cons.injEq] at heq
      obtain ⟨rfl, _⟩ := heq
      omega
    · cases z with
      | nil => simp at hw; omega
      | cons b1 t =>
        have := decode_second_cont h (by omega)
        rw [hz b1 (by simp)] at this
        cases this

/-- a well-formed decode of `a ++ z` (`a` non-empty, `z` not starting with a continuation byte) stays
    inside `a` -/
theorem decode_within {a z : Bytes} {r w : Nat} (ha : a ≠ []) (hz : NoContStart z)
    (h : Utf8.decode (a ++ z) = some (r, w)) : w ≤ a.length := by
  cases a with
  | nil => exact absurd rfl ha
  | cons b0 t =>
    by_cases hle : w ≤ (b0 :: t).length
    · exact hle
    · exfalso
      have hlen := (decode_width h).2
      cases z with
      | nil => simp at hlen hle; omega
      | cons b1 z' =>
        have hc := decode_tail_cont (t := t ++ b1 :: z') (by simpa using h) b1 (by
          simp only [List.length_cons] at hle
          rw [List.take_append]
          have : List.take (w - 1) t = t := List.take_of_length_le (by omega)
          rw [this]
          obtain ⟨k, hk⟩ : ∃ k, w - 1 - t.length = k + 1 := ⟨w - 1 - t.length - 1, by omega⟩
          rw [hk]; simp)
        rw [hz b1 (by simp)] at hc
        cases hc

/-- decoding a non-empty string in front of a `NoContStart` context = decoding it alone -/
theorem decodeRune_append_ncs (a z : Bytes) (ha : a ≠ []) (hz : NoContStart z) :
    Utf8.decodeRune (a ++ z) = Utf8.decodeRune a := by
  unfold Utf8.decodeRune
  cases h1 : Utf8.decode (a ++ z) with
  | some rw =>
    obtain ⟨r, w⟩ := rw
    have hw := decode_within ha hz h1
    have := decode_ctx_some (r2 := []) h1 hw
    simp only [List.append_nil] at this
    rw [this]
  | none =>
    cases h2 : Utf8.decode a with
    | none => rfl
    | some rw =>
      exfalso
      obtain ⟨r, w⟩ := rw
      have hw := (decode_width h2).2
      have := decode_ctx_some (a := a) (r1 := []) (r2 := z) (by simpa using h2) hw
      rw [this] at h1
      cases h1

/-! ### sequences of white-space encodings -/

/-- a concatenation of well-formed encodings of white-space runes -/
inductive SpaceSeq : Bytes → Prop
  | nil : SpaceSeq []
  | cons (seg t : Bytes) (r : Nat) (hd : Utf8.decode seg = some (r, seg.length))
      (hs : UnicodePrint.isSpace r = true) (ht : SpaceSeq t) : SpaceSeq (seg ++ t)

/-- the first rune of a non-empty `SpaceSeq`, decoded forwards, is a white-space rune -/
theorem SpaceSeq.first_space {z : Bytes} (h : SpaceSeq z) (hz : z ≠ []) :
    UnicodePrint.isSpace (Utf8.decodeRune z).1 = true := by
  cases h with
  | nil => exact absurd rfl hz
  | cons seg t r hd hs ht =>
    have := decode_take hd t
    rw [List.take_length] at this
    unfold Utf8.decodeRune
    rw [this]
    exact hs

theorem SpaceSeq.noContStart {z : Bytes} (h : SpaceSeq z) : NoContStart z := by
  cases h with
  | nil => exact noContStart_nil
  | cons seg t r hd hs ht =>
    cases seg with
    | nil => simp [Utf8.decode] at hd
    | cons b s' =>
      exact noContStart_cons (decode_head_not_cont hd)

/-- an ASCII byte at the head of a `SpaceSeq` is an ASCII white-space byte -/
theorem SpaceSeq.head_ascii {b : UInt8} {t : Bytes} (h : SpaceSeq (b :: t)) (hb : b.toNat < 0x80) :
    UnicodePrint.isSpace b.toNat = true := by
  have := h.first_space (by simp)
  rw [decodeRune_ascii b t hb] at this
  exact this

/-! ### the backward decode -/

/-- What `decodeLastRuneRev` returns on a non-empty reversed string: an ASCII byte; or `RuneError` of
    size 1 at a non-ASCII last byte; or a well-formed sequence of exactly `size` bytes at the end. -/
theorem decodeLast_cases (b0 : UInt8) (rest : Bytes) :
    (b0.toNat < 0x80 ∧ decodeLastRuneRev (b0 :: rest) = (b0.toNat, 1)) ∨
    (0x80 ≤ b0.toNat ∧ decodeLastRuneRev (b0 :: rest) = (Utf8.runeError, 1)) ∨
    (0x80 ≤ b0.toNat ∧ ∃ r size, decodeLastRuneRev (b0 :: rest) = (r, size) ∧ size ≤ (b0 :: rest).length ∧
      Utf8.decode (((b0 :: rest).take size).reverse) = some (r, size)) := by
  by_cases hb : b0.toNat < 0x80
  · left
    exact ⟨hb, by simp [decodeLastRuneRev, hb]⟩
  · right
    have hb' : 0x80 ≤ b0.toNat := by omega
    -- the general shape: for the computed k ≤ length, the result is determined by `decodeRune seg`
    have key : ∀ k, 1 ≤ k → k ≤ (b0 :: rest).length →
        ((if ((Utf8.decodeRune (((b0 :: rest).take k).reverse)).2 != k) = true then (Utf8.runeError, 1)
          else Utf8.decodeRune (((b0 :: rest).take k).reverse)) = (Utf8.runeError, 1)) ∨
        ∃ r size, (if ((Utf8.decodeRune (((b0 :: rest).take k).reverse)).2 != k) = true then (Utf8.runeError, 1)
          else Utf8.decodeRune (((b0 :: rest).take k).reverse)) = (r, size) ∧ size ≤ (b0 :: rest).length ∧
          Utf8.decode (((b0 :: rest).take size).reverse) = some (r, size) := by
      intro k hk1 hk2
      unfold Utf8.decodeRune
      cases hd : Utf8.decode (((b0 :: rest).take k).reverse) with
      | none =>
        left
        simp only
        split <;> rfl
      | some rw =>
        obtain ⟨r, w⟩ := rw
        simp only
        by_cases hwk : w = k
        · right
          subst hwk
          exact ⟨r, w, by simp, hk2, hd⟩
        · left
          simp [hwk]
    unfold decodeLastRuneRev
    simp only [hb, if_false]
    cases rest with
    | nil =>
      rcases key 1 (by omega) (by simp) with h | h
      · left; exact ⟨hb', by simpa [Prod.ext_iff] using h⟩
      · right; exact ⟨hb', by simpa using h⟩
    | cons b1 r1 =>
      cases r1 with
      | nil =>
        rcases key 2 (by omega) (by simp) with h | h
        · left; exact ⟨hb', by simpa [Prod.ext_iff] using h⟩
        · right; exact ⟨hb', by simpa using h⟩
      | cons b2 r2 =>
        cases r2 with
        | nil =>
          by_cases hs1 : runeStart b1 = true
          · rcases key 2 (by omega) (by simp) with h | h
            · left; exact ⟨hb', by simpa [hs1, Prod.ext_iff] using h⟩
            · right; exact ⟨hb', by simpa [hs1] using h⟩
          · rcases key 3 (by omega) (by simp) with h | h
            · left; exact ⟨hb', by simpa [hs1, Prod.ext_iff] using h⟩
            · right; exact ⟨hb', by simpa [hs1] using h⟩
        | cons b3 r3 =>
          by_cases hs1 : runeStart b1 = true
          · rcases key 2 (by omega) (by simp) with h | h
            · left; exact ⟨hb', by simpa [hs1, Prod.ext_iff] using h⟩
            · right; exact ⟨hb', by simpa [hs1] using h⟩
          · by_cases hs2 : runeStart b2 = true
            · rcases key 3 (by omega) (by simp) with h | h
              · left; exact ⟨hb', by simpa [hs1, hs2, Prod.ext_iff] using h⟩
              · right; exact ⟨hb', by simpa [hs1, hs2] using h⟩
            · rcases key 4 (by omega) (by simp) with h | h
              · left; exact ⟨hb', by simpa [hs1, hs2, Prod.ext_iff] using h⟩
              · right; exact ⟨hb', by simpa [hs1, hs2] using h⟩

/-- the size reported by the backward decode is between 1 and the length -/
theorem decodeLast_size (b0 : UInt8) (rest : Bytes) :
    1 ≤ (decodeLastRuneRev (b0 :: rest)).2 ∧ (decodeLastRuneRev (b0 :: rest)).2 ≤ (b0 :: rest).length := by
  rcases decodeLast_cases b0 rest with ⟨_, h⟩ | ⟨_, h⟩ | ⟨_, r, size, h, hle, hd⟩
  · rw [h]; simp
  · rw [h]; simp
  · rw [h]; exact ⟨(decode_width hd).1, hle⟩

/-- a white-space rune found by the backward decode is a well-formed sequence of exactly `size` bytes -/
theorem decodeLast_space_seg (b0 : UInt8) (rest : Bytes)
    (hs : UnicodePrint.isSpace (decodeLastRuneRev (b0 :: rest)).1 = true) :
    Utf8.decode (((b0 :: rest).take (decodeLastRuneRev (b0 :: rest)).2).reverse) =
      some ((decodeLastRuneRev (b0 :: rest)).1,
        (((b0 :: rest).take (decodeLastRuneRev (b0 :: rest)).2).reverse).length) := by
  rcases decodeLast_cases b0 rest with ⟨hb, h⟩ | ⟨_, h⟩ | ⟨_, r, size, h, hle, hd⟩
  · rw [h]; simp [Utf8.decode, hb]
  · rw [h] at hs; exact absurd hs (by decide)
  · rw [h]
    simp only [List.length_reverse, List.length_take]
    rw [Nat.min_eq_left hle]
    exact hd

/-- The width of a FORWARD decode at the start of the rune found by the backward decode, in front of a
    context that does not start with a continuation byte, is the size the backward decode reported. -/
theorem forward_width (b0 : UInt8) (rest z : Bytes) (hz : NoContStart z) :
    (Utf8.decodeRune (((b0 :: rest).take (decodeLastRuneRev (b0 :: rest)).2).reverse ++ z)).2 =
      (decodeLastRuneRev (b0 :: rest)).2 := by
  rcases decodeLast_cases b0 rest with ⟨hb, h⟩ | ⟨hb, h⟩ | ⟨_, r, size, h, hle, hd⟩
  · rw [h]; simp [decodeRune_ascii b0 z hb]
  · rw [h]; simpa using decodeRune_single_width b0 z hb hz
  · rw [h]
    simp only
    have := decode_take hd z
    rw [List.take_of_length_le (by simp; omega)] at this
    unfold Utf8.decodeRune
    rw [this]

/-- the `if` in `trimRightSpace` is an optimisation -/
theorem width_if (b : UInt8) (t : Bytes) :
    (if b.toNat ≥ 0x80 then (Utf8.decodeRune (b :: t)).2 else 1) = (Utf8.decodeRune (b :: t)).2 := by
  by_cases hb : b.toNat < 0x80
  · rw [decodeRune_ascii b t hb]
    simp
  · simp; omega

/-! ### non-vacuity -/

example : Utf8.decode [0xE3, 0x80, 0x80, 47] = some (0x3000, 3) := by decide
example : NoContStart [0xE3, 0x80, 0x80] := noContStart_cons (by decide)
example : ¬ NoContStart [0x80, 47] := by intro h; exact absurd (h 0x80 (by simp)) (by decide)
/-- U+0020, U+00A0, U+3000 -/
example : SpaceSeq [32, 0xC2, 0xA0, 0xE3, 0x80, 0x80] :=
  SpaceSeq.cons [32] _ 32 (by decide) (by decide)
    (SpaceSeq.cons [0xC2, 0xA0] _ 0xA0 (by decide) (by decide)
      (SpaceSeq.cons [0xE3, 0x80, 0x80] [] 0x3000 (by decide) (by decide) SpaceSeq.nil))
example : UnicodePrint.isSpace (decodeLastRuneRev ([47, 0xE3, 0x80, 0x80] : Bytes).reverse).1 = true := by decide
example : decodeLastRuneRev ([47, 0xE3, 0x80, 0x80] : Bytes).reverse = (0x3000, 3) := by decide
example : decodeLastRuneRev ([47, 0xE3, 0x80] : Bytes).reverse = (Utf8.runeError, 1) := by decide

end ModVerif.Proofs.ModfileFmtTrim
