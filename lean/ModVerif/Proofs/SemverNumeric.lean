/- compareInt on numbers without leading zeros is numeric comparison, for numbers of any length -/
import ModVerif.Proofs.SemverCanonical
namespace ModVerif.Semver
open ModVerif ModVerif.SemverSpec

/-- value of a digit string (most significant digit first) -/
def decVal : Bytes → Nat
  | [] => 0
  | c :: cs => (c.toNat - 48) * 10 ^ cs.length + decVal cs

theorem digit_bounds {c : UInt8} (h : SemverSpec.isDigit c = true) : 48 ≤ c.toNat ∧ c.toNat ≤ 57 := by
  unfold SemverSpec.isDigit at h
  simp only [Bool.and_eq_true, decide_eq_true_eq] at h
  exact ⟨UInt8.le_iff_toNat_le.1 h.1, UInt8.le_iff_toNat_le.1 h.2⟩

theorem decVal_lt : ∀ x : Bytes, x.all SemverSpec.isDigit = true → decVal x < 10 ^ x.length
  | [], _ => by simp [decVal]
  | c :: cs, h => by
    simp only [List.all_cons, Bool.and_eq_true] at h
    have hb := digit_bounds h.1
    have ih := decVal_lt cs h.2
    simp only [decVal, List.length_cons, Nat.pow_succ]
    have : (c.toNat - 48) ≤ 9 := by omega
    calc (c.toNat - 48) * 10 ^ cs.length + decVal cs
        < (c.toNat - 48) * 10 ^ cs.length + 10 ^ cs.length := by omega
      _ = (c.toNat - 48 + 1) * 10 ^ cs.length := by rw [Nat.add_mul]; simp
      _ ≤ 10 * 10 ^ cs.length := Nat.mul_le_mul_right _ (by omega)
      _ = 10 ^ cs.length * 10 := Nat.mul_comm _ _

theorem decVal_ge {c : UInt8} {cs : Bytes} (hc : SemverSpec.isDigit c = true) (hnz : c ≠ 48) :
    10 ^ cs.length ≤ decVal (c :: cs) := by
  have hb := digit_bounds hc
  have : c.toNat ≠ 48 := fun e => hnz (UInt8.toNat_inj.1 (by simpa using e))
  have h1 : 1 ≤ c.toNat - 48 := by omega
  simp only [decVal]
  calc 10 ^ cs.length = 1 * 10 ^ cs.length := by simp
    _ ≤ (c.toNat - 48) * 10 ^ cs.length := Nat.mul_le_mul_right _ h1
    _ ≤ _ := Nat.le_add_right _ _

/-- on digit strings of equal length, bytewise order is numeric order -/
theorem bytesLt_iff_decVal : ∀ x y : Bytes, x.length = y.length →
    x.all SemverSpec.isDigit = true → y.all SemverSpec.isDigit = true →
    ((bytesLt x y = true ↔ decVal x < decVal y) ∧ (x = y ↔ decVal x = decVal y))
  | [], [], _, _, _ => by simp [bytesLt, decVal]
  | [], _ :: _, h, _, _ => by simp at h
  | _ :: _, [], h, _, _ => by simp at h
  | c :: cs, d :: ds, hl, hx, hy => by
    simp only [List.all_cons, Bool.and_eq_true] at hx hy
    simp only [List.length_cons, Nat.add_right_cancel_iff] at hl
    have ih := bytesLt_iff_decVal cs ds hl hx.2 hy.2
    have bc := digit_bounds hx.1
    have bd := digit_bounds hy.1
    have lc := decVal_lt cs hx.2
    have ld := decVal_lt ds hy.2
    rw [hl] at lc
    simp only [decVal, hl]
    generalize hP : 10 ^ ds.length = P at *
    have hPpos : 0 < P := by rw [← hP]; exact Nat.pow_pos (by omega)
    unfold bytesLt
    by_cases h1 : c < d
    · have h1' : c.toNat < d.toNat := UInt8.lt_iff_toNat_lt.1 h1
      have hne : c ≠ d := fun e => by subst e; exact UInt8.lt_irrefl _ h1
      have : (c.toNat - 48) * P + P ≤ (d.toNat - 48) * P := by
        have : c.toNat - 48 + 1 ≤ d.toNat - 48 := by omega
        calc (c.toNat - 48) * P + P = (c.toNat - 48 + 1) * P := by rw [Nat.add_mul]; simp
          _ ≤ (d.toNat - 48) * P := Nat.mul_le_mul_right _ this
      simp [h1, hne]
      constructor <;> omega
    · by_cases h2 : d < c
      · have h2' : d.toNat < c.toNat := UInt8.lt_iff_toNat_lt.1 h2
        have hne : c ≠ d := fun e => by subst e; exact UInt8.lt_irrefl _ h2
        have : (d.toNat - 48) * P + P ≤ (c.toNat - 48) * P := by
          have : d.toNat - 48 + 1 ≤ c.toNat - 48 := by omega
          calc (d.toNat - 48) * P + P = (d.toNat - 48 + 1) * P := by rw [Nat.add_mul]; simp
            _ ≤ (c.toNat - 48) * P := Nat.mul_le_mul_right _ this
        simp [h1, h2, hne]
        constructor <;> omega
      · have e := u8_trich c d h1 h2
        subst e
        simp [h1]
        constructor
        · rw [ih.1]
        · rw [ih.2]

theorem compareInt_numeric {x y : Bytes} (hx : Num x) (hy : Num y) :
    compareInt x y = natCmp (decVal x) (decVal y) := by
  obtain ⟨xne, xall, xz⟩ := hx
  obtain ⟨yne, yall, yz⟩ := hy
  unfold compareInt natCmp
  by_cases e : x = y
  · subst e; simp
  · simp only [e, if_false]
    -- a shorter number without leading zero is smaller
    have short : ∀ a b : Bytes, a ≠ [] → a.all SemverSpec.isDigit = true → b.all SemverSpec.isDigit = true →
        (b.head? = some 48 → b.length = 1) → a.length < b.length → decVal a < decVal b := by
      intro a b ane aall ball bz hl
      cases b with
      | nil => simp at hl
      | cons d ds =>
        simp only [List.all_cons, Bool.and_eq_true] at ball
        have hd : d ≠ 48 := by
          intro e; subst e
          have := bz rfl
          simp at this; subst this
          simp at hl; exact ane hl
        have h1 := decVal_ge (cs := ds) ball.1 hd
        have h2 := decVal_lt a aall
        have : 10 ^ a.length ≤ 10 ^ ds.length := Nat.pow_le_pow_right (by omega) (by simp at hl; omega)
        omega
    by_cases l : x.length < y.length
    · have := short x y xne xall yall yz l
      have ne : decVal x ≠ decVal y := by omega
      simp [l, ne, this]
    · by_cases g : x.length > y.length
      · have := short y x yne yall xall xz g
        have ne : decVal x ≠ decVal y := by omega
        have nl : ¬ decVal x < decVal y := by omega
        simp [l, g, ne, nl]
      · have el : x.length = y.length := by omega
        have := bytesLt_iff_decVal x y el xall yall
        have ne : decVal x ≠ decVal y := fun h => e (this.2.2 h)
        simp only [l, g, if_false, ne]
        cases hb : bytesLt x y
        · have : ¬ decVal x < decVal y := fun h => by rw [this.1.2 h] at hb; cases hb
          simp [this]
        · simp [this.1.1 hb]

end ModVerif.Semver
