/-
  GoRt lemmas used by the pseudo.go tie proofs (regenerated code = hand model): `setIdx` at a split point,
  byte arithmetic through `toU8`/`mkByte`, and the one-byte-separator instances of strings.LastIndex,
  strings.LastIndexByte and strings.Count.  Core Lean only.
-/
import ModVerif.Basic.GoRt
import ModVerif.Proofs.GoRtLemmas
namespace ModVerif.GoRtPseudo
open ModVerif ModVerif.GoRt

/-! ### setIdx -/

/-- `s[len pre] = x` on `pre ++ c :: suf` replaces exactly `c` -/
theorem setIdx_append_length (pre : Bytes) (c : UInt8) (suf : Bytes) (x : Int) :
    setIdx (pre ++ c :: suf) (pre.length : Int) x = .ok (pre ++ mkByte x :: suf) := by
  have h : (0 : Int) ≤ (pre.length : Int) ∧ (pre.length : Int) < len (pre ++ c :: suf) := by
    simp [len_eq]; omega
  simp [setIdx, h]

theorem setIdx_zero_cons (c : UInt8) (s : Bytes) (x : Int) : setIdx (c :: s) 0 x = .ok (mkByte x :: s) := by
  simpa using setIdx_append_length [] c s x

theorem setIdx_zero_nil (x : Int) : setIdx [] 0 x = .error .panic := by
  simp [setIdx]

/-! ### bytes through Int arithmetic -/

theorem forall_uint8 {P : UInt8 → Prop} (h : ∀ f : Fin 256, P ⟨⟨f⟩⟩) : ∀ c, P c := fun ⟨⟨f⟩⟩ => h f

theorem mkByte_lit (c : UInt8) : mkByte ((c.toNat : Nat) : Int) = c := mkByte_byte c

@[simp] theorem mkByte_48 : mkByte 48 = 48 := by decide
@[simp] theorem mkByte_49 : mkByte 49 = 49 := by decide
@[simp] theorem mkByte_57 : mkByte 57 = 57 := by decide

/-- `digits[i]++` on a byte (wraps at 255 like Go's uint8) -/
theorem mkByte_succ : ∀ c : UInt8, mkByte (toU8 (((c.toNat : Nat) : Int) + 1)) = c + 1 :=
  forall_uint8 (by decide +kernel)

/-- `digits[i]--` on a byte (wraps at 0 like Go's uint8) -/
theorem mkByte_pred : ∀ c : UInt8, mkByte (toU8 (((c.toNat : Nat) : Int) - 1)) = c - 1 :=
  forall_uint8 (by decide +kernel)

theorem byte_int_eq_iff (c d : UInt8) : (((c.toNat : Nat) : Int) = ((d.toNat : Nat) : Int)) ↔ c = d :=
  byte_toInt_inj

theorem byte_eq_57 (c : UInt8) : (((c.toNat : Nat) : Int) = 57) ↔ c = 57 := byte_int_eq_iff c 57
theorem byte_eq_48 (c : UInt8) : (((c.toNat : Nat) : Int) = 48) ↔ c = 48 := byte_int_eq_iff c 48
theorem byte_eq_49 (c : UInt8) : (((c.toNat : Nat) : Int) = 49) ↔ c = 49 := byte_int_eq_iff c 49

/-! ### one-byte separators: strings.LastIndex(s, "c"), strings.LastIndexByte(s, 'c'), strings.Count(s, "c") -/

theorem isPrefixOfB_single (c x : UInt8) (xs : Bytes) : isPrefixOfB [c] (x :: xs) = (c == x) := by
  simp [isPrefixOfB]

theorem lastIndexAux_single_notMem (c : UInt8) : ∀ (s : Bytes) (k : Nat) (acc : Int), c ∉ s →
    lastIndexAux [c] s k acc = acc
  | [], _, _, _ => by simp [lastIndexAux]
  | x :: xs, k, acc, h => by
    have hx : (c == x) = false := by
      have : c ≠ x := fun e => h (by simp [e])
      simpa using this
    have hxs : c ∉ xs := fun e => h (by simp [e])
    simp only [lastIndexAux, isPrefixOfB_single, hx]
    exact lastIndexAux_single_notMem c xs (k + 1) acc hxs

theorem lastIndexAux_single_split (c : UInt8) : ∀ (a b : Bytes) (k : Nat) (acc : Int), c ∉ b →
    lastIndexAux [c] (a ++ c :: b) k acc = ((k + a.length : Nat) : Int)
  | [], b, k, acc, h => by
    simp only [List.nil_append, lastIndexAux, isPrefixOfB_single, beq_self_eq_true, if_true]
    rw [lastIndexAux_single_notMem c b (k + 1) _ h]; simp
  | x :: a, b, k, acc, h => by
    simp only [List.cons_append, lastIndexAux]
    rw [lastIndexAux_single_split c a b (k + 1) _ h]
    simp only [List.length_cons]; congr 1; omega

/-- the last occurrence: `strings.LastIndex(a + "c" + b, "c") = len(a)` when `c` does not occur in `b` -/
theorem lastIndex_single_split (c : UInt8) (a b : Bytes) (h : c ∉ b) :
    lastIndex (a ++ c :: b) [c] = (a.length : Int) := by
  unfold lastIndex; rw [lastIndexAux_single_split c a b 0 _ h]; simp

theorem lastIndex_single_notMem (c : UInt8) (s : Bytes) (h : c ∉ s) : lastIndex s [c] = -1 := by
  unfold lastIndex; exact lastIndexAux_single_notMem c s 0 _ h

theorem lastIndexByteAux_notMem (c : UInt8) : ∀ (s : Bytes) (k : Nat) (acc : Int), c ∉ s →
    lastIndexByteAux c s k acc = acc
  | [], _, _, _ => by simp [lastIndexByteAux]
  | x :: xs, k, acc, h => by
    have hx : (x == c) = false := by
      have : x ≠ c := fun e => h (by simp [e])
      simpa using this
    have hxs : c ∉ xs := fun e => h (by simp [e])
    simp only [lastIndexByteAux, hx]
    exact lastIndexByteAux_notMem c xs (k + 1) acc hxs

theorem lastIndexByteAux_split (c : UInt8) : ∀ (a b : Bytes) (k : Nat) (acc : Int), c ∉ b →
    lastIndexByteAux c (a ++ c :: b) k acc = ((k + a.length : Nat) : Int)
  | [], b, k, acc, h => by
    simp only [List.nil_append, lastIndexByteAux, beq_self_eq_true, if_true]
    rw [lastIndexByteAux_notMem c b (k + 1) _ h]; simp
  | x :: a, b, k, acc, h => by
    simp only [List.cons_append, lastIndexByteAux]
    rw [lastIndexByteAux_split c a b (k + 1) _ h]
    simp only [List.length_cons]; congr 1; omega

theorem lastIndexByte_split (c : UInt8) (a b : Bytes) (h : c ∉ b) :
    lastIndexByte (a ++ c :: b) ((c.toNat : Nat) : Int) = (a.length : Int) := by
  unfold lastIndexByte; rw [mkByte_byte, lastIndexByteAux_split c a b 0 _ h]; simp

theorem lastIndexByte_notMem (c : UInt8) (s : Bytes) (h : c ∉ s) :
    lastIndexByte s ((c.toNat : Nat) : Int) = -1 := by
  unfold lastIndexByte; rw [mkByte_byte]; exact lastIndexByteAux_notMem c s 0 _ h

/-- the same with the byte given as the integer literal the generated code passes -/
theorem lastIndexByte_split_lit (c : UInt8) (n : Int) (hn : mkByte n = c) (a b : Bytes) (h : c ∉ b) :
    lastIndexByte (a ++ c :: b) n = (a.length : Int) := by
  unfold lastIndexByte; rw [hn, lastIndexByteAux_split c a b 0 _ h]; simp

theorem lastIndexByte_notMem_lit (c : UInt8) (n : Int) (hn : mkByte n = c) (s : Bytes) (h : c ∉ s) :
    lastIndexByte s n = -1 := by
  unfold lastIndexByte; rw [hn]; exact lastIndexByteAux_notMem c s 0 _ h

/-- `s[:i+1]` at a split point keeps the separator -/
theorem sliceTo_split_succ (a b : Bytes) (c : UInt8) :
    sliceTo (a ++ c :: b) ((a.length : Int) + 1) = .ok (a ++ [c]) := by
  have : ((a.length : Int) + 1) = ((a.length + 1 : Nat) : Int) := by simp
  rw [this, sliceTo_natCast (by simp)]
  have h2 : a ++ c :: b = (a ++ [c]) ++ b := by simp
  rw [h2, List.take_left' (by simp)]

theorem sliceFrom_split_succ (a b : Bytes) (c : UInt8) :
    sliceFrom (a ++ c :: b) ((a.length : Int) + 1) = .ok b := by
  have : ((a.length : Int) + 1) = ((a.length + 1 : Nat) : Int) := by simp
  rw [this, sliceFrom_natCast (by simp)]; simp

/-- strings.Count with a one-byte separator counts the occurrences of that byte -/
theorem countAux_single (c : UInt8) : ∀ (f : Nat) (s : Bytes), s.length < f →
    countAux [c] f s = s.count c
  | 0, _, h => by omega
  | f + 1, [], _ => by simp [countAux]
  | f + 1, x :: xs, h => by
    have hl : xs.length < f := by simp at h; omega
    simp only [countAux, isPrefixOfB_single, List.length_cons, List.length_nil, List.drop_succ_cons, List.drop_zero]
    rw [countAux_single c f xs hl]
    by_cases hx : x = c
    · subst hx; simp; omega
    · have h1 : (c == x) = false := by simpa using fun e : c = x => hx e.symm
      have h2 : (x == c) = false := by simpa using hx
      simp [h1, List.count_cons, h2]

theorem count_single (c : UInt8) (s : Bytes) : count s [c] = ((s.count c : Nat) : Int) := by
  simp [count, countAux_single c (s.length + 1) s (by omega)]

/-! ### TrimSuffix / HasSuffix are the model's functions -/

theorem trimSuffix_eq (s p : Bytes) : trimSuffix s p = if hasSuffixB s p then s.take (s.length - p.length) else s := rfl
theorem hasSuffix_eq (s p : Bytes) : hasSuffix s p = hasSuffixB s p := rfl

end ModVerif.GoRtPseudo
