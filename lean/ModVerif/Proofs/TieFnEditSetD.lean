/-
  Helper lemmas for Tie/FnEditSet.lean, `File.SetRequireSeparateIndirect`, part 1: the closure `hasComments`, the request
  as FRESH `Require` objects (`ReqArgsS`: `Syntax == nil`), the pointer-valued maps `need` (`NeedRel`, loop 3 =
  `needMap false`) and `have` (`HaveRel`).
-/
import ModVerif.Proofs.TieFnEditSetC
set_option linter.unusedSimpArgs false
set_option linter.unusedVariables false
namespace ModVerif.Tie.FnEditSetD
open ModVerif ModVerif.GoRt ModVerif.Generated.Edit ModVerif.Tie.FnEditRep ModVerif.Tie.FnEditTreeA ModVerif.Tie.FnEditSetA
  ModVerif.Tie.FnEditSetB
open ModVerif.Modfile.Edit (Want needMap EFile)

/-! ### hasComments -/

theorem hasComments_eq (isPrint : Int → Bool) (quote : Bytes → Bytes) (fuel : Nat) (c : Modfile.Comments) :
    File_SetRequireSeparateIndirect_hasComments isPrint quote fuel (comsG c) = .ok (Modfile.Edit.hasComments c) := by
  obtain ⟨bef, suf, aft⟩ := c
  unfold File_SetRequireSeparateIndirect_hasComments Modfile.Edit.hasComments
  simp only [comsG_Before, comsG_Suffix, comsG_After, bind, Except.bind, pure, Except.pure]
  rcases bef with _ | ⟨b, bt⟩
  · rcases aft with _ | ⟨a, at'⟩
    · rcases suf with _ | ⟨s, _ | ⟨s2, st⟩⟩
      · simp [len_eq]
      · by_cases ht : GoStrings.trimSpace (GoStrings.trimPrefix s.token [47, 47]) = [105, 110, 100, 105, 114, 101, 99, 116]
        · simp [len_eq, idxL_zero_cons, trimSpace_eq, trimPrefix_eq, Modfile.Edit.slashSlash, B_indirect, ht]
        · simp [len_eq, idxL_zero_cons, trimSpace_eq, trimPrefix_eq, Modfile.Edit.slashSlash, B_indirect, ht]
      · have : ((st.length : Int) + 1 + 1 > 1) := by omega
        simp [len_eq, this]
    · have : ((at'.length : Int) + 1 > 0) := by omega
      simp [len_eq, this]
  · have : ((bt.length : Int) + 1 > 0) := by omega
    simp [len_eq, this]

/-! ### the request: fresh objects -/

/-- the `Require` value a caller builds for a wanted requirement (`Syntax == nil`) -/
def wantReq (w : Want) : Modfile.Require := { mod := { path := w.path, version := w.vers }, indirect := w.indirect, lineId := 0 }

/-- the `[]*Require` argument: pointers to `Require` objects with the wanted data and a nil `Syntax` -/
def ReqArgsS (objs : List Require) : List Int → List Want → Prop
  | [], [] => True
  | p :: ps, w :: ws => heapGet objs p = .ok (requireG (wantReq w)) ∧ ReqArgsS objs ps ws
  | _, _ => False

theorem ReqArgsS.toArgs {objs : List Require} : ∀ {ps : List Int} {ws : List Want}, ReqArgsS objs ps ws → ReqArgs objs ps ws
  | [], [], _ => trivial
  | _ :: _, _ :: _, r => ⟨⟨_, r.1, rfl, rfl, rfl⟩, ReqArgsS.toArgs r.2⟩
  | [], _ :: _, r => r.elim
  | _ :: _, [], r => r.elim

theorem ReqArgsS.mem {objs : List Require} : ∀ {ps : List Int} {ws : List Want}, ReqArgsS objs ps ws →
    ∀ p ∈ ps, ∃ w ∈ ws, heapGet objs p = .ok (requireG (wantReq w))
  | [], [], _, p, hp => by cases hp
  | _ :: _, w :: _, r, p, hp => by
    rcases List.mem_cons.1 hp with rfl | hp'
    · exact ⟨w, List.mem_cons_self, r.1⟩
    · obtain ⟨w', hw, hg⟩ := ReqArgsS.mem r.2 p hp'
      exact ⟨w', List.mem_cons_of_mem _ hw, hg⟩
  | [], _ :: _, r, _, _ => r.elim
  | _ :: _, [], r, _, _ => r.elim

theorem ReqArgsS.mono {objs objs' : List Require} (ho : ∀ p v, heapGet objs p = .ok v → heapGet objs' p = .ok v) :
    ∀ {ps : List Int} {ws : List Want}, ReqArgsS objs ps ws → ReqArgsS objs' ps ws
  | [], [], _ => trivial
  | _ :: _, _ :: _, r => ⟨ho _ _ r.1, ReqArgsS.mono ho r.2⟩
  | [], _ :: _, r => r.elim
  | _ :: _, [], r => r.elim

/-! ### the map `need : map[string]*Require` -/

/-- the pointer-valued map of the generated code ↔ the association list of the model: same keys in the same order, the
    value points to the fresh object of the want -/
def NeedRel (objs : List Require) : List (Bytes × Int) → List Want → Prop
  | [], [] => True
  | kp :: t, w :: ws => (kp.1 = w.path ∧ heapGet objs kp.2 = .ok (requireG (wantReq w))) ∧ NeedRel objs t ws
  | _, _ => False

theorem NeedRel.length {objs : List Require} : ∀ {np : List (Bytes × Int)} {ws : List Want}, NeedRel objs np ws → np.length = ws.length
  | [], [], _ => rfl
  | _ :: _, _ :: _, r => by simp [NeedRel.length r.2]
  | [], _ :: _, r => r.elim
  | _ :: _, [], r => r.elim

theorem NeedRel.mono {objs objs' : List Require} (ho : ∀ p v, heapGet objs p = .ok v → heapGet objs' p = .ok v) :
    ∀ {np : List (Bytes × Int)} {ws : List Want}, NeedRel objs np ws → NeedRel objs' np ws
  | [], [], _ => trivial
  | _ :: _, _ :: _, r => ⟨⟨r.1.1, ho _ _ r.1.2⟩, NeedRel.mono ho r.2⟩
  | [], _ :: _, r => r.elim
  | _ :: _, [], r => r.elim

theorem NeedRel.append {objs : List Require} : ∀ {np nq : List (Bytes × Int)} {ws vs : List Want},
    NeedRel objs np ws → NeedRel objs nq vs → NeedRel objs (np ++ nq) (ws ++ vs)
  | [], _, [], _, _, r2 => r2
  | _ :: _, _, _ :: _, _, r1, r2 => ⟨r1.1, NeedRel.append r1.2 r2⟩
  | [], _, _ :: _, _, r1, _ => r1.elim
  | _ :: _, _, [], _, r1, _ => r1.elim

/-- lookup -/
theorem NeedRel.find {objs : List Require} (k : Bytes) : ∀ {np : List (Bytes × Int)} {ws : List Want}, NeedRel objs np ws →
    match ws.find? (·.path == k) with
    | some w => ∃ p, np.find? (fun q => decide (q.1 = k)) = some (k, p) ∧ heapGet objs p = .ok (requireG (wantReq w))
    | none => np.find? (fun q => decide (q.1 = k)) = none
  | [], [], _ => by simp
  | kp :: t, w :: ws, r => by
    obtain ⟨⟨h1, h2⟩, r'⟩ := r
    simp only [List.find?_cons]
    by_cases e : w.path = k
    · have e' : (w.path == k) = true := by simpa using e
      have e'' : decide (kp.1 = k) = true := by simp [h1, e]
      simp only [e', e'']
      refine ⟨kp.2, ?_, h2⟩
      rw [← e, ← h1]
    · have e' : (w.path == k) = false := by simpa using e
      have e'' : decide (kp.1 = k) = false := by simp [h1, e]
      simp only [e', e'']
      exact NeedRel.find k r'
  | [], _ :: _, r => r.elim
  | _ :: _, [], r => r.elim

/-- `need[path]` as the generated code reads it -/
theorem NeedRel.mapGet {objs : List Require} (k : Bytes) {np : List (Bytes × Int)} {ws : List Want} (r : NeedRel objs np ws) :
    match ws.find? (·.path == k) with
    | some w => 0 < (mapGet np k (0 : Int)).1 ∧ heapGet objs (mapGet np k (0 : Int)).1 = .ok (requireG (wantReq w))
    | none => (mapGet np k (0 : Int)).1 = 0 := by
  have := r.find k
  unfold GoRt.mapGet
  cases hf : ws.find? (·.path == k) with
  | none => rw [hf] at this; simp only at this; rw [this]
  | some w =>
    rw [hf] at this
    obtain ⟨p, hp, hg⟩ := this
    rw [hp]
    exact ⟨heapGet_pos hg, hg⟩

/-- `need[w.path] = p` -/
theorem NeedRel.mapSet {objs : List Require} (w : Want) (p : Int) (hp : heapGet objs p = .ok (requireG (wantReq w))) :
    ∀ {np : List (Bytes × Int)} {ws : List Want}, NeedRel objs np ws →
    NeedRel objs (mapSet np w.path p) (match ws.find? (·.path == w.path) with
        | some _ => ws.map fun a => if a.path == w.path then w else a
        | none => ws ++ [w]) := by
  intro np ws r
  have hfind := r.find w.path
  unfold GoRt.mapSet
  cases hf : ws.find? (·.path == w.path) with
  | none =>
    rw [hf] at hfind
    simp only at hfind
    simp only [hfind, Option.isSome_none, Bool.false_eq_true, if_false]
    exact r.append ⟨⟨rfl, hp⟩, trivial⟩
  | some v =>
    rw [hf] at hfind
    obtain ⟨q, hq, _⟩ := hfind
    simp only [hq, Option.isSome_some, if_true]
    clear hq hf
    induction np generalizing ws with
    | nil => cases ws with
      | nil => trivial
      | cons _ _ => exact r.elim
    | cons kp t ih => cases ws with
      | nil => exact r.elim
      | cons a ws =>
        obtain ⟨⟨h1, h2⟩, r'⟩ := r
        simp only [List.map_cons]
        refine ⟨?_, ih r'⟩
        by_cases e : a.path = w.path
        · have e' : (a.path == w.path) = true := by simpa using e
          have e2 : kp.1 = w.path := by rw [h1, e]
          rw [if_pos e2, if_pos e']
          exact ⟨rfl, hp⟩
        · have e' : ¬ ((a.path == w.path) = true) := by simpa using e
          have e2 : ¬ (kp.1 = w.path) := by rw [h1]; exact e
          rw [if_neg e2, if_neg e']
          exact ⟨h1, h2⟩

theorem mem_mapSet {κ ν : Type} [DecidableEq κ] {m : List (κ × ν)} {k : κ} {v : ν} {q : κ × ν} (h : q ∈ GoRt.mapSet m k v) :
    q ∈ m ∨ q = (k, v) := by
  unfold GoRt.mapSet at h
  split at h
  · obtain ⟨x, hx, rfl⟩ := List.mem_map.1 h
    by_cases e : x.1 = k
    · rw [if_pos e]; exact Or.inr rfl
    · rw [if_neg e]; exact Or.inl hx
  · rcases List.mem_append.1 h with h | h
    · exact Or.inl h
    · simp only [List.mem_singleton] at h; exact Or.inr h

/-- loop 3 of SetRequireSeparateIndirect: `need[r.Mod.Path] = r` over the request = `needMap false`; every value of the
    map is one of the request pointers (`P`: any property of these) -/
theorem loop3S_sim (isPrint : Int → Bool) (quote : Bytes → Bytes) (h : Heap) (P : Int → Prop) :
    ∀ (rest : List Want) (ps pre rx : List Int) (ri : Int) (acc : List Want) (np : List (Bytes × Int)) (fuel : Nat),
      rx = pre ++ ps → ri = (pre.length : Int) → ReqArgsS h.requires ps rest → NeedRel h.requires np acc → rest.length < fuel →
      (∀ kp ∈ np, P kp.2) → (∀ p ∈ ps, P p) →
      ∃ need np', needMap false rest acc = .ok need ∧
        File_SetRequireSeparateIndirect_loop3 isPrint quote rx h fuel ri np = .ok (len rx, np') ∧ NeedRel h.requires np' need ∧
        ∀ kp ∈ np', P kp.2
  | [], [], pre, rx, ri, acc, np, fuel + 1, hrx, hri, _, hn, _, hP, _ => by
    subst hrx hri
    have := not_lt_len_end pre
    refine ⟨acc, np, rfl, ?_, hn, hP⟩
    simp [File_SetRequireSeparateIndirect_loop3, this, pure, Except.pure, len_eq]
  | w :: ws, p :: ps, pre, rx, ri, acc, np, fuel + 1, hrx, hri, hr, hn, hf, hP, hPs => by
    obtain ⟨ho, hr'⟩ := hr
    have hn' := hn.mapSet w p ho
    have hP' : ∀ kp ∈ GoRt.mapSet np w.path p, P kp.2 := by
      intro kp hkp
      rcases mem_mapSet hkp with h1 | h1
      · exact hP kp h1
      · rw [h1]; exact hPs p List.mem_cons_self
    obtain ⟨need, np', hm, hrun, hrel, hPn⟩ := loop3S_sim isPrint quote h P ws ps (pre ++ [p]) rx (ri + 1) _ _ fuel (by simp [hrx])
      (by simp [hri]) hr' hn' (by simp at hf; omega) hP' (fun q hq => hPs q (List.mem_cons_of_mem _ hq))
    subst hrx hri
    refine ⟨need, np', ?_, ?_, hrel, hPn⟩
    · unfold needMap
      cases hfind : acc.find? (·.path == w.path) with
      | none => simpa [hfind] using hm
      | some prev => simpa [hfind] using hm
    · simp only [File_SetRequireSeparateIndirect_loop3, lt_len_cursor, decide_true, if_true, idxL_cursor, bind, Except.bind, ho,
        requireG_Mod, mvG_Path]
      exact hrun
  | [], _ :: _, _, _, _, _, _, _, _, _, hr, _, _, _, _ => hr.elim
  | _ :: _, [], _, _, _, _, _, _, _, _, hr, _, _, _, _ => hr.elim

/-! ### the map `have : map[string]*Require` -/

/-- the generated `have` map (keys in insertion order, non-nil values) ↔ the model's list of kept paths (newest first) -/
def HaveRel (hp : List (Bytes × Int)) (hv : List Bytes) : Prop := hp.map (·.1) = hv.reverse ∧ ∀ kp ∈ hp, 0 < kp.2

theorem HaveRel.nil : HaveRel [] [] := ⟨rfl, fun _ h => by cases h⟩

theorem find_none_of_keys {hp : List (Bytes × Int)} {k : Bytes} (h : k ∉ hp.map (·.1)) :
    hp.find? (fun q => decide (q.1 = k)) = none := by
  rw [List.find?_eq_none]
  intro q hq hqk
  exact h (List.mem_map.2 ⟨q, hq, by simpa using hqk⟩)

/-- `have[path] == nil` -/
theorem HaveRel.mapGet {hp : List (Bytes × Int)} {hv : List Bytes} (r : HaveRel hp hv) (k : Bytes) :
    decide ((mapGet hp k (0 : Int)).1 = 0) = !hv.contains k := by
  unfold GoRt.mapGet
  cases hf : hp.find? (fun q => decide (q.1 = k)) with
  | none =>
    have : k ∉ hv := by
      intro hk
      have : k ∈ hp.map (·.1) := by rw [r.1]; simpa using hk
      obtain ⟨q, hq, hqk⟩ := List.mem_map.1 this
      have := List.find?_eq_none.1 hf q hq
      simp [hqk] at this
    simp [this]
  | some q =>
    have hq := List.mem_of_find?_eq_some hf
    have hk : q.1 = k := by simpa using List.find?_some hf
    have : k ∈ hv := by
      have : k ∈ hp.map (·.1) := List.mem_map.2 ⟨q, hq, hk⟩
      rw [r.1] at this; simpa using this
    have hpos := r.2 q hq
    have : ¬ (q.2 = 0) := by omega
    simp [*]

/-- `have[k] = p` for a key that is not there -/
theorem HaveRel.mapSet {hp : List (Bytes × Int)} {hv : List Bytes} (r : HaveRel hp hv) (k : Bytes) (p : Int) (hpos : 0 < p)
    (hk : hv.contains k = false) : HaveRel (mapSet hp k p) (k :: hv) := by
  have hnk : k ∉ hp.map (·.1) := by rw [r.1]; simpa using hk
  unfold GoRt.mapSet
  rw [find_none_of_keys hnk]
  simp only [Option.isSome_none, Bool.false_eq_true, if_false]
  refine ⟨by simp [r.1], ?_⟩
  intro kp hkp
  rcases List.mem_append.1 hkp with h1 | h1
  · exact r.2 kp h1
  · simp only [List.mem_singleton] at h1; subst h1; exact hpos

end ModVerif.Tie.FnEditSetD
