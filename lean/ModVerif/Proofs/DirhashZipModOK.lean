/-
  C19 helper: the assumption `ModOKSound` of `zip_dir_agree_composed` holds for the instance the zip driver
  plugs into `Env.modOK` (`module.CanonicalVersion(v) == v && module.Check(path, v) == nil`, models of
  Model/Module.lean and Model/Semver.lean): `module.Check` accepts only paths whose elements are non-empty
  and not made of dots only (Proofs/ModuleSpec.lean), and only versions of the semver grammar
  (Proofs/SemverGrammar.lean), which has no slash.  Core Lean only.
-/
import ModVerif.Proofs.DirhashZipCompose
import ModVerif.Proofs.ModuleSpec
import ModVerif.Proofs.SemverGrammar
namespace ModVerif.DirhashZip
open ModVerif ModVerif.Zip ModVerif.SemverSpec

/-- `Env.modOK` as the zip driver defines it (`Drv.Zip.realEnv`) -/
def modOKOf (p v : Bytes) : Bool :=
  Semver.canonicalVersion v == v &&
    (match Module.check p v with
     | .ok _ => true
     | .error _ => false)

theorem noSlash_of_all {p : UInt8 → Bool} (hp : p 47 = false) {x : Bytes} (h : x.all p = true) :
    (47 : UInt8) ∉ x := by
  intro hm
  have := List.all_eq_true.1 h 47 hm
  rw [hp] at this; cases this

theorem noSlash_num {x : Bytes} (h : Num x) : (47 : UInt8) ∉ x := noSlash_of_all (by decide) h.2.1

theorem noSlash_joinDots {ids : List Bytes} (h : ∀ i ∈ ids, Ident i) : (47 : UInt8) ∉ joinDots ids := by
  intro hm
  rw [Semver.joinDots_eq] at hm
  rcases Semver.mem_joinSep 46 ids 47 hm with h' | ⟨i, hi, hc⟩
  · exact absurd h' (by decide)
  · exact noSlash_of_all (p := isIdentChar) (by decide) (h i hi).2 hc

theorem noSlash_preOpt {pre : Bytes} (h : PreOpt pre) : (47 : UInt8) ∉ pre := by
  rcases h with rfl | ⟨ids, _, hids, rfl⟩
  · simp
  · intro hm
    rcases List.mem_cons.1 hm with h' | h'
    · exact absurd h' (by decide)
    · exact noSlash_joinDots (fun i hi => (hids i hi).1) h'

theorem noSlash_buildOpt {bld : Bytes} (h : BuildOpt bld) : (47 : UInt8) ∉ bld := by
  rcases h with rfl | ⟨ids, _, hids, rfl⟩
  · simp
  · intro hm
    rcases List.mem_cons.1 hm with h' | h'
    · exact absurd h' (by decide)
    · exact noSlash_joinDots hids h'

/-- a string of the documented version grammar contains no slash -/
theorem noSlash_valid {v : Bytes} (h : Valid v) : (47 : UInt8) ∉ v := by
  have h118 : (47 : UInt8) ≠ 118 := by decide
  have h46 : (47 : UInt8) ≠ 46 := by decide
  obtain ⟨maj, nmaj, h | ⟨min, nmin, h | ⟨pat, pre, bld, npat, hpre, hbld, h⟩⟩⟩ := h
  · subst h
    simp only [List.mem_cons, not_or]
    exact ⟨h118, noSlash_num nmaj⟩
  · subst h
    simp only [List.mem_cons, List.mem_append, List.cons_append, not_or]
    exact ⟨h118, noSlash_num nmaj, h46, noSlash_num nmin⟩
  · subst h
    simp only [List.mem_cons, List.mem_append, List.cons_append, List.append_assoc, not_or]
    exact ⟨h118, noSlash_num nmaj, h46, noSlash_num nmin, h46, noSlash_num npat, noSlash_preOpt hpre,
      noSlash_buildOpt hbld⟩

theorem valid_of_isValid {v : Bytes} (h : Semver.isValid v = true) : Valid v := by
  rw [Semver.valid_iff_decomp]
  unfold Semver.isValid at h
  cases hp : Semver.parse v with
  | none => rw [hp] at h; simp at h
  | some p => exact ⟨p, Semver.parse_decomp hp⟩

/-- what `module.Check(path, version) == nil` gives: `module.CheckPath` passed, the version is valid -/
theorem check_ok {p v : Bytes} (h : Module.check p v = .ok ()) :
    Module.checkPath (fun _ => false) .module p = .ok () ∧ Semver.isValid v = true := by
  unfold Module.check at h
  cases hm : Module.checkModPath p with
  | error e => rw [hm] at h; cases h
  | ok u =>
    rw [hm] at h
    cases hv : Semver.isValid v with
    | false => simp [hv] at h
    | true =>
      refine ⟨?_, rfl⟩
      unfold Module.checkModPath at hm
      cases hc : Module.checkPath (fun _ => false) .module p with
      | error e => rw [hc] at hm; cases hm
      | ok u => rfl

/-- the driver's `modOK` satisfies `ModOKSound` -/
theorem modOKSound_check : ModOKSound modOKOf := by
  intro p v h
  have hck : Module.check p v = .ok () := by
    unfold modOKOf at h
    cases hc : Module.check p v with
    | ok u => rfl
    | error e => rw [hc] at h; simp at h
  obtain ⟨hp, hv⟩ := check_ok hck
  have hspec := (Module.checkPath_iff_spec (fun _ => false) .module p).mp hp
  refine ⟨?_, noSlash_valid (valid_of_isValid hv)⟩
  intro c hc
  have he := hspec.2.2.2 c hc
  refine ⟨he.1, ?_, ?_⟩
  · intro e; apply he.2.1; rw [e]; simp
  · intro e; apply he.2.1; rw [e]; simp

end ModVerif.DirhashZip
