/-
  C10 groundwork, hash layer: `tileHash` on `2^j` hashes is the perfect-tree hash `ptree`; it is injective
  under collision freedom of `node`; on the true hashes of level `l` it yields the true hash of level `l + j`.
-/
import ModVerif.Proofs.TileAuthArith
import ModVerif.Proofs.TlogStoreInv
namespace ModVerif.TileAuth
open ModVerif ModVerif.Tlog ModVerif.Tile

theorem take_range' (s n k : Nat) (hk : k ≤ n) : (List.range' s n).take k = List.range' s k := by
  have : List.range' s n = List.range' s k ++ List.range' (s + 1 * k) (n - k) := by
    rw [List.range'_append]; congr 1; omega
  rw [this, List.take_left' (by simp)]

section
variable {H : Type} (node : H → H → H)

/-- hash of the perfect binary tree over `2^j` hashes -/
def ptree : Nat → List H → Option H
  | 0, d =>
    match d with
    | [x] => some x
    | _ => none
  | j + 1, d =>
    match ptree j (d.take (2 ^ j)), ptree j (d.drop (2 ^ j)) with
    | some a, some b => some (node a b)
    | _, _ => none

theorem ptree_succ_some (j : Nat) (d : List H) (r : H) (h : ptree node (j + 1) d = some r) :
    ∃ a b, ptree node j (d.take (2 ^ j)) = some a ∧ ptree node j (d.drop (2 ^ j)) = some b ∧ r = node a b := by
  simp only [ptree] at h
  split at h
  · rename_i a b ha hb
    exact ⟨a, b, ha, hb, by simpa using h.symm⟩
  · cases h

theorem ptree_isSome : ∀ j (d : List H), d.length = 2 ^ j → ∃ r, ptree node j d = some r := by
  intro j
  induction j with
  | zero =>
    intro d hd
    match d, hd with
    | [x], _ => exact ⟨x, rfl⟩
  | succ j ih =>
    intro d hd
    have hp := Nat.two_pow_pos j
    rw [Nat.pow_succ] at hd
    obtain ⟨a, ha⟩ := ih (d.take (2 ^ j)) (by rw [List.length_take]; omega)
    obtain ⟨b, hb⟩ := ih (d.drop (2 ^ j)) (by rw [List.length_drop]; omega)
    exact ⟨node a b, by simp only [ptree, ha, hb]⟩

theorem ptree_length : ∀ j (d : List H) r, ptree node j d = some r → 2 ^ j ≤ d.length := by
  intro j
  induction j with
  | zero =>
    intro d r h
    match d, h with
    | [x], _ => simp
  | succ j ih =>
    intro d r h
    obtain ⟨a, b, ha, hb, _⟩ := ptree_succ_some node j d r h
    have h1 := ih _ _ ha
    have h2 := ih _ _ hb
    rw [List.length_take] at h1
    rw [List.length_drop] at h2
    rw [Nat.pow_succ]; omega

theorem tileHashF_step (f : Nat) (d : List H) (h : 2 ≤ d.length) :
    tileHashF node (f + 1) d = (do
      let a ← tileHashF node f (d.take (d.length / 2))
      let b ← tileHashF node f (d.drop (d.length / 2))
      pure (node a b)) := by
  match d, h with
  | a :: b :: t, _ => rfl

/-- on `2^j` hashes `tileHash` never fails and is the perfect-tree hash -/
theorem tileHashF_ptree : ∀ j f (d : List H) r, d.length = 2 ^ j → 2 ^ j ≤ f → ptree node j d = some r →
    tileHashF node f d = .ok r := by
  intro j
  induction j with
  | zero =>
    intro f d r hd hf hr
    match d, hd, f, hf with
    | [x], _, f + 1, _ =>
      simp only [ptree, Option.some.injEq] at hr
      subst hr; rfl
    | [x], _, 0, hf => simp at hf
  | succ j ih =>
    intro f d r hd hf hr
    have hp := Nat.two_pow_pos j
    rw [Nat.pow_succ] at hd hf
    obtain ⟨a, b, ha, hb, hr'⟩ := ptree_succ_some node j d r hr
    match f, hf with
    | 0, hf => omega
    | f + 1, hf =>
      rw [tileHashF_step node f d (by omega)]
      have hhalf : d.length / 2 = 2 ^ j := by omega
      rw [hhalf, ih f _ a (by rw [List.length_take]; omega) (by omega) ha,
        ih f _ b (by rw [List.length_drop]; omega) (by omega) hb, hr']
      rfl

theorem tileHash_ptree (j : Nat) (d : List H) (r : H) (hd : d.length = 2 ^ j) (hr : ptree node j d = some r) :
    tileHash node d = .ok r := by
  unfold tileHash
  exact tileHashF_ptree node j _ d r hd (by omega) hr

/-- conversely, the value of `tileHash` on `2^j` hashes is `ptree` -/
theorem ptree_of_tileHash (j : Nat) (d : List H) (r : H) (hd : d.length = 2 ^ j) (hr : tileHash node d = .ok r) :
    ptree node j d = some r := by
  obtain ⟨r', hr'⟩ := ptree_isSome node j d hd
  have := tileHash_ptree node j d r' hd hr'
  rw [hr] at this
  cases this
  exact hr'

/-- under collision freedom of `node` the perfect-tree hash is injective -/
theorem ptree_inj (hcf : ∀ a b c d : H, node a b = node c d → a = c ∧ b = d) :
    ∀ j (d d' : List H) r, d.length = 2 ^ j → d'.length = 2 ^ j → ptree node j d = some r →
      ptree node j d' = some r → d = d' := by
  intro j
  induction j with
  | zero =>
    intro d d' r hd hd' h h'
    match d, hd, d', hd' with
    | [x], _, [y], _ =>
      simp only [ptree, Option.some.injEq] at h h'
      rw [h, h']
  | succ j ih =>
    intro d d' r hd hd' h h'
    have hp := Nat.two_pow_pos j
    rw [Nat.pow_succ] at hd hd'
    obtain ⟨a, b, ha, hb, hr⟩ := ptree_succ_some node j d r h
    obtain ⟨a', b', ha', hb', hr'⟩ := ptree_succ_some node j d' r h'
    have := hcf a b a' b' (by rw [← hr, ← hr'])
    obtain ⟨e1, e2⟩ := this
    subst e1 e2
    have t1 := ih _ _ a (by rw [List.length_take]; omega) (by rw [List.length_take]; omega) ha ha'
    have t2 := ih _ _ b (by rw [List.length_drop]; omega) (by rw [List.length_drop]; omega) hb hb'
    rw [← List.take_append_drop (2 ^ j) d, ← List.take_append_drop (2 ^ j) d', t1, t2]

/-! ### true hashes -/

variable (T : Nat → Nat → H) (N : Nat)

/-- the true hash of a complete subtree is the node hash of its children -/
def StepOK : Prop := ∀ l k, (k + 1) * 2 ^ (l + 1) ≤ N → T (l + 1) k = node (T l (2 * k)) (T l (2 * k + 1))

theorem ptree_T (hstep : StepOK node T N) : ∀ j l k, (k + 1) * 2 ^ (l + j) ≤ N →
    ptree node j ((List.range' (k * 2 ^ j) (2 ^ j)).map (T l)) = some (T (l + j) k) := by
  intro j
  induction j with
  | zero =>
    intro l k _
    simp [ptree]
  | succ j ih =>
    intro l k hv
    have hp := Nat.two_pow_pos j
    have hpl := Nat.two_pow_pos (l + j)
    have e0 : 2 ^ (j + 1) = 2 ^ j + 2 ^ j := by rw [Nat.pow_succ]; omega
    have e1 : k * 2 ^ (j + 1) = 2 * k * 2 ^ j := by rw [Nat.pow_succ]; ac_rfl
    have e2 : k * 2 ^ (j + 1) + 1 * 2 ^ j = (2 * k + 1) * 2 ^ j := by rw [e1, Nat.add_mul]
    have e3 : 2 ^ (l + (j + 1)) = 2 ^ (l + j) + 2 ^ (l + j) := by
      rw [show l + (j + 1) = (l + j) + 1 by omega, Nat.pow_succ]; omega
    have hv' : (k + 1) * 2 ^ (l + j) + (k + 1) * 2 ^ (l + j) ≤ N := by
      rw [e3, Nat.mul_add] at hv; exact hv
    have v1 : (2 * k + 1) * 2 ^ (l + j) ≤ N := by
      have : (2 * k + 1) * 2 ^ (l + j) ≤ (k + 1) * 2 ^ (l + j) + (k + 1) * 2 ^ (l + j) := by
        rw [← Nat.add_mul]; exact Nat.mul_le_mul_right _ (by omega)
      omega
    have v2 : (2 * k + 1 + 1) * 2 ^ (l + j) ≤ N := by
      have : (2 * k + 1 + 1) * 2 ^ (l + j) = (k + 1) * 2 ^ (l + j) + (k + 1) * 2 ^ (l + j) := by
        rw [← Nat.add_mul]; congr 1; omega
      omega
    have t1 : (List.map (T l) (List.range' (k * 2 ^ (j + 1)) (2 ^ (j + 1)))).take (2 ^ j) =
        List.map (T l) (List.range' (2 * k * 2 ^ j) (2 ^ j)) := by
      rw [← List.map_take, take_range' _ _ _ (by omega), e1]
    have t2 : (List.map (T l) (List.range' (k * 2 ^ (j + 1)) (2 ^ (j + 1)))).drop (2 ^ j) =
        List.map (T l) (List.range' ((2 * k + 1) * 2 ^ j) (2 ^ j)) := by
      rw [← List.map_drop, List.drop_range', Nat.mul_comm (2 ^ j) 1, e2]
      congr 2; omega
    simp only [ptree]
    rw [t1, t2, ih l (2 * k) v1, ih l (2 * k + 1) v2]
    simp only
    rw [show l + (j + 1) = (l + j) + 1 by omega, hstep (l + j) k (by rw [show l + j + 1 = l + (j + 1) by omega]; exact hv)]

end
end ModVerif.TileAuth

namespace ModVerif.TileAuth
open ModVerif ModVerif.Tlog ModVerif.Tile

theorem mapM_option_some {α β : Type} (f : α → Option β) (g : α → β) :
    ∀ l : List α, (∀ x ∈ l, f x = some (g x)) → l.mapM f = some (l.map g) := by
  intro l
  induction l with
  | nil => intro _; rfl
  | cons a l ih =>
    intro hl
    rw [List.mapM_cons, hl a (by simp), ih (fun x hx => hl x (by simp [hx]))]
    rfl

section
variable {H : Type} (node : H → H → H) (T : Nat → Nat → H) (N : Nat)

/-- the true content of the tile at tile coordinates `(L, n)` cut to width `w` -/
def tdata (h L n w : Nat) : List H := (List.range' (n * 2 ^ h) w).map (T (L * h))

theorem tdata_length (h L n w : Nat) : (tdata T h L n w).length = w := by simp [tdata]

theorem tdata_get (h L n w q : Nat) (hq : q < w) : (tdata T h L n w)[q]? = some (T (L * h) (n * 2 ^ h + q)) := by
  simp [tdata, List.getElem?_map, List.getElem?_range' hq]

theorem tdata_slice (h L n w s m : Nat) (hle : s + m ≤ w) :
    ((tdata T h L n w).take (s + m)).drop s = (List.range' (n * 2 ^ h + s) m).map (T (L * h)) := by
  unfold tdata
  rw [← List.map_take, take_range' _ _ _ hle, ← List.map_drop, List.drop_range']
  congr 2 <;> omega

/-- what the proofs need to know about the store and the true hashes `T l k` of a tree of `N` records -/
structure Env (st : List H) : Prop where
  step : StepOK node T N
  get : ∀ l k, (k + 1) * 2 ^ l ≤ N → st[storedHashIndex l k]? = some (T l k)
  split : ∀ l k, (k + 1) * 2 ^ l ≤ N → splitStoredHashIndex (storedHashIndex l k) = .ok (l, k)

/-- the honest server returns `tdata` for every tile inside the tree -/
theorem trueTile_eq (st : List H) (env : Env node T N st) (t : Tile) (hw : 0 < t.w)
    (hin : t.n * 2 ^ t.h + t.w ≤ cnt t.h N t.l) : trueTile st t = some (tdata T t.h t.l t.n t.w) := by
  unfold trueTile readTileData
  have hw0 : (t.w == 0) = false := by simp; omega
  simp only [hw0, Bool.false_eq_true, ↓reduceIte, Nat.shiftLeft_eq]
  rw [TlogStore.readChecked_store st (fun i => storedHashIndex (t.h * t.l) (t.n * 2 ^ t.h + i))
    (fun i => T (t.l * t.h) (t.n * 2 ^ t.h + i)) (List.range t.w)]
  · simp only [tdata, List.range'_eq_map_range, List.map_map]
    rfl
  · intro i hi
    have hi' : i < t.w := List.mem_range.mp hi
    rw [Nat.mul_comm t.h t.l]
    apply env.get
    rw [valid_iff]
    omega

end
end ModVerif.TileAuth
