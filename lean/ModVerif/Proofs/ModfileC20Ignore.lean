/-
  C20 `lax_ignores_unknown` at the level of the statement list: the lax directive layer's typed state does
  not depend on statements it ignores (unknown directives, unknown blocks, blocks of verbs it does not
  keep, comment blocks), wherever and however many of them occur.
-/
import ModVerif.Proofs.ModfileRule
namespace ModVerif.Proofs.ModfileC20
open ModVerif ModVerif.Modfile ModVerif.Proofs.ModfileRule

/-- statements the lax directive layer ignores -/
def laxIgnored : Expr → Bool
  | .line l =>
    match l.token with
    | verb :: _ => !verbIn verb laxVerbs
    | [] => true
  | .lineBlock b =>
    match b.token with
    | [verb] => !(verbIn verb blockVerbs && verbIn verb laxVerbs)
    | _ => true
  | _ => true

theorem addBlockLines_lax_ignored (block : Comments) (verb : Bytes) (fix : Option Fixer)
    (hv : verbIn verb laxVerbs = false) :
    ∀ (ls : List Line) (st : AddState), (addBlockLines block verb fix false st ls).1 = st := by
  intro ls
  induction ls with
  | nil => intro st; rfl
  | cons l rest ih =>
    intro st
    unfold addBlockLines
    rw [add_lax_ignores st (some block) l verb l.token fix hv]
    exact ih st

/-- one iteration of `addStmts` (the body of the model's loop) -/
def stmtStep (fix : Option Fixer) (strict : Bool) (st : AddState) (x : Expr) : AddState × Expr :=
  match x with
  | .line l =>
    match l.token with
    | verb :: args =>
      let (st, args) := File.add st none l verb args fix strict
      (st, .line { l with token := verb :: args })
    | [] => (st, x)
  | .lineBlock b =>
    match b.token with
    | [verb] =>
      if verbIn verb blockVerbs then
        let (st, ls) := addBlockLines b.comments verb fix strict st b.lines
        (st, .lineBlock { b with lines := ls })
      else (if strict then st.err b.start .unknownBlock else st, x)
    | _ => (if strict then st.err b.start .unknownBlock else st, x)
  | _ => (st, x)

theorem addStmts_cons (fix : Option Fixer) (strict : Bool) (st : AddState) (x : Expr) (xs : List Expr) :
    addStmts fix strict st (x :: xs) =
      ((addStmts fix strict (stmtStep fix strict st x).1 xs).1,
        (stmtStep fix strict st x).2 :: (addStmts fix strict (stmtStep fix strict st x).1 xs).2) := by
  conv => lhs; unfold addStmts
  rfl

/-- one ignored statement leaves the lax state alone -/
theorem addStmts_lax_ignored_cons (fix : Option Fixer) (st : AddState) (x : Expr) (xs : List Expr)
    (hx : laxIgnored x = true) :
    (addStmts fix false st (x :: xs)).1 = (addStmts fix false st xs).1 := by
  rw [addStmts_cons]
  have : (stmtStep fix false st x).1 = st := by
    unfold stmtStep
    cases x with
    | line l =>
      cases htok : l.token with
      | nil => simp only [htok]
      | cons verb args =>
        simp only [laxIgnored, htok, Bool.not_eq_true'] at hx
        simp only [htok, add_lax_ignores st none l verb args fix hx]
    | lineBlock b =>
      simp only
      split
      · rename_i verb hv
        simp only [laxIgnored, hv, Bool.not_eq_true', Bool.and_eq_false_iff] at hx
        split
        · rename_i hbv
          rcases hx with hx | hx
          · rw [hbv] at hx; cases hx
          · simp only [addBlockLines_lax_ignored b.comments verb fix hx b.lines st]
        · simp
      · simp
    | commentBlock c => rfl
    | lparen c => rfl
    | rparen c => rfl
  simp only [this]

/-- one kept statement is processed the same way whatever follows; used to peel the list -/
theorem addStmts_fst_cons (fix : Option Fixer) (strict : Bool) (st : AddState) (x : Expr) (xs ys : List Expr)
    (h : ∀ st', (addStmts fix strict st' xs).1 = (addStmts fix strict st' ys).1) :
    (addStmts fix strict st (x :: xs)).1 = (addStmts fix strict st (x :: ys)).1 := by
  rw [addStmts_cons, addStmts_cons]
  exact h _

/-- `lax_ignores_unknown`, statement-list form: removing every ignored statement does not change the lax
    typed state (module, go, require, retract, and the error list). -/
theorem addStmts_lax_filter (fix : Option Fixer) :
    ∀ (xs : List Expr) (st : AddState),
    (addStmts fix false st xs).1 = (addStmts fix false st (xs.filter (fun x => !laxIgnored x))).1 := by
  intro xs
  induction xs with
  | nil => intro st; rfl
  | cons x rest ih =>
    intro st
    cases hx : laxIgnored x with
    | true =>
      rw [addStmts_lax_ignored_cons fix st x rest hx]
      simp only [List.filter_cons, hx, Bool.not_true, Bool.false_eq_true, if_false]
      exact ih st
    | false =>
      simp only [List.filter_cons, hx, Bool.not_false, if_true]
      exact addStmts_fst_cons fix false st x rest _ ih

end ModVerif.Proofs.ModfileC20
