/-
  General lemmas about the GoRt run-time vocabulary (lean/ModVerif/Basic/GoRt.lean), for the tie proofs
  (regenerated code = hand model).  Core Lean only.

  Conventions: a Go index that the loop invariant knows to be the natural number `k` appears in the generated
  code as the `Int` `(k : Int)` (= `Int.ofNat k`); all lemmas are stated for the cast form `((k : Nat) : Int)`
  and there are `Int.ofNat` variants where useful.
-/
import ModVerif.Basic.GoRt
namespace ModVerif.GoRt
open ModVerif

/-! ### len -/

theorem len_eq {α : Type} (s : List α) : len s = (s.length : Int) := rfl

@[simp] theorem len_nil {α : Type} : len ([] : List α) = 0 := rfl

@[simp] theorem len_cons {α : Type} (a : α) (s : List α) : len (a :: s) = len s + 1 := by
  simp [len_eq]

theorem len_nonneg {α : Type} (s : List α) : 0 ≤ len s := by
  simp [len_eq]

theorem len_append {α : Type} (s t : List α) : len (s ++ t) = len s + len t := by
  simp [len_eq]

/-! ### idx : `s[i]` on byte strings -/

theorem idx_natCast {v : Bytes} {k : Nat} (h : k < v.length) :
    idx v (k : Int) = .ok ((v[k].toNat : Nat) : Int) := by
  have h0 : ¬ ((k : Int) < 0) := by omega
  simp [idx, h0, h, pure, Except.pure]

theorem idx_ofNat {v : Bytes} {k : Nat} (h : k < v.length) :
    idx v (Int.ofNat k) = .ok (Int.ofNat v[k].toNat) := idx_natCast h

/-- general form: any in-range `Int` index -/
theorem idx_of_range {v : Bytes} {i : Int} (h0 : 0 ≤ i) (h1 : i < len v) :
    idx v i = .ok ((v[i.toNat]'(by simp [len_eq] at h1; omega)).toNat : Int) := by
  have hk : i.toNat < v.length := by simp [len_eq] at h1; omega
  have := idx_natCast hk
  rwa [Int.toNat_of_nonneg h0] at this

theorem idx_neg {v : Bytes} {i : Int} (h : i < 0) : idx v i = .error .panic := by
  simp [idx, h, throw, throwThe, MonadExceptOf.throw]

theorem idx_natCast_ge {v : Bytes} {k : Nat} (h : v.length ≤ k) : idx v (k : Int) = .error .panic := by
  have h0 : ¬ ((k : Int) < 0) := by omega
  simp [idx, h0, h, throw, throwThe, MonadExceptOf.throw]

@[simp] theorem idx_zero_cons (c : UInt8) (v : Bytes) : idx (c :: v) 0 = .ok ((c.toNat : Nat) : Int) := by
  simp [idx, pure, Except.pure]

@[simp] theorem idx_zero_nil : idx [] 0 = .error .panic := by
  simp [idx, throw, throwThe, MonadExceptOf.throw]

theorem idx_one_cons (c : UInt8) (v : Bytes) : idx (c :: v) 1 = idx v 0 := by
  cases v <;> simp [idx]

theorem idx_succ_cons (c : UInt8) (v : Bytes) (k : Nat) :
    idx (c :: v) ((k : Int) + 1) = idx v (k : Int) := by
  have h0 : ¬ ((k : Int) + 1 < 0) := by omega
  have h1 : ¬ ((k : Int) < 0) := by omega
  have h2 : ((k : Int) + 1).toNat = k + 1 := by omega
  simp [idx, h0, h1, h2]

/-- the byte at the split point: `(pre ++ c :: suf)[len pre] = c` (the shape of every string-scan invariant) -/
theorem idx_append_length (pre : Bytes) (c : UInt8) (suf : Bytes) :
    idx (pre ++ c :: suf) (pre.length : Int) = .ok ((c.toNat : Nat) : Int) := by
  have h : pre.length < (pre ++ c :: suf).length := by simp
  rw [idx_natCast h]; simp

/-! ### idxL : `s[i]` on slices -/

theorem idxL_natCast {α : Type} {v : List α} {k : Nat} (h : k < v.length) :
    idxL v (k : Int) = .ok v[k] := by
  have h0 : ¬ ((k : Int) < 0) := by omega
  simp [idxL, h0, h, pure, Except.pure]

theorem idxL_of_range {α : Type} {v : List α} {i : Int} (h0 : 0 ≤ i) (h1 : i < len v) :
    idxL v i = .ok (v[i.toNat]'(by simp [len_eq] at h1; omega)) := by
  have hk : i.toNat < v.length := by simp [len_eq] at h1; omega
  have := idxL_natCast hk
  rwa [Int.toNat_of_nonneg h0] at this

theorem idxL_neg {α : Type} {v : List α} {i : Int} (h : i < 0) : idxL v i = .error .panic := by
  simp [idxL, h, throw, throwThe, MonadExceptOf.throw]

theorem idxL_natCast_ge {α : Type} {v : List α} {k : Nat} (h : v.length ≤ k) :
    idxL v (k : Int) = .error .panic := by
  have h0 : ¬ ((k : Int) < 0) := by omega
  simp [idxL, h0, h, throw, throwThe, MonadExceptOf.throw]

/-! ### slices -/

theorem sliceTo_natCast {α : Type} {v : List α} {k : Nat} (h : k ≤ v.length) :
    sliceTo v (k : Int) = .ok (v.take k) := by
  have h1 : (0 : Int) ≤ (k : Int) ∧ (k : Int) ≤ len v := by simp [len_eq]; omega
  simp [sliceTo, h1, pure, Except.pure]

theorem sliceFrom_natCast {α : Type} {v : List α} {k : Nat} (h : k ≤ v.length) :
    sliceFrom v (k : Int) = .ok (v.drop k) := by
  have h1 : (0 : Int) ≤ (k : Int) ∧ (k : Int) ≤ len v := by simp [len_eq]; omega
  simp [sliceFrom, h1, pure, Except.pure]

theorem slice_natCast {α : Type} {v : List α} {a b : Nat} (hab : a ≤ b) (hb : b ≤ v.length) :
    slice v (a : Int) (b : Int) = .ok ((v.take b).drop a) := by
  have h1 : (0 : Int) ≤ (a : Int) ∧ (a : Int) ≤ (b : Int) ∧ (b : Int) ≤ len v := by
    simp [len_eq]; omega
  simp [slice, h1, pure, Except.pure]

theorem sliceTo_of_range {α : Type} {v : List α} {i : Int} (h0 : 0 ≤ i) (h1 : i ≤ len v) :
    sliceTo v i = .ok (v.take i.toNat) := by
  simp [sliceTo, h0, h1, pure, Except.pure]

theorem sliceFrom_of_range {α : Type} {v : List α} {i : Int} (h0 : 0 ≤ i) (h1 : i ≤ len v) :
    sliceFrom v i = .ok (v.drop i.toNat) := by
  simp [sliceFrom, h0, h1, pure, Except.pure]

theorem slice_of_range {α : Type} {v : List α} {lo hi : Int} (h0 : 0 ≤ lo) (h1 : lo ≤ hi) (h2 : hi ≤ len v) :
    slice v lo hi = .ok ((v.take hi.toNat).drop lo.toNat) := by
  simp [slice, h0, h1, h2, pure, Except.pure]

theorem sliceTo_panic {α : Type} {v : List α} {i : Int} (h : i < 0 ∨ len v < i) :
    sliceTo v i = .error .panic := by
  have : ¬ (0 ≤ i ∧ i ≤ len v) := by omega
  simp [sliceTo, this, throw, throwThe, MonadExceptOf.throw]

theorem sliceFrom_panic {α : Type} {v : List α} {i : Int} (h : i < 0 ∨ len v < i) :
    sliceFrom v i = .error .panic := by
  have : ¬ (0 ≤ i ∧ i ≤ len v) := by omega
  simp [sliceFrom, this, throw, throwThe, MonadExceptOf.throw]

@[simp] theorem sliceFrom_zero {α : Type} (v : List α) : sliceFrom v 0 = .ok v := by
  simp [sliceFrom, len_eq, pure, Except.pure]

@[simp] theorem sliceFrom_one_cons {α : Type} (c : α) (v : List α) : sliceFrom (c :: v) 1 = .ok v := by
  have := sliceFrom_natCast (v := c :: v) (k := 1) (by simp)
  simpa using this

@[simp] theorem sliceTo_len {α : Type} (v : List α) : sliceTo v (len v) = .ok v := by
  have := sliceTo_natCast (v := v) (k := v.length) (Nat.le_refl _)
  simpa [len_eq] using this

@[simp] theorem sliceFrom_len {α : Type} (v : List α) : sliceFrom v (len v) = .ok [] := by
  have := sliceFrom_natCast (v := v) (k := v.length) (Nat.le_refl _)
  simpa [len_eq] using this

/-! ### bytes as integers -/

theorem byte_lt_256 (c : UInt8) : ((c.toNat : Nat) : Int) < 256 := by
  have := c.toNat_lt; omega

theorem byte_nonneg (c : UInt8) : (0 : Int) ≤ ((c.toNat : Nat) : Int) := by omega

/-! Comparison of a byte read from a string (an `Int`) with a literal: instantiate `d` with the literal byte and
    discharge `hn` by `rfl`, e.g. `int_le_byte (n := 48) (d := 48) rfl : (48 : Int) ≤ ↑c.toNat ↔ 48 ≤ c`. -/

theorem int_le_byte {n : Int} {d c : UInt8} (hn : n = ((d.toNat : Nat) : Int)) :
    n ≤ ((c.toNat : Nat) : Int) ↔ d ≤ c := by
  subst hn; rw [UInt8.le_iff_toNat_le]; omega

theorem byte_le_int {n : Int} {d c : UInt8} (hn : n = ((d.toNat : Nat) : Int)) :
    ((c.toNat : Nat) : Int) ≤ n ↔ c ≤ d := by
  subst hn; rw [UInt8.le_iff_toNat_le]; omega

theorem int_lt_byte {n : Int} {d c : UInt8} (hn : n = ((d.toNat : Nat) : Int)) :
    n < ((c.toNat : Nat) : Int) ↔ d < c := by
  subst hn; rw [UInt8.lt_iff_toNat_lt]; omega

theorem byte_lt_int {n : Int} {d c : UInt8} (hn : n = ((d.toNat : Nat) : Int)) :
    ((c.toNat : Nat) : Int) < n ↔ c < d := by
  subst hn; rw [UInt8.lt_iff_toNat_lt]; omega

theorem byte_eq_int {n : Int} {d c : UInt8} (hn : n = ((d.toNat : Nat) : Int)) :
    ((c.toNat : Nat) : Int) = n ↔ c = d := by
  subst hn
  constructor
  · intro h; apply UInt8.toNat_inj.mp; omega
  · intro h; subst h; rfl

theorem int_eq_byte {n : Int} {d c : UInt8} (hn : n = ((d.toNat : Nat) : Int)) :
    n = ((c.toNat : Nat) : Int) ↔ d = c := by
  subst hn
  constructor
  · intro h; apply UInt8.toNat_inj.mp; omega
  · intro h; subst h; rfl

/-- two bytes are equal iff their integer values are -/
theorem byte_toInt_inj {c d : UInt8} : (((c.toNat : Nat) : Int) = ((d.toNat : Nat) : Int)) ↔ c = d := by
  constructor
  · intro h; apply UInt8.toNat_inj.mp; omega
  · intro h; subst h; rfl

/-! ### scans: a Go index loop `for i < len(v) && p(v[i]) { i++ }` stops at `(v.takeWhile p).length` -/

theorem take_length_takeWhile {α : Type} (p : α → Bool) : ∀ l : List α,
    l.take (l.takeWhile p).length = l.takeWhile p
  | [] => rfl
  | a :: l => by
    by_cases h : p a = true
    · simp [h, take_length_takeWhile p l]
    · simp [h]

theorem drop_length_takeWhile {α : Type} (p : α → Bool) : ∀ l : List α,
    l.drop (l.takeWhile p).length = l.dropWhile p
  | [] => rfl
  | a :: l => by
    by_cases h : p a = true
    · simp [h, drop_length_takeWhile p l]
    · simp [h]

theorem length_takeWhile_le {α : Type} (p : α → Bool) : ∀ l : List α, (l.takeWhile p).length ≤ l.length
  | [] => Nat.le_refl _
  | a :: l => by
    by_cases h : p a = true
    · simp [h, length_takeWhile_le p l]
    · simp [h]

theorem length_takeWhile_eq_iff_all {α : Type} (p : α → Bool) : ∀ l : List α,
    ((l.takeWhile p).length = l.length) ↔ l.all p = true
  | [] => by simp
  | a :: l => by
    by_cases h : p a = true
    · simp [h, length_takeWhile_eq_iff_all p l]
    · simp [h]

/-! ### mkByte -/

theorem mkByte_byte (c : UInt8) : mkByte ((c.toNat : Nat) : Int) = c := by
  have := c.toNat_lt
  have h : (((c.toNat : Nat) : Int) % 256).toNat = c.toNat := by omega
  simp [mkByte, h]

/-! ### strLt -/

@[simp] theorem strLt_eq (a b : Bytes) : strLt a b = bytesLt a b := rfl

/-! ### the Except monad of the generated code -/

@[simp] theorem bind_ok {α β : Type} (a : α) (f : α → M β) : (Except.ok a >>= f) = f a := rfl

@[simp] theorem bind_error {α β : Type} (e : Err) (f : α → M β) : ((Except.error e : M α) >>= f) = .error e := rfl

@[simp] theorem pure_eq_ok {α : Type} (a : α) : (pure a : M α) = .ok a := rfl

@[simp] theorem throw_eq_error {α : Type} (e : Err) : (throw e : M α) = .error e := rfl

end ModVerif.GoRt
