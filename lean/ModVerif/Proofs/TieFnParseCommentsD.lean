/-
  Helper lemmas for Tie/FnParseComments.lean, part D: the nodes of a reified statement, what `Expr_setComments` at one
  node does to the reification of the statement that owns the node (self lemmas) and of every other statement (frame).
-/
import ModVerif.Proofs.TieFnParseCommentsB
import ModVerif.Proofs.TieFnParseCommentsC
set_option linter.unusedSimpArgs false
set_option linter.unusedVariables false
namespace ModVerif.TieFnParseComments
open ModVerif ModVerif.GoRt ModVerif.Generated ModVerif.Generated.Parse ModVerif.Tie.FnParseHeap

/-! ### the nodes of a statement, from the model side -/

def linePtr (l : Modfile.Line) : Int := ((l.id + 1 : Nat) : Int)

def lineNodes (ls : List Modfile.Line) : List Expr := ls.map (fun l => Expr.Line (linePtr l))

def stmtNodes (o : Ord) : Expr → Modfile.Expr → List Expr
  | .LineBlock p, .lineBlock b =>
    match o with
    | .pre => .LineBlock p :: .LParen p :: (lineNodes b.lines ++ [.RParen p])
    | .rpost => .LineBlock p :: .RParen p :: (lineNodes b.lines.reverse ++ [.LParen p])
    | .post => .LParen p :: (lineNodes b.lines ++ [.RParen p, .LineBlock p])
  | e, _ => [e]

def stmtsNodes (o : Ord) : List Expr → List Modfile.Expr → List Expr
  | e :: es, s :: ss => stmtNodes o e s ++ stmtsNodes o es ss
  | _, _ => []

theorem RLines_lineNodes {h : Heap} {ps : List Int} {ls : List Modfile.Line} (hr : RLines h ps ls) :
    lineNodes ls = ps.map Expr.Line := by
  rw [RLines_ptrs hr]; simp [lineNodes, linePtr]

theorem mem_lineNodes_reverse (ls : List Modfile.Line) (x : Expr) : x ∈ lineNodes ls.reverse ↔ x ∈ lineNodes ls := by
  simp [lineNodes]

/-- the node SET does not depend on the order -/
theorem mem_stmtNodes (o : Ord) (e : Expr) (s : Modfile.Expr) (x : Expr) :
    x ∈ stmtNodes o e s ↔ x ∈ stmtNodes .pre e s := by
  cases e <;> cases s <;> try rfl
  cases o <;> simp only [stmtNodes, List.mem_cons, List.mem_append, mem_lineNodes_reverse, List.mem_nil_iff, or_false]
  · constructor <;> (intro h; rcases h with h | h | h | h <;> simp [h])
  · constructor <;> (intro h; rcases h with h | h | h | h <;> simp [h])

theorem mem_stmtsNodes (o : Ord) : ∀ (es : List Expr) (ss : List Modfile.Expr) (x : Expr),
    x ∈ stmtsNodes o es ss ↔ x ∈ stmtsNodes .pre es ss
  | [], _, x => by simp [stmtsNodes]
  | _ :: _, [], x => by simp [stmtsNodes]
  | e :: es, s :: ss, x => by
    simp only [stmtsNodes, List.mem_append, mem_stmtNodes o e s x, mem_stmtsNodes o es ss x]

theorem lineNodes_travLines (F : NodeF) : ∀ (ls : List Modfile.Line) (st : List Modfile.Comment),
    lineNodes (travLines F ls st).1 = lineNodes ls
  | [], st => rfl
  | l :: ls, st => by
    simp only [travLines, lineNodes, List.map_cons, linePtr]
    have := lineNodes_travLines F ls (F (l.start, l.«end») l.comments st).2
    simp only [lineNodes, linePtr] at this
    rw [this]

theorem lineNodes_reverse (ls : List Modfile.Line) : lineNodes ls.reverse = (lineNodes ls).reverse := by
  simp [lineNodes]

/-- the passes do not change the nodes -/
theorem stmtNodes_travStmt (o' o : Ord) (F : NodeF) (e : Expr) (s : Modfile.Expr) (st : List Modfile.Comment) :
    stmtNodes o' e (travStmt o F s st).1 = stmtNodes o' e s := by
  cases s with
  | lineBlock b =>
    cases e <;> try (cases o <;> rfl)
    cases o <;> cases o' <;>
      simp only [travStmt, stmtNodes, lineNodes_reverse, lineNodes_travLines, List.reverse_reverse]
  | commentBlock c => cases e <;> rfl
  | line l => cases e <;> rfl
  | lparen l => cases e <;> rfl
  | rparen l => cases e <;> rfl

/-! ### frame: a node of ANOTHER statement -/

/-- setting the comments of a node that the statement `e2` does not own leaves the reification of `e2` alone -/
theorem frame_set {x : Expr} {c : Comments} {h h' : Heap} (hs : Expr_setComments x c h = .ok h')
    {e2 : Expr} {s2 : Modfile.Expr} (hr : RExpr h e2 s2) (hx : x ∉ stmtNodes .pre e2 s2) : RExpr h' e2 s2 := by
  have hsh := setComments_shape hs
  cases x <;> simp only at hsh
  case FileSyntax q => obtain ⟨t, ht, rfl⟩ := hsh; exact (RExpr_files _ _ _ _).2 hr
  case CommentBlock q =>
    obtain ⟨t, ht, rfl⟩ := hsh
    cases e2 <;> cases s2 <;> simp only [RExpr] at hr ⊢
    · rename_i p2 c2
      have : p2 ≠ q := by intro e; subst e; exact hx (by simp [stmtNodes])
      simp only [heapGet_listSet_other _ ht this, hr]
    · exact hr
    · obtain ⟨ps, hb, hl⟩ := hr
      exact ⟨ps, hb, (RLines_congr (by rfl)).2 hl⟩
  case Line q =>
    obtain ⟨t, ht, rfl⟩ := hsh
    have hset := heapSet_of_get ({ t with Comments := c }) ht
    cases e2 <;> cases s2 <;> simp only [RExpr] at hr ⊢
    · exact hr
    · rename_i p2 l2
      have : p2 ≠ q := by intro e; subst e; exact hx (by simp [stmtNodes])
      exact (RLine_setLine_other hset this).2 hr
    · rename_i p2 b2
      obtain ⟨ps, hb, hl⟩ := hr
      refine ⟨ps, hb, (RLines_setLine_other hset ?_).2 hl⟩
      intro hq
      apply hx
      simp only [stmtNodes, RLines_lineNodes hl, List.mem_cons, List.mem_append, List.mem_map]
      exact Or.inr (Or.inr (Or.inl ⟨q, hq, rfl⟩))
  all_goals (
    obtain ⟨t, ht, rfl⟩ := hsh
    rename_i q
    cases e2 <;> cases s2 <;> simp only [RExpr] at hr ⊢
    · exact hr
    · exact hr
    · rename_i p2 b2
      obtain ⟨ps, hb, hl⟩ := hr
      have : p2 ≠ q := by intro e; subst e; exact hx (by simp [stmtNodes])
      exact ⟨ps, by simp only [heapGet_listSet_other _ ht this, hb], (RLines_congr (by rfl)).2 hl⟩)

/-- the frame of a sequence of updates at the nodes `X`: every statement that owns none of them is untouched -/
def Frame (X : List Expr) (h h' : Heap) : Prop :=
  ∀ e2 s2, RExpr h e2 s2 → (∀ x ∈ X, x ∉ stmtNodes .pre e2 s2) → RExpr h' e2 s2

theorem Frame.refl (h : Heap) : Frame [] h h := fun _ _ hr _ => hr

theorem Frame.trans {X Y : List Expr} {h1 h2 h3 : Heap} (a : Frame X h1 h2) (b : Frame Y h2 h3) :
    Frame (X ++ Y) h1 h3 := by
  intro e2 s2 hr hx
  exact b e2 s2 (a e2 s2 hr (fun x hxX => hx x (List.mem_append_left _ hxX))) (fun x hxY => hx x (List.mem_append_right _ hxY))

theorem Frame.mono {X Y : List Expr} {h h' : Heap} (a : Frame X h h') (hXY : ∀ x ∈ X, x ∈ Y) : Frame Y h h' :=
  fun e2 s2 hr hx => a e2 s2 hr (fun x hxX => hx x (hXY x hxX))

theorem Frame.single {x : Expr} {c : Comments} {h h' : Heap} (hs : Expr_setComments x c h = .ok h') : Frame [x] h h' :=
  fun e2 s2 hr hx => frame_set hs hr (hx x (by simp))

end ModVerif.TieFnParseComments
