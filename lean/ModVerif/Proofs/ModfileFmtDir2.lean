/-
  C02 stage 4, part d: directive values (go.mod) — well-formed typed files, and the `File.add` steps for
  `require` / `exclude` / `retract` / `replace`.
-/
import ModVerif.Proofs.ModfileFmtDir
import ModVerif.Proofs.ModfileFmtFixReplace
namespace ModVerif.Proofs.ModfileFmtDir
open ModVerif ModVerif.Modfile ModVerif.Proofs.ModfileFmtLex ModVerif.Proofs.ModfileFmtLine
open ModVerif.Proofs.ModfileFmtFix

/-- a path as in the property text: non-empty and not a lone bracket or comma -/
def PathOK (p : Bytes) : Prop := p ≠ [] ∧ ∀ c ∈ punctBytes, p ≠ [c]

def VerOK (v : Bytes) : Prop := Semver.isValid v = true

/-- the well-formed files of the property: every path non-empty and not a lone bracket/comma, every version
    a valid semantic version -/
structure WellFormed (f : Modfile.File) : Prop where
  module : ∀ m, f.module = some m → PathOK m.mod.path
  require : ∀ r ∈ f.require, PathOK r.mod.path ∧ VerOK r.mod.version
  exclude : ∀ r ∈ f.exclude, PathOK r.mod.path ∧ VerOK r.mod.version
  replace : ∀ r ∈ f.replace, PathOK r.old.path ∧ (r.old.version ≠ [] → VerOK r.old.version) ∧
    PathOK r.new.path ∧ (r.new.version ≠ [] → VerOK r.new.version)
  retract : ∀ r ∈ f.retract, VerOK r.interval.low ∧ VerOK r.interval.high
  tool : ∀ t ∈ f.tool, PathOK t.path

/-- the token `AutoQuote` writes for a well-formed path is a line token other than a parenthesis -/
theorem pathOK_tok {s : Bytes} (h : PathOK s) : TokText (autoQuote s) ∧ autoQuote s ≠ [40] ∧ autoQuote s ≠ [41] := by
  obtain ⟨k, hk⟩ := ModfileFmtQuote.autoQuote_single_token s
  refine ⟨tokOK_tokText hk, ?_, ?_⟩
  · intro he
    unfold autoQuote at he
    split at he
    · simp [Quote.quote] at he
    · exact h.2 40 (by decide) he
  · intro he
    unfold autoQuote at he
    split at he
    · simp [Quote.quote] at he
    · exact h.2 41 (by decide) he

theorem verOK_tok {v : Bytes} (h : VerOK v) : TokText v ∧ v ≠ [40] ∧ v ≠ [41] := by
  obtain ⟨d, t, hd, _⟩ := valid_head h
  exact ⟨tokOK_tokText (valid_tokOK h), by rw [hd]; simp, by rw [hd]; simp⟩

theorem fixOK_version {fix : Option Fixer} (hfix : FixOK fix) {p tok tok' v : Bytes}
    (h : parseVersion p tok fix = (tok', .ok v)) (hv : fix ≠ none → VerOK v) :
    tok' = v ∧ VerOK v ∧ parseVersion p v fix = (v, .ok v) := by
  rcases hfix with rfl | ⟨fx, rfl, hidem⟩
  · obtain ⟨h1, h2, h3⟩ := parseVersion_none_fix h
    exact ⟨h1, h2, h3 p⟩
  · have hvv := hv (by simp)
    obtain ⟨h1, h2⟩ := parseVersion_some_fix h hvv hidem
    exact ⟨h1, hvv, h2⟩

/-- `require` -/
theorem add_require (st st1 : AddState) (block : Option Comments) (l : Line) (args args1 : List Bytes)
    (fix : Option Fixer) (h : File.add st block l (B "require") args fix true = (st1, args1))
    (he : st1.errsRev = []) (hfix : FixOK fix) (hl : l.comments.suffix = []) :
    ∃ a0 a1 s v, args = [a0, a1] ∧ args1 = [autoQuote s, v] ∧
      st1.file = { st.file with require := st.file.require ++ [{ mod := { path := s, version := v }, indirect := false, lineId := l.id }] } ∧
      ((fix ≠ none → VerOK v) → VerOK v ∧ StepOK st st1 (B "require") args1 fix) := by
  obtain ⟨v1, v2, v3, v4, v5, v6, v7, v8, v9, v10, v11, v12, v13, v14, v15, v16, v17, v18, v19, v20, v21, v22, v23,
    v24, v25, v26, v27, v28, v29, v30, v31, v32, v33, v34, v35, v36⟩ := verb_ne
  have hind : isIndirect l = false := by simp [isIndirect, hl]
  unfold File.add at h
  simp only [Bool.not_true, Bool.false_and, Bool.false_eq_true, if_false, v7, v8, v9, v10, beq_self_eq_true, Bool.true_or,
    if_true] at h
  split at h
  · rename_i a0 a1
    split at h
    · simp only [Prod.mk.injEq] at h; obtain ⟨rfl, _⟩ := h; exact absurd he (err_ne_nil _ _ _)
    · rename_i s a0' hps
      have ha0 := ModfileFmtDir.parseString_tok hps
      subst ha0
      split at h
      · simp only [Prod.mk.injEq] at h; obtain ⟨rfl, _⟩ := h; exact absurd he (err_ne_nil _ _ _)
      · rename_i a1' v hpv
        split at h
        · simp only [Prod.mk.injEq] at h; obtain ⟨rfl, _⟩ := h; exact absurd he (err_ne_nil _ _ _)
        · rename_i pm hpm
          split at h
          · simp only [Prod.mk.injEq] at h; obtain ⟨rfl, _⟩ := h; exact absurd he (err_ne_nil _ _ _)
          · rename_i hcm
            have hcm' : Module.checkPathMajor v pm = true := by simpa using hcm
            have htok := parseVersion_ok_tok hpv
            subst htok
            simp only [Prod.mk.injEq] at h
            obtain ⟨rfl, rfl⟩ := h
            refine ⟨a0, a1, s, a1', rfl, rfl, by simp [hind], ?_⟩
            intro hvv
            obtain ⟨_, hvok, hrefix⟩ := fixOK_version hfix hpv hvv
            refine ⟨hvok, he, ?_⟩
            intro st' block' l' hsim hl'
            have hind' : isIndirect l' = false := by simp [isIndirect, hl']
            refine ⟨{ st' with file := { st'.file with require := st'.file.require ++ [{ mod := { path := s, version := a1' }, indirect := false, lineId := l'.id }] } }, ?_, ?_⟩
            · unfold File.add
              simp only [Bool.not_true, Bool.false_and, Bool.false_eq_true, if_false, v7, v8, v9, v10,
                beq_self_eq_true, Bool.true_or, if_true, ModfileFmtQuote.parseString_autoQuote, hrefix, hpm, hcm',
                Bool.not_true, hind']
            · have hv := (values_eq_iff _ _).1 hsim.vals
              refine ⟨(values_eq_iff _ _).2 ⟨hv.1, hv.2.1, hv.2.2.1, hv.2.2.2.1, ?_, hv.2.2.2.2.2⟩, he, hsim.errs'⟩
              simp [hv.2.2.2.2.1, hind]
  · simp only [Prod.mk.injEq] at h; obtain ⟨rfl, _⟩ := h; exact absurd he (err_ne_nil _ _ _)

/-- `exclude` -/
theorem add_exclude (st st1 : AddState) (block : Option Comments) (l : Line) (args args1 : List Bytes)
    (fix : Option Fixer) (h : File.add st block l (B "exclude") args fix true = (st1, args1))
    (he : st1.errsRev = []) (hfix : FixOK fix) (hl : l.comments.suffix = []) :
    ∃ a0 a1 s v, args = [a0, a1] ∧ args1 = [autoQuote s, v] ∧
      st1.file = { st.file with exclude := st.file.exclude ++ [{ mod := { path := s, version := v }, lineId := l.id }] } ∧
      ((fix ≠ none → VerOK v) → VerOK v ∧ StepOK st st1 (B "exclude") args1 fix) := by
  obtain ⟨v1, v2, v3, v4, v5, v6, v7, v8, v9, v10, v11, v12, v13, v14, v15, v16, v17, v18, v19, v20, v21, v22, v23,
    v24, v25, v26, v27, v28, v29, v30, v31, v32, v33, v34, v35, v36⟩ := verb_ne
  have hind : isIndirect l = false := by simp [isIndirect, hl]
  unfold File.add at h
  simp only [Bool.not_true, Bool.false_and, Bool.false_eq_true, if_false, v11, v12, v13, v14, v15, beq_self_eq_true, Bool.or_true,
    if_true] at h
  split at h
  · rename_i a0 a1
    split at h
    · simp only [Prod.mk.injEq] at h; obtain ⟨rfl, _⟩ := h; exact absurd he (err_ne_nil _ _ _)
    · rename_i s a0' hps
      have ha0 := ModfileFmtDir.parseString_tok hps
      subst ha0
      split at h
      · simp only [Prod.mk.injEq] at h; obtain ⟨rfl, _⟩ := h; exact absurd he (err_ne_nil _ _ _)
      · rename_i a1' v hpv
        split at h
        · simp only [Prod.mk.injEq] at h; obtain ⟨rfl, _⟩ := h; exact absurd he (err_ne_nil _ _ _)
        · rename_i pm hpm
          split at h
          · simp only [Prod.mk.injEq] at h; obtain ⟨rfl, _⟩ := h; exact absurd he (err_ne_nil _ _ _)
          · rename_i hcm
            have hcm' : Module.checkPathMajor v pm = true := by simpa using hcm
            have htok := parseVersion_ok_tok hpv
            subst htok
            simp only [Prod.mk.injEq] at h
            obtain ⟨rfl, rfl⟩ := h
            refine ⟨a0, a1, s, a1', rfl, rfl, rfl, ?_⟩
            intro hvv
            obtain ⟨_, hvok, hrefix⟩ := fixOK_version hfix hpv hvv
            refine ⟨hvok, he, ?_⟩
            intro st' block' l' hsim hl'
            refine ⟨{ st' with file := { st'.file with exclude := st'.file.exclude ++ [{ mod := { path := s, version := a1' }, lineId := l'.id }] } }, ?_, ?_⟩
            · unfold File.add
              simp only [Bool.not_true, Bool.false_and, Bool.false_eq_true, if_false, v11, v12, v13, v14, v15,
                beq_self_eq_true, Bool.or_true, if_true, ModfileFmtQuote.parseString_autoQuote, hrefix, hpm, hcm',
                Bool.not_true]
            · have hv := (values_eq_iff _ _).1 hsim.vals
              refine ⟨(values_eq_iff _ _).2 ⟨hv.1, hv.2.1, hv.2.2.1, hv.2.2.2.1, hv.2.2.2.2.1, ?_, hv.2.2.2.2.2.2⟩, he, hsim.errs'⟩
              simp [hv.2.2.2.2.2.1]
  · simp only [Prod.mk.injEq] at h; obtain ⟨rfl, _⟩ := h; exact absurd he (err_ne_nil _ _ _)

/-- `retract` -/
theorem add_retract (st st1 : AddState) (block : Option Comments) (l : Line) (args args1 : List Bytes)
    (fix : Option Fixer) (h : File.add st block l (B "retract") args fix true = (st1, args1))
    (he : st1.errsRev = []) :
    ∃ vi rat, st1.file = { st.file with retract := st.file.retract ++ [{ interval := vi, rationale := rat, lineId := l.id }] } ∧
      (VerOK vi.low → VerOK vi.high → StepOK st st1 (B "retract") args1 fix ∧
        ((args1 = [vi.low] ∧ vi.high = vi.low) ∨ args1 = [[91], vi.low, [44], vi.high, [93]])) := by
  obtain ⟨v1, v2, v3, v4, v5, v6, v7, v8, v9, v10, v11, v12, v13, v14, v15, v16, v17, v18, v19, v20, v21, v22, v23,
    v24, v25, v26, v27, v28, v29, v30, v31, v32, v33, v34, v35, v36⟩ := verb_ne
  unfold File.add at h
  simp only [Bool.not_true, Bool.false_and, Bool.false_eq_true, if_false, v22, v23, v24, v25, v26, v27, v28,
    Bool.or_self, beq_self_eq_true, if_true, Bool.and_true] at h
  split at h
  · simp only [Prod.mk.injEq] at h; obtain ⟨rfl, _⟩ := h; exact absurd he (err_ne_nil _ _ _)
  · rename_i args' vi rest hpvi
    split at h
    · simp only [Prod.mk.injEq] at h; obtain ⟨rfl, _⟩ := h; exact absurd he (err_ne_nil _ _ _)
    · rename_i hrest
      have hrest' : rest = [] := by simpa using hrest
      subst hrest'
      simp only [Prod.mk.injEq] at h
      obtain ⟨rfl, rfl⟩ := h
      refine ⟨vi, _, rfl, ?_⟩
      intro hlo hhi
      have hre := fun p' => parseVersionInterval_fix_dontFix hpvi hlo hhi p'
      obtain ⟨_, hshape, _⟩ := parseVersionInterval_fix hpvi (Or.inr ⟨_, rfl, dontFixRetract_idem, hlo, hhi⟩)
      refine ⟨⟨he, ?_⟩, by simpa using hshape⟩
      intro st' block' l' hsim _
      refine ⟨{ st' with file := { st'.file with retract := st'.file.retract ++
        [{ interval := vi, rationale := parseDirectiveComment block' l'.comments, lineId := l'.id }] } }, ?_, ?_⟩
      · unfold File.add
        simp only [Bool.not_true, Bool.false_and, Bool.false_eq_true, if_false, v22, v23, v24, v25, v26, v27, v28,
          Bool.or_self, beq_self_eq_true, if_true, Bool.and_true, hre [], List.isEmpty_nil, Bool.not_true]
      · have hv := (values_eq_iff _ _).1 hsim.vals
        refine ⟨(values_eq_iff _ _).2 ⟨hv.1, hv.2.1, hv.2.2.1, hv.2.2.2.1, hv.2.2.2.2.1, hv.2.2.2.2.2.1,
          hv.2.2.2.2.2.2.1, ?_, hv.2.2.2.2.2.2.2.2⟩, he, hsim.errs'⟩
        simp [hv.2.2.2.2.2.2.2.1]

/-- `replace` -/
theorem add_replace (st st1 : AddState) (block : Option Comments) (l : Line) (args args1 : List Bytes)
    (fix : Option Fixer) (h : File.add st block l (B "replace") args fix true = (st1, args1))
    (he : st1.errsRev = []) (hfix : FixOK fix) (hne : ∀ fx, fix = some fx → ∀ p' v0, fx p' v0 ≠ .ok []) :
    ∃ r, st1.file = { st.file with replace := st.file.replace ++ [r] } ∧ args1 = replaceToks r ∧
      (((fix ≠ none) → (r.old.version ≠ [] → VerOK r.old.version) ∧ (r.new.version ≠ [] → VerOK r.new.version)) →
        StepOK st st1 (B "replace") args1 fix ∧
        (r.old.version ≠ [] → VerOK r.old.version) ∧ (r.new.version ≠ [] → VerOK r.new.version)) := by
  obtain ⟨v1, v2, v3, v4, v5, v6, v7, v8, v9, v10, v11, v12, v13, v14, v15, v16, v17, v18, v19, v20, v21, v22, v23,
    v24, v25, v26, v27, v28, v29, v30, v31, v32, v33, v34, v35, v36⟩ := verb_ne
  unfold File.add at h
  simp only [Bool.not_true, Bool.false_and, Bool.false_eq_true, if_false, v16, v17, v18, v19, v20, v21,
    Bool.or_self, beq_self_eq_true, if_true] at h
  split at h
  · simp only [Prod.mk.injEq] at h; obtain ⟨rfl, _⟩ := h; exact absurd he (err_ne_nil _ _ _)
  · rename_i args' r hpr
    simp only [Prod.mk.injEq] at h
    obtain ⟨rfl, rfl⟩ := h
    refine ⟨r, rfl, parseReplace_toks hpr hne, ?_⟩
    intro hval
    have hfix' : fix = none ∨ (∃ fx, fix = some fx ∧ (∀ p' v0 w, fx p' v0 = .ok w → fx p' w = .ok w) ∧
        (r.old.version ≠ [] → Semver.isValid r.old.version = true) ∧
        (r.new.version ≠ [] → Semver.isValid r.new.version = true)) := by
      rcases hfix with h0 | ⟨fx, h1, h2⟩
      · exact Or.inl h0
      · have := hval (by rw [h1]; simp)
        exact Or.inr ⟨fx, h1, h2, this.1, this.2⟩
    obtain ⟨hre, _, hnone⟩ := parseReplace_fix hpr hfix'
    have hvers : (r.old.version ≠ [] → VerOK r.old.version) ∧ (r.new.version ≠ [] → VerOK r.new.version) := by
      by_cases hf : fix = none
      · exact hnone hf
      · exact hval hf
    refine ⟨⟨he, ?_⟩, hvers⟩
    intro st' block' l' hsim _
    refine ⟨{ st' with file := { st'.file with replace := st'.file.replace ++ [{ r with lineId := l'.id }] } }, ?_, ?_⟩
    · unfold File.add
      simp only [Bool.not_true, Bool.false_and, Bool.false_eq_true, if_false, v16, v17, v18, v19, v20, v21,
        Bool.or_self, beq_self_eq_true, if_true, hre l'.id]
    · have hv := (values_eq_iff _ _).1 hsim.vals
      refine ⟨(values_eq_iff _ _).2 ⟨hv.1, hv.2.1, hv.2.2.1, hv.2.2.2.1, hv.2.2.2.2.1, hv.2.2.2.2.2.1, ?_,
        hv.2.2.2.2.2.2.2⟩, he, hsim.errs'⟩
      simp [hv.2.2.2.2.2.2.1]

end ModVerif.Proofs.ModfileFmtDir
