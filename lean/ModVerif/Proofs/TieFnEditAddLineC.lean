import ModVerif.Proofs.TieFnEditAddLineB
set_option linter.unusedSimpArgs false
set_option linter.unusedVariables false
namespace ModVerif.TieFnEditAddLine
open ModVerif ModVerif.GoRt
open ModVerif.Generated.Edit
open ModVerif.Tie.FnEditRep
open ModVerif.Modfile.Edit (treeIds addLineWalk Hint mkLine headIs insertAfterId)

/-! ### the model walk, one statement -/

theorem walk_line (hint : Hint) (tokens : List Bytes) (new : Nat) (l : Modfile.Line) (xs : List Modfile.Expr) (i : Nat) :
    addLineWalk hint tokens new (.line l :: xs) i =
      if hint == .line l.id || hint == .stmt i then
        if l.token.isEmpty || !headIs l.token (tokens.head?.getD []) then
          some (.line l :: .line (mkLine new tokens false) :: xs)
        else some (.lineBlock { token := l.token.take 1, lines := [{ l with inBlock := true, token := l.token.drop 1 }, mkLine new (tokens.drop 1) true] } :: xs)
      else (addLineWalk hint tokens new xs (i + 1)).map (.line l :: ·) := rfl

theorem walk_block (hint : Hint) (tokens : List Bytes) (new : Nat) (b : Modfile.LineBlock) (xs : List Modfile.Expr) (i : Nat) :
    addLineWalk hint tokens new (.lineBlock b :: xs) i =
      if hint == .stmt i then
        if !headIs b.token (tokens.head?.getD []) then some (.lineBlock b :: .line (mkLine new tokens false) :: xs)
        else some (.lineBlock { b with lines := b.lines ++ [mkLine new (tokens.drop 1) true] } :: xs)
      else
        match hint with
        | .line h =>
          if b.lines.any (·.id == h) then
            if !headIs b.token (tokens.head?.getD []) then some (.lineBlock b :: .line (mkLine new tokens false) :: xs)
            else match insertAfterId h (mkLine new (tokens.drop 1) true) b.lines with
              | some ls => some (.lineBlock { b with lines := ls } :: xs)
              | none => (addLineWalk hint tokens new xs (i + 1)).map (.lineBlock b :: ·)
          else (addLineWalk hint tokens new xs (i + 1)).map (.lineBlock b :: ·)
        | _ => (addLineWalk hint tokens new xs (i + 1)).map (.lineBlock b :: ·) := rfl

theorem walk_cb (hint : Hint) (tokens : List Bytes) (new : Nat) (c : Modfile.CommentBlock) (xs : List Modfile.Expr) (i : Nat) :
    addLineWalk hint tokens new (.commentBlock c :: xs) i =
      (addLineWalk hint tokens new xs (i + 1)).map (.commentBlock c :: ·) := rfl

theorem any_id_split (id : Nat) : ∀ (ls : List Modfile.Line), ls.any (·.id == id) = true →
    ∃ l1 l l2, ls = l1 ++ l :: l2 ∧ l.id = id ∧ ∀ l' ∈ l1, l'.id ≠ id
  | [], h => by simp at h
  | l :: ls, h => by
    by_cases e : l.id = id
    · exact ⟨[], l, ls, rfl, e, by simp⟩
    · have : ls.any (·.id == id) = true := by
        simp only [List.any_cons, Bool.or_eq_true, beq_iff_eq] at h
        rcases h with h | h
        · exact absurd h e
        · exact h
      obtain ⟨l1, l', l2, rfl, h1, h2⟩ := any_id_split id ls this
      refine ⟨l :: l1, l', l2, rfl, h1, ?_⟩
      intro x hx
      rcases List.mem_cons.1 hx with rfl | hx
      · exact e
      · exact h2 x hx

theorem any_id_false (id : Nat) (ls : List Modfile.Line) (h : ls.any (·.id == id) = false) : ∀ l ∈ ls, l.id ≠ id := by
  intro l hl e
  have : ls.any (·.id == id) = true := List.any_eq_true.2 ⟨l, hl, by simp [e]⟩
  rw [h] at this; cases this

theorem insertAfterId_first (id : Nat) (nl : Modfile.Line) : ∀ (l1 : List Modfile.Line) (l : Modfile.Line) (l2 : List Modfile.Line),
    l.id = id → (∀ l' ∈ l1, l'.id ≠ id) → insertAfterId id nl (l1 ++ l :: l2) = some (l1 ++ l :: nl :: l2)
  | [], l, l2, h1, _ => by simp [insertAfterId, h1]
  | a :: l1, l, l2, h1, h2 => by
    have ha : ¬ (a.id = id) := h2 a (by simp)
    simp only [List.cons_append, insertAfterId, beq_iff_eq, ha, if_false,
      insertAfterId_first id nl l1 l l2 h1 (fun x hx => h2 x (by simp [hx]))]

/-! ### what `addLine` does to the heap besides the graph -/

/-- the typed object lists, `cbs`, `mods`, `works` are untouched -/
structure Frame (h h' : Heap) : Prop where
  cbs : h'.cbs = h.cbs
  excludes : h'.excludes = h.excludes
  mods : h'.mods = h.mods
  gos : h'.gos = h.gos
  godebugs : h'.godebugs = h.godebugs
  modules : h'.modules = h.modules
  replaces : h'.replaces = h.replaces
  requires : h'.requires = h.requires
  retracts : h'.retracts = h.retracts
  tools : h'.tools = h.tools
  toolchains : h'.toolchains = h.toolchains
  uses : h'.uses = h.uses
  works : h'.works = h.works

theorem Frame.refl (h : Heap) : Frame h h := ⟨rfl, rfl, rfl, rfl, rfl, rfl, rfl, rfl, rfl, rfl, rfl, rfl, rfl⟩

theorem Frame.trans {h1 h2 h3 : Heap} (a : Frame h1 h2) (b : Frame h2 h3) : Frame h1 h3 :=
  ⟨b.cbs.trans a.cbs, b.excludes.trans a.excludes, b.mods.trans a.mods, b.gos.trans a.gos, b.godebugs.trans a.godebugs,
   b.modules.trans a.modules, b.replaces.trans a.replaces, b.requires.trans a.requires, b.retracts.trans a.retracts,
   b.tools.trans a.tools, b.toolchains.trans a.toolchains, b.uses.trans a.uses, b.works.trans a.works⟩

/-- the heap after `addLine`: one more line object, the file object at `x` with the statement list `es'`, every line
    object an embedding -/
structure AddPost (x : Int) (fo : FileSyntax) (h h' : Heap) (es' : List Expr) : Prop where
  frame : Frame h h'
  files : h'.files = h.files.set (x.toNat - 1) { fo with Stmt := es' }
  lines : h'.lines.length = h.lines.length + 1
  blocks : h.blocks.length ≤ h'.blocks.length
  linesG : LinesG h → LinesG h'


theorem blockPtrs_line (p : Int) (es : List Expr) : blockPtrs (Expr.Line p :: es) = blockPtrs es := rfl
theorem blockPtrs_block (p : Int) (es : List Expr) : blockPtrs (Expr.LineBlock p :: es) = p :: blockPtrs es := rfl

theorem RStmts_allocLine {h : Heap} (v : Line) (fl : List FileSyntax) {es : List Expr} {ss : List Modfile.Expr}
    (r : RStmts h es ss) : RStmts { h with lines := h.lines ++ [v], files := fl } es ss :=
  RStmts.mono (h := h) (h' := { h with lines := h.lines ++ [v], files := fl })
    (fun q w (hq : heapGet h.lines q = .ok w) => heapGet_alloc_old v hq) (fun _ _ hq => hq) (fun _ _ hq => hq) r

/-- a new top-level line after the statement `e` -/
theorem after_sim {x : Int} {fo : FileSyntax} {h : Heap} (hf : heapGet h.files x = .ok fo)
    {pre : List Expr} {e : Expr} {xs : List Expr}
    {spre : List Modfile.Expr} {s : Modfile.Expr} {sxs : List Modfile.Expr}
    (rpre : RStmts h pre spre) (re : RExpr h e s) (rxs : RStmts h xs sxs)
    (nb : (blockPtrs (pre ++ e :: xs)).Nodup) (tokens : List Bytes) :
    let new : Int := ((h.lines.length + 1 : Nat) : Int)
    let h' : Heap := { h with lines := h.lines ++ [({ (default : Line) with Token := tokens } : Line)],
                              files := h.files.set (x.toNat - 1) { fo with Stmt := pre ++ e :: Expr.Line new :: xs } }
    AddPost x fo h h' (pre ++ e :: Expr.Line new :: xs) ∧ RStmts h' pre spre ∧
      RStmts h' (e :: Expr.Line new :: xs) (s :: .line (mkLine (h.lines.length + 1) tokens false) :: sxs) ∧
      (blockPtrs (pre ++ e :: Expr.Line new :: xs)).Nodup := by
  intro new h'
  refine ⟨⟨⟨rfl, rfl, rfl, rfl, rfl, rfl, rfl, rfl, rfl, rfl, rfl, rfl, rfl⟩, rfl, by simp [h'], Nat.le_refl _, ?_⟩,
    RStmts_allocLine _ _ rpre, ?_, ?_⟩
  · intro hG
    exact (hG.allocLine (mkLine (h.lines.length + 1) tokens false)).congr rfl
  · have r1 : RStmts h' (e :: xs) (s :: sxs) := RStmts_allocLine _ _ (show RStmts h (e :: xs) (s :: sxs) from ⟨re, rxs⟩)
    refine ⟨r1.1, ?_, r1.2⟩
    exact ⟨heapGet_alloc_new _ _, rfl⟩
  · rw [blockPtrs_append] at nb ⊢
    cases e <;> simpa [blockPtrs] using nb


theorem nodup_insert_fresh {a b : List Int} {n : Int} (h : (a ++ b).Nodup) (ha : n ∉ a) (hb : n ∉ b) : (a ++ n :: b).Nodup := by
  rw [List.nodup_append] at h ⊢
  refine ⟨h.1, List.nodup_cons.2 ⟨hb, h.2.1⟩, ?_⟩
  intro u hu v hv
  rcases List.mem_cons.1 hv with rfl | hv
  · intro e; exact ha (e ▸ hu)
  · exact h.2.2 u hu v hv

/-- the top-level line `p` of the same verb becomes a block of two lines -/
theorem convert_sim {x : Int} {fo : FileSyntax} {h : Heap} (hf : heapGet h.files x = .ok fo)
    {pre : List Expr} {p : Int} {xs : List Expr}
    {spre : List Modfile.Expr} {l : Modfile.Line} {sxs : List Modfile.Expr}
    (rpre : RStmts h pre spre) (re : RLine h p l) (rxs : RStmts h xs sxs)
    (nb : (blockPtrs (pre ++ Expr.Line p :: xs)).Nodup) (nl : (stmtIds (spre ++ .line l :: sxs)).Nodup)
    (t0 : Bytes) (us trest : List Bytes) (hc : l.token = t0 :: us) :
    let new : Int := ((h.lines.length + 1 : Nat) : Int)
    let nblk : Int := ((h.blocks.length + 1 : Nat) : Int)
    let h' : Heap := { h with
      lines := h.lines.set (p.toNat - 1) { lineG l with InBlock := true, Token := us } ++
        [({ (default : Line) with Token := trest, InBlock := true } : Line)],
      blocks := h.blocks ++ [({ (default : LineBlock) with Token := [t0], Line := [p, new] } : LineBlock)],
      files := h.files.set (x.toNat - 1) { fo with Stmt := pre ++ Expr.LineBlock nblk :: xs } }
    AddPost x fo h h' (pre ++ Expr.LineBlock nblk :: xs) ∧ RStmts h' pre spre ∧
      RStmts h' (Expr.LineBlock nblk :: xs)
        (.lineBlock { token := l.token.take 1, lines := [{ l with inBlock := true, token := l.token.drop 1 }, mkLine (h.lines.length + 1) trest true] } :: sxs) ∧
      (blockPtrs (pre ++ Expr.LineBlock nblk :: xs)).Nodup := by
  intro new nblk h'
  have hp := re.1
  have hlb : LinesBut l.id h h' := by
    refine ⟨rfl, fun q v hq => heapGet_alloc_old _ hq, fun q v hne hq => ?_⟩
    apply heapGet_alloc_old
    rw [heapGet_listSet_other _ hp (by rw [re.2]; exact hne)]; exact hq
  rw [stmtIds_append] at nl
  simp only [stmtIds] at nl
  have nl' := List.nodup_append.1 nl
  have hid_pre : l.id ∉ stmtIds spre := fun hm => nl'.2.2 _ hm _ (List.mem_cons_self) rfl
  have hid_xs : l.id ∉ stmtIds sxs := (List.nodup_cons.1 nl'.2.1).1
  have hold : heapGet h'.lines p = .ok (lineG { l with inBlock := true, token := l.token.drop 1 }) := by
    show heapGet (h.lines.set (p.toNat - 1) _ ++ [_]) p = _
    rw [heapGet_alloc_old _ (heapGet_listSet_same _ hp)]
    simp [lineG, hc]
  have hnew : heapGet h'.lines new = .ok (lineG (mkLine (h.lines.length + 1) trest true)) := by
    show heapGet (h.lines.set (p.toNat - 1) _ ++ [_]) new = _
    have := heapGet_alloc_new (h.lines.set (p.toNat - 1) ({ lineG l with InBlock := true, Token := us } : Line))
      ({ (default : Line) with Token := trest, InBlock := true } : Line)
    rw [List.length_set] at this
    exact this
  refine ⟨⟨⟨rfl, rfl, rfl, rfl, rfl, rfl, rfl, rfl, rfl, rfl, rfl, rfl, rfl⟩, rfl, by simp [h'], by simp [h'], ?_⟩,
    RStmts_linesBut hlb rpre hid_pre, ⟨⟨[p, new], ?_, ?_⟩, RStmts_linesBut hlb rxs hid_xs⟩, ?_⟩
  · intro hG
    exact ((hG.setLine (p.toNat - 1) { l with inBlock := true, token := us }).allocLine
      (mkLine (h.lines.length + 1) trest true)).congr rfl
  · show heapGet (h.blocks ++ [_]) nblk = _
    rw [heapGet_alloc_new, hc]
    rfl
  · exact ⟨⟨hold, re.2⟩, ⟨hnew, rfl⟩, trivial⟩
  · rw [blockPtrs_append] at nb ⊢
    simp only [blockPtrs] at nb ⊢
    have b1 := RStmts_block_bound rpre
    have b2 := RStmts_block_bound rxs
    refine nodup_insert_fresh nb (fun hm => ?_) (fun hm => ?_)
    · have := (b1 _ hm).2; omega
    · have := (b2 _ hm).2; omega


theorem fileSyntax_eta (fo : FileSyntax) : ({ fo with Stmt := fo.Stmt } : FileSyntax) = fo := by cases fo; rfl

theorem files_set_self {l : List FileSyntax} {x : Int} {fo : FileSyntax} (hf : heapGet l x = .ok fo) :
    l.set (x.toNat - 1) fo = l := ModVerif.Tie.FnParseHeap.heap_set_self hf

/-- a new line inside the block `p`, between the lines `a` and `c` -/
theorem block_insert_sim {x : Int} {fo : FileSyntax} {h : Heap} (hf : heapGet h.files x = .ok fo)
    {pre : List Expr} {p : Int} {xs : List Expr} (hs : fo.Stmt = pre ++ Expr.LineBlock p :: xs)
    {spre : List Modfile.Expr} {b : Modfile.LineBlock} {sxs : List Modfile.Expr}
    (rpre : RStmts h pre spre) (rxs : RStmts h xs sxs)
    (nb : (blockPtrs (pre ++ Expr.LineBlock p :: xs)).Nodup)
    {ps a c : List Int} {l1 l2 : List Modfile.Line} (hb : heapGet h.blocks p = .ok (blockG b ps))
    (hbl : b.lines = l1 ++ l2) (ra : RLines h a l1) (rc : RLines h c l2) (trest : List Bytes) :
    let new : Int := ((h.lines.length + 1 : Nat) : Int)
    let h' : Heap := { h with
      blocks := h.blocks.set (p.toNat - 1) { blockG b ps with Line := a ++ new :: c },
      lines := h.lines ++ [({ (default : Line) with Token := trest, InBlock := true } : Line)] }
    AddPost x fo h h' (pre ++ Expr.LineBlock p :: xs) ∧ RStmts h' pre spre ∧
      RStmts h' (Expr.LineBlock p :: xs)
        (.lineBlock { b with lines := l1 ++ mkLine (h.lines.length + 1) trest true :: l2 } :: sxs) ∧
      (blockPtrs (pre ++ Expr.LineBlock p :: xs)).Nodup := by
  intro new h'
  have hbb : BlocksBut p h h' := by
    refine ⟨rfl, fun q v hq => heapGet_alloc_old _ hq, fun q v hne hq => ?_⟩
    show heapGet (h.blocks.set (p.toNat - 1) _) q = _
    rw [heapGet_listSet_other _ hb hne]; exact hq
  rw [blockPtrs_append] at nb
  simp only [blockPtrs] at nb
  have nb' := List.nodup_append.1 nb
  have hp_pre : p ∉ blockPtrs pre := fun hm => nb'.2.2 _ hm _ (List.mem_cons_self) rfl
  have hp_xs : p ∉ blockPtrs xs := (List.nodup_cons.1 nb'.2.1).1
  have hl : ∀ (q : Int) (v : Line), heapGet h.lines q = .ok v → heapGet h'.lines q = .ok v :=
    fun q v hq => heapGet_alloc_old _ hq
  refine ⟨⟨⟨rfl, rfl, rfl, rfl, rfl, rfl, rfl, rfl, rfl, rfl, rfl, rfl, rfl⟩, ?_, by simp [h'], by simp [h'], ?_⟩,
    RStmts_blocksBut hbb rpre hp_pre, ⟨⟨a ++ new :: c, ?_, ?_⟩, RStmts_blocksBut hbb rxs hp_xs⟩, ?_⟩
  · show h.files = h.files.set (x.toNat - 1) { fo with Stmt := pre ++ Expr.LineBlock p :: xs }
    rw [← hs, fileSyntax_eta fo, files_set_self hf]
  · intro hG
    exact (hG.allocLine (mkLine (h.lines.length + 1) trest true)).congr rfl
  · show heapGet (h.blocks.set (p.toNat - 1) _) p = _
    rw [heapGet_listSet_same _ hb]; rfl
  · show RLines h' (a ++ new :: c) (l1 ++ mkLine (h.lines.length + 1) trest true :: l2)
    refine RLines.append (RLines.mono hl ra) ?_
    exact ⟨⟨heapGet_alloc_new _ _, rfl⟩, RLines.mono hl rc⟩
  · rw [blockPtrs_append]; simpa [blockPtrs] using nb


/-! ### the hinted walk: loop 1 against `addLineWalk` -/

/-- what loop 1, started at the statement index `pre.length`, returns — given the result of the model walk over the rest -/
def WalkRes (x : Int) (fo : FileSyntax) (hintE : Expr) (tokens : List Bytes) (pre : List Expr) (spre : List Modfile.Expr)
    (fuel : Nat) (h : Heap) : Option (List Modfile.Expr) → Prop
  | none => FileSyntax_addLine_loop1 fo.Stmt x hintE tokens fuel (pre.length : Int) h = .ok (Ctl.next (len fo.Stmt, h))
  | some ssuf' => ∃ h' suf',
      FileSyntax_addLine_loop1 fo.Stmt x hintE tokens fuel (pre.length : Int) h =
        .ok (Ctl.ret (((h.lines.length + 1 : Nat) : Int), h')) ∧
      AddPost x fo h h' (pre ++ suf') ∧ RStmts h' pre spre ∧ RStmts h' suf' ssuf' ∧ (blockPtrs (pre ++ suf')).Nodup

theorem RStmts_snoc_split {h : Heap} {pre : List Expr} {e : Expr} {spre : List Modfile.Expr} {s : Modfile.Expr}
    (hl : pre.length = spre.length) (r : RStmts h (pre ++ [e]) (spre ++ [s])) : RStmts h pre spre ∧ RExpr h e s := by
  obtain ⟨s1, s2, he, r1, r2⟩ := RStmts_split r
  have hl2 : s2.length = 1 := by rw [← r2.length]; rfl
  have hl1 : s1.length = spre.length := by
    have := congrArg List.length he
    simp only [List.length_append, List.length_cons, List.length_nil] at this
    omega
  obtain ⟨e1, e2⟩ := List.append_inj he hl1.symm
  subst e1; subst e2
  exact ⟨r1, r2.1⟩

theorem WalkRes_skip {x : Int} {fo : FileSyntax} {hintE : Expr} {tokens : List Bytes} {pre : List Expr}
    {spre : List Modfile.Expr} {fuel : Nat} {h : Heap} {e : Expr} {s : Modfile.Expr} (hl : pre.length = spre.length)
    (hstep : FileSyntax_addLine_loop1 fo.Stmt x hintE tokens (fuel + 1) (pre.length : Int) h =
      FileSyntax_addLine_loop1 fo.Stmt x hintE tokens fuel ((pre.length + 1 : Nat) : Int) h)
    {r : Option (List Modfile.Expr)} (w : WalkRes x fo hintE tokens (pre ++ [e]) (spre ++ [s]) fuel h r) :
    WalkRes x fo hintE tokens pre spre (fuel + 1) h (r.map (s :: ·)) := by
  have hlen : (((pre ++ [e]).length : Nat) : Int) = ((pre.length + 1 : Nat) : Int) := by simp
  cases r with
  | none =>
    simp only [WalkRes, Option.map_none] at w ⊢
    rw [hstep, ← hlen]; exact w
  | some ssuf' =>
    simp only [WalkRes, Option.map_some] at w ⊢
    obtain ⟨h', suf', h1, h2, h3, h4, h5⟩ := w
    obtain ⟨r1, r2⟩ := RStmts_snoc_split hl h3
    refine ⟨h', e :: suf', ?_, ?_, r1, ⟨r2, h4⟩, ?_⟩
    · rw [hstep, ← hlen]; exact h1
    · simpa using h2
    · simpa using h5


/-- the three places where a new top-level line is put after the current statement -/
theorem WalkRes_after {x : Int} {fo : FileSyntax} {h : Heap} (hf : heapGet h.files x = .ok fo)
    {pre : List Expr} {e : Expr} {xs : List Expr} (hs : fo.Stmt = pre ++ e :: xs)
    {spre : List Modfile.Expr} {s : Modfile.Expr} {sxs : List Modfile.Expr}
    (rpre : RStmts h pre spre) (re : RExpr h e s) (rxs : RStmts h xs sxs)
    (nb : (blockPtrs (pre ++ e :: xs)).Nodup) (hintE : Expr) (tokens : List Bytes) (fuel : Nat)
    (hstep : FileSyntax_addLine_loop1 fo.Stmt x hintE tokens fuel (pre.length : Int) h =
      (do let t ← FileSyntax_addLine_newLineAfter 0 x tokens (pre.length : Int) h; pure (Ctl.ret (t.1, t.2)))) :
    WalkRes x fo hintE tokens pre spre fuel h
      (some (s :: .line (mkLine (h.lines.length + 1) tokens false) :: sxs)) := by
  obtain ⟨a1, a2, a3, a4⟩ := after_sim hf rpre re rxs nb tokens
  refine ⟨_, _, ?_, a1, a2, a3, a4⟩
  rw [hstep, newLineAfter_eq hf pre e xs hs tokens 0 rfl]
  rfl

theorem headIs_cons_eq (u : Bytes) (us : List Bytes) (t : Bytes) : headIs (u :: us) t = decide (u = t) := by
  simp only [headIs, List.head?_cons]
  by_cases e : u = t
  · subst e; simp
  · simp only [e, decide_false]
    exact beq_false_of_ne (fun h => e (Option.some.inj h))

theorem headIs_nil (t : Bytes) : headIs [] t = false := by simp [headIs]

theorem RLines_splitM {h : Heap} : ∀ {l1 l2 : List Modfile.Line} {ps : List Int}, RLines h ps (l1 ++ l2) →
    ∃ a c, ps = a ++ c ∧ RLines h a l1 ∧ RLines h c l2
  | [], l2, ps, r => ⟨[], ps, rfl, trivial, r⟩
  | l :: l1, l2, [], r => r.elim
  | l :: l1, l2, p :: ps, r => by
    obtain ⟨a, c, rfl, ra, rc⟩ := RLines_splitM (l1 := l1) (l2 := l2) (ps := ps) r.2
    exact ⟨p :: a, c, rfl, ⟨r.1, ra⟩, rc⟩

theorem loop1_block_line' (pre : List Expr) (p : Int) (xs : List Expr) (x : Int) (q : Int) (tokens : List Bytes)
    (fuel : Nat) (h : Heap) (blk : LineBlock) (hb : heapGet h.blocks p = .ok blk) (X : M (Int × Heap))
    (h2 : FileSyntax_addLine_loop2 blk.Line x (Expr.Line q) tokens (pre.length : Int) p fuel 0 h =
      (do let t ← X; pure (Ctl.ret (t.1, t.2)))) :
    FileSyntax_addLine_loop1 (pre ++ Expr.LineBlock p :: xs) x (Expr.Line q) tokens (fuel + 1) (pre.length : Int) h =
      (do let t ← X; pure (Ctl.ret (t.1, t.2))) := by
  cases X with
  | error e =>
    conv => lhs; unfold FileSyntax_addLine_loop1
    have hlt : ((pre.length : Nat) : Int) < len (pre ++ Expr.LineBlock p :: xs) := by rw [len_eq]; simp; omega
    simp only [hlt, decide_true, if_true, idxL_append_mid pre _ xs rfl, bind_ok, reduceCtorEq, decide_false,
      Bool.false_eq_true, if_false, hb, h2, bind_error]
  | ok t => exact loop1_block_line pre p xs x q tokens fuel h blk hb (t.1, t.2) h2

theorem walkLine_sim (x : Int) (fo : FileSyntax) (id : Nat) (t0 : Bytes) (trest : List Bytes) :
    ∀ (suf : List Expr) (ssuf : List Modfile.Expr) (pre : List Expr) (spre : List Modfile.Expr) (h : Heap) (fuel i : Nat),
      heapGet h.files x = .ok fo → fo.Stmt = pre ++ suf → RStmts h pre spre → RStmts h suf ssuf → BlockTokOK ssuf →
      (blockPtrs (pre ++ suf)).Nodup → (stmtIds (spre ++ ssuf)).Nodup → nodeCount ssuf + 2 ≤ fuel →
      WalkRes x fo (Expr.Line (id : Int)) (t0 :: trest) pre spre fuel h
        (addLineWalk (.line id) (t0 :: trest) (h.lines.length + 1) ssuf i)
  | [], [], pre, spre, h, fuel, i, hf, hs, rpre, _, _, _, _, hfu => by
    obtain ⟨f, rfl⟩ : ∃ f, fuel = f + 1 := ⟨fuel - 1, by omega⟩
    have hs' : fo.Stmt = pre := by simpa using hs
    show FileSyntax_addLine_loop1 fo.Stmt x _ _ (f + 1) (pre.length : Int) h = _
    rw [hs']; exact loop1_end pre x _ _ f h
  | [], _ :: _, _, _, _, _, _, _, _, _, r, _, _, _, _ => r.elim
  | _ :: _, [], _, _, _, _, _, _, _, _, r, _, _, _, _ => r.elim
  | e :: xs, s :: sxs, pre, spre, h, fuel, i, hf, hs, rpre, rsuf, htok, nb, nl, hfu => by
    obtain ⟨f, rfl⟩ : ∃ f, fuel = f + 1 := ⟨fuel - 1, by omega⟩
    have hl := rpre.length
    have re := rsuf.1
    have rxs := rsuf.2
    have ih := fun (hfu' : nodeCount sxs + 2 ≤ f) =>
      walkLine_sim x fo id t0 trest xs sxs (pre ++ [e]) (spre ++ [s]) h f (i + 1) hf (by simp [hs])
        (RStmts.append rpre (show RStmts h [e] [s] from ⟨re, trivial⟩)) rxs (BlockTokOK_cons htok)
        (by simpa using nb) (by simpa using nl) hfu'
    cases s with
    | lparen c => cases e <;> exact re.elim
    | rparen c => cases e <;> exact re.elim
    | commentBlock c =>
      cases e <;> simp only [RExpr] at re <;> try exact re.elim
      rw [walk_cb]
      refine WalkRes_skip hl ?_ (ih (by simp only [nodeCount] at hfu; omega))
      rw [hs]; exact loop1_skip_other pre _ xs x _ _ f h (by intro p; simp) (by intro p; simp)
    | line l =>
      cases e <;> simp only [RExpr] at re <;> try exact re.elim
      rename_i p
      rw [walk_line]
      by_cases hid : l.id = id
      · have hcond : ((Hint.line id == Hint.line l.id) || (Hint.line id == Hint.stmt i)) = true := by simp [hid]
        rw [if_pos hcond]
        have hp : p = (id : Int) := by rw [re.2, hid]
        subst hp
        cases hc : l.token with
        | nil =>
          simp only [List.isEmpty_nil, Bool.true_or, if_true]
          refine WalkRes_after hf hs rpre (show RExpr h (Expr.Line _) (.line l) from re) rxs nb _ _ _ ?_
          rw [hs]
          exact loop1_line_after pre _ xs x t0 trest f h _ re.1 (Or.inl (by simp [hc]))
        | cons u us =>
          by_cases hu : u = t0
          · subst hu
            simp only [List.isEmpty_cons, Bool.false_or, List.head?_cons, Option.getD_some, headIs_cons_eq, decide_true,
              Bool.not_true, Bool.false_eq_true, if_false, List.drop_succ_cons, List.drop_zero]
            obtain ⟨a1, a2, a3, a4⟩ := convert_sim hf rpre re rxs nb nl u us trest hc
            rw [hc] at a3
            refine ⟨_, _, ?_, a1, a2, a3, a4⟩
            rw [hs]
            exact loop1_line_convert pre _ xs x u trest f h _ re.1 us (by simp [hc]) fo hf hs
          · simp only [List.isEmpty_cons, Bool.false_or, List.head?_cons, Option.getD_some, headIs_cons_eq, hu,
              decide_false, Bool.not_false, if_true]
            refine WalkRes_after hf hs rpre (show RExpr h (Expr.Line _) (.line l) from re) rxs nb _ _ _ ?_
            rw [hs]
            exact loop1_line_after pre _ xs x t0 trest f h _ re.1 (Or.inr ⟨u, us, by simp [hc], hu⟩)
      · have hcond : ((Hint.line id == Hint.line l.id) || (Hint.line id == Hint.stmt i)) = false := by
          have : ¬ (id = l.id) := fun e => hid e.symm
          simp [this]
        rw [hcond]
        simp only [Bool.false_eq_true, if_false]
        refine WalkRes_skip hl ?_ (ih (by simp only [nodeCount] at hfu; omega))
        rw [hs]
        exact loop1_skip_line pre _ xs x _ _ f h (by rw [re.2]; intro e; injection e with e; exact hid (by omega))
    | lineBlock b =>
      cases e <;> simp only [RExpr] at re <;> try exact re.elim
      rename_i p
      obtain ⟨ps, hb, rps⟩ := re
      rw [walk_block]
      have h1 : (Hint.line id == Hint.stmt i) = false := by simp
      rw [h1]
      simp only [Bool.false_eq_true, if_false]
      have hptr := rps.ptrs
      have btok := BlockTokOK_head htok
      have hnc : b.lines.length + nodeCount sxs + 2 ≤ f := by simp only [nodeCount] at hfu; omega
      cases hany : b.lines.any (·.id == id) with
      | false =>
        simp only [Bool.false_eq_true, if_false]
        refine WalkRes_skip hl ?_ (ih (by omega))
        rw [hs]
        refine loop1_skip_block pre p xs x _ _ f h (by simp) _ hb ?_ ?_
        · intro q hq
          simp only [blockG_Line] at hq
          rw [hptr] at hq
          obtain ⟨l', hl', rfl⟩ := List.mem_map.1 hq
          intro e
          injection e with e
          exact any_id_false id _ hany l' hl' (by omega)
        · simp only [blockG_Line]; rw [rps.length]; omega
      | true =>
        simp only [if_true]
        obtain ⟨l1, l, l2, hsplit, hlid, hl1⟩ := any_id_split id b.lines hany
        rw [hsplit] at rps
        have hsplit' : b.lines = (l1 ++ [l]) ++ l2 := by rw [hsplit]; simp
        obtain ⟨a, c, hps, ra, rc⟩ := RLines_splitM (l1 := l1 ++ [l]) (l2 := l2) (ps := ps) (by simpa using rps)
        obtain ⟨a0, q1, ha, ra0, rq⟩ := RLines_splitM (l1 := l1) (l2 := [l]) ra
        obtain ⟨q, hq1⟩ : ∃ q, q1 = [q] := by
          have := rq.length
          match q1, this with
          | [q], _ => exact ⟨q, rfl⟩
        subst hq1
        have hqid : q = (id : Int) := by rw [rq.1.2, hlid]
        subst hqid
        have hq : ∀ q' ∈ a0, q' ≠ (id : Int) := by
          intro q' hq' e
          rw [ra0.ptrs] at hq'
          obtain ⟨l', hl', rfl⟩ := List.mem_map.1 hq'
          exact hl1 l' hl' (by omega)
        have hLine : (blockG b ps).Line = a0 ++ (id : Int) :: c := by simp [hps, ha]
        have hfu2 : a0.length + 2 ≤ f := by
          have h1 := ra0.length
          have h2 : b.lines.length = l1.length + 1 + l2.length := by rw [hsplit]; simp; omega
          omega
        obtain ⟨bt0, btr, hbt⟩ := List.exists_cons_of_ne_nil btok
        have hh : headIs b.token t0 = decide (bt0 = t0) := by rw [hbt, headIs_cons_eq]
        subst ha
        by_cases hu : bt0 = t0
        · subst hu
          simp only [hh, List.head?_cons, Option.getD_some, decide_true, Bool.not_true, Bool.false_eq_true,
            if_false, List.drop_succ_cons, List.drop_zero]
          rw [hsplit, insertAfterId_first id _ l1 l l2 hlid hl1]
          simp only []
          obtain ⟨a1, a2, a3, a4⟩ := block_insert_sim hf hs rpre rxs nb hb hsplit' ra rc trest
          simp only [List.append_assoc, List.singleton_append, List.cons_append, List.nil_append] at a3 a1 a2
          refine ⟨_, _, ?_, a1, a2, a3, a4⟩
          rw [hs]
          refine loop1_block_line pre p xs x _ _ f h _ hb _ ?_
          rw [hLine]
          exact loop2_hit_eq a0 _ c x _ _ p f h hq hfu2 _ hb hLine bt0 btr trest (by simp [hbt]) rfl
        · simp only [hh, List.head?_cons, Option.getD_some, hu, decide_false, Bool.not_false, if_true]
          refine WalkRes_after hf hs rpre (show RExpr h (Expr.LineBlock p) (.lineBlock b) from ⟨ps, hb, by rw [hsplit]; exact rps⟩)
            rxs nb _ _ _ ?_
          rw [hs]
          refine loop1_block_line' pre p xs x _ _ f h _ hb _ ?_
          rw [hLine]
          exact loop2_hit_ne a0 _ c x _ _ p f h hq hfu2 _ hb bt0 t0 btr trest (by simp [hbt]) rfl hu

end ModVerif.TieFnEditAddLine
