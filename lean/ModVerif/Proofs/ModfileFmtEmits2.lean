/-
  C02 stage 3, part k: the statements and the statement list the parser emits are well-shaped:
  `parseFile_wf`.
-/
import ModVerif.Proofs.ModfileFmtEmits
namespace ModVerif.Proofs.ModfileFmtEmits
open ModVerif ModVerif.Modfile ModVerif.Proofs.ModfileLex
open ModVerif.Proofs.ModfileFmtLex ModVerif.Proofs.ModfileFmtLine ModVerif.Proofs.ModfileFmtStream
open ModVerif.Proofs.ModfileFmtTree ModVerif.Proofs.ModfileFmtClass ModVerif.Proofs.ModfileFmtParse

theorem lineTailOK_lp_rp (r2 : List Bytes) : lineTailOK ([40] :: [41] :: r2) = (!r2.isEmpty && lineTailOK r2) := by
  simp [lineTailOK]

theorem lineTailOK_lp_other {t2 : Bytes} (r2 : List Bytes) (h : t2 ≠ [41]) :
    lineTailOK ([40] :: t2 :: r2) = lineTailOK (t2 :: r2) := by
  have : (t2 == [41]) = false := by simpa using h
  simp [lineTailOK, this]

theorem beq_punct_iff {k : TokKind} {t : Bytes} (h : TokOK k t) (c : UInt8) (hc : c ∈ punctBytes) :
    (k == TokKind.punct c) = decide (t = [c]) := by
  by_cases ht : t = [c]
  · have := (tokOK_punct_iff h c hc).2 ht
    subst this
    simp [ht]
  · have : k ≠ .punct c := fun hk => ht ((tokOK_punct_iff h c hc).1 hk)
    simp [this, ht]

/-- a freshly parsed block with empty comment record is well-shaped -/
theorem wfBlock_of {b : LineBlock} (hne : b.token ≠ []) (htok : ∀ t ∈ b.token, TokText t) (hc : b.comments = {})
    (hl : b.lparen.comments = {}) (hlines : WFBlkLines false b.lines)
    (hrb : BlkBeforeOK (!b.lines.isEmpty) b.rparen.comments.before) (hrs : b.rparen.comments.suffix = [])
    (hra : b.rparen.comments.after = []) : WFBlock b :=
  ⟨hne, htok, by rw [hc]; intro c h; simp at h, by rw [hc], by rw [hc], hl, hlines, hrb, hrs, hra⟩

/-- what `parseStmtLoop` returns -/
def StmtOut (i : Input) (acc : List Bytes) (x : Expr) : Prop :=
  (∃ l ts, x = .line l ∧ l.token = acc.reverse ++ ts ∧ (∀ t ∈ ts, TokText t) ∧ lineTailOK ts = true ∧
      (i.token.kind.isEOL = false → ∃ r, ts = i.token.text :: r) ∧ l.comments = {} ∧ l.inBlock = false) ∨
  (∃ b, x = .lineBlock b ∧ WFBlock b ∧ b.comments = {})

theorem parseStmtLoop_emits : ∀ (fuel : Nat) (i : Input) (s e : Position) (acc : List Bytes) (x : Expr) (i' : Input),
    Mid i → (∀ t ∈ acc, TokText t) → acc ≠ [] → parseStmtLoop fuel i s e acc = .ok (x, i') →
    Top i' ∧ StmtOut i acc x := by
  intro fuel
  induction fuel with
  | zero => intro i s e acc x i' _ _ _ h; simp [parseStmtLoop] at h
  | succ n ih =>
    intro i s e acc x i' hm hacc hane h
    unfold parseStmtLoop at h
    cases hl : lex i with
    | error err => simp [hl, bind, Except.bind] at h
    | ok v =>
      obtain ⟨tok, i1⟩ := v
      simp only [hl, bind, Except.bind] at h
      obtain ⟨htok, _⟩ := lex_inv hl
      by_cases he : tok.kind.isEOL = true
      · -- end of line: a line statement
        simp only [he, if_true, Except.ok.injEq, Prod.mk.injEq] at h
        obtain ⟨rfl, rfl⟩ := h
        obtain ⟨_, htop⟩ := hm.1.lex_eol hl (isEOL_eolKind (by rw [← htok]; exact he))
        refine ⟨htop.setId _, Or.inl ⟨_, [], rfl, by simp, by simp, rfl, ?_, rfl, rfl⟩⟩
        intro hne; rw [← htok, he] at hne; cases hne
      · have he' : tok.kind.isEOL = false := by simpa using he
        simp only [he', Bool.false_eq_true, if_false] at h
        have hk : TokOK i.token.kind i.token.text := lexOK_tok hm.1.lok (by rw [← htok]; exact he') hm.2
        have hkt : TokOK tok.kind tok.text := by rw [htok]; exact hk
        obtain ⟨_, hmid1⟩ := hm.1.lex_tok hl hk
        have htt : TokText tok.text := tokOK_tokText hkt
        -- the recursive call with this token pushed
        have push : ∀ (i2 : Input) (e' : Position) (more : List Bytes) (x : Expr) (i' : Input), Mid i2 →
            (∀ t ∈ more, TokText t) →
            parseStmtLoop n i2 s e' (more ++ tok.text :: acc) = .ok (x, i') →
            (∀ ts', lineTailOK ts' = true → (i2.token.kind.isEOL = false → ∃ r, ts' = i2.token.text :: r) →
              lineTailOK (tok.text :: (more.reverse ++ ts')) = true) →
            Top i' ∧ StmtOut i acc x := by
          intro i2 e' more x i' hm2 hmore hres htail
          obtain ⟨htop, hout⟩ := ih i2 s e' (more ++ tok.text :: acc) x i' hm2
            (by
              intro t ht
              rcases List.mem_append.1 ht with ht | ht
              · exact hmore t ht
              · rcases List.mem_cons.1 ht with rfl | ht
                · exact htt
                · exact hacc t ht)
            (by simp) hres
          refine ⟨htop, ?_⟩
          rcases hout with ⟨l, ts', rfl, h1, h2, h3, h4, h5, h6⟩ | ⟨b, rfl, hb⟩
          · refine Or.inl ⟨l, tok.text :: (more.reverse ++ ts'), rfl, by rw [h1]; simp, ?_, htail ts' h3 h4, ?_, h5, h6⟩
            · intro t ht
              rcases List.mem_cons.1 ht with rfl | ht
              · exact htt
              · rcases List.mem_append.1 ht with ht | ht
                · exact hmore t (by simpa using ht)
                · exact h2 t ht
            · intro _; rw [← htok]; exact ⟨_, rfl⟩
          · exact Or.inr ⟨b, rfl, hb⟩
        rw [beq_punct_iff hkt 40 (by decide)] at h
        by_cases h40 : tok.text = [40]
        · simp only [h40, decide_true, if_true, Input.peek] at h
          by_cases he1 : i1.token.kind.isEOL = true
          · -- start of a block
            simp only [he1, if_true] at h
            cases hb : parseLineBlock (n + 1) i1 s acc.reverse tok with
            | error err => simp [hb] at h
            | ok v =>
              obtain ⟨b, i2⟩ := v
              simp only [hb, Except.ok.injEq, Prod.mk.injEq] at h
              obtain ⟨rfl, rfl⟩ := h
              unfold parseLineBlock at hb
              obtain ⟨htop, h1, h2, h3, h4, h5, h6, h7⟩ := parseLineBlockLoop_emits (n + 1) i1 _ [] [] b i2 hmid1.1
                ⟨trivial, trivial⟩ hb
              refine ⟨htop, Or.inr ⟨b, rfl, wfBlock_of ?_ ?_ h2 (by rw [h3]) h4 h5 h6 h7, h2⟩⟩
              · rw [h1]; simpa using hane
              · rw [h1]; intro t ht; exact hacc t (by simpa using ht)
          · have he1' : i1.token.kind.isEOL = false := by simpa using he1
            simp only [he1', Bool.false_eq_true, if_false] at h
            have hk1 : TokOK i1.token.kind i1.token.text := lexOK_tok hmid1.1.lok he1' hmid1.2
            rw [beq_punct_iff hk1 41 (by decide)] at h
            by_cases h41 : i1.token.text = [41]
            · simp only [h41, decide_true, if_true] at h
              cases hl2 : lex i1 with
              | error err => simp [hl2] at h
              | ok v2 =>
                obtain ⟨rparen, i2⟩ := v2
                simp only [hl2] at h
                obtain ⟨hrp, hmid2⟩ := hmid1.1.lex_tok hl2 hk1
                by_cases he2 : i2.token.kind.isEOL = true
                · -- the empty block
                  simp only [Input.peek, he2, if_true] at h
                  cases hl3 : lex i2 with
                  | error err => simp [hl3] at h
                  | ok v3 =>
                    obtain ⟨tok3, i3⟩ := v3
                    simp only [hl3, Except.ok.injEq, Prod.mk.injEq] at h
                    obtain ⟨rfl, rfl⟩ := h
                    obtain ⟨_, htop⟩ := hmid2.1.lex_eol hl3 (isEOL_eolKind he2)
                    refine ⟨htop, Or.inr ⟨_, rfl, wfBlock_of ?_ ?_ rfl rfl trivial trivial rfl rfl, rfl⟩⟩
                    · simpa using hane
                    · intro t ht; exact hacc t (by simpa using ht)
                · -- `( )` in the middle of the line
                  have he2' : i2.token.kind.isEOL = false := by simpa using he2
                  simp only [Input.peek, he2', Bool.false_eq_true, if_false] at h
                  have hrt : rparen.text = [41] := by rw [hrp]; exact h41
                  have hpush := push i2 e [rparen.text] x i' hmid2
                    (by intro t ht; simp at ht; subst ht; rw [hrp]; exact tokOK_tokText hk1)
                    (by simpa [h40] using h)
                  apply hpush
                  intro ts' hok hhead
                  obtain ⟨r, hr⟩ := hhead he2'
                  rw [h40, hrt]
                  simp only [List.reverse_cons, List.reverse_nil, List.nil_append, List.singleton_append]
                  rw [lineTailOK_lp_rp, hok, hr]
                  rfl
            · -- `(` in the middle of the line
              simp only [h41, decide_false, Bool.false_eq_true, if_false] at h
              have hpush := push i1 e [] x i' hmid1 (by simp) (by simpa [h40] using h)
              apply hpush
              intro ts' hok hhead
              obtain ⟨r, hr⟩ := hhead he1'
              rw [h40]
              simp only [List.reverse_nil, List.nil_append]
              rw [hr, lineTailOK_lp_other r h41, ← hr, hok]
        · simp only [h40, decide_false, Bool.false_eq_true, if_false] at h
          have hpush := push i1 tok.endPos [] x i' hmid1 (by simp) (by simpa using h)
          apply hpush
          intro ts' hok _
          simp only [List.reverse_nil, List.nil_append]
          rw [lineTailOK_cons_ne ts' h40, hok]

/-! ### the file loop -/

/-- the pending comment block is well-shaped -/
def CbWF (ocb : Option CommentBlock) : Prop :=
  match ocb with
  | none => True
  | some c => c.comments.before ≠ [] ∧ TopBeforeOK c.comments.before ∧ c.comments.suffix = [] ∧ c.comments.after = []

theorem cbWF_add (ocb : Option CommentBlock) (tok : Token) (h : CbWF ocb) (hok : CommentOK tok.text) :
    CbWF (some (cbAdd ocb tok)) := by
  have hnew : ∀ c ∈ [({ start := tok.pos, token := tok.text } : Comment)], c.suffix = false ∧ CommentOK c.token := by
    intro c hc; simp at hc; subst hc; exact ⟨rfl, hok⟩
  cases ocb with
  | none =>
    refine ⟨by simp [cbAdd], ?_, rfl, rfl⟩
    intro c hc
    exact hnew c (by simpa [cbAdd] using hc)
  | some c0 =>
    obtain ⟨_, h2, h3, h4⟩ := h
    refine ⟨by simp [cbAdd], ?_, h3, h4⟩
    intro c hc
    simp only [cbAdd, List.mem_append] at hc
    rcases hc with hc | hc
    · exact h2 c hc
    · exact hnew c hc

/-- a statement with the pending comments attached -/
theorem wf_attach (ocb : Option CommentBlock) (x : Expr) (hcb : CbWF ocb)
    (hx : (∃ l, x = .line l ∧ l.token ≠ [] ∧ (∀ t ∈ l.token, TokText t) ∧ lineTailOK l.token.tail = true ∧
        l.comments = {} ∧ l.inBlock = false) ∨ (∃ b, x = .lineBlock b ∧ WFBlock b ∧ b.comments = {})) :
    WFStmt (attach ocb x) := by
  have hbefore : TopBeforeOK (match ocb with | some c => c.comments.before | none => []) := by
    cases ocb with
    | none => intro c hc; simp at hc
    | some c => exact hcb.2.1
  rcases hx with ⟨l, rfl, h1, h2, h3, h4, h5⟩ | ⟨b, rfl, hb, hbc⟩
  · cases ocb with
    | none => exact ⟨h1, h2, h3, by rw [h4]; intro c hc; simp at hc, by rw [h4], by rw [h4], h5⟩
    | some c =>
      show WFLine _
      simp only [attach, Expr.setComments, Expr.comments]
      exact ⟨h1, h2, h3, hcb.2.1, by simp [h4], by simp [h4], h5⟩
  · cases ocb with
    | none => exact hb
    | some c =>
      show WFBlock _
      simp only [attach, Expr.setComments, Expr.comments]
      exact ⟨hb.ne, hb.tok, hcb.2.1, by simp [hbc], by simp [hbc], hb.lparen, hb.lines, hb.rbefore, hb.rsuffix, hb.rafter⟩

theorem file_default_tok {i : Input} (ht : Top i) (h1 : i.token.kind ≠ .punct 10) (h2 : i.token.kind ≠ .comment)
    (h3 : i.token.kind ≠ .eof) : TokOK i.token.kind i.token.text := by
  have := ht.1.lok
  have h0 := ht.2
  generalize i.token.kind = k at this h0 h1 h2 h3
  generalize i.token.text = t at this
  cases this with
  | eof => exact absurd rfl h3
  | newline => exact absurd rfl h1
  | comment t h => exact absurd rfl h2
  | eolComment t h => exact absurd rfl h0
  | tok k t h => exact h

theorem parseStmt_emits (fuel : Nat) (i : Input) (x : Expr) (i' : Input) (ht : Top i)
    (hk : TokOK i.token.kind i.token.text) (h : parseStmt fuel i = .ok (x, i')) :
    Top i' ∧ ((∃ l, x = .line l ∧ l.token ≠ [] ∧ (∀ t ∈ l.token, TokText t) ∧ lineTailOK l.token.tail = true ∧
        l.comments = {} ∧ l.inBlock = false) ∨ (∃ b, x = .lineBlock b ∧ WFBlock b ∧ b.comments = {})) := by
  unfold parseStmt at h
  cases hl : lex i with
  | error err => simp [hl, bind, Except.bind] at h
  | ok v =>
    obtain ⟨tok, i1⟩ := v
    simp only [hl, bind, Except.bind] at h
    obtain ⟨htok, hmid⟩ := ht.1.lex_tok hl hk
    have htt : TokText tok.text := by rw [htok]; exact tokOK_tokText hk
    obtain ⟨htop, hout⟩ := parseStmtLoop_emits fuel i1 tok.pos tok.endPos [tok.text] x i' hmid
      (by intro t ht; simp at ht; subst ht; exact htt) (by simp) h
    refine ⟨htop, ?_⟩
    rcases hout with ⟨l, ts, rfl, h1, h2, h3, _, h5, h6⟩ | hb
    · refine Or.inl ⟨l, rfl, by rw [h1]; simp, ?_, by rw [h1]; simpa using h3, h5, h6⟩
      intro t ht
      rw [h1] at ht
      simp only [List.reverse_cons, List.reverse_nil, List.nil_append, List.singleton_append, List.mem_cons] at ht
      rcases ht with rfl | ht
      · exact htt
      · exact h2 t ht
    · exact Or.inr hb

theorem parseFileLoop_emits : ∀ (fuel : Nat) (i : Input) (stmtsRev : List Expr) (ocb : Option CommentBlock)
    (out : List Expr) (i' : Input), Top i → (∀ s ∈ stmtsRev, WFStmt s) → CbWF ocb →
    parseFileLoop fuel i stmtsRev ocb = .ok (out, i') → WFStmts out ∧ ∀ c ∈ i'.commentsRev, c.suffix = true := by
  intro fuel
  induction fuel with
  | zero => intro i stmtsRev ocb out i' _ _ _ h; simp [parseFileLoop] at h
  | succ n ih =>
    intro i stmtsRev ocb out i' ht hst hcb h
    by_cases hk10 : i.token.kind = .punct 10
    · cases hl : lex i with
      | error err =>
        unfold parseFileLoop at h
        simp [Input.peek, hk10, hl, bind, Except.bind] at h
      | ok v =>
        obtain ⟨tok, i1⟩ := v
        obtain ⟨htok, htop⟩ := ht.1.lex_eol hl (Or.inl hk10)
        subst htok
        cases ocb with
        | none =>
          rw [file_step_blank_none i i1 stmtsRev n hk10 hl] at h
          exact ih i1 stmtsRev none out i' htop hst trivial h
        | some c =>
          rw [file_step_blank_some i i1 stmtsRev c n hk10 hl] at h
          refine ih i1 _ none out i' htop ?_ trivial h
          intro s hs
          rcases List.mem_cons.1 hs with rfl | hs
          · exact hcb
          · exact hst s hs
    by_cases hkc : i.token.kind = .comment
    · cases hl : lex i with
      | error err =>
        unfold parseFileLoop at h
        simp [Input.peek, hkc, hl, bind, Except.bind] at h
      | ok v =>
        obtain ⟨tok, i1⟩ := v
        obtain ⟨htok, htop⟩ := ht.1.lex_eol hl (Or.inr (Or.inr (Or.inl hkc)))
        subst htok
        rw [file_step_comment i i1 stmtsRev ocb n hkc hl] at h
        have hok : CommentOK i.token.text := by
          have := ht.1.lok
          rw [hkc] at this
          exact lexOK_comment this
        exact ih i1 stmtsRev _ out i' htop hst (cbWF_add ocb i.token hcb hok) h
    by_cases hke : i.token.kind = .eof
    · cases ocb with
      | none =>
        rw [file_step_eof_none i stmtsRev n hke] at h
        simp only [Except.ok.injEq, Prod.mk.injEq] at h
        obtain ⟨rfl, rfl⟩ := h
        exact ⟨fun s hs => hst s (by simpa using hs), ht.1.sfx⟩
      | some c =>
        rw [file_step_eof_some i stmtsRev c n hke] at h
        simp only [Except.ok.injEq, Prod.mk.injEq] at h
        obtain ⟨rfl, rfl⟩ := h
        refine ⟨?_, ht.1.sfx⟩
        intro s hs
        simp only [List.reverse_cons, List.mem_append, List.mem_reverse, List.mem_singleton] at hs
        rcases hs with hs | rfl
        · exact hst s hs
        · exact hcb
    · -- a statement
      have hk := file_default_tok ht hk10 hkc hke
      cases hp : parseStmt (n + 1) i with
      | error err =>
        unfold parseFileLoop at h
        simp only [Input.peek] at h
        simp [hp, bind, Except.bind] at h
      | ok v =>
        obtain ⟨x, i1⟩ := v
        rw [file_step_stmt i i1 stmtsRev ocb n x hk10 hkc hke hp] at h
        obtain ⟨htop, hout⟩ := parseStmt_emits (n + 1) i x i1 ht hk hp
        refine ih i1 _ none out i' htop ?_ trivial h
        intro s hs
        rcases List.mem_cons.1 hs with rfl | hs
        · exact wf_attach ocb x hcb hout
        · exact hst s hs

/-- ★ Every statement list `parseFile` returns is well-shaped. -/
theorem parseFile_wf' (data : Bytes) (stmts : List Expr) (i : Input) (h : parseFile data = .ok (stmts, i)) :
    WFStmts stmts ∧ ∀ c ∈ i.commentsRev, c.suffix = true := by
  unfold parseFile at h
  cases hr : readToken (newInput data) with
  | error err => simp [hr, bind, Except.bind] at h
  | ok i0 =>
    simp only [hr, bind, Except.bind] at h
    obtain ⟨hg, hne⟩ := G.init hr
    exact parseFileLoop_emits _ i0 [] none stmts i ⟨hg, hne⟩ (by intro s hs; simp at hs) trivial h

theorem parseFile_wf (data : Bytes) (stmts : List Expr) (i : Input) (h : parseFile data = .ok (stmts, i)) :
    WFStmts stmts := (parseFile_wf' data stmts i h).1

end ModVerif.Proofs.ModfileFmtEmits
