/-
  C02, end-of-line comments: a line of a parsed tree that carries an end-of-line comment has no newline byte
  inside its tokens — so the clause `NlLine` of `EolOK` is redundant for parsed trees (`parse_nlOK`), and the
  hypothesis of the main theorems reduces to the counting condition `EolCount`.

  * first parse, lexer level: `tok.pos.line + count(␤, tok.text) ≤ tok.endPos.line` and
    `tok.endPos.line ≤ next.pos.line` for every reachable lexer state (from the C20 facts `TokFacts`,
    `tokOK_spec`, `reach_step_gap`);
  * first parse, parser level: `l.start.line + Σ count(␤, token) ≤ l.end.line` for every line the parser builds
    (`parseFile_ln`; the `(` / `( )` pushes of `parseStmt`, which do not move `end`, carry no newline);
  * `assignComments` gives a line a comment only if `start.line = end.line` (`postStmtsRev_span`).
-/
import ModVerif.Proofs.ModfileEolFinal
import ModVerif.Proofs.ModfileC20Top
namespace ModVerif.Proofs.ModfileEol
open ModVerif ModVerif.Modfile ModVerif.Proofs.ModfileLex
open ModVerif.Proofs.ModfileFmtLex ModVerif.Proofs.ModfileFmtTree ModVerif.Proofs.ModfileFmtMain
open ModVerif.Proofs.ModfilePos ModVerif.Proofs.ModfileC20

/-! ### lexer level -/

theorem count_take_mono (l : Bytes) {n m : Nat} (h : n ≤ m) : (l.take n).count 10 ≤ (l.take m).count 10 :=
  (List.take_prefix_take_left h).sublist.count_le 10

theorem take_add_prefix {l text : Bytes} {n : Nat} (h : text <+: l.drop n) : l.take (n + text.length) = l.take n ++ text := by
  obtain ⟨r, hr⟩ := h
  rw [List.take_add, ← hr]
  simp

/-- a token's text lies between its start and its end: the end is at least as many lines below the start as
    the text has newlines -/
theorem tok_line_le {data : Bytes} {i : Input} (h : Reach data i) :
    i.token.pos.line + i.token.text.count 10 ≤ i.token.endPos.line := by
  have ht := reach_tokOK2 h
  have hf := ht.facts
  obtain ⟨h1, h2, h3, _, _⟩ := tokOK_spec ht.old
  have hlen : i.token.text.length ≤ i.tokRev.length := by
    have := ht.old.text.length_le
    simpa using this
  have hle : i.token.pos.byte + i.token.text.length ≤ i.token.endPos.byte := by omega
  have hc := count_take_mono data hle
  rw [take_add_prefix h1, List.count_append] at hc
  rw [hf.start.1.line, hf.«end».1.line]
  omega

/-- the next token starts on the line on which the previous one ended, or below -/
theorem step_line_le {data : Bytes} {j i : Input} (hj : Reach data j) (h : readToken j = .ok i) :
    j.token.endPos.line ≤ i.token.pos.line := by
  obtain ⟨gap, _, hg⟩ := reach_step_gap hj h
  have h1 := (reach_tokOK2 hj).facts.«end».1.line
  have h2 := (reach_tokOK2 (Reach.lex hj h)).facts.start.1.line
  rw [h1, h2, hg, List.count_append]
  omega

theorem tok_pos_le_end {data : Bytes} {i : Input} (h : Reach data i) : i.token.pos.line ≤ i.token.endPos.line := by
  have := tok_line_le h; omega

/-! ### parser level -/

def nls (ts : List Bytes) : Nat := (ts.map (List.count 10)).sum

theorem nls_cons (t : Bytes) (ts : List Bytes) : nls (t :: ts) = t.count 10 + nls ts := by simp [nls]

theorem nls_reverse (ts : List Bytes) : nls ts.reverse = nls ts := by
  simp [nls, List.map_reverse, ModfileFmtConserve.sum_reverse]

/-- the line ends at least as many source lines below its start as its tokens contain newlines -/
def LnLe (l : Line) : Prop := l.start.line + nls l.token ≤ l.«end».line

def StmtLn : Expr → Prop
  | .line l => LnLe l
  | .lineBlock b => ∀ l ∈ b.lines, LnLe l
  | _ => True

theorem parseLineLoop_ln {data : Bytes} : ∀ (fuel : Nat) (i : Input) (s e : Position) (acc : List Bytes) (l : Line)
    (i' : Input), Reach data i → s.line + nls acc ≤ e.line → e.line ≤ i.token.pos.line →
    parseLineLoop fuel i s e acc = .ok (l, i') → LnLe l ∧ Reach data i' := by
  intro fuel
  induction fuel with
  | zero => intro i s e acc l i' _ _ _ h; simp [parseLineLoop] at h
  | succ n ih =>
    intro i s e acc l i' hr h1 h2 h
    unfold parseLineLoop at h
    cases hl : lex i with
    | error err => simp [hl, bind, Except.bind] at h
    | ok v =>
      obtain ⟨tok, i1⟩ := v
      simp only [hl, bind, Except.bind] at h
      obtain ⟨htok, hrt⟩ := ModfileFmtEmits.lex_inv hl
      have hr1 : Reach data i1 := Reach.lex hr hrt
      by_cases he : tok.kind.isEOL = true
      · simp only [he, if_true, Except.ok.injEq, Prod.mk.injEq] at h
        obtain ⟨rfl, rfl⟩ := h
        exact ⟨by simpa [LnLe, nls_reverse] using h1, Reach.setId _ hr1⟩
      · have he' : tok.kind.isEOL = false := by simpa using he
        simp only [he', Bool.false_eq_true, if_false] at h
        have ha := tok_line_le hr
        have hb := step_line_le hr hrt
        subst htok
        exact ih i1 s i.token.endPos (i.token.text :: acc) l i' hr1 (by rw [nls_cons]; omega) hb h

theorem parseLine_ln {data : Bytes} (fuel : Nat) (i : Input) (l : Line) (i' : Input) (hr : Reach data i)
    (h : parseLine fuel i = .ok (l, i')) : LnLe l ∧ Reach data i' := by
  unfold parseLine at h
  cases hl : lex i with
  | error err => simp [hl, bind, Except.bind] at h
  | ok v =>
    obtain ⟨tok, i1⟩ := v
    simp only [hl, bind, Except.bind] at h
    obtain ⟨htok, hrt⟩ := ModfileFmtEmits.lex_inv hl
    have hr1 : Reach data i1 := Reach.lex hr hrt
    split at h
    · cases h
    · have ha := tok_line_le hr
      have hb := step_line_le hr hrt
      subst htok
      exact parseLineLoop_ln fuel i1 i.token.pos i.token.endPos [i.token.text] l i' hr1 (by simp [nls]; omega) hb h

theorem parseLineBlockLoop_ln {data : Bytes} : ∀ (fuel : Nat) (i : Input) (x : LineBlock) (linesRev : List Line)
    (crev : List Comment) (b : LineBlock) (i' : Input), Reach data i → (∀ l ∈ linesRev, LnLe l) →
    parseLineBlockLoop fuel i x linesRev crev = .ok (b, i') → (∀ l ∈ b.lines, LnLe l) ∧ Reach data i' := by
  intro fuel
  induction fuel with
  | zero => intro i x linesRev crev b i' _ _ h; simp [parseLineBlockLoop] at h
  | succ n ih =>
    intro i x linesRev crev b i' hr hls h
    unfold parseLineBlockLoop at h
    have hlex : ∀ {tok : Token} {i1 : Input}, lex i = .ok (tok, i1) → Reach data i1 := by
      intro tok i1 hl
      exact Reach.lex hr (ModfileFmtEmits.lex_inv hl).2
    split at h
    · cases hl : lex i with
      | error err => simp [hl, bind, Except.bind] at h
      | ok v =>
        simp only [hl, bind, Except.bind] at h
        exact ih v.2 x linesRev crev b i' (hlex hl) hls h
    · cases hl : lex i with
      | error err => simp [hl, bind, Except.bind] at h
      | ok v =>
        simp only [hl, bind, Except.bind] at h
        exact ih v.2 x linesRev _ b i' (hlex hl) hls h
    · cases hl : lex i with
      | error err => simp [hl, bind, Except.bind] at h
      | ok v =>
        simp only [hl, bind, Except.bind] at h
        exact ih v.2 x linesRev _ b i' (hlex hl) hls h
    · cases h
    · cases hl : lex i with
      | error err => simp [hl, bind, Except.bind] at h
      | ok v =>
        simp only [hl, bind, Except.bind] at h
        split at h
        · cases h
        · cases hl2 : lex v.2 with
          | error err => simp [hl2] at h
          | ok w =>
            simp only [hl2, Except.ok.injEq, Prod.mk.injEq] at h
            obtain ⟨rfl, rfl⟩ := h
            have hr1 := hlex hl
            have hr2 : Reach data w.2 := Reach.lex hr1 (ModfileFmtEmits.lex_inv hl2).2
            exact ⟨by intro l hl'; exact hls l (by simpa using hl'), hr2⟩
    · cases hp : parseLine (n + 1) i with
      | error err => simp [hp, bind, Except.bind] at h
      | ok v =>
        simp only [hp, bind, Except.bind] at h
        obtain ⟨hln, hr1⟩ := parseLine_ln (n + 1) i v.1 v.2 hr hp
        refine ih v.2 x _ [] b i' hr1 ?_ h
        intro l hl'
        rcases List.mem_cons.1 hl' with rfl | hl'
        · exact hln
        · exact hls l hl'

theorem punct_text {data : Bytes} {i : Input} (h : Reach data i) (c : UInt8) (hk : i.token.kind = .punct c) :
    i.token.text = [c] := (reach_tokOK2 h).facts.punct c hk

theorem parseStmtLoop_ln {data : Bytes} : ∀ (fuel : Nat) (i : Input) (s e : Position) (acc : List Bytes) (x : Expr)
    (i' : Input), Reach data i → s.line + nls acc ≤ e.line → e.line ≤ i.token.pos.line →
    parseStmtLoop fuel i s e acc = .ok (x, i') → StmtLn x ∧ Reach data i' := by
  intro fuel
  induction fuel with
  | zero => intro i s e acc x i' _ _ _ h; simp [parseStmtLoop] at h
  | succ n ih =>
    intro i s e acc x i' hr h1 h2 h
    unfold parseStmtLoop at h
    cases hl : lex i with
    | error err => simp [hl, bind, Except.bind] at h
    | ok v =>
      obtain ⟨tok, i1⟩ := v
      simp only [hl, bind, Except.bind] at h
      obtain ⟨htok, hrt⟩ := ModfileFmtEmits.lex_inv hl
      have hr1 : Reach data i1 := Reach.lex hr hrt
      have ha := tok_line_le hr
      have hb := step_line_le hr hrt
      subst htok
      by_cases he : i.token.kind.isEOL = true
      · simp only [he, if_true, Except.ok.injEq, Prod.mk.injEq] at h
        obtain ⟨rfl, rfl⟩ := h
        exact ⟨by simpa [StmtLn, LnLe, nls_reverse] using h1, Reach.setId _ hr1⟩
      · have he' : i.token.kind.isEOL = false := by simpa using he
        simp only [he', Bool.false_eq_true, if_false] at h
        by_cases hlp : (i.token.kind == TokKind.punct 40) = true
        · simp only [hlp, if_true] at h
          have hk : i.token.kind = .punct 40 := by simpa using hlp
          have htx : i.token.text = [40] := punct_text hr 40 hk
          split at h
          · -- start of a block
            cases hb2 : parseLineBlock (n + 1) i1 s acc.reverse i.token with
            | error err => simp [hb2] at h
            | ok w =>
              simp only [hb2, Except.ok.injEq, Prod.mk.injEq] at h
              obtain ⟨rfl, rfl⟩ := h
              unfold parseLineBlock at hb2
              exact parseLineBlockLoop_ln (n + 1) i1 _ [] [] w.1 w.2 hr1 (by intro l hl'; cases hl') hb2
          · split at h
            · cases hl2 : lex i1 with
              | error err => simp [hl2] at h
              | ok w =>
                obtain ⟨rp, i2⟩ := w
                simp only [hl2] at h
                obtain ⟨hrp, hrt2⟩ := ModfileFmtEmits.lex_inv hl2
                have hr2 : Reach data i2 := Reach.lex hr1 hrt2
                split at h
                · -- empty block
                  cases hl3 : lex i2 with
                  | error err => simp [hl3] at h
                  | ok u =>
                    simp only [hl3, Except.ok.injEq, Prod.mk.injEq] at h
                    obtain ⟨rfl, rfl⟩ := h
                    exact ⟨(by intro l hl'; cases hl'), Reach.lex hr2 (ModfileFmtEmits.lex_inv hl3).2⟩
                · -- `( )` in the middle of the line
                  rename_i hnext _
                  have hk1 : i1.token.kind = .punct 41 := by simpa [Input.peek] using hnext
                  have hrtx : rp.text = [41] := by rw [hrp]; exact punct_text hr1 41 hk1
                  have hc := tok_pos_le_end hr1
                  have hd := step_line_le hr1 hrt2
                  refine ih i2 s e (rp.text :: i.token.text :: acc) x i' hr2 ?_ (by omega) h
                  rw [nls_cons, nls_cons, hrtx, htx]
                  simpa using h1
            · -- `(` in the middle of the line
              refine ih i1 s e (i.token.text :: acc) x i' hr1 ?_ (by omega) h
              rw [nls_cons, htx]
              simpa using h1
        · simp only [hlp, Bool.false_eq_true, if_false] at h
          exact ih i1 s i.token.endPos (i.token.text :: acc) x i' hr1 (by rw [nls_cons]; omega) hb h

theorem parseStmt_ln {data : Bytes} (fuel : Nat) (i : Input) (x : Expr) (i' : Input) (hr : Reach data i)
    (h : parseStmt fuel i = .ok (x, i')) : StmtLn x ∧ Reach data i' := by
  unfold parseStmt at h
  cases hl : lex i with
  | error err => simp [hl, bind, Except.bind] at h
  | ok v =>
    obtain ⟨tok, i1⟩ := v
    simp only [hl, bind, Except.bind] at h
    obtain ⟨htok, hrt⟩ := ModfileFmtEmits.lex_inv hl
    have ha := tok_line_le hr
    have hb := step_line_le hr hrt
    subst htok
    exact parseStmtLoop_ln fuel i1 i.token.pos i.token.endPos [i.token.text] x i' (Reach.lex hr hrt) (by simp [nls]; omega) hb h

theorem stmtLn_setComments (x : Expr) (c : Comments) (h : StmtLn x) : StmtLn (x.setComments c) := by
  cases x with
  | line l => exact h
  | lineBlock b => exact h
  | commentBlock _ => trivial
  | lparen _ => trivial
  | rparen _ => trivial

theorem parseFileLoop_ln {data : Bytes} : ∀ (fuel : Nat) (i : Input) (stmtsRev : List Expr) (cb : Option CommentBlock)
    (out : List Expr) (i' : Input), Reach data i → (∀ s ∈ stmtsRev, StmtLn s) →
    parseFileLoop fuel i stmtsRev cb = .ok (out, i') → ∀ s ∈ out, StmtLn s := by
  intro fuel
  induction fuel with
  | zero => intro i stmtsRev cb out i' _ _ h; simp [parseFileLoop] at h
  | succ n ih =>
    intro i stmtsRev cb out i' hr hst h
    unfold parseFileLoop at h
    have hlex : ∀ {tok : Token} {i1 : Input}, lex i = .ok (tok, i1) → Reach data i1 := by
      intro tok i1 hl
      exact Reach.lex hr (ModfileFmtEmits.lex_inv hl).2
    have hcons : ∀ (c : CommentBlock), ∀ s ∈ Expr.commentBlock c :: stmtsRev, StmtLn s := by
      intro c s hs
      rcases List.mem_cons.1 hs with rfl | hs
      · trivial
      · exact hst s hs
    split at h
    · cases hl : lex i with
      | error err => simp [hl, bind, Except.bind] at h
      | ok v =>
        simp only [hl, bind, Except.bind] at h
        split at h
        · exact ih v.2 _ none out i' (hlex hl) (hcons _) h
        · exact ih v.2 _ none out i' (hlex hl) hst h
    · cases hl : lex i with
      | error err => simp [hl, bind, Except.bind] at h
      | ok v =>
        simp only [hl, bind, Except.bind] at h
        exact ih v.2 _ _ out i' (hlex hl) hst h
    · split at h
      · simp only [Except.ok.injEq, Prod.mk.injEq] at h
        obtain ⟨rfl, _⟩ := h
        intro s hs
        exact hcons _ s (List.mem_reverse.1 hs)
      · simp only [Except.ok.injEq, Prod.mk.injEq] at h
        obtain ⟨rfl, _⟩ := h
        intro s hs
        exact hst s (List.mem_reverse.1 hs)
    · cases hp : parseStmt (n + 1) i with
      | error err => simp [hp, bind, Except.bind] at h
      | ok v =>
        simp only [hp, bind, Except.bind] at h
        obtain ⟨hln, hr1⟩ := parseStmt_ln (n + 1) i v.1 v.2 hr hp
        split at h
        · refine ih v.2 _ none out i' hr1 ?_ h
          intro s hs
          rcases List.mem_cons.1 hs with rfl | hs
          · exact stmtLn_setComments _ _ hln
          · exact hst s hs
        · refine ih v.2 _ none out i' hr1 ?_ h
          intro s hs
          rcases List.mem_cons.1 hs with rfl | hs
          · exact hln
          · exact hst s hs

/-- ★ every line the parser builds ends at least as many source lines below its start as its tokens contain
    newline bytes -/
theorem parseFile_ln {data : Bytes} {stmts : List Expr} {i : Input} (h : parseFile data = .ok (stmts, i)) :
    ∀ s ∈ stmts, StmtLn s := by
  unfold parseFile at h
  cases hr : readToken (newInput data) with
  | error err => simp [hr, bind, Except.bind] at h
  | ok i0 =>
    simp only [hr, bind, Except.bind] at h
    exact parseFileLoop_ln _ i0 [] none stmts i (Reach.start hr) (by intro s hs; cases hs) h

/-! ### `assignComments` gives a comment only to a one-line node -/

theorem assignSuffix_span (span : Position × Position) (cs : Comments) (suf : List Comment) (hs : cs.suffix = [])
    (hne : (assignSuffix span cs suf).1.suffix ≠ []) : span.1.line = span.2.line := by
  unfold assignSuffix at hne
  split at hne
  · simp [hs] at hne
  · rename_i hl
    simpa using hl

/-- a line with an end-of-line comment starts and ends on the same source line -/
def SpanLine (l : Line) : Prop := l.comments.suffix ≠ [] → l.start.line = l.«end».line

def SpanStmt : Expr → Prop
  | .line l => SpanLine l
  | .lineBlock b => ∀ l ∈ b.lines, SpanLine l
  | _ => True

theorem postLinesRev_span : ∀ (ls : List Line) (suf : List Comment), (∀ l ∈ ls, l.comments.suffix = []) →
    ∀ l ∈ (postLinesRev ls suf).1, SpanLine l := by
  intro ls
  induction ls with
  | nil => intro _ _ l hl; cases hl
  | cons l0 ls ih =>
    intro suf hs l hl
    simp only [postLinesRev] at hl
    rcases List.mem_cons.1 hl with rfl | hl
    · intro hne
      exact assignSuffix_span (l0.start, l0.«end») l0.comments suf (hs l0 (by simp)) hne
    · exact ih _ (fun l' h' => hs l' (by simp [h'])) l hl

theorem postStmt_span (s : Expr) (suf : List Comment) (hs : NoSuf s) : SpanStmt (postStmt s suf).1 := by
  cases s with
  | lineBlock b =>
    obtain ⟨_, _, h3, _⟩ := hs
    simp only [postStmt, SpanStmt]
    intro l hl
    exact postLinesRev_span b.lines.reverse _ (fun l' h' => h3 l' (by simpa using h')) l (by simpa using hl)
  | line l =>
    intro hne
    exact assignSuffix_span (Expr.line l).span l.comments suf hs hne
  | commentBlock x => trivial
  | lparen x => trivial
  | rparen x => trivial

theorem postStmtsRev_span : ∀ (ss : List Expr) (suf : List Comment), (∀ s ∈ ss, NoSuf s) →
    ∀ s ∈ (postStmtsRev ss suf).1, SpanStmt s := by
  intro ss
  induction ss with
  | nil => intro _ _ s hs; cases hs
  | cons s0 ss ih =>
    intro suf hno s hs
    simp only [postStmtsRev] at hs
    rcases List.mem_cons.1 hs with rfl | hs
    · exact postStmt_span s0 suf (hno s0 (by simp))
    · exact ih _ (fun s' h' => hno s' (by simp [h'])) s hs

/-! ### the clause `NlLine` holds for every parsed tree -/

theorem nls_zero {ts : List Bytes} (h : nls ts = 0) : ∀ t ∈ ts, (10 : UInt8) ∉ t := by
  induction ts with
  | nil => intro t ht; cases ht
  | cons a r ih =>
    rw [nls_cons] at h
    intro t ht
    rcases List.mem_cons.1 ht with rfl | ht
    · exact List.count_eq_zero.1 (by omega)
    · exact ih (by omega) t ht

theorem nlLine_of (l : Line) (h1 : SpanLine l) (h2 : LnLe (clrL l)) : NlLine l := by
  intro hne
  have := h1 hne
  have h3 : l.start.line + nls l.token ≤ l.«end».line := h2
  exact nls_zero (by omega)

/-- ★ in every parsed tree, a line that carries an end-of-line comment has no newline byte inside its tokens -/
theorem parse_nlOK {name x : Bytes} {t : FileSyntax} (h : parse name x = .ok t) : ∀ s ∈ t.stmts, NlOK s := by
  unfold parse at h
  cases hp : parseFile x with
  | error e => simp [hp, bind, Except.bind] at h
  | ok v =>
    obtain ⟨stmts, i⟩ := v
    simp only [hp, bind, Except.bind, Except.ok.injEq] at h
    obtain ⟨hwf, hsfx⟩ := ModfileFmtEmits.parseFile_wf' x stmts i hp
    have hln := parseFile_ln hp
    have hfl : (i.commentsRev.reverse.filter (fun c => !c.suffix)) = [] := by
      rw [List.filter_eq_nil_iff]
      intro c hc
      simp [hsfx c (by simpa using hc)]
    unfold assignComments at h
    simp only [hfl, assignBefore_nil, preStmts_nil] at h
    subst h
    dsimp only
    have hno : ∀ s ∈ stmts.reverse, NoSuf s := fun s hs => wf_noSuf (hwf s (by simpa using hs))
    intro s hs
    have hs' : s ∈ (postStmtsRev stmts.reverse (i.commentsRev.reverse.filter (fun c => c.suffix)).reverse).1 := by
      simpa using hs
    have hspan := postStmtsRev_span _ _ hno s hs'
    have hclr : clrE s ∈ stmts := by
      have h1 : clrE s ∈ ((postStmtsRev stmts.reverse
          (i.commentsRev.reverse.filter (fun c => c.suffix)).reverse).1).map clrE := List.mem_map_of_mem hs'
      rw [postStmtsRev_clr] at h1
      obtain ⟨s0, hs0, heq⟩ := List.mem_map.1 h1
      rw [clrE_of_noSuf (hwf s0 (by simpa using hs0))] at heq
      rw [← heq]
      simpa using hs0
    have hl := hln _ hclr
    cases s with
    | commentBlock x => trivial
    | line l => exact nlLine_of l hspan hl
    | lineBlock b =>
      intro l hl'
      exact nlLine_of l (hspan l hl') (hl (clrL l) (List.mem_map_of_mem hl'))
    | lparen x => trivial
    | rparen x => trivial

/-! ### the counting hypothesis -/

/-- the per-statement part of `EolCount` -/
def CountStmt : Expr → Prop
  | .commentBlock x => x.comments.suffix = []
  | .line l => l.comments.suffix.length ≤ 1
  | .lineBlock b => b.lparen.comments.suffix.length ≤ 1 ∧ (∀ l ∈ b.lines, l.comments.suffix.length ≤ 1) ∧
      (b.rparen.comments.suffix ++ b.comments.suffix).length ≤ 1
  | _ => True

/-- ★ The hypothesis of the end-of-line-comment theorems, a decidable counting condition on the parsed tree:
    no line, `(` or `)` carries more than one end-of-line comment (a block and its `)` share one slot), a
    comment block carries none, and none is left over for the file header.  It can fail only if some quoted
    token contains an escaped newline. -/
structure EolCount (t : FileSyntax) : Prop where
  header : t.comments.before = []
  stmts : ∀ s ∈ t.stmts, CountStmt s

/-- for a parsed tree the counting condition is all of `EolOK` -/
theorem eolOK_of_count {name x : Bytes} {t : FileSyntax} (h : parse name x = .ok t) (hc : EolCount t) : EolOK t := by
  have hnl := parse_nlOK h
  refine ⟨hc.header, fun s hs => ?_⟩
  have h1 := hc.stmts s hs
  have h2 := hnl s hs
  cases s with
  | commentBlock x => exact h1
  | line l => exact ⟨h1, h2⟩
  | lineBlock b => exact ⟨h1.1, fun l hl => ⟨h1.2.1 l hl, h2 l hl⟩, h1.2.2⟩
  | lparen x => trivial
  | rparen x => trivial

theorem eolCount_of_ok {t : FileSyntax} (h : EolOK t) : EolCount t := by
  refine ⟨h.header, fun s hs => ?_⟩
  have h1 := h.stmts s hs
  cases s with
  | commentBlock x => exact h1
  | line l => exact h1.1
  | lineBlock b => exact ⟨h1.1, fun l hl => (h1.2.1 l hl).1, h1.2.2⟩
  | lparen x => trivial
  | rparen x => trivial

def countStmtB : Expr → Bool
  | .commentBlock x => x.comments.suffix.isEmpty
  | .line l => decide (l.comments.suffix.length ≤ 1)
  | .lineBlock b => decide (b.lparen.comments.suffix.length ≤ 1) &&
      b.lines.all (fun l => decide (l.comments.suffix.length ≤ 1)) &&
      decide ((b.rparen.comments.suffix ++ b.comments.suffix).length ≤ 1)
  | _ => true

def eolCountB (t : FileSyntax) : Bool := t.comments.before.isEmpty && t.stmts.all countStmtB

theorem eolCountB_sound {t : FileSyntax} (h : eolCountB t = true) : EolCount t := by
  simp only [eolCountB, Bool.and_eq_true, List.all_eq_true] at h
  refine ⟨by simpa using h.1, fun s hs => ?_⟩
  have := h.2 s hs
  cases s with
  | commentBlock x =>
    show x.comments.suffix = []
    simpa [countStmtB] using this
  | line l => simpa [countStmtB, CountStmt] using this
  | lineBlock b =>
    simp only [countStmtB, Bool.and_eq_true, decide_eq_true_eq, List.all_eq_true] at this
    exact ⟨this.1.1, this.1.2, this.2⟩
  | lparen x => trivial
  | rparen x => trivial

/-- ★ `format_parse_syntax` under the counting hypothesis -/
theorem format_parse_syntax_count (name x : Bytes) (t : FileSyntax) (h : parse name x = .ok t) (hc : EolCount t) :
    ∃ t', parse name (format t) = .ok t' ∧ eraseFile t' = normFileE t ∧ EolCount t' := by
  obtain ⟨t', h1, h2, h3⟩ := format_parse_syntax_eol name x t h (eolOK_of_count h hc)
  exact ⟨t', h1, h2, eolCount_of_ok h3⟩

/-- ★ `format_idempotent` under the counting hypothesis -/
theorem format_idempotent_count (name x : Bytes) (t t' : FileSyntax) (h : parse name x = .ok t) (hc : EolCount t)
    (h' : parse name (format t) = .ok t') : format t' = format t :=
  format_idempotent_eol name x t t' h (eolOK_of_count h hc) h'

end ModVerif.Proofs.ModfileEol
