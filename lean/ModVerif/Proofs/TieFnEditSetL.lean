/-
  Helper lemmas for Tie/FnEditSet.lean, `File.SetRequireSeparateIndirect`, part 9: loop 5 (the additions, map `need` in
  insertion order = the model's `perm = id`), facts about `needMap`, and the TAIL of the function (loops 3, 4, 5 and
  SortBlocks) as one simulation.
-/
import ModVerif.Proofs.TieFnEditSetK
set_option linter.unusedSimpArgs false
set_option linter.unusedVariables false
namespace ModVerif.Tie.FnEditSetL
open ModVerif ModVerif.GoRt ModVerif.Generated.Edit ModVerif.Tie.FnEditRep ModVerif.Tie.FnEditTreeA ModVerif.Tie.FnEditSetA
  ModVerif.Tie.FnEditSetB ModVerif.Tie.FnEditSetC ModVerif.Tie.FnEditSetD ModVerif.Tie.FnEditSetE ModVerif.Tie.FnEditSetF
  ModVerif.Tie.FnEditSetG ModVerif.Tie.FnEditSetH ModVerif.Tie.FnEditSetI ModVerif.Tie.FnEditSetJ ModVerif.Tie.FnEditSetK
open ModVerif.Modfile.Edit (EFile Want treeIds appendToBlock needMap addSepNew SepCtx sepLoop sortBlocks)

/-! ### `needMap`: distinct paths -/

theorem needMap_nodup (strict : Bool) : ∀ (ws acc need : List Want), needMap strict ws acc = .ok need →
    (acc.map (·.path)).Nodup → (need.map (·.path)).Nodup
  | [], acc, need, h, hn => by
    simp only [needMap] at h; cases h; exact hn
  | w :: ws, acc, need, h, hn => by
    unfold needMap at h
    cases hf : acc.find? (·.path == w.path) with
    | none =>
      rw [hf] at h
      refine needMap_nodup strict ws _ need h ?_
      rw [List.map_append, List.nodup_append]
      refine ⟨hn, by simp, ?_⟩
      intro a ha b hb
      simp only [List.map_cons, List.map_nil, List.mem_singleton] at hb
      subst hb
      obtain ⟨x, hx, rfl⟩ := List.mem_map.1 ha
      intro e
      have := List.find?_eq_none.1 hf x hx
      simp [e] at this
    | some prev =>
      rw [hf] at h
      simp only at h
      split at h
      · cases h
      · refine needMap_nodup strict ws _ need h ?_
        have : (acc.map fun a => if a.path == w.path then w else a).map (·.path) = acc.map (·.path) := by
          rw [List.map_map]
          apply List.map_congr_left
          intro a _
          by_cases e : a.path = w.path <;> simp [e]
        rw [this]; exact hn

/-- distinct keys: distinct values (the value's object carries the key) -/
theorem NeedRel_ptr_nodup {objs : List Require} : ∀ {np : List (Bytes × Int)} {ws : List Want}, NeedRel objs np ws →
    (ws.map (·.path)).Nodup → (np.map (·.2)).Nodup
  | [], [], _, _ => List.nodup_nil
  | kp :: t, w :: ws, r, hn => by
    simp only [List.map_cons, List.nodup_cons] at hn ⊢
    refine ⟨?_, NeedRel_ptr_nodup r.2 hn.2⟩
    intro hm
    obtain ⟨kq, hkq, hq⟩ := List.mem_map.1 hm
    -- the entry of `ws` that corresponds to `kq`
    have : ∀ {t : List (Bytes × Int)} {ws : List Want}, NeedRel objs t ws → kq ∈ t →
        ∃ v ∈ ws, heapGet objs kq.2 = .ok (requireG (wantReq v)) := by
      intro t
      induction t with
      | nil => intro ws _ hk; cases hk
      | cons a t ih =>
        intro ws r hk
        cases ws with
        | nil => exact r.elim
        | cons v vs =>
          rcases List.mem_cons.1 hk with rfl | hk
          · exact ⟨v, List.mem_cons_self, r.1.2⟩
          · obtain ⟨v', hv', hg⟩ := ih r.2 hk
            exact ⟨v', List.mem_cons_of_mem _ hv', hg⟩
    obtain ⟨v, hv, hg⟩ := this r.2 hkq
    rw [hq, r.1.2] at hg
    have : wantReq w = wantReq v := by
      have := Except.ok.inj hg
      simp only [requireG, Require.mk.injEq, Drv.GenEdit.mvG, ModVersion.mk.injEq] at this
      simp only [wantReq, Modfile.Require.mk.injEq, Modfile.ModVersion.mk.injEq]
      exact ⟨⟨this.1.1, this.1.2⟩, this.2.1, trivial⟩
    have hp : w.path = v.path := by
      have := congrArg (fun r : Modfile.Require => r.mod.path) this
      exact this
    exact hn.1 (List.mem_map.2 ⟨v, hv, hp.symm⟩)
  | [], _ :: _, r, _ => r.elim
  | _ :: _, [], r, _ => r.elim

/-! ### loop 5 -/

/-- the additions on the model: the wants whose path is not among the kept ones -/
def addMissing (ctx : SepCtx) (hv : List Bytes) : EFile → List Want → EFile
  | e, [] => e
  | e, w :: ws => addMissing ctx hv (if hv.contains w.path then e else addSepNew ctx e w) ws

theorem addMissing_eq (ctx : SepCtx) (hv : List Bytes) : ∀ (ws : List Want) (e : EFile),
    (ws.filter fun w => !hv.contains w.path).foldl (addSepNew ctx) e = addMissing ctx hv e ws
  | [], e => rfl
  | w :: ws, e => by
    simp only [List.filter_cons, addMissing]
    cases hv.contains w.path
    · simp only [Bool.not_false, if_true, List.foldl_cons, Bool.false_eq_true, if_false]
      exact addMissing_eq ctx hv ws _
    · simp only [Bool.not_true, Bool.false_eq_true, if_false, if_true]
      exact addMissing_eq ctx hv ws _

/-- fuel of loop 5: one per iteration on top of `AutoQuote` of the path -/
def fuel5 : List Want → Nat
  | [] => 1
  | w :: ws => max (w.path.length + 1) (fuel5 ws) + 1

theorem addMissing_mkE (ctx : SepCtx) (hv : List Bytes) (e0 : EFile) : ∀ (ws : List Want) (rqs : List Modfile.Require)
    (syn : Modfile.FileSyntax) (next : Nat), ∃ rqs' syn' next', addMissing ctx hv (mkE e0 rqs syn next) ws = mkE e0 rqs' syn' next'
  | [], rqs, syn, next => ⟨rqs, syn, next, rfl⟩
  | w :: ws, rqs, syn, next => by
    simp only [addMissing]
    cases hv.contains w.path
    · simp only [Bool.false_eq_true, if_false, addSepNew_eq]
      exact addMissing_mkE ctx hv e0 ws _ _ _
    · simp only [if_true]
      exact addMissing_mkE ctx hv e0 ws _ _ _

theorem loop5_sim {isPrint : Int → Bool} {quote : Bytes → Bytes} (hAQ : AutoQuoteSpec isPrint quote) (f : Int) (e0 : EFile)
    (ctx : SepCtx) (dB iB : Int) (fo : FileSyntax) (hdi : fo.Stmt[ctx.directIdx]? = some (Expr.LineBlock dB))
    (hii : fo.Stmt[ctx.indirectIdx]? = some (Expr.LineBlock iB)) (np hpf : List (Bytes × Int)) (hv : List Bytes)
    (hH : HaveRel hpf hv) :
    ∀ (rest : List Want) (nrest npre : List (Bytes × Int)) (ri : Int) (o : File) (rqs : List Modfile.Require)
      (syn : Modfile.FileSyntax) (next : Nat) (h : Heap) (fuel : Nat),
      np = npre ++ nrest → ri = (npre.length : Int) → NeedRel h.requires nrest rest → (nrest.map (·.2)).Nodup →
      (∀ kp ∈ nrest, kp.2 ∉ o.Require) → heapGet h.mods f = .ok o → RepFAt h o (mkE e0 rqs syn next) →
      heapGet h.files o.Syntax = .ok fo → fuel5 rest ≤ fuel →
      ∃ h' o', File_SetRequireSeparateIndirect_loop5 isPrint quote f dB iB np hpf fuel ri h = .ok (len np, h') ∧
        heapGet h'.mods f = .ok o' ∧ RepFAt h' o' (addMissing ctx hv (mkE e0 rqs syn next) rest)
  | [], [], npre, ri, o, rqs, syn, next, h, fuel + 1, hnp, hri, _, _, _, hm, R, _, _ => by
    subst hnp hri
    have := not_lt_len_end npre
    refine ⟨h, o, ?_, hm, R⟩
    simp [File_SetRequireSeparateIndirect_loop5, this, pure, Except.pure, len_eq]
  | w :: ws, kp :: nrest, npre, ri, o, rqs, syn, next, h, fuel + 1, hnp, hri, hN, hnd, hfr, hm, R, hfile, hf => by
    obtain ⟨⟨hk, hobj⟩, hN'⟩ := hN
    simp only [List.map_cons, List.nodup_cons] at hnd
    simp only [fuel5] at hf
    have ih := loop5_sim hAQ f e0 ctx dB iB fo hdi hii np hpf hv hH ws nrest (npre ++ [kp]) (ri + 1)
    subst hnp hri
    have hlt := lt_len_cursor npre kp nrest
    have hcur := idxL_cursor npre kp nrest
    unfold File_SetRequireSeparateIndirect_loop5
    simp only [hlt, decide_true, if_true, hcur, bind, Except.bind]
    have hpe : kp.1 = w.path := hk
    generalize kp.1 = path at hpe ⊢
    subst hpe
    have hhave := hH.mapGet w.path
    simp only [hhave, addMissing]
    cases hc : hv.contains w.path with
    | true =>
      simp only [Bool.not_true, Bool.false_eq_true, if_false, if_true]
      exact ih o rqs syn next h fuel (by simp) (by simp) hN' hnd.2 (fun q hq => hfr q (List.mem_cons_of_mem _ hq)) hm R hfile
        (by omega)
    | false =>
      simp only [Bool.not_false, if_true, Bool.false_eq_true, if_false, hobj]
      have hwi : (requireG (wantReq w)).Indirect = w.indirect := rfl
      have hfresh : kp.2 ∉ o.Require := hfr kp List.mem_cons_self
      -- the step with the block index `idx` and pointer `bp`
      have hstep : ∀ (idx : Nat) (bp : Int), fo.Stmt[idx]? = some (Expr.LineBlock bp) →
          idx = (if w.indirect then ctx.indirectIdx else ctx.directIdx) →
          ∃ h' o', (File_SetRequireSeparateIndirect_moveReq isPrint quote fuel kp.2 bp h >>= fun t =>
              heapGet t.2.mods f >>= fun t152 => heapGet t.2.mods f >>= fun t153 =>
              heapSet t.2.mods f { t153 with Require := t152.Require ++ [kp.2] } >>= fun t154 =>
              File_SetRequireSeparateIndirect_loop5 isPrint quote f dB iB (npre ++ kp :: nrest) hpf fuel ((npre.length : Int) + 1)
                { t.2 with mods := t154 }) = .ok (len (npre ++ kp :: nrest), h') ∧
            heapGet h'.mods f = .ok o' ∧
            RepFAt h' o' (addMissing ctx hv (addSepNew ctx (mkE e0 rqs syn next) w) ws) := by
        intro idx bp hidx hidx'
        obtain ⟨blk, hb, R1⟩ := addSepNew_sim R (w := w) (idx := idx) (bp := bp) hobj hfresh hfile hidx
          (h.mods.set (f.toNat - 1) { o with Require := o.Require ++ [kp.2] })
        rw [moveReq_new_eq hAQ hobj rfl hb (by simp [wantReq]; omega)]
        have hm1 : heapGet (newHeap h kp.2 (wantReq w) bp blk).mods f = .ok o := hm
        simp only [bind, Except.bind, hm1, heapSet_of_get _ hm1]
        rw [addSepNew_eq, ← hidx']
        have hN1 : NeedRel ({ newHeap h kp.2 (wantReq w) bp blk with
            mods := h.mods.set (f.toNat - 1) { o with Require := o.Require ++ [kp.2] } } : Heap).requires nrest ws := by
          refine NeedRel_setOther hN' hobj ?_ _
          intro q hq e
          exact hnd.1 (List.mem_map.2 ⟨q, hq, e⟩)
        have hfr1 : ∀ q ∈ nrest, q.2 ∉ ({ o with Require := o.Require ++ [kp.2] } : File).Require := by
          intro q hq hmem
          simp only [List.mem_append, List.mem_singleton] at hmem
          rcases hmem with hmem | hmem
          · exact hfr q (List.mem_cons_of_mem _ hq) hmem
          · exact hnd.1 (List.mem_map.2 ⟨q, hq, hmem⟩)
        exact ih _ _ _ _ _ fuel (by simp) (by simp) hN1 hnd.2 hfr1 (heapGet_listSet_same _ hm) R1 hfile (by omega)
      simp only [bind, Except.bind] at hstep
      cases hind : w.indirect with
      | true =>
        simp only [hwi, hind, if_true]
        have := hstep ctx.indirectIdx iB hii (by simp [hind])
        exact this
      | false =>
        simp only [hwi, hind, Bool.false_eq_true, if_false]
        have := hstep ctx.directIdx dB hdi (by simp [hind])
        exact this
  | [], _ :: _, _, _, _, _, _, _, _, _, _, _, hN, _, _, _, _, _, _ => hN.elim
  | _ :: _, [], _, _, _, _, _, _, _, _, _, _, hN, _, _, _, _, _, _ => hN.elim
  | [], [], _, _, _, _, _, _, _, 0, _, _, _, _, _, _, _, _, hf => by simp [fuel5] at hf

/-! ### the tail of the function: loops 3, 4, 5 and SortBlocks -/

/-- the body of the continuation `k162` of the generated function -/
def tailG (isPrint : Int → Bool) (quote : Bytes → Bytes) (fuel : Nat) (f : Int) (req : List Int) (lineToBlock : List (Int × Int))
    (oneFlatUncommentedBlock : Bool) (lastDirectBlock lastIndirectBlock : Int) (world : Heap) : M (Unit × Heap) := do
  let need := ([] : (List (Bytes × Int)))
  let ri119 := (0 : Int)
  let (ri119, need) ← File_SetRequireSeparateIndirect_loop3 isPrint quote req world fuel ri119 need
  let have_ := ([] : (List (Bytes × Int)))
  let t122 ← heapGet ((world).mods) f
  let rx123 := (t122.Require)
  let ri124 := (0 : Int)
  let (ri124, world, have_) ← File_SetRequireSeparateIndirect_loop4 isPrint quote rx123 f lineToBlock oneFlatUncommentedBlock lastDirectBlock lastIndirectBlock need fuel ri124 world have_
  let ri148 := (0 : Int)
  let (ri148, world) ← File_SetRequireSeparateIndirect_loop5 isPrint quote f lastDirectBlock lastIndirectBlock need have_ fuel ri148 world
  let t160 ← (File_SortBlocks fuel f world)
  let (wr161, world) := t160
  pure ((), world)

/-- the same part of the model (`e'` = the file after the two blocks were ensured) -/
def tailM (ctx : SepCtx) (e' : EFile) (req : List Want) : Except Modfile.Edit.EditErr EFile := do
  let need ← needMap false req []
  let (rq, have_, syn, next) ← sepLoop ctx need e'.f.require [] e'.f.syn e'.next
  let e : EFile := { f := { e'.f with require := rq, syn := syn }, next := next }
  let missing := need.filter fun w => !have_.contains w.path
  let e := missing.foldl (addSepNew ctx) e
  pure (sortBlocks e)

/-- fuel of the tail, through the states of the model -/
def fuelTail (FS : EFile → Nat) (ctx : SepCtx) (e' : EFile) (req : List Want) : Nat :=
  max (req.length + 1) (max (e'.f.require.length + 1)
    (match needMap false req [] with
     | .ok need =>
       match sepLoop ctx need e'.f.require [] e'.f.syn e'.next with
       | .ok (rq, hv, syn, next) => max (fuel5 need) (FS (addMissing ctx hv (mkE e' rq syn next) need))
       | .error _ => 0
     | .error _ => 0))

theorem tail_sim (hIdx : IndirectIdxOK) {isPrint : Int → Bool} {quote : Bytes → Bytes} (hAQ : AutoQuoteSpec isPrint quote)
    {FS : EFile → Nat} (hS : SortBlocksSpec FS) {h : Heap} {fp : Int} {o : File} {e' : EFile} {ctx : SepCtx} {req : List Want}
    {ps : List Int} {ltb : List (Int × Int)} {dB iB : Int} {fo : FileSyntax} {fuel : Nat}
    (hm : heapGet h.mods fp = .ok o) (R : RepFAt h o e') (hfile : heapGet h.files o.Syntax = .ok fo)
    (hdi : fo.Stmt[ctx.directIdx]? = some (Expr.LineBlock dB)) (hii : fo.Stmt[ctx.indirectIdx]? = some (Expr.LineBlock iB))
    (hL : LtbOK ltb ctx dB iB) (hq : ReqArgsS h.requires ps req) (hdis : ∀ p ∈ ps, p ∉ o.Require)
    (hT : ∀ rq ∈ e'.f.require, rq.lineId ≠ 0 → rq.lineId ∈ treeIds e'.f.syn.stmts)
    (hf : fuelTail FS ctx e' req ≤ fuel) :
    match tailM ctx e' req with
    | .ok e'' => ∃ h', tailG isPrint quote fuel fp ps ltb ctx.oneFlat dB iB h = .ok ((), h') ∧ RepF h' fp e''
    | .error _ => tailG isPrint quote fuel fp ps ltb ctx.oneFlat dB iB h = .error .panic := by
  unfold fuelTail at hf
  obtain ⟨need, np, hneed, hrun3, hN, hPn⟩ := loop3S_sim isPrint quote h (fun p => p ∉ o.Require) req ps [] ps 0 [] [] fuel rfl rfl hq
    trivial (by omega) (fun _ hk => by cases hk) hdis
  have hndp : (need.map (·.path)).Nodup := needMap_nodup false req [] need hneed List.nodup_nil
  unfold tailG tailM
  simp only [bind, Except.bind, hrun3, hneed, hm]
  simp only [hneed] at hf
  have hlen : o.Require.length = e'.f.require.length := REntsL.length R.require.rel
  have h4 := loop4_sim hIdx isPrint quote fp o e' ctx need np ltb dB iB fo hL hdi hii hPn e'.f.require o.Require [] 0 [] [] []
    e'.f.syn e'.next h fuel rfl rfl rfl hlen (by simpa [mkE_self] using R) hfile hN HaveRel.nil (by simpa using hT) (by omega)
  cases hl : sepLoop ctx need e'.f.require [] e'.f.syn e'.next with
  | error err =>
    rw [hl] at h4
    simp only [h4]
  | ok res =>
    obtain ⟨rq, hv, syn, next⟩ := res
    rw [hl] at h4
    simp only [hl] at hf
    obtain ⟨h4', hp', hrun4, R4, hH4, hN4, hm4, hfile4⟩ := h4
    simp only [hrun4]
    obtain ⟨h5, o5, hrun5, hm5, R5⟩ := loop5_sim hAQ fp e' ctx dB iB fo hdi hii np hp' hv hH4 need np [] 0 o rq syn next h4' fuel
      rfl rfl hN4 (NeedRel_ptr_nodup hN4 hndp) hPn (by rw [hm4]; exact hm) (by simpa using R4) hfile4 (by omega)
    simp only [hrun5]
    obtain ⟨h6, hrun6, R6⟩ := hS h5 fp _ fuel ⟨o5, hm5, R5⟩ (by omega)
    simp only [hrun6, pure, Except.pure]
    refine ⟨h6, rfl, ?_⟩
    rw [addMissing_eq]
    exact R6

end ModVerif.Tie.FnEditSetL
