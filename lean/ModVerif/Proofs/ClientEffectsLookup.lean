/-
  ClientEffects, part 2 — `Client.lookup` and sequences of lookups (`runLookups`): the reads of a lookup file / lookup
  path occur only inside `lookupWork`, i.e. only on a miss of the record cache, at most once each; the record cache only
  grows.  `fetch_once` for the sequential model, for EVERY environment.
-/
import ModVerif.Proofs.ClientEffects
import ModVerif.Proofs.ClientRefineCache
import ModVerif.Proofs.ClientMoreTie
namespace ModVerif.ClientEffects
open ModVerif ModVerif.Client ModVerif.Tile ModVerif.ClientRefine ModVerif.ClientFetch

section
variable {σ H : Type} {E : Env σ}

/-- frame of `lookupWork file rp`: `ReadCache(file)`, then possibly `ReadRemote(rp)`, then `Other` effects -/
structure LF (file rp : Bytes) (w w' : World σ H) : Prop where
  name : w'.c.name = w.c.name
  record : w'.c.record = w.c.record
  inited : w'.c.inited = w.c.inited
  trace : ∃ ok1 mid es, w'.tr = w.tr ++ (.read .cache file ok1 :: (mid ++ es)) ∧
    (mid = [] ∨ ∃ ok2, mid = [.read .remote rp ok2]) ∧ ∀ e ∈ es, Other w.c.name e

theorem LF.andThen {file rp : Bytes} {w1 w2 w3 : World σ H} (a : LF file rp w1 w2) (b : EF w2 w3) : LF file rp w1 w3 := by
  obtain ⟨ok1, mid, es1, e1, hm, g1⟩ := a.trace
  obtain ⟨es2, e2, g2⟩ := b.trace
  refine ⟨b.name.trans a.name, b.record.trans a.record, b.inited.trans a.inited, ok1, mid, es1 ++ es2, ?_, hm, ?_⟩
  · rw [e2, e1]; simp
  · intro e he
    rcases List.mem_append.mp he with h | h
    · exact g1 e h
    · have := g2 e h
      rw [a.name] at this
      exact this

theorem lf_lwGot (w : World σ H) (file rp : Bytes) : LF file rp w (lwGot E w file rp).2 := by
  unfold lwGot
  split
  · exact ⟨rfl, rfl, rfl, _, [], [], rfl, Or.inl rfl, by simp⟩
  · split
    · exact ⟨rfl, rfl, rfl, (E.readCache w.s file).1.isSome,
        [.read .remote rp (E.readRemote (E.readCache w.s file).2 rp).1.isSome], [],
        by simp [readRemote, readCache], Or.inr ⟨_, rfl⟩, by simp⟩
    · exact ⟨rfl, rfl, rfl, (E.readCache w.s file).1.isSome,
        [.read .remote rp (E.readRemote (E.readCache w.s file).2 rp).1.isSome], [],
        by simp [readRemote, readCache], Or.inr ⟨_, rfl⟩, by simp⟩

variable [DecidableEq H]

/-- **The work function of the record cache**: exactly one `ReadCache(file)`, at most one `ReadRemote(remotePath)`
(directly after it), everything else `Other` -/
theorem lf_lookupWork (P : Params H) (w : World σ H) (file rp : Bytes) : LF file rp w (lookupWork P E w file rp).2 := by
  rw [lookupWork_eq]
  have hg := lf_lwGot (E := E) w file rp
  generalize lwGot E w file rp = got at *
  split
  · exact hg
  · split
    · exact hg
    · rename_i id text treeMsg _
      have hm := hg.andThen (ef_mergeLatest (E := E) P got.2 treeMsg)
      simp only
      split
      · exact hm
      · have hk := hm.andThen (ef_checkRecord (E := E) P _ id text)
        split
        · exact hk
        · split
          · exact hk.andThen (ef_writeCache (E := E) _ _ _)
          · exact hk

omit [DecidableEq H] in
theorem initWork_aux (w wa wb : World σ H) (e0 : Effect) (h0 : ∀ nm, Other nm e0)
    (hatr : wa.tr = w.tr ++ [e0]) (harec : wa.c.record = w.c.record) (l : EF wa wb) (o : Option Err) :
    (setInit wb o).c.inited ≠ none ∧ (setInit wb o).c.record = w.c.record ∧
    ∃ es, (setInit wb o).tr = w.tr ++ es ∧ ∀ e ∈ es, Other (setInit wb o).c.name e := by
  obtain ⟨es, e1, g1⟩ := l.trace
  refine ⟨by simp [setInit], ?_, e0 :: es, ?_, ?_⟩
  · simp only [setInit]; rw [l.record, harec]
  · simp only [setInit]; rw [e1, hatr]; simp
  · intro e he
    simp only [setInit]
    rw [l.name]
    rcases List.mem_cons.mp he with h | h
    · subst h; exact h0 _
    · exact g1 e h

/-- `initWork`: afterwards the init flag is set, the record cache is untouched, and every effect is `Other` for the
name the client has AFTER the initialisation -/
theorem initWork_trace (P : Params H) (w : World σ H) :
    (initWork P E w).c.inited ≠ none ∧ (initWork P E w).c.record = w.c.record ∧
    ∃ es, (initWork P E w).tr = w.tr ++ es ∧ ∀ e ∈ es, Other (initWork P E w).c.name e := by
  unfold initWork
  simp only
  have h0 : ∀ nm, Other nm (Effect.read .config (B "key") (E.readConfig w.s (B "key")).1.isSome) := fun _ => trivial
  split
  · exact initWork_aux w (readConfig E w (B "key")).2 _ _ h0 rfl rfl (EF.refl _) _
  · split
    · exact initWork_aux w (readConfig E w (B "key")).2 _ _ h0 rfl rfl (EF.refl _) _
    · rename_i vkey _ _ v _
      generalize hw1 : ({ (readConfig E w (B "key")).2 with
            c := { (readConfig E w (B "key")).2.c with verifiers := [v], name := v.name } } : World σ H) = w1
      have ht1 : w1.tr = w.tr ++ [Effect.read .config (B "key") (E.readConfig w.s (B "key")).1.isSome] := by
        rw [← hw1]; rfl
      have hr1 : w1.c.record = w.c.record := by rw [← hw1]; rfl
      have l1 := ef_readConfig (E := E) w1 (latestFile v.name)
      split
      · exact initWork_aux w w1 _ _ h0 ht1 hr1 l1 _
      · rename_i data _
        have l2 := l1.trans (ef_mergeLatest (E := E) P _ data)
        split
        · exact initWork_aux w w1 _ _ h0 ht1 hr1 l2 _
        · exact initWork_aux w w1 _ _ h0 ht1 hr1 l2 _

/-- `init` -/
theorem init_trace (P : Params H) (w : World σ H) :
    (init P E w).c.inited ≠ none ∧ (init P E w).c.record = w.c.record ∧
    (w.c.inited ≠ none → init P E w = w) ∧
    ∃ es, (init P E w).tr = w.tr ++ es ∧ ∀ e ∈ es, Other (init P E w).c.name e := by
  unfold init
  split
  · rename_i x hx
    exact ⟨by rw [hx]; simp, rfl, fun _ => rfl, [], by simp, by simp⟩
  · rename_i hx
    obtain ⟨h1, h2, h3⟩ := initWork_trace (E := E) P w
    exact ⟨h1, h2, fun h => absurd hx h, h3⟩

/-- what one `Lookup` call does to the trace and to the record cache, relative to the client name `name` after `init`:
`quiet` — no read of any lookup file or lookup path, record cache unchanged; `fetch` — the record cache missed for this
call's own file, which is now cached, and the trace extension is `pre ++ ReadCache(file) :: mid ++ post` with `mid`
empty or `ReadRemote(file without the name)`, `pre`/`post` free of lookup reads -/
inductive StepShape (name : Bytes) (own : Option Bytes) (w w' : World σ H) : Prop
  | quiet (ext : List Effect) : w'.tr = w.tr ++ ext → w'.c.record = w.c.record → (∀ e ∈ ext, Other name e) →
      StepShape name own w w'
  | fetch (file : Bytes) (r : Except Err Bytes) (pre mid post : List Effect) (ok1 : Bool) :
      own = some file → w.c.record.lookup file = none → w'.c.record = (file, r) :: w.c.record →
      w'.tr = w.tr ++ (pre ++ (.read .cache file ok1 :: (mid ++ post))) →
      (mid = [] ∨ ∃ ok2, mid = [.read .remote (file.drop name.length) ok2]) →
      (∀ e ∈ pre, Other name e) → (∀ e ∈ post, Other name e) → StepShape name own w w'

/-- **One `Lookup` call.**  Either it is refused before `init` (GONOSUMDB) and nothing happens at all, or — with `name`
the client's name after `init` — the client is initialised afterwards with that name, and the call has `StepShape`. -/
theorem lookup_step (P : Params H) (w : World σ H) (path vers : Bytes) :
    (lookup P E w path vers).2 = w ∨
    ((lookup P E w path vers).2.c.name = (init P E w).c.name ∧ (lookup P E w path vers).2.c.inited ≠ none ∧
      StepShape (init P E w).c.name (lookupFile P.isLetter (init P E w).c.name path vers) w (lookup P E w path vers).2) := by
  rw [lookup_eq_via_lookupFile]
  split
  · left; rfl
  · right
    obtain ⟨hi, hrec, _, es, he, hes⟩ := init_trace (E := E) P w
    simp only
    generalize init P E w = w0 at *
    have hq : StepShape w0.c.name (lookupFile P.isLetter w0.c.name path vers) w w0 := .quiet es he hrec hes
    split
    · exact ⟨rfl, hi, hq⟩
    · split
      · exact ⟨rfl, hi, hq⟩
      · rename_i file hfile
        cases hl : w0.c.record.lookup file with
        | some r =>
          simp only
          split <;> exact ⟨rfl, hi, hq⟩
        | none =>
          have lf := lf_lookupWork (E := E) P w0 file (file.drop w0.c.name.length)
          obtain ⟨ok1, mid, post, e1, hm, g1⟩ := lf.trace
          have hs : StepShape w0.c.name (lookupFile P.isLetter w0.c.name path vers) w
              ({ (lookupWork P E w0 file (file.drop w0.c.name.length)).2 with
                c := { (lookupWork P E w0 file (file.drop w0.c.name.length)).2.c with
                  record := (file, (lookupWork P E w0 file (file.drop w0.c.name.length)).1) ::
                    (lookupWork P E w0 file (file.drop w0.c.name.length)).2.c.record } } : World σ H) := by
            refine .fetch file (lookupWork P E w0 file (file.drop w0.c.name.length)).1 es mid post ok1 hfile (by rw [← hrec]; exact hl) ?_ ?_ hm hes g1
            · simp only; rw [lf.record, hrec]
            · simp only; rw [e1, he]; simp
          simp only
          split <;> exact ⟨lf.name, by simp only; rw [lf.inited]; exact hi, hs⟩

/-! ### counting -/

/-- 1 if the record cache has an entry for `f`, else 0 -/
def hasRec (f : Bytes) (w : World σ H) : Nat := if (w.c.record.lookup f).isSome then 1 else 0

omit [DecidableEq H] in
theorem lookupFile_shape (isLetter : Nat → Bool) (name path vers file : Bytes)
    (h : lookupFile isLetter name path vers = some file) : ∃ rest, file = name ++ (B "/lookup/" ++ rest) := by
  unfold lookupFile at h
  split at h
  · cases h
  · split at h
    · cases h
    · rename_i ep _ _ ev _
      cases h
      exact ⟨ep ++ [64] ++ ev, by simp⟩

omit [DecidableEq H] in
theorem lookup_cons_bytes {β : Type} (f g : Bytes) (b : β) (l : List (Bytes × β)) :
    ((g, b) :: l).lookup f = if f = g then some b else l.lookup f := by
  simp only [List.lookup]
  by_cases h : f = g
  · subst h; simp
  · have : (f == g) = false := by simpa using h
    simp [this, h]

omit [DecidableEq H] in
/-- the counting form of `StepShape`, for ANY lookup key `name ++ "/lookup/" ++ rest` of the client -/
theorem stepShape_counts (name : Bytes) (own : Option Bytes) (w w' : World σ H)
    (hown : ∀ f, own = some f → ∃ rest, f = name ++ (B "/lookup/" ++ rest))
    (h : StepShape name own w w') (rest : Bytes) :
    ∃ ext, w'.tr = w.tr ++ ext ∧
      cacheReads (name ++ (B "/lookup/" ++ rest)) ext + hasRec (name ++ (B "/lookup/" ++ rest)) w
        ≤ hasRec (name ++ (B "/lookup/" ++ rest)) w' ∧
      remoteReads (B "/lookup/" ++ rest) ext + hasRec (name ++ (B "/lookup/" ++ rest)) w
        ≤ hasRec (name ++ (B "/lookup/" ++ rest)) w' := by
  cases h with
  | quiet ext he hr ho =>
    refine ⟨ext, he, ?_, ?_⟩
    · rw [cacheReads_other name rest ext ho]; unfold hasRec; rw [hr]; omega
    · rw [remoteReads_other name rest ext ho]; unfold hasRec; rw [hr]; omega
  | fetch file r pre mid post ok1 hf hmiss hr he hm hpre hpost =>
    obtain ⟨rest', hfile⟩ := hown file hf
    have hdrop : file.drop name.length = B "/lookup/" ++ rest' := by rw [hfile]; simp
    refine ⟨_, he, ?_, ?_⟩
    · have c1 := cacheReads_other name rest pre hpre
      have c2 := cacheReads_other name rest post hpost
      have c3 : cacheReads (name ++ (B "/lookup/" ++ rest)) mid = 0 := by
        rcases hm with rfl | ⟨ok2, rfl⟩
        · rfl
        · simp [cacheReads, isCacheRead]
      unfold cacheReads at *
      simp only [List.countP_append, List.countP_cons, c1, c2, c3]
      unfold hasRec
      rw [hr, lookup_cons_bytes]
      by_cases heq : name ++ (B "/lookup/" ++ rest) = file
      · rw [heq, hmiss]; simp [isCacheRead]
      · have : isCacheRead (name ++ (B "/lookup/" ++ rest)) (.read .cache file ok1) = false := by
          simp only [isCacheRead, beq_eq_false_iff_ne, ne_eq]
          exact fun h => heq h.symm
        simp only [this, heq, if_false]
        simp
    · have c1 := remoteReads_other name rest pre hpre
      have c2 := remoteReads_other name rest post hpost
      unfold remoteReads at *
      simp only [List.countP_append, List.countP_cons, c1, c2]
      unfold hasRec
      rw [hr, lookup_cons_bytes]
      by_cases heq : name ++ (B "/lookup/" ++ rest) = file
      · rw [heq, hmiss]
        rcases hm with rfl | ⟨ok2, rfl⟩
        · simp [isRemoteRead]
        · simp only [isRemoteRead, Option.isSome_none, Option.isSome_some, if_true]
          simp
          split <;> omega
      · have hne : B "/lookup/" ++ rest' ≠ B "/lookup/" ++ rest := by
          intro h
          apply heq
          rw [hfile, h]
        have c3 : List.countP (isRemoteRead (B "/lookup/" ++ rest)) mid = 0 := by
          rcases hm with rfl | ⟨ok2, rfl⟩
          · rfl
          · rw [hdrop]
            simp [isRemoteRead, hne]
        simp only [c3, isRemoteRead, heq, if_false]
        simp

omit [DecidableEq H] in
/-- a `StepShape` step keeps every entry of the record cache (the association list only grows, and only under a key
that had no entry) -/
theorem stepShape_record_mono (name : Bytes) (own : Option Bytes) (w w' : World σ H) (h : StepShape name own w w')
    (g : Bytes) (r : Except Err Bytes) (hg : w.c.record.lookup g = some r) : w'.c.record.lookup g = some r := by
  cases h with
  | quiet ext he hr ho => rw [hr]; exact hg
  | fetch file r' pre mid post ok1 hf hmiss hr he hm hpre hpost =>
    rw [hr, lookup_cons_bytes]
    split
    · rename_i heq
      rw [heq, hmiss] at hg
      cases hg
    · exact hg

/-- **`fetch_once` for one call of the sequential `Lookup`**, every environment.  `name` is the client's name after
`init`, `file` the call's lookup file (`lookupFile`), `file.drop name.length` its lookup path.  The trace extension of
the call contains at most one `ReadCache(file)` and at most one `ReadRemote(path)`; every other logged effect is `Other`
(cache read of a tile file of the client, remote read of a tile path, configuration read, or a write / SecurityError);
if the record cache has an entry for `file` there is no read of the file or the path at all; entries are kept. -/
theorem lookup_reads_lookup_file_once (P : Params H) (w : World σ H) (path vers file : Bytes)
    (hfile : lookupFile P.isLetter (init P E w).c.name path vers = some file) :
    ∃ ext, (lookup P E w path vers).2.tr = w.tr ++ ext ∧
      cacheReads file ext ≤ 1 ∧ remoteReads (file.drop (init P E w).c.name.length) ext ≤ 1 ∧
      (∀ e ∈ ext, Other (init P E w).c.name e ∨ (∃ ok, e = .read .cache file ok) ∨
        (∃ ok, e = .read .remote (file.drop (init P E w).c.name.length) ok)) ∧
      (w.c.record.lookup file ≠ none → (∀ e ∈ ext, Other (init P E w).c.name e) ∧
        cacheReads file ext = 0 ∧ remoteReads (file.drop (init P E w).c.name.length) ext = 0) ∧
      (∀ g r, w.c.record.lookup g = some r → (lookup P E w path vers).2.c.record.lookup g = some r) := by
  obtain ⟨rest, hrest⟩ := lookupFile_shape _ _ _ _ _ hfile
  have hdrop : file.drop (init P E w).c.name.length = B "/lookup/" ++ rest := by rw [hrest]; simp
  rcases lookup_step (E := E) P w path vers with h | ⟨_, _, hs⟩
  · rw [h]
    exact ⟨[], by simp, by simp [cacheReads], by simp [remoteReads], by simp, fun _ => ⟨by simp, rfl, rfl⟩,
      fun _ _ h => h⟩
  · have hmono := stepShape_record_mono _ _ _ _ hs
    obtain ⟨ext, he, hc1, hc2⟩ := stepShape_counts _ _ _ _
      (fun f hf => lookupFile_shape _ _ _ _ _ hf) hs rest
    rw [← hrest] at hc1 hc2
    rw [← hdrop] at hc2
    have hle : hasRec file (lookup P E w path vers).2 ≤ 1 := by unfold hasRec; split <;> omega
    refine ⟨ext, he, by omega, by omega, ?_, ?_, hmono⟩
    · cases hs with
      | quiet ext' he' hr ho =>
        have : ext' = ext := List.append_cancel_left (he'.symm.trans he)
        subst this
        exact fun e h => Or.inl (ho e h)
      | fetch file' r' pre mid post ok1 hf hmiss hr he' hm hpre hpost =>
        have : pre ++ (.read .cache file' ok1 :: (mid ++ post)) = ext := List.append_cancel_left (he'.symm.trans he)
        subst this
        rw [hfile] at hf
        cases hf
        intro e h
        simp only [List.mem_append, List.mem_cons] at h
        rcases h with h | h | h | h
        · exact Or.inl (hpre e h)
        · exact Or.inr (Or.inl ⟨ok1, h⟩)
        · rcases hm with rfl | ⟨ok2, rfl⟩
          · cases h
          · simp only [List.mem_singleton] at h
            exact Or.inr (Or.inr ⟨ok2, h⟩)
        · exact Or.inl (hpost e h)
    · intro hhit
      have h1 : hasRec file w = 1 := by
        unfold hasRec
        cases hl : w.c.record.lookup file with
        | none => exact absurd hl hhit
        | some r => simp
      refine ⟨?_, by omega, by omega⟩
      cases hs with
      | quiet ext' he' hr ho =>
        have : ext' = ext := List.append_cancel_left (he'.symm.trans he)
        subst this
        exact ho
      | fetch file' r' pre mid post ok1 hf hmiss hr he' hm hpre hpost =>
        rw [hfile] at hf
        cases hf
        exact absurd hmiss hhit

/-! ### sequences of lookups -/

/-- once the client is initialised, its name and the init flag never change -/
theorem runLookups_name (P : Params H) : ∀ (qs : List (Bytes × Bytes)) (w : World σ H), w.c.inited ≠ none →
    (runLookups P E w qs).c.name = w.c.name ∧ (runLookups P E w qs).c.inited ≠ none := by
  intro qs
  induction qs with
  | nil => intro w h; exact ⟨rfl, h⟩
  | cons q qs ih =>
    intro w h
    simp only [runLookups]
    rcases lookup_step (E := E) P w q.1 q.2 with hw | ⟨hn, hi, _⟩
    · rw [hw]; exact ih w h
    · obtain ⟨h1, h2⟩ := ih _ hi
      rw [(init_trace (E := E) P w).2.2.1 h] at hn
      exact ⟨h1.trans hn, h2⟩

/-- the record cache only grows along a sequence of lookups -/
theorem runLookups_record_mono (P : Params H) : ∀ (qs : List (Bytes × Bytes)) (w : World σ H) (g : Bytes)
    (r : Except Err Bytes), w.c.record.lookup g = some r → (runLookups P E w qs).c.record.lookup g = some r := by
  intro qs
  induction qs with
  | nil => intro w g r h; exact h
  | cons q qs ih =>
    intro w g r h
    simp only [runLookups]
    rcases lookup_step (E := E) P w q.1 q.2 with hw | ⟨_, _, hs⟩
    · rw [hw]; exact ih w g r h
    · exact ih _ g r (stepShape_record_mono _ _ _ _ hs g r h)

/-- **`fetch_once` along any sequence of lookups**, every environment, any start world: with `name` the client's name at
the end of the run, for EVERY lookup key `name ++ "/lookup/" ++ rest` the number of `ReadCache` calls for the file, and the
number of `ReadRemote` calls for the path, in the whole trace extension, plus 1 if the record cache had the entry at the
start, is at most (1 if the record cache has the entry at the end, else 0) — so each is at most 1, and 0 if the entry was
there from the start. -/
theorem runLookups_counts (P : Params H) : ∀ (qs : List (Bytes × Bytes)) (w : World σ H) (rest : Bytes),
    ∃ ext, (runLookups P E w qs).tr = w.tr ++ ext ∧
      cacheReads ((runLookups P E w qs).c.name ++ (B "/lookup/" ++ rest)) ext +
          hasRec ((runLookups P E w qs).c.name ++ (B "/lookup/" ++ rest)) w
        ≤ hasRec ((runLookups P E w qs).c.name ++ (B "/lookup/" ++ rest)) (runLookups P E w qs) ∧
      remoteReads (B "/lookup/" ++ rest) ext + hasRec ((runLookups P E w qs).c.name ++ (B "/lookup/" ++ rest)) w
        ≤ hasRec ((runLookups P E w qs).c.name ++ (B "/lookup/" ++ rest)) (runLookups P E w qs) := by
  intro qs
  induction qs with
  | nil => intro w rest; exact ⟨[], by simp [runLookups], by simp [runLookups, cacheReads], by simp [runLookups, remoteReads]⟩
  | cons q qs ih =>
    intro w rest
    simp only [runLookups]
    rcases lookup_step (E := E) P w q.1 q.2 with hw | ⟨hn, hi, hs⟩
    · rw [hw]; exact ih w rest
    · obtain ⟨ext2, he2, ha2, hb2⟩ := ih (lookup P E w q.1 q.2).2 rest
      have hname := (runLookups_name (E := E) P qs _ hi).1
      rw [hname, hn] at ha2 hb2 ⊢
      obtain ⟨ext1, he1, ha1, hb1⟩ := stepShape_counts _ _ _ _ (fun f hf => lookupFile_shape _ _ _ _ _ hf) hs rest
      refine ⟨ext1 ++ ext2, by rw [he2, he1, List.append_assoc], ?_, ?_⟩
      · unfold cacheReads at *
        rw [List.countP_append]
        omega
      · unfold remoteReads at *
        rw [List.countP_append]
        omega

/-- corollary in plain words: per key, at most one remote read and at most one cache read of the lookup file in the whole
run; none if the record cache had the entry at the start -/
theorem runLookups_fetch_once (P : Params H) (qs : List (Bytes × Bytes)) (w : World σ H) (rest : Bytes) :
    ∃ ext, (runLookups P E w qs).tr = w.tr ++ ext ∧
      cacheReads ((runLookups P E w qs).c.name ++ (B "/lookup/" ++ rest)) ext ≤ 1 ∧
      remoteReads (B "/lookup/" ++ rest) ext ≤ 1 ∧
      (w.c.record.lookup ((runLookups P E w qs).c.name ++ (B "/lookup/" ++ rest)) ≠ none →
        cacheReads ((runLookups P E w qs).c.name ++ (B "/lookup/" ++ rest)) ext = 0 ∧
        remoteReads (B "/lookup/" ++ rest) ext = 0) := by
  obtain ⟨ext, he, ha, hb⟩ := runLookups_counts (E := E) P qs w rest
  have hle : hasRec ((runLookups P E w qs).c.name ++ (B "/lookup/" ++ rest)) (runLookups P E w qs) ≤ 1 := by
    unfold hasRec; split <;> omega
  refine ⟨ext, he, by omega, by omega, ?_⟩
  intro hhit
  have h1 : hasRec ((runLookups P E w qs).c.name ++ (B "/lookup/" ++ rest)) w = 1 := by
    unfold hasRec
    cases hl : w.c.record.lookup ((runLookups P E w qs).c.name ++ (B "/lookup/" ++ rest)) with
    | none => exact absurd hl hhit
    | some r => simp
  omega

end
end ModVerif.ClientEffects
