/-
  C10 groundwork, arithmetic layer: the "standard" tile of a tree at tile coordinates `(L, n)`,
  `tileParent` as a standard tile, and the closed form of `tileForIndex` (tileForIndex_spec, first half).
-/
import ModVerif.Model.Tlog
import ModVerif.Model.Tile
import ModVerif.Proofs.TlogIndex
namespace ModVerif.TileAuth
open ModVerif ModVerif.Tlog ModVerif.Tile

/-- number of stored hashes at level `L * h` of a tree of `N` records (`N >> (L*h)` in the code) -/
def cnt (h N L : Nat) : Nat := N / 2 ^ (L * h)

/-- the tile of tree `N` at tile level `L`, tile number `n`, with the width the tree gives it
    (`Tile.zero` if the tree has no hash there) -/
def stdTile (h N L n : Nat) : Tile :=
  if cnt h N L ≤ n * 2 ^ h then Tile.zero
  else { h := h, l := L, n := n, w := min (2 ^ h) (cnt h N L - n * 2 ^ h) }

theorem cnt_succ (h N L : Nat) : cnt h N (L + 1) = cnt h N L / 2 ^ h := by
  unfold cnt
  rw [Nat.add_mul, Nat.one_mul, Nat.pow_add, Nat.div_div_eq_div_mul]

theorem cnt_add (h N L k : Nat) : cnt h N (L + k) = cnt h N L / 2 ^ (k * h) := by
  unfold cnt
  rw [Nat.add_mul, Nat.pow_add, Nat.div_div_eq_div_mul]

/-- a level-`L*h` coordinate `m` is inside the tree iff `m < cnt` -/
theorem valid_iff (h N L m : Nat) : (m + 1) * 2 ^ (L * h) ≤ N ↔ m < cnt h N L := by
  unfold cnt
  rw [Nat.lt_iff_add_one_le, Nat.le_div_iff_mul_le (Nat.two_pow_pos _)]

theorem valid_iff' (h N L r k : Nat) : (k + 1) * 2 ^ (L * h + r) ≤ N ↔ (k + 1) * 2 ^ r ≤ cnt h N L := by
  unfold cnt
  rw [Nat.le_div_iff_mul_le (Nat.two_pow_pos _), Nat.pow_add, Nat.mul_assoc, Nat.mul_comm (2 ^ (L * h))]

theorem stdTile_ne_zero (h N L n : Nat) (hh : 0 < h) : stdTile h N L n ≠ Tile.zero ↔ n * 2 ^ h < cnt h N L := by
  unfold stdTile
  split
  · simp; omega
  · simp [Tile.zero]; omega

theorem stdTile_of_lt (h N L n : Nat) (hlt : n * 2 ^ h < cnt h N L) :
    stdTile h N L n = { h := h, l := L, n := n, w := min (2 ^ h) (cnt h N L - n * 2 ^ h) } := by
  unfold stdTile
  rw [if_neg (by omega)]

theorem stdTile_zero_of_ge (h N L n : Nat) (hge : cnt h N L ≤ n * 2 ^ h) : stdTile h N L n = Tile.zero := by
  unfold stdTile
  rw [if_pos hge]

/-- `tileParent` of any (data-flag-free) tile is the standard tile `k` levels up -/
theorem tileParent_eq (t : Tile) (k N : Nat) (hd : t.data = false) :
    tileParent t k N = stdTile t.h N (t.l + k) (t.n / 2 ^ (k * t.h)) := by
  obtain ⟨th, tl, tn, tw, td⟩ := t
  simp only at hd
  subst hd
  unfold tileParent stdTile cnt
  simp only [Nat.shiftRight_eq_div_pow, Nat.shiftLeft_eq]
  generalize tn / 2 ^ (k * th) = a
  generalize N / 2 ^ ((tl + k) * th) = b
  generalize 2 ^ th = c
  by_cases h1 : b ≤ a * c
  · rw [if_pos (by omega), if_pos (by omega), if_pos h1]
  · by_cases h2 : a * c + c ≥ b
    · rw [if_pos h2, if_neg (by omega), if_neg h1]
      congr 1
      omega
    · rw [if_neg h2, if_neg h1]
      congr 1
      omega

theorem stdTile_h (h N L n : Nat) (hlt : n * 2 ^ h < cnt h N L) : (stdTile h N L n).h = h := by
  rw [stdTile_of_lt h N L n hlt]

/-- the parent of a standard tile is the standard tile one level up -/
theorem tileParent_std (h N L n k : Nat) (hlt : n * 2 ^ h < cnt h N L) :
    tileParent (stdTile h N L n) k N = stdTile h N (L + k) (n / 2 ^ (k * h)) := by
  rw [stdTile_of_lt h N L n hlt, tileParent_eq _ _ _ rfl]

/-- a full standard tile has a (non-zero) parent, and its slot in the parent is inside the parent's width -/
theorem parent_of_full (h N L n : Nat) (hfull : (n + 1) * 2 ^ h ≤ cnt h N L) :
    n < cnt h N (L + 1) := by
  rw [cnt_succ]
  rw [Nat.lt_iff_add_one_le, Nat.le_div_iff_mul_le (Nat.two_pow_pos _)]
  exact hfull

/-- closed form of `tileForIndex` on an index whose coordinates are `(lv, k)` -/
theorem tileForIndex_eq (h x lv k : Nat) (hh : 0 < h) (hs : splitStoredHashIndex x = .ok (lv, k)) :
    tileForIndex h x = .ok
      ({ h := h, l := lv / h, n := k / 2 ^ (h - lv % h), w := (k % 2 ^ (h - lv % h) + 1) * 2 ^ (lv % h) },
        (k % 2 ^ (h - lv % h)) * 2 ^ (lv % h), (k % 2 ^ (h - lv % h) + 1) * 2 ^ (lv % h)) := by
  unfold tileForIndex
  have hne : (h == 0) = false := by simp; omega
  simp only [hne, Bool.false_eq_true, ↓reduceIte, hs, bind, Except.bind, pure, Except.pure,
    Nat.shiftRight_eq_div_pow, Nat.shiftLeft_eq]
  have hr : lv - lv / h * h = lv % h := by
    have := Nat.div_add_mod lv h
    rw [Nat.mul_comm] at this
    omega
  rw [hr]
  have hrlt : lv % h < h := Nat.mod_lt _ hh
  have hpow : 2 ^ h = 2 ^ (h - lv % h) * 2 ^ (lv % h) := by
    rw [← Nat.pow_add]; congr 1; omega
  have e1 : k * 2 ^ (lv % h) / 2 ^ h = k / 2 ^ (h - lv % h) := by
    rw [hpow, Nat.mul_div_mul_right _ _ (Nat.two_pow_pos _)]
  have e2 : k / 2 ^ (h - lv % h) * 2 ^ h / 2 ^ (lv % h) = k / 2 ^ (h - lv % h) * 2 ^ (h - lv % h) := by
    rw [hpow, ← Nat.mul_assoc, Nat.mul_div_cancel _ (Nat.two_pow_pos _)]
  have e3 : k - k / 2 ^ (h - lv % h) * 2 ^ (h - lv % h) = k % 2 ^ (h - lv % h) := by
    have := Nat.div_add_mod k (2 ^ (h - lv % h))
    rw [Nat.mul_comm] at this
    omega
  rw [e1, e2, e3]

end ModVerif.TileAuth
