/-
  EditKeepEq, part C — `OpKeepsS` for AddTool and the two bulk requirement setters (Proofs/EditMoreKeepE.lean restated with
  equality of the end-of-line comments).
-/
import ModVerif.Proofs.EditKeepEqB
set_option linter.unusedSimpArgs false
namespace ModVerif.Modfile.Edit
open ModVerif ModVerif.Modfile

theorem KeepsSBelow.anti {n n' : Nat} {S : List Nat} {a b : List Expr} (h : KeepsSBelow n S a b) (hn : n' ≤ n) : KeepsSBelow n' S a b :=
  fun x hx hlt hs => h x hx (Nat.lt_of_lt_of_le hlt hn) hs

theorem addTool_keepsS (e : EFile) (p : Bytes) (hi : Inv e) : OpKeepsS e (addTool e p) (.addTool p) := by
  unfold addTool
  split
  · exact OpKeepsS.nil (KeepsS.refl _ _)
  · rename_i hany
    have hk : kill3 (addToolPre e p).f = kill3 e.f := by
      simp only [kill3, kill2, kill1, addToolPre]
      congr 1
      apply killLater_append_fresh
      · rfl
      · intro y hy e1
        apply hany
        exact List.any_eq_true.2 ⟨y, hy, by simp [e1]⟩
    refine ⟨kill3 e.f, ?_, fun _ hi => Or.inl ⟨rfl, hi⟩⟩
    have h1 : KeepsS [] e.f.syn.stmts (addToolPre e p).f.syn.stmts := keepsS_addLine e.f.syn none [B "tool", p] e.next hi.view2
    have h2 := keepsS_sortBlocks (addToolPre e p)
    rw [hk] at h2
    have := h1.trans h2
    exact (this.below _).mono (by simp)

theorem setRequireLoop_keepsS (rs : List Require) : ∀ (need : List Want) (syn : FileSyntax) (rs' : List Require) (need' : List Want)
    (syn' : FileSyntax), setRequireLoop rs need syn = .ok (rs', need', syn') → KeepsS (rs.map (·.lineId)) syn.stmts syn'.stmts := by
  induction rs with
  | nil =>
    intro need syn rs' need' syn' h
    simp only [setRequireLoop, Except.ok.injEq, Prod.mk.injEq] at h
    rcases h with ⟨_, _, rfl⟩
    exact KeepsS.refl _ _
  | cons r rs ih =>
    intro need syn rs' need' syn' h
    unfold setRequireLoop at h
    cases hf : need.find? (fun a => a.path == r.mod.path) with
    | some w =>
      simp only [hf, bind, Except.bind] at h
      cases hd : deref r.lineId with
      | error err => simp [hd] at h
      | ok i =>
        have hi : i = r.lineId := by unfold deref at hd; split at hd <;> simp at hd; exact hd.symm
        subst hi
        simp only [hd] at h
        cases hr : setRequireLoop rs (need.filter (fun a => a.path != r.mod.path))
            (syn.updateLine r.lineId (fun l => setIndirectLine w.indirect (setVersionLine w.vers l))) with
        | error err => simp [hr] at h
        | ok res =>
          rcases res with ⟨rs'', need'', syn''⟩
          simp only [hr, pure, Except.pure, Except.ok.injEq, Prod.mk.injEq] at h
          rcases h with ⟨_, _, rfl⟩
          have := (keepsS_updateLine syn r.lineId _).trans (ih _ _ _ _ _ hr)
          simpa using this
    | none =>
      simp only [hf, bind, Except.bind] at h
      cases hd : deref r.lineId with
      | error err => simp [hd] at h
      | ok i =>
        have hi : i = r.lineId := by unfold deref at hd; split at hd <;> simp at hd; exact hd.symm
        subst hi
        simp only [hd] at h
        cases hr : setRequireLoop rs (need.filter (fun a => !a.path.isEmpty)) (markRemoved syn r.lineId) with
        | error err => simp [hr] at h
        | ok res =>
          rcases res with ⟨rs'', need'', syn''⟩
          simp only [hr, pure, Except.pure, Except.ok.injEq, Prod.mk.injEq] at h
          rcases h with ⟨_, _, rfl⟩
          have := (keepsS_markRemoved syn r.lineId).trans (ih _ _ _ _ _ hr)
          simpa using this

theorem foldl_addNewRequire_keepsS (n : Nat) (ws : List Want) : ∀ e : EFile, Inv e → (∀ w ∈ ws, w.path ≠ []) → n ≤ e.next →
    KeepsSBelow n [] e.f.syn.stmts (ws.foldl (fun e w => addNewRequire e w.path w.vers w.indirect) e).f.syn.stmts := by
  induction ws with
  | nil => intro e _ _ _; exact (KeepsS.refl _ _).below _
  | cons w ws ih =>
    intro e hi hne hn
    simp only [List.foldl_cons]
    rcases addNewRequire_keepsS e w.path w.vers w.indirect hi .cleanup with ⟨S, hS, hsrc⟩
    have hSnil : KeepsSBelow n [] e.f.syn.stmts (addNewRequire e w.path w.vers w.indirect).f.syn.stmts := by
      intro x hx hlt _
      refine hS x hx (Nat.lt_of_lt_of_le hlt hn) ?_
      intro hs
      rcases hsrc _ hs with ⟨h1, _⟩ | ⟨en, _, _, ht⟩
      · cases h1
      · -- no entry is targeted by Cleanup: the set is empty
        rcases hi.mtch.cover en (by assumption) with ⟨v, _, _, hacc⟩
        exact (ht _ _ hacc).elim
    have hi1 := addNewRequire_inv e w.path w.vers w.indirect (hne w List.mem_cons_self) hi
    exact hSnil.trans_nil (ih _ hi1 (fun x hx => hne x (List.mem_cons_of_mem _ hx)) (Nat.le_trans hn (Nat.le_succ _)))

theorem setRequire_keepsS (e e' : EFile) (req : List Want) (perm : List Want → List Want) (hperm : ∀ l, (perm l).Perm l)
    (hg : GoodWant req) (hi : Inv e) (hlive : ∀ r ∈ e.f.require, liveRq r = true) (hset : NoNestedIndirectMarker e)
    (h : setRequire e req perm = .ok e') (rev : Bool) : OpKeepsS e e' (.setRequire req rev) := by
  unfold setRequire at h
  rw [needMap_distinct true req [] (by simpa using hg.1)] at h
  simp only [bind, Except.bind, List.nil_append] at h
  cases hr : setRequireLoop e.f.require req e.f.syn with
  | error err => simp [hr] at h
  | ok res =>
    rcases res with ⟨rq, need', syn'⟩
    simp only [hr, pure, Except.pure, Except.ok.injEq] at h
    subst h
    rcases setRequireLoop_abs _ _ _ _ _ _ hg hr with ⟨_, hsub⟩
    rcases setRequireLoop_inv (A := segA_require e.f) (C := segC_require e.f) e.next e.f.require [] req e.f.syn rq need' syn'
      hg hlive hi.tree (by simp only [List.nil_append]; rw [← entries_require]; exact hi.mtch) hset hr with ⟨hw', hm'⟩
    have hi1 : Inv (⟨{ e.f with require := rq, syn := syn' }, e.next⟩ : EFile) := by
      refine ⟨hw', ?_, hi.tinv.of_same rfl rfl rfl (Nat.le_refl _)⟩
      simp only [List.nil_append] at hm'
      rw [entries_require]; exact hm'
    have hne : ∀ w ∈ perm need', w.path ≠ [] := fun w hw => hg.2 w (hsub.subset ((hperm need').subset hw))
    have k1 := (setRequireLoop_keepsS _ _ _ _ _ _ hr).below e.next
    have k2 := foldl_addNewRequire_keepsS e.next (perm need') _ hi1 hne (Nat.le_refl _)
    have k3 := (keepsS_sortBlocks ((perm need').foldl (fun e w => addNewRequire e w.path w.vers w.indirect)
      (⟨{ e.f with require := rq, syn := syn' }, e.next⟩ : EFile))).below e.next
    rcases foldl_addNewRequire_fields (perm need') (⟨{ e.f with require := rq, syn := syn' }, e.next⟩ : EFile) with ⟨f1, f2, f3⟩
    rw [kill3_congr (g := e.f) f1 f2 f3] at k3
    refine ⟨e.f.require.map (·.lineId) ++ kill3 e.f, (k1.trans_nil k2).trans k3, ?_⟩
    intro i hi'
    rcases List.mem_append.1 hi' with h1 | h1
    · rcases List.mem_map.1 h1 with ⟨r, hr', rfl⟩
      refine Or.inr ⟨entRq r, mem_entries_require hr' (hlive r hr'), rfl, ?_⟩
      intro t s hacc
      simp only [entRq] at hacc
      show t.head? = _
      rw [hacc.1]; rfl
    · exact Or.inl ⟨rfl, h1⟩

/-- the block phase of SetRequireSeparateIndirect keeps every line with its comments -/
theorem sepStage_keepsS (stmts : List Expr) (hs : ShapeWF stmts) (h2 : View2 stmts) (sc : Scan) (hsc : ScanInv stmts stmts.length sc)
    {s1 : List Expr} {dI : Nat} {dO lI sh : Option Nat} {s2 : List Expr} {iI : Nat} {iO : Option Nat}
    (h1 : sepStage1 stmts sc = .ok (s1, dI, dO, lI, sh)) (h3 : sepStage2 s1 dI lI sh = .ok (s2, iI, iO)) :
    KeepsS [] stmts s2 := by
  unfold sepStage1 at h1
  have stage2_none : ∀ (s1 : List Expr) (dI : Nat), sepStage2 s1 dI none sh = .ok (s2, iI, iO) → KeepsS [] s1 s2 := by
    intro s1 dI h3
    simp only [sepStage2, Except.ok.injEq, Prod.mk.injEq] at h3
    obtain ⟨rfl, _, _⟩ := h3
    exact keepsS_insertAt _ _ _
  have stage2_some : ∀ (s1 : List Expr) (dI j : Nat), view s1 = view stmts → ReqAt s1 j →
      sepStage2 s1 dI (some j) sh = .ok (s2, iI, iO) → KeepsS [] s1 s2 := by
    intro s1 dI j e1 hr h3
    simp only [sepStage2] at h3
    cases hE : ensureBlock s1 j with
    | error err => simp [hE] at h3
    | ok s =>
      simp only [hE, Except.ok.injEq, Prod.mk.injEq] at h3
      obtain ⟨rfl, _, _⟩ := h3
      exact keepsS_ensureBlock s1 j (view2_of_eq e1 h2) hr s hE
  have comp : ∀ {a b : List Expr}, KeepsS [] stmts a → KeepsS [] a b → KeepsS [] stmts b := by
    intro a b k1 k2
    have := k1.trans k2
    simpa using this
  cases hld : sc.lastDirect with
  | none =>
    simp only [hld] at h1
    cases hli : sc.lastIndirect with
    | some j =>
      simp only [hli, Except.ok.injEq, Prod.mk.injEq] at h1
      obtain ⟨rfl, rfl, _, rfl, _⟩ := h1
      rcases (hsc.indirect j hli).2 with ⟨x, hx, hreq⟩
      have hlt := (split_at hx).2
      rcases insertAt_empty_spec stmts j (by omega) hs with ⟨f1, _, _, _, _, f6, _⟩
      exact comp (keepsS_insertAt _ _ _) (stage2_some _ _ _ f1 ⟨x, by rw [f6 j (Nat.le_refl _)]; exact hx, hreq⟩ h3)
    | none =>
      simp only [hli] at h1
      cases hlr : sc.lastRequire with
      | some k =>
        simp only [hlr, Except.ok.injEq, Prod.mk.injEq] at h1
        obtain ⟨rfl, rfl, _, rfl, _⟩ := h1
        exact comp (keepsS_insertAt _ _ _) (stage2_none _ _ h3)
      | none =>
        simp only [hlr, Except.ok.injEq, Prod.mk.injEq] at h1
        obtain ⟨rfl, rfl, _, rfl, _⟩ := h1
        exact comp (keepsS_append_stmt _ _) (stage2_none _ _ h3)
  | some d =>
    simp only [hld] at h1
    rcases ensureBlock_spec stmts d hs h2 (hsc.direct d hld).2 with ⟨s, hE, f1, _, _, _, _, f6⟩
    simp only [hE, Except.ok.injEq, Prod.mk.injEq] at h1
    obtain ⟨rfl, rfl, _, rfl, _⟩ := h1
    have k1 := keepsS_ensureBlock stmts d h2 (hsc.direct d hld).2 _ hE
    cases hli : sc.lastIndirect with
    | none => rw [hli] at h3; exact comp k1 (stage2_none _ _ h3)
    | some j =>
      rw [hli] at h3
      have hne := hsc.ne d j hld hli
      rcases (hsc.indirect j hli).2 with ⟨x, hx, hreq⟩
      exact comp k1 (stage2_some _ _ _ f1 ⟨x, by rw [f6 j (Ne.symm hne)]; exact hx, hreq⟩ h3)

theorem sepLoop_keepsS (ctx : SepCtx) (need : List Want) (rs : List Require) : ∀ (have_ : List Bytes) (syn : FileSyntax) (next : Nat)
    (rs' : List Require) (have' : List Bytes) (syn' : FileSyntax) (next' : Nat),
    sepLoop ctx need rs have_ syn next = .ok (rs', have', syn', next') → KeepsS (rs.map (·.lineId)) syn.stmts syn'.stmts := by
  induction rs with
  | nil =>
    intro have_ syn next rs' have' syn' next' h
    simp only [sepLoop, Except.ok.injEq, Prod.mk.injEq] at h
    rcases h with ⟨_, _, rfl, _⟩
    exact KeepsS.refl _ _
  | cons r rs ih =>
    intro have_ syn next rs' have' syn' next' h
    have remove : ∀ (res : List Require × List Bytes × FileSyntax × Nat),
        sepLoop ctx need rs have_ (markRemoved syn r.lineId) next = .ok res →
        KeepsS ((r :: rs).map (·.lineId)) syn.stmts res.2.2.1.stmts := by
      intro res hr
      rcases res with ⟨rs'', h'', syn'', next''⟩
      have := (keepsS_markRemoved syn r.lineId).trans (ih _ _ _ _ _ _ _ hr)
      simpa using this
    unfold sepLoop at h
    cases hf : need.find? (fun a => a.path == r.mod.path) with
    | some w =>
      simp only [hf] at h
      by_cases hc : have_.contains r.mod.path = true
      · simp only [hc, if_true, bind, Except.bind] at h
        cases hd : deref r.lineId with
        | error err => simp [hd] at h
        | ok i =>
          have hi : i = r.lineId := by unfold deref at hd; split at hd <;> simp at hd; exact hd.symm
          subst hi
          simp only [hd] at h
          cases hr : sepLoop ctx need rs have_ (markRemoved syn r.lineId) next with
          | error err => simp [hr] at h
          | ok res =>
            have := remove res hr
            rcases res with ⟨rs'', h'', syn'', next''⟩
            simp only [hr, pure, Except.pure, Except.ok.injEq, Prod.mk.injEq] at h
            rcases h with ⟨_, _, rfl, _⟩
            exact this
      · simp only [Bool.not_eq_true] at hc
        simp only [hc, Bool.false_eq_true, if_false, bind, Except.bind] at h
        cases hd : deref r.lineId with
        | error err => simp [hd] at h
        | ok i =>
          have hi : i = r.lineId := by unfold deref at hd; split at hd <;> simp at hd; exact hd.symm
          subst hi
          simp only [hd] at h
          generalize ht : (if (w.indirect && (ctx.oneFlat || inBlockOrig ctx r.lineId ctx.directOrig)) = true then
              (({ r with mod := { r.mod with version := w.vers }, indirect := w.indirect, lineId := next } : Require),
                moveExisting (syn.updateLine r.lineId fun l => setIndirectLine w.indirect (setVersionLine w.vers l)) r.lineId ctx.indirectIdx next, next + 1)
            else if (!w.indirect && (ctx.oneFlat || inBlockOrig ctx r.lineId ctx.indirectOrig)) = true then
              (({ r with mod := { r.mod with version := w.vers }, indirect := w.indirect, lineId := next } : Require),
                moveExisting (syn.updateLine r.lineId fun l => setIndirectLine w.indirect (setVersionLine w.vers l)) r.lineId ctx.directIdx next, next + 1)
            else (({ r with mod := { r.mod with version := w.vers }, indirect := w.indirect } : Require),
                syn.updateLine r.lineId fun l => setIndirectLine w.indirect (setVersionLine w.vers l), next)) = t at h
          have htp : KeepsS [r.lineId] syn.stmts t.2.1.stmts := by
            have k1 := keepsS_updateLine syn r.lineId (fun l => setIndirectLine w.indirect (setVersionLine w.vers l))
            have km : ∀ idx, KeepsS [r.lineId] syn.stmts
                (moveExisting (syn.updateLine r.lineId fun l => setIndirectLine w.indirect (setVersionLine w.vers l)) r.lineId idx next).stmts := by
              intro idx
              exact (k1.trans (keepsS_moveExisting _ r.lineId idx next)).mono (by simp)
            rw [← ht]; split
            · exact km _
            · split
              · exact km _
              · exact k1
          rcases t with ⟨r2, syn2, next2⟩
          simp only at htp h
          cases hr : sepLoop ctx need rs (r2.mod.path :: have_) syn2 next2 with
          | error err => simp [hr] at h
          | ok res =>
            rcases res with ⟨rs'', h'', syn'', next''⟩
            simp only [hr, pure, Except.pure, Except.ok.injEq, Prod.mk.injEq] at h
            rcases h with ⟨_, _, rfl, _⟩
            have := htp.trans (ih _ _ _ _ _ _ _ hr)
            simpa using this
    | none =>
      simp only [hf, bind, Except.bind] at h
      cases hd : deref r.lineId with
      | error err => simp [hd] at h
      | ok i =>
        have hi : i = r.lineId := by unfold deref at hd; split at hd <;> simp at hd; exact hd.symm
        subst hi
        simp only [hd] at h
        cases hr : sepLoop ctx need rs have_ (markRemoved syn r.lineId) next with
        | error err => simp [hr] at h
        | ok res =>
          have := remove res hr
          rcases res with ⟨rs'', h'', syn'', next''⟩
          simp only [hr, pure, Except.pure, Except.ok.injEq, Prod.mk.injEq] at h
          rcases h with ⟨_, _, rfl, _⟩
          exact this

theorem foldl_addSepNew_keepsS (ctx : SepCtx) (ws : List Want) : ∀ e : EFile,
    KeepsS [] e.f.syn.stmts (ws.foldl (addSepNew ctx) e).f.syn.stmts := by
  induction ws with
  | nil => intro e; exact KeepsS.refl _ _
  | cons w ws ih =>
    intro e
    simp only [List.foldl_cons]
    have h1 : KeepsS [] e.f.syn.stmts (addSepNew ctx e w).f.syn.stmts := keepsS_appendToBlock _ _ _
    have := h1.trans (ih (addSepNew ctx e w))
    simpa using this

theorem sepTail_keepsS (e e' : EFile) (req : List Want) (perm : List Want → List Want) (ctx : SepCtx) (stmts : List Expr)
    (hg : GoodWant req) (h : sepTail e req perm ctx stmts = .ok e') :
    KeepsS (e.f.require.map (·.lineId) ++ kill3 e.f) stmts e'.f.syn.stmts := by
  unfold sepTail at h
  rw [needMap_distinct false req [] (by simpa using hg.1)] at h
  simp only [bind, Except.bind, List.nil_append] at h
  cases hr : sepLoop ctx req e.f.require [] { e.f.syn with stmts := stmts } e.next with
  | error err => simp [hr] at h
  | ok res =>
    rcases res with ⟨rq, have', syn', next'⟩
    simp only [hr, pure, Except.pure, Except.ok.injEq] at h
    subst h
    have k1 := sepLoop_keepsS ctx req e.f.require [] _ e.next rq have' syn' next' hr
    have k2 := foldl_addSepNew_keepsS ctx ((perm req).filter fun w => !have'.contains w.path)
      (⟨{ e.f with require := rq, syn := syn' }, next'⟩ : EFile)
    have k3 := keepsS_sortBlocks (((perm req).filter fun w => !have'.contains w.path).foldl (addSepNew ctx)
      (⟨{ e.f with require := rq, syn := syn' }, next'⟩ : EFile))
    rcases foldl_addSepNew_fields ctx ((perm req).filter fun w => !have'.contains w.path)
      (⟨{ e.f with require := rq, syn := syn' }, next'⟩ : EFile) with ⟨f1, f2, f3⟩
    rw [kill3_congr (g := e.f) f1 f2 f3] at k3
    have := (k1.trans k2).trans k3
    exact this.mono (by simp)

theorem setRequireSeparateIndirect_keepsS (e e' : EFile) (req : List Want) (perm : List Want → List Want)
    (hg : GoodWant req) (hi : Inv e) (hlive : ∀ r ∈ e.f.require, liveRq r = true)
    (h : setRequireSeparateIndirect e req perm = .ok e') (rev : Bool) : OpKeepsS e e' (.setRequireSeparateIndirect req rev) := by
  rw [setRSI_eq] at h
  cases h1 : sepStage1 e.f.syn.stmts (scanStmts e.f.syn.stmts 0 {}) with
  | error err => simp [h1] at h
  | ok r1 =>
    rcases r1 with ⟨s1, dI, dO, lI, sh⟩
    simp only [h1] at h
    cases h2 : sepStage2 s1 dI lI sh with
    | error err => simp [h2] at h
    | ok r2 =>
      rcases r2 with ⟨s2, iI, iO⟩
      simp only [h2] at h
      have k0 := sepStage_keepsS e.f.syn.stmts hi.tree.shape hi.view2 _ (scan_inv _) h1 h2
      have k1 := sepTail_keepsS e e' req perm _ s2 hg h
      refine ⟨e.f.require.map (·.lineId) ++ kill3 e.f, ?_, ?_⟩
      · have := k0.trans k1
        exact (this.below _).mono (by simp)
      · intro i hi'
        rcases List.mem_append.1 hi' with h1 | h1
        · rcases List.mem_map.1 h1 with ⟨r, hr', rfl⟩
          refine Or.inr ⟨entRq r, mem_entries_require hr' (hlive r hr'), rfl, ?_⟩
          intro t s hacc
          simp only [entRq] at hacc
          show t.head? = _
          rw [hacc.1]; rfl
        · exact Or.inl ⟨rfl, h1⟩

end ModVerif.Modfile.Edit
