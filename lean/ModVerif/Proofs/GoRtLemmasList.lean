/-
  General lemmas about the GoRt run-time vocabulary (Basic/GoRt.lean) used by the tie proofs of the Merkle proof
  functions of sumdb/tlog (Tie/FnTlogProof.lean): the `Except` monad laws as NON-definitional simp lemmas, `chk64`,
  `toU64`, `shl`/`shr`/`band` on natural numbers, and `len`/`idxL`/`sliceTo`/`sliceFrom` on lists.

  Namespace `ModVerif.GoRtList` (not `ModVerif.GoRt`) so that it can be imported together with the other agents'
  `GoRtLemmas*.lean` files without name clashes.

  Note on the bind lemmas: they are deliberately NOT proved by `rfl`.  A `rfl` simp lemma is applied by `dsimp`, whose
  steps the kernel re-checks by definitional unfolding of the whole goal; on goals that contain `x % 2^64` with a
  symbolic `x` (every `toU64`) that unfolding does not terminate in reasonable depth ("deep recursion").
-/
import ModVerif.Basic.GoRt
namespace ModVerif.GoRtList
open ModVerif ModVerif.GoRt

/-! ### the monad -/

@[simp] theorem ok_bind {ε α β : Type} (a : α) (f : α → Except ε β) : ((Except.ok a : Except ε α) >>= f) = f a := by
  simp only [bind, Except.bind]
@[simp] theorem error_bind {ε α β : Type} (e : ε) (f : α → Except ε β) :
    ((Except.error e : Except ε α) >>= f) = .error e := by
  simp only [bind, Except.bind]
@[simp] theorem pure_eq_ok {ε α : Type} (a : α) : (pure a : Except ε α) = .ok a := by
  simp only [pure, Except.pure]
@[simp] theorem throw_eq_error {α : Type} (e : Err) : (throw e : M α) = .error e := by
  simp only [throw, throwThe, MonadExceptOf.throw]

/-! ### integers -/

theorem two63_eq : two63 = 2 ^ 63 := by unfold two63; omega
theorem two64_eq : two64 = 2 ^ 64 := by unfold two64; omega

theorem chk64_ok (x : Int) (h1 : -2 ^ 63 ≤ x) (h2 : x < 2 ^ 63) : chk64 x = .ok x := by
  have := two63_eq
  simp only [chk64, pure, Except.pure]
  rw [if_pos]; omega

theorem chk64_overflow (x : Int) (h : x < -2 ^ 63 ∨ 2 ^ 63 ≤ x) : chk64 x = .error .overflow := by
  have := two63_eq
  simp only [chk64, throw, throwThe, MonadExceptOf.throw]
  rw [if_neg]; omega

theorem toU64_of_range (x : Int) (h1 : 0 ≤ x) (h2 : x < 2 ^ 64) : toU64 x = x := by
  have := two64_eq
  unfold toU64
  rw [this]; exact Int.emod_eq_of_lt h1 h2

theorem toU64_natCast (k : Nat) (h : k < 2 ^ 64) : toU64 (k : Int) = (k : Int) :=
  toU64_of_range _ (by omega) (by omega)

theorem shl_ok (a k : Int) (h : 0 ≤ k) : shl a k = .ok (a * 2 ^ k.toNat) := by
  simp only [shl, pure, Except.pure]
  rw [if_neg]; omega

theorem shl_one_natCast (k : Nat) : shl 1 (k : Int) = .ok (((2 ^ k : Nat)) : Int) := by
  rw [shl_ok _ _ (by omega)]
  simp [Int.natCast_pow]

theorem shr_natCast (a k : Nat) : shr (a : Int) (k : Int) = .ok ((a >>> k : Nat) : Int) := by
  simp only [shr, pure, Except.pure]
  rw [if_neg (by omega)]
  simp only [Int.toNat_natCast, Nat.shiftRight_eq_div_pow, Int.natCast_ediv, Int.natCast_pow]
  rfl

theorem band_natCast (a b : Nat) (ha : a < 2 ^ 64) (hb : b < 2 ^ 64) :
    band (a : Int) (b : Int) = ((a &&& b : Nat) : Int) := by
  unfold band
  rw [toU64_natCast a ha, toU64_natCast b hb]
  rfl

/-! ### lists -/

theorem len_eq {α : Type} (s : List α) : len s = (s.length : Int) := rfl

theorem len_eq_zero_iff {α : Type} (s : List α) : len s = 0 ↔ s = [] := by
  simp [len]

theorem idxL_natCast {α : Type} (s : List α) (k : Nat) (h : k < s.length) : idxL s (k : Int) = .ok s[k] := by
  simp only [idxL, pure, Except.pure]
  rw [if_neg (by omega)]
  simp [h]

theorem idxL_out {α : Type} (s : List α) (k : Int) (h : k < 0 ∨ (s.length : Int) ≤ k) : idxL s k = .error .panic := by
  simp only [idxL, throw, throwThe, MonadExceptOf.throw]
  split
  · rfl
  · have : s[k.toNat]? = none := by
      apply List.getElem?_eq_none; omega
    rw [this]

theorem sliceTo_natCast {α : Type} (s : List α) (k : Nat) (h : k ≤ s.length) : sliceTo s (k : Int) = .ok (s.take k) := by
  have hl : (k : Int) ≤ len s := by rw [len_eq]; omega
  simp only [sliceTo, pure, Except.pure]
  rw [if_pos ⟨by omega, hl⟩]
  simp

theorem sliceFrom_natCast {α : Type} (s : List α) (k : Nat) (h : k ≤ s.length) :
    sliceFrom s (k : Int) = .ok (s.drop k) := by
  have hl : (k : Int) ≤ len s := by rw [len_eq]; omega
  simp only [sliceFrom, pure, Except.pure]
  rw [if_pos ⟨by omega, hl⟩]
  simp

/-- `p[:len(p)-1]` and `p[len(p)-1]` of a non-empty slice written as `q ++ [x]` -/
theorem sliceTo_concat {α : Type} (q : List α) (x : α) :
    sliceTo (q ++ [x]) (len (q ++ [x]) - 1) = .ok q := by
  have : len (q ++ [x]) - 1 = (q.length : Int) := by simp [len]
  rw [this, sliceTo_natCast _ _ (by simp)]
  simp

theorem idxL_concat {α : Type} (q : List α) (x : α) :
    idxL (q ++ [x]) (len (q ++ [x]) - 1) = .ok x := by
  have : len (q ++ [x]) - 1 = (q.length : Int) := by simp [len]
  rw [this, idxL_natCast _ _ (by simp)]
  simp

theorem len_concat_range {α : Type} (q : List α) (x : α) :
    len (q ++ [x]) - 1 = (q.length : Int) := by simp [len]

end ModVerif.GoRtList
