/-
  Helper for concrete witnesses of the go.mod model: a Boolean check evaluated by the kernel, and
  its unfolding into the existential statement used in Props/C20.
-/
import ModVerif.Model.Modfile.Work
namespace ModVerif.Proofs.ModfileWitness
open ModVerif ModVerif.Modfile

/-- strict parse (no fixer) of `x` succeeds, the module directive is a single (non-block) line naming a
    valid import path, and ModulePath returns something else -/
def modulePathDisagrees (x : Bytes) : Bool :=
  match parseToFile (B "go.mod") x none true with
  | .ok f =>
    match f.module with
    | some m =>
      decide ((f.syn.findLine m.lineId).map (·.inBlock) = some false) &&
      decide (Module.checkImportPath m.mod.path = .ok ()) &&
      decide (modulePath x ≠ m.mod.path)
    | none => false
  | .error _ => false

theorem modulePathDisagrees_spec {x : Bytes} (h : modulePathDisagrees x = true) :
    ∃ f m, parseToFile (B "go.mod") x none true = .ok f ∧ f.module = some m ∧
      (f.syn.findLine m.lineId).map (·.inBlock) = some false ∧
      Module.checkImportPath m.mod.path = .ok () ∧
      modulePath x ≠ m.mod.path := by
  unfold modulePathDisagrees at h
  split at h
  · rename_i f hf
    split at h
    · rename_i m hm
      simp only [Bool.and_eq_true, decide_eq_true_eq] at h
      exact ⟨f, m, hf, hm, h.1.1, h.1.2, h.2⟩
    · exact absurd h (by simp)
  · exact absurd h (by simp)

end ModVerif.Proofs.ModfileWitness
