/-
  Helper lemmas about the tile model (C10).
-/
import ModVerif.Model.Tlog
import ModVerif.Model.Tile
import ModVerif.Proofs.TlogBasic
namespace ModVerif.Tile
open ModVerif ModVerif.Tlog

/-- only the empty tree has an empty tree-hash index list -/
theorem subTreeIndex_zero_nil (N : Nat) (h : subTreeIndex 0 N = .ok []) : N = 0 := by
  cases N with
  | zero => rfl
  | succ m =>
    exfalso
    simp only [subTreeIndex, Nat.sub_zero] at h
    unfold subTreeIndexF at h
    simp only [Nat.zero_lt_succ, ↓reduceIte] at h
    split at h
    · cases h
    · simp only [bind, Except.bind] at h
      split at h <;> simp [pure, Except.pure] at h

/-- on the empty tree every requested index is refused -/
theorem planIndexes_empty_tree (h : Nat) (x : Nat) (xs : List Nat) (st : List Tile × List (Tile × Nat) × List Nat) :
    planIndexes h 0 (x :: xs) st = .error .indexRange := by
  obtain ⟨tiles, order, ito⟩ := st
  simp [planIndexes, planIndex, storedHashIndex, descend, sumHalves, bind, Except.bind]

/-- The early return of `readHashes` for `p.stx = []` returns `[]`, which is `make([]Hash, len(indexes))`
    because a successful plan with no tree-hash indexes has `N = 0` and no requested indexes. -/
theorem plan_stx_nil (h N : Nat) (indexes : List Nat) (p : Plan)
    (hp : plan h N indexes = .ok p) (hs : p.stx = []) : N = 0 ∧ indexes = [] := by
  unfold plan at hp
  cases h1 : subTreeIndex 0 N with
  | error e => simp [h1, bind, Except.bind] at hp
  | ok stx =>
    simp only [h1, bind, Except.bind] at hp
    cases h2 : planStx h N stx ([], [], []) with
    | error e => simp [h2] at hp
    | ok r =>
      obtain ⟨tiles, order, sto⟩ := r
      simp only [h2] at hp
      cases h3 : planIndexes h N indexes (tiles, order, []) with
      | error e => simp [h3] at hp
      | ok r3 =>
        obtain ⟨tiles', order', ito⟩ := r3
        simp only [h3, pure, Except.pure, Except.ok.injEq] at hp
        subst hp
        simp only at hs
        subst hs
        have hN := subTreeIndex_zero_nil N h1
        subst hN
        refine ⟨rfl, ?_⟩
        cases indexes with
        | nil => rfl
        | cons x xs => rw [planIndexes_empty_tree] at h3; cases h3

end ModVerif.Tile
