/-
  EditMarker, part 0 — `strings.Fields` against `strings.TrimSpace`, for EVERY byte string (ill-formed UTF-8 included).

  `strings.Fields` ignores leading and trailing white space (`fields_spaceSeq_append`, `fields_append_spaceSeq`), hence does
  not see what `strings.TrimSpace` removes (`fields_trimSpace`; on the `trimSpace` algebra of Proofs/ModfileFmtTrim.lean:
  `trimSpace_infix` — what `TrimSpace` cuts off on either side is a concatenation of well-formed white-space encodings, also
  when the backward decoder of `TrimRight` runs over ill-formed bytes).  Consequences: `TrimSpace s = "" ↔ Fields s = []`
  (`trimSpace_eq_nil_iff_fields`), and a string that has, after leading white space, a rune that is not white space does
  not trim to nothing (`trimSpace_prefix_ne_nil`) — the form in which the lexer's "is this comment alone on its line"
  test is used (C20).
-/
import ModVerif.Proofs.ModfileEolIndirect
set_option linter.unusedSimpArgs false
namespace ModVerif.Modfile.Edit
open ModVerif ModVerif.Modfile ModVerif.GoStrings
open ModVerif.Proofs.ModfileLex ModVerif.Proofs.ModfileFmtUtf8 ModVerif.Proofs.ModfileFmtTrim ModVerif.Proofs.ModfileEol

/-! ### `fieldsAux`: accumulator and fuel -/

theorem fieldsAux_acc : ∀ (fuel : Nat) (s cur : Bytes) (acc : List Bytes),
    fieldsAux fuel s cur acc = acc.reverse ++ fieldsAux fuel s cur [] := by
  intro fuel
  induction fuel with
  | zero =>
    intro s cur acc
    simp only [fieldsAux]
    by_cases hc : cur.isEmpty = true <;> simp [hc]
  | succ n ih =>
    intro s cur acc
    cases s with
    | nil =>
      rw [fieldsAux_nil, fieldsAux_nil]
      by_cases hc : cur.isEmpty = true <;> simp [hc]
    | cons c t =>
      rw [fieldsAux_cons, fieldsAux_cons]
      split
      · rw [ih _ _ (if cur.isEmpty then acc else cur.reverse :: acc), ih _ _ (if cur.isEmpty then [] else cur.reverse :: [])]
        by_cases hc : cur.isEmpty = true <;> simp [hc]
      · exact ih _ _ _

theorem fieldsAux_fuel_succ : ∀ (fuel : Nat) (s cur : Bytes) (acc : List Bytes), s.length < fuel →
    fieldsAux (fuel + 1) s cur acc = fieldsAux fuel s cur acc := by
  intro fuel
  induction fuel with
  | zero => intro s cur acc h; omega
  | succ n ih =>
    intro s cur acc h
    cases s with
    | nil => rw [fieldsAux_nil, fieldsAux_nil]
    | cons c t =>
      rw [fieldsAux_cons, fieldsAux_cons]
      have hw := decodeRune_width (c :: t) (by simp)
      have hlen : ((c :: t).drop (Utf8.decodeRune (c :: t)).2).length < n := by
        simp only [List.length_drop, List.length_cons] at h ⊢
        omega
      split
      · exact ih _ _ _ hlen
      · exact ih _ _ _ hlen

theorem fieldsAux_fuel_add (k : Nat) : ∀ (fuel : Nat) (s cur : Bytes) (acc : List Bytes), s.length < fuel →
    fieldsAux (fuel + k) s cur acc = fieldsAux fuel s cur acc := by
  induction k with
  | zero => intro fuel s cur acc _; rfl
  | succ k ih =>
    intro fuel s cur acc h
    rw [← Nat.add_assoc, fieldsAux_fuel_succ _ _ _ _ (by omega)]
    exact ih fuel s cur acc h

/-- any fuel above the length gives `fields` -/
theorem fieldsAux_eq_fields (fuel : Nat) (s : Bytes) (h : s.length < fuel) : fieldsAux fuel s [] [] = fields s := by
  unfold fields
  obtain ⟨k, rfl⟩ : ∃ k, fuel = (s.length + 1) + k := ⟨fuel - (s.length + 1), by omega⟩
  exact fieldsAux_fuel_add k _ s [] [] (by omega)

/-! ### leading white space -/

theorem fieldsAux_spaceSeq_prefix {p : Bytes} (hp : SpaceSeq p) (x : Bytes) : ∀ (fuel : Nat),
    (p ++ x).length < fuel → fieldsAux fuel (p ++ x) [] [] = fields x := by
  induction hp with
  | nil => intro fuel h; exact fieldsAux_eq_fields fuel x (by simpa using h)
  | cons seg t r hd hs ht ih =>
    intro fuel hf
    have hne : seg ≠ [] := by
      intro h; subst h; simp [Utf8.decode] at hd
    obtain ⟨c, s', hseg⟩ : ∃ c s', seg = c :: s' := by
      cases seg with
      | nil => exact absurd rfl hne
      | cons c s' => exact ⟨c, s', rfl⟩
    obtain ⟨n, rfl⟩ : ∃ n, fuel = n + 1 := ⟨fuel - 1, by omega⟩
    have hdec : Utf8.decodeRune (seg ++ (t ++ x)) = (r, seg.length) := by
      have := decode_take hd (t ++ x)
      rw [List.take_length] at this
      unfold Utf8.decodeRune; rw [this]
    have hcons : (seg ++ t) ++ x = c :: (s' ++ (t ++ x)) := by rw [hseg]; simp
    have hcons' : c :: (s' ++ (t ++ x)) = seg ++ (t ++ x) := by rw [hseg]; rfl
    rw [hcons, fieldsAux_cons, hcons', hdec]
    simp only [hs, if_true, List.drop_left]
    have hl := List.length_pos_iff.mpr hne
    exact ih n (by simp only [List.length_append] at hf ⊢; omega)

/-- ★ `strings.Fields` ignores leading white space -/
theorem fields_spaceSeq_append (p x : Bytes) (hp : SpaceSeq p) : fields (p ++ x) = fields x := by
  unfold fields
  exact fieldsAux_spaceSeq_prefix hp x _ (by omega)

theorem spaceSeq_space : SpaceSeq [32] :=
  spaceSeq_of_ascii [32] (by intro b hb; simp at hb; subst hb; decide)

theorem fields_cons_space (x : Bytes) : fields (32 :: x) = fields x :=
  fields_spaceSeq_append [32] x spaceSeq_space

/-- ★ `strings.Fields` does not see what `strings.TrimSpace` removes — for every byte string -/
theorem fields_trimSpace (y : Bytes) : fields (trimSpace y) = fields y := by
  obtain ⟨p, e, heq, hp, he⟩ := trimSpace_infix y
  conv => rhs; rw [heq]
  rw [fields_append_spaceSeq _ e he, fields_spaceSeq_append p _ hp]

/-- ★ the first string lemma of lean/PENDING.md (C15 (a)) -/
theorem fields_space_trimSpace (y : Bytes) : fields (32 :: trimSpace y) = fields y := by
  rw [fields_cons_space, fields_trimSpace]

/-! ### `TrimSpace` and a leading blank -/

theorem trimLeftSpace_cons_space (x : Bytes) : trimLeftSpace (32 :: x) = trimLeftSpace x := by
  have step : ∀ n, trimLeftSpaceAux (n + 1) (32 :: x) = trimLeftSpaceAux n x := by
    intro n
    conv => lhs; unfold trimLeftSpaceAux
    simp only
    rw [decodeRune_ascii 32 x (by decide)]
    have : UnicodePrint.isSpace (32 : UInt8).toNat = true := by decide
    simp only [this, if_true, List.drop_succ_cons, List.drop_zero]
  unfold trimLeftSpace
  simp only [List.length_cons]
  exact step _

theorem trimSpace_cons_space (x : Bytes) : trimSpace (32 :: x) = trimSpace x := by
  unfold trimSpace
  rw [trimLeftSpace_cons_space]

/-! ### words -/

theorem fieldsAux_word : ∀ (w : Bytes), (∀ b ∈ w, b.toNat < 0x80 ∧ UnicodePrint.isSpace b.toNat = false) →
    ∀ (fuel : Nat) (rest cur : Bytes) (acc : List Bytes),
      fieldsAux (fuel + w.length) (w ++ rest) cur acc = fieldsAux fuel rest (w.reverse ++ cur) acc := by
  intro w
  induction w with
  | nil => intro _ fuel rest cur acc; rfl
  | cons b w ih =>
    intro hw fuel rest cur acc
    have hb := hw b (by simp)
    have : fuel + (b :: w).length = (fuel + w.length) + 1 := by simp only [List.length_cons]; omega
    rw [this, List.cons_append, fieldsAux_cons, decodeRune_ascii b _ hb.1]
    simp only [hb.2, Bool.false_eq_true, if_false, List.drop_succ_cons, List.drop_zero, List.take_succ_cons, List.take_zero,
      List.reverse_cons, List.reverse_nil, List.nil_append]
    rw [ih (fun c hc => hw c (by simp [hc]))]
    simp

/-- a non-empty word of ASCII non-space bytes followed by a blank is the first field -/
theorem fields_word_space (w x : Bytes) (hne : w ≠ [])
    (hw : ∀ b ∈ w, b.toNat < 0x80 ∧ UnicodePrint.isSpace b.toNat = false) :
    fields (w ++ 32 :: x) = w :: fields x := by
  unfold fields
  have hl : (w ++ 32 :: x).length + 1 = (x.length + 2) + w.length := by
    simp only [List.length_append, List.length_cons]; omega
  rw [hl, fieldsAux_word w hw, fieldsAux_cons, decodeRune_ascii 32 x (by decide)]
  have hsp : UnicodePrint.isSpace (32 : UInt8).toNat = true := by decide
  have hwe : (w.reverse ++ []).isEmpty = false := by
    cases w with
    | nil => exact absurd rfl hne
    | cons a w' => simp
  simp only [hsp, if_true, hwe, Bool.false_eq_true, if_false, List.drop_succ_cons, List.drop_zero]
  rw [fieldsAux_acc]
  simp

/-- a pending or a finished field is never lost -/
theorem fieldsAux_ne_nil : ∀ (fuel : Nat) (s cur : Bytes) (acc : List Bytes), (cur ≠ [] ∨ acc ≠ []) →
    fieldsAux fuel s cur acc ≠ [] := by
  intro fuel
  have base : ∀ (cur : Bytes) (acc : List Bytes), (cur ≠ [] ∨ acc ≠ []) →
      (if cur.isEmpty then acc else cur.reverse :: acc).reverse ≠ [] := by
    intro cur acc h
    by_cases hc : cur.isEmpty = true
    · have : cur = [] := List.isEmpty_iff.1 hc
      rcases h with h | h
      · exact absurd this h
      · simpa [hc] using h
    · simp [hc]
  induction fuel with
  | zero => intro s cur acc h; simp only [fieldsAux]; exact base cur acc h
  | succ n ih =>
    intro s cur acc h
    cases s with
    | nil => rw [fieldsAux_nil]; exact base cur acc h
    | cons c t =>
      rw [fieldsAux_cons]
      split
      · apply ih
        right
        by_cases hc : cur.isEmpty = true
        · have : cur = [] := List.isEmpty_iff.1 hc
          rcases h with h | h
          · exact absurd this h
          · simpa [hc] using h
        · simp [hc]
      · apply ih
        rcases h with h | h
        · left; simp [h]
        · right; exact h

/-- a string that starts with a rune that is not white space has a field -/
theorem fields_ne_nil (s : Bytes) (hne : s ≠ []) (hs : UnicodePrint.isSpace (Utf8.decodeRune s).1 = false) :
    fields s ≠ [] := by
  unfold fields
  cases s with
  | nil => exact absurd rfl hne
  | cons c t =>
    rw [fieldsAux_cons]
    simp only [hs, Bool.false_eq_true, if_false]
    apply fieldsAux_ne_nil
    left
    have hw := decodeRune_width (c :: t) (by simp)
    obtain ⟨k, hk⟩ : ∃ k, (Utf8.decodeRune (c :: t)).2 = k + 1 := ⟨(Utf8.decodeRune (c :: t)).2 - 1, by omega⟩
    rw [hk]; simp

/-- a non-empty `TrimSpace` result has a field -/
theorem fields_trimSpace_ne_nil (z : Bytes) (h : trimSpace z ≠ []) : fields (trimSpace z) ≠ [] :=
  fields_ne_nil _ h (trimSpace_first_rune z h)

/-! ### `TrimSpace s = ""` in terms of `Fields` -/

theorem fields_nil : fields [] = [] := rfl

/-- ★ `strings.TrimSpace(s) == ""` iff `strings.Fields(s)` is empty — for every byte string -/
theorem trimSpace_eq_nil_iff_fields (s : Bytes) : trimSpace s = [] ↔ fields s = [] := by
  constructor
  · intro h
    rw [← fields_trimSpace s, h]; rfl
  · intro h
    cases ht : trimSpace s with
    | nil => rfl
    | cons a t =>
      exfalso
      have hne : trimSpace s ≠ [] := by rw [ht]; simp
      exact fields_trimSpace_ne_nil s hne (by rw [fields_trimSpace]; exact h)

/-- ★ a string that has, after leading white space, a rune that is not white space does not trim to nothing — whatever
    follows (ill-formed bytes included): the replacement for a backward-decoding argument about `TrimRight` -/
theorem trimSpace_prefix_ne_nil (g x : Bytes) (hg : SpaceSeq g) (hx : x ≠ [])
    (hs : UnicodePrint.isSpace (Utf8.decodeRune x).1 = false) : trimSpace (g ++ x) ≠ [] := by
  intro h
  have := (trimSpace_eq_nil_iff_fields (g ++ x)).1 h
  rw [fields_spaceSeq_append g x hg] at this
  exact fields_ne_nil x hx hs this

example : trimSpace ([32, 9] ++ [120, 0x80, 32, 0xe3, 0x80]) ≠ [] :=
  trimSpace_prefix_ne_nil [32, 9] _ (spaceSeq_of_ascii _ (by decide)) (by simp) (by decide)

end ModVerif.Modfile.Edit
