/-
  Helper lemmas for Tie/FnEditSet.lean, `File.SetRequireSeparateIndirect`, part 12: the indirect-block stage
  (`indirectStageG` ↔ `indirectPlan`): after it the generated function IS its tail on a heap that satisfies everything the
  tail simulation needs (`TailReady`).
-/
import ModVerif.Proofs.TieFnEditSetN
set_option linter.unusedSimpArgs false
set_option linter.unusedVariables false
namespace ModVerif.Tie.FnEditSetO
open ModVerif ModVerif.GoRt ModVerif.Generated.Edit ModVerif.Tie.FnEditRep ModVerif.Tie.FnEditTreeA ModVerif.Tie.FnEditSetA
  ModVerif.Tie.FnEditSetB ModVerif.Tie.FnEditSetC ModVerif.Tie.FnEditSetD ModVerif.Tie.FnEditSetE ModVerif.Tie.FnEditSetF
  ModVerif.Tie.FnEditSetG ModVerif.Tie.FnEditSetH ModVerif.Tie.FnEditSetI ModVerif.Tie.FnEditSetJ ModVerif.Tie.FnEditSetK
  ModVerif.Tie.FnEditSetL ModVerif.Tie.FnEditSetM ModVerif.Tie.FnEditSetN
open ModVerif.Modfile.Edit (EFile Want treeIds Scan scanStmts hasComments SepCtx insertAt emptyRequireBlock ensureBlock EditErr)

/-! ### list facts -/

theorem insertAt_get_lt {α : Type} (l : List α) (i j : Nat) (x : α) (h : j < i) (hi : i ≤ l.length) :
    (insertAt l i x)[j]? = l[j]? := by
  unfold insertAt
  rw [List.getElem?_append_left (by simp; omega), List.getElem?_take_of_lt h]

theorem insertAt_get_eq {α : Type} (l : List α) (i : Nat) (x : α) (hi : i ≤ l.length) : (insertAt l i x)[i]? = some x := by
  unfold insertAt
  have : (l.take i).length = i := by simp; omega
  rw [List.getElem?_append_right (by omega), this]; simp

theorem insertAt_get_succ {α : Type} (l : List α) (i : Nat) (x : α) (hi : i ≤ l.length) : (insertAt l i x)[i + 1]? = l[i]? := by
  unfold insertAt
  have : (l.take i).length = i := by simp; omega
  rw [List.getElem?_append_right (by omega), this]; simp

theorem insertAt_length {α : Type} (l : List α) (i : Nat) (x : α) : (insertAt l i x).length = l.length + 1 := by
  unfold insertAt; simp; omega

theorem treeIds_insertAt (stmts : List Modfile.Expr) (i : Nat) : treeIds (insertAt stmts i emptyRequireBlock) = treeIds stmts := by
  unfold insertAt
  rw [treeIds_insert, List.take_append_drop]

/-! ### what the tail needs -/

/-- the state after the two blocks were ensured -/
structure TailReady (h : Heap) (fp : Int) (e : EFile) (ctx : SepCtx) (stmts' : List Modfile.Expr) (ps : List Int) (req : List Want)
    (ltb : List (Int × Int)) (dB iB : Int) : Prop where
  ex : ∃ o fo, heapGet h.mods fp = .ok o ∧ RepFAt h o (withStmts e stmts') ∧ heapGet h.files o.Syntax = .ok fo ∧
    fo.Stmt[ctx.directIdx]? = some (Expr.LineBlock dB) ∧ fo.Stmt[ctx.indirectIdx]? = some (Expr.LineBlock iB) ∧
    (∀ p ∈ ps, p ∉ o.Require)
  ltb : LtbOK ltb ctx dB iB
  args : ReqArgsS h.requires ps req
  inTree : ∀ rq ∈ e.f.require, rq.lineId ≠ 0 → rq.lineId ∈ treeIds stmts'

/-- what the indirect stage needs of the state after the direct stage -/
structure Stage1 (h : Heap) (fp : Int) (o : File) (e : EFile) (stmts1 : List Modfile.Expr) (fo1 : FileSyntax) (es0 : List Expr)
    (ml : List (Nat × Nat)) (directIdx : Nat) (directOrig : Option Nat) (dB : Int) (lastIndirect indirectShift : Option Nat)
    (ps : List Int) (req : List Want) : Prop where
  mods : heapGet h.mods fp = .ok o
  rep : RepFAt h o (withStmts e stmts1)
  file : heapGet h.files o.Syntax = .ok fo1
  di : fo1.Stmt[directIdx]? = some (Expr.LineBlock dB)
  dpos : 0 < dB
  dorig : Origin es0 directOrig dB
  nodup0 : (blockPtrs es0).Nodup
  ml0 : ∀ q ∈ ml, ∃ p, es0[q.2]? = some (Expr.LineBlock p)
  le0 : ∀ p ∈ blockPtrs es0, p.toNat ≤ h.blocks.length
  shift : ∀ j, lastIndirect = some j → ∃ j0, indirectShift = some j0 ∧
    (∀ p, fo1.Stmt[j]? = some (Expr.LineBlock p) →
      es0[j0]? = some (Expr.LineBlock p) ∨ (p ∉ blockPtrs es0 ∧ ¬ ∃ p', es0[j0]? = some (Expr.LineBlock p'))) ∧
    (∀ q', fo1.Stmt[j]? = some (Expr.Line q') → ¬ ∃ p', es0[j0]? = some (Expr.LineBlock p'))
  line : ∀ j, lastIndirect = some j → ∀ l, stmts1[j]? = some (Modfile.Expr.line l) → l.token ≠ []
  dlen : directIdx < stmts1.length
  args : ReqArgsS h.requires ps req
  dis : ∀ p ∈ ps, p ∉ o.Require
  inTree : ∀ rq ∈ e.f.require, rq.lineId ≠ 0 → rq.lineId ∈ treeIds stmts1

theorem ltb_ok {es0 : List Expr} (hn : (blockPtrs es0).Nodup) {ml : List (Nat × Nat)}
    (hml : ∀ q ∈ ml, ∃ p, es0[q.2]? = some (Expr.LineBlock p)) (oneFlat : Bool) (directIdx indirectIdx : Nat)
    (directOrig indirectOrig : Option Nat) {dB iB : Int} (hd : dB ≠ 0) (hi : iB ≠ 0) (hOd : Origin es0 directOrig dB)
    (hOi : Origin es0 indirectOrig iB) :
    LtbOK (ltbG es0 ml) { oneFlat := oneFlat, directIdx := directIdx, indirectIdx := indirectIdx, directOrig := directOrig,
                          indirectOrig := indirectOrig, lineToBlock := ml } dB iB :=
  ⟨ltb_test es0 hn { oneFlat := oneFlat, directIdx := directIdx, indirectIdx := indirectIdx, directOrig := directOrig,
                     indirectOrig := indirectOrig, lineToBlock := ml } hml directOrig dB hd hOd,
   ltb_test es0 hn { oneFlat := oneFlat, directIdx := directIdx, indirectIdx := indirectIdx, directOrig := directOrig,
                     indirectOrig := indirectOrig, lineToBlock := ml } hml indirectOrig iB hi hOi⟩

theorem isBlockAt_true {stmts : List Modfile.Expr} {j : Nat} {b : Modfile.LineBlock} (h : stmts[j]? = some (Modfile.Expr.lineBlock b)) :
    isBlockAt stmts j = true := by simp [isBlockAt, h]

theorem isBlockAt_line {stmts : List Modfile.Expr} {j : Nat} {l : Modfile.Line} (h : stmts[j]? = some (Modfile.Expr.line l)) :
    isBlockAt stmts j = false := by simp [isBlockAt, h]

theorem indirectPlan_sim (isPrint : Int → Bool) (quote : Bytes → Bytes) (fuel : Nat) {h : Heap} {fp : Int} {o : File} {e : EFile}
    {stmts1 : List Modfile.Expr} {fo1 : FileSyntax} {es0 : List Expr} {ml : List (Nat × Nat)} {directIdx : Nat}
    {directOrig : Option Nat} {dB : Int} {lastIndirect indirectShift : Option Nat} {ps : List Int} {req : List Want}
    (oneFlat : Bool) (S : Stage1 h fp o e stmts1 fo1 es0 ml directIdx directOrig dB lastIndirect indirectShift ps req) :
    match indirectPlan oneFlat ml stmts1 directIdx directOrig lastIndirect indirectShift with
    | .ok (ctx, stmts2) =>
      ∃ h' iB, indirectStageG isPrint quote fuel fp ps (ltbG es0 ml) oneFlat (directIdx : Int) (optI lastIndirect) dB h =
          tailG isPrint quote fuel fp ps (ltbG es0 ml) ctx.oneFlat dB iB h' ∧
        TailReady h' fp e ctx stmts2 ps req (ltbG es0 ml) dB iB
    | .error _ =>
      indirectStageG isPrint quote fuel fp ps (ltbG es0 ml) oneFlat (directIdx : Int) (optI lastIndirect) dB h = .error .panic := by
  have hlen1 : fo1.Stmt.length = stmts1.length := by
    obtain ⟨es, r⟩ := S.rep.syn
    rw [RepSynAt_stmt_eq r S.file]; exact r.stmts.length
  have hdne : dB ≠ 0 := by have := S.dpos; omega
  unfold indirectPlan indirectStageG
  cases lastIndirect with
  | none =>
    -- a new block after the direct one
    have hlt : decide (optI none < 0) = true := by simp [optI]
    simp only [hlt, if_true]
    have hcast : ((directIdx : Int) + 1) = ((directIdx + 1 : Nat) : Int) := by omega
    rw [hcast]
    obtain ⟨h', fo, es, hrun, R', hfile, hes, hfile', hmods, hreqs, hlines, hblocks, _⟩ :=
      insertBlock_sim isPrint quote fuel S.mods S.rep (directIdx + 1) (by have := S.dlen; simp only [withStmts_stmts]; omega)
    have hfo : fo = fo1 := by rw [S.file] at hfile; exact (Except.ok.inj hfile).symm
    subst hfo
    simp only [bind, Except.bind, hrun]
    refine ⟨h', ((h.blocks.length + 1 : Nat) : Int), rfl, ?_, ?_, ?_, ?_⟩
    · refine ⟨o, _, by rw [hmods]; exact S.mods, by simpa using R', hfile', ?_, ?_, S.dis⟩
      · show (insertAt es (directIdx + 1) _)[directIdx]? = _
        rw [insertAt_get_lt _ _ _ _ (by omega) (by rw [← hes, hlen1]; have := S.dlen; omega), ← hes]; exact S.di
      · show (insertAt es (directIdx + 1) _)[directIdx + 1]? = _
        exact insertAt_get_eq _ _ _ (by rw [← hes, hlen1]; have := S.dlen; omega)
    · refine ltb_ok S.nodup0 S.ml0 _ _ _ _ _ hdne (by omega) S.dorig ?_
      show _ ∉ blockPtrs es0
      intro hm; have := S.le0 _ hm; omega
    · rw [hreqs]; exact S.args
    · intro rq hrq h0; rw [treeIds_insertAt]; exact S.inTree rq hrq h0
  | some j =>
    have ho : optI (some j) = (j : Int) := rfl
    generalize optI (some j) = oj at ho ⊢
    subst ho
    have hlt : decide ((j : Int) < 0) = false := by
      have : ¬ ((j : Int) < 0) := by omega
      simp [this]
    simp only [hlt, Bool.false_eq_true, if_false]
    obtain ⟨j0, hj0, hsh1, hsh2⟩ := S.shift j rfl
    have hE := ensureBlock_sim isPrint quote fuel S.mods S.rep j S.file (fun l hl => S.line j rfl l hl)
    simp only [withStmts_stmts] at hE
    cases hen : ensureBlock stmts1 j with
    | error err =>
      rw [hen] at hE
      simp only [bind, Except.bind, hE]
    | ok stmts2 =>
      rw [hen] at hE
      obtain ⟨h', iB, es', hrun, R', hfile', hget, hipos, hcase, hmods, hreqs, hble, htree⟩ := hE
      simp only [bind, Except.bind, hrun]
      refine ⟨h', iB, rfl, ?_, ?_, ?_, ?_⟩
      · refine ⟨o, _, by rw [hmods]; exact S.mods, by simpa using R', hfile', ?_, hget, S.dis⟩
        show es'[directIdx]? = _
        rcases hcase with ⟨_, hes', _⟩ | ⟨q, hq, hes', _, _⟩
        · rw [hes']; exact S.di
        · rw [hes']
          by_cases e : j = directIdx
          · subst e; rw [S.di] at hq; cases hq
          · rw [List.getElem?_set_ne e]; exact S.di
      · refine ltb_ok S.nodup0 S.ml0 _ _ _ _ _ hdne (by omega) S.dorig ?_
        rcases hcase with ⟨hb, _, b, hsb⟩ | ⟨q, hq, _, hbp, l, hsl⟩
        · rw [isBlockAt_true hsb, if_pos rfl, hj0]
          exact hsh1 iB hb
        · rw [isBlockAt_line hsl]
          simp only [Bool.false_eq_true, if_false, Origin]
          intro hm; have := S.le0 _ hm; omega
      · rw [hreqs]; exact S.args
      · intro rq hrq h0; rw [htree]; exact S.inTree rq hrq h0

end ModVerif.Tie.FnEditSetO
