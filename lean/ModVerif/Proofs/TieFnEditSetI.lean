/-
  Helper lemmas for Tie/FnEditSet.lean, `File.SetRequireSeparateIndirect`, part 6: appending a new line to the block at
  a statement index on the graph (`appendToBlock`), and the two cases of `moveReq` on a represented file
  (`moveExisting` / the line part of `addSepNew`).
-/
import ModVerif.Proofs.TieFnEditSetH
set_option linter.unusedSimpArgs false
set_option linter.unusedVariables false
namespace ModVerif.Tie.FnEditSetI
open ModVerif ModVerif.GoRt ModVerif.Generated.Edit ModVerif.Tie.FnEditRep ModVerif.Tie.FnEditTreeA ModVerif.Tie.FnEditSetA
  ModVerif.Tie.FnEditSetB ModVerif.Tie.FnEditSetD ModVerif.Tie.FnEditSetE ModVerif.Tie.FnEditSetF ModVerif.Tie.FnEditSetG
  ModVerif.Tie.FnEditSetH
open ModVerif.Modfile.Edit (EFile treeIds appendToBlock headIs mkLine setIndirectLine moveExisting)

theorem split_at {α : Type} {es : List α} {i : Nat} {x : α} (h : es[i]? = some x) : ∃ a b, es = a ++ x :: b ∧ a.length = i := by
  obtain ⟨hlt, he⟩ := List.getElem?_eq_some_iff.1 h
  refine ⟨es.take i, es.drop (i + 1), ?_, by simp; omega⟩
  rw [← he, List.getElem_cons_drop, List.take_append_drop]

theorem appendToBlock_mid (sa : List Modfile.Expr) (b : Modfile.LineBlock) (sb : List Modfile.Expr) (nl : Modfile.Line) :
    appendToBlock (sa ++ Modfile.Expr.lineBlock b :: sb) sa.length nl =
      sa ++ Modfile.Expr.lineBlock { b with lines := b.lines ++ [nl] } :: sb := by
  unfold appendToBlock
  rw [getElem?_append_mid]
  simp only [set_append_mid]

/-- the heap after a new line object was allocated and appended to the block `bp` -/
def appHeap (h : Heap) (v : Line) (bp : Int) (blk : LineBlock) : Heap :=
  { h with lines := h.lines ++ [v],
           blocks := h.blocks.set (bp.toNat - 1) { blk with Line := blk.Line ++ [((h.lines.length + 1 : Nat) : Int)] } }

theorem RepSynAt_appendLine {h : Heap} {x : Int} {fs : Modfile.FileSyntax} {es : List Expr} (r : RepSynAt h x fs es)
    {i : Nat} {bp : Int} {blk : LineBlock} (hi : es[i]? = some (Expr.LineBlock bp)) (hb : heapGet h.blocks bp = .ok blk)
    (nl : Modfile.Line) (hid : nl.id = h.lines.length + 1) :
    RepSynAt (appHeap h (lineG nl) bp blk) x { fs with stmts := appendToBlock fs.stmts i nl } es := by
  obtain ⟨a, b, rfl, hai⟩ := split_at hi
  obtain ⟨sa, sb', h1, h2, h3, h4⟩ := RStmts_append_inv r.stmts
  cases sb' with
  | nil => exact h4.elim
  | cons s sb =>
    obtain ⟨hblock, h5⟩ := h4
    cases s <;> simp only [RExpr] at hblock <;> try exact hblock.elim
    rename_i b0
    obtain ⟨ps, hg, hls⟩ := hblock
    have hblk : blk = blockG b0 ps := by rw [hb] at hg; exact Except.ok.inj hg
    have hnb := r.nodupB
    rw [blockPtrs_mid_block] at hnb
    have hnb' := List.nodup_append.1 hnb
    have hnb2 := List.nodup_cons.1 hnb'.2.1
    have hle := r.stmts.treeIds_le
    -- frame for the other statements
    have hframe : ∀ {es' ss'}, RStmts h es' ss' → bp ∉ blockPtrs es' → RStmts (appHeap h (lineG nl) bp blk) es' ss' := by
      intro es' ss' rr hn
      refine RStmts_local (h := h) (h' := appHeap h (lineG nl) bp blk) rfl ?_ ?_ rr
      · intro j _ v hv
        exact heapGet_alloc_old _ hv
      · intro p hp v hv
        show heapGet (h.blocks.set (bp.toNat - 1) _) p = _
        rw [heapGet_listSet_other _ hb (by intro e; subst e; exact hn hp)]
        exact hv
    have hlines : RLines (appHeap h (lineG nl) bp blk) (ps ++ [((h.lines.length + 1 : Nat) : Int)]) (b0.lines ++ [nl]) := by
      refine RLines.append ?_ ⟨⟨?_, by rw [hid]⟩, trivial⟩
      · exact RLines.mono (h := h) (h' := appHeap h (lineG nl) bp blk) (fun p v hv => heapGet_alloc_old _ hv) hls
      · exact heapGet_alloc_new _ _
    refine ⟨?_, ?_, r.nodupB, ?_⟩
    · exact r.file
    · show RStmts _ _ (appendToBlock fs.stmts i nl)
      rw [h1, ← hai, ← h2, appendToBlock_mid]
      refine RStmts.append (hframe h3 (fun hm => hnb'.2.2 _ hm _ List.mem_cons_self rfl)) ⟨?_, hframe h5 hnb2.1⟩
      refine ⟨ps ++ [((h.lines.length + 1 : Nat) : Int)], ?_, hlines⟩
      show heapGet (h.blocks.set (bp.toNat - 1) _) bp = _
      rw [heapGet_listSet_same _ hb, hblk]
      rfl
    · show (treeIds (appendToBlock fs.stmts i nl)).Nodup
      rw [h1, ← hai, ← h2, appendToBlock_mid, treeIds_mid, Modfile.Edit.treeIds_block]
      have hnl := r.nodupL
      rw [h1, treeIds_mid, Modfile.Edit.treeIds_block] at hnl
      have hfresh : ∀ j ∈ treeIds fs.stmts, j ≠ nl.id := by
        intro j hj; have := (hle j hj).2; omega
      rw [h1, treeIds_mid, Modfile.Edit.treeIds_block] at hfresh
      simp only [List.map_append, List.map_cons, List.map_nil]
      have h_a := List.nodup_append.1 hnl
      have h_b := List.nodup_append.1 h_a.2.1
      refine List.nodup_append.2 ⟨h_a.1, ?_, ?_⟩
      · refine List.nodup_append.2 ⟨?_, h_b.2.1, ?_⟩
        · refine List.nodup_append.2 ⟨h_b.1, by simp, ?_⟩
          intro u hu w hw
          simp only [List.mem_singleton] at hw; subst hw
          exact hfresh u (List.mem_append_right _ (List.mem_append_left _ hu))
        · intro u hu w hw
          rcases List.mem_append.1 hu with hu | hu
          · exact h_b.2.2 u hu w hw
          · simp only [List.mem_singleton] at hu; subst hu
            exact fun e => hfresh w (List.mem_append_right _ (List.mem_append_right _ hw)) e.symm
      · intro u hu w hw
        rcases List.mem_append.1 hw with hw | hw
        · rcases List.mem_append.1 hw with hw | hw
          · exact h_a.2.2 u hu w (List.mem_append_left _ hw)
          · simp only [List.mem_singleton] at hw; subst hw
            exact hfresh u (List.mem_append_left _ hu)
        · exact h_a.2.2 u hu w (List.mem_append_right _ hw)

theorem BlockTokOK_appendToBlock {stmts : List Modfile.Expr} (hb : BlockTokOK stmts) (i : Nat) (nl : Modfile.Line) :
    BlockTokOK (appendToBlock stmts i nl) := by
  unfold appendToBlock
  cases hs : stmts[i]? with
  | none => exact hb
  | some s =>
    cases s with
    | lineBlock b0 =>
      intro b hbm
      rcases List.mem_or_eq_of_mem_set hbm with hm | he
      · exact hb b hm
      · simp only [Modfile.Expr.lineBlock.injEq] at he; subst he
        exact hb b0 (List.mem_of_getElem? hs)
    | _ => exact hb

theorem findLine_of_mem {fs : Modfile.FileSyntax} {id : Nat} (h : id ∈ treeIds fs.stmts) : ∃ l, fs.findLine id = some l := by
  unfold Modfile.FileSyntax.findLine
  rw [Modfile.Edit.allLines_eq_loc]
  obtain ⟨q, hq, rfl⟩ := List.mem_map.1 h
  have : ((Modfile.Edit.loc fs.stmts).map (·.2)).find? (·.id == q.2.id) |>.isSome := by
    rw [List.find?_isSome]
    exact ⟨q.2, List.mem_map.2 ⟨q, hq, rfl⟩, by simp⟩
  exact Option.isSome_iff_exists.1 this

end ModVerif.Tie.FnEditSetI
