/-
  Tie proof, zip/zip.go `CheckFiles`, `CheckDir`, `CreateFromDir` (Generated/FnZip.lean) against the hand model
  `Zip.checkFilesV`, `Zip.checkDir`, `Zip.createFromDir`: the three loops of `CheckDir` that rewrite every reported path to
  `filepath.Join(dir, path)` in place, and the composition with the ties of `listFilesInDir` (Proofs/TieFnZipDirWalk.lean),
  `checkFiles` (Tie/FnZipCheckFiles.lean) and `Create` (Tie/FnZipIOCreate.lean).
-/
import ModVerif.Proofs.TieFnZipDirWalk
import ModVerif.Proofs.GoRtLemmasInt
import ModVerif.Tie.FnZipCheckFiles
import ModVerif.Tie.FnZipIOCreate
namespace ModVerif.TieFnZipDir
open ModVerif ModVerif.GoRt ModVerif.GoRtZip ModVerif.TieFnZip ModVerif.TieFnZipCf ModVerif.TieFnZipIOCreate
open ModVerif.Generated.Zip (File FileError FileInfo CheckedFiles)
open ModVerif.Drv.GenZip (toGFile modeBits)
open ModVerif.Drv.GenZipDir (toFs toFsList dirInfo)

/-! ### rewriting a slice in place -/

theorem inplace_get {α : Type} (f : α → α) : ∀ (V : List α) (k : Nat) (h : k < V.length),
    ((V.take k).map f ++ V.drop k)[k]? = some V[k]
  | [], k, h => by simp at h
  | x :: V, 0, _ => by simp
  | x :: V, k + 1, h => by
    have := inplace_get f V k (by simpa using h)
    simpa using this

theorem inplace_set {α : Type} (f : α → α) : ∀ (V : List α) (k : Nat) (h : k < V.length),
    ((V.take k).map f ++ V.drop k).set k (f V[k]) = (V.take (k + 1)).map f ++ V.drop (k + 1)
  | [], k, h => by simp at h
  | x :: V, 0, _ => by simp
  | x :: V, k + 1, h => by
    have := inplace_set f V k (by simpa using h)
    simpa using this

theorem inplace_length {α : Type} (f : α → α) (V : List α) (k : Nat) (h : k ≤ V.length) :
    ((V.take k).map f ++ V.drop k).length = V.length := by
  simp; omega

theorem inplace_idxL {α : Type} (f : α → α) (V : List α) (k : Nat) (h : k < V.length) :
    idxL ((V.take k).map f ++ V.drop k) (k : Int) = .ok V[k] := by
  have hl : k < ((V.take k).map f ++ V.drop k).length := by rw [inplace_length f V k (Nat.le_of_lt h)]; exact h
  rw [idxL_natCast' hl]
  have := inplace_get f V k h
  rw [List.getElem?_eq_getElem hl] at this
  injection this with this
  rw [this]

theorem inplace_setIdxL {α : Type} (f : α → α) (V : List α) (k : Nat) (h : k < V.length) :
    setIdxL ((V.take k).map f ++ V.drop k) (k : Int) (f V[k]) = .ok ((V.take (k + 1)).map f ++ V.drop (k + 1)) := by
  have hl : k < ((V.take k).map f ++ V.drop k).length := by rw [inplace_length f V k (Nat.le_of_lt h)]; exact h
  rw [setIdxL_natCast hl, inplace_set f V k h]

/-! ### the loops of CheckDir -/

/-- `e.Path = filepath.Join(dir, e.Path)` -/
def joinFE (d : Bytes) (e : FileError) : FileError := { e with Path := GoRt.fpJoin d e.Path }

section
variable (cfp : Bytes → Option String) (ef : Bytes → Bytes → Bool)
  (osLstat : Bytes → (FileInfo × Option String)) (osOpenRead : Bytes → (Bytes × Option String))
  (osReadFile : Bytes → (Bytes × Option String)) (pgv : Bytes → Bytes → Bytes) (sf : Int → Int) (tl : Bytes → Bytes)
  (vc : Bytes → Bytes → Int) (vl : Bytes → Bytes) (walkRoot : Bytes → FsTree FileInfo) (d : Bytes)

theorem loop1_eq (V rx : List Bytes) (hrx : rx.length = V.length) : ∀ (fuel k : Nat) (cf : CheckedFiles), k ≤ V.length →
    V.length - k + 1 ≤ fuel → cf.Valid = (V.take k).map (GoRt.fpJoin d) ++ V.drop k →
    Generated.Zip.CheckDir_loop1 cfp ef osLstat osOpenRead osReadFile pgv sf tl vc vl walkRoot rx d fuel (k : Int) cf =
      .ok ((V.length : Int), { cf with Valid := V.map (GoRt.fpJoin d) })
  | 0, k, cf, _, hf, _ => by omega
  | fuel + 1, k, cf, hk, hf, hcf => by
    unfold Generated.Zip.CheckDir_loop1
    by_cases hlt : k < V.length
    · have hc : decide ((k : Int) < len rx) = true := by simp [len_eq, hrx]; exact hlt
      simp only [hc, if_true, hcf, inplace_idxL _ V k hlt, inplace_setIdxL _ V k hlt, Bind.bind, Except.bind]
      have := loop1_eq V rx hrx fuel (k + 1) { cf with Valid := (V.take (k + 1)).map (GoRt.fpJoin d) ++ V.drop (k + 1) }
        hlt (by omega) rfl
      rw [show ((k : Int) + 1) = ((k + 1 : Nat) : Int) from by omega, this]
    · have hk' : k = V.length := by omega
      have hc : decide ((k : Int) < len rx) = false := by simp [len_eq, hrx]; omega
      simp only [hc, Bool.false_eq_true, if_false]
      subst hk'
      have : cf = { cf with Valid := V.map (GoRt.fpJoin d) } := by
        cases cf; simp only [CheckedFiles.mk.injEq, and_true] at hcf ⊢; simpa using hcf
      rw [← this]; rfl

theorem loop2_eq (V rx : List FileError) (hrx : rx.length = V.length) : ∀ (fuel k : Nat) (cf : CheckedFiles), k ≤ V.length →
    V.length - k + 1 ≤ fuel → cf.Omitted = (V.take k).map (joinFE d) ++ V.drop k →
    Generated.Zip.CheckDir_loop2 cfp ef osLstat osOpenRead osReadFile pgv sf tl vc vl walkRoot rx d fuel (k : Int) cf =
      .ok ((V.length : Int), { cf with Omitted := V.map (joinFE d) })
  | 0, k, cf, _, hf, _ => by omega
  | fuel + 1, k, cf, hk, hf, hcf => by
    unfold Generated.Zip.CheckDir_loop2
    by_cases hlt : k < V.length
    · have hc : decide ((k : Int) < len rx) = true := by simp [len_eq, hrx]; exact hlt
      have hs := inplace_setIdxL (joinFE d) V k hlt
      simp only [joinFE] at hs
      simp only [hc, if_true, hcf, inplace_idxL _ V k hlt, Bind.bind, Except.bind, hs]
      have := loop2_eq V rx hrx fuel (k + 1) { cf with Omitted := (V.take (k + 1)).map (joinFE d) ++ V.drop (k + 1) }
        hlt (by omega) rfl
      rw [show ((k : Int) + 1) = ((k + 1 : Nat) : Int) from by omega]
      exact this
    · have hk' : k = V.length := by omega
      have hc : decide ((k : Int) < len rx) = false := by simp [len_eq, hrx]; omega
      simp only [hc, Bool.false_eq_true, if_false]
      subst hk'
      have : cf = { cf with Omitted := V.map (joinFE d) } := by
        cases cf; simp only [CheckedFiles.mk.injEq, and_true, true_and] at hcf ⊢; simpa using hcf
      rw [← this]; rfl

theorem loop3_eq (V rx : List FileError) (hrx : rx.length = V.length) : ∀ (fuel k : Nat) (cf : CheckedFiles), k ≤ V.length →
    V.length - k + 1 ≤ fuel → cf.Invalid = (V.take k).map (joinFE d) ++ V.drop k →
    Generated.Zip.CheckDir_loop3 cfp ef osLstat osOpenRead osReadFile pgv sf tl vc vl walkRoot rx d fuel (k : Int) cf =
      .ok ((V.length : Int), { cf with Invalid := V.map (joinFE d) })
  | 0, k, cf, _, hf, _ => by omega
  | fuel + 1, k, cf, hk, hf, hcf => by
    unfold Generated.Zip.CheckDir_loop3
    by_cases hlt : k < V.length
    · have hc : decide ((k : Int) < len rx) = true := by simp [len_eq, hrx]; exact hlt
      have hs := inplace_setIdxL (joinFE d) V k hlt
      simp only [joinFE] at hs
      simp only [hc, if_true, hcf, inplace_idxL _ V k hlt, Bind.bind, Except.bind, hs]
      have := loop3_eq V rx hrx fuel (k + 1) { cf with Invalid := (V.take (k + 1)).map (joinFE d) ++ V.drop (k + 1) }
        hlt (by omega) rfl
      rw [show ((k : Int) + 1) = ((k + 1 : Nat) : Int) from by omega]
      exact this
    · have hk' : k = V.length := by omega
      have hc : decide ((k : Int) < len rx) = false := by simp [len_eq, hrx]; omega
      simp only [hc, Bool.false_eq_true, if_false]
      subst hk'
      have : cf = { cf with Invalid := V.map (joinFE d) } := by
        cases cf; simp only [CheckedFiles.mk.injEq, and_true, true_and] at hcf ⊢; simpa using hcf
      rw [← this]; rfl

end

/-! ### CheckFiles, CheckDir, CreateFromDir -/

def embDirOm (d : Bytes) (e : Bytes × Zip.Reason) : FileError :=
  { Path := GoRt.fpJoin d e.1, Err := some (reasonTextD e.2) }

def embDirInv (d : Bytes) (e : Bytes × Zip.Reason) : FileError :=
  { Path := GoRt.fpJoin d e.1, Err := some (reasonText e.2) }

/-- the model's directory report (paths relative to the directory) as `CheckDir` returns it: every path joined with the
    directory; omitted entries carry `reasonTextD`, invalid entries `reasonText` -/
def embDir (d : Bytes) (cf : Zip.CheckedFiles) : CheckedFiles :=
  { Valid := cf.valid.map (GoRt.fpJoin d), Omitted := cf.omitted.map (embDirOm d), Invalid := cf.invalid.map (embDirInv d),
    SizeError := if cf.sizeError then some sizeErrorText else none }

/-- fuel for `CheckDir` / `CreateFromDir`: the walk, `checkFiles`, and the path-rewriting loops -/
def dirFuel (K : Nat) (ge124 : Bool) (children : List (Bytes × Zip.Node)) : Nat :=
  3 * listFuel children + fuelBound K (Zip.listFilesInDir ge124 children).files

theorem listFuel_pos (cs : List (Bytes × Zip.Node)) : 1 ≤ listFuel cs := by
  cases cs with
  | nil => simp [listFuel]
  | cons c rest => obtain ⟨a, b⟩ := c; simp only [listFuel]; omega

theorem reasonTextD_of_listReason {r : Zip.Reason} (h : ListReason r) : reasonTextD r = reasonText r := by
  cases r <;> first | rfl | exact absurd rfl h.1 | exact absurd rfl h.2

section
variable (E : Zip.Env) (ef : Bytes → Bytes → Bool)
  (osLstat : Bytes → (FileInfo × Option String)) (osOpenRead : Bytes → (Bytes × Option String))
  (osReadFile : Bytes → (Bytes × Option String)) (pgv : Bytes → Bytes → Bytes) (sf : Int → Int) (tl : Bytes → Bytes)
  (vc : Bytes → Bytes → Int) (vl : Bytes → Bytes) (walkRoot : Bytes → FsTree FileInfo) (d : Bytes) (K : Nat)

theorem CheckFiles_eq (hsf : FoldsTo sf K) (hE : E.toFold = Zip.strToFold)
    (hef : ∀ s, ef s Zip.goModName = Zip.equalFoldGoMod s)
    (htl : ∀ s, decide (tl s = Zip.goModName) = Zip.toLowerIsGoMod s) (files : List Zip.FileInfo)
    (hv : decide (0 ≤ vc (versOf pgv vl files) go124) = Zip.goVers files) (fuel : Nat) (hfuel : fuelBound K files ≤ fuel) :
    Generated.Zip.CheckFiles (cfpOf E) ef pgv sf tl vc vl fuel (files.map toGFile) =
      .ok (embCF (Zip.checkFilesV E files), (Zip.checkFilesV E files).err.map errKindText) := by
  unfold Generated.Zip.CheckFiles
  rw [Tie.FnZipCheckFiles.checkFiles_tie E ef pgv sf tl vc vl K hsf hE hef htl files hv fuel hfuel]
  simp only [Bind.bind, Except.bind, embedCf]
  show Except.ok (embCF (Zip.checkFilesV E files), Generated.Zip.CheckedFiles_Err (embCF (Zip.checkFilesV E files))) = _
  rw [CheckedFiles_Err_eq]

theorem CheckDir_eq (hsf : FoldsTo sf K) (hE : E.toFold = Zip.strToFold)
    (hef : ∀ s, ef s Zip.goModName = Zip.equalFoldGoMod s)
    (htl : ∀ s, decide (tl s = Zip.goModName) = Zip.toLowerIsGoMod s)
    (ge124 : Bool) (hg : ge124 = decide (0 ≤ vc (versDir osReadFile pgv vl d) go124))
    (children : List (Bytes × Zip.Node)) (hroot : walkRoot d = toFs (.dir children))
    (hok : ChildrenOK osLstat osOpenRead d [] children)
    (hv : decide (0 ≤ vc (versOf pgv vl (Zip.listFilesInDir ge124 children).files) go124) =
      Zip.goVers (Zip.listFilesInDir ge124 children).files)
    (fuel : Nat) (hfuel : dirFuel K ge124 children ≤ fuel) :
    Generated.Zip.CheckDir (cfpOf E) ef osLstat osOpenRead osReadFile pgv sf tl vc vl walkRoot fuel d =
      .ok (embDir d (Zip.checkDir E ge124 children), (Zip.checkDir E ge124 children).err.map errKindText) := by
  unfold dirFuel at hfuel
  have hcount := walkChildren_count ge124 children []
  have hpos := listFuel_pos children
  have hinv := inv_checkFilesSt E (Zip.listFilesInDir ge124 children).files
    (Zip.goVers (Zip.listFilesInDir ge124 children).files)
  have hlf : (Zip.listFilesInDir ge124 children).files.length + (Zip.listFilesInDir ge124 children).omitted.length ≤
      listFuel children := hcount
  unfold Generated.Zip.CheckDir
  rw [listFilesInDir_eq osLstat osOpenRead osReadFile pgv vc vl walkRoot d ge124 hg children hroot hok fuel (by omega)]
  simp only [Bind.bind, Except.bind, Option.isNone_none, Bool.not_true, Bool.false_eq_true, if_false]
  rw [CheckFiles_eq E ef pgv sf tl vc vl K hsf hE hef htl _ hv fuel (by omega)]
  simp only []
  generalize hl : Zip.listFilesInDir ge124 children = l at *
  have hcd : Zip.checkDir E ge124 children =
      { Zip.checkFilesV E l.files with omitted := (Zip.checkFilesV E l.files).omitted ++ l.omitted } := by
    unfold Zip.checkDir; rw [hl]
  have hcfv : Zip.checkFilesV E l.files = (Zip.checkFilesSt E l.files (Zip.goVers l.files)).cf := rfl
  generalize hc : Zip.checkFilesV E l.files = c at *
  have htot : c.valid.length + c.omitted.length + c.invalid.length ≤ 2 * l.files.length := by
    have := hinv.1; unfold tot at this; rw [← hcfv] at this; exact this
  have hom : ∀ e ∈ c.omitted, ListReason e.2 := by
    have := hinv.2; rw [← hcfv] at this; exact this
  -- loop 1
  rw [show (0 : Int) = ((0 : Nat) : Int) from rfl]
  rw [loop1_eq (cfpOf E) ef osLstat osOpenRead osReadFile pgv sf tl vc vl walkRoot d c.valid (embCF c).Valid rfl fuel 0
    (embCF c) (Nat.zero_le _) (by omega) (by simp [embCF])]
  simp only []
  -- loop 2
  rw [loop2_eq (cfpOf E) ef osLstat osOpenRead osReadFile pgv sf tl vc vl walkRoot d
    ((embCF c).Omitted ++ l.omitted.map embOm) _ rfl fuel 0 _ (Nat.zero_le _)
    (by simp only [embCF, List.length_append, List.length_map]; omega) (by simp)]
  simp only []
  -- loop 3
  rw [loop3_eq (cfpOf E) ef osLstat osOpenRead osReadFile pgv sf tl vc vl walkRoot d (embCF c).Invalid _ rfl fuel 0 _
    (Nat.zero_le _) (by simp only [embCF, List.length_map]; omega) (by simp)]
  simp only [pure, Except.pure]
  have hfinal : CheckedFiles.mk (c.valid.map (GoRt.fpJoin d))
        ((c.omitted.map embFE ++ l.omitted.map embOm).map (joinFE d)) ((c.invalid.map embFE).map (joinFE d))
        (embCF c).SizeError = embDir d (Zip.checkDir E ge124 children) := by
    rw [hcd]
    simp only [embDir, embCF, List.map_append, List.map_map, CheckedFiles.mk.injEq, true_and, and_true]
    refine ⟨?_, ?_⟩
    · congr 1
      · apply List.map_congr_left
        intro e he
        simp [joinFE, embFE, embDirOm, reasonTextD_of_listReason (hom e he)]
    · rfl
  have herr : Generated.Zip.CheckedFiles_Err (embDir d (Zip.checkDir E ge124 children)) =
      (Zip.checkDir E ge124 children).err.map errKindText := by
    have h1 := CheckedFiles_Err_eq (Zip.checkDir E ge124 children)
    rw [← h1]
    unfold Generated.Zip.CheckedFiles_Err embDir embCF
    simp [len_eq]
  rw [← herr, ← hfinal]
  rfl

theorem errIs_zipError (t : String) : errIs "zipError" (some ("zipError|" ++ t)) = true := by
  simp only [errIs, Bool.or_eq_true]
  right
  rw [String.startsWith_string_iff]
  simp [String.toList_append]

theorem CreateFromDir_eq (canon : Bytes → Bytes) (mchk : Bytes → Bytes → Option String)
    (hsf : FoldsTo sf K) (hE : E.toFold = Zip.strToFold)
    (hef : ∀ s, ef s Zip.goModName = Zip.equalFoldGoMod s)
    (htl : ∀ s, decide (tl s = Zip.goModName) = Zip.toLowerIsGoMod s)
    (p v : Bytes) (hmod : (canon v = v ∧ mchk p v = none) ↔ E.modOK p v = true)
    (ge124 : Bool) (hg : ge124 = decide (0 ≤ vc (versDir osReadFile pgv vl d) go124))
    (children : List (Bytes × Zip.Node)) (hroot : walkRoot d = toFs (.dir children))
    (hok : ChildrenOK osLstat osOpenRead d [] children)
    (hv : decide (0 ≤ vc (versOf pgv vl (Zip.listFilesInDir ge124 children).files) go124) =
      Zip.goVers (Zip.listFilesInDir ge124 children).files)
    (fuel : Nat) (hfuel : dirFuel K ge124 children ≤ fuel) :
    Generated.Zip.CreateFromDir canon (cfpOf E) ef mchk osLstat osOpenRead osReadFile pgv sf tl vc vl walkRoot fuel ()
        { Path := p, Version := v } d [] =
      .ok (embCreateRes (badModuleText canon mchk p v) (Zip.createFromDir E p v ge124 children),
           createWorld E p v (Zip.listFilesInDir ge124 children).files) := by
  unfold dirFuel at hfuel
  have hpos := listFuel_pos children
  unfold Generated.Zip.CreateFromDir
  rw [listFilesInDir_eq osLstat osOpenRead osReadFile pgv vc vl walkRoot d ge124 hg children hroot hok fuel (by omega)]
  simp only [Bind.bind, Except.bind, Option.isNone_none, Bool.not_true, Bool.false_eq_true, if_false]
  rw [Tie.FnZipIOCreate.Create_tie E canon ef mchk pgv sf tl vc vl K hsf hE hef htl p v hmod _ hv fuel (by omega)]
  simp only []
  show _ = Except.ok (embCreateRes _ (Zip.create E p v (Zip.listFilesInDir ge124 children).files), _)
  cases Zip.create E p v (Zip.listFilesInDir ge124 children).files with
  | ok es => rfl
  | error c =>
    simp only [embCreateRes, embCreateErr, errIs_zipError, if_true]
    rfl

end

end ModVerif.TieFnZipDir
