/-
  Tie proofs, part 2: `subTreeIndex` (the loop over the maximal complete subtrees of `[lo, hi)`).
-/
import ModVerif.Proofs.TieFnTlogInt
namespace ModVerif.TieFnTlogInt
open ModVerif ModVerif.GoRt

/-- a stored hash sits before the leaf of the record that follows its subtree -/
theorem storedHashIndex_lt_S (l q : Nat) : Tlog.storedHashIndex l q < Tlog.S ((q + 1) * 2 ^ l) := by
  have hpos : 0 < (q + 1) * 2 ^ l := Nat.mul_pos (by omega) (Nat.two_pow_pos l)
  have hl := Tlog.le_tz_mul_pow l (q + 1) (by omega)
  have hS := Tlog.S_succ ((q + 1) * 2 ^ l - 1)
  rw [Nat.sub_add_cancel hpos] at hS
  rw [Tlog.storedHashIndex_eq]
  omega

/-- simple sufficient range: a complete subtree inside a log of at most `2^62` records -/
theorem storedHashIndex_lt_of_le (l q : Nat) (h : (q + 1) * 2 ^ l ≤ 2 ^ 62) : Tlog.storedHashIndex l q < 2 ^ 63 := by
  have h1 := storedHashIndex_lt_S l q
  have h2 := Tlog.S_le_two_mul ((q + 1) * 2 ^ l)
  omega

/-- the result of the model (`List Nat`, model errors) in the result type of the generated loop -/
def stiOut (need : List Int) (final : Int) : Except Tlog.Err (List Nat) → M (List Int × Int)
  | .ok l => .ok (need ++ l.map Int.ofNat, final)
  | .error _ => .error .panic

theorem subTreeIndex_loop1_eq : ∀ (m f lo hi fuel : Nat) (need : List Int),
    hi - lo < 2 ^ m → hi - lo ≤ f → m + 64 ≤ fuel → hi ≤ 2 ^ 62 →
    Generated.Tlog.subTreeIndex_loop1 (hi : Int) fuel need (lo : Int) =
      stiOut need ((max lo hi : Nat) : Int) (Tlog.subTreeIndexF f lo hi) := by
  intro m
  induction m with
  | zero =>
    intro f lo hi fuel need hm _ hfuel _
    obtain ⟨g, rfl⟩ : ∃ g, fuel = g + 1 := ⟨fuel - 1, by omega⟩
    have hlt : ¬ lo < hi := by simp at hm; omega
    have hlt' : ¬ ((lo : Int) < (hi : Int)) := by omega
    have hmax : max lo hi = lo := by omega
    have hmod : Tlog.subTreeIndexF f lo hi = .ok [] := by cases f <;> simp [Tlog.subTreeIndexF, hlt]
    simp [Generated.Tlog.subTreeIndex_loop1, hlt', hmod, stiOut, hmax, mpure]
  | succ m ih =>
    intro f lo hi fuel need hm hf hfuel hr
    obtain ⟨g, rfl⟩ : ∃ g, fuel = g + 1 := ⟨fuel - 1, by omega⟩
    by_cases hlt : lo < hi
    · obtain ⟨f', rfl⟩ : ∃ f', f = f' + 1 := ⟨f - 1, by omega⟩
      have hlt' : ((lo : Int) < (hi : Int)) := by omega
      have hspec := Tlog.maxpow2_spec' (hi - lo + 1) (by omega)
      have hmp := maxpow2_eq g ((hi - lo + 1 : Nat) : Int) (by omega)
      rw [Int.toNat_natCast] at hmp
      generalize hkl : Tlog.maxpow2 (hi - lo + 1) = kl at hspec hmp
      obtain ⟨k, level⟩ := kl
      simp only at hspec hmp
      obtain ⟨hk, hklt, hl62, hk2⟩ := hspec
      have hkpos : 0 < k := by rw [hk]; exact Nat.two_pow_pos _
      have hk2' : hi - lo + 1 ≤ 2 * k := by
        rcases hk2 with h | h
        · exact h
        · rw [h] at hk; omega
      have e1 : (hi : Int) - (lo : Int) = ((hi - lo : Nat) : Int) := by omega
      have e2 : ((hi - lo : Nat) : Int) + 1 = ((hi - lo + 1 : Nat) : Int) := by omega
      have e3 : (k : Int) - 1 = ((k - 1 : Nat) : Int) := by omega
      rw [Generated.Tlog.subTreeIndex_loop1, Tlog.subTreeIndexF]
      simp only [hlt, hlt', decide_true, ↓reduceIte, e1, chk64_natCast (show hi - lo < 2 ^ 63 by omega), mbind_ok, e2,
        chk64_natCast (show hi - lo + 1 < 2 ^ 63 by omega), hmp, hkl, e3, chk64_natCast (show k - 1 < 2 ^ 63 by omega),
        band_natCast (show lo < 2 ^ 64 by omega) (show k - 1 < 2 ^ 64 by omega)]
      by_cases hand : lo &&& (k - 1) = 0
      · -- `lo` is a multiple of `k = 2^level`: the node is `(level, lo / k)`, its subtree ends at `lo + k ≤ hi`
        have hmod : lo % 2 ^ level = 0 := by
          rw [← Nat.and_two_pow_sub_one_eq_mod, ← hk]; exact hand
        have hq : (lo >>> level + 1) * 2 ^ level = lo + k := by
          rw [Nat.shiftRight_eq_div_pow, Nat.add_mul, Nat.one_mul, hk]
          have := Nat.div_add_mod lo (2 ^ level)
          rw [hmod, Nat.add_zero, Nat.mul_comm] at this
          rw [this]
        have hshi_lt := storedHashIndex_lt_S level (lo >>> level)
        rw [hq] at hshi_lt
        have hSmono := TlogStore.S_mono hi (lo + k) (by omega)
        have hS2 := Tlog.S_le_two_mul hi
        have hshi := StoredHashIndex_eq g level (lo >>> level) (by omega) (by omega)
        have e4 : (lo : Int) + (k : Int) = ((lo + k : Nat) : Int) := by omega
        have hk_le : k ≤ 2 ^ m := by
          have hlm : level < m + 1 := by
            apply Nat.lt_of_not_le
            intro hc
            have : 2 ^ (m + 1) ≤ 2 ^ level := Nat.pow_le_pow_right (by omega) hc
            omega
          rw [hk]; exact Nat.pow_le_pow_right (by omega) (by omega)
        have hih := ih f' (lo + k) hi g (need ++ [((Tlog.storedHashIndex level (lo >>> level) : Nat) : Int)])
          (by omega) (by omega) (by omega) hr
        have hmax : max (lo + k) hi = max lo hi := by omega
        rw [hmax] at hih
        have hne : (((lo &&& (k - 1) : Nat) : Int) = 0) := by omega
        have hbne : (lo &&& (k - 1) != 0) = false := by simp [hand]
        simp only [hne, decide_true, Bool.not_true, Bool.false_eq_true, ↓reduceIte, toU64_natCast (show level < 2 ^ 64 by omega),
          shr_natCast, mbind_ok, hshi, e4, chk64_natCast (show lo + k < 2 ^ 63 by omega), hih, hbne]
        cases Tlog.subTreeIndexF f' (lo + k) hi with
        | error e => rfl
        | ok rest => simp [stiOut, bind, Except.bind, pure, Except.pure]
      · have hne : ¬ (((lo &&& (k - 1) : Nat) : Int) = 0) := by omega
        simp [hand, stiOut, mthrow]
    · have hlt' : ¬ ((lo : Int) < (hi : Int)) := by omega
      have hmax : max lo hi = lo := by omega
      have hmod : Tlog.subTreeIndexF f lo hi = .ok [] := by cases f <;> simp [Tlog.subTreeIndexF, hlt]
      simp [Generated.Tlog.subTreeIndex_loop1, hlt', hmod, stiOut, hmax, mpure]

/-- the model's answer in the result type of the generated `subTreeIndex`: the indexes are appended to `need`; a model
    error (only `panic` is possible: `Tlog.subTreeIndex_ne_fuel`) is the "bad math in subTreeIndex" panic -/
def subTreeIndexOut (need : List Int) : Except Tlog.Err (List Nat) → M (List Int)
  | .ok l => .ok (need ++ l.map Int.ofNat)
  | .error _ => .error .panic

theorem subTreeIndex_eq (fuel lo hi : Nat) (need : List Int) (hr : hi ≤ 2 ^ 62) (hf : 127 ≤ fuel) :
    Generated.Tlog.subTreeIndex fuel (lo : Int) (hi : Int) need = subTreeIndexOut need (Tlog.subTreeIndex lo hi) := by
  have h63 : hi - lo < 2 ^ 63 := by omega
  have := subTreeIndex_loop1_eq 63 (hi - lo) lo hi fuel need h63 (Nat.le_refl _) (by omega) hr
  simp only [Generated.Tlog.subTreeIndex, this, Tlog.subTreeIndex]
  cases Tlog.subTreeIndexF (hi - lo) lo hi with
  | error e => rfl
  | ok l => rfl

/-- `hi ≤ lo` (in particular a negative `hi`): the loop does not run -/
theorem subTreeIndex_empty (fuel : Nat) (lo hi : Int) (need : List Int) (h : hi ≤ lo) (hf : 1 ≤ fuel) :
    Generated.Tlog.subTreeIndex fuel lo hi need = .ok need := by
  obtain ⟨g, rfl⟩ : ∃ g, fuel = g + 1 := ⟨fuel - 1, by omega⟩
  have : ¬ lo < hi := by omega
  simp [Generated.Tlog.subTreeIndex, Generated.Tlog.subTreeIndex_loop1, this, mpure, mbind_ok]

theorem subTreeIndex_model_empty (lo hi : Nat) (h : hi ≤ lo) : Tlog.subTreeIndex lo hi = .ok [] := by
  have : hi - lo = 0 := by omega
  have hlt : ¬ lo < hi := by omega
  simp [Tlog.subTreeIndex, this, Tlog.subTreeIndexF, hlt]

end ModVerif.TieFnTlogInt
