/-
  C02, clause 3 with end-of-line comments, go.work: `WorkFile.add` never looks at the comments of a line
  (`work_add_obs`), so the step / block / statement-loop lemmas of Proofs/ModfileFmtWork{,2,3}.lean extend to
  lines with end-of-line comments, and `format_preserves_directives_work_eol` follows as for go.mod.
-/
import ModVerif.Proofs.ModfileEolDir4
import ModVerif.Proofs.ModfileFmtWork4
namespace ModVerif.Proofs.ModfileEol
open ModVerif ModVerif.Modfile ModVerif.Proofs.ModfileFmtLex ModVerif.Proofs.ModfileFmtLine
open ModVerif.Proofs.ModfileFmtFix ModVerif.Proofs.ModfileFmtTree ModVerif.Proofs.ModfileFmtParse
open ModVerif.Proofs.ModfileFmtDir ModVerif.Proofs.ModfileFmtMain ModVerif.Proofs.ModfileFmtWork

/-! ### what `WorkFile.add` sees of a line -/

def wobs (r : WorkState × List Bytes) : WorkValues × Nat × List Bytes := (workValues r.1.file, r.1.errsRev.length, r.2)

/-- from the same state, any two lines give the same observable result -/
theorem work_add_obs (st : WorkState) (l l' : Line) (verb : Bytes) (args : List Bytes) (fix : Option Fixer) :
    wobs (WorkFile.add st l verb args fix) = wobs (WorkFile.add st l' verb args fix) := by
  unfold WorkFile.add
  dsimp only
  by_cases h1 : (verb == B "go") = true
  · rw [if_pos h1, if_pos h1]
    repeat' (first | rfl | split | simp [wobs, workValues])
  rw [if_neg h1, if_neg h1]
  by_cases h2 : (verb == B "toolchain") = true
  · rw [if_pos h2, if_pos h2]
    repeat' (first | rfl | split | simp [wobs, workValues])
  rw [if_neg h2, if_neg h2]
  by_cases h4 : (verb == B "godebug") = true
  · rw [if_pos h4, if_pos h4]
    repeat' (first | rfl | split | simp [wobs, workValues])
  rw [if_neg h4, if_neg h4]
  by_cases h5 : (verb == B "use") = true
  · rw [if_pos h5, if_pos h5]
    repeat' (first | rfl | split | simp [wobs, workValues])
  rw [if_neg h5, if_neg h5]
  by_cases h6 : (verb == B "replace") = true
  · rw [if_pos h6, if_pos h6, parseReplace_id l.id, parseReplace_id l'.id]
    cases hpr : parseReplace 0 args fix with
    | mk a' res =>
      cases res with
      | error e => rfl
      | ok r =>
        simp only [wobs, workValues, List.map_append]
        rfl
  rw [if_neg h6, if_neg h6]
  rfl

theorem work_add_transfer (st : WorkState) (l l' : Line) (verb : Bytes) (args args1 : List Bytes)
    (fix : Option Fixer) (st1 : WorkState)
    (h : WorkFile.add st l verb args fix = (st1, args1)) (he : st1.errsRev = []) :
    ∃ st1', WorkFile.add st l' verb args fix = (st1', args1) ∧ workValues st1'.file = workValues st1.file ∧
      st1'.errsRev = [] := by
  have ho := work_add_obs st l l' verb args fix
  rw [h] at ho
  cases h' : WorkFile.add st l' verb args fix with
  | mk st1' a1' =>
    rw [h'] at ho
    simp only [wobs, Prod.mk.injEq] at ho
    obtain ⟨hv, hlen, ha⟩ := ho
    refine ⟨st1', by rw [ha], hv.symm, ?_⟩
    rw [he] at hlen
    exact List.eq_nil_of_length_eq_zero hlen.symm

/-- the replay for every line, with or without end-of-line comments -/
structure WStepOKE (st st1 : WorkState) (verb : Bytes) (args1 : List Bytes) (fix : Option Fixer) : Prop where
  errs : st.errsRev = []
  replay : ∀ (st' : WorkState) (l' : Line), WSim st st' →
    ∃ st1', WorkFile.add st' l' verb args1 fix = (st1', args1) ∧ WSim st1 st1'

theorem wstepOK_upgrade {st st1 : WorkState} {verb : Bytes} {args1 : List Bytes} {fix : Option Fixer}
    (hs : WStepOK st st1 verb args1 fix) : WStepOKE st st1 verb args1 fix := by
  refine ⟨hs.errs, ?_⟩
  intro st' l' hsim
  obtain ⟨s0, hadd0, hsim0⟩ := hs.replay st' (clrLine l') hsim rfl
  obtain ⟨s1, hadd1, hv1, he1⟩ := work_add_transfer st' (clrLine l') l' verb args1 args1 fix s0 hadd0 hsim0.errs'
  exact ⟨s1, hadd1, ⟨by rw [hsim0.vals, hv1], hsim0.errs, he1⟩⟩

/-- the rewritten arguments are original arguments or contain no newline byte -/
theorem work_add_args_nl (st st1 : WorkState) (l : Line) (verb : Bytes) (args args1 : List Bytes)
    (fix : Option Fixer) (h : WorkFile.add st l verb args fix = (st1, args1)) (he : st1.errsRev = [])
    (hfix : FixOK fix) (hne : FixNE fix) (hwf : WorkWellFormed st1.file) :
    ∀ t ∈ args1, t ∈ args ∨ (10 : UInt8) ∉ t := by
  by_cases h1 : verb = B "go"
  · subst h1
    obtain ⟨_, a, rfl, rfl, _, _⟩ := work_add_go st st1 l args args1 fix h he
    exact fun t ht => Or.inl ht
  by_cases h2 : verb = B "toolchain"
  · subst h2
    obtain ⟨_, a, rfl, rfl, _, _⟩ := work_add_toolchain st st1 l args args1 fix h he
    exact fun t ht => Or.inl ht
  by_cases h4 : verb = B "godebug"
  · subst h4
    obtain ⟨_, k, v, rfl, _, _⟩ := work_add_godebug st st1 l args args1 fix h he
    exact fun t ht => Or.inl ht
  by_cases h5 : verb = B "use"
  · subst h5
    obtain ⟨_, a, s, rfl, _, rfl, _⟩ := work_add_use st st1 l args args1 fix h he
    intro t ht
    simp at ht; subst ht
    exact Or.inr (autoQuote_no_nl s)
  by_cases h7 : verb = B "replace"
  · subst h7
    obtain ⟨r, hf, hargs, hrest⟩ := work_add_replace st st1 l args args1 fix h he hfix hne
    have hnew := hwf.replace r (by rw [hf]; simp)
    rw [hargs]
    intro t ht
    right
    simp only [replaceToks, List.mem_append, List.mem_singleton] at ht
    rcases ht with (((ht | ht) | ht) | ht) | ht
    · subst ht; exact autoQuote_no_nl _
    · split at ht
      · simp at ht
      · rename_i hv; simp at ht; subst ht; exact valid_no_nl (hnew.2.1 hv)
    · subst ht; decide +kernel
    · subst ht; exact autoQuote_no_nl _
    · split at ht
      · simp at ht
      · rename_i hv; simp at ht; subst ht; exact valid_no_nl (hnew.2.2.2 hv)
  · exfalso
    have e1 : (verb == B "go") = false := by simpa using h1
    have e2 : (verb == B "toolchain") = false := by simpa using h2
    have e4 : (verb == B "godebug") = false := by simpa using h4
    have e5 : (verb == B "use") = false := by simpa using h5
    have e7 : (verb == B "replace") = false := by simpa using h7
    unfold WorkFile.add at h
    simp only [e1, e2, e4, e5, e7, Bool.false_eq_true, if_false, Prod.mk.injEq] at h
    obtain ⟨rfl, _⟩ := h
    exact absurd he (work_err_ne_nil _ _ _)

/-! ### block lines -/

theorem workBlockLines_replayE (verb : Bytes) (fix : Option Fixer) (hfix : FixOK fix)
    (hne : FixNE fix) : ∀ (ls : List Line) (allow : Bool) (st st1 : WorkState) (ls1 : List Line),
    workBlockLines verb fix st ls = (st1, ls1) → st1.errsRev = [] → WorkWellFormed st1.file →
    EWFBlkLines allow ls → (∀ l ∈ ls, NlLine l) →
    EWFBlkLines allow ls1 ∧ (∀ l ∈ ls1, NlLine l) ∧ ls1.length = ls.length ∧ WorkWellFormed st.file ∧
    st.errsRev = [] ∧
    ∀ (st' : WorkState) (ls' : List Line), WSim st st' → ls'.map eraseLine = ls1.map normLine →
      ∃ st1', workBlockLines verb fix st' ls' = (st1', ls') ∧ WSim st1 st1' := by
  intro ls
  induction ls with
  | nil =>
    intro allow st st1 ls1 h he hwf _ _
    simp only [workBlockLines, Prod.mk.injEq] at h
    obtain ⟨rfl, rfl⟩ := h
    refine ⟨trivial, (by intro l hl; cases hl), rfl, hwf, he, ?_⟩
    intro st' ls' hsim hrel
    have : ls' = [] := by simpa using hrel
    subst this
    exact ⟨st', rfl, hsim⟩
  | cons l ls ih =>
    intro allow st st1 ls1 h he hwf hwfl hnl
    obtain ⟨hl, hls⟩ := hwfl
    simp only [workBlockLines] at h
    cases hstep : WorkFile.add st l verb l.token fix with
    | mk stm toks =>
      cases hrest : workBlockLines verb fix stm ls with
      | mk st2 ls2 =>
        simp only [hstep, hrest, Prod.mk.injEq] at h
        obtain ⟨rfl, rfl⟩ := h
        obtain ⟨hwl2, hnl2, hlen2, hwfm, hem, hreplay2⟩ := ih true stm st2 ls2 hrest he hwf hls
          (fun l' h' => hnl l' (by simp [h']))
        obtain ⟨hsok, hwf0, hargs, hane⟩ := work_add_step st stm l verb l.token toks fix hstep hem hfix hne
          hwfm hl.tok
        have hanl := work_add_args_nl st stm l verb l.token toks fix hstep hem hfix hne hwfm
        have hsokE := wstepOK_upgrade hsok
        refine ⟨⟨?_, hwl2⟩, ?_, by simp [hlen2], hwf0, hsok.errs, ?_⟩
        · refine ⟨hane, fun t ht => (hargs t ht).1, ?_, hl.before, hl.suffix, hl.after, hl.inBlock⟩
          cases toks with
          | nil => exact absurd rfl hane
          | cons t0 tr =>
            simp only [List.head?_cons, ne_eq, Option.some.injEq]
            exact (hargs t0 (by simp)).2.2
        · intro l' hl'
          rcases List.mem_cons.1 hl' with rfl | hl'
          · exact nlLine_rewrite (hnl l (by simp)) hanl
          · exact hnl2 l' hl'
        · intro st' ls' hsim hrel
          cases ls' with
          | nil => simp at hrel
          | cons l' ls'' =>
            simp only [List.map_cons, List.cons.injEq] at hrel
            obtain ⟨hl', hrel'⟩ := hrel
            have htok' : l'.token = toks := by
              have := congrArg Line.token hl'
              simpa [eraseLine, normLine] using this
            obtain ⟨stm', hadd', hsim'⟩ := hsokE.replay st' l' hsim
            obtain ⟨st2', hrest', hsim2⟩ := hreplay2 stm' ls'' hsim' hrel'
            refine ⟨st2', ?_, hsim2⟩
            simp only [workBlockLines, htok', hadd', hrest']
            congr 2
            cases l'
            simp only at htok'
            subst htok'
            rfl

/-! ### the statement loop -/

theorem workStmts_replayE (fix : Option Fixer) (hfix : FixOK fix) (hne : FixNE fix) :
    ∀ (ss : List Expr) (st st1 : WorkState) (ss1 : List Expr),
    workStmts fix st ss = (st1, ss1) → st1.errsRev = [] → WorkWellFormed st1.file → EWFStmts ss →
    (∀ s ∈ ss, NlOK s) →
    EWFStmts ss1 ∧ (∀ s ∈ ss1, NlOK s) ∧ WorkWellFormed st.file ∧ st.errsRev = [] ∧
    ∀ (st' : WorkState) (ss' : List Expr), WSim st st' → ss'.map eraseExpr = ss1.map normExprE →
      ∃ st1', workStmts fix st' ss' = (st1', ss') ∧ WSim st1 st1' := by
  intro ss
  induction ss with
  | nil =>
    intro st st1 ss1 h he hwf _ _
    simp only [workStmts, Prod.mk.injEq] at h
    obtain ⟨rfl, rfl⟩ := h
    refine ⟨fun s hs => by simp at hs, fun s hs => by simp at hs, hwf, he, ?_⟩
    intro st' ss' hsim hrel
    have : ss' = [] := by simpa using hrel
    subst this
    exact ⟨st', rfl, hsim⟩
  | cons x xs ih =>
    intro st st1 ss1 h he hwf hwfs hnls
    have hx : EWFStmt x := hwfs x (by simp)
    have hxs : EWFStmts xs := fun s hs => hwfs s (by simp [hs])
    have hnx : NlOK x := hnls x (by simp)
    have hnxs : ∀ s ∈ xs, NlOK s := fun s hs => hnls s (by simp [hs])
    cases x with
    | commentBlock c =>
      simp only [workStmts] at h
      cases hrest : workStmts fix st xs with
      | mk st2 xs2 =>
        simp only [hrest, Prod.mk.injEq] at h
        obtain ⟨rfl, rfl⟩ := h
        obtain ⟨hw2, hn2, hwf0, he0, hrep⟩ := ih st st2 xs2 hrest he hwf hxs hnxs
        refine ⟨?_, ?_, hwf0, he0, ?_⟩
        · intro s hs
          rcases List.mem_cons.1 hs with rfl | hs
          · exact hx
          · exact hw2 s hs
        · intro s hs
          rcases List.mem_cons.1 hs with rfl | hs
          · trivial
          · exact hn2 s hs
        · intro st' ss' hsim hrel
          cases ss' with
          | nil => simp at hrel
          | cons s' ss'' =>
            simp only [List.map_cons, List.cons.injEq] at hrel
            obtain ⟨hs', hrel'⟩ := hrel
            obtain ⟨st2', hr', hsim'⟩ := hrep st' ss'' hsim hrel'
            cases s' with
            | commentBlock c' =>
              refine ⟨st2', ?_, hsim'⟩
              simp only [workStmts, hr']
            | line _ => simp [eraseExpr, normExprE, normExpr] at hs'
            | lineBlock _ => simp [eraseExpr, normExprE, normExpr] at hs'
            | lparen _ => simp [eraseExpr, normExprE, normExpr] at hs'
            | rparen _ => simp [eraseExpr, normExprE, normExpr] at hs'
    | line l =>
      have hl : EWFLine l := hx
      have hnl : NlLine l := hnx
      obtain ⟨verb, args, htok⟩ : ∃ verb args, l.token = verb :: args := by
        cases ht : l.token with
        | nil => exact absurd ht hl.ne
        | cons a b => exact ⟨a, b, rfl⟩
      simp only [workStmts, htok] at h
      cases hstep : WorkFile.add st l verb args fix with
      | mk stm args1 =>
        cases hrest : workStmts fix stm xs with
        | mk st2 xs2 =>
          simp only [hstep, hrest, Prod.mk.injEq] at h
          obtain ⟨rfl, rfl⟩ := h
          obtain ⟨hw2, hn2, hwfm, hem, hrep⟩ := ih stm st2 xs2 hrest he hwf hxs hnxs
          have horig : ∀ t ∈ args, TokText t := fun t ht => hl.tok t (by rw [htok]; simp [ht])
          obtain ⟨hsok, hwf0, hargs, _⟩ := work_add_step st stm l verb args args1 fix hstep hem hfix hne
            hwfm horig
          have hanl := work_add_args_nl st stm l verb args args1 fix hstep hem hfix hne hwfm
          have hsokE := wstepOK_upgrade hsok
          refine ⟨?_, ?_, hwf0, hsok.errs, ?_⟩
          · intro s hs
            rcases List.mem_cons.1 hs with rfl | hs
            · show EWFLine _
              refine ⟨by simp, ?_, ?_, hl.before, hl.suffix, hl.after, hl.inBlock⟩
              · intro t ht
                simp only [List.mem_cons] at ht
                rcases ht with rfl | ht
                · exact hl.tok t (by rw [htok]; simp)
                · exact (hargs t ht).1
              · simp only [List.tail_cons]
                exact lineTailOK_no_lparen args1 (fun t ht => (hargs t ht).2.1)
            · exact hw2 s hs
          · intro s hs
            rcases List.mem_cons.1 hs with rfl | hs
            · show NlLine _
              apply nlLine_rewrite hnl
              intro t ht
              simp only [List.mem_cons] at ht
              rcases ht with rfl | ht
              · exact Or.inl (by rw [htok]; simp)
              · rcases hanl t ht with h1 | h1
                · exact Or.inl (by rw [htok]; simp [h1])
                · exact Or.inr h1
            · exact hn2 s hs
          · intro st' ss' hsim hrel
            cases ss' with
            | nil => simp at hrel
            | cons s' ss'' =>
              simp only [List.map_cons, List.cons.injEq] at hrel
              obtain ⟨hs', hrel'⟩ := hrel
              cases s' with
              | line l' =>
                simp only [eraseExpr, normExprE, normExpr, Expr.line.injEq] at hs'
                have htok' : l'.token = verb :: args1 := by
                  have := congrArg Line.token hs'
                  simpa [eraseLine, normLine] using this
                obtain ⟨stm', hadd', hsim'⟩ := hsokE.replay st' l' hsim
                obtain ⟨st2', hr', hsim2⟩ := hrep stm' ss'' hsim' hrel'
                refine ⟨st2', ?_, hsim2⟩
                simp only [workStmts, htok', hadd', hr']
                congr 3
                cases l'
                simp only at htok'
                subst htok'
                rfl
              | commentBlock _ => simp [eraseExpr, normExprE, normExpr] at hs'
              | lineBlock _ => simp [eraseExpr, normExprE, normExpr] at hs'
              | lparen _ => simp [eraseExpr, normExprE, normExpr] at hs'
              | rparen _ => simp [eraseExpr, normExprE, normExpr] at hs'
    | lineBlock b =>
      have hb : EWFBlock b := hx
      have hnb : ∀ l ∈ b.lines, NlLine l := hnx
      simp only [workStmts] at h
      have hem : ∀ (stm : WorkState) (st2 : WorkState) (xs2 : List Expr),
          workStmts fix stm xs = (st2, xs2) → st2.errsRev = [] → stm.errsRev = [] := by
        intro stm st2 xs2 hr he2
        have := workStmts_errs_mono fix xs stm
        rw [hr] at this
        exact nil_of_suffix_nil this he2
      cases hbt : b.token with
      | nil => exact absurd hbt hb.ne
      | cons verb rest =>
        cases rest with
        | cons r0 rs =>
          exfalso
          simp only [hbt] at h
          cases hrest : workStmts fix (st.err b.start .unknownBlock) xs with
          | mk st2 xs2 =>
            simp only [hrest, Prod.mk.injEq] at h
            obtain ⟨rfl, _⟩ := h
            exact work_err_ne_nil _ _ _ (hem _ _ _ hrest he)
        | nil =>
          simp only [hbt] at h
          by_cases hvb : verbIn verb workBlockVerbs = true
          · simp only [hvb, if_true] at h
            cases hlines : workBlockLines verb fix st b.lines with
            | mk stm ls1 =>
              cases hrest : workStmts fix stm xs with
              | mk st2 xs2 =>
                simp only [hlines, hrest, Prod.mk.injEq] at h
                obtain ⟨rfl, rfl⟩ := h
                obtain ⟨hw2, hn2, hwfm, hem', hrep⟩ := ih stm st2 xs2 hrest he hwf hxs hnxs
                obtain ⟨hwl1, hnl1, hlen1, hwf0, he0, hrepl⟩ := workBlockLines_replayE verb fix hfix hne b.lines
                  false st stm ls1 hlines hem' hwfm hb.lines hnb
                have hemp : ls1.isEmpty = b.lines.isEmpty := ewfBlkLines_nonempty_eq hlen1
                refine ⟨?_, ?_, hwf0, he0, ?_⟩
                · intro s hs
                  rcases List.mem_cons.1 hs with rfl | hs
                  · show EWFBlock _
                    exact ⟨by simp, fun t ht => hb.tok t (by rw [hbt]; simpa using ht), hb.before,
                      hb.after, hb.lbefore, hb.lsuffix, hb.lafter, hwl1, by simpa [hemp] using hb.rbefore, hb.rsuffix,
                      hb.rafter⟩
                  · exact hw2 s hs
                · intro s hs
                  rcases List.mem_cons.1 hs with rfl | hs
                  · exact hnl1
                  · exact hn2 s hs
                · intro st' ss' hsim hrel
                  cases ss' with
                  | nil => simp at hrel
                  | cons s' ss'' =>
                    simp only [List.map_cons, List.cons.injEq] at hrel
                    obtain ⟨hs', hrel'⟩ := hrel
                    cases s' with
                    | lineBlock b' =>
                      simp only [eraseExpr, normExprE, Expr.lineBlock.injEq] at hs'
                      have htok' : b'.token = [verb] := by
                        have := congrArg LineBlock.token hs'
                        simpa [eraseBlock, normBlockE, hbt] using this
                      have hlines' : b'.lines.map eraseLine = ls1.map normLine := by
                        have := congrArg LineBlock.lines hs'
                        simpa [eraseBlock, normBlockE] using this
                      obtain ⟨stm', hadd', hsim'⟩ := hrepl st' b'.lines hsim hlines'
                      obtain ⟨st2', hr', hsim2⟩ := hrep stm' ss'' hsim' hrel'
                      refine ⟨st2', ?_, hsim2⟩
                      simp only [workStmts, htok', hvb, if_true, hadd', hr']
                      congr 3
                      cases b'
                      simp only at htok'
                      subst htok'
                      rfl
                    | commentBlock _ => simp [eraseExpr, normExprE, normExpr] at hs'
                    | line _ => simp [eraseExpr, normExprE, normExpr] at hs'
                    | lparen _ => simp [eraseExpr, normExprE, normExpr] at hs'
                    | rparen _ => simp [eraseExpr, normExprE, normExpr] at hs'
          · exfalso
            simp only [hvb, Bool.false_eq_true, if_false] at h
            cases hrest : workStmts fix (st.err b.start .unknownBlock) xs with
            | mk st2 xs2 =>
              simp only [hrest, Prod.mk.injEq] at h
              obtain ⟨rfl, _⟩ := h
              exact work_err_ne_nil _ _ _ (hem _ _ _ hrest he)
    | lparen _ => exact absurd hx id
    | rparen _ => exact absurd hx id

/-! ### the directive layer rewrites tokens only -/

theorem workBlockLines_noTok (verb : Bytes) (fix : Option Fixer) :
    ∀ (ls : List Line) (st : WorkState), (workBlockLines verb fix st ls).2.map noTokL = ls.map noTokL := by
  intro ls
  induction ls with
  | nil => intro st; rfl
  | cons l ls ih =>
    intro st
    simp only [workBlockLines, List.map_cons, ih]
    rfl

theorem workStmts_noTok (fix : Option Fixer) :
    ∀ (ss : List Expr) (st : WorkState), (workStmts fix st ss).2.map noTok = ss.map noTok := by
  intro ss
  induction ss with
  | nil => intro st; rfl
  | cons x xs ih =>
    intro st
    simp only [workStmts, List.map_cons, ih]
    congr 1
    cases x with
    | line l =>
      simp only
      split
      · rfl
      · rename_i h; simp [noTok, noTokL, h]
    | lineBlock b =>
      simp only
      split
      · split
        · simp only [noTok, workBlockLines_noTok]
        · rfl
      · rfl
    | commentBlock x => rfl
    | lparen x => rfl
    | rparen x => rfl

/-! ### the main theorem -/

/-- ★ `format_preserves_directives` (go.work) for inputs whose syntax tree satisfies `EolCount` (files with
    end-of-line comments): if `ParseWork` accepts `x` as the well-formed file `f`, then it accepts
    `Format(f.Syntax)` as a file with the same directive values — without a fixer, or with a fixer that is
    idempotent on its image and never returns the empty string. -/
theorem format_preserves_directives_work_eol (name x : Bytes) (fix : Option Fixer) (f : WorkFile)
    (h : parseWork name x fix = .ok f) (hc : EolCount f.syn) (hwf : WorkWellFormed f)
    (hfix : FixOK fix) (hne : FixNE fix) :
    ∃ f', parseWork name (format f.syn) fix = .ok f' ∧ workValues f' = workValues f := by
  unfold parseWork at h
  cases hp : parse name x with
  | error e => simp [hp] at h
  | ok fs =>
    simp only [hp] at h
    cases ha : workStmts fix { file := { syn := fs } } fs.stmts with
    | mk st stmts =>
      simp only [ha] at h
      split at h
      · rename_i hemp
        simp only [Except.ok.injEq] at h
        have hest : st.errsRev = [] := by simpa using hemp
        have hf : f = { st.file with syn := { fs with stmts := stmts } } := h.symm
        have hsyn : f.syn = { fs with stmts := stmts } := by rw [hf]
        have hstm : stmts = (workStmts fix { file := { syn := fs } } fs.stmts).2 := by rw [ha]
        have hcfs : EolCount fs := by
          refine ⟨by have := hc.header; rw [hsyn] at this; exact this, ?_⟩
          apply count_of_noTok (ss1 := stmts)
          · rw [hstm]; exact workStmts_noTok fix fs.stmts _
          · have := hc.stmts; rw [hsyn] at this; exact this
        obtain ⟨hwfs, hnls, hcm, hn⟩ := parse_ewf hp (eolOK_of_count hp hcfs)
        have hwfst : WorkWellFormed st.file := by
          rw [hf] at hwf
          exact workWellFormed_syn _ hwf
        obtain ⟨hw1, hn1, _, _, hrep⟩ := workStmts_replayE fix hfix hne fs.stmts _ st stmts ha hest hwfst hwfs hnls
        have hsynw : EWFStmts f.syn.stmts := by rw [hsyn]; exact hw1
        have hsynn : ∀ s ∈ f.syn.stmts, NlOK s := by rw [hsyn]; exact hn1
        have hsync : f.syn.comments.before = [] := by rw [hsyn]; simp [hcm]
        obtain ⟨t', hp', het'⟩ := reparse_ewf name f.syn hsynw hsynn hsync
        have hrel : t'.stmts.map eraseExpr = stmts.map normExprE := by
          have := congrArg FileSyntax.stmts het'
          simpa [eraseFile, hsyn] using this
        have hsim0 : WSim ({ file := { syn := fs } } : WorkState) ({ file := { syn := t' } } : WorkState) :=
          ⟨rfl, rfl, rfl⟩
        obtain ⟨st1', ha', hsim'⟩ := hrep _ t'.stmts hsim0 hrel
        refine ⟨{ st1'.file with syn := { t' with stmts := t'.stmts } }, ?_, ?_⟩
        · unfold parseWork
          simp only [hp', ha']
          simp [hsim'.errs']
        · rw [workValues_syn, ← hsim'.vals, hf]
          rfl
      · cases h

end ModVerif.Proofs.ModfileEol
