/-
  C02, end-of-line comments, stage (i): what `Format` prints for a well-shaped tree whose nodes carry at
  most one end-of-line (suffix) comment each, as a pure function (`rStmtsE`), and the proof that the printer
  with its pending-comment queue (`Printer.comment`, flushed by `Printer.newline`) computes it.

  * `SufOK` — the suffix list of one node: at most one comment, a `//` text, flagged as suffix.
  * `EWFStmts` — `WFStmts` (Proofs/ModfileFmtTree.lean) with the `suffix = []` clauses replaced by `SufOK`
    (comment blocks still carry none; the `)` of a block and the block itself share one slot).
  * `rStmtsE` — the rendered text: as `rStmts`, with ` //comment` appended to a line, to `verb (` and to `)`.
  * `format_eq_rStmtsE` — `format f = rStmtsE f.stmts`.
-/
import ModVerif.Proofs.ModfileFmtRender2
namespace ModVerif.Proofs.ModfileEol
open ModVerif ModVerif.Modfile ModVerif.Proofs.ModfileFmtUtf8
open ModVerif.Proofs.ModfileFmtTok ModVerif.Proofs.ModfileFmtLex ModVerif.Proofs.ModfileFmtLine
open ModVerif.Proofs.ModfileFmtStream ModVerif.Proofs.ModfileFmtTree ModVerif.Proofs.ModfileFmtTrim
open ModVerif.Proofs.ModfileFmtRender

/-! ### shape of trees with end-of-line comments -/

/-- the end-of-line comments of one node: at most one, a `//` text without newline, flagged as suffix -/
def SufOK (cs : List Comment) : Prop := cs.length ≤ 1 ∧ ∀ c ∈ cs, CommentOK c.token ∧ c.suffix = true

theorem sufOK_nil : SufOK [] := ⟨by simp, by intro c h; cases h⟩

structure EWFLine (l : Line) : Prop where
  ne : l.token ≠ []
  tok : ∀ t ∈ l.token, TokText t
  tail : lineTailOK l.token.tail = true
  before : TopBeforeOK l.comments.before
  suffix : SufOK l.comments.suffix
  after : l.comments.after = []
  inBlock : l.inBlock = false

structure EWFBlkLine (allow : Bool) (l : Line) : Prop where
  ne : l.token ≠ []
  tok : ∀ t ∈ l.token, TokText t
  first : l.token.head? ≠ some [41]
  before : BlkBeforeOK allow l.comments.before
  suffix : SufOK l.comments.suffix
  after : l.comments.after = []
  inBlock : l.inBlock = true

def EWFBlkLines : Bool → List Line → Prop
  | _, [] => True
  | allow, l :: ls => EWFBlkLine allow l ∧ EWFBlkLines true ls

structure EWFBlock (b : LineBlock) : Prop where
  ne : b.token ≠ []
  tok : ∀ t ∈ b.token, TokText t
  before : TopBeforeOK b.comments.before
  after : b.comments.after = []
  lbefore : b.lparen.comments.before = []
  lsuffix : SufOK b.lparen.comments.suffix
  lafter : b.lparen.comments.after = []
  lines : EWFBlkLines false b.lines
  rbefore : BlkBeforeOK (!b.lines.isEmpty) b.rparen.comments.before
  rsuffix : SufOK (b.rparen.comments.suffix ++ b.comments.suffix)
  rafter : b.rparen.comments.after = []

def EWFStmt : Expr → Prop
  | .commentBlock x => x.comments.before ≠ [] ∧ TopBeforeOK x.comments.before ∧
      x.comments.suffix = [] ∧ x.comments.after = []
  | .line l => EWFLine l
  | .lineBlock b => EWFBlock b
  | _ => False

def EWFStmts (stmts : List Expr) : Prop := ∀ s ∈ stmts, EWFStmt s

/-! ### the rendered text -/

/-- the end-of-line comment of a node: a blank and the trimmed text -/
def rSuf : List Comment → Bytes
  | [c] => 32 :: GoStrings.trimSpace c.token
  | _ => []

/-- a block line, preceded by the newline that ends the previous line -/
def rLineE (l : Line) : Bytes :=
  10 :: (rBefore 1 l.comments.before ++ (9 :: (tokStr l.token [] ++ rSuf l.comments.suffix)))

def rBlockE (b : LineBlock) : Bytes :=
  rBefore 0 b.comments.before ++ (tokStr b.token [] ++ (32 :: 40 :: (rSuf b.lparen.comments.suffix ++
    (b.lines.flatMap rLineE ++ (10 :: (rBefore 0 b.rparen.comments.before ++
      (41 :: rSuf (b.rparen.comments.suffix ++ b.comments.suffix))))))))

def rStmtE : Expr → Bytes
  | .commentBlock x => rBefore 0 x.comments.before
  | .line l => rBefore 0 l.comments.before ++ (tokStr l.token [] ++ (rSuf l.comments.suffix ++ [10]))
  | .lineBlock b => rBlockE b ++ [10]
  | _ => []

def rStmtsE : List Expr → Bytes
  | [] => []
  | [s] => rStmtE s
  | s :: rest => rStmtE s ++ 10 :: rStmtsE rest

/-! ### `newline` with a pending end-of-line comment -/

theorem trim_midq (y : UInt8) (r : Bytes) (q : List Comment) (m : Nat) (hy : OKByte y) :
    Printer.trim ⟨y :: r, q, m⟩ = ⟨y :: r, q, m⟩ := by
  obtain ⟨h1, h2, _⟩ := hy
  have : (y == 9 || y == 32) = false := by simp [h1, h2]
  simp [Printer.trim, List.dropWhile, this]

theorem sufOK_cases {cs : List Comment} (h : SufOK cs) :
    cs = [] ∨ ∃ c, cs = [c] ∧ CommentOK c.token ∧ c.suffix = true := by
  obtain ⟨hl, hc⟩ := h
  cases cs with
  | nil => exact Or.inl rfl
  | cons c r =>
    cases r with
    | nil => exact Or.inr ⟨c, rfl, hc c (by simp)⟩
    | cons d r2 => simp at hl

/-- `newline` from the middle of a line, with at most one pending comment -/
theorem newline_flush {buf : Bytes} (hm : MidOK buf) (q : List Comment) (hq : SufOK q) (m : Nat) :
    Printer.newline ⟨buf, q, m⟩ = ⟨tabs m ++ 10 :: ((rSuf q).reverse ++ buf), [], m⟩ ∧
      MidOK ((rSuf q).reverse ++ buf) := by
  rcases sufOK_cases hq with rfl | ⟨c, rfl, hok, _⟩
  · exact ⟨by simpa [rSuf] using newline_midOK hm m, by simpa [rSuf] using hm⟩
  · obtain ⟨_, hlast⟩ := commentOK_lastOK hok
    obtain ⟨y, r, hrev, hy⟩ := hlast.rev
    have hmid : MidOK ((rSuf [c]).reverse ++ buf) := by
      refine ⟨y, r ++ 32 :: buf, ?_, hy⟩
      simp [rSuf, hrev]
    refine ⟨?_, hmid⟩
    have h10 : y ≠ 10 := hy.2.2
    unfold Printer.newline
    simp only [List.isEmpty_cons, Bool.false_eq_true, if_false, Printer.flushComments, if_true,
      Printer.writeByte, Printer.write]
    rw [hrev]
    simp only [List.cons_append, trim_midq y _ [] m hy]
    split
    · rename_i heq; simp at heq
    · rename_i heq
      simp only [List.cons.injEq] at heq
      exact absurd heq.1 h10
    · simp [Printer.tabs, rSuf, hrev, tabs]

/-! ### block lines -/

/-- one block line (after the newline that ends the previous line, which flushes the pending comment) -/
theorem exprLine_blkE (l : Line) (allow : Bool) (buf : Bytes) (hm : MidOK buf) (q : List Comment) (hq : SufOK q)
    (hl : EWFBlkLine allow l) :
    Printer.exprLine (Printer.newline ⟨buf, q, 1⟩) l =
      ⟨(tokStr l.token []).reverse ++ (9 :: ((rBefore 1 l.comments.before).reverse ++ 10 :: ((rSuf q).reverse ++ buf))),
        l.comments.suffix, 1⟩ ∧
      MidOK ((tokStr l.token []).reverse ++ (9 :: ((rBefore 1 l.comments.before).reverse ++ 10 :: ((rSuf q).reverse ++ buf)))) := by
  obtain ⟨hnl, hm2⟩ := newline_flush hm q hq 1
  have hclean := hm2.clean
  obtain ⟨h1, _, _⟩ := emitBefore_eq l.comments.before 1 allow (10 :: ((rSuf q).reverse ++ buf)) hclean.bol
    (prBefore_of_blk _ _ hl.before) (fun _ => hclean)
  have hlast := tokStr_lastOK l.token [] hl.ne hl.tok
  refine ⟨?_, midOK_of_lastOK hlast _⟩
  unfold Printer.exprLine
  rw [hnl, h1, tokens_eq]
  simp [Printer.queueSuffix, Printer.write, tabs]

/-- the text of the lines of a block, where `q` is the comment pending when the first line starts -/
theorem exprLines_eqE : ∀ (ls : List Line) (allow : Bool) (buf : Bytes) (q : List Comment), MidOK buf → SufOK q →
    EWFBlkLines allow ls →
    ∃ buf' q', Printer.exprLines ⟨buf, q, 1⟩ ls = ⟨buf', q', 1⟩ ∧ MidOK buf' ∧ SufOK q' ∧
      (rSuf q').reverse ++ buf' = (ls.flatMap rLineE).reverse ++ ((rSuf q).reverse ++ buf) := by
  intro ls
  induction ls with
  | nil => intro _ buf q hm hq _; exact ⟨buf, q, by simp [Printer.exprLines], hm, hq, by simp⟩
  | cons l ls ih =>
    intro allow buf q hm hq hwf
    obtain ⟨hl, hls⟩ := hwf
    obtain ⟨h1, h2⟩ := exprLine_blkE l allow buf hm q hq hl
    obtain ⟨buf', q', h3, h4, h5, h6⟩ := ih true _ l.comments.suffix h2 hl.suffix hls
    refine ⟨buf', q', ?_, h4, h5, ?_⟩
    · simp only [Printer.exprLines]
      rw [h1, h3]
    · rw [h6]
      simp [rLineE]

/-! ### blocks -/

theorem sufOK_of_append_left {a b : List Comment} (h : SufOK (a ++ b)) : SufOK a :=
  ⟨by have := h.1; simp at this; omega, fun c hc => h.2 c (by simp [hc])⟩

/-- a block statement, from the beginning of a line at margin 0, leaves the comment of `)` pending -/
theorem exprLineBlock_eqE (b : LineBlock) (base : Bytes) (hb : BOL base) (hwf : EWFBlock b) :
    ∃ buf', Printer.exprLineBlock ⟨base, [], 0⟩ b = ⟨buf', b.rparen.comments.suffix ++ b.comments.suffix, 0⟩ ∧
      MidOK buf' ∧
      (rSuf (b.rparen.comments.suffix ++ b.comments.suffix)).reverse ++ buf' = (rBlockE b).reverse ++ base := by
  -- comments before the block
  obtain ⟨h1, hbol1, _⟩ := emitBefore_eq b.comments.before 0 false base hb (prBefore_of_top _ _ hwf.before)
    (by intro h; cases h)
  simp only [tabs_zero, List.nil_append] at h1
  -- header, blank, `(`
  let buf1 : Bytes := 40 :: 32 :: ((tokStr b.token []).reverse ++ ((rBefore 0 b.comments.before).reverse ++ base))
  have hm1 : MidOK buf1 := ⟨40, _, rfl, by refine ⟨?_, ?_, ?_⟩ <;> decide⟩
  -- the lines
  obtain ⟨buf2, q2, h2, hm2, hq2, hr2⟩ := exprLines_eqE b.lines false buf1 b.lparen.comments.suffix hm1 hwf.lsuffix hwf.lines
  -- the newline before `)` and the comments before it
  obtain ⟨hnl, hm3⟩ := newline_flush hm2 q2 hq2 0
  have hclean3 : Clean1 (10 :: ((rSuf q2).reverse ++ buf2)) := hm3.clean
  obtain ⟨h3, _, _⟩ := emitBefore_eq b.rparen.comments.before 0 (!b.lines.isEmpty) (10 :: ((rSuf q2).reverse ++ buf2))
    hclean3.bol (prBefore_of_blk _ _ hwf.rbefore) (fun _ => hclean3)
  simp only [tabs_zero, List.nil_append] at h3 hnl
  refine ⟨41 :: ((rBefore 0 b.rparen.comments.before).reverse ++ 10 :: ((rSuf q2).reverse ++ buf2)), ?_,
    ⟨41, _, rfl, by refine ⟨?_, ?_, ?_⟩ <;> decide⟩, ?_⟩
  · unfold Printer.exprLineBlock
    simp only [h1, tokens_eq, Printer.exprLParen, Printer.exprRParen]
    have e1 : Printer.emitBefore
        (Printer.writeByte (Printer.write ⟨(rBefore 0 b.comments.before).reverse ++ base, [], 0⟩ (tokStr b.token [])) 32)
        b.lparen.comments.before =
        ⟨32 :: ((tokStr b.token []).reverse ++ ((rBefore 0 b.comments.before).reverse ++ base)), [], 0⟩ := by
      simp [hwf.lbefore, Printer.emitBefore, Printer.writeByte, Printer.write]
    simp only [e1]
    have e2 : ({ (Printer.queueSuffix (Printer.writeByte ⟨32 :: ((tokStr b.token []).reverse ++ ((rBefore 0 b.comments.before).reverse ++ base)), [], 0⟩ 40) b.lparen.comments.suffix) with
        margin := (Printer.queueSuffix (Printer.writeByte ⟨32 :: ((tokStr b.token []).reverse ++ ((rBefore 0 b.comments.before).reverse ++ base)), [], 0⟩ 40) b.lparen.comments.suffix).margin + 1 } : Printer) =
        ⟨buf1, b.lparen.comments.suffix, 1⟩ := by
      simp [Printer.queueSuffix, Printer.writeByte, buf1]
    simp only [e2, h2]
    have e3 : ({ (⟨buf2, q2, 1⟩ : Printer) with margin := (⟨buf2, q2, 1⟩ : Printer).margin - 1 } : Printer) = ⟨buf2, q2, 0⟩ := rfl
    simp only [e3, hnl, h3]
    simp [Printer.queueSuffix, Printer.writeByte]
  · rw [hr2]
    simp [rBlockE, buf1]

/-! ### statements and files -/

/-- one statement, including the newline that ends it -/
theorem stmt_eqE (s : Expr) (base : Bytes) (hb : BOL base) (hwf : EWFStmt s) :
    (match s with
     | .commentBlock x => Printer.exprCommentBlock ⟨base, [], 0⟩ x
     | s => (Printer.expr ⟨base, [], 0⟩ s).newline) = ⟨(rStmtE s).reverse ++ base, [], 0⟩ ∧
      Clean1 ((rStmtE s).reverse ++ base) ∧ s.comments.after = [] := by
  cases s with
  | commentBlock x =>
    obtain ⟨hne, hbefore, hsuf, haft⟩ := hwf
    obtain ⟨h1, _, h3⟩ := emitBefore_eq x.comments.before 0 false base hb (prBefore_of_top _ _ hbefore)
      (by intro h; cases h)
    simp only [tabs_zero, List.nil_append] at h1
    refine ⟨?_, h3 (lastReal_top hne hbefore), haft⟩
    simp only [Printer.exprCommentBlock, h1, hsuf, queueSuffix_nil, rStmtE]
  | line l =>
    have hwf : EWFLine l := hwf
    obtain ⟨h1, _, _⟩ := emitBefore_eq l.comments.before 0 false base hb (prBefore_of_top _ _ hwf.before)
      (by intro h; cases h)
    simp only [tabs_zero, List.nil_append] at h1
    have hlast := tokStr_lastOK l.token [] hwf.ne hwf.tok
    have hm : MidOK ((tokStr l.token []).reverse ++ ((rBefore 0 l.comments.before).reverse ++ base)) :=
      midOK_of_lastOK hlast _
    obtain ⟨hnl, hm2⟩ := newline_flush hm l.comments.suffix hwf.suffix 0
    have hr : (rStmtE (.line l)).reverse ++ base =
        10 :: ((rSuf l.comments.suffix).reverse ++
          ((tokStr l.token []).reverse ++ ((rBefore 0 l.comments.before).reverse ++ base))) := by
      simp [rStmtE]
    refine ⟨?_, by rw [hr]; exact hm2.clean, hwf.after⟩
    simp only [Printer.expr, Printer.exprLine, h1, tokens_eq, Printer.write, Printer.queueSuffix, List.nil_append]
    rw [hnl, hr]
    rfl
  | lineBlock b =>
    have hwf : EWFBlock b := hwf
    obtain ⟨buf', h1, hm, hr1⟩ := exprLineBlock_eqE b base hb hwf
    obtain ⟨hnl, hm2⟩ := newline_flush hm _ hwf.rsuffix 0
    have hr : (rStmtE (.lineBlock b)).reverse ++ base = 10 :: ((rBlockE b).reverse ++ base) := by
      simp [rStmtE]
    refine ⟨?_, by rw [hr, ← hr1]; exact hm2.clean, hwf.after⟩
    simp only [Printer.expr, h1]
    rw [hnl, hr, ← hr1]
    rfl
  | lparen x => exact absurd hwf id
  | rparen x => exact absurd hwf id

theorem stmts_eqE : ∀ (ss : List Expr) (base : Bytes), BOL base → EWFStmts ss →
    Printer.stmts ⟨base, [], 0⟩ ss = ⟨(rStmtsE ss).reverse ++ base, [], 0⟩ ∧
      (ss ≠ [] → Clean1 ((rStmtsE ss).reverse ++ base)) := by
  intro ss
  induction ss with
  | nil => intro base _ _; exact ⟨by simp [Printer.stmts, rStmtsE], fun h => absurd rfl h⟩
  | cons s rest ih =>
    intro base hb hwf
    obtain ⟨h1, hc1, haft⟩ := stmt_eqE s base hb (hwf s (by simp))
    cases rest with
    | nil =>
      refine ⟨?_, fun _ => by simpa [rStmtsE] using hc1⟩
      unfold Printer.stmts
      simp only [haft, commentLines_nil, List.isEmpty_nil, if_true, Printer.stmts, rStmtsE]
      exact h1
    | cons r rs =>
      have hsep : Printer.newline ⟨(rStmtE s).reverse ++ base, [], 0⟩ = ⟨10 :: ((rStmtE s).reverse ++ base), [], 0⟩ := by
        have := newline_bol 0 0 _ hc1
        simpa [tabs_zero] using this
      obtain ⟨h2, hc2⟩ := ih (10 :: ((rStmtE s).reverse ++ base)) (Or.inr ⟨_, rfl⟩) (fun x h => hwf x (by simp [h]))
      have hr : (rStmtsE (s :: r :: rs)).reverse ++ base = (rStmtsE (r :: rs)).reverse ++ 10 :: ((rStmtE s).reverse ++ base) := by
        simp [rStmtsE]
      refine ⟨?_, fun _ => by rw [hr]; exact hc2 (by simp)⟩
      conv => lhs; unfold Printer.stmts
      simp only [haft, commentLines_nil, List.isEmpty_cons, Bool.false_eq_true, if_false, hr]
      exact (congrArg (fun p => (Printer.newline p).stmts (r :: rs)) h1).trans (by rw [hsep, h2])

/-- ★ stage (i): what `Format` prints for a well-shaped tree with end-of-line comments (at most one per node)
    and without header comments: `rStmtsE`.  The printer's pending-comment queue (`Printer.comment`, filled by
    `queueSuffix`, flushed by `newline`) computes exactly the `rSuf` pieces of the rendered text. -/
theorem format_eq_rStmtsE (f : FileSyntax) (hwf : EWFStmts f.stmts) (hc : f.comments.before = []) :
    format f = rStmtsE f.stmts := by
  obtain ⟨h1, h2⟩ := stmts_eqE f.stmts [] (Or.inl rfl) hwf
  unfold format Printer.file
  simp only [hc, commentLines_nil]
  have : (({} : Printer)) = ⟨[], [], 0⟩ := rfl
  rw [this, h1]
  simp only [List.append_nil]
  rw [ModfilePrint.trimTrailingBlank_of_not_blank]
  · simp
  · by_cases hne : f.stmts = []
    · simp [hne, rStmtsE, ModfilePrint.EndsBlankRev]
    · obtain ⟨y, r, hr, hy⟩ := h2 hne
      simp only [List.append_nil] at hr
      rw [hr]
      unfold ModfilePrint.EndsBlankRev
      split
      · rename_i heq; simp at heq
      · rename_i heq
        simp only [List.cons.injEq, true_and] at heq
        exact absurd heq.1 hy
      · exact id

end ModVerif.Proofs.ModfileEol
