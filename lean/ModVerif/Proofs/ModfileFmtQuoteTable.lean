/-
  C02 stage 2, part a: facts read off the `unicode.IsPrint` / `unicode.IsSpace` tables.
  No printable rune other than the blank is white space, hence every printable rune that is not a
  blank, bracket or comma is an identifier rune of the go.mod lexer.
-/
import ModVerif.Proofs.ModfileFmtLex
namespace ModVerif.Proofs.ModfileFmtQuote
open ModVerif ModVerif.Modfile

/-- the finitely many white-space code points -/
theorem isSpace_cases {r : Nat} (h : UnicodePrint.isSpace r = true) :
    r = 9 ∨ r = 10 ∨ r = 11 ∨ r = 12 ∨ r = 13 ∨ r = 32 ∨ r = 0x85 ∨ r = 0xA0 ∨ r = 0x1680 ∨
    (0x2000 ≤ r ∧ r ≤ 0x200A) ∨ r = 0x2028 ∨ r = 0x2029 ∨ r = 0x202F ∨ r = 0x205F ∨ r = 0x3000 := by
  simp only [UnicodePrint.isSpace, Bool.or_eq_true, Bool.and_eq_true, decide_eq_true_eq, beq_iff_eq] at h
  omega

theorem isPrint_2000 : ∀ k : Fin 11, UnicodePrint.isPrint (0x2000 + k.val) = false := by decide +kernel

/-- a printable white-space rune is the blank -/
theorem isPrint_not_space : ∀ r, UnicodePrint.isPrint r = true → UnicodePrint.isSpace r = true → r = 32 := by
  intro r hp hs
  rcases isSpace_cases hs with h | h | h | h | h | h | h | h | h | h | h | h | h | h | h
  all_goals first
    | exact h
    | (exfalso
       subst h
       revert hp
       decide +kernel)
    | (exfalso
       obtain ⟨h1, h2⟩ := h
       have := isPrint_2000 ⟨r - 0x2000, by omega⟩
       have e : 0x2000 + (r - 0x2000) = r := by omega
       simp only [e] at this
       rw [this] at hp
       cases hp)

example : UnicodePrint.isPrint 32 = true ∧ UnicodePrint.isSpace 32 = true := by decide

/-- a printable rune other than blank, brackets and comma is an identifier rune -/
theorem isIdent_of_print {r : Nat} (hp : UnicodePrint.isPrint r = true)
    (hx : r ∉ [32, 40, 41, 91, 93, 123, 125, 44]) : isIdent r = true := by
  have hns : UnicodePrint.isSpace r = false := by
    cases hs : UnicodePrint.isSpace r with
    | false => rfl
    | true =>
      have := isPrint_not_space r hp hs
      subst this
      simp at hx
  have hx' : r ∉ identExcluded := hx
  simp [isIdent, hx', hns, hp]

example : UnicodePrint.isPrint 97 = true ∧ 97 ∉ [32, 40, 41, 91, 93, 123, 125, 44] := by decide

/-- an identifier rune is printable -/
theorem isPrint_of_isIdent {r : Nat} (h : isIdent r = true) : UnicodePrint.isPrint r = true := by
  unfold isIdent at h
  split at h
  · cases h
  · simp only [Bool.and_eq_true] at h
    exact h.2

example : isIdent 97 = true := by decide

end ModVerif.Proofs.ModfileFmtQuote
