/-
  Helper lemmas for Tie/FnEditSort.lean (part G): `File_Cleanup` / `WorkFile_Cleanup` on a represented heap, relative to
  the tie of `FileSyntax_Cleanup` (hypothesis `hClean`, discharged in Tie/FnEditSort.lean with `FnEditAddLine.Cleanup_tie`).
-/
import ModVerif.Proofs.TieFnEditSortF
set_option linter.unusedSimpArgs false
set_option linter.unusedVariables false
namespace ModVerif.Tie.FnEditSortG
open ModVerif ModVerif.GoRt ModVerif.Generated.Edit ModVerif.Tie.FnEditRep ModVerif.Tie.FnEditSortA ModVerif.Tie.FnEditSortB
  ModVerif.Tie.FnEditSortC ModVerif.Tie.FnEditSortF
open ModVerif.Modfile.Edit (EFile EWork cleanup workCleanup cleanupSyntax)

/-- the typed object lists, `mods` and `works` are untouched -/
structure SFrame (h h' : Heap) : Prop where
  excludes : h'.excludes = h.excludes
  mods : h'.mods = h.mods
  gos : h'.gos = h.gos
  godebugs : h'.godebugs = h.godebugs
  modules : h'.modules = h.modules
  replaces : h'.replaces = h.replaces
  requires : h'.requires = h.requires
  retracts : h'.retracts = h.retracts
  tools : h'.tools = h.tools
  toolchains : h'.toolchains = h.toolchains
  uses : h'.uses = h.uses
  works : h'.works = h.works

/-- the statement of the `FileSyntax.Cleanup` tie used here -/
def CleanHyp (cleanFuel : Modfile.FileSyntax → Nat) : Prop :=
  ∀ (h : Heap) (x : Int) (fs : Modfile.FileSyntax) (fuel : Nat), RepSyn h x fs → BlockTokOK fs.stmts → cleanFuel fs ≤ fuel →
    ∃ h', FileSyntax_Cleanup fuel x h = .ok ((), h') ∧ RepSyn h' x (cleanupSyntax fs) ∧ BlockTokOK (cleanupSyntax fs).stmts ∧
      (LinesG h → LinesG h') ∧ h'.lines.length = h.lines.length ∧ SFrame h h'

theorem not_decide_nil (l : Bytes) [inst : Decidable (l = [])] : (!@decide (l = []) inst) = !l.isEmpty := by
  cases l <;> simp

theorem retract_live_eq (lo hi : Bytes) :
    (if (!decide (lo = [])) = true then Except.ok true else Except.ok (!decide (hi = []))) =
      (Except.ok (!lo.isEmpty || !hi.isEmpty) : M Bool) := by
  cases lo <;> cases hi <;> rfl

/-- one compaction phase on the `File` object: the loop and the slice bound -/
theorem phaseF {β : Type} (live : Heap → Int → M Bool) (getF : File → List Int) (setF : File → List Int → File)
    (hgs : ∀ o l, getF (setF o l) = l) (hss : ∀ o l l', setF (setF o l) l' = setF o l') (hsg : ∀ o, setF o (getF o) = o)
    (q : β → Bool) (h : Heap) (f : Int) (o0 : File) (ho : heapGet h.mods f = .ok o0) (o : File)
    (zs : List (Int × β)) (hrx : getF o = zs.map (·.1)) (fuel : Nat) (hf : zs.length < fuel)
    (hlive : ∀ ms, ∀ z ∈ zs, live { h with mods := ms } z.1 = .ok (q z.2)) :
    ∃ (cur' : List Int) (n : Nat),
      compactF live getF setF (getF o) f fuel 0 { h with mods := h.mods.set (f.toNat - 1) o } 0 =
        .ok (len (getF o), { h with mods := h.mods.set (f.toNat - 1) (setF o cur') }, (n : Int)) ∧
      sliceTo cur' (n : Int) = .ok ((zs.filter (fun z => q z.2)).map (·.1)) := by
  obtain ⟨cur', e1, e2, e3⟩ := compactF_spec live getF setF hgs hss q h f o0 ho o zs [] (getF o) 0 fuel (getF o) 0
    (by simpa using hrx) rfl hf hlive rfl (Nat.le_refl _)
  rw [hsg] at e1
  refine ⟨cur', _, e1, ?_⟩
  simp only [Nat.zero_add, List.take_zero, List.nil_append] at e3
  have hle : (zs.filter (fun z => q z.2)).length ≤ cur'.length := by
    rw [e2, hrx, List.length_map]; exact List.length_filter_le _ _
  have : (0 : Int) ≤ ((0 + (zs.filter (fun z => q z.2)).length : Nat) : Int) ∧
      ((0 + (zs.filter (fun z => q z.2)).length : Nat) : Int) ≤ len cur' := by simp [len_eq]; omega
  simp only [sliceTo, this, and_self, if_true, pure, Except.pure]
  simp [e3]

theorem phaseW {β : Type} (live : Heap → Int → M Bool) (getF : WorkFile → List Int) (setF : WorkFile → List Int → WorkFile)
    (hgs : ∀ o l, getF (setF o l) = l) (hss : ∀ o l l', setF (setF o l) l' = setF o l') (hsg : ∀ o, setF o (getF o) = o)
    (q : β → Bool) (h : Heap) (f : Int) (o0 : WorkFile) (ho : heapGet h.works f = .ok o0) (o : WorkFile)
    (zs : List (Int × β)) (hrx : getF o = zs.map (·.1)) (fuel : Nat) (hf : zs.length < fuel)
    (hlive : ∀ ms, ∀ z ∈ zs, live { h with works := ms } z.1 = .ok (q z.2)) :
    ∃ (cur' : List Int) (n : Nat),
      compactW live getF setF (getF o) f fuel 0 { h with works := h.works.set (f.toNat - 1) o } 0 =
        .ok (len (getF o), { h with works := h.works.set (f.toNat - 1) (setF o cur') }, (n : Int)) ∧
      sliceTo cur' (n : Int) = .ok ((zs.filter (fun z => q z.2)).map (·.1)) := by
  obtain ⟨cur', e1, e2, e3⟩ := compactW_spec live getF setF hgs hss q h f o0 ho o zs [] (getF o) 0 fuel (getF o) 0
    (by simpa using hrx) rfl hf hlive rfl (Nat.le_refl _)
  rw [hsg] at e1
  refine ⟨cur', _, e1, ?_⟩
  simp only [Nat.zero_add, List.take_zero, List.nil_append] at e3
  have hle : (zs.filter (fun z => q z.2)).length ≤ cur'.length := by
    rw [e2, hrx, List.length_map]; exact List.length_filter_le _ _
  have : (0 : Int) ≤ ((0 + (zs.filter (fun z => q z.2)).length : Nat) : Int) ∧
      ((0 + (zs.filter (fun z => q z.2)).length : Nat) : Int) ≤ len cur' := by simp [len_eq]; omega
  simp only [sliceTo, this, and_self, if_true, pure, Except.pure]
  simp [e3]

/-- fuel measure of the compaction loops -/
def cleanSize (e : EFile) : Nat :=
  e.f.godebug.length + e.f.require.length + e.f.exclude.length + e.f.replace.length + e.f.retract.length + e.f.tool.length

def workCleanSize (e : EWork) : Nat := e.f.godebug.length + e.f.use.length + e.f.replace.length

theorem ZEnts_length {α β : Type} {objs : List α} {g : β → α} {id : β → Nat} {nl : Nat} {xs : List β} {zs : List (Int × β)}
    (h : xs = zs.map (·.2)) : zs.length = xs.length := by rw [h]; simp

section
variable (cleanFuel : Modfile.FileSyntax → Nat) (hClean : CleanHyp cleanFuel)
include hClean

/-- **`File.Cleanup` on a represented heap is the model's `cleanup`** (relative to the `FileSyntax.Cleanup` tie) -/
theorem File_Cleanup_sim {h : Heap} {fp : Int} {e : EFile} (R : RepF h fp e) (fuel : Nat)
    (hf : cleanSize e < fuel) (hf2 : cleanFuel e.f.syn ≤ fuel) :
    ∃ h', File_Cleanup fuel fp h = .ok ((), h') ∧ RepF h' fp (cleanup e) := by
  obtain ⟨o, ho, R⟩ := R
  obtain ⟨zgd, hgd1, hgd2, hgd3⟩ := REntsL.toZip R.godebug.rel
  obtain ⟨zrq, hrq1, hrq2, hrq3⟩ := REntsL.toZip R.require.rel
  obtain ⟨zex, hex1, hex2, hex3⟩ := REntsL.toZip R.exclude.rel
  obtain ⟨zrp, hrp1, hrp2, hrp3⟩ := REntsL.toZip R.replace.rel
  obtain ⟨zrt, hrt1, hrt2, hrt3⟩ := REntsL.toZip R.retract.rel
  obtain ⟨ztl, htl1, htl2, htl3⟩ := REntsL.toZip R.tool.rel
  unfold cleanSize at hf
  have f1 : zgd.length < fuel := by rw [hgd2] at hf; simp at hf; omega
  have f2 : zrq.length < fuel := by rw [hrq2] at hf; simp at hf; omega
  have f3 : zex.length < fuel := by rw [hex2] at hf; simp at hf; omega
  have f4 : zrp.length < fuel := by rw [hrp2] at hf; simp at hf; omega
  have f5 : zrt.length < fuel := by rw [hrt2] at hf; simp at hf; omega
  have f6 : ztl.length < fuel := by rw [htl2] at hf; simp at hf; omega
  -- phase 1 .. 6, on the heap `{ h with mods := h.mods.set _ o }` (= h)
  have hh : ({ h with mods := h.mods.set (fp.toNat - 1) o } : Heap) = h := by rw [set_self_of_get ho]
  obtain ⟨c1, n1, p1, s1⟩ := phaseF cl1_live (·.Godebug) (fun o l => { o with Godebug := l }) (fun _ _ => rfl) (fun _ _ _ => rfl)
    (fun _ => rfl) (fun x : Modfile.Godebug => !x.key.isEmpty) h fp o ho o zgd hgd1 fuel f1
    (fun ms z hz => by simp only [cl1_live, (hgd3 z hz).1, bind, Except.bind, pure, Except.pure, godebugG_Key]; exact congrArg Except.ok (not_decide_nil _))
  obtain ⟨o1, ho1⟩ : ∃ x : File, x = { o with Godebug := (zgd.filter (fun z => !z.2.key.isEmpty)).map (·.1) } := ⟨_, rfl⟩
  obtain ⟨c2, n2, p2, s2⟩ := phaseF cl2_live (·.Require) (fun o l => { o with Require := l }) (fun _ _ => rfl) (fun _ _ _ => rfl)
    (fun _ => rfl) (fun x : Modfile.Require => !x.mod.path.isEmpty) h fp o ho o1 zrq (by rw [ho1]; exact hrq1) fuel f2
    (fun ms z hz => by simp only [cl2_live, (hrq3 z hz).1, bind, Except.bind, pure, Except.pure, requireG_Mod, mvG_Path]; exact congrArg Except.ok (not_decide_nil _))
  obtain ⟨o2, ho2⟩ : ∃ x : File, x = { o1 with Require := (zrq.filter (fun z => !z.2.mod.path.isEmpty)).map (·.1) } := ⟨_, rfl⟩
  obtain ⟨c3, n3, p3, s3⟩ := phaseF cl3_live (·.Exclude) (fun o l => { o with Exclude := l }) (fun _ _ => rfl) (fun _ _ _ => rfl)
    (fun _ => rfl) (fun x : Modfile.Exclude => !x.mod.path.isEmpty) h fp o ho o2 zex (by rw [ho2, ho1]; exact hex1) fuel f3
    (fun ms z hz => by simp only [cl3_live, (hex3 z hz).1, bind, Except.bind, pure, Except.pure, excludeG_Mod, mvG_Path]; exact congrArg Except.ok (not_decide_nil _))
  obtain ⟨o3, ho3⟩ : ∃ x : File, x = { o2 with Exclude := (zex.filter (fun z => !z.2.mod.path.isEmpty)).map (·.1) } := ⟨_, rfl⟩
  obtain ⟨c4, n4, p4, s4⟩ := phaseF cl4_live (·.Replace) (fun o l => { o with Replace := l }) (fun _ _ => rfl) (fun _ _ _ => rfl)
    (fun _ => rfl) (fun x : Modfile.Replace => !x.old.path.isEmpty) h fp o ho o3 zrp (by rw [ho3, ho2, ho1]; exact hrp1) fuel f4
    (fun ms z hz => by simp only [cl4_live, (hrp3 z hz).1, bind, Except.bind, pure, Except.pure, replaceG_Old, mvG_Path]; exact congrArg Except.ok (not_decide_nil _))
  obtain ⟨o4, ho4⟩ : ∃ x : File, x = { o3 with Replace := (zrp.filter (fun z => !z.2.old.path.isEmpty)).map (·.1) } := ⟨_, rfl⟩
  obtain ⟨c5, n5, p5, s5⟩ := phaseF cl5_live (·.Retract) (fun o l => { o with Retract := l }) (fun _ _ => rfl) (fun _ _ _ => rfl)
    (fun _ => rfl) (fun x : Modfile.Retract => !x.interval.low.isEmpty || !x.interval.high.isEmpty) h fp o ho o4 zrt
    (by rw [ho4, ho3, ho2, ho1]; exact hrt1) fuel f5
    (fun ms z hz => by
      simp only [cl5_live, (hrt3 z hz).1, bind, Except.bind, pure, Except.pure]
      exact retract_live_eq _ _)
  obtain ⟨o5, ho5⟩ : ∃ x : File, x = { o4 with Retract :=
      (zrt.filter (fun z => !z.2.interval.low.isEmpty || !z.2.interval.high.isEmpty)).map (·.1) } := ⟨_, rfl⟩
  obtain ⟨c6, n6, p6, s6⟩ := phaseF cl6_live (·.Tool) (fun o l => { o with Tool := l }) (fun _ _ => rfl) (fun _ _ _ => rfl)
    (fun _ => rfl) (fun x : Modfile.Tool => !x.path.isEmpty) h fp o ho o5 ztl (by rw [ho5, ho4, ho3, ho2, ho1]; exact htl1) fuel f6
    (fun ms z hz => by simp only [cl6_live, (htl3 z hz).1, bind, Except.bind, pure, Except.pure, toolG_Path]; exact congrArg Except.ok (not_decide_nil _))
  obtain ⟨o6, ho6⟩ : ∃ x : File, x = { o5 with Tool := (ztl.filter (fun z => !z.2.path.isEmpty)).map (·.1) } := ⟨_, rfl⟩
  rw [hh] at p1
  rw [ho1] at p2; rw [ho2, ho1] at p3; rw [ho3, ho2, ho1] at p4; rw [ho4, ho3, ho2, ho1] at p5; rw [ho5, ho4, ho3, ho2, ho1] at p6
  dsimp only at p2 p3 p4 p5 p6
  unfold File_Cleanup
  step ho
  rw [cl1_eq]
  step p1
  step (mods_set_get ho _)
  step s1
  step (mods_set_get ho _)
  step (heapSet_listSet_same ho _ _)
  step (mods_set_get ho _)
  rw [cl2_eq]
  step p2
  step (mods_set_get ho _)
  step s2
  step (mods_set_get ho _)
  step (heapSet_listSet_same ho _ _)
  step (mods_set_get ho _)
  rw [cl3_eq]
  step p3
  step (mods_set_get ho _)
  step s3
  step (mods_set_get ho _)
  step (heapSet_listSet_same ho _ _)
  step (mods_set_get ho _)
  rw [cl4_eq]
  step p4
  step (mods_set_get ho _)
  step s4
  step (mods_set_get ho _)
  step (heapSet_listSet_same ho _ _)
  step (mods_set_get ho _)
  rw [cl5_eq]
  step p5
  step (mods_set_get ho _)
  step s5
  step (mods_set_get ho _)
  step (heapSet_listSet_same ho _ _)
  step (mods_set_get ho _)
  rw [cl6_eq]
  step p6
  step (mods_set_get ho _)
  step s6
  step (mods_set_get ho _)
  step (heapSet_listSet_same ho _ _)
  step (mods_set_get ho _)
  obtain ⟨hW, hhW⟩ : ∃ x : Heap, x = { h with mods := h.mods.set (fp.toNat - 1) o6 } := ⟨_, rfl⟩
  have rsW : RepSyn hW o.Syntax e.f.syn := by
    rw [hhW]; refine RepSyn.mono (h := h) ?_ ?_ ?_ ?_ R.syn <;> exact fun _ _ x => x
  obtain ⟨h', c1, c2, c3, c4, c5, F⟩ := hClean hW o.Syntax e.f.syn fuel rsW R.tok hf2
  have hmods : heapGet h'.mods fp = .ok o6 := by rw [F.mods, hhW]; exact mods_set_get ho _
  have hlen : h'.lines.length = h.lines.length := by rw [c5, hhW]
  rw [hhW, ho6, ho5, ho4, ho3, ho2, ho1] at c1
  step c1
  refine ⟨h', rfl, o6, hmods, ?_⟩
  have e6 : o6 = { o with
      Godebug := (zgd.filter (fun z => !z.2.key.isEmpty)).map (·.1)
      Require := (zrq.filter (fun z => !z.2.mod.path.isEmpty)).map (·.1)
      Exclude := (zex.filter (fun z => !z.2.mod.path.isEmpty)).map (·.1)
      Replace := (zrp.filter (fun z => !z.2.old.path.isEmpty)).map (·.1)
      Retract := (zrt.filter (fun z => !z.2.interval.low.isEmpty || !z.2.interval.high.isEmpty)).map (·.1)
      Tool := (ztl.filter (fun z => !z.2.path.isEmpty)).map (·.1) } := by
    rw [ho6, ho5, ho4, ho3, ho2, ho1]
  rw [e6]
  have hW_godebugs : hW.godebugs = h.godebugs := by rw [hhW]
  have hW_requires : hW.requires = h.requires := by rw [hhW]
  have hW_excludes : hW.excludes = h.excludes := by rw [hhW]
  have hW_replaces : hW.replaces = h.replaces := by rw [hhW]
  have hW_retracts : hW.retracts = h.retracts := by rw [hhW]
  have hW_tools : hW.tools = h.tools := by rw [hhW]
  have hW_modules : hW.modules = h.modules := by rw [hhW]
  have hW_gos : hW.gos = h.gos := by rw [hhW]
  have hW_toolchains : hW.toolchains = h.toolchains := by rw [hhW]
  exact {
    syn := c2
    tok := c3
    linesG := c4 (by rw [hhW]; exact fun t ht => R.linesG t ht)
    next := by rw [hlen]; exact R.next
    module := by rw [F.modules, hW_modules, hlen]; exact R.module
    go := by rw [F.gos, hW_gos, hlen]; exact R.go
    toolchain := by rw [F.toolchains, hW_toolchains, hlen]; exact R.toolchain
    godebug := by
      rw [F.godebugs, hW_godebugs, hlen]
      show REnts h.godebugs godebugG (·.lineId) h.lines.length _ (e.f.godebug.filter _)
      rw [hgd2]; exact REnts.filterZip hgd3 (by rw [← hgd1]; exact R.godebug.nodup) (fun x => !x.key.isEmpty)
    require := by
      rw [F.requires, hW_requires, hlen]
      show REnts h.requires requireG (·.lineId) h.lines.length _ (e.f.require.filter _)
      rw [hrq2]; exact REnts.filterZip hrq3 (by rw [← hrq1]; exact R.require.nodup) (fun x => !x.mod.path.isEmpty)
    exclude := by
      rw [F.excludes, hW_excludes, hlen]
      show REnts h.excludes excludeG (·.lineId) h.lines.length _ (e.f.exclude.filter _)
      rw [hex2]; exact REnts.filterZip hex3 (by rw [← hex1]; exact R.exclude.nodup) (fun x => !x.mod.path.isEmpty)
    replace := by
      rw [F.replaces, hW_replaces, hlen]
      show REnts h.replaces replaceG (·.lineId) h.lines.length _ (e.f.replace.filter _)
      rw [hrp2]; exact REnts.filterZip hrp3 (by rw [← hrp1]; exact R.replace.nodup) (fun x => !x.old.path.isEmpty)
    retract := by
      rw [F.retracts, hW_retracts, hlen]
      show REnts h.retracts retractG (·.lineId) h.lines.length _ (e.f.retract.filter _)
      rw [hrt2]; exact REnts.filterZip hrt3 (by rw [← hrt1]; exact R.retract.nodup)
        (fun x => !x.interval.low.isEmpty || !x.interval.high.isEmpty)
    tool := by
      rw [F.tools, hW_tools, hlen]
      show REnts h.tools toolG (·.lineId) h.lines.length _ (e.f.tool.filter _)
      rw [htl2]; exact REnts.filterZip htl3 (by rw [← htl1]; exact R.tool.nodup) (fun x => !x.path.isEmpty) }

/-- **`WorkFile.Cleanup` on a represented heap is the model's `workCleanup`** (relative to the `FileSyntax.Cleanup` tie) -/
theorem WorkFile_Cleanup_sim {h : Heap} {fp : Int} {e : EWork} (R : RepW h fp e) (fuel : Nat)
    (hf : workCleanSize e < fuel) (hf2 : cleanFuel e.f.syn ≤ fuel) :
    ∃ h', WorkFile_Cleanup fuel fp h = .ok ((), h') ∧ RepW h' fp (workCleanup e) := by
  obtain ⟨o, ho, R⟩ := R
  obtain ⟨zgd, hgd1, hgd2, hgd3⟩ := REntsL.toZip R.godebug.rel
  obtain ⟨zus, hus1, hus2, hus3⟩ := REntsL.toZip R.use.rel
  obtain ⟨zrp, hrp1, hrp2, hrp3⟩ := REntsL.toZip R.replace.rel
  unfold workCleanSize at hf
  have f1 : zgd.length < fuel := by rw [hgd2] at hf; simp at hf; omega
  have f2 : zus.length < fuel := by rw [hus2] at hf; simp at hf; omega
  have f3 : zrp.length < fuel := by rw [hrp2] at hf; simp at hf; omega
  have hh : ({ h with works := h.works.set (fp.toNat - 1) o } : Heap) = h := by rw [set_self_of_get ho]
  obtain ⟨c1, n1, p1, s1⟩ := phaseW wcl1_live (·.Godebug) (fun o l => { o with Godebug := l }) (fun _ _ => rfl) (fun _ _ _ => rfl)
    (fun _ => rfl) (fun x : Modfile.Godebug => !x.key.isEmpty) h fp o ho o zgd hgd1 fuel f1
    (fun ms z hz => by simp only [wcl1_live, (hgd3 z hz).1, bind, Except.bind, pure, Except.pure, godebugG_Key]; exact congrArg Except.ok (not_decide_nil _))
  obtain ⟨o1, ho1⟩ : ∃ x : WorkFile, x = { o with Godebug := (zgd.filter (fun z => !z.2.key.isEmpty)).map (·.1) } := ⟨_, rfl⟩
  obtain ⟨c2, n2, p2, s2⟩ := phaseW wcl2_live (·.Use) (fun o l => { o with Use := l }) (fun _ _ => rfl) (fun _ _ _ => rfl)
    (fun _ => rfl) (fun x : Modfile.Use => !x.path.isEmpty) h fp o ho o1 zus (by rw [ho1]; exact hus1) fuel f2
    (fun ms z hz => by simp only [wcl2_live, (hus3 z hz).1, bind, Except.bind, pure, Except.pure, useG_Path]; exact congrArg Except.ok (not_decide_nil _))
  obtain ⟨o2, ho2⟩ : ∃ x : WorkFile, x = { o1 with Use := (zus.filter (fun z => !z.2.path.isEmpty)).map (·.1) } := ⟨_, rfl⟩
  obtain ⟨c3, n3, p3, s3⟩ := phaseW wcl3_live (·.Replace) (fun o l => { o with Replace := l }) (fun _ _ => rfl) (fun _ _ _ => rfl)
    (fun _ => rfl) (fun x : Modfile.Replace => !x.old.path.isEmpty) h fp o ho o2 zrp (by rw [ho2, ho1]; exact hrp1) fuel f3
    (fun ms z hz => by simp only [wcl3_live, (hrp3 z hz).1, bind, Except.bind, pure, Except.pure, replaceG_Old, mvG_Path]; exact congrArg Except.ok (not_decide_nil _))
  obtain ⟨o3, ho3⟩ : ∃ x : WorkFile, x = { o2 with Replace := (zrp.filter (fun z => !z.2.old.path.isEmpty)).map (·.1) } := ⟨_, rfl⟩
  rw [hh] at p1
  rw [ho1] at p2; rw [ho2, ho1] at p3
  dsimp only at p2 p3
  unfold WorkFile_Cleanup
  step ho
  rw [wcl1_eq]
  step p1
  step (works_set_get ho _)
  step s1
  step (works_set_get ho _)
  step (heapSet_listSet_same ho _ _)
  step (works_set_get ho _)
  rw [wcl2_eq]
  step p2
  step (works_set_get ho _)
  step s2
  step (works_set_get ho _)
  step (heapSet_listSet_same ho _ _)
  step (works_set_get ho _)
  rw [wcl3_eq]
  step p3
  step (works_set_get ho _)
  step s3
  step (works_set_get ho _)
  step (heapSet_listSet_same ho _ _)
  step (works_set_get ho _)
  obtain ⟨hW, hhW⟩ : ∃ x : Heap, x = { h with works := h.works.set (fp.toNat - 1) o3 } := ⟨_, rfl⟩
  have rsW : RepSyn hW o.Syntax e.f.syn := by
    rw [hhW]; refine RepSyn.mono (h := h) ?_ ?_ ?_ ?_ R.syn <;> exact fun _ _ x => x
  obtain ⟨h', c1, c2, c3, c4, c5, F⟩ := hClean hW o.Syntax e.f.syn fuel rsW R.tok hf2
  have hworks : heapGet h'.works fp = .ok o3 := by rw [F.works, hhW]; exact works_set_get ho _
  have hlen : h'.lines.length = h.lines.length := by rw [c5, hhW]
  rw [hhW, ho3, ho2, ho1] at c1
  step c1
  refine ⟨h', rfl, o3, hworks, ?_⟩
  have e3 : o3 = { o with
      Godebug := (zgd.filter (fun z => !z.2.key.isEmpty)).map (·.1)
      Use := (zus.filter (fun z => !z.2.path.isEmpty)).map (·.1)
      Replace := (zrp.filter (fun z => !z.2.old.path.isEmpty)).map (·.1) } := by
    rw [ho3, ho2, ho1]
  rw [e3]
  have hW_godebugs : hW.godebugs = h.godebugs := by rw [hhW]
  have hW_uses : hW.uses = h.uses := by rw [hhW]
  have hW_replaces : hW.replaces = h.replaces := by rw [hhW]
  have hW_gos : hW.gos = h.gos := by rw [hhW]
  have hW_toolchains : hW.toolchains = h.toolchains := by rw [hhW]
  exact {
    syn := c2
    tok := c3
    linesG := c4 (by rw [hhW]; exact fun t ht => R.linesG t ht)
    next := by rw [hlen]; exact R.next
    go := by rw [F.gos, hW_gos, hlen]; exact R.go
    toolchain := by rw [F.toolchains, hW_toolchains, hlen]; exact R.toolchain
    godebug := by
      rw [F.godebugs, hW_godebugs, hlen]
      show REnts h.godebugs godebugG (·.lineId) h.lines.length _ (e.f.godebug.filter _)
      rw [hgd2]; exact REnts.filterZip hgd3 (by rw [← hgd1]; exact R.godebug.nodup) (fun x => !x.key.isEmpty)
    use := by
      rw [F.uses, hW_uses, hlen]
      show REnts h.uses useG (·.lineId) h.lines.length _ (e.f.use.filter _)
      rw [hus2]; exact REnts.filterZip hus3 (by rw [← hus1]; exact R.use.nodup) (fun x => !x.path.isEmpty)
    replace := by
      rw [F.replaces, hW_replaces, hlen]
      show REnts h.replaces replaceG (·.lineId) h.lines.length _ (e.f.replace.filter _)
      rw [hrp2]; exact REnts.filterZip hrp3 (by rw [← hrp1]; exact R.replace.nodup) (fun x => !x.old.path.isEmpty) }
end

end ModVerif.Tie.FnEditSortG
