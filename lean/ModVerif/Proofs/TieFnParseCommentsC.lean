/-
  Helper lemmas for Tie/FnParseComments.lean, part C (pure, hand model only): the three passes of assignComments as ONE
  generic traversal `travStmts o F` (order `o` of the nodes inside a block, node function `F` on span / comments / the
  threaded comment list), and the model's walks (`preStmts`, `postStmtsRev`) expressed by it:

    preStmts              = travStmts .pre   F1          (whole-line comments, preorder)
    postStmtsRev ss suf   = map rev3 ∘ travStmts .rpost F2   (suffix comments, postorder backwards, then reversal)
    travStmts .post F3    = map rev3                    (`reverseComments` on every node, postorder)
-/
import ModVerif.Model.Modfile.Comments
set_option linter.unusedSimpArgs false
set_option linter.unusedVariables false
namespace ModVerif.TieFnParseComments
open ModVerif ModVerif.Modfile

/-- what a pass does at one node: (span, comments of the node, remaining comment list) ↦ (new comments, remaining) -/
abbrev NodeF := (Position × Position) → Comments → List Comment → Comments × List Comment

/-- node order inside a block: preorder `x ( lines )`, postorder backwards `x ) lines⁻¹ (`, postorder `( lines ) x` -/
inductive Ord where
  | pre | rpost | post
  deriving DecidableEq, Repr

def travLines (F : NodeF) : List Line → List Comment → List Line × List Comment
  | [], st => ([], st)
  | l :: ls, st =>
    let r := F (l.start, l.«end») l.comments st
    let r2 := travLines F ls r.2
    ({ l with comments := r.1 } :: r2.1, r2.2)

def travStmt (o : Ord) (F : NodeF) (s : Expr) (st : List Comment) : Expr × List Comment :=
  match s with
  | .lineBlock b =>
    match o with
    | .pre =>
      let rb := F (Expr.lineBlock b).span b.comments st
      let rl := F (Expr.lparen b.lparen).span b.lparen.comments rb.2
      let ls := travLines F b.lines rl.2
      let rr := F (Expr.rparen b.rparen).span b.rparen.comments ls.2
      (.lineBlock { b with comments := rb.1, lparen := { b.lparen with comments := rl.1 }, lines := ls.1,
                           rparen := { b.rparen with comments := rr.1 } }, rr.2)
    | .rpost =>
      let rb := F (Expr.lineBlock b).span b.comments st
      let rr := F (Expr.rparen b.rparen).span b.rparen.comments rb.2
      let ls := travLines F b.lines.reverse rr.2
      let rl := F (Expr.lparen b.lparen).span b.lparen.comments ls.2
      (.lineBlock { b with comments := rb.1, lparen := { b.lparen with comments := rl.1 }, lines := ls.1.reverse,
                           rparen := { b.rparen with comments := rr.1 } }, rl.2)
    | .post =>
      let rl := F (Expr.lparen b.lparen).span b.lparen.comments st
      let ls := travLines F b.lines rl.2
      let rr := F (Expr.rparen b.rparen).span b.rparen.comments ls.2
      let rb := F (Expr.lineBlock b).span b.comments rr.2
      (.lineBlock { b with comments := rb.1, lparen := { b.lparen with comments := rl.1 }, lines := ls.1,
                           rparen := { b.rparen with comments := rr.1 } }, rb.2)
  | s =>
    let r := F s.span s.comments st
    (s.setComments r.1, r.2)

def travStmts (o : Ord) (F : NodeF) : List Expr → List Comment → List Expr × List Comment
  | [], st => ([], st)
  | s :: ss, st =>
    let r := travStmt o F s st
    let r2 := travStmts o F ss r.2
    (r.1 :: r2.1, r2.2)

/-! ### pass 1: whole-line comments -/

def F1 : NodeF := fun sp c st => assignBefore sp.1 c st

theorem travLines_F1 : ∀ (ls : List Line) (st : List Comment), travLines F1 ls st = preLines ls st
  | [], st => rfl
  | l :: ls, st => by
    simp only [travLines, preLines, F1, travLines_F1 ls]

theorem travStmt_F1 (s : Expr) (st : List Comment) : travStmt .pre F1 s st = preStmt s st := by
  cases s <;> simp only [travStmt, preStmt, F1, travLines_F1, Expr.span]

theorem travStmts_F1 : ∀ (ss : List Expr) (st : List Comment), travStmts .pre F1 ss st = preStmts ss st
  | [], st => rfl
  | s :: ss, st => by
    simp only [travStmts, preStmts, travStmt_F1, travStmts_F1 ss]

/-! ### pass 2: suffix comments (before the reversal), pass 3: the reversal -/

/-- `assignSuffix` without the final reversal: the taken comments are appended in the order taken (last first) -/
def F2 : NodeF := fun span cs sufRev =>
  if span.1.line != span.2.line then (cs, sufRev) else
  let tr := takeSuffix span.2 [] sufRev
  ({ cs with suffix := cs.suffix ++ tr.1.reverse }, tr.2)

def rev3C (c : Comments) : Comments := { c with suffix := c.suffix.reverse }

def F3 : NodeF := fun _ cs st => (rev3C cs, st)

def rev3Line (l : Line) : Line := { l with comments := rev3C l.comments }

def rev3 : Expr → Expr
  | .lineBlock b => .lineBlock { b with comments := rev3C b.comments, lparen := { b.lparen with comments := rev3C b.lparen.comments },
                                        lines := b.lines.map rev3Line, rparen := { b.rparen with comments := rev3C b.rparen.comments } }
  | s => s.setComments (rev3C s.comments)

theorem assignSuffix_eq (sp : Position × Position) (c : Comments) (suf : List Comment) :
    assignSuffix sp c suf = (rev3C (F2 sp c suf).1, (F2 sp c suf).2) := by
  unfold assignSuffix F2
  by_cases h : (sp.1.line != sp.2.line) = true
  · simp [h, rev3C]
  · simp [h, rev3C]

theorem postLinesRev_eq : ∀ (ls : List Line) (suf : List Comment),
    postLinesRev ls suf = ((travLines F2 ls suf).1.map rev3Line, (travLines F2 ls suf).2)
  | [], st => rfl
  | l :: ls, st => by
    simp only [postLinesRev, travLines, assignSuffix_eq, postLinesRev_eq ls, List.map_cons, rev3Line]

theorem postStmt_eq (s : Expr) (suf : List Comment) :
    postStmt s suf = (rev3 (travStmt .rpost F2 s suf).1, (travStmt .rpost F2 s suf).2) := by
  cases s <;> simp only [travStmt, postStmt, assignSuffix_eq, postLinesRev_eq, rev3, Expr.setComments, Expr.comments,
    List.map_reverse]

theorem postStmtsRev_eq : ∀ (ss : List Expr) (suf : List Comment),
    postStmtsRev ss suf = ((travStmts .rpost F2 ss suf).1.map rev3, (travStmts .rpost F2 ss suf).2)
  | [], st => rfl
  | s :: ss, st => by
    simp only [postStmtsRev, travStmts, postStmt_eq, postStmtsRev_eq ss, List.map_cons]

theorem travLines_F3 : ∀ (ls : List Line) (st : List Comment), travLines F3 ls st = (ls.map rev3Line, st)
  | [], st => rfl
  | l :: ls, st => by simp only [travLines, F3, travLines_F3 ls, List.map_cons, rev3Line]

theorem travStmt_F3 (s : Expr) (st : List Comment) : travStmt .post F3 s st = (rev3 s, st) := by
  cases s <;> simp only [travStmt, F3, travLines_F3, rev3]

theorem travStmts_F3 : ∀ (ss : List Expr) (st : List Comment), travStmts .post F3 ss st = (ss.map rev3, st)
  | [], st => rfl
  | s :: ss, st => by simp only [travStmts, travStmt_F3, travStmts_F3 ss, List.map_cons]

/-- no pass ever lengthens the comment list -/
def Shrinks (F : NodeF) : Prop := ∀ sp c st, (F sp c st).2.length ≤ st.length

theorem takeLine_length (start : Position) : ∀ l : List Comment, (takeLine start l).2.length ≤ l.length
  | [] => by simp [takeLine]
  | c :: rest => by
    unfold takeLine
    split
    · have := takeLine_length start rest
      simp only [List.length_cons]; omega
    · simp

theorem F1_shrinks : Shrinks F1 := by
  intro sp c st
  simp only [F1, assignBefore]
  exact takeLine_length _ _

theorem takeSuffix_length (e : Position) : ∀ (acc l : List Comment), (takeSuffix e acc l).2.length ≤ l.length
  | acc, [] => by simp [takeSuffix]
  | acc, c :: rest => by
    unfold takeSuffix
    split
    · have := takeSuffix_length e (c :: acc) rest
      simp only [List.length_cons]; omega
    · simp

theorem F2_shrinks : Shrinks F2 := by
  intro sp c st
  simp only [F2]
  split
  · simp
  · exact takeSuffix_length _ _ _

theorem F3_shrinks : Shrinks F3 := by
  intro sp c st; simp [F3]

theorem travLines_shrinks {F : NodeF} (hF : Shrinks F) : ∀ (ls : List Line) (st : List Comment),
    (travLines F ls st).2.length ≤ st.length
  | [], st => by simp [travLines]
  | l :: ls, st => by
    simp only [travLines]
    exact Nat.le_trans (travLines_shrinks hF ls _) (hF _ _ _)

theorem travStmt_shrinks {F : NodeF} (hF : Shrinks F) (o : Ord) (s : Expr) (st : List Comment) :
    (travStmt o F s st).2.length ≤ st.length := by
  cases s <;> try exact hF _ _ _
  rename_i b
  cases o <;> simp only [travStmt]
  · exact Nat.le_trans (hF _ _ _) (Nat.le_trans (travLines_shrinks hF _ _) (Nat.le_trans (hF _ _ _) (hF _ _ _)))
  · exact Nat.le_trans (hF _ _ _) (Nat.le_trans (travLines_shrinks hF _ _) (Nat.le_trans (hF _ _ _) (hF _ _ _)))
  · exact Nat.le_trans (hF _ _ _) (Nat.le_trans (hF _ _ _) (Nat.le_trans (travLines_shrinks hF _ _) (hF _ _ _)))


/-- a property of the comments of every node of a statement -/
def StmtP (P : Comments → Prop) : Expr → Prop
  | .lineBlock b => P b.comments ∧ P b.lparen.comments ∧ P b.rparen.comments ∧ ∀ l ∈ b.lines, P l.comments
  | s => P s.comments


/-- number of nodes of a statement list: 1 per comment block / line, 3 + lines per block -/
def nodeCount : List Expr → Nat
  | [] => 0
  | .lineBlock b :: ss => 3 + b.lines.length + nodeCount ss
  | _ :: ss => 1 + nodeCount ss

/-! ### a property of the node comments through a pass -/

theorem travLines_P {F : NodeF} {P P' : Comments → Prop} {K : Nat} (hF : Shrinks F)
    (hPF : ∀ sp c st', st'.length ≤ K → P c → P' (F sp c st').1) : ∀ (ls : List Line) (st : List Comment),
    st.length ≤ K → (∀ l ∈ ls, P l.comments) → ∀ l ∈ (travLines F ls st).1, P' l.comments
  | [], st, _, _ => by simp [travLines]
  | l :: ls, st, hst, hP => by
    intro l' hl'
    simp only [travLines, List.mem_cons] at hl'
    rcases hl' with rfl | hl'
    · exact hPF _ _ _ hst (hP l (by simp))
    · exact travLines_P hF hPF ls _ (Nat.le_trans (hF _ _ _) hst) (fun l2 h2 => hP l2 (List.mem_cons_of_mem _ h2)) l' hl'

theorem travStmt_P {F : NodeF} {P P' : Comments → Prop} {K : Nat} (hF : Shrinks F)
    (hPF : ∀ sp c st', st'.length ≤ K → P c → P' (F sp c st').1) (o : Ord) (s : Expr) (st : List Comment)
    (hst : st.length ≤ K) (hP : StmtP P s) : StmtP P' (travStmt o F s st).1 := by
  cases s with
  | lineBlock b =>
    obtain ⟨h1, h2, h3, h4⟩ := hP
    cases o <;> simp only [travStmt, StmtP]
    · have a1 := Nat.le_trans (hF (Expr.lineBlock b).span b.comments st) hst
      have a2 := Nat.le_trans (hF (Expr.lparen b.lparen).span b.lparen.comments _) a1
      have a3 := Nat.le_trans (travLines_shrinks hF b.lines _) a2
      exact ⟨hPF _ _ _ hst h1, hPF _ _ _ a1 h2, hPF _ _ _ a3 h3, travLines_P hF hPF _ _ a2 h4⟩
    · have a1 := Nat.le_trans (hF (Expr.lineBlock b).span b.comments st) hst
      have a2 := Nat.le_trans (hF (Expr.rparen b.rparen).span b.rparen.comments _) a1
      have a3 := Nat.le_trans (travLines_shrinks hF b.lines.reverse _) a2
      refine ⟨hPF _ _ _ hst h1, hPF _ _ _ a3 h2, hPF _ _ _ a1 h3, ?_⟩
      intro l hl
      exact travLines_P hF hPF _ _ a2 (fun l2 h2' => h4 l2 (List.mem_reverse.1 h2')) l (List.mem_reverse.1 hl)
    · have a1 := Nat.le_trans (hF (Expr.lparen b.lparen).span b.lparen.comments st) hst
      have a2 := Nat.le_trans (travLines_shrinks hF b.lines _) a1
      have a3 := Nat.le_trans (hF (Expr.rparen b.rparen).span b.rparen.comments _) a2
      exact ⟨hPF _ _ _ a3 h1, hPF _ _ _ hst h2, hPF _ _ _ a2 h3, travLines_P hF hPF _ _ a1 h4⟩
  | commentBlock c => exact hPF _ _ _ hst hP
  | line l => exact hPF _ _ _ hst hP
  | lparen l => exact hPF _ _ _ hst hP
  | rparen l => exact hPF _ _ _ hst hP

theorem travStmts_P {F : NodeF} {P P' : Comments → Prop} {K : Nat} (hF : Shrinks F)
    (hPF : ∀ sp c st', st'.length ≤ K → P c → P' (F sp c st').1) (o : Ord) : ∀ (ss : List Expr) (st : List Comment),
    st.length ≤ K → (∀ s ∈ ss, StmtP P s) → ∀ s ∈ (travStmts o F ss st).1, StmtP P' s
  | [], st, _, _ => by simp [travStmts]
  | s :: ss, st, hst, hP => by
    intro s' hs'
    simp only [travStmts, List.mem_cons] at hs'
    rcases hs' with rfl | hs'
    · exact travStmt_P hF hPF o s st hst (hP s (by simp))
    · exact travStmts_P hF hPF o ss _ (Nat.le_trans (travStmt_shrinks hF o s st) hst)
        (fun s2 h2 => hP s2 (List.mem_cons_of_mem _ h2)) s' hs'

theorem F1_suffix (sp : Position × Position) (c : Comments) (st : List Comment) : (F1 sp c st).1.suffix = c.suffix := by
  simp [F1, assignBefore]

theorem takeSuffix_fst_length (e : Position) : ∀ (l acc : List Comment),
    (takeSuffix e acc l).1.length ≤ acc.length + l.length
  | [], acc => by simp [takeSuffix]
  | c :: rest, acc => by
    unfold takeSuffix
    split
    · have := takeSuffix_fst_length e rest (c :: acc)
      simp only [List.length_cons] at this ⊢; omega
    · simp

theorem F2_suffix_length (sp : Position × Position) (c : Comments) (st : List Comment) :
    (F2 sp c st).1.suffix.length ≤ c.suffix.length + st.length := by
  simp only [F2]
  split
  · show c.suffix.length ≤ _; omega
  · have := takeSuffix_fst_length sp.2 st []
    simp only [List.length_append, List.length_reverse, List.length_nil] at this ⊢
    omega

theorem travStmts_shrinks {F : NodeF} (hF : Shrinks F) (o : Ord) : ∀ (ss : List Expr) (st : List Comment),
    (travStmts o F ss st).2.length ≤ st.length
  | [], st => by simp [travStmts]
  | s :: ss, st => by
    simp only [travStmts]
    exact Nat.le_trans (travStmts_shrinks hF o ss _) (travStmt_shrinks hF o s st)

end ModVerif.TieFnParseComments
