/-
  Helper lemmas for Tie/FnRuleAdd.lean, part C: the verbs of the regenerated `File.add` that call leaf functions —
  `module` (parseDeprecation, parseString), `require` / `exclude` (parseString, parseVersion, modulePathMajor,
  CheckPathMajor, isIndirect), `tool` (parseString), `replace` (parseReplace), `retract` (parseDirectiveComment,
  parseVersionInterval).  What the leaf calls return is a HYPOTHESIS of each lemma (`PSok`, `PVok`, `MPMok`, `CPMok`,
  `PVIok`, `PRok`, stated for the particular call); Tie/FnRuleAdd.lean discharges them from the leaf ties
  (Tie/FnRuleLeaf.lean) under its fuel bound.
  Owner: rule-add.
-/
import ModVerif.Proofs.TieFnRuleAddB
set_option linter.unusedSimpArgs false
set_option linter.unusedVariables false
namespace ModVerif.Tie.FnRuleAddC
open ModVerif ModVerif.GoRt ModVerif.Generated ModVerif.Tie.FnRuleRep ModVerif.Tie.FnRuleAddA ModVerif.Tie.FnRuleAddB
open ModVerif.Drv.GenRule (isPrintI unquoteI laxSubI deprecatedSubI fixG)
open ModVerif.Proofs.ModfileC20 (addGo addToolchain addModule addGodebugV addReqExc addReplaceV addRetractV addToolV add_eq)

/-! ### what the leaf calls return -/

/-- `parseString(&a)`: value, error, rewritten token -/
def PSOut (a v : Bytes) (e : Option String) (a' : Bytes) : Prop :=
  match Modfile.parseString a with
  | some (t, tok) => v = t ∧ e = none ∧ a' = tok
  | none => e.isSome = true ∧ a' = a

/-- the call `parseString(&a)` at this fuel does what the model says, in every world -/
def PSok (fuel : Nat) (a : Bytes) : Prop :=
  ∃ v e a', PSOut a v e a' ∧ ∀ w, Rule.parseString isPrintI Quote.quote unquoteI fuel a w = .ok (((v, e), a'), w)

/-- `parseVersion(verb, path, &a, fix)` -/
def PVOut (path a : Bytes) (fx : Option Modfile.Fixer) (v : Bytes) (e : Option String) (a' : Bytes) : Prop :=
  match Modfile.parseVersion path a fx with
  | (tok, .ok ver) => v = ver ∧ e = none ∧ a' = tok
  | (tok, .error k) => errAbs e k ∧ a' = tok

def PVok (fuel : Nat) (path a : Bytes) (fx : Option Modfile.Fixer) : Prop :=
  ∃ v e a', PVOut path a fx v e a' ∧
    ∀ verb w, Rule.parseVersion isPrintI Quote.quote unquoteI fuel verb path a (fixG fx) w = .ok (((v, e), a'), w)

/-- `modulePathMajor(s)` -/
def MPMok (fuel : Nat) (s : Bytes) : Prop :=
  Rule.modulePathMajor fuel s = .ok (match Modfile.modulePathMajor s with
    | some m => (m, none)
    | none => ([], some "invalid module path"))

/-- `module.CheckPathMajor(v, pathMajor)` -/
def CPMok (fuel : Nat) (v pm : Bytes) : Prop :=
  Generated.Module.CheckPathMajor fuel v pm =
    .ok (if Module.checkPathMajor v pm = true then none else some "InvalidVersionError|should be %s, not %s")

/-- the enclosing block of a line: nil, or a block object with the model's comments -/
def BlockRep (h : Rule.Heap) (block : Int) (bc : Option Modfile.Comments) : Prop :=
  match bc with
  | none => block = 0
  | some c => ∃ B, heapGet h.blocks block = .ok B ∧ B.Comments = comsG c

/-- `parseVersionInterval(verb, path, &args, fix)` on the view `r` of the tokens `toks` (after `pre`) -/
def PVIOut (h : Rule.Heap) (r : Rule.TokRef) (pre toks : List Bytes) (path : Bytes) (fx : Option Modfile.Fixer)
    (vi : Rule.VersionInterval) (e : Option String) (r' : Rule.TokRef) (h' : Rule.Heap) : Prop :=
  h' = setToksH h r.owner (pre ++ (Modfile.parseVersionInterval path toks fx).1) ∧
  match (Modfile.parseVersionInterval path toks fx).2 with
  | .ok (mvi, rest) => e = none ∧ vi.Low = mvi.low ∧ vi.High = mvi.high ∧ r'.owner = r.owner ∧ ∃ pre', TokView h' r' pre' rest
  | .error k => errAbs e k ∧ vi = default

def PVIok (fuel : Nat) (h : Rule.Heap) (r : Rule.TokRef) (pre toks : List Bytes) (path : Bytes) (fx : Option Modfile.Fixer) : Prop :=
  ∃ vi e r' h', PVIOut h r pre toks path fx vi e r' h' ∧
    ∀ verb, Rule.parseVersionInterval isPrintI Quote.quote unquoteI fuel verb path r (fixG fx) h = .ok (((vi, e), r'), h')

/-- `parseReplace(filename, line, verb, args, fix)`: a NEW `Replace` object or a NEW `Error` object -/
def PROut (h : Rule.Heap) (lp : Int) (l : Modfile.Line) (pre args : List Bytes) (fx : Option Modfile.Fixer)
    (rp ep : Int) (h' : Rule.Heap) : Prop :=
  match (Modfile.parseReplace l.id args fx).2 with
  | .ok R => ∃ o : Rule.Replace, o.Old = mvG R.old ∧ o.New = mvG R.new ∧ o.Syntax = lp ∧ ep = 0 ∧
      rp = (((setToksH h lp (pre ++ (Modfile.parseReplace l.id args fx).1)).replaces.length + 1 : Nat) : Int) ∧
      h' = { setToksH h lp (pre ++ (Modfile.parseReplace l.id args fx).1) with
             replaces := (setToksH h lp (pre ++ (Modfile.parseReplace l.id args fx).1)).replaces ++ [o] }
  | .error k => ∃ e : Rule.Error, e.Pos = posG l.start ∧ errAbs e.Err k ∧ rp = 0 ∧
      ep = (((setToksH h lp (pre ++ (Modfile.parseReplace l.id args fx).1)).errors.length + 1 : Nat) : Int) ∧
      h' = { setToksH h lp (pre ++ (Modfile.parseReplace l.id args fx).1) with
             errors := (setToksH h lp (pre ++ (Modfile.parseReplace l.id args fx).1)).errors ++ [e] }

def PRok (fuel : Nat) (h : Rule.Heap) (lp : Int) (l : Modfile.Line) (pre args : List Bytes) (fx : Option Modfile.Fixer) : Prop :=
  ∀ fname verb, ∃ rp ep h', PROut h lp l pre args fx rp ep h' ∧
    Rule.parseReplace isPrintI Quote.quote unquoteI fuel fname lp verb { owner := lp, lo := (pre.length : Int) } (fixG fx) h =
      .ok ((rp, ep), h')

section
variable {ι : Int → Nat} {h : Rule.Heap} {fp : Int} {errs : List Rule.Error} {st : Modfile.AddState} {syn : Modfile.FileSyntax}
  {lp : Int} {l : Modfile.Line} {pre args : List Bytes}

theorem FA_tool (R : RepRS ι h fp errs st syn) (hl : RLine ι h lp l) (htok : l.token = pre ++ args)
    (fuel : Nat) (block : Int) (fix : Option (Bytes → Bytes → (Bytes × Option String)))
    (hPS : ∀ a, args = [a] → PSok fuel a) :
    ∃ errs' h', FA fuel fp errs block lp [116, 111, 111, 108] { owner := lp, lo := (pre.length : Int) } fix true h =
        .ok (((), errs'), h') ∧
      StepPost ι h fp syn lp l pre (addToolV st l args) errs' h' := by
  obtain ⟨o, es, ho, hF, rt⟩ := R.objs
  have V := view_of hl htok
  unfold FA Rule.File_add
  simp only [decide_true, decide_false, reduceCtorEq, List.cons.injEq, Bool.true_or, Bool.or_true, Bool.or_false, if_true, ite_self, ho, bind, Except.bind, pure, Except.pure,
    TokRef_len_eq, TokRef_get_eq, TokRef_set_eq, V.tkLen, Bool.not_true, Bool.false_eq_true, if_false, errorf_L, wrapError_L, wrapModPathError_L,
    (by decide : ¬ (([116, 111, 111, 108] : Bytes) = [103, 111])),
    (by decide : ¬ (([116, 111, 111, 108] : Bytes) = [116, 111, 111, 108, 99, 104, 97, 105, 110])),
    (by decide : ¬ (([116, 111, 111, 108] : Bytes) = [109, 111, 100, 117, 108, 101])),
    (by decide : ¬ (([116, 111, 111, 108] : Bytes) = [103, 111, 100, 101, 98, 117, 103])),
    (by decide : ¬ (([116, 111, 111, 108] : Bytes) = [114, 101, 113, 117, 105, 114, 101])),
    (by decide : ¬ (([116, 111, 111, 108] : Bytes) = [101, 120, 99, 108, 117, 100, 101])),
    (by decide : ¬ (([116, 111, 111, 108] : Bytes) = [114, 101, 112, 108, 97, 99, 101])),
    (by decide : ¬ (([116, 111, 111, 108] : Bytes) = [114, 101, 116, 114, 97, 99, 116]))]
  unfold addToolV
  match args, htok, V, hPS with
  | [], htok, V, _ =>
    simp only [List.length_nil, Int.natCast_zero, Int.reduceEq, decide_false, Bool.not_false, if_true, errfL_eq ho hF hl.1]
    exact ⟨_, _, rfl, StepPost.errf R hl htok (by decide)⟩
  | a :: b :: c, htok, V, _ =>
    have : ¬ (((List.length (a :: b :: c) : Nat) : Int) = 1) := by simp; omega
    simp only [this, decide_false, Bool.not_false, if_true, errfL_eq ho hF hl.1]
    exact ⟨_, _, rfl, StepPost.errf R hl htok (by decide)⟩
  | [a], htok, V, hPS =>
    obtain ⟨v, e, a', hout, hps⟩ := hPS a rfl
    simp only [List.length_singleton, Int.natCast_one, decide_true, Bool.not_true, Bool.false_eq_true, if_false, V.tkGet0 rfl, hps,
      V.tkSet0 (by simp), List.set_cons_zero]
    unfold PSOut at hout
    cases hm : Modfile.parseString a with
    | none =>
      rw [hm] at hout
      obtain ⟨he, rfl⟩ := hout
      have he' : e.isNone = false := by cases e <;> simp_all
      simp only [he', Bool.not_false, if_true, errfL_eq ho hF (line_after hl _)]
      exact ⟨_, _, rfl, StepPost.errW R hl _ (errV_rep' rfl (errAbs_fmt (by decide)))⟩
    | some tt =>
      obtain ⟨t, tok⟩ := tt
      rw [hm] at hout
      obtain ⟨rfl, rfl, rfl⟩ := hout
      simp only [Option.isNone_none, Bool.not_true, Bool.false_eq_true, if_false, heapAlloc, ho, heapSet_of_get _ ho]
      refine ⟨_, _, rfl, ?_⟩
      refine StepPost.build R hl (heapGet_listSet_same _ ho) rfl rfl rfl rfl ?_ R.errs
      intro o1 ho1 rt1
      rw [ho] at ho1; cases ho1
      exact ⟨(rt1.pushTool ⟨rfl, TR_of hl _ rfl⟩ _).withLines _ (by simp), rfl⟩

theorem FA_module (R : RepRS ι h fp errs st syn) (hl : RLine ι h lp l) (htok : l.token = pre ++ args)
    (fuel : Nat) (block : Int) (bc : Option Modfile.Comments) (fix : Option (Bytes → Bytes → (Bytes × Option String))) (strict : Bool)
    (hPD : Rule.parseDeprecation deprecatedSubI fuel block lp h = .ok (Modfile.parseDeprecation bc l.comments, h))
    (hPS : ∀ a, args = [a] → PSok fuel a) :
    ∃ errs' h', FA fuel fp errs block lp [109, 111, 100, 117, 108, 101] { owner := lp, lo := (pre.length : Int) } fix strict h =
        .ok (((), errs'), h') ∧
      StepPost ι h fp syn lp l pre (addModule st bc l args) errs' h' := by
  obtain ⟨o, es, ho, hF, rt⟩ := R.objs
  have V := view_of hl htok
  unfold FA Rule.File_add
  simp only [decide_true, decide_false, reduceCtorEq, List.cons.injEq, Bool.true_or, Bool.or_true, Bool.or_false, if_true, ite_self, ho, bind, Except.bind, pure, Except.pure,
    TokRef_len_eq, TokRef_get_eq, TokRef_set_eq, V.tkLen, Bool.not_true, Bool.false_eq_true, if_false, errorf_L, wrapError_L, wrapModPathError_L,
    (by decide : ¬ (([109, 111, 100, 117, 108, 101] : Bytes) = [103, 111])),
    (by decide : ¬ (([109, 111, 100, 117, 108, 101] : Bytes) = [116, 111, 111, 108, 99, 104, 97, 105, 110]))]
  unfold addModule
  cases hmod : st.file.module with
  | some g =>
    have hne : o.Module ≠ 0 := fun e => by have := (rt.module.eq_zero_iff).1 e; rw [hmod] at this; cases this
    simp only [hmod, hne, decide_false, Bool.not_false, if_true, errfL_eq ho hF hl.1, Option.isSome_some]
    exact ⟨_, _, rfl, StepPost.errf R hl htok (by decide)⟩
  | none =>
    have h0 : o.Module = 0 := (rt.module.eq_zero_iff).2 hmod
    have ho1 : heapGet (h.mods.set (fp.toNat - 1) { o with Module := ((h.modules.length + 1 : Nat) : Int) }) fp =
        .ok { o with Module := ((h.modules.length + 1 : Nat) : Int) } := heapGet_listSet_same _ ho
    have hF1 : heapGet h.files ({ o with Module := ((h.modules.length + 1 : Nat) : Int) } : Rule.File).Syntax = .ok (fileG syn es) := hF
    simp only [hmod, h0, decide_true, Bool.not_true, Bool.false_eq_true, if_false, Option.isSome_none, hPD, heapAlloc, ho,
      heapSet_of_get _ ho, V.tkLen]
    have hR1 : ∀ (mv : Modfile.ModVersion) (ms : List Rule.File),
        RepTyped ι { h with modules := h.modules ++ [{ Mod := mvG mv, Deprecated := Modfile.parseDeprecation bc l.comments, Syntax := lp }], mods := ms }
          { o with Module := ((h.modules.length + 1 : Nat) : Int) }
          { st.file with module := some { mod := mv, deprecated := Modfile.parseDeprecation bc l.comments, lineId := l.id } } :=
      fun mv ms => rt.linkModule ⟨rfl, rfl, TR_of hl _ rfl⟩ ms
    match args, htok, V, hPS with
    | [], htok, V, _ =>
      simp only [List.length_nil, Int.natCast_zero, Int.reduceEq, decide_false, Bool.not_false, if_true, errfL_eq ho1 hF1 hl.1]
      refine ⟨_, _, rfl, ?_⟩
      refine StepPost.build R hl ho1 (lines_same hl htok) rfl rfl rfl ?_ (R.errs.snoc_rev (errV_rep (errAbs_fmt (by decide))))
      intro o1 ho1 rt1
      rw [ho] at ho1; cases ho1
      exact ⟨hR1 {} _, rfl⟩
    | a :: b :: c, htok, V, _ =>
      have : ¬ (((List.length (a :: b :: c) : Nat) : Int) = 1) := by simp; omega
      simp only [this, decide_false, Bool.not_false, if_true, errfL_eq ho1 hF1 hl.1]
      refine ⟨_, _, rfl, ?_⟩
      refine StepPost.build R hl ho1 (lines_same hl htok) rfl rfl rfl ?_ (R.errs.snoc_rev (errV_rep (errAbs_fmt (by decide))))
      intro o1 ho1 rt1
      rw [ho] at ho1; cases ho1
      exact ⟨hR1 {} _, rfl⟩
    | [a], htok, V, hPS =>
      obtain ⟨v, e, a', hout, hps⟩ := hPS a rfl
      simp only [List.length_singleton, Int.natCast_one, decide_true, Bool.not_true, Bool.false_eq_true, if_false, V.tkGet0 rfl, hps,
        V.tkSet0 (by simp), List.set_cons_zero]
      unfold PSOut at hout
      cases hm : Modfile.parseString a with
      | none =>
        rw [hm] at hout
        obtain ⟨he, rfl⟩ := hout
        have he' : e.isNone = false := by cases e <;> simp_all
        simp only [he', Bool.not_false, if_true, errfL_eq ho1 hF1 (line_after hl _)]
        refine ⟨_, _, rfl, ?_⟩
        refine StepPost.build R hl ho1 rfl rfl rfl rfl ?_ (R.errs.snoc_rev (errV_rep' rfl (errAbs_fmt (by decide))))
        intro o1 ho1 rt1
        rw [ho] at ho1; cases ho1
        exact ⟨(hR1 {} _).withLines _ (by simp), rfl⟩
      | some tt =>
        obtain ⟨t, tok⟩ := tt
        rw [hm] at hout
        obtain ⟨rfl, rfl, rfl⟩ := hout
        simp only [Option.isNone_none, Bool.not_true, Bool.false_eq_true, if_false, ho1, heapGet_alloc_new, heapSet_alloc_new]
        refine ⟨_, _, rfl, ?_⟩
        refine StepPost.build R hl ho1 rfl rfl rfl rfl ?_ R.errs
        intro o1 ho1 rt1
        rw [ho] at ho1; cases ho1
        exact ⟨(hR1 { path := v } _).withLines _ (by simp), rfl⟩

/-- the leaf calls of a `require` / `exclude` line -/
def ReqLeaf (fuel : Nat) (args : List Bytes) (fx : Option Modfile.Fixer) : Prop :=
  ∀ a0 a1, args = [a0, a1] → PSok fuel a0 ∧ ∀ s a0', Modfile.parseString a0 = some (s, a0') →
    PVok fuel s a1 fx ∧ MPMok fuel s ∧ ∀ a1' v, Modfile.parseVersion s a1 fx = (a1', .ok v) → ∀ pm, CPMok fuel v pm

theorem FA_require (R : RepRS ι h fp errs st syn) (hl : RLine ι h lp l) (htok : l.token = pre ++ args)
    (fuel : Nat) (block : Int) (fx : Option Modfile.Fixer) (strict : Bool)
    (hLeaf : ReqLeaf fuel args fx)
    (hII : ∀ (ls : List Rule.Line) (l' : Modfile.Line), heapGet ls lp = .ok (lineG l') → indL lp ls = .ok (Modfile.isIndirect l')) :
    ∃ errs' h', FA fuel fp errs block lp [114, 101, 113, 117, 105, 114, 101] { owner := lp, lo := (pre.length : Int) } (fixG fx) strict h =
        .ok (((), errs'), h') ∧
      StepPost ι h fp syn lp l pre (addReqExc st l (B "require") args fx) errs' h' := by
  obtain ⟨o, es, ho, hF, rt⟩ := R.objs
  have V := view_of hl htok
  unfold FA Rule.File_add
  simp only [decide_true, decide_false, reduceCtorEq, List.cons.injEq, Bool.true_or, Bool.or_true, Bool.or_false, if_true, ite_self, ho, bind, Except.bind, pure, Except.pure,
    TokRef_len_eq, TokRef_get_eq, TokRef_set_eq, V.tkLen, Bool.not_true, Bool.false_eq_true, if_false, errorf_L, wrapError_L, wrapModPathError_L,
    (by decide : ¬ (([114, 101, 113, 117, 105, 114, 101] : Bytes) = [103, 111])),
    (by decide : ¬ (([114, 101, 113, 117, 105, 114, 101] : Bytes) = [116, 111, 111, 108, 99, 104, 97, 105, 110])),
    (by decide : ¬ (([114, 101, 113, 117, 105, 114, 101] : Bytes) = [109, 111, 100, 117, 108, 101])),
    (by decide : ¬ (([114, 101, 113, 117, 105, 114, 101] : Bytes) = [103, 111, 100, 101, 98, 117, 103]))]
  unfold addReqExc
  have hreq : (B "require" == B "require") = true := by decide +kernel
  simp only [hreq, if_true]
  have e2 : ∀ (a b c : Bytes) (d : List Bytes), ¬ (((List.length (a :: b :: c :: d) : Nat) : Int) = 2) := by intros; simp; omega
  match args, htok, V, hLeaf with
  | [], htok, V, _ =>
    simp only [List.length_nil, Int.natCast_zero, Int.reduceEq, decide_false, Bool.not_false, if_true, errfL_eq ho hF hl.1]
    exact ⟨_, _, rfl, StepPost.errf R hl htok (by decide)⟩
  | [a], htok, V, _ =>
    simp only [List.length_singleton, Int.natCast_one, Int.reduceEq, decide_false, Bool.not_false, if_true, errfL_eq ho hF hl.1]
    exact ⟨_, _, rfl, StepPost.errf R hl htok (by decide)⟩
  | a :: b :: c :: d, htok, V, _ =>
    simp only [e2, decide_false, Bool.not_false, if_true, errfL_eq ho hF hl.1]
    exact ⟨_, _, rfl, StepPost.errf R hl htok (by decide)⟩
  | [a0, a1], htok, V, hLeaf =>
    obtain ⟨⟨v, e, a0', hout, hps⟩, hrest⟩ := hLeaf a0 a1 rfl
    have hlen2 : (([a0, a1] : List Bytes).length : Int) = 2 := rfl
    simp only [hlen2, decide_true, Bool.not_true, Bool.false_eq_true, if_false, V.tkGet0 rfl, hps,
      V.tkSet0 (by simp), List.set_cons_zero]
    unfold PSOut at hout
    cases hm : Modfile.parseString a0 with
    | none =>
      rw [hm] at hout
      obtain ⟨he, rfl⟩ := hout
      have he' : e.isNone = false := by cases e <;> simp_all
      simp only [he', Bool.not_false, if_true, errfL_eq ho hF (line_after hl _)]
      exact ⟨_, _, rfl, StepPost.errW R hl _ (errV_rep' rfl (errAbs_fmt (by decide)))⟩
    | some tt =>
      obtain ⟨s, tok⟩ := tt
      rw [hm] at hout
      obtain ⟨rfl, rfl, rfl⟩ := hout
      obtain ⟨⟨ver, e1, a1', hpvo, hpv⟩, hmpm, hcpm⟩ := hrest v a0' hm
      have V1 : TokView (setToksH h lp (pre ++ [a0', a1])) { owner := lp, lo := (pre.length : Int) } pre [a0', a1] :=
        (V.set (i := 0) (by simp) a0').2
      have hS : setToksH (setToksH h lp (pre ++ [a0', a1])) lp (pre ++ [a0', a1']) = setToksH h lp (pre ++ [a0', a1']) :=
        setToksH_setToksH hl.1 _ _
      simp only [Option.isNone_none, Bool.not_true, Bool.false_eq_true, if_false, V1.tkGet1 rfl, hpv, V1.tkSet1 (by simp),
        List.set_cons_succ, List.set_cons_zero, hS]
      unfold PVOut at hpvo
      cases hpm : Modfile.parseVersion v a1 fx with
      | mk t1 res =>
      rw [hpm] at hpvo
      cases res with
      | error k =>
        obtain ⟨hea, rfl⟩ := hpvo
        have he1 : e1.isNone = false := by obtain ⟨s, rfl, _⟩ := hea; rfl
        simp only [he1, Bool.not_false, if_true, errfL_eq ho hF (line_after hl _)]
        exact ⟨_, _, rfl, StepPost.errW R hl _ (errV_rep' rfl hea)⟩
      | ok vv =>
        obtain ⟨rfl, rfl, rfl⟩ := hpvo
        unfold MPMok at hmpm
        simp only [Option.isNone_none, Bool.not_true, Bool.false_eq_true, if_false, hmpm]
        cases hmm : Modfile.modulePathMajor v with
        | none =>
          simp only [Option.isNone_some, Bool.not_false, if_true, errfL_eq ho hF (line_after hl _)]
          exact ⟨_, _, rfl, StepPost.errW R hl _ (errV_rep' rfl (errAbs_some (by decide)))⟩
        | some pm =>
          have hc := hcpm a1' ver hpm pm
          unfold CPMok at hc
          simp only [Option.isNone_none, Bool.not_true, Bool.false_eq_true, if_false, hc]
          cases hck : Module.checkPathMajor ver pm with
          | false =>
            simp only [Bool.false_eq_true, if_false, Option.isNone_some, Bool.not_false, if_true, errfML_eq ho hF (line_after hl _)]
            exact ⟨_, _, rfl, StepPost.errW R hl _ (errMV_rep' rfl (errAbs_some (by decide)))⟩
          | true =>
            simp only [if_true, Option.isNone_none, Bool.not_true, Bool.false_eq_true, if_false, ho,
              isIndirect_L, hII _ _ (line_after' hl _), heapAlloc, heapSet_of_get _ ho, bind, Except.bind, pure, Except.pure]
            refine ⟨_, _, rfl, ?_⟩
            refine StepPost.build R hl (heapGet_listSet_same _ ho) rfl rfl rfl rfl ?_ R.errs
            intro o1 ho1 rt1
            rw [ho] at ho1; cases ho1
            exact ⟨(rt1.pushRequire ⟨rfl, rfl, TR_of hl _ rfl⟩ _).withLines _ (by simp), rfl⟩

theorem FA_exclude (R : RepRS ι h fp errs st syn) (hl : RLine ι h lp l) (htok : l.token = pre ++ args)
    (fuel : Nat) (block : Int) (fx : Option Modfile.Fixer)
    (hLeaf : ReqLeaf fuel args fx) :
    ∃ errs' h', FA fuel fp errs block lp [101, 120, 99, 108, 117, 100, 101] { owner := lp, lo := (pre.length : Int) } (fixG fx) true h =
        .ok (((), errs'), h') ∧
      StepPost ι h fp syn lp l pre (addReqExc st l (B "exclude") args fx) errs' h' := by
  obtain ⟨o, es, ho, hF, rt⟩ := R.objs
  have V := view_of hl htok
  unfold FA Rule.File_add
  simp only [decide_true, decide_false, reduceCtorEq, List.cons.injEq, Bool.true_or, Bool.or_true, Bool.or_false, if_true, ite_self, ho, bind, Except.bind, pure, Except.pure,
    TokRef_len_eq, TokRef_get_eq, TokRef_set_eq, V.tkLen, Bool.not_true, Bool.false_eq_true, if_false, errorf_L, wrapError_L, wrapModPathError_L,
    (by decide : ¬ (([101, 120, 99, 108, 117, 100, 101] : Bytes) = [103, 111])),
    (by decide : ¬ (([101, 120, 99, 108, 117, 100, 101] : Bytes) = [116, 111, 111, 108, 99, 104, 97, 105, 110])),
    (by decide : ¬ (([101, 120, 99, 108, 117, 100, 101] : Bytes) = [109, 111, 100, 117, 108, 101])),
    (by decide : ¬ (([101, 120, 99, 108, 117, 100, 101] : Bytes) = [103, 111, 100, 101, 98, 117, 103])),
    (by decide : ¬ (([101, 120, 99, 108, 117, 100, 101] : Bytes) = [114, 101, 113, 117, 105, 114, 101]))]
  unfold addReqExc
  have hreq : (B "exclude" == B "require") = false := by decide +kernel
  simp only [hreq, Bool.false_eq_true, if_false]
  have e2 : ∀ (a b c : Bytes) (d : List Bytes), ¬ (((List.length (a :: b :: c :: d) : Nat) : Int) = 2) := by intros; simp; omega
  match args, htok, V, hLeaf with
  | [], htok, V, _ =>
    simp only [List.length_nil, Int.natCast_zero, Int.reduceEq, decide_false, Bool.not_false, if_true, errfL_eq ho hF hl.1]
    exact ⟨_, _, rfl, StepPost.errf R hl htok (by decide)⟩
  | [a], htok, V, _ =>
    simp only [List.length_singleton, Int.natCast_one, Int.reduceEq, decide_false, Bool.not_false, if_true, errfL_eq ho hF hl.1]
    exact ⟨_, _, rfl, StepPost.errf R hl htok (by decide)⟩
  | a :: b :: c :: d, htok, V, _ =>
    simp only [e2, decide_false, Bool.not_false, if_true, errfL_eq ho hF hl.1]
    exact ⟨_, _, rfl, StepPost.errf R hl htok (by decide)⟩
  | [a0, a1], htok, V, hLeaf =>
    obtain ⟨⟨v, e, a0', hout, hps⟩, hrest⟩ := hLeaf a0 a1 rfl
    have hlen2 : (([a0, a1] : List Bytes).length : Int) = 2 := rfl
    simp only [hlen2, decide_true, Bool.not_true, Bool.false_eq_true, if_false, V.tkGet0 rfl, hps,
      V.tkSet0 (by simp), List.set_cons_zero]
    unfold PSOut at hout
    cases hm : Modfile.parseString a0 with
    | none =>
      rw [hm] at hout
      obtain ⟨he, rfl⟩ := hout
      have he' : e.isNone = false := by cases e <;> simp_all
      simp only [he', Bool.not_false, if_true, errfL_eq ho hF (line_after hl _)]
      exact ⟨_, _, rfl, StepPost.errW R hl _ (errV_rep' rfl (errAbs_fmt (by decide)))⟩
    | some tt =>
      obtain ⟨s, tok⟩ := tt
      rw [hm] at hout
      obtain ⟨rfl, rfl, rfl⟩ := hout
      obtain ⟨⟨ver, e1, a1', hpvo, hpv⟩, hmpm, hcpm⟩ := hrest v a0' hm
      have V1 : TokView (setToksH h lp (pre ++ [a0', a1])) { owner := lp, lo := (pre.length : Int) } pre [a0', a1] :=
        (V.set (i := 0) (by simp) a0').2
      have hS : setToksH (setToksH h lp (pre ++ [a0', a1])) lp (pre ++ [a0', a1']) = setToksH h lp (pre ++ [a0', a1']) :=
        setToksH_setToksH hl.1 _ _
      simp only [Option.isNone_none, Bool.not_true, Bool.false_eq_true, if_false, V1.tkGet1 rfl, hpv, V1.tkSet1 (by simp),
        List.set_cons_succ, List.set_cons_zero, hS]
      unfold PVOut at hpvo
      cases hpm : Modfile.parseVersion v a1 fx with
      | mk t1 res =>
      rw [hpm] at hpvo
      cases res with
      | error k =>
        obtain ⟨hea, rfl⟩ := hpvo
        have he1 : e1.isNone = false := by obtain ⟨s, rfl, _⟩ := hea; rfl
        simp only [he1, Bool.not_false, if_true, errfL_eq ho hF (line_after hl _)]
        exact ⟨_, _, rfl, StepPost.errW R hl _ (errV_rep' rfl hea)⟩
      | ok vv =>
        obtain ⟨rfl, rfl, rfl⟩ := hpvo
        unfold MPMok at hmpm
        simp only [Option.isNone_none, Bool.not_true, Bool.false_eq_true, if_false, hmpm]
        cases hmm : Modfile.modulePathMajor v with
        | none =>
          simp only [Option.isNone_some, Bool.not_false, if_true, errfL_eq ho hF (line_after hl _)]
          exact ⟨_, _, rfl, StepPost.errW R hl _ (errV_rep' rfl (errAbs_some (by decide)))⟩
        | some pm =>
          have hc := hcpm a1' ver hpm pm
          unfold CPMok at hc
          simp only [Option.isNone_none, Bool.not_true, Bool.false_eq_true, if_false, hc]
          cases hck : Module.checkPathMajor ver pm with
          | false =>
            simp only [Bool.false_eq_true, if_false, Option.isNone_some, Bool.not_false, if_true, errfML_eq ho hF (line_after hl _)]
            exact ⟨_, _, rfl, StepPost.errW R hl _ (errMV_rep' rfl (errAbs_some (by decide)))⟩
          | true =>
            simp only [if_true, Option.isNone_none, Bool.not_true, Bool.false_eq_true, if_false, ho,
              heapAlloc, heapSet_of_get _ ho, bind, Except.bind, pure, Except.pure]
            refine ⟨_, _, rfl, ?_⟩
            refine StepPost.build R hl (heapGet_listSet_same _ ho) rfl rfl rfl rfl ?_ R.errs
            intro o1 ho1 rt1
            rw [ho] at ho1; cases ho1
            exact ⟨(rt1.pushExclude ⟨rfl, TR_of hl _ rfl⟩ _).withLines _ (by simp), rfl⟩

/-- the `Replace` entry the model builds refers to the line it was given -/
theorem parseReplace_lineId (lineId : Nat) (args : List Bytes) (fx : Option Modfile.Fixer) (args' : List Bytes) (r : Modfile.Replace)
    (h : Modfile.parseReplace lineId args fx = (args', .ok r)) : r.lineId = lineId := by
  unfold Modfile.parseReplace at h
  repeat' (first | split at h | (dsimp only at h))
  all_goals first
    | (simp only [Prod.mk.injEq, reduceCtorEq, and_false] at h; done)
    | (simp only [Prod.mk.injEq, Except.ok.injEq] at h; obtain ⟨_, rfl⟩ := h; rfl)

theorem FA_replace (R : RepRS ι h fp errs st syn) (hl : RLine ι h lp l) (htok : l.token = pre ++ args)
    (fuel : Nat) (block : Int) (fx : Option Modfile.Fixer)
    (hPR : PRok fuel h lp l pre args fx) :
    ∃ errs' h', FA fuel fp errs block lp [114, 101, 112, 108, 97, 99, 101] { owner := lp, lo := (pre.length : Int) } (fixG fx) true h =
        .ok (((), errs'), h') ∧
      StepPost ι h fp syn lp l pre (addReplaceV st l args fx) errs' h' := by
  obtain ⟨o, es, ho, hF, rt⟩ := R.objs
  obtain ⟨rp, ep, h', hout, hpr⟩ := hPR (fileG syn es).Name [114, 101, 112, 108, 97, 99, 101]
  unfold FA Rule.File_add
  simp only [decide_true, decide_false, reduceCtorEq, List.cons.injEq, Bool.true_or, Bool.or_true, Bool.or_false, if_true, ite_self, ho, hF, hpr, bind, Except.bind, pure, Except.pure,
    Bool.not_true, Bool.false_eq_true, if_false,
    (by decide : ¬ (([114, 101, 112, 108, 97, 99, 101] : Bytes) = [103, 111])),
    (by decide : ¬ (([114, 101, 112, 108, 97, 99, 101] : Bytes) = [116, 111, 111, 108, 99, 104, 97, 105, 110])),
    (by decide : ¬ (([114, 101, 112, 108, 97, 99, 101] : Bytes) = [109, 111, 100, 117, 108, 101])),
    (by decide : ¬ (([114, 101, 112, 108, 97, 99, 101] : Bytes) = [103, 111, 100, 101, 98, 117, 103])),
    (by decide : ¬ (([114, 101, 112, 108, 97, 99, 101] : Bytes) = [114, 101, 113, 117, 105, 114, 101])),
    (by decide : ¬ (([114, 101, 112, 108, 97, 99, 101] : Bytes) = [101, 120, 99, 108, 117, 100, 101]))]
  unfold addReplaceV
  unfold PROut at hout
  cases hm : Modfile.parseReplace l.id args fx with
  | mk args' res =>
  rw [hm] at hout
  cases res with
  | error k =>
    obtain ⟨e, hpos, hea, rfl, rfl, rfl⟩ := hout
    have hne : ¬ ((((setToksH h lp (pre ++ args')).errors.length + 1 : Nat) : Int) = 0) := by omega
    simp only [hne, decide_false, Bool.not_false, if_true, heapGet_alloc_new]
    refine ⟨_, _, rfl, ?_⟩
    refine StepPost.build R hl (o' := o) (by simpa using ho) rfl (by simp) (by simp) (by simp) ?_ (R.errs.snoc_rev ⟨hpos, hea⟩)
    intro o1 ho1 rt1
    rw [ho] at ho1; cases ho1
    exact ⟨(rt1.setToksH lp _).frameEM _ _, rfl⟩
  | ok r =>
    obtain ⟨x, hold, hnew, hsyn, rfl, rfl, rfl⟩ := hout
    have ho1 : heapGet (setToksH h lp (pre ++ args')).mods fp = .ok o := by simpa using ho
    simp only [decide_true, Bool.not_true, Bool.false_eq_true, if_false, ho1, heapSet_of_get _ ho1]
    refine ⟨_, _, rfl, ?_⟩
    refine StepPost.build R hl (heapGet_listSet_same _ ho1) rfl (by simp) (by simp) (by simp) ?_ R.errs
    intro o1 ho2 rt1
    rw [ho] at ho2; cases ho2
    have hid := parseReplace_lineId _ _ _ _ _ hm
    exact ⟨(rt1.setToksH lp _).pushReplace ⟨hold, hnew, by rw [hsyn, hid]; exact TR_of hl _ (by simp)⟩ _, rfl⟩

theorem fixG_dontFixRetract : fixG (some Modfile.dontFixRetract) = some Rule.dontFixRetract := rfl

theorem FA_retract (R : RepRS ι h fp errs st syn) (hl : RLine ι h lp l) (htok : l.token = pre ++ args)
    (fuel : Nat) (block : Int) (bc : Option Modfile.Comments) (fix : Option (Bytes → Bytes → (Bytes × Option String))) (strict : Bool)
    (hPDC : Rule.parseDirectiveComment fuel block lp h = .ok (Modfile.parseDirectiveComment bc l.comments, h))
    (hPVI : PVIok fuel h { owner := lp, lo := (pre.length : Int) } pre args [] (some Modfile.dontFixRetract)) :
    ∃ errs' h', FA fuel fp errs block lp [114, 101, 116, 114, 97, 99, 116] { owner := lp, lo := (pre.length : Int) } fix strict h =
        .ok (((), errs'), h') ∧
      StepPost ι h fp syn lp l pre (addRetractV st bc l args strict) errs' h' := by
  obtain ⟨o, es, ho, hF, rt⟩ := R.objs
  obtain ⟨vi, e, r', h', ⟨hh', hout⟩, hpvi⟩ := hPVI
  have hpvi' : ∀ verb, Rule.parseVersionInterval isPrintI Quote.quote unquoteI fuel verb [] { owner := lp, lo := (pre.length : Int) }
      (some Rule.dontFixRetract) h = .ok (((vi, e), r'), h') := hpvi
  rw [show ({ owner := lp, lo := (pre.length : Int) } : Rule.TokRef).owner = lp from rfl, setToksH_eq_lines] at hh'
  unfold FA Rule.File_add
  simp only [decide_true, decide_false, reduceCtorEq, List.cons.injEq, Bool.true_or, Bool.or_true, Bool.or_false, if_true, ite_self, ho, hF, hPDC, hpvi', bind, Except.bind, pure, Except.pure,
    Bool.not_true, Bool.false_eq_true, if_false, errorf_L, wrapError_L, TokRef_len_eq, TokRef_get_eq,
    (by decide : ¬ (([114, 101, 116, 114, 97, 99, 116] : Bytes) = [103, 111])),
    (by decide : ¬ (([114, 101, 116, 114, 97, 99, 116] : Bytes) = [116, 111, 111, 108, 99, 104, 97, 105, 110])),
    (by decide : ¬ (([114, 101, 116, 114, 97, 99, 116] : Bytes) = [109, 111, 100, 117, 108, 101])),
    (by decide : ¬ (([114, 101, 116, 114, 97, 99, 116] : Bytes) = [103, 111, 100, 101, 98, 117, 103])),
    (by decide : ¬ (([114, 101, 116, 114, 97, 99, 116] : Bytes) = [114, 101, 113, 117, 105, 114, 101])),
    (by decide : ¬ (([114, 101, 116, 114, 97, 99, 116] : Bytes) = [101, 120, 99, 108, 117, 100, 101])),
    (by decide : ¬ (([114, 101, 116, 114, 97, 99, 116] : Bytes) = [114, 101, 112, 108, 97, 99, 101]))]
  unfold addRetractV
  cases hm : Modfile.parseVersionInterval [] args (some Modfile.dontFixRetract) with
  | mk args' res =>
  rw [hm] at hout hh'
  simp only [] at hout hh'
  subst hh'
  cases res with
  | error k =>
    simp only [] at hout
    obtain ⟨hout, _⟩ := hout
    have he1 : e.isNone = false := by obtain ⟨s, rfl, _⟩ := hout; rfl
    simp only [he1, Bool.not_false, if_true]
    cases strict with
    | false =>
      simp only [Bool.false_eq_true, if_false]
      exact ⟨_, _, rfl, StepPost.skipW R hl _⟩
    | true =>
      simp only [if_true, errfL_eq ho hF (line_after hl _)]
      exact ⟨_, _, rfl, StepPost.errW R hl _ (errV_rep' rfl hout)⟩
  | ok vr =>
    obtain ⟨mvi, rest⟩ := vr
    simp only [] at hout
    obtain ⟨rfl, hlo, hhi, hown, pre', V'⟩ := hout
    have hlen' : tkLen r' (setToksH h lp (pre ++ args')).lines = .ok (rest.length : Int) := V'.tkLen
    simp only [Option.isNone_none, Bool.not_true, Bool.false_eq_true, if_false, hlen']
    have hc : (decide (((rest.length : Nat) : Int) > 0) && strict) = (!rest.isEmpty && strict) := by
      cases rest <;> simp
    simp only [hc]
    cases hcc : (!rest.isEmpty && strict) with
    | false =>
      simp only [Bool.false_eq_true, if_false, ho, heapAlloc, heapSet_of_get _ ho]
      refine ⟨_, _, rfl, ?_⟩
      refine StepPost.build R hl (heapGet_listSet_same _ ho) rfl rfl rfl rfl ?_ R.errs
      intro o1 ho1 rt1
      rw [ho] at ho1; cases ho1
      exact ⟨(rt1.pushRetract ⟨hlo, hhi, rfl, TR_of hl _ rfl⟩ _).withLines _ (by simp), rfl⟩
    | true =>
      cases rest with
      | nil => simp at hcc
      | cons t0 rest' =>
        have hget' : tkGet r' 0 (setToksH h lp (pre ++ args')).lines = .ok t0 := V'.tkGet0 rfl
        simp only [if_true, hget', errfL_eq ho hF (line_after hl _)]
        exact ⟨_, _, rfl, StepPost.errW R hl _ (errV_rep' rfl (errAbs_fmt (by decide)))⟩
end
end ModVerif.Tie.FnRuleAddC
