/-
  EditGoodBlocks, part B — every go.mod operation preserves `GoodBlocks` (`GB`), in a state satisfying the tree invariant.

  Where the invariant is needed: `AddGoStmt` / `AddToolchainStmt` with no typed `go` / `toolchain` entry call `addLine` with
  a verb that is NOT a block verb.  Under `Inv` every live line of the tree renders a typed entry, so with `f.go = none`
  no live line starts with `go` (`inv_conv_go`): the hinted walk cannot hit one (its hint is the `module` line, or — nil
  hint — `lastStmtWith` finds nothing), and lines marked removed are skipped because their token list is empty.  Every other
  `addLine` of the model carries a block verb.
-/
import ModVerif.Proofs.EditGoodBlocksA
set_option linter.unusedSimpArgs false
set_option linter.unusedVariables false
set_option linter.unnecessarySimpa false
namespace ModVerif.Modfile.Edit
open ModVerif ModVerif.Modfile

/-! ### verbs -/

theorem verbIn_module : verbIn (B "module") blockVerbs = true := by decide +kernel
theorem verbIn_godebug : verbIn (B "godebug") blockVerbs = true := by decide +kernel
theorem verbIn_exclude : verbIn (B "exclude") blockVerbs = true := by decide +kernel
theorem verbIn_replace : verbIn (B "replace") blockVerbs = true := by decide +kernel
theorem verbIn_retract : verbIn (B "retract") blockVerbs = true := by decide +kernel
theorem verbIn_tool : verbIn (B "tool") blockVerbs = true := by decide +kernel

theorem headIs_cons_eq (a v : Bytes) (t : List Bytes) : headIs (a :: t) v = (a == v) := by
  simp [headIs]

theorem verbs_not_go :
    (B "module" == B "go") = false ∧ (B "toolchain" == B "go") = false ∧ (B "godebug" == B "go") = false ∧
    (B "require" == B "go") = false ∧ (B "exclude" == B "go") = false ∧ (B "replace" == B "go") = false ∧
    (B "retract" == B "go") = false ∧ (B "tool" == B "go") = false := by decide +kernel

theorem verbs_not_toolchain :
    (B "module" == B "toolchain") = false ∧ (B "go" == B "toolchain") = false ∧ (B "godebug" == B "toolchain") = false ∧
    (B "require" == B "toolchain") = false ∧ (B "exclude" == B "toolchain") = false ∧ (B "replace" == B "toolchain") = false ∧
    (B "retract" == B "toolchain") = false ∧ (B "tool" == B "toolchain") = false := by decide +kernel

/-! ### under the invariant, the live top-level lines are renderings of typed entries -/

theorem inv_noLive {e : EFile} (hi : Inv e) (verb : Bytes)
    (hent : ∀ id it, (id, it) ∈ items e.f → ∀ t s, Rend it t s → headIs t verb = false) :
    ∀ l, Expr.line l ∈ e.f.syn.stmts → (l.token.isEmpty || !headIs l.token verb) = true := by
  intro l hl
  cases hemp : l.token.isEmpty with
  | true => rfl
  | false =>
    have hp := mem_loc_line hl
    obtain ⟨it, hmem, hr⟩ := line_item hi hp (by simp [liveLoc, hemp])
    simp only [List.nil_append] at hr
    simp [hent _ _ hmem _ _ hr]

theorem go_not_item {f : File} (h : f.go = none) (id : Nat) (v : Bytes) : (id, Item.go v) ∉ items f := by
  simp [items, h]

theorem toolchain_not_item {f : File} (h : f.toolchain = none) (id : Nat) (v : Bytes) : (id, Item.toolchain v) ∉ items f := by
  simp [items, h]

/-- no typed `go` entry ⇒ no live top-level line starts with `go` -/
theorem inv_conv_go {e : EFile} (hi : Inv e) (h : e.f.go = none) : Conv (B "go") e.f.syn.stmts := by
  refine Or.inr (inv_noLive hi _ ?_)
  obtain ⟨v1, v2, v3, v4, v5, v6, v7, v8⟩ := verbs_not_go
  intro id it hmem t s hr
  cases it with
  | go v => exact absurd hmem (go_not_item h id v)
  | module p => have ht : t = _ := hr; rw [ht, headIs_cons_eq]; exact v1
  | toolchain n => have ht : t = _ := hr; rw [ht, headIs_cons_eq]; exact v2
  | godebug k v => have ht : t = _ := hr; rw [ht, headIs_cons_eq]; exact v3
  | require m i => have ht : t = _ := hr.1; rw [ht, headIs_cons_eq]; exact v4
  | exclude m => have ht : t = _ := hr; rw [ht, headIs_cons_eq]; exact v5
  | replace o n => have ht : t = _ := hr; rw [ht, headIs_cons_eq]; exact v6
  | retract vi =>
    rcases hr with ⟨x, ht, _⟩ | ⟨x, y, ht, _⟩ <;> (rw [ht, headIs_cons_eq]; exact v7)
  | tool p =>
    rcases hr with ⟨x, ht, _⟩
    rw [ht, headIs_cons_eq]; exact v8

/-- no typed `toolchain` entry ⇒ no live top-level line starts with `toolchain` -/
theorem inv_conv_toolchain {e : EFile} (hi : Inv e) (h : e.f.toolchain = none) : Conv (B "toolchain") e.f.syn.stmts := by
  refine Or.inr (inv_noLive hi _ ?_)
  obtain ⟨v1, v2, v3, v4, v5, v6, v7, v8⟩ := verbs_not_toolchain
  intro id it hmem t s hr
  cases it with
  | toolchain v => exact absurd hmem (toolchain_not_item h id v)
  | module p => have ht : t = _ := hr; rw [ht, headIs_cons_eq]; exact v1
  | go n => have ht : t = _ := hr; rw [ht, headIs_cons_eq]; exact v2
  | godebug k v => have ht : t = _ := hr; rw [ht, headIs_cons_eq]; exact v3
  | require m i => have ht : t = _ := hr.1; rw [ht, headIs_cons_eq]; exact v4
  | exclude m => have ht : t = _ := hr; rw [ht, headIs_cons_eq]; exact v5
  | replace o n => have ht : t = _ := hr; rw [ht, headIs_cons_eq]; exact v6
  | retract vi =>
    rcases hr with ⟨x, ht, _⟩ | ⟨x, y, ht, _⟩ <;> (rw [ht, headIs_cons_eq]; exact v7)
  | tool p =>
    rcases hr with ⟨x, ht, _⟩
    rw [ht, headIs_cons_eq]; exact v8

/-! ### every go.mod operation -/

theorem gb_addModule (e : EFile) (p : Bytes) (h : GB e.f.syn.stmts) : GB (addModuleStmt e p).f.syn.stmts := by
  unfold addModuleStmt
  split
  · exact gb_addLine _ _ _ _ (conv_of_verb _ verbIn_module) h
  · exact gb_updateTokens _ _ _ h

theorem gb_addGo (e e' : EFile) (v : Bytes) (hi : Inv e) (he : addGoStmt e v = .ok e') (h : GB e.f.syn.stmts) :
    GB e'.f.syn.stmts := by
  unfold addGoStmt at he
  split at he
  · cases he
  · split at he
    · rename_i hgo
      simp only [Except.ok.injEq] at he; subst he
      exact gb_addLine _ _ _ _ (inv_conv_go hi hgo) h
    · simp only [Except.ok.injEq] at he; subst he; exact gb_updateTokens _ _ _ h

theorem gb_dropGo (e : EFile) (h : GB e.f.syn.stmts) : GB (dropGoStmt e).f.syn.stmts := by
  unfold dropGoStmt
  split
  · exact gb_markRemoved _ _ h
  · exact h

theorem gb_addToolchain (e e' : EFile) (n : Bytes) (hi : Inv e) (he : addToolchainStmt e n = .ok e') (h : GB e.f.syn.stmts) :
    GB e'.f.syn.stmts := by
  unfold addToolchainStmt at he
  split at he
  · cases he
  · split at he
    · rename_i htc
      simp only [Except.ok.injEq] at he; subst he
      exact gb_addLine _ _ _ _ (inv_conv_toolchain hi htc) h
    · simp only [Except.ok.injEq] at he; subst he; exact gb_updateTokens _ _ _ h

theorem gb_dropToolchain (e : EFile) (h : GB e.f.syn.stmts) : GB (dropToolchainStmt e).f.syn.stmts := by
  unfold dropToolchainStmt
  split
  · exact gb_markRemoved _ _ h
  · exact h

theorem gb_addGodebug (e e' : EFile) (k v : Bytes) (he : addGodebug e k v = .ok e') (h : GB e.f.syn.stmts) :
    GB e'.f.syn.stmts := by
  unfold addGodebug at he
  rcases except_bind_ok he with ⟨⟨syn, gd, next⟩, hc, he⟩
  simp only [pure, Except.pure, Except.ok.injEq] at he
  rw [← he]
  unfold addGodebugCore at hc
  rcases except_bind_ok hc with ⟨⟨l', first, dead⟩, hr, hc⟩
  cases first with
  | some i =>
    simp only [pure, Except.pure, Except.ok.injEq, Prod.mk.injEq] at hc
    show GB syn.stmts
    rw [← hc.1]
    exact gb_markAll _ _ (gb_updateTokens _ _ _ h)
  | none =>
    simp only [pure, Except.pure, Except.ok.injEq, Prod.mk.injEq] at hc
    show GB syn.stmts
    rw [← hc.1]
    exact gb_addLine _ _ _ _ (conv_of_verb _ verbIn_godebug) h

theorem gb_dropGodebug (e e' : EFile) (k : Bytes) (he : dropGodebug e k = .ok e') (h : GB e.f.syn.stmts) :
    GB e'.f.syn.stmts := by
  unfold dropGodebug at he
  rcases except_bind_ok he with ⟨⟨gd, dead⟩, hc, he⟩
  simp only [pure, Except.pure, Except.ok.injEq] at he
  rw [← he]
  exact gb_markAll _ _ h

theorem gb_addNewRequire (e : EFile) (p v : Bytes) (b : Bool) (h : GB e.f.syn.stmts) :
    GB (addNewRequire e p v b).f.syn.stmts := by
  unfold addNewRequire
  exact gb_updateLine _ _ _ (gb_addLine _ _ _ _ (conv_of_verb _ verbIn_require) h)

theorem gb_addRequire (e e' : EFile) (p v : Bytes) (he : addRequire e p v = .ok e') (h : GB e.f.syn.stmts) :
    GB e'.f.syn.stmts := by
  unfold addRequire at he
  rcases except_bind_ok he with ⟨⟨l', first, dead⟩, hr, he⟩
  cases first with
  | some i =>
    simp only [pure, Except.pure, Except.ok.injEq] at he
    rw [← he]
    exact gb_markAll _ _ (gb_updateTokens _ _ _ h)
  | none =>
    simp only [pure, Except.pure, Except.ok.injEq] at he
    rw [← he]
    exact gb_addNewRequire e p v false h

theorem gb_dropRequire (e e' : EFile) (p : Bytes) (he : dropRequire e p = .ok e') (h : GB e.f.syn.stmts) :
    GB e'.f.syn.stmts := by
  unfold dropRequire at he
  rcases except_bind_ok he with ⟨⟨gd, dead⟩, hc, he⟩
  simp only [pure, Except.pure, Except.ok.injEq] at he
  rw [← he]
  exact gb_markAll _ _ h

theorem gb_addExclude (e e' : EFile) (p v : Bytes) (he : addExclude e p v = .ok e') (h : GB e.f.syn.stmts) :
    GB e'.f.syn.stmts := by
  unfold addExclude at he
  split at he
  · cases he
  · split at he
    · simp only [Except.ok.injEq] at he; subst he; exact h
    · simp only [Except.ok.injEq] at he; subst he
      exact gb_addLinePtr _ _ _ _ (conv_of_verb _ verbIn_exclude) h

theorem gb_dropExclude (e e' : EFile) (p v : Bytes) (he : dropExclude e p v = .ok e') (h : GB e.f.syn.stmts) :
    GB e'.f.syn.stmts := by
  unfold dropExclude at he
  rcases except_bind_ok he with ⟨⟨gd, dead⟩, hc, he⟩
  simp only [pure, Except.pure, Except.ok.injEq] at he
  rw [← he]
  exact gb_markAll _ _ h

theorem gb_addReplace (e e' : EFile) (a b c d : Bytes) (he : addReplace e a b c d = .ok e') (h : GB e.f.syn.stmts) :
    GB e'.f.syn.stmts := by
  unfold addReplace at he
  rcases except_bind_ok he with ⟨⟨syn, gd, next⟩, hc, he⟩
  simp only [pure, Except.pure, Except.ok.injEq] at he
  rw [← he]
  unfold addReplaceCore at hc
  rcases except_bind_ok hc with ⟨⟨l', first, dead⟩, hr, hc⟩
  cases first with
  | some i =>
    simp only [pure, Except.pure, Except.ok.injEq, Prod.mk.injEq] at hc
    show GB syn.stmts
    rw [← hc.1]
    exact gb_markAll _ _ (gb_updateTokens _ _ _ h)
  | none =>
    simp only [pure, Except.pure, Except.ok.injEq, Prod.mk.injEq] at hc
    show GB syn.stmts
    rw [← hc.1]
    exact gb_addLinePtr _ _ _ _ (conv_of_verb _ verbIn_replace) h

theorem gb_dropReplace (e e' : EFile) (a b : Bytes) (he : dropReplace e a b = .ok e') (h : GB e.f.syn.stmts) :
    GB e'.f.syn.stmts := by
  unfold dropReplace at he
  rcases except_bind_ok he with ⟨⟨syn, rp⟩, hc, he⟩
  simp only [pure, Except.pure, Except.ok.injEq] at he
  rw [← he]
  unfold dropReplaceCore at hc
  rcases except_bind_ok hc with ⟨⟨rp', dead⟩, hr, hc⟩
  simp only [pure, Except.pure, Except.ok.injEq, Prod.mk.injEq] at hc
  show GB syn.stmts
  rw [← hc.1]
  exact gb_markAll _ _ h

theorem gb_addRetract (e e' : EFile) (vi : VersionInterval) (why : Bytes) (he : addRetract e vi why = .ok e')
    (h : GB e.f.syn.stmts) : GB e'.f.syn.stmts := by
  rw [addRetract_eq] at he
  unfold addRetractP at he
  split at he
  · cases he
  · split at he
    · cases he
    · simp only [Except.ok.injEq] at he; rw [← he]
      refine gb_updateLine _ _ _ (gb_addLine _ _ _ _ ?_ h)
      split <;> exact conv_of_verb _ verbIn_retract

theorem gb_dropRetract (e e' : EFile) (vi : VersionInterval) (he : dropRetract e vi = .ok e') (h : GB e.f.syn.stmts) :
    GB e'.f.syn.stmts := by
  unfold dropRetract at he
  rcases except_bind_ok he with ⟨⟨gd, dead⟩, hc, he⟩
  simp only [pure, Except.pure, Except.ok.injEq] at he
  rw [← he]
  exact gb_markAll _ _ h

theorem gb_addTool (e : EFile) (p : Bytes) (h : GB e.f.syn.stmts) : GB (addTool e p).f.syn.stmts := by
  unfold addTool
  split
  · exact h
  · exact gb_sortBlocks _ (gb_addLine _ _ _ _ (conv_of_verb _ verbIn_tool) h)

theorem gb_dropTool (e e' : EFile) (p : Bytes) (he : dropTool e p = .ok e') (h : GB e.f.syn.stmts) :
    GB e'.f.syn.stmts := by
  unfold dropTool at he
  rcases except_bind_ok he with ⟨⟨gd, dead⟩, hc, he⟩
  simp only [pure, Except.pure, Except.ok.injEq] at he
  rw [← he]
  exact gb_markAll _ _ h

/-! ### the bulk setters -/

theorem gb_setRequireLoop (rs : List Require) : ∀ (need : List Want) (syn : FileSyntax) (rs' : List Require) (need' : List Want)
    (syn' : FileSyntax), setRequireLoop rs need syn = .ok (rs', need', syn') → GB syn.stmts → GB syn'.stmts := by
  induction rs with
  | nil =>
    intro need syn rs' need' syn' he h
    simp only [setRequireLoop, Except.ok.injEq, Prod.mk.injEq] at he
    rw [← he.2.2]; exact h
  | cons r rs ih =>
    intro need syn rs' need' syn' he h
    unfold setRequireLoop at he
    split at he
    · rename_i w hf
      rcases except_bind_ok he with ⟨i, hd, he⟩
      rcases except_bind_ok he with ⟨⟨a, b, c⟩, hr, he⟩
      simp only [pure, Except.pure, Except.ok.injEq, Prod.mk.injEq] at he
      rw [← he.2.2]
      exact ih _ _ _ _ _ hr (gb_updateLine _ _ _ h)
    · rcases except_bind_ok he with ⟨i, hd, he⟩
      rcases except_bind_ok he with ⟨⟨a, b, c⟩, hr, he⟩
      simp only [pure, Except.pure, Except.ok.injEq, Prod.mk.injEq] at he
      rw [← he.2.2]
      exact ih _ _ _ _ _ hr (gb_markRemoved _ _ h)

theorem gb_foldl_addNewRequire (ws : List Want) : ∀ e : EFile, GB e.f.syn.stmts →
    GB (ws.foldl (fun e w => addNewRequire e w.path w.vers w.indirect) e).f.syn.stmts := by
  induction ws with
  | nil => intro e h; exact h
  | cons w ws ih => intro e h; exact ih _ (gb_addNewRequire e _ _ _ h)

theorem gb_setRequire (e e' : EFile) (req : List Want) (perm : List Want → List Want)
    (he : setRequire e req perm = .ok e') (h : GB e.f.syn.stmts) : GB e'.f.syn.stmts := by
  unfold setRequire at he
  rcases except_bind_ok he with ⟨need, hn, he⟩
  rcases except_bind_ok he with ⟨⟨rq, need', syn'⟩, hr, he⟩
  simp only [pure, Except.pure, Except.ok.injEq] at he
  rw [← he]
  apply gb_sortBlocks
  apply gb_foldl_addNewRequire
  exact gb_setRequireLoop _ _ _ _ _ _ hr h

theorem gb_sepLoop (ctx : SepCtx) (need : List Want) (rs : List Require) : ∀ (have_ : List Bytes) (syn : FileSyntax) (next : Nat)
    (rs' : List Require) (h' : List Bytes) (syn' : FileSyntax) (next' : Nat),
    sepLoop ctx need rs have_ syn next = .ok (rs', h', syn', next') → GB syn.stmts → GB syn'.stmts := by
  induction rs with
  | nil =>
    intro have_ syn next rs' h' syn' next' he h
    simp only [sepLoop, Except.ok.injEq, Prod.mk.injEq] at he
    rw [← he.2.2.1]; exact h
  | cons r rs ih =>
    intro have_ syn next rs' h' syn' next' he h
    unfold sepLoop at he
    split at he
    · rename_i w hf
      split at he
      · rcases except_bind_ok he with ⟨i, hd, he⟩
        rcases except_bind_ok he with ⟨⟨a, b, c, d⟩, hr, he⟩
        simp only [pure, Except.pure, Except.ok.injEq, Prod.mk.injEq] at he
        rw [← he.2.2.1]
        exact ih _ _ _ _ _ _ _ hr (gb_markRemoved _ _ h)
      · rcases except_bind_ok he with ⟨i, hd, he⟩
        have hs1 : GB (syn.updateLine i fun l => setIndirectLine w.indirect (setVersionLine w.vers l)).stmts :=
          gb_updateLine syn i _ h
        simp only at he
        split at he
        · rcases except_bind_ok he with ⟨⟨a, b, c, d⟩, hr, he⟩
          simp only [pure, Except.pure, Except.ok.injEq, Prod.mk.injEq] at he
          rw [← he.2.2.1]
          exact ih _ _ _ _ _ _ _ hr (gb_moveExisting _ _ _ _ hs1)
        · split at he
          · rcases except_bind_ok he with ⟨⟨a, b, c, d⟩, hr, he⟩
            simp only [pure, Except.pure, Except.ok.injEq, Prod.mk.injEq] at he
            rw [← he.2.2.1]
            exact ih _ _ _ _ _ _ _ hr (gb_moveExisting _ _ _ _ hs1)
          · rcases except_bind_ok he with ⟨⟨a, b, c, d⟩, hr, he⟩
            simp only [pure, Except.pure, Except.ok.injEq, Prod.mk.injEq] at he
            rw [← he.2.2.1]
            exact ih _ _ _ _ _ _ _ hr hs1
    · rcases except_bind_ok he with ⟨i, hd, he⟩
      rcases except_bind_ok he with ⟨⟨a, b, c, d⟩, hr, he⟩
      simp only [pure, Except.pure, Except.ok.injEq, Prod.mk.injEq] at he
      rw [← he.2.2.1]
      exact ih _ _ _ _ _ _ _ hr (gb_markRemoved _ _ h)

theorem gb_addSepNew (ctx : SepCtx) (e : EFile) (w : Want) (h : GB e.f.syn.stmts) : GB (addSepNew ctx e w).f.syn.stmts := by
  unfold addSepNew
  simp only
  exact gb_appendToBlock _ _ _ h

theorem gb_foldl_addSepNew (ctx : SepCtx) (ws : List Want) : ∀ e : EFile, GB e.f.syn.stmts →
    GB (ws.foldl (addSepNew ctx) e).f.syn.stmts := by
  induction ws with
  | nil => intro e h; exact h
  | cons w ws ih => intro e h; exact ih _ (gb_addSepNew ctx e w h)

theorem gb_sepTail (e e' : EFile) (req : List Want) (perm : List Want → List Want) (ctx : SepCtx) (stmts : List Expr)
    (he : sepTail e req perm ctx stmts = .ok e') (h : GB stmts) : GB e'.f.syn.stmts := by
  unfold sepTail at he
  rcases except_bind_ok he with ⟨need, hn, he⟩
  rcases except_bind_ok he with ⟨⟨rq, hv, syn', next'⟩, hr, he⟩
  simp only [pure, Except.pure, Except.ok.injEq] at he
  rw [← he]
  apply gb_sortBlocks
  apply gb_foldl_addSepNew
  exact gb_sepLoop _ _ _ _ _ _ _ _ _ _ hr h

theorem gb_sepStage1 (stmts : List Expr) (sc : Scan) (r : List Expr × Nat × Option Nat × Option Nat × Option Nat)
    (he : sepStage1 stmts sc = .ok r) (h : GB stmts) : GB r.1 := by
  unfold sepStage1 at he
  split at he
  · split at he
    · simp only [Except.ok.injEq] at he; rw [← he]
      exact gb_insertAt _ _ _ gbx_emptyRequireBlock h
    · split at he
      · simp only [Except.ok.injEq] at he; rw [← he]
        exact gb_insertAt _ _ _ gbx_emptyRequireBlock h
      · simp only [Except.ok.injEq] at he; rw [← he]
        exact gb_append.2 ⟨h, gb_cons.2 ⟨gbx_emptyRequireBlock, GB.nil⟩⟩
  · split at he
    · rename_i s hs
      simp only [Except.ok.injEq] at he; rw [← he]
      exact gb_ensureBlock _ _ _ hs h
    · cases he

theorem gb_sepStage2 (stmts : List Expr) (dI : Nat) (lI sh : Option Nat) (r : List Expr × Nat × Option Nat)
    (he : sepStage2 stmts dI lI sh = .ok r) (h : GB stmts) : GB r.1 := by
  unfold sepStage2 at he
  split at he
  · simp only [Except.ok.injEq] at he; rw [← he]
    exact gb_insertAt _ _ _ gbx_emptyRequireBlock h
  · split at he
    · rename_i s hs
      simp only [Except.ok.injEq] at he; rw [← he]
      exact gb_ensureBlock _ _ _ hs h
    · cases he

theorem gb_setRequireSeparateIndirect (e e' : EFile) (req : List Want) (perm : List Want → List Want)
    (he : setRequireSeparateIndirect e req perm = .ok e') (h : GB e.f.syn.stmts) : GB e'.f.syn.stmts := by
  rw [setRSI_eq] at he
  cases h1 : sepStage1 e.f.syn.stmts (scanStmts e.f.syn.stmts 0 {}) with
  | error err => simp [h1] at he
  | ok r1 =>
    have g1 := gb_sepStage1 _ _ _ h1 h
    rcases r1 with ⟨s1, dI, dO, lI, sh⟩
    simp only [h1] at he
    cases h2 : sepStage2 s1 dI lI sh with
    | error err => simp [h2] at he
    | ok r2 =>
      have g2 := gb_sepStage2 _ _ _ _ _ h2 g1
      rcases r2 with ⟨s2, iI, iO⟩
      simp only [h2] at he
      exact gb_sepTail e e' req perm _ s2 he g2

/-- ★ **every go.mod operation preserves `GoodBlocks`** (arbitrary arguments; the invariant is used by `AddGoStmt` /
    `AddToolchainStmt` only: no typed entry ⇒ no live line with that verb) -/
theorem applyMod_gb (e e' : EFile) (op : Op) (hi : Inv e) (h : GB e.f.syn.stmts)
    (ha : applyMod e op = some (.ok e')) : GB e'.f.syn.stmts := by
  cases op with
  | addModule p => simp only [applyMod, Option.some.injEq, Except.ok.injEq] at ha; subst ha; exact gb_addModule e p h
  | addGo v => simp only [applyMod, Option.some.injEq] at ha; exact gb_addGo e e' v hi ha h
  | dropGo => simp only [applyMod, Option.some.injEq, Except.ok.injEq] at ha; subst ha; exact gb_dropGo e h
  | addToolchain n => simp only [applyMod, Option.some.injEq] at ha; exact gb_addToolchain e e' n hi ha h
  | dropToolchain => simp only [applyMod, Option.some.injEq, Except.ok.injEq] at ha; subst ha; exact gb_dropToolchain e h
  | addGodebug k v => simp only [applyMod, Option.some.injEq] at ha; exact gb_addGodebug e e' k v ha h
  | dropGodebug k => simp only [applyMod, Option.some.injEq] at ha; exact gb_dropGodebug e e' k ha h
  | addRequire p v => simp only [applyMod, Option.some.injEq] at ha; exact gb_addRequire e e' p v ha h
  | addNewRequire p v i =>
    simp only [applyMod, Option.some.injEq, Except.ok.injEq] at ha; subst ha; exact gb_addNewRequire e p v i h
  | dropRequire p => simp only [applyMod, Option.some.injEq] at ha; exact gb_dropRequire e e' p ha h
  | setRequire w r => simp only [applyMod, Option.some.injEq] at ha; exact gb_setRequire e e' w _ ha h
  | setRequireSeparateIndirect w r =>
    simp only [applyMod, Option.some.injEq] at ha; exact gb_setRequireSeparateIndirect e e' w _ ha h
  | addExclude p v => simp only [applyMod, Option.some.injEq] at ha; exact gb_addExclude e e' p v ha h
  | dropExclude p v => simp only [applyMod, Option.some.injEq] at ha; exact gb_dropExclude e e' p v ha h
  | addReplace a b c d => simp only [applyMod, Option.some.injEq] at ha; exact gb_addReplace e e' a b c d ha h
  | dropReplace a b => simp only [applyMod, Option.some.injEq] at ha; exact gb_dropReplace e e' a b ha h
  | addRetract lo hi' why => simp only [applyMod, Option.some.injEq] at ha; exact gb_addRetract e e' _ why ha h
  | dropRetract lo hi' => simp only [applyMod, Option.some.injEq] at ha; exact gb_dropRetract e e' _ ha h
  | addTool p => simp only [applyMod, Option.some.injEq, Except.ok.injEq] at ha; subst ha; exact gb_addTool e p h
  | dropTool p => simp only [applyMod, Option.some.injEq] at ha; exact gb_dropTool e e' p ha h
  | sortBlocks => simp only [applyMod, Option.some.injEq, Except.ok.injEq] at ha; subst ha; exact gb_sortBlocks e h
  | cleanup => simp only [applyMod, Option.some.injEq, Except.ok.injEq] at ha; subst ha; exact gb_cleanup e h
  | addUse d m => simp [applyMod] at ha
  | addNewUse d m => simp [applyMod] at ha
  | dropUse d => simp [applyMod] at ha
  | setUse w rev => simp [applyMod] at ha

/-! ### along a session -/

/-- a whole session preserves the invariant, the marker condition AND `GoodBlocks` -/
theorem runOps_gb (ops : List Op) : ∀ (e : EFile) (res0 : List Bool) (i : Nat) (e' : EFile) (res : List Bool),
    RunValidLive e ops → Inv e → MarkersSettable e.f.syn.stmts → GB e.f.syn.stmts → runOps applyMod e ops res0 i = .done e' res →
    Inv e' ∧ MarkersSettable e'.f.syn.stmts ∧ GB e'.f.syn.stmts := by
  induction ops with
  | nil =>
    intro e res0 i e' res _ hi h hg hr
    simp only [runOps, SessionResult.done.injEq] at hr
    rw [← hr.1]; exact ⟨hi, h, hg⟩
  | cons op ops ih =>
    intro e res0 i e' res hv hi h hg hr
    unfold runOps at hr
    cases ha : applyMod e op with
    | none => simp [ha] at hr
    | some r =>
      cases r with
      | ok e1 =>
        simp only [ha] at hr
        exact ih e1 _ _ e' res (hv.2.1 e1 ha) (applyMod_inv_all e e1 op (hv.1.all h) hi ha) (applyMod_good e e1 op hi h ha)
          (applyMod_gb e e1 op hi hg ha) hr
      | error err =>
        simp only [ha] at hr
        by_cases hret : err.isReturned = true
        · simp only [hret, if_true] at hr
          exact ih e _ _ e' res (hv.2.2 err ha hret) hi h hg hr
        · simp only [Bool.not_eq_true] at hret
          simp [hret] at hr

/-- … and so does the final Cleanup -/
theorem session_gb (e e' : EFile) (ops : List Op) (res : List Bool) (hi : Inv e) (hm : MarkersSettable e.f.syn.stmts)
    (hg : GoodBlocks e.f.syn.stmts) (hv : RunValidLive e ops) (h : runOps applyMod e ops [] 0 = .done e' res) :
    Inv (cleanup e') ∧ GoodBlocks (cleanup e').f.syn.stmts := by
  rcases runOps_gb ops e [] 0 e' res hv hi hm ((gb_iff _).2 hg) h with ⟨h1, _, h3⟩
  exact ⟨cleanup_inv e' h1, (gb_iff _).1 (gb_cleanup e' h3)⟩

end ModVerif.Modfile.Edit
