/-
  Tie proofs, sumdb/client.go (merge unit), INSTANTIATION part 2a: pure facts for the composition of the world-mode
  `tileHashReader.ReadHashes` tie with the client's tile reader.
  * the client model decodes a tile file with `chunks P.hashSize` / `P.dec`, the tile tie with `unflatS` (complete 32-byte
    groups): equal on files of `32·w` bytes; `bytesWidthsOk 32` is `Tile.widthsOk` after decoding;
  * the planned tiles are in the range of the client's tile ties (`TRange`), positive width, no duplicates;
  * `errAbs` of the error texts of `ReadHashes` (`MsgOK` / `MsgRefine`) is the model's error.
-/
import ModVerif.Proofs.TieFnClientMergeSpec
import ModVerif.Proofs.TieFnClientTilesA
import ModVerif.Proofs.TileAuthFinal
import ModVerif.Tie.FnTile
namespace ModVerif.TieFnClientMerge
open ModVerif ModVerif.GoRt ModVerif.Client ModVerif.TieFnClientRep ModVerif.TieFnTile ModVerif.TieFnClientTiles

/-! ### decoding tile files -/

theorem hashes32_cons (d : Bytes) (m : Nat) (hd : d.length = 32 * (m + 1)) :
    hashes32 d = d.take 32 :: hashes32 (d.drop 32) := by
  unfold hashes32
  have h1 : d.length / 32 = m + 1 := by omega
  have h2 : (d.drop 32).length / 32 = m := by simp only [List.length_drop]; omega
  rw [h1, h2, List.range_succ_eq_map, List.map_cons, List.map_map]
  congr 1
  apply List.map_congr_left
  intro i _
  simp only [Function.comp, List.drop_drop]
  congr 2
  omega

theorem chunksF_eq_hashes32 : ∀ (m f : Nat) (d : Bytes), d.length = 32 * m → m ≤ f →
    Client.chunksF 32 f d = hashes32 d := by
  intro m
  induction m with
  | zero =>
    intro f d hd _
    have : d = [] := List.eq_nil_of_length_eq_zero (by omega)
    subst this
    cases f <;> simp [Client.chunksF, hashes32]
  | succ m ih =>
    intro f d hd hf
    obtain ⟨f', rfl⟩ : ∃ f', f = f' + 1 := ⟨f - 1, by omega⟩
    have hne : d.isEmpty = false := by
      cases d with
      | nil => simp at hd
      | cons a b => rfl
    rw [Client.chunksF, hashes32_cons d m hd]
    simp only [hne, Bool.false_eq_true, if_false]
    rw [ih f' (d.drop 32) (by simp only [List.length_drop]; omega) (by omega)]

/-- a tile file of `32·w` bytes decodes alike on both sides -/
theorem decodeTile_eq {H : Type} (P : Params H) (h32 : P.hashSize = 32) (d : Bytes) (w : Nat) (hd : d.length = 32 * w) :
    Client.decodeTile P d = unflatS P.dec d := by
  unfold Client.decodeTile Client.chunks
  rw [h32, chunksF_eq_hashes32 w d.length d hd (by omega), unflatS_eq P.dec d w hd]
  rfl

theorem bytesWidthsOk_eq {H : Type} (ofBytes : Bytes → H) : ∀ (tiles : List Tile.Tile) (ds : List Bytes),
    (∀ t ∈ tiles, 1 ≤ t.w) →
    Client.bytesWidthsOk 32 tiles ds = Tile.widthsOk tiles (ds.map (unflatS ofBytes)) := by
  intro tiles
  induction tiles with
  | nil => intro ds _; cases ds <;> rfl
  | cons t ts ih =>
    intro ds hw
    cases ds with
    | nil => rfl
    | cons d dr =>
      simp only [Client.bytesWidthsOk, List.map_cons, Tile.widthsOk]
      rw [ih dr (fun t ht => hw t (List.mem_cons_of_mem _ ht))]
      have hiff := unflatS_length_iff ofBytes d t.w (hw t (List.mem_cons_self ..))
      have : (d.length == t.w * 32) = ((unflatS ofBytes d).length == t.w) := by
        rw [Bool.eq_iff_iff]
        simp only [beq_iff_eq]
        constructor
        · intro h; exact hiff.2 (by omega)
        · intro h; have := hiff.1 h; omega
      rw [this]

/-- with the widths checked, the client's table of decoded tiles is the tile tie's -/
theorem decodeTile_map_eq {H : Type} (P : Params H) (h32 : P.hashSize = 32) : ∀ (tiles : List Tile.Tile) (ds : List Bytes),
    Client.bytesWidthsOk 32 tiles ds = true → ds.map (Client.decodeTile P) = ds.map (unflatS P.dec) := by
  intro tiles
  induction tiles with
  | nil =>
    intro ds h
    cases ds with
    | nil => rfl
    | cons d dr => simp [Client.bytesWidthsOk] at h
  | cons t ts ih =>
    intro ds h
    cases ds with
    | nil => rfl
    | cons d dr =>
      simp only [Client.bytesWidthsOk, Bool.and_eq_true, beq_iff_eq] at h
      simp only [List.map_cons]
      rw [ih dr h.2, decodeTile_eq P h32 d t.w (by omega)]

/-! ### the planned tiles -/

/-- what the client's tile ties and the width check need to know about a successful plan -/
theorem plan_tiles_facts (h N : Nat) (h1 : 1 ≤ h) (h57 : h ≤ 57) (hN : N < 2 ^ 62) (idx : List Nat) (p : Tile.Plan)
    (hp : Tile.plan h N idx = .ok p) :
    (∀ t ∈ p.tiles, TRange t) ∧ (∀ t ∈ p.tiles, 1 ≤ t.w) ∧ p.tiles.Nodup := by
  have hidx := TileAuth.plan_ok_lt h N idx p hp
  obtain ⟨cs, p', hp', ok⟩ := TileAuth.plan_spec h N (by omega) (by omega) (TileAuth.split_valid N hN) idx
    (TileAuth.hidx_of_lt N hN idx hidx)
  rw [hp] at hp'; cases hp'
  have pf := planFacts_of_planOK h N h1 hN cs idx p ok
  have hnd := (TileAuth.plan_parents_first h N h1 hN idx p hp).2.2.1
  refine ⟨?_, fun t ht => (pf.w1 t ht).1, hnd⟩
  intro t ht
  have o := pf.ok t ht
  have w := pf.w1 t ht
  have hpos : 0 < 2 ^ h := Nat.two_pow_pos h
  refine ⟨TOk_of_not_data t o.data, by rw [o.hh]; omega, ?_, by rw [o.hh]; exact w.2⟩
  have hn := o.hn
  have h63 : (2 : Nat) ^ 62 < 2 ^ 63 := by decide
  have : t.n * 2 ^ h ≤ N := by
    rw [Nat.add_mul, Nat.one_mul] at hn; omega
  have : t.n ≤ t.n * 2 ^ h := Nat.le_mul_of_pos_right _ hpos
  omega

/-! ### error texts -/

theorem errAbs_hft (s : String) (h : HftMsg s) : errAbs s = .tlog .badTile := by
  rcases h with h | h | h <;> subst h <;> decide

theorem errAbs_tileLenV : errAbs "TileReader returned bad result slice (%v len=%d, want %d)" = .tileLen := by decide
theorem errAbs_tileLenN : errAbs "TileReader returned bad result slice (len=%d, want %d)" = .tlog .badTile := by decide
theorem errAbs_indexRange' : errAbs "indexes not in tree" = .tlog .indexRange := by decide
theorem errAbs_inconsistent' : errAbs "downloaded inconsistent tile" = .tlog .inconsistent := by decide
theorem errAbs_badMath1 : errAbs "bad math in tileHashReader: %d %d %v" = .tlog .badMath := by decide
theorem errAbs_badMath2 : errAbs "bad math in tileHashReader %d %v: lost parent of %v" = .tlog .badMath := by decide

theorem errAbs_badMath_wrap (lit : String) (hl : lit = "bad math in tileHashReader %d %v: lost hash of %v: %v" ∨
    lit = "bad math in tileHashReader %d %v: lost hash %v: %v") (s : String) (hs : HftMsg s) :
    RepErr (wrapErr lit (some s)) (.tlog .badMath) := by
  refine ⟨_, rfl, ?_⟩
  rcases hl with h | h <;> subst h <;> rcases hs with h | h | h <;> subst h <;> decide

/-- the error text of `ReadHashes` for a model error other than the two that need more information (`reader`: the text is
    `ReadTiles`' own; `badTile`: which of the texts) -/
theorem repErr_of_msgOK (rerr : Option String) (e : Tlog.Err) (msg : Option String) (h : MsgOK rerr e msg)
    (hr : e ≠ .reader) (hb : e ≠ .badTile) : RepErr msg (.tlog e) := by
  cases e with
  | indexRange => exact ⟨_, h, errAbs_indexRange'⟩
  | reader => exact absurd rfl hr
  | badTile => exact absurd rfl hb
  | inconsistent => exact ⟨_, h, errAbs_inconsistent'⟩
  | badMath =>
    rcases h with h | h | ⟨s, hs, h⟩ | ⟨s, hs, h⟩
    · exact ⟨_, h, errAbs_badMath1⟩
    · exact ⟨_, h, errAbs_badMath2⟩
    · rw [h]; exact errAbs_badMath_wrap _ (Or.inl rfl) s hs
    · rw [h]; exact errAbs_badMath_wrap _ (Or.inr rfl) s hs
  | _ => exact absurd h id

end ModVerif.TieFnClientMerge
