/-
  EditMore, part 18 — `KeepsBelow` (lines that existed before an operation), the sources of the ids the shared loops
  touch, and the invariant read on lines with comments.
-/
import ModVerif.Proofs.EditMoreKeepB
import ModVerif.Proofs.EditMoreSepG
set_option linter.unusedSimpArgs false
namespace ModVerif.Modfile.Edit
open ModVerif ModVerif.Modfile

/-- `Keeps` for the lines that existed before (ids below the fresh-id counter `n`) -/
def KeepsBelow (n : Nat) (S : List Nat) (a b : List Expr) : Prop :=
  ∀ x ∈ viewX a, x.id < n → x.id ∉ S → ∃ x' ∈ viewX b, x.le x'

theorem Keeps.below {S : List Nat} {a b : List Expr} (h : Keeps S a b) (n : Nat) : KeepsBelow n S a b :=
  fun x hx _ hs => h x hx hs

theorem Keeps.below_fresh {S F : List Nat} {a b : List Expr} {n : Nat} (h : Keeps (S ++ F) a b) (hF : ∀ i ∈ F, n ≤ i) :
    KeepsBelow n S a b := by
  intro x hx hlt hs
  apply h x hx
  simp only [List.mem_append, not_or]
  exact ⟨hs, fun hf => by have := hF _ hf; omega⟩

theorem KeepsBelow.trans {n : Nat} {S1 S2 : List Nat} {a b c : List Expr} (h1 : KeepsBelow n S1 a b) (h2 : KeepsBelow n S2 b c) :
    KeepsBelow n (S1 ++ S2) a c := by
  intro x hx hlt hs
  simp only [List.mem_append, not_or] at hs
  rcases h1 x hx hlt hs.1 with ⟨y, hy, hxy⟩
  rcases h2 y hy (by rw [hxy.1]; exact hlt) (by rw [hxy.1]; exact hs.2) with ⟨z, hz, hyz⟩
  exact ⟨z, hz, XLine.le_trans hxy hyz⟩

theorem KeepsBelow.mono {n : Nat} {S S' : List Nat} {a b : List Expr} (h : KeepsBelow n S a b) (hs : ∀ i ∈ S, i ∈ S') :
    KeepsBelow n S' a b :=
  fun x hx hlt hn => h x hx hlt (fun hi => hn (hs _ hi))

theorem KeepsBelow.trans_nil {n : Nat} {S : List Nat} {a b c : List Expr} (h1 : KeepsBelow n S a b) (h2 : KeepsBelow n [] b c) :
    KeepsBelow n S a c :=
  (h1.trans h2).mono (by simp)

theorem KeepsBelow.nil_trans {n : Nat} {S : List Nat} {a b c : List Expr} (h1 : KeepsBelow n [] a b) (h2 : KeepsBelow n S b c) :
    KeepsBelow n S a c :=
  (h1.trans h2).mono (by simp)

/-! ### the shared loops -/

section loops
variable {α : Type} (m : α → Bool) (id : α → Nat) (upd : α → α) (cleared : α)

theorem clearAll_src (l : List α) : ∀ (l' : List α) (dead : List Nat), clearAll m id cleared l = .ok (l', dead) →
    ∀ d ∈ dead, ∃ x ∈ l, m x = true ∧ id x = d := by
  intro l' dead h
  exact (clearAll_mem m id cleared (fun _ => false) rfl l l' dead h).2.2.2

theorem firstRest_src (l : List α) : ∀ (need : Bool) (l' : List α) (first : Option Nat) (dead : List Nat),
    firstRest m id upd cleared l need = .ok (l', first, dead) →
    (∀ d ∈ dead, ∃ x ∈ l, m x = true ∧ id x = d) ∧ (∀ i, first = some i → ∃ x ∈ l, m x = true ∧ id x = i) := by
  intro need l' first dead h
  rcases firstRest_mem m id upd cleared (fun _ => false) rfl l need l' first dead h with ⟨_, _, _, c4, c5⟩
  refine ⟨c4, ?_⟩
  intro i hi
  rcases c5 i hi with ⟨_, x0, hx0, hm0, hid0, _⟩
  exact ⟨x0, hx0, hm0, hid0⟩

end loops

/-! ### the invariant, on lines with comments -/

theorem Inv.acc_of_id {e : EFile} (hi : Inv e) {x : XLine} (hx : x ∈ viewX e.f.syn.stmts) {en : Ent} (hen : en ∈ entries e.f)
    (hid : en.id = x.id) : en.acc x.toks x.suffix := by
  rcases hi.mtch.cover en hen with ⟨v, hv, hvid, hacc⟩
  have : v = ⟨x.id, x.toks, x.suffix⟩ := view_unique hi.tree.nodup hv (view_of_viewX hx) (hvid.trans hid)
  rw [this] at hacc; exact hacc

theorem viewX_id_mem {stmts : List Expr} {x : XLine} (h : x ∈ viewX stmts) : x.id ∈ treeIds stmts :=
  view_id_mem_treeIds (view_of_viewX h)

theorem Inv.x_lt {e : EFile} (hi : Inv e) {x : XLine} (hx : x ∈ viewX e.f.syn.stmts) : x.id < e.next :=
  hi.tree.lt _ (viewX_id_mem hx)

end ModVerif.Modfile.Edit
