/-
  Tie proofs for sumdb/tlog/tile.go, part 9: `tileHashReader.ReadHashes` = `Tile.readHashes`, assembly of the phases
  (Proofs/TieFnTilePlan.lean: plan, Proofs/TieFnTileAuth.lean: authenticate / extract).
-/
import ModVerif.Proofs.TieFnTilePlan
import ModVerif.Proofs.TieFnTileAuth
import ModVerif.Proofs.TieFnTlogIntTree
set_option linter.unusedSimpArgs false
namespace ModVerif.TieFnTile
open ModVerif ModVerif.GoRt ModVerif.GoRtTile ModVerif.TieFnTlogInt

/-! ### the model's plan, decomposed -/

theorem planIndexes_append (h N : Nat) : ∀ (a b : List Nat) (st : List Tile.Tile × List (Tile.Tile × Nat) × List Nat),
    Tile.planIndexes h N (a ++ b) st = (Tile.planIndexes h N a st >>= Tile.planIndexes h N b) := by
  intro a
  induction a with
  | nil => intro b st; rfl
  | cons x a ih =>
    intro b st
    simp only [List.cons_append, Tile.planIndexes, bind, Except.bind]
    cases Tile.planIndex h N st x with
    | error e => rfl
    | ok st' => simp only; rw [ih b st']; rfl

theorem planIndexes_bad (h N x : Nat) (xs : List Nat) (st : List Tile.Tile × List (Tile.Tile × Nat) × List Nat)
    (hx : x ≥ Tlog.storedHashIndex 0 N) : Tile.planIndexes h N (x :: xs) st = .error .indexRange := by
  obtain ⟨a, b, c⟩ := st
  simp only [Tile.planIndexes, Tile.planIndex, hx, ↓reduceIte, bind, Except.bind]

theorem list_first_bad {α : Type} (P : α → Prop) [DecidablePred P] : ∀ l : List α,
    (∀ x ∈ l, P x) ∨ ∃ pre x rest, l = pre ++ x :: rest ∧ (∀ y ∈ pre, P y) ∧ ¬ P x := by
  intro l
  induction l with
  | nil => left; intro x hx; simp at hx
  | cons a l ih =>
    by_cases ha : P a
    · rcases ih with h | ⟨pre, x, rest, e, hp, hx⟩
      · left; intro x hx
        rcases List.mem_cons.mp hx with h1 | h1
        · subst h1; exact ha
        · exact h x h1
      · right
        refine ⟨a :: pre, x, rest, by rw [e]; rfl, ?_, hx⟩
        intro y hy
        rcases List.mem_cons.mp hy with h1 | h1
        · subst h1; exact ha
        · exact hp y h1
    · right; exact ⟨[], a, l, rfl, by intro y hy; simp at hy, ha⟩

theorem cover_length : ∀ (cs : List (Nat × Nat)) (lo hi : Nat), TlogStore.Cover cs lo hi → cs.length + lo ≤ hi := by
  intro cs
  induction cs with
  | nil => intro lo hi h; simp only [TlogStore.Cover] at h; simp; omega
  | cons c cs ih =>
    intro lo hi h
    obtain ⟨l, k⟩ := c
    simp only [TlogStore.Cover] at h
    have := ih _ _ h.2.2.2
    have := Nat.two_pow_pos l
    simp only [List.length_cons]; omega

/-- the planning part of the model, step by step, for every request (also with indexes outside the tree) -/
theorem plan_decomp (h N : Nat) (h1 : 1 ≤ h) (hN : N < 2 ^ 62) (idx : List Nat) :
    ∃ (cs : List (Nat × Nat)) (tiles0 : List Tile.Tile) (order0 : List (Tile.Tile × Nat)) (sto : List Nat),
      Tlog.subTreeIndex 0 N = .ok (cs.map TileAuth.idxOf) ∧ TlogStore.Cover cs 0 N ∧
      Tile.planStx h N (cs.map TileAuth.idxOf) ([], [], []) = .ok (tiles0, order0, sto) ∧
      (∀ x ∈ cs.map TileAuth.idxOf, ValidIdx N x) ∧
      (∀ e, Tile.planIndexes h N idx (tiles0, order0, []) = .error e → e = .indexRange) ∧
      Tile.plan h N idx = (match Tile.planIndexes h N idx (tiles0, order0, []) with
        | .ok res => .ok ⟨res.1, res.2.1, cs.map TileAuth.idxOf, sto, tiles0.length, res.2.2⟩
        | .error e => .error e) := by
  obtain ⟨cs, c1, _, c3⟩ := TlogStore.subTreeIndex_spec 0 N (Nat.zero_le _) (TlogStore.aligned_zero N) (by omega)
  have c1' : Tlog.subTreeIndex 0 N = .ok (cs.map TileAuth.idxOf) := c1
  have hcs : ∀ c ∈ cs, (c.2 + 1) * 2 ^ c.1 ≤ N ∧ Tlog.splitStoredHashIndex (TileAuth.idxOf c) = .ok c := by
    intro c hc
    have hv := TlogStore.cover_bound cs 0 N c3 c hc
    exact ⟨hv, TileAuth.split_valid N hN c.1 c.2 hv⟩
  obtain ⟨ext, order, sto, s1, _⟩ := TileAuth.planStx_spec h N (by omega) cs [] [] [] hcs TileAuth.look_nil
    (by intro t ht; simp at ht)
  simp only [List.nil_append] at s1
  have hplan : ∀ l, Tile.plan h N l = (match Tile.planIndexes h N l (ext, order, []) with
        | .ok res => .ok ⟨res.1, res.2.1, cs.map TileAuth.idxOf, sto, ext.length, res.2.2⟩
        | .error e => .error e) := by
    intro l
    simp only [Tile.plan, c1', s1, bind, Except.bind]
    cases Tile.planIndexes h N l (ext, order, []) with
    | error e => rfl
    | ok res => obtain ⟨a, b, c⟩ := res; rfl
  refine ⟨cs, ext, order, sto, c1', c3, s1, ?_, ?_, hplan idx⟩
  · intro x hx
    obtain ⟨c, hc, rfl⟩ := List.mem_map.mp hx
    obtain ⟨hv, hs⟩ := hcs c hc
    refine ⟨?_, c, hs, hv⟩
    rw [Tlog.storedHashIndex_zero_eq]
    exact TileAuth.idx_lt_S N c.1 c.2 hv
  · -- the only error of `planIndexes` is `indexRange`
    have hokpre : ∀ l : List Nat, (∀ x ∈ l, x < Tlog.storedHashIndex 0 N) →
        ∃ st, Tile.planIndexes h N l (ext, order, []) = .ok st := by
      intro l hl
      obtain ⟨p, hp⟩ := TileAuth.plan_terminates h N h1 hN l hl
      rw [hplan l] at hp
      cases hpi : Tile.planIndexes h N l (ext, order, []) with
      | error e => rw [hpi] at hp; cases hp
      | ok st => exact ⟨st, rfl⟩
    intro e he
    rcases list_first_bad (fun x => x < Tlog.storedHashIndex 0 N) idx with hall | ⟨pre, x, rest, hsplit, hpre, hx⟩
    · obtain ⟨st, hst⟩ := hokpre idx hall
      rw [hst] at he; cases he
    · obtain ⟨st, hst⟩ := hokpre pre hpre
      rw [hsplit, planIndexes_append, hst] at he
      simp only [bind, Except.bind] at he
      rw [planIndexes_bad h N x rest st (by omega)] at he
      cases he; rfl

/-! ### what the later phases need from a successful plan -/

theorem planFacts_of_planOK (h N : Nat) (h1 : 1 ≤ h) (hN : N < 2 ^ 62) (cs : List (Nat × Nat)) (idx : List Nat)
    (p : Tile.Plan) (ok : TileAuth.PlanOK h N cs idx p) : PlanFacts h N p.tiles p.order p.nstx := by
  have hstd : ∀ t ∈ p.tiles, ∃ L n, t = { h := h, l := L, n := n, w := min (2 ^ h) (TileAuth.cnt h N L - n * 2 ^ h) } ∧
      n * 2 ^ h < TileAuth.cnt h N L ∧ L ≤ 62 ∧ TileAuth.cnt h N L ≤ N := by
    intro t ht
    obtain ⟨L, n, e, hlt⟩ := ok.inv.std t ht
    rw [TileAuth.stdTile_of_lt h N L n hlt] at e
    have hpos : 0 < TileAuth.cnt h N L := by omega
    have hL := TileAuth.cnt_pos_level h N L (by omega) hpos
    have hlog : N.log2 < 62 := by
      by_cases h0 : N = 0
      · subst h0; simp
      · exact (Nat.log2_lt h0).mpr hN
    exact ⟨L, n, e, hlt, by omega, Nat.div_le_self _ _⟩
  refine ⟨?_, ?_, ok.inv.look, ?_⟩
  · intro t ht
    obtain ⟨L, n, e, hlt, hL, hc⟩ := hstd t ht
    subst e
    refine ⟨rfl, rfl, hL, ?_⟩
    show (n + 1) * 2 ^ h ≤ N + 2 ^ h
    rw [Nat.add_mul, Nat.one_mul]; omega
  · intro t ht
    obtain ⟨L, n, e, hlt, hL, hc⟩ := hstd t ht
    subst e
    have := Nat.two_pow_pos h
    show 1 ≤ min (2 ^ h) (TileAuth.cnt h N L - n * 2 ^ h) ∧ min (2 ^ h) (TileAuth.cnt h N L - n * 2 ^ h) ≤ 2 ^ h
    omega
  · intro i t hi ht
    obtain ⟨hfull, _⟩ := ok.inv.child i t hi ht
    obtain ⟨L, n, e, hlt, hL, hc⟩ := hstd t (List.mem_of_getElem? ht)
    subst e
    simp only at hfull ⊢
    refine ⟨hfull, ?_⟩
    have hfull' : (n + 1) * 2 ^ h ≤ TileAuth.cnt h N L := by
      rw [Nat.add_mul, Nat.one_mul]; omega
    have hv : (n + 1) * 2 ^ ((L + 1) * h) ≤ N := by
      have := (TileAuth.valid_iff' h N L h n).mpr hfull'
      have e : (L + 1) * h = L * h + h := by rw [Nat.add_mul, Nat.one_mul]
      rw [e]; exact this
    have := TileAuth.idx_lt_S N ((L + 1) * h) n hv
    have := Tlog.S_le_two_mul N
    omega

theorem cover_length_log : ∀ (cs : List (Nat × Nat)) (lo hi m : Nat), TlogStore.Cover cs lo hi → hi - lo < 2 ^ m →
    cs.length ≤ m := by
  intro cs
  induction cs with
  | nil => intro lo hi m _ _; simp
  | cons c cs ih =>
    intro lo hi m h hm
    obtain ⟨l, k⟩ := c
    simp only [TlogStore.Cover] at h
    obtain ⟨_, h2, h3, h4⟩ := h
    have := ih (lo + 2 ^ l) hi l h4 (by rw [Nat.pow_succ] at h3; omega)
    have hlm : l < m := by
      apply Nat.lt_of_not_le; intro hc
      have : 2 ^ m ≤ 2 ^ l := Nat.pow_le_pow_right (by omega) hc
      omega
    simp only [List.length_cons]; omega

section
variable {H : Type} [DecidableEq H] [Inhabited H] (node : H → H → H) (ofBytes : Bytes → H)

/-- the tiles the model plans to fetch (`[]` if the plan fails) -/
def planTiles (h N : Nat) (idx : List Nat) : List Tile.Tile :=
  match Tile.plan h N idx with
  | .ok p => p.tiles
  | .error _ => []

/-- what the model's tile server `serve` must answer on the planned tiles, given what `ReadTiles` returns for them:
    an error is "no tile"; a result of the wrong length is presented as empty tiles (rejected by the width check of the
    model like the code's `len(data) != len(tiles)`); otherwise tile `i` is `data[i]` as a list of hashes (`unflatS`) -/
def ServeRel (RT : List GTile → List Bytes × Option String) (serve : Tile.Tile → Option (List H))
    (tiles : List Tile.Tile) : Prop :=
  tiles ≠ [] →
  match RT (tiles.map toGen) with
  | (data, none) => tiles.mapM serve =
      some (if data.length = tiles.length then data.map (unflatS ofBytes) else tiles.map (fun _ => []))
  | (_, some _) => tiles.mapM serve = none

/-- the model's outcome in the result type of the generated function: `((hashes, err), effLog)` where the effect log holds
    the arguments of the (only) `SaveTiles` call -/
def rhOut (out : Tile.ReadOut H) (gtiles : List GTile) (data : List Bytes) (msg : Option String) :
    (List H × Option String) × List (List GTile × List Bytes) :=
  ((match out.result with | .ok hs => (hs, none) | .error _ => ([], msg)),
   (match out.saved with | some _ => [(gtiles, data)] | none => []))

/-- which `badTile` text: given that `ReadTiles` returned no error and the right number of tiles, a failed width check gives
    the "(%v len=%d, want %d)" text, and a `badTile` after a passed width check is one of the three `HashFromTile` texts -/
def MsgRefine (tiles : List Tile.Tile) (data : List Bytes) (rerr : Option String) (res : Except Tlog.Err (List H))
    (msg : Option String) : Prop :=
  rerr = none → data.length = tiles.length →
    (Tile.widthsOk tiles (data.map (unflatS ofBytes)) = false →
      msg = some "TileReader returned bad result slice (%v len=%d, want %d)") ∧
    (Tile.widthsOk tiles (data.map (unflatS ofBytes)) = true → res = .error .badTile → ∃ s, HftMsg s ∧ msg = some s)

theorem ReadHashes_eq_msg (fuel h N : Nat) (th : H) (idx : List Nat) (RT : List GTile → List Bytes × Option String)
    (serve : Tile.Tile → Option (List H)) (h1 : 1 ≤ h) (h57 : h ≤ 57) (hN : N < 2 ^ 62)
    (hserve : ServeRel ofBytes RT serve (planTiles h N idx)) (htl : (planTiles h N idx).length < 2 ^ 63)
    (hf : idx.length + (planTiles h N idx).length + 400 ≤ fuel) :
    ∃ msg, Generated.Tile.tileHashReader_ReadHashes node ofBytes fuel
        { tree := { N := (N : Int), Hash := th }, tr := { Height := (h : Int), ReadTiles := RT } } (idx.map Int.ofNat) =
      .ok (rhOut (Tile.readHashes node N th h idx serve) ((planTiles h N idx).map toGen)
        (RT ((planTiles h N idx).map toGen)).1 msg) ∧
      (∀ e, (Tile.readHashes node N th h idx serve).result = .error e → MsgOK (RT ((planTiles h N idx).map toGen)).2 e msg) ∧
      (∀ p, Tile.plan h N idx = .ok p → p.stx ≠ [] →
        MsgRefine ofBytes (planTiles h N idx) (RT ((planTiles h N idx).map toGen)).1 (RT ((planTiles h N idx).map toGen)).2
          (Tile.readHashes node N th h idx serve).result msg) := by
  have hnf : ∀ {b : Bool}, b = true → b = false → False := by
    intro b h1 h2; rw [h1] at h2; cases h2
  obtain ⟨cs, tiles0, order0, sto, hst, hcov, hps, hvalid, hres, hplan⟩ := plan_decomp h N h1 hN idx
  generalize hr : ({ tree := { N := (N : Int), Hash := th }, tr := { Height := (h : Int), ReadTiles := RT } } :
    Generated.Tile.tileHashReader H) = r
  have hrN : r.tree.N = (N : Int) := by rw [← hr]
  have hrH : r.tr.Height = (h : Int) := by rw [← hr]
  have hrT : r.tr.ReadTiles = RT := by rw [← hr]
  have hrTh : r.tree.Hash = th := by rw [← hr]
  generalize hstx : cs.map TileAuth.idxOf = stx at hst hps hvalid hplan
  have hstxlen : stx.length ≤ 62 := by
    rw [← hstx, List.length_map]
    exact cover_length_log cs 0 N 62 hcov (by omega)
  -- subTreeIndex
  have hsub := subTreeIndex_eq fuel 0 N [] (by omega) (by omega)
  rw [hst] at hsub
  simp only [subTreeIndexOut, List.nil_append, Int.natCast_zero] at hsub
  have hlenstx : len (stx.map Int.ofNat) = ((stx.length : Nat) : Int) := by simp [len]
  have hlenidx : len (idx.map Int.ofNat) = ((idx.length : Nat) : Int) := by simp [len]
  -- loop 1
  obtain ⟨og1, hl1, hrel1⟩ := loop1_eq node ofBytes r [] h N h1 h57 hN hrN stx stx [] [] [] [] [] fuel (tiles0, order0, sto)
    rfl rfl hvalid mapRel_nil hps (by omega)
  simp only [List.length_nil, Int.natCast_zero, List.map_nil, List.nil_append] at hl1
  -- loop 2
  have hl2 := loop2_eq node ofBytes r [] h N h1 h57 hN hrN idx idx [] tiles0 order0 [] og1 fuel rfl rfl hrel1 hres (by omega)
  simp only [List.length_nil, Int.natCast_zero, List.map_nil, List.nil_append] at hl2
  unfold Generated.Tile.tileHashReader_ReadHashes
  simp only [hrN, hrH, hsub, mbind_ok, hlenstx, makeList_natCast, hl1, hlenidx]
  cases hpi : Tile.planIndexes h N idx (tiles0, order0, []) with
  | error e =>
    have he := hres e hpi
    subst he
    rw [hpi] at hl2 hplan
    simp only at hl2 hplan
    have hpt : planTiles h N idx = [] := by simp [planTiles, hplan]
    have hout : Tile.readHashes node N th h idx serve = { saved := none, result := .error .indexRange } := by
      simp only [Tile.readHashes, hplan]
    refine ⟨some "indexes not in tree", ?_, ?_, ?_⟩
    · simp only [hl2, mbind_ok, mpure, hout, rhOut]
    · intro e he
      rw [hout] at he
      simp only [Except.error.injEq] at he
      subst he
      rfl
    · intro p hp; rw [hplan] at hp; cases hp
  | ok res =>
    obtain ⟨tiles, order, ito⟩ := res
    rw [hpi] at hl2 hplan
    simp only at hl2 hplan
    obtain ⟨og2, hg2, hrel2⟩ := hl2
    have hpt : planTiles h N idx = tiles := by simp [planTiles, hplan]
    rw [hpt] at hserve hf htl ⊢
    -- the facts about the plan
    have hlt := TileAuth.plan_ok_lt h N idx _ hplan
    obtain ⟨cs2, p2, hp2, pok⟩ := TileAuth.plan_spec h N (by omega) (by omega) (TileAuth.split_valid N hN) idx
      (TileAuth.hidx_of_lt N hN idx hlt)
    rw [hplan] at hp2
    simp only [Except.ok.injEq] at hp2
    subst hp2
    have pf := planFacts_of_planOK h N h1 hN cs2 idx _ pok
    simp only at pf
    have hstolen : sto.length = stx.length := by
      have := pok.stoLen; have := pok.stx
      simp only at *
      rw [‹sto.length = cs2.length›, ‹stx = cs2.map TileAuth.idxOf›, List.length_map]
    have hstolt : ∀ j ∈ sto, j < tiles.length := by
      intro j hj
      obtain ⟨i, hi⟩ := List.mem_iff_getElem?.mp hj
      have hil : i < sto.length := (List.getElem?_eq_some_iff.mp hi).1
      have hic : i < cs2.length := by have := pok.stoLen; simp only at this; omega
      obtain ⟨j', hj1, hj2, _⟩ := pok.sto i cs2[i] (List.getElem?_eq_getElem hic)
      simp only at hj1 hj2
      rw [hi] at hj1
      cases hj1
      have := pok.nstxLe
      simp only at this
      omega
    have hitolen : ito.length = idx.length := pok.itoLen
    have hitolt : ∀ j ∈ ito, j < tiles.length := by
      intro j hj
      obtain ⟨i, hi⟩ := List.mem_iff_getElem?.mp hj
      have hil : i < ito.length := (List.getElem?_eq_some_iff.mp hi).1
      have hii : i < idx.length := by omega
      obtain ⟨_, c, hc, _⟩ := TileAuth.hidx_of_lt N hN idx hlt idx[i] (List.getElem_mem _)
      obtain ⟨j', hj1, hj2⟩ := pok.ito i idx[i] c (List.getElem?_eq_getElem hii) hc
      simp only at hj1 hj2
      rw [hi] at hj1
      cases hj1
      exact (List.getElem?_eq_some_iff.mp hj2).1
    have hstx63 : ∀ x ∈ stx, x + 1 < 2 ^ 63 := fun x hx => validIdx_lt N x hN (hvalid x hx)
    have hidx63 : ∀ x ∈ idx, x + 1 < 2 ^ 63 := by
      intro x hx
      have := hlt x hx
      rw [Tlog.storedHashIndex_zero_eq] at this
      have := Tlog.S_le_two_mul N
      omega
    have hlentiles : len (tiles.map toGen) = ((tiles.length : Nat) : Int) := by simp [len]
    simp only [hg2, mbind_ok]
    by_cases hs0 : stx.length = 0
    · -- the empty tree
      have hstxnil : stx = [] := List.eq_nil_of_length_eq_zero hs0
      have hidxnil : idx = [] := (Tile.plan_stx_nil h N idx _ hplan hstxnil).2
      have hout : Tile.readHashes node N th h idx serve = { saved := none, result := .ok [] } := by
        simp only [Tile.readHashes, hplan, hstxnil, List.isEmpty_nil, ↓reduceIte]
      refine ⟨none, ?_, ?_, ?_⟩
      · rw [hout]
        simp only [hs0, Int.natCast_zero, decide_true, ↓reduceIte, makeList_natCast, mbind_ok, mpure, rhOut, hidxnil,
          List.length_nil, List.replicate_zero]
      · intro e he; rw [hout] at he; cases he
      · intro p hp hne
        rw [hplan] at hp
        simp only [Except.ok.injEq] at hp
        subst hp
        exact absurd hstxnil hne
    · have hs0' : ¬ (((stx.length : Nat) : Int) = 0) := by omega
      have hstxne : stx.isEmpty = false := by
        cases stx with
        | nil => simp at hs0
        | cons a b => rfl
      simp only [hs0', decide_false, Bool.false_eq_true, ↓reduceIte, hrT]
      have htne : tiles ≠ [] := by
        intro hnil
        cases hsx : sto with
        | nil => rw [hsx] at hstolen; simp at hstolen; omega
        | cons j js =>
          have := hstolt j (by rw [hsx]; simp)
          rw [hnil] at this; simp at this
      unfold ServeRel at hserve
      generalize hRT : RT (tiles.map toGen) = rt at hserve ⊢
      obtain ⟨data, err⟩ := rt
      cases err with
      | some em =>
        have hserve := hserve htne
        simp only [hRT] at hserve
        have hout : Tile.readHashes node N th h idx serve = { saved := none, result := .error .reader } := by
          simp only [Tile.readHashes, hplan, hstxne, Bool.false_eq_true, ↓reduceIte, hserve]
        refine ⟨some em, ?_, ?_, ?_⟩
        · simp only [Option.isNone_some, Bool.not_false, ↓reduceIte, mpure, hout, rhOut]
        · intro e he
          rw [hout] at he
          simp only [Except.error.injEq] at he
          subst he
          exact ⟨rfl, by simp⟩
        · intro p _ _ hr; cases hr
      | none =>
        have hserve := hserve htne
        simp only [hRT] at hserve
        simp only [Option.isNone_none, Bool.not_true, Bool.false_eq_true, ↓reduceIte, hlentiles]
        have hw1' : ∀ t ∈ tiles, 1 ≤ t.w ∧ 32 * t.w < 2 ^ 63 := by
          intro t ht
          obtain ⟨a, b⟩ := pf.w1 t ht
          have : 2 ^ h ≤ 2 ^ 57 := Nat.pow_le_pow_right (by omega) h57
          omega
        by_cases hdl : data.length = tiles.length
        case neg =>
          have hdl' : ¬ (len data = ((tiles.length : Nat) : Int)) := by simp only [len, Int.ofNat_eq_natCast]; omega
          rw [if_neg hdl] at hserve
          have hwf : Tile.widthsOk tiles (tiles.map fun _ => ([] : List H)) = false := by
            cases tiles with
            | nil => exact absurd rfl htne
            | cons t ts =>
              have := (hw1' t (by simp)).1
              simp only [List.map_cons, Tile.widthsOk, List.length_nil, Bool.and_eq_false_imp, beq_iff_eq]
              intro hc; omega
          have hout : Tile.readHashes node N th h idx serve = { saved := none, result := .error .badTile } := by
            simp only [Tile.readHashes, hplan, hstxne, Bool.false_eq_true, ↓reduceIte, hserve, hwf, Bool.not_false]
          refine ⟨some "TileReader returned bad result slice (len=%d, want %d)", ?_, ?_, ?_⟩
          · simp only [hdl', decide_false, Bool.not_false, ↓reduceIte, mpure, hout, rhOut]
          · intro e he
            rw [hout] at he
            simp only [Except.error.injEq] at he
            subst he
            exact Or.inl rfl
          · intro p _ _ _ hl; exact absurd hl hdl
        have hdl' : (len data = ((tiles.length : Nat) : Int)) := by simp only [len, hdl]; rfl
        rw [if_pos hdl] at hserve
        have hl5 := loop5_eq node ofBytes [] tiles data hdl hw1' tiles.length 0 fuel (by omega) (by omega)
        simp only [List.drop_zero, Int.natCast_zero] at hl5
        simp only [hdl', decide_true, Bool.not_true, Bool.false_eq_true, ↓reduceIte, hl5, mbind_ok]
        by_cases hwd : Tile.widthsOk tiles (data.map (unflatS ofBytes)) = true
        case neg =>
          have hout : Tile.readHashes node N th h idx serve = { saved := none, result := .error .badTile } := by
            simp only [Tile.readHashes, hplan, hstxne, Bool.false_eq_true, ↓reduceIte, hserve, hwd, Bool.not_false]
          refine ⟨some "TileReader returned bad result slice (%v len=%d, want %d)", ?_, ?_, ?_⟩
          · simp only [hwd, Bool.false_eq_true, ↓reduceIte, mpure, hout, rhOut]
          · intro e he
            rw [hout] at he
            simp only [Except.error.injEq] at he
            subst he
            exact Or.inr (Or.inl rfl)
          · intro p _ _ _ _; exact ⟨fun _ => rfl, fun hwt => absurd hwt hwd⟩
        have hw := widthsOK_of_model ofBytes tiles data (fun t ht => (hw1' t ht).1) hwd
        simp only [hwd, ↓reduceIte]
        -- the model, up to `authenticate`
        have hmodel : Tile.readHashes node N th h idx serve =
            (match Tile.authenticate node N th ⟨tiles, order, stx, sto, tiles0.length, ito⟩ (data.map (unflatS ofBytes)) with
              | .error e => { saved := none, result := .error e }
              | .ok () => { saved := some (tiles.zip (data.map (unflatS ofBytes))),
                            result := Tile.extract node ⟨tiles, order, stx, sto, tiles0.length, ito⟩
                              (data.map (unflatS ofBytes)) (idx.zip ito) }) := by
          simp only [Tile.readHashes, hplan, hstxne, Bool.false_eq_true, ↓reduceIte, hserve, hwd, Bool.not_true]
          cases Tile.authenticate node N th ⟨tiles, order, stx, sto, tiles0.length, ito⟩ (data.map (unflatS ofBytes)) <;> rfl
        rw [hmodel]
        -- the last tree-hash index
        obtain ⟨m, hm⟩ : ∃ m, stx.length = m + 1 := ⟨stx.length - 1, by omega⟩
        have hm1 : m < stx.length := by omega
        have hm2 : m < sto.length := by omega
        have hmz : m < (stx.zip sto).length := by simp; omega
        have htk : stx.zip sto = (stx.zip sto).take m ++ [(stx[m], sto[m])] := by
          have h2 := List.take_add_one (l := stx.zip sto) (i := m)
          rw [List.take_of_length_le (by simp; omega), List.getElem?_eq_getElem hmz] at h2
          simpa using h2
        have hrev : (stx.zip sto).reverse = (stx[m], sto[m]) :: ((stx.zip sto).take m).reverse := by
          conv => lhs; rw [htk]
          simp
        have e31 : ((stx.length : Nat) : Int) - 1 = (m : Int) := by omega
        have e40 : ((stx.length : Nat) : Int) - 2 = (m : Int) - 1 := by omega
        have hi1 : idxL (sto.map Int.ofNat) (m : Int) = .ok ((sto[m] : Nat) : Int) := by
          rw [idxL_natCast' (by simp; exact hm2)]; simp
        have hi2 : idxL (stx.map Int.ofNat) (m : Int) = .ok ((stx[m] : Nat) : Int) := by
          rw [idxL_natCast' (by simp; exact hm1)]; simp
        have hj := hstolt sto[m] (List.getElem_mem _)
        have hx := hstx63 stx[m] (List.getElem_mem _)
        obtain ⟨gt, d, hgt, hd, n', hhft⟩ := hft_at node ofBytes fuel tiles data hw sto[m] stx[m] hj hx (by omega)
        simp only [e31, chk64_natCast (show m < 2 ^ 63 by omega), mbind_ok, hi1, hi2, hgt, hd, hhft]
        simp only [Tile.authenticate, hrev]
        rcases hashAt_cases node ofBytes tiles data hw sto[m] stx[m] hj hx with ⟨v0, hha⟩ | hha
        case inr =>
          rw [hha]
          simp only [ebind_error]
          refine ⟨some (hftMsg tiles[sto[m]] n'), ?_, ?_, ?_⟩
          · simp [hftOut, mpure, rhOut]
          · intro e he
            simp only [Except.error.injEq] at he
            subst he
            exact Or.inr (Or.inr ⟨_, hftMsg_ok _ _, rfl⟩)
          · intro p _ _ _ _; exact ⟨fun hwf => (hnf hwd hwf).elim, fun _ _ => ⟨_, hftMsg_ok _ _, rfl⟩⟩
        rw [hha]
        have hc40 : chk64 ((m : Int) - 1) = .ok ((m : Int) - 1) := by apply chk64_ok <;> omega
        simp only [ebind_ok, hftOut, Option.isNone_none, Bool.not_true, Bool.false_eq_true, ↓reduceIte, e40, hc40, mbind_ok]
        have hl6 := loop6_eq node ofBytes [] tiles data hw stx sto hstolen (by omega) hstolt hstx63 m fuel v0 (by omega) (by omega)
        cases hsf : Tile.stxFold node tiles (data.map (unflatS ofBytes)) ((stx.zip sto).take m).reverse v0 with
        | error e6 =>
          rw [hsf] at hl6
          obtain ⟨he6, msg, hmsg, hg6⟩ := hl6
          subst he6
          refine ⟨some msg, ?_, ?_, ?_⟩
          · simp [hg6, mbind_ok, mpure, ebind_error, rhOut]
          · intro e he
            simp only [ebind_error, Except.error.injEq] at he
            subst he
            exact Or.inr (Or.inr ⟨_, hmsg, rfl⟩)
          · intro p _ _ _ _; exact ⟨fun hwf => (hnf hwd hwf).elim, fun _ _ => ⟨_, hmsg, rfl⟩⟩
        | ok th' =>
          rw [hsf] at hl6
          simp only at hl6
          simp only [hl6, mbind_ok, ebind_ok, hrTh]
          by_cases hth : th' = th
          case neg =>
            have hb : (th' != th) = true := by simp [hth]
            refine ⟨some "downloaded inconsistent tile", ?_, ?_, ?_⟩
            · simp [hth, hb, mpure, rhOut]
            · intro e he
              simp only [hb, ↓reduceIte, Except.error.injEq] at he
              subst he
              rfl
            · intro p _ _ _ _
              refine ⟨fun hwf => (hnf hwd hwf).elim, fun _ hres => ?_⟩
              simp only [hb, ↓reduceIte, Except.error.injEq] at hres
              cases hres
          subst hth
          have hlen0 : len (tiles0.map toGen) = ((tiles0.length : Nat) : Int) := by simp [len]
          have hnle : tiles0.length ≤ tiles.length := pok.nstxLe
          have hl7 := loop7_eq node ofBytes [] r
            h N h1 h57 hN hrN (idx.map Int.ofNat) ⟨tiles, order, stx, sto, tiles0.length, ito⟩ og2 hrel2 pf data hw (by simp only; omega)
            none (tiles.length - tiles0.length) tiles0.length fuel (Nat.le_refl _) (by simp only; omega) (by omega)
          simp only at hl7
          simp only [bne_self_eq_false, Bool.false_eq_true, ↓reduceIte, decide_true, Bool.not_true, hlen0]
          cases hac : Tile.authChildren node N ⟨tiles, order, stx, sto, tiles0.length, ito⟩ (data.map (unflatS ofBytes))
              (tiles.length - tiles0.length) tiles0.length with
          | error e7 =>
            rw [hac] at hl7
            obtain ⟨hk7, msg, hmsg, hg7⟩ := hl7
            refine ⟨msg, ?_, ?_, ?_⟩
            · simp [hg7, mbind_ok, mpure, rhOut]
            · intro e he
              simp only [Except.error.injEq] at he
              subst he
              exact hmsg
            · intro p _ _ _ _
              refine ⟨fun hwf => (hnf hwd hwf).elim, fun _ hres => ?_⟩
              simp only [Except.error.injEq] at hres
              subst hres
              rcases hk7 with h | h <;> cases h
          | ok u =>
            rw [hac] at hl7
            simp only at hl7
            simp only [hl7, mbind_ok, List.nil_append]
            have hl8 := loop8_eq node ofBytes [(tiles.map toGen, data)] r tiles data hw idx ito
              ⟨tiles, order, stx, sto, tiles0.length, ito⟩ rfl hitolen hitolt hidx63 idx [] ito [] fuel rfl rfl rfl (by omega)
            simp only [List.length_nil, Int.natCast_zero, List.nil_append] at hl8
            cases hex : Tile.extract node ⟨tiles, order, stx, sto, tiles0.length, ito⟩ (data.map (unflatS ofBytes)) (idx.zip ito) with
            | error e8 =>
              rw [hex] at hl8
              obtain ⟨he8, msg, hmsg, hg8⟩ := hl8
              subst he8
              refine ⟨wrapErr "bad math in tileHashReader %d %v: lost hash %v: %v" (some msg), ?_, ?_, ?_⟩
              · simp [hg8, mbind_ok, mpure, rhOut]
              · intro e he
                simp only [Except.error.injEq] at he
                subst he
                exact Or.inr (Or.inr (Or.inr ⟨_, hmsg, rfl⟩))
              · intro p _ _ _ _
                refine ⟨fun hwf => (hnf hwd hwf).elim, fun _ hres => ?_⟩
                simp only [Except.error.injEq] at hres
                cases hres
            | ok vs =>
              rw [hex] at hl8
              simp only at hl8
              refine ⟨none, ?_, ?_, ?_⟩
              · simp [hl8, mbind_ok, mpure, rhOut]
              · intro e he; cases he
              · intro p _ _ _ _
                exact ⟨fun hwf => (hnf hwd hwf).elim, fun _ hres => by cases hres⟩

/-- the tie without the refinement of the `badTile` text -/
theorem ReadHashes_eq (fuel h N : Nat) (th : H) (idx : List Nat) (RT : List GTile → List Bytes × Option String)
    (serve : Tile.Tile → Option (List H)) (h1 : 1 ≤ h) (h57 : h ≤ 57) (hN : N < 2 ^ 62)
    (hserve : ServeRel ofBytes RT serve (planTiles h N idx)) (htl : (planTiles h N idx).length < 2 ^ 63)
    (hf : idx.length + (planTiles h N idx).length + 400 ≤ fuel) :
    ∃ msg, Generated.Tile.tileHashReader_ReadHashes node ofBytes fuel
        { tree := { N := (N : Int), Hash := th }, tr := { Height := (h : Int), ReadTiles := RT } } (idx.map Int.ofNat) =
      .ok (rhOut (Tile.readHashes node N th h idx serve) ((planTiles h N idx).map toGen)
        (RT ((planTiles h N idx).map toGen)).1 msg) ∧
      ∀ e, (Tile.readHashes node N th h idx serve).result = .error e → MsgOK (RT ((planTiles h N idx).map toGen)).2 e msg := by
  obtain ⟨msg, a, b, _⟩ := ReadHashes_eq_msg node ofBytes fuel h N th idx RT serve h1 h57 hN hserve htl hf
  exact ⟨msg, a, b⟩

end
end ModVerif.TieFnTile
