/-
  EditWork, part 10 — C16 `perm_independent` (full) for SetRequireSeparateIndirect: its missing entries are appended, by
  statement index, to the direct and the indirect `require` block (`appendToBlock`); the two trees agree statement by
  statement up to the order of the lines appended to those two blocks and their fresh ids (`appendMany_get`), hence after
  SortBlocks up to the fresh ids (`pointwise_sort_norm`, `block_perm_invariant`), and `Format` gives the same bytes.
-/
import ModVerif.Proofs.EditWorkPermD
set_option linter.unusedSimpArgs false
namespace ModVerif.Modfile.Edit
open ModVerif ModVerif.Modfile ModVerif.EditSpec

/-! ### appending to blocks by index -/

def appendMany (T : List Expr) (adds : List (Nat × Line)) : List Expr := adds.foldl (fun s a => appendToBlock s a.1 a.2) T

theorem appendToBlock_length (T : List Expr) (i : Nat) (l : Line) : (appendToBlock T i l).length = T.length := by
  unfold appendToBlock
  split <;> simp

theorem appendMany_length (adds : List (Nat × Line)) : ∀ T : List Expr, (appendMany T adds).length = T.length := by
  induction adds with
  | nil => intro T; rfl
  | cons a adds ih => intro T; simp only [appendMany, List.foldl_cons] at ih ⊢; rw [ih, appendToBlock_length]

/-- the statement at index `k` after the additions -/
def grown (x : Option Expr) (k : Nat) (adds : List (Nat × Line)) : Option Expr :=
  match x with
  | some (.lineBlock b) => some (.lineBlock { b with lines := b.lines ++ (adds.filter (fun a => a.1 == k)).map (·.2) })
  | x => x

theorem appendToBlock_get_same (T : List Expr) (k : Nat) (l : Line) :
    (appendToBlock T k l)[k]? = grown T[k]? k [(k, l)] := by
  unfold appendToBlock
  cases hk : T[k]? with
  | none => simp [grown, hk]
  | some x =>
    have hlt : k < T.length := (List.getElem?_eq_some_iff.1 hk).1
    cases x with
    | lineBlock b => simp [grown, hlt]
    | line l' => simp [grown, hk]
    | commentBlock c => simp [grown, hk]
    | lparen c => simp [grown, hk]
    | rparen c => simp [grown, hk]

theorem appendToBlock_get_other (T : List Expr) (i k : Nat) (l : Line) (h : i ≠ k) : (appendToBlock T i l)[k]? = T[k]? := by
  unfold appendToBlock
  split
  · rw [List.getElem?_set_ne h]
  · rfl

theorem grown_grown (x : Option Expr) (k : Nat) (a b : List (Nat × Line)) : grown (grown x k a) k b = grown x k (a ++ b) := by
  cases x with
  | none => rfl
  | some y =>
    cases y with
    | lineBlock blk => simp [grown, List.filter_append, List.append_assoc]
    | line l => rfl
    | commentBlock c => rfl
    | lparen c => rfl
    | rparen c => rfl

theorem grown_skip (x : Option Expr) (k : Nat) (a : Nat × Line) (adds : List (Nat × Line)) (h : a.1 ≠ k) :
    grown x k (a :: adds) = grown x k adds := by
  have : (a.1 == k) = false := by simp [h]
  cases x with
  | none => rfl
  | some y => cases y <;> simp [grown, List.filter_cons, this]

theorem appendMany_get (adds : List (Nat × Line)) : ∀ (T : List Expr) (k : Nat), (appendMany T adds)[k]? = grown T[k]? k adds := by
  induction adds with
  | nil =>
    intro T k
    cases hk : T[k]? with
    | none => simp [appendMany, grown, hk]
    | some y => cases y <;> simp [appendMany, grown, hk]
  | cons a adds ih =>
    intro T k
    have := ih (appendToBlock T a.1 a.2) k
    simp only [appendMany, List.foldl_cons] at this ⊢
    rw [this]
    by_cases h : a.1 = k
    · rw [h, appendToBlock_get_same, grown_grown]
      have : a = (k, a.2) := by rw [← h]
      rw [this]; rfl
    · rw [appendToBlock_get_other _ _ _ _ h, grown_skip _ _ _ _ h]

/-! ### statement by statement -/

theorem dropKilled_cons (K : List Nat) (x : Expr) (xs : List Expr) : dropKilled K (x :: xs) = dropKilled K [x] ++ dropKilled K xs := by
  rw [← dropKilled_append]; rfl

/-- two trees that agree statement by statement after SortBlocks (up to the fresh ids) agree as a whole -/
theorem pointwise_sort_norm (n : Nat) (K : List Nat) (sem work : Bool) : ∀ (T1 T2 : List Expr), T1.length = T2.length →
    (∀ (k : Nat) (x1 x2 : Expr), T1[k]? = some x1 → T2[k]? = some x2 →
      (sortStmts sem work (dropKilled K [x1])).map (normStmt n) = (sortStmts sem work (dropKilled K [x2])).map (normStmt n)) →
    (sortStmts sem work (dropKilled K T1)).map (normStmt n) = (sortStmts sem work (dropKilled K T2)).map (normStmt n) := by
  intro T1
  induction T1 with
  | nil =>
    intro T2 hl _
    cases T2 with
    | nil => rfl
    | cons _ _ => simp at hl
  | cons x xs ih =>
    intro T2 hl h
    cases T2 with
    | nil => simp at hl
    | cons y ys =>
      rw [dropKilled_cons K x xs, dropKilled_cons K y ys, sortStmts_append, sortStmts_append, List.map_append, List.map_append]
      rw [h 0 x y rfl rfl, ih ys (by simpa using hl) (fun k x1 x2 h1 h2 => h (k + 1) x1 x2 (by simpa using h1) (by simpa using h2))]

/-! ### the additions of SetRequireSeparateIndirect -/

def sepIdx (ctx : SepCtx) (w : Want) : Nat := if w.indirect then ctx.indirectIdx else ctx.directIdx

def sepAdds (ctx : SepCtx) (n : Nat) : List Want → List (Nat × Line)
  | [] => []
  | w :: ws => (sepIdx ctx w, sepNewLine n w) :: sepAdds ctx (n + 1) ws

theorem foldl_addSepNew_stmts (ctx : SepCtx) (ws : List Want) : ∀ e : EFile,
    (ws.foldl (addSepNew ctx) e).f.syn.stmts = appendMany e.f.syn.stmts (sepAdds ctx e.next ws) := by
  induction ws with
  | nil => intro e; rfl
  | cons w ws ih =>
    intro e
    simp only [List.foldl_cons, sepAdds, appendMany]
    rw [ih]
    rfl

theorem foldl_addSepNew_hdr (ctx : SepCtx) (ws : List Want) : ∀ e : EFile,
    (ws.foldl (addSepNew ctx) e).f.syn.comments = e.f.syn.comments := by
  induction ws with
  | nil => intro e; rfl
  | cons w ws ih => intro e; simp only [List.foldl_cons]; rw [ih]; rfl

theorem sepNewLine_norm (n m : Nat) (h : n ≤ m) (w : Want) : normLine n (sepNewLine m w) = sepNewLine n w := by
  have hid := (sepNewLine_props m w).1
  unfold normLine
  rw [hid]
  simp only [h, if_true]
  unfold sepNewLine
  split
  · rw [setIndirectLine_setId]; rfl
  · rfl

theorem sepAdds_filter_norm (ctx : SepCtx) (n k : Nat) (ws : List Want) : ∀ m, n ≤ m →
    (((sepAdds ctx m ws).filter (fun a => a.1 == k)).map (·.2)).map (normLine n)
      = (ws.filter (fun w => sepIdx ctx w == k)).map (sepNewLine n) := by
  induction ws with
  | nil => intro m _; rfl
  | cons w ws ih =>
    intro m hm
    simp only [sepAdds, List.filter_cons]
    split
    · simp only [List.map_cons, ih (m + 1) (Nat.le_succ_of_le hm), sepNewLine_norm n m hm]
    · exact ih (m + 1) (Nat.le_succ_of_le hm)

theorem sepAdds_filter_tokens (ctx : SepCtx) (k : Nat) (ws : List Want) : ∀ m,
    (((sepAdds ctx m ws).filter (fun a => a.1 == k)).map (·.2)).map (·.token)
      = (ws.filter (fun w => sepIdx ctx w == k)).map (fun w => [autoQuote w.path, w.vers]) := by
  induction ws with
  | nil => intro m; rfl
  | cons w ws ih =>
    intro m
    simp only [sepAdds, List.filter_cons]
    split
    · simp only [List.map_cons, ih (m + 1), (sepNewLine_props m w).2.1]
    · exact ih (m + 1)

theorem sepAdds_ids_ge (ctx : SepCtx) (ws : List Want) : ∀ m, ∀ a ∈ sepAdds ctx m ws, m ≤ a.2.id := by
  induction ws with
  | nil => intro m a ha; cases ha
  | cons w ws ih =>
    intro m a ha
    simp only [sepAdds, List.mem_cons] at ha
    rcases ha with rfl | ha
    · rw [(sepNewLine_props m w).1]; exact Nat.le_refl _
    · exact Nat.le_trans (Nat.le_succ m) (ih (m + 1) a ha)

theorem sepAdds_idx (ctx : SepCtx) (ws : List Want) : ∀ m, ∀ a ∈ sepAdds ctx m ws, a.1 = ctx.directIdx ∨ a.1 = ctx.indirectIdx := by
  induction ws with
  | nil => intro m a ha; cases ha
  | cons w ws ih =>
    intro m a ha
    simp only [sepAdds, List.mem_cons] at ha
    rcases ha with rfl | ha
    · simp only [sepIdx]; split
      · exact Or.inr rfl
      · exact Or.inl rfl
    · exact ih (m + 1) a ha

/-- **C16 `perm_independent` (full), the tail of SetRequireSeparateIndirect** -/
theorem sepTail_format_perm_independent (e e1 e2 : EFile) (req : List Want) (p1 p2 : List Want → List Want)
    (hp1 : ∀ l, (p1 l).Perm l) (hp2 : ∀ l, (p2 l).Perm l)
    (hg : GoodWant req) (hi : Inv e) (hlive : ∀ r ∈ e.f.require, liveRq r = true) (hset : NoNestedIndirectMarker e)
    (ctx : SepCtx) (stmts : List Expr) (hgood : SepGood e.f.syn.stmts ctx.directIdx ctx.indirectIdx stmts)
    (h1 : sepTail e req p1 ctx stmts = .ok e1) (h2 : sepTail e req p2 ctx stmts = .ok e2) :
    format e1.f.syn = format e2.f.syn ∧ format (cleanup e1).f.syn = format (cleanup e2).f.syn := by
  unfold sepTail at h1 h2
  rw [needMap_distinct false req [] (by simpa using hg.1)] at h1 h2
  simp only [bind, Except.bind, List.nil_append] at h1 h2
  cases hr : sepLoop ctx req e.f.require [] { e.f.syn with stmts := stmts } e.next with
  | error err => simp [hr] at h1
  | ok res =>
    rcases res with ⟨rq, have', syn', next'⟩
    simp only [hr, pure, Except.pure, Except.ok.injEq] at h1 h2
    subst h1; subst h2
    have hw0 : TreeWF stmts e.next :=
      ⟨by rw [hgood.ids_eq]; exact hi.tree.nodup, by rw [hgood.ids_eq]; exact hi.tree.lt, by rw [hgood.ids_eq]; exact hi.tree.pos,
       hgood.shape.blockTok, hgood.shape.flagTop, hgood.shape.flagIn, hgood.shape.noBlockSuffix⟩
    have hm0 : Match (segA_require e.f ++ (entsOf liveRq entRq ([] ++ e.f.require) ++ segC_require e.f)) (view stmts) := by
      simp only [List.nil_append]; rw [← entries_require, hgood.view_eq]; exact hi.mtch
    have hset0 : ∀ r ∈ e.f.require, ∀ v ∈ view stmts, v.id = r.lineId → MarkerSettable v.suffix := by
      intro r hr v hv; rw [hgood.view_eq] at hv; exact hset r hr v hv
    rcases sepLoop_inv (A := segA_require e.f) (C := segC_require e.f) ctx req e.f.require [] [] { e.f.syn with stmts := stmts } e.next
      rq have' syn' next' hlive hw0 hi.tinv.pos hm0 hgood.direct hgood.indirect hset0 hr with ⟨hw', hle, hm', hbd', hbi'⟩
    have hi1 : Inv (⟨{ e.f with require := rq, syn := syn' }, next'⟩ : EFile) := by
      refine ⟨hw', ?_, hi.tinv.of_same rfl rfl rfl hle⟩
      simp only [List.nil_append] at hm'
      rw [entries_require]; exact hm'
    generalize hE : (⟨{ e.f with require := rq, syn := syn' }, next'⟩ : EFile) = E0 at hi1
    have hbd : BlockAt E0.f.syn.stmts ctx.directIdx := by rw [← hE]; exact hbd'
    have hbi : BlockAt E0.f.syn.stmts ctx.indirectIdx := by rw [← hE]; exact hbi'
    generalize hw1 : (p1 req).filter (fun w => !have'.contains w.path) = ws1
    generalize hw2 : (p2 req).filter (fun w => !have'.contains w.path) = ws2
    have hperm : ws1.Perm ws2 := by
      rw [← hw1, ← hw2]; exact ((hp1 req).trans (hp2 req).symm).filter _
    have hpw : ws1.Pairwise (fun a b => a.path ≠ b.path) := by
      rw [← hw1]
      exact (((hp1 req).pairwise_iff (fun {a b} h => Ne.symm h)).2 hg.1).sublist List.filter_sublist
    -- the two trees before SortBlocks
    have hsort : ∀ ws : List Want, (sortBlocks (ws.foldl (addSepNew ctx) E0)).f.syn.stmts
        = sortStmts (semOf E0.f) false (dropKilled (kill3 E0.f) (appendMany E0.f.syn.stmts (sepAdds ctx E0.next ws))) := by
      intro ws
      rw [sortBlocks_stmts, foldl_addSepNew_stmts]
      rcases foldl_addSepNew_fields ctx ws E0 with ⟨f1, f2, f3⟩
      rw [kill3_congr (g := E0.f) f1 f2 f3]
      unfold semOf
      rw [foldl_addSepNew_go]
    have htree : (sortBlocks (ws1.foldl (addSepNew ctx) E0)).f.syn.stmts.map (normStmt E0.next)
        = (sortBlocks (ws2.foldl (addSepNew ctx) E0)).f.syn.stmts.map (normStmt E0.next) := by
      rw [hsort, hsort]
      refine pointwise_sort_norm E0.next (kill3 E0.f) (semOf E0.f) false _ _ (by rw [appendMany_length, appendMany_length]) ?_
      intro k x1 x2 hx1 hx2
      rw [appendMany_get] at hx1 hx2
      cases hk : E0.f.syn.stmts[k]? with
      | none => rw [hk] at hx1; simp [grown] at hx1
      | some y =>
        rw [hk] at hx1 hx2
        have hsame : ∀ z, (∀ b, y ≠ .lineBlock b) → grown (some y) k z = some y := by
          intro z hnb
          cases y with
          | lineBlock b => exact absurd rfl (hnb b)
          | line l => rfl
          | commentBlock c => rfl
          | lparen c => rfl
          | rparen c => rfl
        cases y with
        | lineBlock blk =>
          simp only [grown, Option.some.injEq] at hx1 hx2
          subst hx1; subst hx2
          by_cases hkk : k = ctx.directIdx ∨ k = ctx.indirectIdx
          · have htok : blk.token = [B "require"] := by
              rcases hkk with rfl | rfl
              · rcases hbd with ⟨b', hb', ht⟩; rw [hk] at hb'; simp only [Option.some.injEq, Expr.lineBlock.injEq] at hb'; rw [hb']; exact ht
              · rcases hbi with ⟨b', hb', ht⟩; rw [hk] at hb'; simp only [Option.some.injEq, Expr.lineBlock.injEq] at hb'; rw [hb']; exact ht
            refine block_perm_invariant E0.next (kill3 E0.f) hi1.kill3_lt (semOf E0.f) false blk
              (lessFor_require _ _ (by rw [htok]; simp [headIs])) blk.lines _ _ ?_ ?_ ?_ ?_
            · intro l hl
              rcases List.mem_map.1 hl with ⟨a, ha, rfl⟩
              exact sepAdds_ids_ge ctx ws1 E0.next a (List.mem_filter.1 ha).1
            · intro l hl
              rcases List.mem_map.1 hl with ⟨a, ha, rfl⟩
              exact sepAdds_ids_ge ctx ws2 E0.next a (List.mem_filter.1 ha).1
            · rw [sepAdds_filter_norm ctx E0.next k ws1 E0.next (Nat.le_refl _),
                sepAdds_filter_norm ctx E0.next k ws2 E0.next (Nat.le_refl _)]
              exact (hperm.filter _).map _
            · have : (((sepAdds ctx E0.next ws1).filter (fun a => a.1 == k)).map (·.2)).Pairwise
                  (fun a b => (fun l : Line => l.token) a ≠ (fun l : Line => l.token) b) := by
                rw [← List.pairwise_map, sepAdds_filter_tokens, List.pairwise_map]
                refine (hpw.sublist List.filter_sublist).imp ?_
                intro a b hab heq
                simp only [List.cons.injEq, and_true] at heq
                exact hab (autoQuote_injective heq.1)
              exact this
          · have hnone : ∀ ws : List Want, (sepAdds ctx E0.next ws).filter (fun a => a.1 == k) = [] := by
              intro ws
              apply List.filter_eq_nil_iff.2
              intro a ha hak
              have := sepAdds_idx ctx ws E0.next a ha
              rw [eq_of_beq hak] at this
              exact hkk this
            rw [hnone, hnone]
        | line l =>
          rw [hsame _ (fun b hb => by cases hb)] at hx1 hx2
          simp only [Option.some.injEq] at hx1 hx2; rw [← hx1, ← hx2]
        | commentBlock c =>
          rw [hsame _ (fun b hb => by cases hb)] at hx1 hx2
          simp only [Option.some.injEq] at hx1 hx2; rw [← hx1, ← hx2]
        | lparen c =>
          rw [hsame _ (fun b hb => by cases hb)] at hx1 hx2
          simp only [Option.some.injEq] at hx1 hx2; rw [← hx1, ← hx2]
        | rparen c =>
          rw [hsame _ (fun b hb => by cases hb)] at hx1 hx2
          simp only [Option.some.injEq] at hx1 hx2; rw [← hx1, ← hx2]
    have hc : (sortBlocks (ws1.foldl (addSepNew ctx) E0)).f.syn.comments = (sortBlocks (ws2.foldl (addSepNew ctx) E0)).f.syn.comments := by
      rw [sortBlocks_hdr, sortBlocks_hdr, foldl_addSepNew_hdr, foldl_addSepNew_hdr]
    refine ⟨format_eq_of_norm E0.next _ _ hc htree, format_eq_of_norm E0.next _ _ hc ?_⟩
    show (cleanupStmts _).map (normStmt E0.next) = (cleanupStmts _).map (normStmt E0.next)
    rw [← cleanupStmts_norm, ← cleanupStmts_norm, htree]

/-- **C16 `perm_independent` (full), SetRequireSeparateIndirect**: the formatted file is the same byte string for every
    map-iteration order, directly after the call and after Cleanup -/
theorem setRequireSeparateIndirect_format_perm_independent (e e1 e2 : EFile) (want : List Want) (p1 p2 : List Want → List Want)
    (hp1 : ∀ l, (p1 l).Perm l) (hp2 : ∀ l, (p2 l).Perm l) (hg : GoodWant want) (hi : Inv e)
    (hlive : ∀ r ∈ e.f.require, liveRq r = true) (hset : NoNestedIndirectMarker e)
    (h1 : setRequireSeparateIndirect e want p1 = .ok e1) (h2 : setRequireSeparateIndirect e want p2 = .ok e2) :
    format e1.f.syn = format e2.f.syn ∧ format (cleanup e1).f.syn = format (cleanup e2).f.syn := by
  rw [setRSI_eq] at h1 h2
  cases hs1 : sepStage1 e.f.syn.stmts (scanStmts e.f.syn.stmts 0 {}) with
  | error err => simp [hs1] at h1
  | ok r1 =>
    rcases r1 with ⟨s1, dI, dO, lI, sh⟩
    simp only [hs1] at h1 h2
    cases hs2 : sepStage2 s1 dI lI sh with
    | error err => simp [hs2] at h1
    | ok r2 =>
      rcases r2 with ⟨s2, iI, iO⟩
      simp only [hs2] at h1 h2
      have hgood := sepStage_spec e.f.syn.stmts hi.tree.shape hi.view2 _ (scan_inv _) hs1 hs2
      exact sepTail_format_perm_independent e e1 e2 want p1 p2 hp1 hp2 hg hi hlive hset _ s2 hgood h1 h2

end ModVerif.Modfile.Edit
