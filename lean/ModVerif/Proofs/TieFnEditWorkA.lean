/-
  Helper lemmas for Tie/FnEditWork.lean (the go.work edit operations of Generated/FnEdit.lean against the hand model
  Model/Modfile/Edit.lean over `FnEditRep.RepW`), part A:
  * `AutoQuote` of the Edit unit (a textual copy of the Modfile unit's) = the model's `autoQuote`;
  * list facts (`set` in the middle of an append, `idxL` in the middle);
  * the representation `RepWAt` under the heap changes the go.work operations make: a typed object overwritten
    (`setGodebug`, `setUse`, `setReplace`, `setGo`, `setToolchain`), a typed object allocated and appended
    (`pushGodebug`, `pushUse`), the scalar entries set or dropped;
  * facts about the model's shared loops `clearAll` / `firstRest` / `markAll`.
  Owner: edit-work.
-/
import ModVerif.Proofs.TieFnEditRep
import ModVerif.Proofs.TieFnEditTreeA
import ModVerif.Proofs.TieFnModfileQuote
set_option linter.unusedSimpArgs false
set_option linter.unusedVariables false
namespace ModVerif.Tie.FnEditWorkA
open ModVerif ModVerif.GoRt ModVerif.Generated.Edit ModVerif.Tie.FnEditRep ModVerif.Tie.FnEditTreeA
open ModVerif.Modfile.Edit (EWork clearAll firstRest markAll deref nilId clearedUse clearedGodebug clearedReplace treeIds)

/-! ### AutoQuote -/

theorem MustQuote_loop1_same (isPrint : Int → Bool) (s : Bytes) : ∀ (fuel : Nat) (i : Int),
    MustQuote_loop1 isPrint s fuel i = Generated.Modfile.MustQuote_loop1 isPrint s fuel i := by
  intro fuel
  induction fuel with
  | zero => intro i; rfl
  | succ n ih =>
    intro i
    unfold MustQuote_loop1 Generated.Modfile.MustQuote_loop1
    simp only [ih]

theorem AutoQuote_same (isPrint : Int → Bool) (quote : Bytes → Bytes) (fuel : Nat) (s : Bytes) :
    AutoQuote isPrint quote fuel s = Generated.Modfile.AutoQuote isPrint quote fuel s := by
  unfold AutoQuote Generated.Modfile.AutoQuote MustQuote Generated.Modfile.MustQuote
  simp only [MustQuote_loop1_same]
  rfl

/-- the driver's instantiation of the two world functions -/
theorem AutoQuote_eq (s : Bytes) (fuel : Nat) (hf : s.length + 1 ≤ fuel) :
    AutoQuote Drv.GenEdit.isPrintI Drv.GenEdit.quoteI fuel s = .ok (Modfile.autoQuote s) := by
  rw [AutoQuote_same]
  exact ModVerif.TieFnModfile.AutoQuote_eq s fuel hf

/-! ### lists -/

theorem set_append_mid {α : Type} (a : List α) (x : α) (b : List α) (y : α) :
    (a ++ x :: b).set a.length y = a ++ y :: b := by
  induction a with
  | nil => rfl
  | cons c a ih => simp [ih]

theorem getElem?_append_mid {α : Type} (a : List α) (x : α) (b : List α) : (a ++ x :: b)[a.length]? = some x := by
  induction a with
  | nil => rfl
  | cons c a ih => simp [ih]

theorem idxL_mid {α : Type} (a : List α) (x : α) (b : List α) {i : Int} (hi : i = (a.length : Int)) :
    idxL (a ++ x :: b) i = .ok x := by
  subst hi
  have h1 : (0 : Int) ≤ (a.length : Int) := by omega
  have h2 : ((a.length : Nat) : Int) < len (a ++ x :: b) := by rw [len_eq]; simp; omega
  simp [idxL, h1, h2, getElem?_append_mid, pure, Except.pure]

theorem lt_len_mid {α : Type} (a : List α) (x : α) (b : List α) : ((a.length : Nat) : Int) < len (a ++ x :: b) := by
  rw [len_eq]; simp; omega

theorem not_lt_len_self {α : Type} (a : List α) : ¬ (((a.length : Nat) : Int) < len a) := by
  rw [len_eq]; omega

theorem bytes_beq_eq_decide (a b : Bytes) : (a == b) = decide (a = b) := by
  by_cases h : a = b
  · subst h; simp
  · simp [h]

/-! ### the model's shared loops -/

theorem markAll_nil (fs : Modfile.FileSyntax) : markAll fs [] = fs := rfl
theorem markAll_cons (fs : Modfile.FileSyntax) (i : Nat) (d : List Nat) :
    markAll fs (i :: d) = markAll (Modfile.Edit.markRemoved fs i) d := rfl

theorem deref_zero : deref 0 = .error .nilDeref := rfl
theorem deref_pos {i : Nat} (h : i ≠ 0) : deref i = .ok i := by
  simp [deref, nilId, h]

/-- with `need = false` no entry is "the first" -/
theorem firstRest_false_first {α : Type} (m : α → Bool) (id : α → Nat) (upd : α → α) (cleared : α) :
    ∀ (xs : List α) (rest : List α) (first : Option Nat) (dead : List Nat),
      firstRest m id upd cleared xs false = .ok (rest, first, dead) → first = none
  | [], rest, first, dead, h => by
    simp only [firstRest, Except.ok.injEq, Prod.mk.injEq] at h
    exact h.2.1.symm
  | x :: xs, rest, first, dead, h => by
    unfold firstRest at h
    cases hm : m x with
    | true =>
      simp only [hm, if_true, bind, Except.bind] at h
      cases hd : deref (id x) with
      | error er => rw [hd] at h; cases h
      | ok i =>
        rw [hd] at h
        simp only [] at h
        cases hr : firstRest m id upd cleared xs false with
        | error er => rw [hr] at h; cases h
        | ok r =>
          obtain ⟨r1, f1, d1⟩ := r
          rw [hr] at h
          simp only [Bool.false_eq_true, if_false, pure, Except.pure, Except.ok.injEq, Prod.mk.injEq] at h
          rw [← h.2.1]
          exact firstRest_false_first m id upd cleared xs r1 f1 d1 hr
    | false =>
      simp only [hm, Bool.false_eq_true, if_false, bind, Except.bind] at h
      cases hr : firstRest m id upd cleared xs false with
      | error er => rw [hr] at h; cases h
      | ok r =>
        obtain ⟨r1, f1, d1⟩ := r
        rw [hr] at h
        simp only [pure, Except.pure, Except.ok.injEq, Prod.mk.injEq] at h
        rw [← h.2.1]
        exact firstRest_false_first m id upd cleared xs r1 f1 d1 hr

/-! ### struct eta -/

theorem EWork_eta (e : EWork) : ({ e with f := { e.f with use := e.f.use, syn := e.f.syn } } : EWork) = e := rfl

/-! ### `RepWAt` under the heap changes of the go.work operations -/

section
variable {h : Heap} {o : WorkFile} {e : EWork}

/-- a `Use` object is overwritten by the embedding of `y` -/
theorem RepWAt_setUse (R : RepWAt h o e) {i : Nat} {p : Int} (hi : o.Use[i]? = some p) (y : Modfile.Use)
    (hy : y.lineId ≤ h.lines.length) :
    RepWAt { h with uses := h.uses.set (p.toNat - 1) (useG y) } o { e with f := { e.f with use := e.f.use.set i y } } where
  syn := RepSyn.congr (h := h) (h' := { h with uses := h.uses.set (p.toNat - 1) (useG y) }) rfl rfl rfl rfl R.syn
  tok := R.tok
  linesG := LinesG.congr (h := h) (h' := { h with uses := h.uses.set (p.toNat - 1) (useG y) }) R.linesG rfl
  next := R.next
  go := R.go
  toolchain := R.toolchain
  godebug := R.godebug
  use := ⟨R.use.rel.setAt R.use.nodup i p y hi hy, R.use.nodup⟩
  replace := R.replace

theorem RepWAt_setGodebug (R : RepWAt h o e) {i : Nat} {p : Int} (hi : o.Godebug[i]? = some p) (y : Modfile.Godebug)
    (hy : y.lineId ≤ h.lines.length) :
    RepWAt { h with godebugs := h.godebugs.set (p.toNat - 1) (godebugG y) } o
      { e with f := { e.f with godebug := e.f.godebug.set i y } } where
  syn := RepSyn.congr (h := h) (h' := { h with godebugs := h.godebugs.set (p.toNat - 1) (godebugG y) }) rfl rfl rfl rfl R.syn
  tok := R.tok
  linesG := LinesG.congr (h := h) (h' := { h with godebugs := h.godebugs.set (p.toNat - 1) (godebugG y) }) R.linesG rfl
  next := R.next
  go := R.go
  toolchain := R.toolchain
  godebug := ⟨R.godebug.rel.setAt R.godebug.nodup i p y hi hy, R.godebug.nodup⟩
  use := R.use
  replace := R.replace

theorem RepWAt_setReplace (R : RepWAt h o e) {i : Nat} {p : Int} (hi : o.Replace[i]? = some p) (y : Modfile.Replace)
    (hy : y.lineId ≤ h.lines.length) :
    RepWAt { h with replaces := h.replaces.set (p.toNat - 1) (replaceG y) } o
      { e with f := { e.f with replace := e.f.replace.set i y } } where
  syn := RepSyn.congr (h := h) (h' := { h with replaces := h.replaces.set (p.toNat - 1) (replaceG y) }) rfl rfl rfl rfl R.syn
  tok := R.tok
  linesG := LinesG.congr (h := h) (h' := { h with replaces := h.replaces.set (p.toNat - 1) (replaceG y) }) R.linesG rfl
  next := R.next
  go := R.go
  toolchain := R.toolchain
  godebug := R.godebug
  use := R.use
  replace := ⟨R.replace.rel.setAt R.replace.nodup i p y hi hy, R.replace.nodup⟩

/-- the entry at the position of the pointer `p` -/
theorem RepWAt_useAt (R : RepWAt h o e) {pre suf : List Int} {p : Int} {xpre xsuf : List Modfile.Use} {x : Modfile.Use}
    (ho : o.Use = pre ++ p :: suf) (he : e.f.use = xpre ++ x :: xsuf) (hl : pre.length = xpre.length) :
    heapGet h.uses p = .ok (useG x) ∧ x.lineId ≤ h.lines.length :=
  R.use.rel.get pre.length p x (by rw [ho]; exact getElem?_append_mid _ _ _) (by rw [he, hl]; exact getElem?_append_mid _ _ _)

theorem RepWAt_godebugAt (R : RepWAt h o e) {pre suf : List Int} {p : Int} {xpre xsuf : List Modfile.Godebug} {x : Modfile.Godebug}
    (ho : o.Godebug = pre ++ p :: suf) (he : e.f.godebug = xpre ++ x :: xsuf) (hl : pre.length = xpre.length) :
    heapGet h.godebugs p = .ok (godebugG x) ∧ x.lineId ≤ h.lines.length :=
  R.godebug.rel.get pre.length p x (by rw [ho]; exact getElem?_append_mid _ _ _) (by rw [he, hl]; exact getElem?_append_mid _ _ _)

theorem RepWAt_replaceAt (R : RepWAt h o e) {pre suf : List Int} {p : Int} {xpre xsuf : List Modfile.Replace} {x : Modfile.Replace}
    (ho : o.Replace = pre ++ p :: suf) (he : e.f.replace = xpre ++ x :: xsuf) (hl : pre.length = xpre.length) :
    heapGet h.replaces p = .ok (replaceG x) ∧ x.lineId ≤ h.lines.length :=
  R.replace.rel.get pre.length p x (by rw [ho]; exact getElem?_append_mid _ _ _) (by rw [he, hl]; exact getElem?_append_mid _ _ _)

end


/-! ### `RepWAt` does not read `works`; dropping / setting the scalar entries -/

section
variable {h : Heap} {o : WorkFile} {e : EWork}

theorem RepWAt_works (R : RepWAt h o e) (w : List WorkFile) : RepWAt { h with works := w } o e where
  syn := RepSyn.congr (h := h) (h' := { h with works := w }) rfl rfl rfl rfl R.syn
  tok := R.tok
  linesG := LinesG.congr (h := h) (h' := { h with works := w }) R.linesG rfl
  next := R.next
  go := R.go
  toolchain := R.toolchain
  godebug := R.godebug
  use := R.use
  replace := R.replace

theorem RepWAt_dropGo (R : RepWAt h o e) : RepWAt h { o with Go := 0 } { e with f := { e.f with go := none } } where
  syn := R.syn
  tok := R.tok
  linesG := R.linesG
  next := R.next
  go := rfl
  toolchain := R.toolchain
  godebug := R.godebug
  use := R.use
  replace := R.replace

theorem RepWAt_dropToolchain (R : RepWAt h o e) :
    RepWAt h { o with Toolchain := 0 } { e with f := { e.f with toolchain := none } } where
  syn := R.syn
  tok := R.tok
  linesG := R.linesG
  next := R.next
  go := R.go
  toolchain := rfl
  godebug := R.godebug
  use := R.use
  replace := R.replace

/-- the `Go` object is overwritten by the embedding of `y` -/
theorem RepWAt_setGo (R : RepWAt h o e) {g : Modfile.Go} (hg : e.f.go = some g) (y : Modfile.Go) (hy : y.lineId ≤ h.lines.length) :
    RepWAt { h with gos := h.gos.set (o.Go.toNat - 1) (goG y) } o { e with f := { e.f with go := some y } } where
  syn := RepSyn.congr (h := h) (h' := { h with gos := h.gos.set (o.Go.toNat - 1) (goG y) }) rfl rfl rfl rfl R.syn
  tok := R.tok
  linesG := LinesG.congr (h := h) (h' := { h with gos := h.gos.set (o.Go.toNat - 1) (goG y) }) R.linesG rfl
  next := R.next
  go := by
    have := R.go; rw [hg] at this
    exact ⟨heapGet_listSet_same _ this.1, hy⟩
  toolchain := R.toolchain
  godebug := R.godebug
  use := R.use
  replace := R.replace

theorem RepWAt_setToolchain (R : RepWAt h o e) {t : Modfile.Toolchain} (ht : e.f.toolchain = some t) (y : Modfile.Toolchain)
    (hy : y.lineId ≤ h.lines.length) :
    RepWAt { h with toolchains := h.toolchains.set (o.Toolchain.toNat - 1) (toolchainG y) } o
      { e with f := { e.f with toolchain := some y } } where
  syn := RepSyn.congr (h := h) (h' := { h with toolchains := h.toolchains.set (o.Toolchain.toNat - 1) (toolchainG y) }) rfl rfl rfl rfl R.syn
  tok := R.tok
  linesG := LinesG.congr (h := h) (h' := { h with toolchains := h.toolchains.set (o.Toolchain.toNat - 1) (toolchainG y) }) R.linesG rfl
  next := R.next
  go := R.go
  toolchain := by
    have := R.toolchain; rw [ht] at this
    exact ⟨heapGet_listSet_same _ this.1, hy⟩
  godebug := R.godebug
  use := R.use
  replace := R.replace

end

/-! ### statement lists: take / drop / insertion of a fresh top-level line -/

theorem RStmts_take {h : Heap} : ∀ {es : List Expr} {ss : List Modfile.Expr} (i : Nat), RStmts h es ss →
    RStmts h (es.take i) (ss.take i)
  | [], [], i, _ => by simp [RStmts]
  | _ :: _, _ :: _, 0, _ => by simp [RStmts]
  | _ :: _, _ :: _, i + 1, r => ⟨r.1, RStmts_take i r.2⟩
  | [], _ :: _, _, r => r.elim
  | _ :: _, [], _, r => r.elim

theorem RStmts_drop {h : Heap} : ∀ {es : List Expr} {ss : List Modfile.Expr} (i : Nat), RStmts h es ss →
    RStmts h (es.drop i) (ss.drop i)
  | [], [], i, _ => by simp [RStmts]
  | _ :: _, _ :: _, 0, r => r
  | _ :: _, _ :: _, i + 1, r => RStmts_drop i r.2
  | [], _ :: _, _, r => r.elim
  | _ :: _, [], _, r => r.elim

theorem blockPtrs_app : ∀ (a b : List Expr), blockPtrs (a ++ b) = blockPtrs a ++ blockPtrs b
  | [], b => rfl
  | x :: a, b => by
    cases x <;> simp [blockPtrs, blockPtrs_app a b]

theorem blockPtrs_insertLine (es : List Expr) (i : Nat) (n : Int) :
    blockPtrs (es.take i ++ Expr.Line n :: es.drop i) = blockPtrs es := by
  rw [blockPtrs_app]
  show blockPtrs (es.take i) ++ blockPtrs (es.drop i) = _
  rw [← blockPtrs_app, List.take_append_drop]

theorem BlockTokOK_insertLine {ss : List Modfile.Expr} (hb : BlockTokOK ss) (i : Nat) (l : Modfile.Line) :
    BlockTokOK (Modfile.Edit.insertAt ss i (.line l)) := by
  intro b hbm
  unfold Modfile.Edit.insertAt at hbm
  simp only [List.mem_append, List.mem_cons, reduceCtorEq, false_or] at hbm
  rcases hbm with hbm | hbm
  · exact hb b (List.mem_of_mem_take hbm)
  · exact hb b (List.mem_of_mem_drop hbm)

/-- a fresh line object (pointer `lines.length + 1`) is put at position `i` of the statement list: the graph represents
    the model tree with `insertAt … i` of the new line.  `h'` is any heap with the new line allocated, the file object
    updated, `blocks` and `cbs` kept. -/
theorem RepSynAt_insertLine {h h' : Heap} {x : Int} {fs : Modfile.FileSyntax} {es : List Expr} (r : RepSynAt h x fs es)
    (tokens : List Bytes) (i : Nat)
    (hl : h'.lines = h.lines ++ [lineG (Modfile.Edit.mkLine (h.lines.length + 1) tokens false)])
    (hfl : h'.files = h.files.set (x.toNat - 1)
      { fileG fs es with Stmt := es.take i ++ Expr.Line ((h.lines.length + 1 : Nat) : Int) :: es.drop i })
    (hb : h'.blocks = h.blocks) (hc : h'.cbs = h.cbs) :
    RepSynAt h' x { fs with stmts := Modfile.Edit.insertAt fs.stmts i (.line (Modfile.Edit.mkLine (h.lines.length + 1) tokens false)) }
      (es.take i ++ Expr.Line ((h.lines.length + 1 : Nat) : Int) :: es.drop i) := by
  have hmono : ∀ {es' : List Expr} {ss' : List Modfile.Expr}, RStmts h es' ss' → RStmts h' es' ss' := by
    intro es' ss' r'
    refine r'.mono ?_ ?_ ?_
    · intro q w hq; rw [hl]; exact heapGet_alloc_old _ hq
    · intro q w hq; rw [hb]; exact hq
    · intro q w hq; rw [hc]; exact hq
  refine ⟨?_, ?_, ?_, ?_⟩
  · rw [hfl]; exact heapGet_listSet_same _ r.file
  · show RStmts h' _ (Modfile.Edit.insertAt fs.stmts i _)
    unfold Modfile.Edit.insertAt
    refine RStmts.append (hmono (RStmts_take i r.stmts)) ⟨?_, hmono (RStmts_drop i r.stmts)⟩
    refine ⟨?_, rfl⟩
    rw [hl]; exact heapGet_alloc_new _ _
  · rw [blockPtrs_insertLine]; exact r.nodupB
  · show (treeIds (Modfile.Edit.insertAt fs.stmts i _)).Nodup
    unfold Modfile.Edit.insertAt
    have hnd := r.nodupL
    rw [← List.take_append_drop i fs.stmts, Modfile.Edit.treeIds_append] at hnd
    rw [Modfile.Edit.treeIds_append, Modfile.Edit.treeIds_cons, Modfile.Edit.treeIds_newLine]
    have hfresh : ∀ j ∈ treeIds fs.stmts, j ≠ h.lines.length + 1 := by
      intro j hj; have := (r.stmts.treeIds_le j hj).2; omega
    have hsub1 : ∀ j ∈ treeIds (fs.stmts.take i), j ∈ treeIds fs.stmts := by
      intro j hj
      rw [← List.take_append_drop i fs.stmts, Modfile.Edit.treeIds_append]; exact List.mem_append_left _ hj
    have hsub2 : ∀ j ∈ treeIds (fs.stmts.drop i), j ∈ treeIds fs.stmts := by
      intro j hj
      rw [← List.take_append_drop i fs.stmts, Modfile.Edit.treeIds_append]; exact List.mem_append_right _ hj
    rw [List.nodup_append] at hnd ⊢
    refine ⟨hnd.1, ?_, ?_⟩
    · rw [List.singleton_append, List.nodup_cons]
      exact ⟨fun hm => hfresh _ (hsub2 _ hm) rfl, hnd.2.1⟩
    · intro a ha b hbm
      rw [List.singleton_append, List.mem_cons] at hbm
      rcases hbm with rfl | hbm
      · exact fun e => hfresh _ (hsub1 _ ha) e
      · exact hnd.2.2 a ha b hbm

end ModVerif.Tie.FnEditWorkA
