/-
  EditRefine, part 9 — go.work: every operation of the model refines the specification's `step` on the typed
  lists, and whole sessions refine `run`.
-/
import ModVerif.Proofs.EditRefineRun
set_option linter.unusedSimpArgs false
namespace ModVerif.Modfile.Edit
open ModVerif ModVerif.Modfile ModVerif.EditSpec

theorem WInv.of_same {e e' : EWork} (h : WInv e) (hR : e'.f.replace = e.f.replace) (hn : e.next ≤ e'.next) : WInv e' :=
  ⟨by rw [hR]; exact h.wfR, by rw [hR]; exact h.nodup, fun i hi => Nat.lt_of_lt_of_le (h.lt i (by rw [hR] at hi; exact hi)) hn,
   Nat.lt_of_lt_of_le h.pos hn⟩

theorem WInv.of_sublist {e e' : EWork} (h : WInv e) (wfR : IdWF liveRp (·.lineId) e'.f.replace)
    (hs : (liveIds liveRp (·.lineId) e'.f.replace).Sublist (liveIds liveRp (·.lineId) e.f.replace)) (hn : e.next ≤ e'.next) :
    WInv e' :=
  ⟨wfR, List.Nodup.sublist hs h.nodup, fun i hi => Nat.lt_of_lt_of_le (h.lt i (hs.subset hi)) hn, Nat.lt_of_lt_of_le h.pos hn⟩

/-! ### scalars -/

theorem workAddGoStmt_abs (e : EWork) (v : Bytes) (h : WInv e) :
    (∀ e', workAddGoStmt e v = .ok e' → goVersionRE v = true ∧ absLiveWork e'.f = { absLiveWork e.f with go := some v } ∧ WInv e') ∧
    (∀ err, workAddGoStmt e v = .error err → goVersionRE v = false) := by
  unfold workAddGoStmt
  by_cases hv : goVersionRE v = true
  · simp only [hv, Bool.not_true, Bool.false_eq_true, if_false]
    cases hg : e.f.go with
    | none =>
      refine ⟨?_, (by intro err h; cases h)⟩
      intro e' he; cases he
      exact ⟨trivial, by simp [absLiveWork], h.of_same rfl (Nat.le_succ _)⟩
    | some g =>
      refine ⟨?_, (by intro err h; cases h)⟩
      intro e' he; cases he
      exact ⟨trivial, by simp [absLiveWork], h.of_same rfl (Nat.le_refl _)⟩
  · simp only [Bool.not_eq_true] at hv
    simp only [hv, Bool.not_false, if_true]
    exact ⟨(by intro e' h; cases h), fun _ _ => trivial⟩

theorem workAddToolchainStmt_abs (e : EWork) (n : Bytes) (h : WInv e) :
    (∀ e', workAddToolchainStmt e n = .ok e' → toolchainRE n = true ∧ absLiveWork e'.f = { absLiveWork e.f with toolchain := some n } ∧ WInv e') ∧
    (∀ err, workAddToolchainStmt e n = .error err → toolchainRE n = false) := by
  unfold workAddToolchainStmt
  by_cases hv : toolchainRE n = true
  · simp only [hv, Bool.not_true, Bool.false_eq_true, if_false]
    cases hg : e.f.toolchain with
    | none =>
      refine ⟨?_, (by intro err h; cases h)⟩
      intro e' he; cases he
      exact ⟨trivial, by simp [absLiveWork], h.of_same rfl (Nat.le_succ _)⟩
    | some g =>
      refine ⟨?_, (by intro err h; cases h)⟩
      intro e' he; cases he
      exact ⟨trivial, by simp [absLiveWork], h.of_same rfl (Nat.le_refl _)⟩
  · simp only [Bool.not_eq_true] at hv
    simp only [hv, Bool.not_false, if_true]
    exact ⟨(by intro e' h; cases h), fun _ _ => trivial⟩

theorem workDropGoStmt_abs (e : EWork) (h : WInv e) :
    absLiveWork (workDropGoStmt e).f = { absLiveWork e.f with go := none } ∧ WInv (workDropGoStmt e) := by
  unfold workDropGoStmt
  cases hg : e.f.go with
  | none => exact ⟨by simp [absLiveWork, hg], h⟩
  | some g => exact ⟨by simp [absLiveWork], h.of_same rfl (Nat.le_refl _)⟩

theorem workDropToolchainStmt_abs (e : EWork) (h : WInv e) :
    absLiveWork (workDropToolchainStmt e).f = { absLiveWork e.f with toolchain := none } ∧ WInv (workDropToolchainStmt e) := by
  unfold workDropToolchainStmt
  cases hg : e.f.toolchain with
  | none => exact ⟨by simp [absLiveWork, hg], h⟩
  | some g => exact ⟨by simp [absLiveWork], h.of_same rfl (Nat.le_refl _)⟩

/-! ### godebug, replace -/

theorem workAddGodebug_abs (e e' : EWork) (k v : Bytes) (hk : k ≠ []) (hi : WInv e) (h : workAddGodebug e k v = .ok e') :
    absLiveWork e'.f = { absLiveWork e.f with godebug := setKeyed (fun e => e.1 == k) (fun _ => (k, v)) (k, v) (absLiveWork e.f).godebug }
      ∧ WInv e' := by
  unfold workAddGodebug at h
  simp only [bind, Except.bind] at h
  cases hr : addGodebugCore e.f.syn e.f.godebug e.next k v with
  | error err => simp [hr] at h
  | ok r =>
    rcases r with ⟨syn', gd', next'⟩
    simp only [hr, pure, Except.pure, Except.ok.injEq] at h
    subst h
    rcases addGodebugCore_abs _ _ _ k v hk _ _ _ hr with ⟨h1, h2⟩
    exact ⟨by simp [absLiveWork, h1], hi.of_same rfl h2⟩

theorem workDropGodebug_abs (e e' : EWork) (k : Bytes) (hi : WInv e) (h : workDropGodebug e k = .ok e') :
    absLiveWork e'.f = { absLiveWork e.f with godebug := dropAll (fun e => e.1 == k) (absLiveWork e.f).godebug } ∧ WInv e' := by
  unfold workDropGodebug at h
  simp only [bind, Except.bind] at h
  cases hr : clearAll (fun g : Godebug => g.key == k) (·.lineId) clearedGodebug e.f.godebug with
  | error err => simp [hr] at h
  | ok r =>
    rcases r with ⟨gd', dead⟩
    simp only [hr, pure, Except.pure, Except.ok.injEq] at h
    subst h
    have h1 := clearAll_abs (fun g : Godebug => g.key == k) (·.lineId) clearedGodebug liveG aG
      (fun e : Bytes × Bytes => e.1 == k) rfl (fun _ _ => rfl) e.f.godebug gd' dead hr
    exact ⟨by simp [absLiveWork, h1], hi.of_same rfl (Nat.le_refl _)⟩

theorem workAddReplace_abs (e e' : EWork) (op ov np nv : Bytes) (hop : op ≠ []) (hi : WInv e)
    (h : workAddReplace e op ov np nv = .ok e') :
    absLiveWork e'.f = { absLiveWork e.f with
      replace := setKeyed (replMatch op ov) (fun _ => ⟨op, ov, np, nv⟩) ⟨op, ov, np, nv⟩ (absLiveWork e.f).replace } ∧
    WInv e' := by
  unfold workAddReplace at h
  simp only [bind, Except.bind] at h
  cases hr : addReplaceCore e.f.syn e.f.replace e.next op ov np nv with
  | error err => simp [hr] at h
  | ok r =>
    rcases r with ⟨syn', rp', next'⟩
    simp only [hr, pure, Except.pure, Except.ok.injEq] at h
    subst h
    rcases addReplaceCore_abs _ _ _ op ov np nv hop (Nat.ne_of_gt hi.pos) hi.wfR _ _ _ hr with ⟨h1, h2, h3⟩
    refine ⟨by simp [absLiveWork, h1], ?_⟩
    rcases h3 with ⟨hn, hs⟩ | ⟨hn, hs⟩
    · exact WInv.of_sublist hi h2 hs (by simp [hn])
    · have hnd : (liveIds liveRp (·.lineId) e.f.replace ++ [e.next]).Nodup := by
        apply List.nodup_append.2
        refine ⟨hi.nodup, List.pairwise_singleton _ _, ?_⟩
        intro a ha b hb
        rw [List.mem_singleton] at hb
        have := hi.lt a ha
        omega
      refine ⟨h2, List.Nodup.sublist hs hnd, ?_, by simp only [hn]; exact Nat.succ_pos _⟩
      intro i hi'
      have := hs.subset hi'
      rcases List.mem_append.1 this with h4 | h4
      · have := hi.lt i h4; simp only [hn]; omega
      · rw [List.mem_singleton] at h4; simp only [hn, h4]; omega

theorem workDropReplace_abs (e e' : EWork) (op ov : Bytes) (hi : WInv e) (h : workDropReplace e op ov = .ok e') :
    absLiveWork e'.f = { absLiveWork e.f with replace := dropAll (fun r => r.oldPath == op && r.oldVers == ov) (absLiveWork e.f).replace } ∧
    WInv e' := by
  unfold workDropReplace at h
  simp only [bind, Except.bind] at h
  cases hr : dropReplaceCore e.f.syn e.f.replace op ov with
  | error err => simp [hr] at h
  | ok r =>
    rcases r with ⟨syn', rp'⟩
    simp only [hr, pure, Except.pure, Except.ok.injEq] at h
    subst h
    rcases dropReplaceCore_abs _ _ op ov hi.wfR _ _ hr with ⟨h1, h2, h3⟩
    exact ⟨by simp [absLiveWork, h1], WInv.of_sublist hi h2 h3 (Nat.le_refl _)⟩

/-! ### SortBlocks / Cleanup -/

theorem workSortBlocks_abs (e : EWork) (h : WInv e) :
    absLiveWork (workSortBlocks e).f = EditSpec.removeDups (absLiveWork e.f) ∧ WInv (workSortBlocks e) := by
  have hk := killEarlier_abs liveRp aRp (fun r : Repl => (r.oldPath, r.oldVers))
      (fun x y _ _ => modVersion_beq x.old y.old)
      (fun x y hx hy => by
        cases hb : (y.old == x.old) with
        | false => rfl
        | true =>
          have : y.old = x.old := eq_of_beq hb
          simp [liveRp, this] at hy hx; simp [hx] at hy)
      e.f.replace [] h.wfR h.nodup (fun _ _ _ => by simp)
  constructor
  · simp only [workSortBlocks, Edit.removeDups, absLiveWork, EditSpec.removeDups, List.append_nil, List.nil_append] at hk ⊢
    rw [hk]
    simp [dedupFirst, dedupLast]
  · simp only [workSortBlocks, Edit.removeDups]
    exact WInv.of_sublist h (IdWF_filter _ _ _ h.wfR) (liveIds_filter_sublist _ _ _ _) (Nat.le_refl _)

theorem workCleanup_abs (e : EWork) (h : WInv e) : absLiveWork (workCleanup e).f = absLiveWork e.f ∧ WInv (workCleanup e) := by
  constructor
  · simp only [absLiveWork, workCleanup]
    congr 1 <;> exact liveAbs_filter_live _ _ _
  · exact WInv.of_sublist h (IdWF_filter _ _ _ h.wfR) (liveIds_filter_sublist _ _ _ _) (Nat.le_refl _)

/-! ### use -/

theorem addNewUse_abs (e : EWork) (d m : Bytes) (hd : d ≠ []) (hi : WInv e) :
    absLiveWork (addNewUse e d m).f = { absLiveWork e.f with use := (absLiveWork e.f).use ++ [d] } ∧ WInv (addNewUse e d m) := by
  refine ⟨?_, hi.of_same rfl (Nat.le_succ _)⟩
  simp only [addNewUse, absLiveWork, liveAbs_append]
  congr 1
  simp [liveAbs, liveU, aU, ne_nil_live hd]

theorem addUse_abs (e e' : EWork) (d m : Bytes) (hd : d ≠ []) (hi : WInv e) (h : addUse e d m = .ok e') :
    absLiveWork e'.f = { absLiveWork e.f with use := setKeyed (fun u => u == d) id d (absLiveWork e.f).use } ∧ WInv e' := by
  unfold addUse at h
  simp only [bind, Except.bind] at h
  cases hr : firstRest (fun u : Use => u.path == d) (·.lineId) (fun u => { u with modulePath := m }) clearedUse e.f.use true with
  | error err => simp [hr] at h
  | ok r =>
    rcases r with ⟨l', first, dead⟩
    have hs := firstRest_setKeyed (fun u : Use => u.path == d) (·.lineId) (fun u => { u with modulePath := m }) clearedUse
      liveU aU (fun u : Bytes => u == d) id rfl (fun _ _ => rfl)
      (fun x hx => ne_nil_of_beq hd hx) (fun x hx => ne_nil_of_beq hd hx)
      (fun x hx => rfl) e.f.use l' first dead { path := d, modulePath := m, lineId := e.next } (ne_nil_live hd) hr
    simp only [hr] at h
    cases first with
    | some i =>
      simp only [pure, Except.pure, Except.ok.injEq] at h
      subst h
      refine ⟨?_, hi.of_same rfl (Nat.le_refl _)⟩
      simp only [absLiveWork]
      congr 1 <;> simpa [aU] using hs
    | none =>
      simp only [pure, Except.pure, Except.ok.injEq] at h
      subst h
      have hany : e.f.use.any (fun u : Use => u.path == d) = false := by
        have := (firstRest_abs (fun u : Use => u.path == d) (·.lineId) (fun u => { u with modulePath := m }) clearedUse
          liveU aU (fun u : Bytes => u == d) id rfl (fun _ _ => rfl)
          (fun x hx => ne_nil_of_beq hd hx) (fun x hx => ne_nil_of_beq hd hx)
          (fun x hx => rfl) e.f.use true l' none dead hr).2
        simpa using this.symm
      have hl : l' = e.f.use := by
        have := firstRest_unmatched (fun u : Use => u.path == d) (·.lineId) (fun u => { u with modulePath := m }) clearedUse
          e.f.use true hany
        rw [this] at hr
        simp only [Except.ok.injEq, Prod.mk.injEq] at hr
        exact hr.1.symm
      subst hl
      rcases addNewUse_abs e d m hd hi with ⟨h1, h2⟩
      refine ⟨?_, h2⟩
      rw [h1]
      congr 1
      simp only [absLiveWork]
      simpa [aU, liveAbs_append, liveAbs, liveU, ne_nil_live hd] using hs

theorem dropUse_abs (e e' : EWork) (d : Bytes) (hi : WInv e) (h : dropUse e d = .ok e') :
    absLiveWork e'.f = { absLiveWork e.f with use := dropAll (fun u => u == d) (absLiveWork e.f).use } ∧ WInv e' := by
  unfold dropUse at h
  simp only [bind, Except.bind] at h
  cases hr : clearAll (fun u : Use => u.path == d) (·.lineId) clearedUse e.f.use with
  | error err => simp [hr] at h
  | ok r =>
    rcases r with ⟨l', dead⟩
    simp only [hr, pure, Except.pure, Except.ok.injEq] at h
    subst h
    have h1 := clearAll_abs (fun u : Use => u.path == d) (·.lineId) clearedUse liveU aU
      (fun u : Bytes => u == d) rfl (fun _ _ => rfl) e.f.use l' dead hr
    exact ⟨by simp [absLiveWork, h1], hi.of_same rfl (Nat.le_refl _)⟩

/-- the requested directories are pairwise different and non-empty -/
def GoodUse (ws : List (Bytes × Bytes)) : Prop := ws.Pairwise (fun a b => a.1 ≠ b.1) ∧ ∀ w ∈ ws, w.1 ≠ []

theorem GoodUse.sublist {l1 l2 : List (Bytes × Bytes)} (hs : l1.Sublist l2) (h : GoodUse l2) : GoodUse l1 :=
  ⟨h.1.sublist hs, fun w hw => h.2 w (hs.subset hw)⟩

theorem useNeedMap_distinct (ws : List (Bytes × Bytes)) : ∀ acc : List (Bytes × Bytes),
    (acc ++ ws).Pairwise (fun a b => a.1 ≠ b.1) → useNeedMap ws acc = acc ++ ws := by
  induction ws with
  | nil => intro acc _; simp [useNeedMap]
  | cons w ws ih =>
    intro acc h
    have hnone : acc.any (fun a => a.1 == w.1) = false := by
      apply List.any_eq_false.2
      intro a ha hb
      have := (List.pairwise_append.1 h).2.2 a ha w List.mem_cons_self
      exact this (eq_of_beq hb)
    unfold useNeedMap
    simp only [hnone, Bool.false_eq_true, if_false]
    have : acc ++ w :: ws = (acc ++ [w]) ++ ws := by simp
    rw [this] at h ⊢
    exact ih _ h

theorem cons_filter_perm_use (l : List (Bytes × Bytes)) (w : Bytes × Bytes) (hw : w ∈ l)
    (hd : l.Pairwise (fun a b => a.1 ≠ b.1)) : (w :: l.filter (fun a => a.1 != w.1)).Perm l := by
  induction l with
  | nil => cases hw
  | cons x xs ih =>
    rcases List.pairwise_cons.1 hd with ⟨h1, h2⟩
    rcases List.mem_cons.1 hw with rfl | hw'
    · have : xs.filter (fun a => a.1 != w.1) = xs := by
        apply List.filter_eq_self.2
        intro a ha
        have := h1 a ha
        simp [bne, Ne.symm this]
      simp [List.filter, this]
    · have hne : (x.1 != w.1) = true := by
        have := h1 w hw'
        simp [bne, this]
      simp only [List.filter, hne]
      exact (List.Perm.swap x w _).trans ((ih hw' h2).cons x)

theorem setUseLoop_abs (us : List Use) : ∀ (need : List (Bytes × Bytes)) (syn : FileSyntax) (us' : List Use)
    (need' : List (Bytes × Bytes)) (syn' : FileSyntax), GoodUse need → setUseLoop us need syn = .ok (us', need', syn') →
    (liveAbs liveU aU us' ++ need'.map Prod.fst).Perm (need.map Prod.fst) ∧ need'.Sublist need := by
  induction us with
  | nil =>
    intro need syn us' need' syn' _ h
    simp only [setUseLoop, Except.ok.injEq, Prod.mk.injEq] at h
    rcases h with ⟨rfl, rfl, _⟩
    exact ⟨by simp [liveAbs], List.Sublist.refl _⟩
  | cons d ds ih =>
    intro need syn us' need' syn' hg h
    unfold setUseLoop at h
    cases hf : need.find? (fun a => a.1 == d.path) with
    | some w =>
      simp only [hf, bind, Except.bind] at h
      cases hr : setUseLoop ds (need.filter (fun a => a.1 != d.path)) syn with
      | error err => simp [hr] at h
      | ok res =>
        rcases res with ⟨ds'', need'', syn''⟩
        simp only [hr, pure, Except.pure, Except.ok.injEq, Prod.mk.injEq] at h
        rcases h with ⟨rfl, rfl, _⟩
        have hwmem := List.mem_of_find?_eq_some hf
        have hwp : w.1 = d.path := by have := List.find?_some hf; exact eq_of_beq this
        have hsub : (need.filter (fun a => a.1 != d.path)).Sublist need := List.filter_sublist
        rcases ih _ _ _ _ _ (hg.sublist hsub) hr with ⟨h1, h2⟩
        refine ⟨?_, h2.trans hsub⟩
        rw [liveAbs_cons]
        have hlive : liveU { d with modulePath := w.2 } = true := by
          simp only [liveU]; rw [← hwp]; exact ne_nil_live (hg.2 w hwmem)
        simp only [hlive, if_true, List.cons_append]
        have ha : aU { d with modulePath := w.2 } = w.1 := by simp only [aU, hwp]
        rw [ha]
        refine (h1.cons _).trans ?_
        rw [← hwp]
        exact ((cons_filter_perm_use need w hwmem hg.1).map Prod.fst)
    | none =>
      simp only [hf, bind, Except.bind] at h
      cases hd : deref d.lineId with
      | error err => simp [hd] at h
      | ok i =>
        simp only [hd] at h
        cases hr : setUseLoop ds need (markRemoved syn i) with
        | error err => simp [hr] at h
        | ok res =>
          rcases res with ⟨ds'', need'', syn''⟩
          simp only [hr, pure, Except.pure, Except.ok.injEq, Prod.mk.injEq] at h
          rcases h with ⟨rfl, rfl, _⟩
          rcases ih _ _ _ _ _ hg hr with ⟨h1, h2⟩
          refine ⟨?_, h2⟩
          rw [liveAbs_cons]
          simpa [liveU, clearedUse] using h1

theorem foldl_addNewUse_abs (ws : List (Bytes × Bytes)) : ∀ e : EWork, WInv e → (∀ w ∈ ws, w.1 ≠ []) →
    absLiveWork (ws.foldl (fun e w => addNewUse e w.1 w.2) e).f
      = { absLiveWork e.f with use := (absLiveWork e.f).use ++ ws.map Prod.fst } ∧
    WInv (ws.foldl (fun e w => addNewUse e w.1 w.2) e) := by
  induction ws with
  | nil => intro e hi _; exact ⟨by simp, hi⟩
  | cons w ws ih =>
    intro e hi hne
    rcases addNewUse_abs e w.1 w.2 (hne w List.mem_cons_self) hi with ⟨h1, h2⟩
    rcases ih (addNewUse e w.1 w.2) h2 (fun x hx => hne x (List.mem_cons_of_mem _ hx)) with ⟨h3, h4⟩
    refine ⟨?_, h4⟩
    simp only [List.foldl_cons]
    rw [h3, h1]
    simp

/-- **SetUse on the typed lists** -/
theorem setUse_abs (e e' : EWork) (dirs : List (Bytes × Bytes)) (perm : List (Bytes × Bytes) → List (Bytes × Bytes))
    (hperm : ∀ l, (perm l).Perm l) (hg : GoodUse dirs) (hi : WInv e) (h : setUse e dirs perm = .ok e') :
    (absLiveWork e'.f).use.Perm (dirs.map Prod.fst) ∧
    absLiveWork e'.f = EditSpec.removeDups { absLiveWork e.f with use := (absLiveWork e'.f).use } ∧ WInv e' := by
  unfold setUse at h
  rw [useNeedMap_distinct dirs [] (by simpa using hg.1)] at h
  simp only [bind, Except.bind, List.nil_append] at h
  cases hr : setUseLoop e.f.use dirs e.f.syn with
  | error err => simp [hr] at h
  | ok res =>
    rcases res with ⟨us, need', syn'⟩
    simp only [hr, pure, Except.pure, Except.ok.injEq] at h
    rcases setUseLoop_abs _ _ _ _ _ _ hg hr with ⟨h1, h2⟩
    have hi1 : WInv (⟨{ e.f with use := us, syn := syn' }, e.next⟩ : EWork) := hi.of_same rfl (Nat.le_refl _)
    have hne : ∀ w ∈ perm need', w.1 ≠ [] := fun w hw => hg.2 w (h2.subset ((hperm need').subset hw))
    rcases foldl_addNewUse_abs (perm need') _ hi1 hne with ⟨h3, h4⟩
    rcases workSortBlocks_abs _ h4 with ⟨h5, h6⟩
    subst h
    have hreq : (absLiveWork (workSortBlocks ((perm need').foldl (fun e w => addNewUse e w.1 w.2)
        (⟨{ e.f with use := us, syn := syn' }, e.next⟩ : EWork))).f).use
        = liveAbs liveU aU us ++ (perm need').map Prod.fst := by
      rw [h5, h3]; rfl
    refine ⟨?_, ?_, h6⟩
    · rw [hreq]
      exact ((List.Perm.append_left _ ((hperm need').map _))).trans h1
    · rw [hreq, h5, h3]
      rfl

/-! ### returned errors -/

theorem NoRet.workAddGodebug (e : EWork) (k v : Bytes) : NoRet (workAddGodebug e k v) := by
  unfold Edit.workAddGodebug
  refine NoRet.bind (NoRet.addGodebugCore _ _ _ _ _) ?_
  rintro ⟨syn, gd, next⟩
  exact NoRet.pure _

theorem NoRet.workDropGodebug (e : EWork) (k : Bytes) : NoRet (workDropGodebug e k) := by
  unfold Edit.workDropGodebug
  refine NoRet.bind (NoRet.clearAll _ _ _ _) ?_
  rintro ⟨gd, dead⟩
  exact NoRet.pure _

theorem NoRet.addUse (e : EWork) (d m : Bytes) : NoRet (addUse e d m) := by
  unfold Edit.addUse
  refine NoRet.bind (NoRet.firstRest _ _ _ _ _ _) ?_
  rintro ⟨us, first, dead⟩
  dsimp only
  split <;> exact NoRet.pure _

theorem NoRet.dropUse (e : EWork) (d : Bytes) : NoRet (dropUse e d) := by
  unfold Edit.dropUse
  refine NoRet.bind (NoRet.clearAll _ _ _ _) ?_
  rintro ⟨gd, dead⟩
  exact NoRet.pure _

theorem NoRet.setUseLoop (us : List Use) : ∀ need syn, NoRet (setUseLoop us need syn) := by
  induction us with
  | nil => intro need syn; exact NoRet.ok _
  | cons d ds ih =>
    intro need syn
    unfold Edit.setUseLoop
    split
    · refine NoRet.bind (ih _ _) ?_
      rintro ⟨a, b, c⟩
      exact NoRet.pure _
    · refine NoRet.bind (NoRet.deref _) (fun i => NoRet.bind (ih _ _) ?_)
      rintro ⟨a, b, c⟩
      exact NoRet.pure _

theorem NoRet.setUse (e : EWork) (dirs : List (Bytes × Bytes)) (perm : List (Bytes × Bytes) → List (Bytes × Bytes)) :
    NoRet (setUse e dirs perm) := by
  unfold Edit.setUse
  refine NoRet.bind (NoRet.setUseLoop _ _ _) ?_
  rintro ⟨a, b, c⟩
  exact NoRet.pure _

theorem NoRet.workAddReplace (e : EWork) (a b c d : Bytes) : NoRet (workAddReplace e a b c d) := by
  unfold Edit.workAddReplace
  refine NoRet.bind (NoRet.addReplaceCore _ _ _ _ _ _ _) ?_
  rintro ⟨syn, rp, next⟩
  exact NoRet.pure _

theorem NoRet.workDropReplace (e : EWork) (a b : Bytes) : NoRet (workDropReplace e a b) := by
  unfold Edit.workDropReplace
  refine NoRet.bind (NoRet.dropReplaceCore _ _ _ _) ?_
  rintro ⟨syn, rp⟩
  exact NoRet.pure _

/-! ### one step, whole sessions -/

theorem rel_bulk_use (f : AbsFile) (l : List Bytes) (want : List Bytes) (hl : l.Perm want)
    (hW : want.Pairwise (fun a b => id a ≠ id b)) :
    Rel (EditSpec.removeDups { f with use := l })
        (EditSpec.removeDups { f with use := setExact id want f.use }) :=
  Rel.removeDups { Rel.refl f with use := KeyEq.of_perm hl (setExact_perm id want f.use hW) hW }

theorem applyWork_refines (e : EWork) (op : Op) (hv : ValidArgs op) (hi : WInv e) :
    (∀ e', applyWork e op = some (.ok e') →
      stepOk mV (absLiveWork e.f) op.toSpec = true ∧ Rel (absLiveWork e'.f) (step mV (absLiveWork e.f) op.toSpec) ∧ WInv e') ∧
    (∀ err, applyWork e op = some (.error err) → err.isReturned = true → stepOk mV (absLiveWork e.f) op.toSpec = false) := by
  cases op with
  | addGo v =>
    simp only [applyWork, Option.some.injEq, Op.toSpec, EditSpec.step, EditSpec.stepOk, mV]
    rcases workAddGoStmt_abs e v hi with ⟨h1, h2⟩
    refine ⟨?_, fun err h _ => h2 err h⟩
    intro e' he
    rcases h1 e' he with ⟨h3, h4, h5⟩
    exact ⟨h3, Rel.of_eq (by simp [h3, h4]), h5⟩
  | dropGo =>
    simp only [applyWork, Option.some.injEq, Except.ok.injEq, Op.toSpec, EditSpec.step, EditSpec.stepOk]
    refine ⟨?_, (by intro err h; cases h)⟩
    rintro e' rfl
    rcases workDropGoStmt_abs e hi with ⟨h1, h2⟩
    exact ⟨trivial, Rel.of_eq h1, h2⟩
  | addToolchain n =>
    simp only [applyWork, Option.some.injEq, Op.toSpec, EditSpec.step, EditSpec.stepOk, mV]
    rcases workAddToolchainStmt_abs e n hi with ⟨h1, h2⟩
    refine ⟨?_, fun err h _ => h2 err h⟩
    intro e' he
    rcases h1 e' he with ⟨h3, h4, h5⟩
    exact ⟨h3, Rel.of_eq (by simp [h3, h4]), h5⟩
  | dropToolchain =>
    simp only [applyWork, Option.some.injEq, Except.ok.injEq, Op.toSpec, EditSpec.step, EditSpec.stepOk]
    refine ⟨?_, (by intro err h; cases h)⟩
    rintro e' rfl
    rcases workDropToolchainStmt_abs e hi with ⟨h1, h2⟩
    exact ⟨trivial, Rel.of_eq h1, h2⟩
  | addGodebug k v =>
    simp only [applyWork, Option.some.injEq, Op.toSpec, EditSpec.step, EditSpec.stepOk]
    refine ⟨?_, fun err h hr => by rw [NoRet.workAddGodebug e k v err h] at hr; cases hr⟩
    intro e' he
    rcases workAddGodebug_abs e e' k v hv hi he with ⟨h1, h2⟩
    exact ⟨trivial, Rel.of_eq h1, h2⟩
  | dropGodebug k =>
    simp only [applyWork, Option.some.injEq, Op.toSpec, EditSpec.step, EditSpec.stepOk]
    refine ⟨?_, fun err h hr => by rw [NoRet.workDropGodebug e k err h] at hr; cases hr⟩
    intro e' he
    rcases workDropGodebug_abs e e' k hi he with ⟨h1, h2⟩
    exact ⟨trivial, Rel.of_eq h1, h2⟩
  | addUse d m =>
    simp only [applyWork, Option.some.injEq, Op.toSpec, EditSpec.step, EditSpec.stepOk]
    refine ⟨?_, fun err h hr => by rw [NoRet.addUse e d m err h] at hr; cases hr⟩
    intro e' he
    rcases addUse_abs e e' d m hv hi he with ⟨h1, h2⟩
    exact ⟨trivial, Rel.of_eq h1, h2⟩
  | addNewUse d m =>
    simp only [applyWork, Option.some.injEq, Except.ok.injEq, Op.toSpec, EditSpec.step, EditSpec.stepOk]
    refine ⟨?_, (by intro err h; cases h)⟩
    rintro e' rfl
    rcases addNewUse_abs e d m hv hi with ⟨h1, h2⟩
    exact ⟨trivial, Rel.of_eq h1, h2⟩
  | dropUse d =>
    simp only [applyWork, Option.some.injEq, Op.toSpec, EditSpec.step, EditSpec.stepOk]
    refine ⟨?_, fun err h hr => by rw [NoRet.dropUse e d err h] at hr; cases hr⟩
    intro e' he
    rcases dropUse_abs e e' d hi he with ⟨h1, h2⟩
    exact ⟨trivial, Rel.of_eq h1, h2⟩
  | setUse w rev =>
    simp only [applyWork, Option.some.injEq, Op.toSpec, EditSpec.step, EditSpec.stepOk]
    refine ⟨?_, fun err h hr => by rw [NoRet.setUse e w _ err h] at hr; cases hr⟩
    intro e' he
    have hg : GoodUse w := ⟨List.pairwise_map.1 hv.1, hv.2⟩
    rcases setUse_abs e e' w (permOf rev) (permOf_perm rev) hg hi he with ⟨h1, h2, h3⟩
    refine ⟨trivial, ?_, h3⟩
    rw [h2]
    exact rel_bulk_use (absLiveWork e.f) _ _ h1 hv.1
  | addReplace a b c d =>
    simp only [applyWork, Option.some.injEq, Op.toSpec, EditSpec.step, EditSpec.stepOk]
    refine ⟨?_, fun err h hr => by rw [NoRet.workAddReplace e a b c d err h] at hr; cases hr⟩
    intro e' he
    rcases workAddReplace_abs e e' a b c d hv hi he with ⟨h1, h2⟩
    exact ⟨trivial, Rel.of_eq h1, h2⟩
  | dropReplace a b =>
    simp only [applyWork, Option.some.injEq, Op.toSpec, EditSpec.step, EditSpec.stepOk]
    refine ⟨?_, fun err h hr => by rw [NoRet.workDropReplace e a b err h] at hr; cases hr⟩
    intro e' he
    rcases workDropReplace_abs e e' a b hi he with ⟨h1, h2⟩
    exact ⟨trivial, Rel.of_eq h1, h2⟩
  | sortBlocks =>
    simp only [applyWork, Option.some.injEq, Except.ok.injEq, Op.toSpec, EditSpec.step, EditSpec.stepOk]
    refine ⟨?_, (by intro err h; cases h)⟩
    rintro e' rfl
    rcases workSortBlocks_abs e hi with ⟨h1, h2⟩
    exact ⟨trivial, Rel.of_eq h1, h2⟩
  | cleanup =>
    simp only [applyWork, Option.some.injEq, Except.ok.injEq, Op.toSpec, EditSpec.step, EditSpec.stepOk]
    refine ⟨?_, (by intro err h; cases h)⟩
    rintro e' rfl
    rcases workCleanup_abs e hi with ⟨h1, h2⟩
    exact ⟨trivial, Rel.of_eq h1, h2⟩
  | addModule p => exact ⟨fun e' h => by simp [applyWork] at h, fun err h => by simp [applyWork] at h⟩
  | addRequire p v => exact ⟨fun e' h => by simp [applyWork] at h, fun err h => by simp [applyWork] at h⟩
  | addNewRequire p v i => exact ⟨fun e' h => by simp [applyWork] at h, fun err h => by simp [applyWork] at h⟩
  | dropRequire p => exact ⟨fun e' h => by simp [applyWork] at h, fun err h => by simp [applyWork] at h⟩
  | setRequire w r => exact ⟨fun e' h => by simp [applyWork] at h, fun err h => by simp [applyWork] at h⟩
  | setRequireSeparateIndirect w r => exact ⟨fun e' h => by simp [applyWork] at h, fun err h => by simp [applyWork] at h⟩
  | addExclude p v => exact ⟨fun e' h => by simp [applyWork] at h, fun err h => by simp [applyWork] at h⟩
  | dropExclude p v => exact ⟨fun e' h => by simp [applyWork] at h, fun err h => by simp [applyWork] at h⟩
  | addRetract a b c => exact ⟨fun e' h => by simp [applyWork] at h, fun err h => by simp [applyWork] at h⟩
  | dropRetract a b => exact ⟨fun e' h => by simp [applyWork] at h, fun err h => by simp [applyWork] at h⟩
  | addTool p => exact ⟨fun e' h => by simp [applyWork] at h, fun err h => by simp [applyWork] at h⟩
  | dropTool p => exact ⟨fun e' h => by simp [applyWork] at h, fun err h => by simp [applyWork] at h⟩

/-- well-formedness of a go.work starting file -/
structure WorkStartOK (f : WorkFile) : Prop where
  godebug : ∀ g ∈ f.godebug, g.key ≠ []
  use : ∀ u ∈ f.use, u.path ≠ []
  replace : ∀ r ∈ f.replace, r.old.path ≠ []
  idsNodup : (f.replace.map (·.lineId)).Nodup
  idsInTree : ∀ i ∈ f.replace.map (·.lineId), ∃ l ∈ f.syn.allLines, l.id = i

theorem absLiveWork_load (f : WorkFile) (h : WorkStartOK f) : absLiveWork (loadWork f).f = absOfWork f := by
  simp only [absLiveWork, loadWork, absOfWork]
  have e1 : liveAbs liveG aG (f.godebug.map fun g => { g with lineId := g.lineId + 1 }) = f.godebug.map fun g => (g.key, g.value) := by
    rw [liveAbs_all]
    · simp [aG, List.map_map, Function.comp_def]
    · intro x hx; rcases List.mem_map.1 hx with ⟨y, hy, rfl⟩; exact ne_nil_live (h.godebug y hy)
  have e2 : liveAbs liveU aU (f.use.map fun u => { u with lineId := u.lineId + 1 }) = f.use.map (·.path) := by
    rw [liveAbs_all]
    · simp [aU, List.map_map, Function.comp_def]
    · intro x hx; rcases List.mem_map.1 hx with ⟨y, hy, rfl⟩; exact ne_nil_live (h.use y hy)
  have e4 : liveAbs liveRp aRp (f.replace.map fun r => { r with lineId := r.lineId + 1 }) = f.replace.map fun r => ⟨r.old.path, r.old.version, r.new.path, r.new.version⟩ := by
    rw [liveAbs_all]
    · simp [aRp, List.map_map, Function.comp_def]
    · intro x hx; rcases List.mem_map.1 hx with ⟨y, hy, rfl⟩; exact ne_nil_live (h.replace y hy)
  rw [e1, e2, e4]
  simp [Option.map_map, Function.comp_def]

theorem WInv_load (f : WorkFile) (h : WorkStartOK f) : WInv (loadWork f) := by
  have hids : liveIds liveRp (·.lineId) (loadWork f).f.replace = (f.replace.map (·.lineId)).map (· + 1) := by
    simp only [loadWork]
    rw [liveIds_all]
    · simp [List.map_map, Function.comp_def]
    · intro x hx; rcases List.mem_map.1 hx with ⟨y, hy, rfl⟩; exact ne_nil_live (h.replace y hy)
  refine ⟨?_, ?_, ?_, Nat.succ_pos _⟩
  · apply IdWF_load
    intro x hx
    simp only [loadWork] at hx
    rcases List.mem_map.1 hx with ⟨y, hy, rfl⟩
    exact ⟨ne_nil_live (h.replace y hy), Nat.succ_ne_zero _⟩
  · rw [hids]
    have hn := h.idsNodup
    unfold List.Nodup at *
    rw [List.pairwise_map]
    exact hn.imp (fun hab e => hab (Nat.succ.inj e))
  · rw [hids]
    intro i hi
    rcases List.mem_map.1 hi with ⟨j, hj, rfl⟩
    rcases h.idsInTree j hj with ⟨l, hl, rfl⟩
    show l.id + 1 < maxId (shiftSyntax f.syn) + 1
    unfold maxId
    rw [allLines_shift]
    have := (foldl_max_ge (f.syn.allLines.map shiftLine) 0).2 (shiftLine l) (List.mem_map.2 ⟨l, hl, rfl⟩)
    simp only [shiftLine] at this
    omega

/-- **C08 `refines_abs_typed`, go.work.** -/
theorem refines_abs_typed_work (f : WorkFile) (ops : List Op) (e' : EWork) (res : List Bool) (hs : WorkStartOK f)
    (hv : ∀ op ∈ ops, ValidArgs op) (h : runOps applyWork (loadWork f) ops [] 0 = .done e' res) :
    Rel (absOfWork (workCleanup e').f) (run mV (absOfWork f) (ops.map Op.toSpec)) ∧
    res = runOk mV (absOfWork f) (ops.map Op.toSpec) := by
  have := runOps_refines_gen applyWork (fun e => absLiveWork e.f) WInv ValidArgs mV (fun _ h => ValidArgs.toSpec h)
    (fun e op hv hi => applyWork_refines e op hv hi) ops (loadWork f) [] 0 e' res hv (WInv_load f hs) h
  simp only [List.reverse_nil, List.nil_append, absLiveWork_load f hs] at this
  exact ⟨this.1, this.2.1⟩

theorem sessionWork_refines (file : Bytes) (ops : List Op) (o : Outcome) (f : WorkFile)
    (hf : parseWork (B "go.work") file none = .ok f) (hs : WorkStartOK f) (hv : ∀ op ∈ ops, ValidArgs op)
    (h : sessionWork file ops = some o) :
    o.start = absOfWork f ∧ Rel o.typed (run mV o.start (ops.map Op.toSpec)) ∧ o.res = runOk mV o.start (ops.map Op.toSpec) := by
  unfold sessionWork at h
  simp only [hf] at h
  cases hr : runOps applyWork (loadWork f) ops [] 0 with
  | done e res =>
    simp only [hr, Option.some.injEq] at h
    subst h
    rcases refines_abs_typed_work f ops e res hs hv hr with ⟨h1, h2⟩
    exact ⟨rfl, h1, h2⟩
  | panic i => simp [hr] at h
  | badOp => simp [hr] at h

/-- `WorkStartOK` as a Boolean test -/
def workStartOKb (f : WorkFile) : Bool :=
  f.godebug.all (fun g => !g.key.isEmpty) && f.use.all (fun u => !u.path.isEmpty) &&
  f.replace.all (fun r => !r.old.path.isEmpty) && decide (f.replace.map (·.lineId)).Nodup &&
  (f.replace.map (·.lineId)).all (fun i => f.syn.allLines.any (fun l => l.id == i))

theorem workStartOKb_sound (f : WorkFile) (h : workStartOKb f = true) : WorkStartOK f := by
  unfold workStartOKb at h
  simp only [Bool.and_eq_true, List.all_eq_true, decide_eq_true_eq, List.any_eq_true] at h
  rcases h with ⟨⟨⟨⟨h1, h2⟩, h3⟩, h4⟩, h5⟩
  refine ⟨fun g hg => isEmpty_false_ne (h1 g hg), fun g hg => isEmpty_false_ne (h2 g hg),
    fun g hg => isEmpty_false_ne (h3 g hg), h4, ?_⟩
  intro i hi
  rcases h5 i hi with ⟨l, hl, he⟩
  exact ⟨l, hl, eq_of_beq he⟩

end ModVerif.Modfile.Edit
