/-
  Tie proofs for sumdb/note/note.go, part 4 (Generated/FnNoteKey.lean vs Model/Note.lean): strconv.ParseUint(hash16, 16, 32)
  behind the `len(hash16) == 8` test against the model's `parseHash16`, and the embeddings of the model's
  `Except KeyErr Verifier` / `Except KeyErr Signer` into the `(Verifier, error)` / `(Signer, error)` pairs of the Go functions.
-/
import ModVerif.Generated.FnNoteKey
import ModVerif.Model.Note
import ModVerif.Proofs.TieFnNoteSign
namespace ModVerif.TieFnNoteKey
open ModVerif ModVerif.GoRt ModVerif.TieFnNote ModVerif.TieFnNoteSign

abbrev GVerifier := Generated.Note.Verifier

/-! ### strconv.ParseUint(s, 16, 32) and the model's hex parser -/

/-- a digit of `strconv` below 16 is a hex digit of the model -/
theorem digitVal_hex (c : UInt8) :
    (match digitVal c with
     | none => none
     | some v => if v < 16 then some v else none) = Note.hexDigitVal c := by
  unfold digitVal Note.hexDigitVal
  simp only []
  by_cases h1 : 48 ≤ c.toNat ∧ c.toNat ≤ 57
  · have : c.toNat - 48 < 16 := by omega
    simp [h1, this]
  · by_cases h2 : 97 ≤ c.toNat ∧ c.toNat ≤ 122
    · by_cases h3 : c.toNat ≤ 102
      · have : c.toNat - 87 < 16 := by omega
        have h4 : 97 ≤ c.toNat ∧ c.toNat ≤ 102 := ⟨h2.1, h3⟩
        simp [h1, h2, h4, this]
      · have : ¬ c.toNat - 87 < 16 := by omega
        have h4 : ¬ (97 ≤ c.toNat ∧ c.toNat ≤ 102) := by omega
        have h5 : ¬ (65 ≤ c.toNat ∧ c.toNat ≤ 70) := by omega
        have h7 : 102 < c.toNat := by omega
        simp [h1, h2, h5, h7, this]
    · have h4 : ¬ (97 ≤ c.toNat ∧ c.toNat ≤ 102) := by omega
      by_cases h3 : 65 ≤ c.toNat ∧ c.toNat ≤ 90
      · by_cases h6 : c.toNat ≤ 70
        · have : c.toNat - 55 < 16 := by omega
          have h5 : 65 ≤ c.toNat ∧ c.toNat ≤ 70 := ⟨h3.1, h6⟩
          simp [h1, h2, h3, h4, h5, this]
        · have : ¬ c.toNat - 55 < 16 := by omega
          have h5 : ¬ (65 ≤ c.toNat ∧ c.toNat ≤ 70) := by omega
          have h7 : 70 < c.toNat := by omega
          simp [h1, h2, h3, h4, h7, this]
      · have h5 : ¬ (65 ≤ c.toNat ∧ c.toNat ≤ 70) := by omega
        simp [h1, h2, h3, h4, h5]

theorem parseDigits_hex : ∀ (s : Bytes) (acc : Nat), parseDigits 16 acc s = Note.parseHexAux acc s
  | [], acc => rfl
  | c :: rest, acc => by
    have h := digitVal_hex c
    simp only [parseDigits, Note.parseHexAux]
    cases hd : digitVal c with
    | none =>
      rw [hd] at h; simp only [] at h
      rw [← h]
    | some v =>
      rw [hd] at h; simp only [] at h
      by_cases hv : v < 16
      · rw [if_pos hv] at h
        rw [← h]; simp only []; rw [if_pos hv]
        exact parseDigits_hex rest _
      · rw [if_neg hv] at h
        rw [← h]; simp only []; rw [if_neg hv]

theorem hexDigitVal_lt {c : UInt8} {v : Nat} (h : Note.hexDigitVal c = some v) : v < 16 := by
  rw [← digitVal_hex] at h
  cases hd : digitVal c with
  | none => rw [hd] at h; cases h
  | some w =>
    rw [hd] at h; simp only [] at h
    by_cases hw : w < 16
    · rw [if_pos hw] at h; cases h; exact hw
    · rw [if_neg hw] at h; cases h

/-- `n` hex digits after the accumulator `acc` stay below `(acc + 1) * 16 ^ n` -/
theorem parseHexAux_lt : ∀ (s : Bytes) (acc v : Nat), Note.parseHexAux acc s = some v → v < (acc + 1) * 16 ^ s.length
  | [], acc, v, h => by
    simp only [Note.parseHexAux] at h; cases h; simp
  | c :: rest, acc, v, h => by
    simp only [Note.parseHexAux] at h
    cases hd : Note.hexDigitVal c with
    | none => rw [hd] at h; cases h
    | some d =>
      rw [hd] at h; simp only [] at h
      have hlt := hexDigitVal_lt hd
      have ih := parseHexAux_lt rest _ v h
      have hle : (acc * 16 + d + 1) * 16 ^ rest.length ≤ ((acc + 1) * 16) * 16 ^ rest.length :=
        Nat.mul_le_mul_right _ (by omega)
      simp only [List.length_cons, Nat.pow_succ]
      calc v < (acc * 16 + d + 1) * 16 ^ rest.length := ih
        _ ≤ ((acc + 1) * 16) * 16 ^ rest.length := hle
        _ = (acc + 1) * (16 ^ rest.length * 16) := by rw [Nat.mul_assoc, Nat.mul_comm 16]

/-- eight hex digits fit 32 bits -/
theorem parseHexAux_eight {s : Bytes} {v : Nat} (hl : s.length = 8) (h : Note.parseHexAux 0 s = some v) :
    v < 4294967296 := by
  have := parseHexAux_lt s 0 v h
  rw [hl] at this
  simpa using this

/-- `strconv.ParseUint(s, 16, 32)` on a string of exactly eight bytes -/
theorem parseUint_eight {s : Bytes} (hl : s.length = 8) :
    parseUint s 16 32 =
      match Note.parseHexAux 0 s with
      | some v => ((v : Int), none)
      | none => (0, some "strconv.ParseUint: invalid syntax") := by
  have hne : s.isEmpty = false := by
    cases s with
    | nil => simp at hl
    | cons _ _ => rfl
  have h16 : (16 : Int).toNat = 16 := rfl
  have h32 : (2 : Nat) ^ (32 : Int).toNat = 4294967296 := by decide
  unfold parseUint
  rw [if_neg (by omega), hne, h16, h32, parseDigits_hex]
  simp only [Bool.false_eq_true, if_false]
  cases hp : Note.parseHexAux 0 s with
  | none => rfl
  | some v =>
    simp only []
    rw [if_pos (parseHexAux_eight hl hp)]

theorem len_eq_eight {s : Bytes} : len s = 8 ↔ s.length = 8 := by
  unfold len; simp only [Int.ofNat_eq_natCast]; omega

/-- the model's `parseHash16` in terms of the generated tests: a value exactly when both succeed -/
theorem parseHash16_some {s : Bytes} {h : UInt32} (hp : Note.parseHash16 s = some h) :
    len s = 8 ∧ parseUint s 16 32 = (hashI h, none) := by
  unfold Note.parseHash16 at hp
  by_cases hl : s.length = 8
  · have hl' : (s.length != 8) = false := by simp [hl]
    rw [hl'] at hp
    simp only [Bool.false_eq_true, if_false] at hp
    refine ⟨len_eq_eight.mpr hl, ?_⟩
    rw [parseUint_eight hl]
    cases hx : Note.parseHexAux 0 s with
    | none => rw [hx] at hp; cases hp
    | some v =>
      rw [hx] at hp
      simp only [Option.map_some, Option.some.injEq] at hp
      have hv := parseHexAux_eight hl hx
      subst hp
      simp only [hashI, Int.ofNat_eq_natCast]
      have : (UInt32.ofNat v).toNat = v := by
        simp only [UInt32.toNat_ofNat']
        exact Nat.mod_eq_of_lt hv
      rw [this]
  · have hl' : (s.length != 8) = true := by simp [hl]
    rw [hl'] at hp; simp at hp

theorem parseHash16_none {s : Bytes} (hp : Note.parseHash16 s = none) :
    ¬ (len s = 8 ∧ (parseUint s 16 32).2 = none) := by
  rintro ⟨hl, he⟩
  have hl := len_eq_eight.mp hl
  unfold Note.parseHash16 at hp
  have hl' : (s.length != 8) = false := by simp [hl]
  rw [hl'] at hp
  simp only [Bool.false_eq_true, if_false] at hp
  rw [parseUint_eight hl] at he
  cases hx : Note.parseHexAux 0 s with
  | none => rw [hx] at he; simp at he
  | some v => rw [hx] at hp; simp at hp

/-- `uint32(hash)` of a parsed 32-bit value -/
theorem toU32_hashI (h : UInt32) : toU32 (hashI h) = hashI h := by
  have hlt : h.toNat < 4294967296 := h.toNat_lt
  simp only [toU32, hashI, Int.ofNat_eq_natCast]; omega

theorem hashI_inj {a b : UInt32} : hashI a = hashI b ↔ a = b := by
  simp only [hashI, Int.ofNat_eq_natCast]
  constructor
  · intro h
    have : a.toNat = b.toNat := by omega
    exact UInt32.toNat_inj.mp this
  · intro h; rw [h]

/-! ### embeddings of the results -/

/-- the model's result of NewVerifier as the result of the generated function: the `(Verifier, error)` pair of the Go
    function, or the run-time panic of `binary.BigEndian.Uint32` (only with a `sha` returning fewer than 4 bytes) -/
def embedVerifier : Except Note.KeyErr Note.Verifier → M (GVerifier × Option String)
  | .ok v => .ok ({ Name := v.name, KeyHash := Int.ofNat v.hash.toNat, Verify := v.verify }, none)
  | .error .id => .ok (default, some "errVerifierID")
  | .error .alg => .ok (default, some "errVerifierAlg")
  | .error .hash => .ok (default, some "errVerifierHash")
  | .error .panic => .error .panic

/-- likewise for NewSigner; the Go signer's `Sign` never fails (`ed25519.Sign`) -/
def embedSigner : Except Note.KeyErr Note.Signer → M (GSigner × Option String)
  | .ok s => .ok (gsigner s, none)
  | .error .id => .ok (default, some "errSignerID")
  | .error .alg => .ok (default, some "errSignerAlg")
  | .error .hash => .ok (default, some "errSignerHash")
  | .error .panic => .error .panic

/-- a result without error is the image of a model verifier -/
theorem embedVerifier_ok_inv {r : Except Note.KeyErr Note.Verifier} {gv : GVerifier}
    (h : embedVerifier r = .ok (gv, none)) :
    ∃ v, r = .ok v ∧ gv = { Name := v.name, KeyHash := Int.ofNat v.hash.toNat, Verify := v.verify } := by
  match r, h with
  | .ok v, h =>
    simp only [embedVerifier, Except.ok.injEq, Prod.mk.injEq, and_true] at h
    exact ⟨v, rfl, h.symm⟩
  | .error .id, h => simp [embedVerifier] at h
  | .error .alg, h => simp [embedVerifier] at h
  | .error .hash, h => simp [embedVerifier] at h
  | .error .panic, h => simp [embedVerifier] at h

theorem embedSigner_ok_inv {r : Except Note.KeyErr Note.Signer} {gs : GSigner}
    (h : embedSigner r = .ok (gs, none)) : ∃ s, r = .ok s ∧ gs = gsigner s := by
  match r, h with
  | .ok s, h =>
    simp only [embedSigner, Except.ok.injEq, Prod.mk.injEq, and_true] at h
    exact ⟨s, rfl, h.symm⟩
  | .error .id, h => simp [embedSigner] at h
  | .error .alg, h => simp [embedSigner] at h
  | .error .hash, h => simp [embedSigner] at h
  | .error .panic, h => simp [embedSigner] at h

/-! ### NewVerifier -/

theorem NewVerifier_eq (sha : Bytes → Bytes) (edVerify : Bytes → Bytes → Bytes → Bool) (vkey : Bytes) :
    Generated.NoteKey.NewVerifier b64decI edVerify isSpaceI (fun acc pre => pre ++ sha acc) vkey =
      embedVerifier (Note.NewVerifier sha edVerify vkey) := by
  unfold Generated.NoteKey.NewVerifier Note.NewVerifier
  rw [chop_eq]; simp only [bind_ok]
  rcases Note.chop vkey [43] with ⟨name, vkey1⟩
  simp only []
  rw [chop_eq]; simp only [bind_ok]
  rcases Note.chop vkey1 [43] with ⟨hash16, key64⟩
  simp only []
  rw [isValidName_eq]
  cases hp : Note.parseHash16 hash16 with
  | none =>
    have hn := parseHash16_none hp
    have hc : (!decide (len hash16 = 8) || !(parseUint hash16 16 32).snd.isNone) = true := by
      by_cases h8 : len hash16 = 8
      · cases he : (parseUint hash16 16 32).snd with
        | none => exact absurd ⟨h8, he⟩ hn
        | some _ => simp
      · simp [h8]
    rw [hc]
    simp [embedVerifier]
  | some h =>
    obtain ⟨h8, hu⟩ := parseHash16_some hp
    rw [hu, h8]
    cases hb : B64.b64dec key64 with
    | none =>
      have hbi : b64decI key64 = ([], some "illegal base64 data") := by simp [b64decI, hb]
      rw [hbi]
      simp [embedVerifier]
    | some key =>
      have hbi : b64decI key64 = (key, none) := by simp [b64decI, hb]
      rw [hbi]
      simp only [toU32_hashI]
      rw [keyHash_eq]
      cases key with
      | nil => simp [embedVerifier]
      | cons alg pub =>
        cases hv : Note.isValidName name with
        | false => simp [embedVerifier]
        | true =>
          have hlen : ¬ (len pub + 1 = 0) := by
            have := len_nonneg pub
            omega
          cases hk : Note.keyHash sha name (alg :: pub) with
          | none => simp [embedVerifier, hlen]
          | some kh =>
            by_cases hh : h = kh
            · subst hh
              by_cases ha : alg.toNat = 1
              · have ha' : ((alg.toNat : Nat) : Int) = 1 := by omega
                by_cases hl : pub.length = 32
                · have hl' : len pub = 32 := by simp [len, hl]
                  simp [embedVerifier, Note.algEd25519, ha, hl, hl',
                    Generated.NoteKey.verifier_Name, Generated.NoteKey.verifier_KeyHash,
                    Generated.NoteKey.verifier_Verify, hashI]
                · have hl' : ¬ len pub = 32 := by
                    simp only [len, Int.ofNat_eq_natCast]; omega
                  simp [embedVerifier, hlen, Note.algEd25519, ha, hl, hl']
              · have ha' : ¬ ((alg.toNat : Nat) : Int) = 1 := by omega
                simp [embedVerifier, hlen, Note.algEd25519, ha, ha']
            · have hh' : ¬ hashI h = hashI kh := fun e => hh (hashI_inj.mp e)
              simp [embedVerifier, hlen, hh, hh']

/-! ### NewSigner -/

theorem NewSigner_eq (sha : Bytes → Bytes) (edPub : Bytes → Bytes) (edSign edSignG : Bytes → Bytes → Bytes)
    (hsign : ∀ seed msg, seed.length = 32 → edSignG (seed ++ edPub seed) msg = edSign seed msg) (skey : Bytes) :
    Generated.NoteKey.NewSigner b64decI (fun seed => seed ++ edPub seed) edSignG isSpaceI (fun acc pre => pre ++ sha acc) skey =
      embedSigner (Note.NewSigner sha edPub edSign skey) := by
  unfold Generated.NoteKey.NewSigner Note.NewSigner
  rw [chop_eq]; simp only [bind_ok]
  rcases Note.chop skey [43] with ⟨priv1, s1⟩
  simp only []
  rw [chop_eq]; simp only [bind_ok]
  rcases Note.chop s1 [43] with ⟨priv2, s2⟩
  simp only []
  rw [chop_eq]; simp only [bind_ok]
  rcases Note.chop s2 [43] with ⟨name, s3⟩
  simp only []
  rw [chop_eq]; simp only [bind_ok]
  rcases Note.chop s3 [43] with ⟨hash16, key64⟩
  simp only []
  rw [isValidName_eq]
  cases hp : Note.parseHash16 hash16 with
  | none =>
    have hn := parseHash16_none hp
    have hc : (!decide (len hash16 = 8) || !(parseUint hash16 16 32).snd.isNone) = true := by
      by_cases h8 : len hash16 = 8
      · cases he : (parseUint hash16 16 32).snd with
        | none => exact absurd ⟨h8, he⟩ hn
        | some _ => simp
      · simp [h8]
    have hc' : ∀ a b c d e : Bool,
        (a || b || !decide (len hash16 = 8) || !(parseUint hash16 16 32).snd.isNone || c || d || e) = true := by
      intro a b c d e
      rw [Bool.or_assoc (a || b), hc]; simp
    rw [if_pos (hc' _ _ _ _ _)]
    simp [embedSigner]
  | some h =>
    obtain ⟨h8, hu⟩ := parseHash16_some hp
    rw [hu, h8]
    cases hb : B64.b64dec key64 with
    | none =>
      have hbi : b64decI key64 = ([], some "illegal base64 data") := by simp [b64decI, hb]
      rw [hbi]
      simp [embedSigner]
    | some key =>
      have hbi : b64decI key64 = (key, none) := by simp [b64decI, hb]
      rw [hbi]
      simp only [toU32_hashI]
      have hP : B "PRIVATE" = [80, 82, 73, 86, 65, 84, 69] := by decide +kernel
      have hK : B "KEY" = [75, 69, 89] := by decide +kernel
      rw [hP, hK]
      cases key with
      | nil => simp [embedSigner]
      | cons alg seed =>
        by_cases h1 : priv1 = [80, 82, 73, 86, 65, 84, 69]
        · by_cases h2 : priv2 = [75, 69, 89]
          · cases hv : Note.isValidName name with
            | false => simp [embedSigner]
            | true =>
              have hlen : ¬ (len seed + 1 = 0) := by
                have := len_nonneg seed
                omega
              by_cases ha : alg.toNat = 1
              · by_cases hl : seed.length = 32
                · have hl' : len seed = 32 := by simp [len, hl]
                  have hs : sliceFrom (seed ++ edPub seed) 32 = .ok (edPub seed) := by
                    have := sliceFrom_natCast (v := seed ++ edPub seed) (k := 32) (by simp [hl])
                    rw [show ((32 : Nat) : Int) = 32 from rfl] at this
                    rw [this, ← hl]; simp
                  have hm : mkByte 1 = UInt8.ofNat Note.algEd25519 := by decide
                  simp only [h1, h2, idx_zero_cons, sliceFrom_one_cons, bind_ok, hl', hs, List.singleton_append,
                    keyHash_eq, hm]
                  cases hk : Note.keyHash sha name (UInt8.ofNat Note.algEd25519 :: edPub seed) with
                  | none => simp [embedSigner, hlen, Note.algEd25519, ha, hl]
                  | some kh =>
                    by_cases hh : h = kh
                    · subst hh
                      have hf : (fun msg => (edSignG (seed ++ edPub seed) msg, (none : Option String))) =
                          fun msg => (edSign seed msg, none) := by
                        funext msg; rw [hsign seed msg hl]
                      simp [embedSigner, hlen, Note.algEd25519, ha, hl, gsigner,
                        Generated.NoteKey.signer_Name, Generated.NoteKey.signer_KeyHash,
                        Generated.NoteKey.signer_Sign, hashI, hf]
                    · have hh' : ¬ hashI h = hashI kh := fun e => hh (hashI_inj.mp e)
                      simp [embedSigner, hlen, Note.algEd25519, ha, hl, hh, hh']
                · have hl' : ¬ len seed = 32 := by
                    simp only [len, Int.ofNat_eq_natCast]; omega
                  simp [embedSigner, hlen, Note.algEd25519, h1, h2, ha, hl, hl']
              · have ha' : ¬ ((alg.toNat : Nat) : Int) = 1 := by omega
                simp [embedSigner, hlen, Note.algEd25519, h1, h2, ha, ha']
          · simp [embedSigner, h2]
        · simp [embedSigner, h1]

end ModVerif.TieFnNoteKey
