/-
  Helper lemmas for Tie/FnEditStmt.lean (agent edit-stmt): the godebug operations of the regenerated go.mod edit operations
  (Generated/FnEdit.lean): File_AddGodebug (+ loop 1, File_addNewGodebug), File_DropGodebug (+ loop 1) against
  `Modfile.Edit.addGodebug` (`addGodebugCore`, `firstRest`) and `Modfile.Edit.dropGodebug` (`clearAll`).

  The loops walk the pointer list `f.Godebug` (read once, before the loop); the objects are changed in place.  One step of
  a loop at the index `ppre.length` is a lemma (`…_step_*`): the heap afterwards represents the model file in which the entry
  at that index was updated / cleared and the line was rewritten.  The loop lemmas are inductions on the rest of the list.
-/
import ModVerif.Proofs.TieFnEditStmtA
set_option linter.unusedSimpArgs false
set_option linter.unusedVariables false
namespace ModVerif.Tie.FnEditStmtB
open ModVerif ModVerif.GoRt ModVerif.Generated.Edit ModVerif.Tie.FnEditRep ModVerif.Tie.FnEditTreeA ModVerif.Tie.FnEditStmtA
open ModVerif.TieFnEditAddLine (Frame nodeCount idxL_append_mid)
open ModVerif.Modfile.Edit (firstRest clearAll markAll clearedGodebug deref nilId)

theorem B_godebug : B "godebug" = [103, 111, 100, 101, 98, 117, 103] := by decide +kernel

/-! ### positions in a typed list -/

/-- the entry at the index `ppre.length` of a represented typed list -/
theorem REntsL_at {α β : Type} {objs : List α} {g : β → α} {id : β → Nat} {nl : Nat} {ppre ps : List Int} {p : Int}
    {mpre xs : List β} {x : β} (r : REntsL objs g id nl (ppre ++ p :: ps) (mpre ++ x :: xs)) (hl : ppre.length = mpre.length) :
    heapGet objs p = .ok (g x) ∧ id x ≤ nl :=
  r.get ppre.length p x (by simp) (by simp [hl])

theorem lt_len_mid {α : Type} (a : List α) (x : α) (c : List α) : ((a.length : Nat) : Int) < len (a ++ x :: c) := by
  rw [len_eq]; simp; omega

theorem not_lt_len_end {α : Type} (a : List α) : ¬ (((a.length : Nat) : Int) < len a) := by
  rw [len_eq]; omega

theorem succ_len {α : Type} (a : List α) (x : α) : ((a.length : Nat) : Int) + 1 = (((a ++ [x]).length : Nat) : Int) := by
  simp

theorem markAll_cons (fs : Modfile.FileSyntax) (i : Nat) (dead : List Nat) :
    markAll fs (i :: dead) = markAll (Modfile.Edit.markRemoved fs i) dead := rfl

/-! ### the model's scans -/

/-- with `need = false` no entry is "the first" -/
theorem firstRest_false {α : Type} (m : α → Bool) (id : α → Nat) (upd : α → α) (cleared : α) :
    ∀ (xs : List α) {r : List α × Option Nat × List Nat}, firstRest m id upd cleared xs false = .ok r → r.2.1 = none
  | [], r, h => by simp only [firstRest] at h; cases h; rfl
  | x :: xs, r, h => by
    simp only [firstRest] at h
    cases hm : m x with
    | true =>
      simp only [hm, if_true, bind, Except.bind] at h
      cases hd : deref (id x) with
      | error e => simp [hd] at h
      | ok i =>
        simp only [hd] at h
        cases hr : firstRest m id upd cleared xs false with
        | error e => simp [hr] at h
        | ok r' =>
          obtain ⟨a, b, c⟩ := r'
          simp only [hr, Bool.false_eq_true, if_false, pure, Except.pure] at h
          cases h
          exact firstRest_false m id upd cleared xs (r := (a, b, c)) hr
    | false =>
      simp only [hm, Bool.false_eq_true, if_false, bind, Except.bind] at h
      cases hr : firstRest m id upd cleared xs false with
      | error e => simp [hr] at h
      | ok r' =>
        obtain ⟨a, b, c⟩ := r'
        simp only [hr, pure, Except.pure] at h
        cases h
        exact firstRest_false m id upd cleared xs (r := (a, b, c)) hr

/-- with `need = true` and no "first": nothing matched, nothing changed -/
theorem firstRest_true_none {α : Type} (m : α → Bool) (id : α → Nat) (upd : α → α) (cleared : α) :
    ∀ (xs : List α) {ys : List α} {dead : List Nat}, firstRest m id upd cleared xs true = .ok (ys, none, dead) →
      ys = xs ∧ dead = [] ∧ ∀ x ∈ xs, m x = false
  | [], ys, dead, h => by simp only [firstRest] at h; cases h; simp
  | x :: xs, ys, dead, h => by
    simp only [firstRest] at h
    cases hm : m x with
    | true =>
      simp only [hm, if_true, bind, Except.bind] at h
      cases hd : deref (id x) with
      | error e => simp [hd] at h
      | ok i =>
        simp only [hd] at h
        cases hr : firstRest m id upd cleared xs false with
        | error e => simp [hr] at h
        | ok r' =>
          obtain ⟨a, b, c⟩ := r'
          simp only [hr, if_true, pure, Except.pure] at h
          cases h
    | false =>
      simp only [hm, Bool.false_eq_true, if_false, bind, Except.bind] at h
      cases hr : firstRest m id upd cleared xs true with
      | error e => simp [hr] at h
      | ok r' =>
        obtain ⟨a, b, c⟩ := r'
        simp only [hr, pure, Except.pure] at h
        cases h
        obtain ⟨h1, h2, h3⟩ := firstRest_true_none m id upd cleared xs hr
        subst h1; subst h2
        refine ⟨rfl, rfl, ?_⟩
        intro y hy
        rcases List.mem_cons.1 hy with rfl | hy
        · exact hm
        · exact h3 y hy

theorem deref_ok {id : Nat} (h : id ≠ 0) : deref id = .ok id := by
  simp [deref, nilId, h]

theorem deref_nil {id : Nat} (h : id = 0) : deref id = .error .nilDeref := by
  simp [deref, nilId, h]

/-! ### one step on a godebug entry -/

/-- the facts about the entry at the current index -/
structure AtGd (h : Heap) (fp : Int) (o : File) (e : Modfile.Edit.EFile) (ppre : List Int) (p : Int) (ps : List Int)
    (mpre : List Modfile.Godebug) (x : Modfile.Godebug) (xs : List Modfile.Godebug) : Prop where
  ho : heapGet h.mods fp = .ok o
  R : RepFAt h o e
  hO : o.Godebug = ppre ++ p :: ps
  hE : e.f.godebug = mpre ++ x :: xs
  hl : ppre.length = mpre.length

theorem AtGd.get {h : Heap} {fp : Int} {o : File} {e : Modfile.Edit.EFile} {ppre : List Int} {p : Int} {ps : List Int}
    {mpre : List Modfile.Godebug} {x : Modfile.Godebug} {xs : List Modfile.Godebug} (A : AtGd h fp o e ppre p ps mpre x xs) :
    heapGet h.godebugs p = .ok (godebugG x) ∧ x.lineId ≤ h.lines.length := by
  have r := A.R.godebug.rel
  rw [A.hO, A.hE] at r
  exact REntsL_at r A.hl

/-- the entry at the current index is replaced by `y` (object overwritten by `godebugG y`) -/
theorem AtGd.setObj {h : Heap} {fp : Int} {o : File} {e : Modfile.Edit.EFile} {ppre : List Int} {p : Int} {ps : List Int}
    {mpre : List Modfile.Godebug} {x : Modfile.Godebug} {xs : List Modfile.Godebug} (A : AtGd h fp o e ppre p ps mpre x xs)
    (y : Modfile.Godebug) (hy : y.lineId ≤ h.lines.length) :
    RepFAt { h with godebugs := h.godebugs.set (p.toNat - 1) (godebugG y) } o
      { e with f := { e.f with godebug := mpre ++ y :: xs } } := by
  have hnd := A.R.godebug.nodup
  have hi : o.Godebug[ppre.length]? = some p := by rw [A.hO]; simp
  have r := A.R.godebug.rel.setAt hnd ppre.length p y hi hy
  have hset : e.f.godebug.set ppre.length y = mpre ++ y :: xs := by rw [A.hE, A.hl]; simp
  rw [hset] at r
  exact RepFAt_replaceGodebug A.R _ o.Godebug _ ⟨r, hnd⟩

/-- the token list of a godebug line -/
def gdTokens (key value : Bytes) : List Bytes := [[103, 111, 100, 101, 98, 117, 103], (key ++ [61]) ++ value]

theorem gdTokens_eq (key value : Bytes) : [B "godebug", key ++ [61] ++ value] = gdTokens key value := by
  rw [B_godebug]; rfl

/-- `g.Key == key && need`: the value is overwritten in the object and in the line -/
theorem AddGodebug_step_update {h : Heap} {fp : Int} {o : File} {e : Modfile.Edit.EFile} {ppre : List Int} {p : Int} {ps : List Int}
    {mpre : List Modfile.Godebug} {x : Modfile.Godebug} {xs : List Modfile.Godebug} (A : AtGd h fp o e ppre p ps mpre x xs)
    (key value : Bytes) (hk : x.key = key) (h0 : x.lineId ≠ 0) (fuel : Nat) :
    ∃ h1, File_AddGodebug_loop1 o.Godebug fp key value (fuel + 1) ((ppre.length : Nat) : Int) h true =
        File_AddGodebug_loop1 o.Godebug fp key value fuel (((ppre ++ [p]).length : Nat) : Int) h1 false ∧
      AtGd h1 fp o { e with f := { e.f with godebug := mpre ++ { x with value := value } :: xs,
                                            syn := Modfile.Edit.updateLine e.f.syn x.lineId (gdTokens key value) } }
        ppre p ps mpre { x with value := value } xs := by
  subst hk
  obtain ⟨hg, hle⟩ := A.get
  obtain ⟨l, hl, hid⟩ := A.R.linesG.ofId h0 hle
  let x' : Modfile.Godebug := { x with value := value }
  let ha : Heap := { h with godebugs := h.godebugs.set (p.toNat - 1) ({ Key := x.key, Value := value, Syntax := (x.lineId : Int) } : Godebug) }
  have hl1 : heapGet ha.lines (x.lineId : Int) = .ok (lineG l) := hl
  have hup := FileSyntax_updateLine_eq (h := ha) (x := o.Syntax) (tokens := gdTokens x.key value) hl1 (by intro _; simp [gdTokens])
  have Ra : RepFAt ha o { e with f := { e.f with godebug := mpre ++ x' :: xs } } := A.setObj x' hle
  refine ⟨setLineH ha (x.lineId : Int) (updateTokLine (gdTokens x.key value) l), ?_, ?_⟩
  · conv => lhs; unfold File_AddGodebug_loop1
    have hlt : ((ppre.length : Nat) : Int) < len o.Godebug := by rw [A.hO]; exact lt_len_mid _ _ _
    have hidx : idxL o.Godebug ((ppre.length : Nat) : Int) = .ok p := by rw [A.hO]; exact idxL_append_mid _ _ _ rfl
    simp only [hlt, decide_true, if_true, hidx, bind, Except.bind, pure, Except.pure, hg, godebugG_Key, A.ho,
      fun v => heapSet_of_get v hg, fun v => heapGet_listSet_same v hg, godebugG_Syntax]
    have hup' : FileSyntax_updateLine o.Syntax (x.lineId : Int) [[103, 111, 100, 101, 98, 117, 103], x.key ++ [61] ++ value] ha =
        .ok ((), setLineH ha (x.lineId : Int) (updateTokLine (gdTokens x.key value) l)) := hup
    rw [hup', succ_len]
  · refine ⟨A.ho, ?_, A.hO, rfl, A.hl⟩
    exact RepFAt.setLine Ra (IdEquiv_updateTok (gdTokens x.key value)) hl1


/-- the line object at `q` is rewritten by an id-equivariant line function -/
theorem AtGd.setLine {h : Heap} {fp : Int} {o : File} {e : Modfile.Edit.EFile} {ppre : List Int} {p : Int} {ps : List Int}
    {mpre : List Modfile.Godebug} {x : Modfile.Godebug} {xs : List Modfile.Godebug} (A : AtGd h fp o e ppre p ps mpre x xs)
    {q : Int} {l0 : Modfile.Line} {g : Modfile.Line → Modfile.Line} (hg : IdEquiv g) (hget : heapGet h.lines q = .ok (lineG l0)) :
    AtGd (setLineH h q (g l0)) fp o { e with f := { e.f with syn := e.f.syn.updateLine q.toNat g } } ppre p ps mpre x xs :=
  ⟨A.ho, A.R.setLine hg hget, A.hO, A.hE, A.hl⟩

/-- the entry at the current index is replaced by `y` -/
theorem AtGd.setObj' {h : Heap} {fp : Int} {o : File} {e : Modfile.Edit.EFile} {ppre : List Int} {p : Int} {ps : List Int}
    {mpre : List Modfile.Godebug} {x : Modfile.Godebug} {xs : List Modfile.Godebug} (A : AtGd h fp o e ppre p ps mpre x xs)
    (y : Modfile.Godebug) (hy : y.lineId ≤ h.lines.length) :
    AtGd { h with godebugs := h.godebugs.set (p.toNat - 1) (godebugG y) } fp o
      { e with f := { e.f with godebug := mpre ++ y :: xs } } ppre p ps mpre y xs :=
  ⟨A.ho, A.setObj y hy, A.hO, rfl, A.hl⟩

/-- on to the next index -/
theorem AtGd.next {h : Heap} {fp : Int} {o : File} {e : Modfile.Edit.EFile} {ppre : List Int} {p q : Int} {ps : List Int}
    {mpre : List Modfile.Godebug} {x y : Modfile.Godebug} {xs : List Modfile.Godebug} (A : AtGd h fp o e ppre p (q :: ps) mpre x (y :: xs)) :
    AtGd h fp o e (ppre ++ [p]) q ps (mpre ++ [x]) y xs :=
  ⟨A.ho, A.R, by rw [A.hO]; simp, by rw [A.hE]; simp, by simp [A.hl]⟩

/-- `g.Key == key && !need`: the line is marked removed, the object is cleared -/
theorem AddGodebug_step_clear {h : Heap} {fp : Int} {o : File} {e : Modfile.Edit.EFile} {ppre : List Int} {p : Int} {ps : List Int}
    {mpre : List Modfile.Godebug} {x : Modfile.Godebug} {xs : List Modfile.Godebug} (A : AtGd h fp o e ppre p ps mpre x xs)
    (key value : Bytes) (hk : x.key = key) (h0 : x.lineId ≠ 0) (fuel : Nat) :
    ∃ h1, File_AddGodebug_loop1 o.Godebug fp key value (fuel + 1) ((ppre.length : Nat) : Int) h false =
        File_AddGodebug_loop1 o.Godebug fp key value fuel (((ppre ++ [p]).length : Nat) : Int) h1 false ∧
      AtGd h1 fp o { e with f := { e.f with godebug := mpre ++ clearedGodebug :: xs,
                                            syn := Modfile.Edit.markRemoved e.f.syn x.lineId } }
        ppre p ps mpre clearedGodebug xs := by
  subst hk
  obtain ⟨hg, hle⟩ := A.get
  obtain ⟨l, hl, hid⟩ := A.R.linesG.ofId h0 hle
  have A1 := A.setLine IdEquiv_markRemoved hl
  have A2 := A1.setObj' clearedGodebug (Nat.zero_le _)
  refine ⟨_, ?_, A2⟩
  conv => lhs; unfold File_AddGodebug_loop1
  have hlt : ((ppre.length : Nat) : Int) < len o.Godebug := by rw [A.hO]; exact lt_len_mid _ _ _
  have hidx : idxL o.Godebug ((ppre.length : Nat) : Int) = .ok p := by rw [A.hO]; exact idxL_append_mid _ _ _ rfl
  simp only [hlt, decide_true, if_true, hidx, bind, Except.bind, pure, Except.pure, hg, godebugG_Key, godebugG_Syntax,
    Line_markRemoved_eq hl, setLineH_godebugs, fun v => heapSet_of_get v hg, Bool.false_eq_true, if_false, succ_len ppre p]
  rfl

/-- `g.Key != key` -/
theorem AddGodebug_step_skip {h : Heap} {fp : Int} {o : File} {e : Modfile.Edit.EFile} {ppre : List Int} {p : Int} {ps : List Int}
    {mpre : List Modfile.Godebug} {x : Modfile.Godebug} {xs : List Modfile.Godebug} (A : AtGd h fp o e ppre p ps mpre x xs)
    (key value : Bytes) (hk : x.key ≠ key) (need : Bool) (fuel : Nat) :
    File_AddGodebug_loop1 o.Godebug fp key value (fuel + 1) ((ppre.length : Nat) : Int) h need =
      File_AddGodebug_loop1 o.Godebug fp key value fuel (((ppre ++ [p]).length : Nat) : Int) h need := by
  obtain ⟨hg, hle⟩ := A.get
  conv => lhs; unfold File_AddGodebug_loop1
  have hlt : ((ppre.length : Nat) : Int) < len o.Godebug := by rw [A.hO]; exact lt_len_mid _ _ _
  have hidx : idxL o.Godebug ((ppre.length : Nat) : Int) = .ok p := by rw [A.hO]; exact idxL_append_mid _ _ _ rfl
  simp only [hlt, decide_true, if_true, hidx, bind, Except.bind, pure, Except.pure, hg, godebugG_Key, hk, decide_false,
    Bool.false_eq_true, if_false, succ_len ppre p]

/-- a matching entry whose `Syntax` is nil: nil dereference (in `updateLine` or in `markRemoved`) -/
theorem AddGodebug_step_nil {h : Heap} {fp : Int} {o : File} {e : Modfile.Edit.EFile} {ppre : List Int} {p : Int} {ps : List Int}
    {mpre : List Modfile.Godebug} {x : Modfile.Godebug} {xs : List Modfile.Godebug} (A : AtGd h fp o e ppre p ps mpre x xs)
    (key value : Bytes) (hk : x.key = key) (h0 : x.lineId = 0) (need : Bool) (fuel : Nat) :
    File_AddGodebug_loop1 o.Godebug fp key value (fuel + 1) ((ppre.length : Nat) : Int) h need = .error .panic := by
  subst hk
  obtain ⟨hg, hle⟩ := A.get
  conv => lhs; unfold File_AddGodebug_loop1
  have hlt : ((ppre.length : Nat) : Int) < len o.Godebug := by rw [A.hO]; exact lt_len_mid _ _ _
  have hidx : idxL o.Godebug ((ppre.length : Nat) : Int) = .ok p := by rw [A.hO]; exact idxL_append_mid _ _ _ rfl
  have hz : ((x.lineId : Nat) : Int) ≤ 0 := by simp [h0]
  cases need with
  | true =>
    simp only [hlt, decide_true, if_true, hidx, bind, Except.bind, pure, Except.pure, hg, godebugG_Key, A.ho,
      fun v => heapSet_of_get v hg, fun v => heapGet_listSet_same v hg, godebugG_Syntax]
    rw [FileSyntax_updateLine_nil _ hz]
  | false =>
    simp only [hlt, decide_true, if_true, hidx, bind, Except.bind, pure, Except.pure, hg, godebugG_Key, godebugG_Syntax,
      Bool.false_eq_true, if_false, Line_markRemoved_nil hz]

theorem AddGodebug_loop_end (rx : List Int) (fp : Int) (key value : Bytes) (fuel : Nat) (h : Heap) (need : Bool) :
    File_AddGodebug_loop1 rx fp key value (fuel + 1) ((rx.length : Nat) : Int) h need = .ok (((rx.length : Nat) : Int), h, need) := by
  unfold File_AddGodebug_loop1
  simp only [not_lt_len_end, decide_false, Bool.false_eq_true, if_false, pure, Except.pure]

/-! ### inversion of `firstRest` / `clearAll` on a cons -/

section scans
variable {α : Type} (m : α → Bool) (id : α → Nat) (upd : α → α) (cleared : α)

theorem firstRest_cons_nil {x : α} (xs : List α) (need : Bool) (hm : m x = true) (h0 : id x = 0) :
    firstRest m id upd cleared (x :: xs) need = .error .nilDeref := by
  simp only [firstRest, hm, if_true, deref_nil h0, bind, Except.bind]

theorem firstRest_cons_match_true {x : α} {xs ys : List α} {first : Option Nat} {dead : List Nat} (hm : m x = true) (h0 : id x ≠ 0)
    (h : firstRest m id upd cleared (x :: xs) true = .ok (ys, first, dead)) :
    ∃ rest, firstRest m id upd cleared xs false = .ok (rest, none, dead) ∧ ys = upd x :: rest ∧ first = some (id x) := by
  simp only [firstRest, hm, if_true, deref_ok h0, bind, Except.bind] at h
  cases hr : firstRest m id upd cleared xs false with
  | error e => simp [hr] at h
  | ok r' =>
    obtain ⟨a, b, c⟩ := r'
    have hb : b = none := firstRest_false m id upd cleared xs (r := (a, b, c)) hr
    subst hb
    simp only [hr, pure, Except.pure, Except.ok.injEq, Prod.mk.injEq] at h
    obtain ⟨h1, h2, h3⟩ := h
    subst h1; subst h2; subst h3
    exact ⟨a, rfl, rfl, rfl⟩

theorem firstRest_cons_match_false {x : α} {xs ys : List α} {first : Option Nat} {dead : List Nat} (hm : m x = true) (h0 : id x ≠ 0)
    (h : firstRest m id upd cleared (x :: xs) false = .ok (ys, first, dead)) :
    ∃ rest dead', firstRest m id upd cleared xs false = .ok (rest, none, dead') ∧ ys = cleared :: rest ∧ first = none ∧
      dead = id x :: dead' := by
  simp only [firstRest, hm, if_true, deref_ok h0, bind, Except.bind] at h
  cases hr : firstRest m id upd cleared xs false with
  | error e => simp [hr] at h
  | ok r' =>
    obtain ⟨a, b, c⟩ := r'
    have hb : b = none := firstRest_false m id upd cleared xs (r := (a, b, c)) hr
    subst hb
    simp only [hr, pure, Except.pure, Bool.false_eq_true, if_false, Except.ok.injEq, Prod.mk.injEq] at h
    obtain ⟨h1, h2, h3⟩ := h
    subst h1; subst h2; subst h3
    exact ⟨a, c, rfl, rfl, rfl, rfl⟩

theorem firstRest_cons_nomatch {x : α} {xs ys : List α} {need : Bool} {first : Option Nat} {dead : List Nat} (hm : m x = false)
    (h : firstRest m id upd cleared (x :: xs) need = .ok (ys, first, dead)) :
    ∃ rest, firstRest m id upd cleared xs need = .ok (rest, first, dead) ∧ ys = x :: rest := by
  simp only [firstRest, hm, Bool.false_eq_true, if_false, bind, Except.bind] at h
  cases hr : firstRest m id upd cleared xs need with
  | error e => simp [hr] at h
  | ok r' =>
    obtain ⟨a, b, c⟩ := r'
    simp only [hr, pure, Except.pure, Except.ok.injEq, Prod.mk.injEq] at h
    obtain ⟨h1, h2, h3⟩ := h
    subst h1; subst h2; subst h3
    exact ⟨a, rfl, rfl⟩

theorem firstRest_cons_match_err {x : α} {xs : List α} {need : Bool} {err : Modfile.Edit.EditErr} (hm : m x = true) (h0 : id x ≠ 0)
    (h : firstRest m id upd cleared (x :: xs) need = .error err) : firstRest m id upd cleared xs false = .error err := by
  simp only [firstRest, hm, if_true, deref_ok h0, bind, Except.bind] at h
  cases hr : firstRest m id upd cleared xs false with
  | error e => simp only [hr] at h; exact h
  | ok r' =>
    obtain ⟨a, b, c⟩ := r'
    cases need <;> simp [hr, pure, Except.pure] at h

theorem firstRest_cons_nomatch_err {x : α} {xs : List α} {need : Bool} {err : Modfile.Edit.EditErr} (hm : m x = false)
    (h : firstRest m id upd cleared (x :: xs) need = .error err) : firstRest m id upd cleared xs need = .error err := by
  simp only [firstRest, hm, Bool.false_eq_true, if_false, bind, Except.bind] at h
  cases hr : firstRest m id upd cleared xs need with
  | error e => simp only [hr] at h; exact h
  | ok r' =>
    obtain ⟨a, b, c⟩ := r'
    simp [hr, pure, Except.pure] at h

theorem clearAll_cons_nil {x : α} (xs : List α) (hm : m x = true) (h0 : id x = 0) :
    clearAll m id cleared (x :: xs) = .error .nilDeref := by
  simp only [clearAll, hm, if_true, deref_nil h0, bind, Except.bind]

theorem clearAll_cons_match {x : α} {xs ys : List α} {dead : List Nat} (hm : m x = true) (h0 : id x ≠ 0)
    (h : clearAll m id cleared (x :: xs) = .ok (ys, dead)) :
    ∃ rest dead', clearAll m id cleared xs = .ok (rest, dead') ∧ ys = cleared :: rest ∧ dead = id x :: dead' := by
  simp only [clearAll, hm, if_true, deref_ok h0, bind, Except.bind] at h
  cases hr : clearAll m id cleared xs with
  | error e => simp [hr] at h
  | ok r' =>
    obtain ⟨a, c⟩ := r'
    simp only [hr, pure, Except.pure, Except.ok.injEq, Prod.mk.injEq] at h
    obtain ⟨h1, h2⟩ := h
    subst h1; subst h2
    exact ⟨a, c, rfl, rfl, rfl⟩

theorem clearAll_cons_nomatch {x : α} {xs ys : List α} {dead : List Nat} (hm : m x = false)
    (h : clearAll m id cleared (x :: xs) = .ok (ys, dead)) :
    ∃ rest, clearAll m id cleared xs = .ok (rest, dead) ∧ ys = x :: rest := by
  simp only [clearAll, hm, Bool.false_eq_true, if_false, bind, Except.bind] at h
  cases hr : clearAll m id cleared xs with
  | error e => simp [hr] at h
  | ok r' =>
    obtain ⟨a, c⟩ := r'
    simp only [hr, pure, Except.pure, Except.ok.injEq, Prod.mk.injEq] at h
    obtain ⟨h1, h2⟩ := h
    subst h1; subst h2
    exact ⟨a, rfl, rfl⟩

theorem clearAll_cons_match_err {x : α} {xs : List α} {err : Modfile.Edit.EditErr} (hm : m x = true) (h0 : id x ≠ 0)
    (h : clearAll m id cleared (x :: xs) = .error err) : clearAll m id cleared xs = .error err := by
  simp only [clearAll, hm, if_true, deref_ok h0, bind, Except.bind] at h
  cases hr : clearAll m id cleared xs with
  | error e => simp only [hr] at h; exact h
  | ok r' =>
    obtain ⟨a, c⟩ := r'
    simp [hr, pure, Except.pure] at h

theorem clearAll_cons_nomatch_err {x : α} {xs : List α} {err : Modfile.Edit.EditErr} (hm : m x = false)
    (h : clearAll m id cleared (x :: xs) = .error err) : clearAll m id cleared xs = .error err := by
  simp only [clearAll, hm, Bool.false_eq_true, if_false, bind, Except.bind] at h
  cases hr : clearAll m id cleared xs with
  | error e => simp only [hr] at h; exact h
  | ok r' =>
    obtain ⟨a, c⟩ := r'
    simp [hr, pure, Except.pure] at h

end scans

/-! ### loop 1 of File.AddGodebug against `firstRest` -/

/-- the model's predicates of `addGodebugCore` -/
abbrev gdM (key : Bytes) : Modfile.Godebug → Bool := fun g => g.key == key
abbrev gdUpd (value : Bytes) : Modfile.Godebug → Modfile.Godebug := fun g => { g with value := value }

theorem gdM_true {key : Bytes} {x : Modfile.Godebug} (hk : x.key = key) : gdM key x = true := by simp [gdM, hk]
theorem gdM_false {key : Bytes} {x : Modfile.Godebug} (hk : x.key ≠ key) : gdM key x = false := by simp [gdM, hk]

/-- the syntax after the "first" entry was handled -/
def gdSyn (syn : Modfile.FileSyntax) (tokens : List Bytes) : Option Nat → Modfile.FileSyntax
  | some i => Modfile.Edit.updateLine syn i tokens
  | none => syn

theorem ps_of_nil {α β : Type} {objs : List α} {g : β → α} {id : β → Nat} {nl : Nat} {ppre ps : List Int} {mpre : List β}
    (r : REntsL objs g id nl (ppre ++ ps) (mpre ++ [])) (hl : ppre.length = mpre.length) : ps = [] := by
  have := r.length
  simp only [List.length_append, List.length_nil] at this
  exact List.eq_nil_of_length_eq_zero (by omega)

theorem ps_of_cons {α β : Type} {objs : List α} {g : β → α} {id : β → Nat} {nl : Nat} {ppre ps : List Int} {mpre : List β}
    {x : β} {xs : List β} (r : REntsL objs g id nl (ppre ++ ps) (mpre ++ x :: xs)) (hl : ppre.length = mpre.length) :
    ∃ p ps', ps = p :: ps' := by
  have := r.length
  simp only [List.length_append, List.length_cons] at this
  cases ps with
  | nil => simp only [List.length_nil] at this; omega
  | cons p ps' => exact ⟨p, ps', rfl⟩

theorem AddGodebug_loop_ok (key value : Bytes) (fp : Int) (o : File) :
    ∀ (xs : List Modfile.Godebug) (ps ppre : List Int) (mpre : List Modfile.Godebug) (h : Heap) (e : Modfile.Edit.EFile) (need : Bool)
      (fuel : Nat) (xs' : List Modfile.Godebug) (first : Option Nat) (dead : List Nat),
      heapGet h.mods fp = .ok o → RepFAt h o e → o.Godebug = ppre ++ ps → e.f.godebug = mpre ++ xs → ppre.length = mpre.length →
      xs.length + 1 ≤ fuel →
      firstRest (gdM key) (·.lineId) (gdUpd value) clearedGodebug xs need = .ok (xs', first, dead) →
      ∃ r h', File_AddGodebug_loop1 o.Godebug fp key value fuel ((ppre.length : Nat) : Int) h need =
          .ok (r, h', need && first.isNone) ∧ heapGet h'.mods fp = .ok o ∧
        RepFAt h' o { e with f := { e.f with godebug := mpre ++ xs',
                                             syn := markAll (gdSyn e.f.syn (gdTokens key value) first) dead } }
  | [], ps, ppre, mpre, h, e, need, fuel, xs', first, dead, ho, R, hO, hE, hl, hf, hfr => by
    have hps : ps = [] := by
      have r := R.godebug.rel; rw [hO, hE] at r; exact ps_of_nil r hl
    subst hps
    simp only [firstRest, Except.ok.injEq, Prod.mk.injEq] at hfr
    obtain ⟨h1, h2, h3⟩ := hfr
    subst h1; subst h2; subst h3
    obtain ⟨f, rfl⟩ : ∃ f, fuel = f + 1 := ⟨fuel - 1, by omega⟩
    have hO' : o.Godebug = ppre := by simpa using hO
    refine ⟨((ppre.length : Nat) : Int), h, ?_, ho, ?_⟩
    · rw [hO']
      have := AddGodebug_loop_end ppre fp key value f h need
      simpa using this
    · have hE' : mpre ++ [] = e.f.godebug := hE.symm
      rw [hE']
      exact R
  | x :: xs, ps, ppre, mpre, h, e, need, fuel, xs', first, dead, ho, R, hO, hE, hl, hf, hfr => by
    obtain ⟨p, ps', rfl⟩ : ∃ p ps', ps = p :: ps' := by
      have r := R.godebug.rel; rw [hO, hE] at r; exact ps_of_cons r hl
    obtain ⟨f, rfl⟩ : ∃ f, fuel = f + 1 := ⟨fuel - 1, by omega⟩
    have A : AtGd h fp o e ppre p ps' mpre x xs := ⟨ho, R, hO, hE, hl⟩
    have hf' : xs.length + 1 ≤ f := by simp only [List.length_cons] at hf; omega
    by_cases hk : x.key = key
    · by_cases h0 : x.lineId = 0
      · rw [firstRest_cons_nil _ _ _ _ xs need (gdM_true hk) h0] at hfr
        cases hfr
      · cases need with
        | true =>
          obtain ⟨rest, hr, rfl, rfl⟩ := firstRest_cons_match_true _ _ _ _ (gdM_true hk) h0 hfr
          obtain ⟨h1, hstep, A1⟩ := AddGodebug_step_update A key value hk h0 f
          obtain ⟨r, h', hrun, ho', R'⟩ := AddGodebug_loop_ok key value fp o xs ps' (ppre ++ [p]) (mpre ++ [gdUpd value x]) h1 _ false f
            rest none dead A1.ho A1.R (by rw [hO]; simp) (by simp) (by simp [hl]) hf' hr
          refine ⟨r, h', ?_, ho', ?_⟩
          · rw [hstep, hrun]; rfl
          · rw [show mpre ++ gdUpd value x :: rest = (mpre ++ [gdUpd value x]) ++ rest by simp]
            exact R'
        | false =>
          obtain ⟨rest, dead', hr, rfl, rfl, rfl⟩ := firstRest_cons_match_false _ _ _ _ (gdM_true hk) h0 hfr
          obtain ⟨h1, hstep, A1⟩ := AddGodebug_step_clear A key value hk h0 f
          obtain ⟨r, h', hrun, ho', R'⟩ := AddGodebug_loop_ok key value fp o xs ps' (ppre ++ [p]) (mpre ++ [clearedGodebug]) h1 _ false f
            rest none dead' A1.ho A1.R (by rw [hO]; simp) (by simp) (by simp [hl]) hf' hr
          refine ⟨r, h', ?_, ho', ?_⟩
          · rw [hstep, hrun]
          · rw [show mpre ++ clearedGodebug :: rest = (mpre ++ [clearedGodebug]) ++ rest by simp]
            exact R'
    · obtain ⟨rest, hr, rfl⟩ := firstRest_cons_nomatch _ _ _ _ (gdM_false hk) hfr
      have hstep := AddGodebug_step_skip A key value hk need f
      obtain ⟨r, h', hrun, ho', R'⟩ := AddGodebug_loop_ok key value fp o xs ps' (ppre ++ [p]) (mpre ++ [x]) h e need f
        rest first dead ho R (by rw [hO]; simp) (by rw [hE]; simp) (by simp [hl]) hf' hr
      refine ⟨r, h', ?_, ho', ?_⟩
      · rw [hstep, hrun]
      · rw [show mpre ++ x :: rest = (mpre ++ [x]) ++ rest by simp]
        exact R'

theorem AddGodebug_loop_err (key value : Bytes) (fp : Int) (o : File) :
    ∀ (xs : List Modfile.Godebug) (ps ppre : List Int) (mpre : List Modfile.Godebug) (h : Heap) (e : Modfile.Edit.EFile) (need : Bool)
      (fuel : Nat) (err : Modfile.Edit.EditErr),
      heapGet h.mods fp = .ok o → RepFAt h o e → o.Godebug = ppre ++ ps → e.f.godebug = mpre ++ xs → ppre.length = mpre.length →
      xs.length + 1 ≤ fuel →
      firstRest (gdM key) (·.lineId) (gdUpd value) clearedGodebug xs need = .error err →
      File_AddGodebug_loop1 o.Godebug fp key value fuel ((ppre.length : Nat) : Int) h need = .error .panic
  | [], ps, ppre, mpre, h, e, need, fuel, err, ho, R, hO, hE, hl, hf, hfr => by
    simp [firstRest] at hfr
  | x :: xs, ps, ppre, mpre, h, e, need, fuel, err, ho, R, hO, hE, hl, hf, hfr => by
    obtain ⟨p, ps', rfl⟩ : ∃ p ps', ps = p :: ps' := by
      have r := R.godebug.rel; rw [hO, hE] at r; exact ps_of_cons r hl
    obtain ⟨f, rfl⟩ : ∃ f, fuel = f + 1 := ⟨fuel - 1, by omega⟩
    have A : AtGd h fp o e ppre p ps' mpre x xs := ⟨ho, R, hO, hE, hl⟩
    have hf' : xs.length + 1 ≤ f := by simp only [List.length_cons] at hf; omega
    by_cases hk : x.key = key
    · by_cases h0 : x.lineId = 0
      · exact AddGodebug_step_nil A key value hk h0 need f
      · have hr := firstRest_cons_match_err _ _ _ _ (gdM_true hk) h0 hfr
        cases need with
        | true =>
          obtain ⟨h1, hstep, A1⟩ := AddGodebug_step_update A key value hk h0 f
          rw [hstep]
          exact AddGodebug_loop_err key value fp o xs ps' (ppre ++ [p]) (mpre ++ [gdUpd value x]) h1 _ false f err
            A1.ho A1.R (by rw [hO]; simp) (by simp) (by simp [hl]) hf' hr
        | false =>
          obtain ⟨h1, hstep, A1⟩ := AddGodebug_step_clear A key value hk h0 f
          rw [hstep]
          exact AddGodebug_loop_err key value fp o xs ps' (ppre ++ [p]) (mpre ++ [clearedGodebug]) h1 _ false f err
            A1.ho A1.R (by rw [hO]; simp) (by simp) (by simp [hl]) hf' hr
    · have hr := firstRest_cons_nomatch_err _ _ _ _ (gdM_false hk) hfr
      rw [AddGodebug_step_skip A key value hk need f]
      exact AddGodebug_loop_err key value fp o xs ps' (ppre ++ [p]) (mpre ++ [x]) h e need f err
        ho R (by rw [hO]; simp) (by rw [hE]; simp) (by simp [hl]) hf' hr

/-! ### File.addNewGodebug, File.AddGodebug -/

/-- a new object at the end of a typed list -/
theorem REnts_snoc {α β : Type} {objs : List α} {g : β → α} {id : β → Nat} {nl : Nat} {ps : List Int} {xs : List β}
    (r : REnts objs g id nl ps xs) (y : β) (hy : id y ≤ nl) :
    REnts (objs ++ [g y]) g id nl (ps ++ [((objs.length + 1 : Nat) : Int)]) (xs ++ [y]) := by
  refine ⟨?_, ?_⟩
  · exact (r.rel.mono (fun _ _ hq => heapGet_alloc_old _ hq) (Nat.le_refl _)).append
      (show REntsL _ g id nl [_] [y] from ⟨⟨heapGet_alloc_new _ _, hy⟩, trivial⟩)
  · rw [List.nodup_append]
    refine ⟨r.nodup, by simp, ?_⟩
    intro a ha b hb
    simp only [List.mem_singleton] at hb
    subst hb
    have := (r.rel.mem_alloc a ha).2
    omega

theorem File_addNewGodebug_sim (hAL : AddLineSpec) {h : Heap} {fp : Int} {e : Modfile.Edit.EFile} (R : RepF h fp e)
    (key value : Bytes) (fuel : Nat) (hf : nodeCount e.f.syn.stmts + 3 ≤ fuel) :
    ∃ h', File_addNewGodebug fuel fp key value h = .ok ((), h') ∧
      RepF h' fp { f := { e.f with godebug := e.f.godebug ++ [{ key := key, value := value, lineId := e.next }],
                                   syn := Modfile.Edit.addLine e.f.syn none [B "godebug", key ++ [61] ++ value] e.next },
                   next := e.next + 1 } := by
  obtain ⟨o, ho, R⟩ := R
  obtain ⟨h1, hrun, hsyn, htok, hG, hlen, F⟩ :=
    hAL h o.Syntax e.f.syn none [103, 111, 100, 101, 98, 117, 103] [key ++ [61] ++ value] fuel R.syn R.tok hf
  have hnext : e.next = h.lines.length + 1 := R.next
  have ho1 : heapGet h1.mods fp = .ok o := by rw [F.mods]; exact ho
  rw [← hnext] at hrun hsyn htok
  let gN : Modfile.Godebug := { key := key, value := value, lineId := e.next }
  refine ⟨{ h1 with godebugs := h1.godebugs ++ [godebugG gN],
                    mods := h1.mods.set (fp.toNat - 1) { o with Godebug := o.Godebug ++ [((h1.godebugs.length + 1 : Nat) : Int)] } }, ?_, ?_⟩
  · have hrun' : FileSyntax_addLine fuel o.Syntax Expr.nil [[103, 111, 100, 101, 98, 117, 103], key ++ [61] ++ value] h =
        .ok (((e.next : Nat) : Int), h1) := hrun
    simp only [File_addNewGodebug, ho, hrun', bind, Except.bind, pure, Except.pure, heapAlloc, ho1, heapSet_of_get _ ho1]
    rfl
  · have R1 := RepFAt_afterAddLine R F hsyn htok (hG R.linesG) hlen
    have R2 := RepFAt_replaceGodebug R1 (h1.godebugs ++ [godebugG gN]) (o.Godebug ++ [((h1.godebugs.length + 1 : Nat) : Int)])
      (e.f.godebug ++ [gN]) (REnts_snoc R1.godebug gN (by show e.next ≤ h1.lines.length; omega))
    have R3 := RepF_ofSetMods (fp := fp) (h := { h1 with godebugs := h1.godebugs ++ [godebugG gN] }) ho1 R2
    rw [B_godebug]
    exact R3

/-- **File.AddGodebug, the model succeeds** -/
theorem File_AddGodebug_ok (hAL : AddLineSpec) {h : Heap} {fp : Int} {e e' : Modfile.Edit.EFile} (R : RepF h fp e)
    (key value : Bytes) (fuel : Nat) (hf1 : e.f.godebug.length + 1 ≤ fuel) (hf2 : nodeCount e.f.syn.stmts + 3 ≤ fuel)
    (hm : Modfile.Edit.addGodebug e key value = .ok e') :
    ∃ h', File_AddGodebug fuel fp key value h = .ok (none, h') ∧ RepF h' fp e' := by
  obtain ⟨o, ho, R0⟩ := R
  cases hfr : firstRest (gdM key) (·.lineId) (gdUpd value) clearedGodebug e.f.godebug true with
  | error err =>
    have hfr' : firstRest (fun g : Modfile.Godebug => g.key == key) (·.lineId) (fun g => { g with value := value }) clearedGodebug
      e.f.godebug true = .error err := hfr
    simp [Modfile.Edit.addGodebug, Modfile.Edit.addGodebugCore, hfr', bind, Except.bind] at hm
  | ok r =>
    obtain ⟨gd', first, dead⟩ := r
    have hfr' : firstRest (fun g : Modfile.Godebug => g.key == key) (·.lineId) (fun g => { g with value := value }) clearedGodebug
      e.f.godebug true = .ok (gd', first, dead) := hfr
    obtain ⟨r, h1, hrun, ho1, R1⟩ := AddGodebug_loop_ok key value fp o e.f.godebug o.Godebug [] [] h e true fuel gd' first dead
      ho R0 rfl rfl rfl hf1 hfr
    have hrun' : File_AddGodebug_loop1 o.Godebug fp key value fuel 0 h true = .ok (r, h1, true && first.isNone) := hrun
    cases first with
    | some i =>
      simp only [Modfile.Edit.addGodebug, Modfile.Edit.addGodebugCore, hfr', bind, Except.bind, pure, Except.pure,
        Except.ok.injEq] at hm
      subst hm
      refine ⟨h1, ?_, o, ho1, ?_⟩
      · simp only [File_AddGodebug, ho, hrun', bind, Except.bind, pure, Except.pure, Option.isNone_some, Bool.and_false,
          Bool.false_eq_true, if_false]
      · rw [gdTokens_eq]
        exact R1
    | none =>
      simp only [Modfile.Edit.addGodebug, Modfile.Edit.addGodebugCore, hfr', bind, Except.bind, pure, Except.pure,
        Except.ok.injEq] at hm
      subst hm
      obtain ⟨hgd, hdead, _⟩ := firstRest_true_none _ _ _ _ e.f.godebug hfr
      subst hgd; subst hdead
      have R1' : RepF h1 fp e := ⟨o, ho1, R1⟩
      obtain ⟨h2, hnew, R2⟩ := File_addNewGodebug_sim hAL R1' key value fuel hf2
      refine ⟨h2, ?_, R2⟩
      simp only [File_AddGodebug, ho, hrun', bind, Except.bind, pure, Except.pure, Option.isNone_none, Bool.and_true,
        if_true, hnew]

/-- **File.AddGodebug, the model meets a cleared entry (`nilDeref`): Go panics** -/
theorem File_AddGodebug_err {h : Heap} {fp : Int} {e : Modfile.Edit.EFile} (R : RepF h fp e)
    (key value : Bytes) (fuel : Nat) (hf1 : e.f.godebug.length + 1 ≤ fuel) {err : Modfile.Edit.EditErr}
    (hm : Modfile.Edit.addGodebug e key value = .error err) :
    File_AddGodebug fuel fp key value h = .error .panic := by
  obtain ⟨o, ho, R0⟩ := R
  cases hfr : firstRest (gdM key) (·.lineId) (gdUpd value) clearedGodebug e.f.godebug true with
  | ok r =>
    obtain ⟨gd', first, dead⟩ := r
    have hfr' : firstRest (fun g : Modfile.Godebug => g.key == key) (·.lineId) (fun g => { g with value := value }) clearedGodebug
      e.f.godebug true = .ok (gd', first, dead) := hfr
    cases first <;>
      simp [Modfile.Edit.addGodebug, Modfile.Edit.addGodebugCore, hfr', bind, Except.bind, pure, Except.pure] at hm
  | error err' =>
    have hrun := AddGodebug_loop_err key value fp o e.f.godebug o.Godebug [] [] h e true fuel err' ho R0 rfl rfl rfl hf1 hfr
    have hrun' : File_AddGodebug_loop1 o.Godebug fp key value fuel 0 h true = .error .panic := hrun
    simp only [File_AddGodebug, ho, hrun', bind, Except.bind]

/-! ### File.DropGodebug against `clearAll` -/

theorem DropGodebug_step_clear {h : Heap} {fp : Int} {o : File} {e : Modfile.Edit.EFile} {ppre : List Int} {p : Int} {ps : List Int}
    {mpre : List Modfile.Godebug} {x : Modfile.Godebug} {xs : List Modfile.Godebug} (A : AtGd h fp o e ppre p ps mpre x xs)
    (key : Bytes) (hk : x.key = key) (h0 : x.lineId ≠ 0) (fuel : Nat) :
    ∃ h1, File_DropGodebug_loop1 o.Godebug fp key (fuel + 1) ((ppre.length : Nat) : Int) h =
        File_DropGodebug_loop1 o.Godebug fp key fuel (((ppre ++ [p]).length : Nat) : Int) h1 ∧
      AtGd h1 fp o { e with f := { e.f with godebug := mpre ++ clearedGodebug :: xs,
                                            syn := Modfile.Edit.markRemoved e.f.syn x.lineId } }
        ppre p ps mpre clearedGodebug xs := by
  subst hk
  obtain ⟨hg, hle⟩ := A.get
  obtain ⟨l, hl, hid⟩ := A.R.linesG.ofId h0 hle
  have A1 := A.setLine IdEquiv_markRemoved hl
  have A2 := A1.setObj' clearedGodebug (Nat.zero_le _)
  refine ⟨_, ?_, A2⟩
  conv => lhs; unfold File_DropGodebug_loop1
  have hlt : ((ppre.length : Nat) : Int) < len o.Godebug := by rw [A.hO]; exact lt_len_mid _ _ _
  have hidx : idxL o.Godebug ((ppre.length : Nat) : Int) = .ok p := by rw [A.hO]; exact idxL_append_mid _ _ _ rfl
  simp only [hlt, decide_true, if_true, hidx, bind, Except.bind, pure, Except.pure, hg, godebugG_Key, godebugG_Syntax,
    Line_markRemoved_eq hl, setLineH_godebugs, fun v => heapSet_of_get v hg, succ_len ppre p]
  rfl

theorem DropGodebug_step_skip {h : Heap} {fp : Int} {o : File} {e : Modfile.Edit.EFile} {ppre : List Int} {p : Int} {ps : List Int}
    {mpre : List Modfile.Godebug} {x : Modfile.Godebug} {xs : List Modfile.Godebug} (A : AtGd h fp o e ppre p ps mpre x xs)
    (key : Bytes) (hk : x.key ≠ key) (fuel : Nat) :
    File_DropGodebug_loop1 o.Godebug fp key (fuel + 1) ((ppre.length : Nat) : Int) h =
      File_DropGodebug_loop1 o.Godebug fp key fuel (((ppre ++ [p]).length : Nat) : Int) h := by
  obtain ⟨hg, hle⟩ := A.get
  conv => lhs; unfold File_DropGodebug_loop1
  have hlt : ((ppre.length : Nat) : Int) < len o.Godebug := by rw [A.hO]; exact lt_len_mid _ _ _
  have hidx : idxL o.Godebug ((ppre.length : Nat) : Int) = .ok p := by rw [A.hO]; exact idxL_append_mid _ _ _ rfl
  simp only [hlt, decide_true, if_true, hidx, bind, Except.bind, pure, Except.pure, hg, godebugG_Key, hk, decide_false,
    Bool.false_eq_true, if_false, succ_len ppre p]

theorem DropGodebug_step_nil {h : Heap} {fp : Int} {o : File} {e : Modfile.Edit.EFile} {ppre : List Int} {p : Int} {ps : List Int}
    {mpre : List Modfile.Godebug} {x : Modfile.Godebug} {xs : List Modfile.Godebug} (A : AtGd h fp o e ppre p ps mpre x xs)
    (key : Bytes) (hk : x.key = key) (h0 : x.lineId = 0) (fuel : Nat) :
    File_DropGodebug_loop1 o.Godebug fp key (fuel + 1) ((ppre.length : Nat) : Int) h = .error .panic := by
  subst hk
  obtain ⟨hg, hle⟩ := A.get
  conv => lhs; unfold File_DropGodebug_loop1
  have hlt : ((ppre.length : Nat) : Int) < len o.Godebug := by rw [A.hO]; exact lt_len_mid _ _ _
  have hidx : idxL o.Godebug ((ppre.length : Nat) : Int) = .ok p := by rw [A.hO]; exact idxL_append_mid _ _ _ rfl
  have hz : ((x.lineId : Nat) : Int) ≤ 0 := by simp [h0]
  simp only [hlt, decide_true, if_true, hidx, bind, Except.bind, pure, Except.pure, hg, godebugG_Key, godebugG_Syntax,
    Line_markRemoved_nil hz]

theorem DropGodebug_loop_end (rx : List Int) (fp : Int) (key : Bytes) (fuel : Nat) (h : Heap) :
    File_DropGodebug_loop1 rx fp key (fuel + 1) ((rx.length : Nat) : Int) h = .ok (((rx.length : Nat) : Int), h) := by
  unfold File_DropGodebug_loop1
  simp only [not_lt_len_end, decide_false, Bool.false_eq_true, if_false, pure, Except.pure]

theorem DropGodebug_loop_ok (key : Bytes) (fp : Int) (o : File) :
    ∀ (xs : List Modfile.Godebug) (ps ppre : List Int) (mpre : List Modfile.Godebug) (h : Heap) (e : Modfile.Edit.EFile)
      (fuel : Nat) (xs' : List Modfile.Godebug) (dead : List Nat),
      heapGet h.mods fp = .ok o → RepFAt h o e → o.Godebug = ppre ++ ps → e.f.godebug = mpre ++ xs → ppre.length = mpre.length →
      xs.length + 1 ≤ fuel →
      clearAll (gdM key) (·.lineId) clearedGodebug xs = .ok (xs', dead) →
      ∃ r h', File_DropGodebug_loop1 o.Godebug fp key fuel ((ppre.length : Nat) : Int) h = .ok (r, h') ∧
        heapGet h'.mods fp = .ok o ∧
        RepFAt h' o { e with f := { e.f with godebug := mpre ++ xs', syn := markAll e.f.syn dead } }
  | [], ps, ppre, mpre, h, e, fuel, xs', dead, ho, R, hO, hE, hl, hf, hfr => by
    have hps : ps = [] := by
      have r := R.godebug.rel; rw [hO, hE] at r; exact ps_of_nil r hl
    subst hps
    simp only [clearAll, Except.ok.injEq, Prod.mk.injEq] at hfr
    obtain ⟨h1, h2⟩ := hfr
    subst h1; subst h2
    obtain ⟨f, rfl⟩ : ∃ f, fuel = f + 1 := ⟨fuel - 1, by omega⟩
    have hO' : o.Godebug = ppre := by simpa using hO
    refine ⟨((ppre.length : Nat) : Int), h, ?_, ho, ?_⟩
    · rw [hO']
      exact DropGodebug_loop_end ppre fp key f h
    · have hE' : mpre ++ [] = e.f.godebug := hE.symm
      rw [hE']
      exact R
  | x :: xs, ps, ppre, mpre, h, e, fuel, xs', dead, ho, R, hO, hE, hl, hf, hfr => by
    obtain ⟨p, ps', rfl⟩ : ∃ p ps', ps = p :: ps' := by
      have r := R.godebug.rel; rw [hO, hE] at r; exact ps_of_cons r hl
    obtain ⟨f, rfl⟩ : ∃ f, fuel = f + 1 := ⟨fuel - 1, by omega⟩
    have A : AtGd h fp o e ppre p ps' mpre x xs := ⟨ho, R, hO, hE, hl⟩
    have hf' : xs.length + 1 ≤ f := by simp only [List.length_cons] at hf; omega
    by_cases hk : x.key = key
    · by_cases h0 : x.lineId = 0
      · rw [clearAll_cons_nil _ _ _ xs (gdM_true hk) h0] at hfr
        cases hfr
      · obtain ⟨rest, dead', hr, rfl, rfl⟩ := clearAll_cons_match _ _ _ (gdM_true hk) h0 hfr
        obtain ⟨h1, hstep, A1⟩ := DropGodebug_step_clear A key hk h0 f
        obtain ⟨r, h', hrun, ho', R'⟩ := DropGodebug_loop_ok key fp o xs ps' (ppre ++ [p]) (mpre ++ [clearedGodebug]) h1 _ f
          rest dead' A1.ho A1.R (by rw [hO]; simp) (by simp) (by simp [hl]) hf' hr
        refine ⟨r, h', ?_, ho', ?_⟩
        · rw [hstep, hrun]
        · rw [show mpre ++ clearedGodebug :: rest = (mpre ++ [clearedGodebug]) ++ rest by simp]
          exact R'
    · obtain ⟨rest, hr, rfl⟩ := clearAll_cons_nomatch _ _ _ (gdM_false hk) hfr
      have hstep := DropGodebug_step_skip A key hk f
      obtain ⟨r, h', hrun, ho', R'⟩ := DropGodebug_loop_ok key fp o xs ps' (ppre ++ [p]) (mpre ++ [x]) h e f
        rest dead ho R (by rw [hO]; simp) (by rw [hE]; simp) (by simp [hl]) hf' hr
      refine ⟨r, h', ?_, ho', ?_⟩
      · rw [hstep, hrun]
      · rw [show mpre ++ x :: rest = (mpre ++ [x]) ++ rest by simp]
        exact R'

theorem DropGodebug_loop_err (key : Bytes) (fp : Int) (o : File) :
    ∀ (xs : List Modfile.Godebug) (ps ppre : List Int) (mpre : List Modfile.Godebug) (h : Heap) (e : Modfile.Edit.EFile)
      (fuel : Nat) (err : Modfile.Edit.EditErr),
      heapGet h.mods fp = .ok o → RepFAt h o e → o.Godebug = ppre ++ ps → e.f.godebug = mpre ++ xs → ppre.length = mpre.length →
      xs.length + 1 ≤ fuel →
      clearAll (gdM key) (·.lineId) clearedGodebug xs = .error err →
      File_DropGodebug_loop1 o.Godebug fp key fuel ((ppre.length : Nat) : Int) h = .error .panic
  | [], ps, ppre, mpre, h, e, fuel, err, ho, R, hO, hE, hl, hf, hfr => by
    simp [clearAll] at hfr
  | x :: xs, ps, ppre, mpre, h, e, fuel, err, ho, R, hO, hE, hl, hf, hfr => by
    obtain ⟨p, ps', rfl⟩ : ∃ p ps', ps = p :: ps' := by
      have r := R.godebug.rel; rw [hO, hE] at r; exact ps_of_cons r hl
    obtain ⟨f, rfl⟩ : ∃ f, fuel = f + 1 := ⟨fuel - 1, by omega⟩
    have A : AtGd h fp o e ppre p ps' mpre x xs := ⟨ho, R, hO, hE, hl⟩
    have hf' : xs.length + 1 ≤ f := by simp only [List.length_cons] at hf; omega
    by_cases hk : x.key = key
    · by_cases h0 : x.lineId = 0
      · exact DropGodebug_step_nil A key hk h0 f
      · have hr := clearAll_cons_match_err _ _ _ (gdM_true hk) h0 hfr
        obtain ⟨h1, hstep, A1⟩ := DropGodebug_step_clear A key hk h0 f
        rw [hstep]
        exact DropGodebug_loop_err key fp o xs ps' (ppre ++ [p]) (mpre ++ [clearedGodebug]) h1 _ f err
          A1.ho A1.R (by rw [hO]; simp) (by simp) (by simp [hl]) hf' hr
    · have hr := clearAll_cons_nomatch_err _ _ _ (gdM_false hk) hfr
      rw [DropGodebug_step_skip A key hk f]
      exact DropGodebug_loop_err key fp o xs ps' (ppre ++ [p]) (mpre ++ [x]) h e f err
        ho R (by rw [hO]; simp) (by rw [hE]; simp) (by simp [hl]) hf' hr

/-- **File.DropGodebug, the model succeeds** -/
theorem File_DropGodebug_ok {h : Heap} {fp : Int} {e e' : Modfile.Edit.EFile} (R : RepF h fp e)
    (key : Bytes) (fuel : Nat) (hf1 : e.f.godebug.length + 1 ≤ fuel)
    (hm : Modfile.Edit.dropGodebug e key = .ok e') :
    ∃ h', File_DropGodebug fuel fp key h = .ok (none, h') ∧ RepF h' fp e' := by
  obtain ⟨o, ho, R0⟩ := R
  cases hfr : clearAll (gdM key) (·.lineId) clearedGodebug e.f.godebug with
  | error err =>
    have hfr' : clearAll (fun g : Modfile.Godebug => g.key == key) (·.lineId) clearedGodebug e.f.godebug = .error err := hfr
    simp [Modfile.Edit.dropGodebug, hfr', bind, Except.bind] at hm
  | ok r =>
    obtain ⟨gd', dead⟩ := r
    have hfr' : clearAll (fun g : Modfile.Godebug => g.key == key) (·.lineId) clearedGodebug e.f.godebug = .ok (gd', dead) := hfr
    obtain ⟨r, h1, hrun, ho1, R1⟩ := DropGodebug_loop_ok key fp o e.f.godebug o.Godebug [] [] h e fuel gd' dead
      ho R0 rfl rfl rfl hf1 hfr
    have hrun' : File_DropGodebug_loop1 o.Godebug fp key fuel 0 h = .ok (r, h1) := hrun
    simp only [Modfile.Edit.dropGodebug, hfr', bind, Except.bind, pure, Except.pure, Except.ok.injEq] at hm
    subst hm
    refine ⟨h1, ?_, o, ho1, R1⟩
    simp only [File_DropGodebug, ho, hrun', bind, Except.bind, pure, Except.pure]

/-- **File.DropGodebug, the model meets a cleared entry (`nilDeref`): Go panics** -/
theorem File_DropGodebug_err {h : Heap} {fp : Int} {e : Modfile.Edit.EFile} (R : RepF h fp e)
    (key : Bytes) (fuel : Nat) (hf1 : e.f.godebug.length + 1 ≤ fuel) {err : Modfile.Edit.EditErr}
    (hm : Modfile.Edit.dropGodebug e key = .error err) :
    File_DropGodebug fuel fp key h = .error .panic := by
  obtain ⟨o, ho, R0⟩ := R
  cases hfr : clearAll (gdM key) (·.lineId) clearedGodebug e.f.godebug with
  | ok r =>
    obtain ⟨gd', dead⟩ := r
    have hfr' : clearAll (fun g : Modfile.Godebug => g.key == key) (·.lineId) clearedGodebug e.f.godebug = .ok (gd', dead) := hfr
    simp [Modfile.Edit.dropGodebug, hfr', bind, Except.bind, pure, Except.pure] at hm
  | error err' =>
    have hrun := DropGodebug_loop_err key fp o e.f.godebug o.Godebug [] [] h e fuel err' ho R0 rfl rfl rfl hf1 hfr
    have hrun' : File_DropGodebug_loop1 o.Godebug fp key fuel 0 h = .error .panic := hrun
    simp only [File_DropGodebug, ho, hrun', bind, Except.bind]

end ModVerif.Tie.FnEditStmtB
