/-
  Helper lemmas for Tie/FnEditSet.lean, `File.SetRequireSeparateIndirect`, part 7: the two cases of `moveReq` on a
  represented FILE: an existing requirement (`moveExisting`) and a new one (`addSepNew`, including
  `f.Require = append(f.Require, r)`).
-/
import ModVerif.Proofs.TieFnEditSetI
set_option linter.unusedSimpArgs false
set_option linter.unusedVariables false
namespace ModVerif.Tie.FnEditSetJ
open ModVerif ModVerif.GoRt ModVerif.Generated.Edit ModVerif.Tie.FnEditRep ModVerif.Tie.FnEditTreeA ModVerif.Tie.FnEditSetA
  ModVerif.Tie.FnEditSetB ModVerif.Tie.FnEditSetD ModVerif.Tie.FnEditSetE ModVerif.Tie.FnEditSetF ModVerif.Tie.FnEditSetG
  ModVerif.Tie.FnEditSetH ModVerif.Tie.FnEditSetI
open ModVerif.Modfile.Edit (EFile Want treeIds appendToBlock headIs mkLine setIndirectLine moveExisting addSepNew SepCtx)

/-- the model file with new `require` list, syntax tree and id counter -/
def mkE (e : EFile) (rq : List Modfile.Require) (syn : Modfile.FileSyntax) (next : Nat) : EFile :=
  { f := { e.f with require := rq, syn := syn }, next := next }

@[simp] theorem mkE_mkE (e : EFile) (a b : List Modfile.Require) (s t : Modfile.FileSyntax) (n m : Nat) :
    mkE (mkE e a s n) b t m = mkE e b t m := rfl
@[simp] theorem mkE_require (e : EFile) (a : List Modfile.Require) (s : Modfile.FileSyntax) (n : Nat) : (mkE e a s n).f.require = a := rfl
@[simp] theorem mkE_syn (e : EFile) (a : List Modfile.Require) (s : Modfile.FileSyntax) (n : Nat) : (mkE e a s n).f.syn = s := rfl
@[simp] theorem mkE_next (e : EFile) (a : List Modfile.Require) (s : Modfile.FileSyntax) (n : Nat) : (mkE e a s n).next = n := rfl
theorem mkE_self (e : EFile) : mkE e e.f.require e.f.syn e.next = e := rfl

/-- rebuilding the representation when also the `Require` slice of the `File` object changes -/
theorem RepFAt_rebuild' {h h' : Heap} {o : File} {e : EFile} (R : RepFAt h o e) (ps' : List Int) {fs' : Modfile.FileSyntax} {n' : Nat}
    {rq' : List Modfile.Require} (hsyn : RepSyn h' o.Syntax fs') (htok : BlockTokOK fs'.stmts) (hG : LinesG h')
    (hnext : n' = h'.lines.length + 1) (hle : h.lines.length ≤ h'.lines.length)
    (hreq : REnts h'.requires requireG (·.lineId) h'.lines.length ps' rq') (hT : TypedEq h h') :
    RepFAt h' { o with Require := ps' } (mkE e rq' fs' n') where
  syn := hsyn
  tok := htok
  linesG := hG
  next := hnext
  module := by have := R.module.mono (objs' := h'.modules) (by rw [hT.modules]; exact fun _ _ x => x) hle; exact this
  go := by have := R.go.mono (objs' := h'.gos) (by rw [hT.gos]; exact fun _ _ x => x) hle; exact this
  toolchain := by have := R.toolchain.mono (objs' := h'.toolchains) (by rw [hT.toolchains]; exact fun _ _ x => x) hle; exact this
  godebug := by have := R.godebug.mono (objs' := h'.godebugs) (by rw [hT.godebugs]; exact fun _ _ x => x) hle; exact this
  require := hreq
  exclude := by have := R.exclude.mono (objs' := h'.excludes) (by rw [hT.excludes]; exact fun _ _ x => x) hle; exact this
  replace := by have := R.replace.mono (objs' := h'.replaces) (by rw [hT.replaces]; exact fun _ _ x => x) hle; exact this
  retract := by have := R.retract.mono (objs' := h'.retracts) (by rw [hT.retracts]; exact fun _ _ x => x) hle; exact this
  tool := by have := R.tool.mono (objs' := h'.tools) (by rw [hT.tools]; exact fun _ _ x => x) hle; exact this

theorem file_eta (o : File) : ({ o with Require := o.Require } : File) = o := by cases o; rfl

/-! ### ids of the tree under the operations -/

theorem mem_treeIds_appendToBlock {stmts : List Modfile.Expr} {j : Nat} (i : Nat) (nl : Modfile.Line) (h : j ∈ treeIds stmts) :
    j ∈ treeIds (appendToBlock stmts i nl) := by
  unfold appendToBlock
  cases hs : stmts[i]? with
  | none => exact h
  | some s =>
    cases s with
    | lineBlock b0 =>
      obtain ⟨a, b, rfl, rfl⟩ := split_at hs
      simp only [set_append_mid]
      rw [treeIds_mid, Modfile.Edit.treeIds_block] at h ⊢
      simp only [List.mem_append, List.mem_map] at h ⊢
      rcases h with h | h | h
      · exact Or.inl h
      · obtain ⟨l, hl, rfl⟩ := h
        exact Or.inr (Or.inl ⟨l, Or.inl hl, rfl⟩)
      · exact Or.inr (Or.inr h)
    | _ => exact h

theorem mem_treeIds_moveExisting {syn : Modfile.FileSyntax} (hnd : (treeIds syn.stmts).Nodup) {j : Nat} (lid idx new : Nat)
    (h : j ∈ treeIds syn.stmts) : j ∈ treeIds (moveExisting syn lid idx new).stmts := by
  unfold moveExisting
  cases syn.findLine lid with
  | none => exact h
  | some old =>
    simp only
    apply mem_treeIds_appendToBlock
    rw [Modfile.Edit.treeIds_updateLine syn lid (fun l => { l with token := [] }) hnd (fun _ => rfl)]
    exact h

/-! ### moveReq of an existing requirement -/

/-- `r.Syntax.Token = nil` -/
def clearTok (l : Modfile.Line) : Modfile.Line := { l with token := [] }

theorem IdEquiv_clearTok : IdEquiv clearTok := fun _ _ => rfl

theorem RepSynAt_stmt_eq {h : Heap} {x : Int} {fs : Modfile.FileSyntax} {es : List Expr} (r : RepSynAt h x fs es) {fo : FileSyntax}
    (hfile : heapGet h.files x = .ok fo) : fo.Stmt = es := by
  have := r.file; rw [hfile] at this
  rw [Except.ok.inj this]; rfl

theorem moveExisting_sim {h : Heap} {o : File} {e0 : EFile} {rqs : List Modfile.Require} {syn : Modfile.FileSyntax} {next : Nat}
    (R : RepFAt h o (mkE e0 rqs syn next)) {k : Nat} {r : Int} {rq : Modfile.Require} {l : Modfile.Line} {idx : Nat} {bp : Int}
    {fo : FileSyntax} (hk : o.Require[k]? = some r) (hrq : rqs[k]? = some rq) (h0 : rq.lineId ≠ 0)
    (hfind : syn.findLine rq.lineId = some l) (hfile : heapGet h.files o.Syntax = .ok fo)
    (hidx : fo.Stmt[idx]? = some (Expr.LineBlock bp)) :
    ∃ blk, heapGet h.blocks bp = .ok blk ∧ heapGet h.requires r = .ok (requireG rq) ∧
      heapGet h.lines (rq.lineId : Int) = .ok (lineG l) ∧
      RepFAt (moveHeap h r rq l bp blk) o
        (mkE e0 (rqs.set k { rq with lineId := next }) (moveExisting syn rq.lineId idx next) (next + 1)) := by
  obtain ⟨hobj, hle⟩ := REntsL.get R.require.rel k r rq hk hrq
  obtain ⟨hl, hlid⟩ := R.syn.findLine hfind
  have hnext : next = h.lines.length + 1 := R.next
  have R1 := R.setLine IdEquiv_clearTok hl
  obtain ⟨es, r1⟩ := R1.syn
  have hes : fo.Stmt = es := RepSynAt_stmt_eq r1 hfile
  rw [hes] at hidx
  -- the block object
  have hlen := r1.stmts.length
  have hlt : idx < es.length := (List.getElem?_eq_some_iff.1 hidx).1
  have hs : ((mkE e0 rqs syn next).f.syn.updateLine ((rq.lineId : Int).toNat) clearTok).stmts[idx]? =
      some (((mkE e0 rqs syn next).f.syn.updateLine ((rq.lineId : Int).toNat) clearTok).stmts[idx]'(by rw [← hlen]; exact hlt)) :=
    List.getElem?_eq_getElem _
  have hre := RStmts.get r1.stmts idx _ _ hidx hs
  generalize ((mkE e0 rqs syn next).f.syn.updateLine ((rq.lineId : Int).toNat) clearTok).stmts[idx]'(by rw [← hlen]; exact hlt) = s0 at hre
  cases s0 <;> simp only [RExpr] at hre <;> try exact hre.elim
  rename_i b0
  obtain ⟨ps, hb, _⟩ := hre
  refine ⟨blockG b0 ps, hb, hobj, hl, ?_⟩
  -- append the copy
  have r2 := RepSynAt_appendLine r1 hidx hb { l with id := next, token := moveTok l, inBlock := true }
    (by simp [hnext])
  have hH : moveHeap h r rq l bp (blockG b0 ps) =
      { appHeap (setLineH h (rq.lineId : Int) (clearTok l))
          (lineG { l with id := next, token := moveTok l, inBlock := true }) bp (blockG b0 ps) with
        requires := h.requires.set (r.toNat - 1) (requireG { rq with lineId := next }) } := by
    simp [moveHeap, appHeap, setLineH, clearTok, hnext, lineG]
  rw [hH]
  have hsynEq : moveExisting syn rq.lineId idx next =
      { (syn.updateLine rq.lineId clearTok) with
        stmts := appendToBlock (syn.updateLine rq.lineId clearTok).stmts idx { l with id := next, token := moveTok l, inBlock := true } } := by
    unfold moveExisting
    rw [hfind]
    rfl
  rw [hsynEq]
  have hreq : REnts (h.requires.set (r.toNat - 1) (requireG { rq with lineId := next })) requireG (·.lineId)
      (h.lines.length + 1) o.Require (rqs.set k { rq with lineId := next }) := by
    have hm := R.require.mono (objs' := h.requires) (nl' := h.lines.length + 1) (fun _ _ x => x) (Nat.le_succ _)
    exact ⟨hm.rel.setAt hm.nodup k r _ hk (by simp [hnext]), hm.nodup⟩
  have hfin := RepFAt_rebuild' R1 o.Require (h' := { appHeap (setLineH h (rq.lineId : Int) (clearTok l))
          (lineG { l with id := next, token := moveTok l, inBlock := true }) bp (blockG b0 ps) with
        requires := h.requires.set (r.toNat - 1) (requireG { rq with lineId := next }) })
    (fs' := { (syn.updateLine rq.lineId clearTok) with
        stmts := appendToBlock (syn.updateLine rq.lineId clearTok).stmts idx { l with id := next, token := moveTok l, inBlock := true } })
    (n' := next + 1) (rq' := rqs.set k { rq with lineId := next }) ⟨es, ?_⟩ ?_ ?_ ?_ ?_ ?_ ⟨rfl, rfl, rfl, rfl, rfl, rfl, rfl, rfl⟩
  · rw [file_eta o] at hfin; exact hfin
  · refine RepSynAt.congr (h := appHeap (setLineH h (rq.lineId : Int) (clearTok l))
      (lineG { l with id := next, token := moveTok l, inBlock := true }) bp (blockG b0 ps)) ?_ ?_ ?_ ?_ (by simpa using r2) <;> rfl
  · exact BlockTokOK_appendToBlock (by simpa using R1.tok) _ _
  · exact LinesG.allocLine (h := setLineH h (rq.lineId : Int) (clearTok l)) R1.linesG _
  · simp [appHeap, hnext]
  · simp [appHeap]
  · simpa [appHeap] using hreq

/-! ### moveReq of a new requirement, and `f.Require = append(f.Require, r)` -/

theorem sepNewLine_id (id : Nat) (toks : List Bytes) (ind : Bool) : (sepNewLine id toks ind).id = id := by
  unfold sepNewLine
  cases ind
  · rfl
  · simp only [if_true]; rw [(IdEquiv_setIndirectLine true).id_eq]; rfl

/-- the entry `addSepNew` appends -/
def newReq (w : Want) (next : Nat) : Modfile.Require :=
  { mod := { path := w.path, version := w.vers }, indirect := w.indirect, lineId := next }

theorem addSepNew_eq (ctx : SepCtx) (e0 : EFile) (rqs : List Modfile.Require) (syn : Modfile.FileSyntax) (next : Nat) (w : Want) :
    addSepNew ctx (mkE e0 rqs syn next) w =
      mkE e0 (rqs ++ [newReq w next])
        { syn with
          stmts := appendToBlock syn.stmts (if w.indirect then ctx.indirectIdx else ctx.directIdx)
            (sepNewLine next [Modfile.autoQuote w.path, w.vers] w.indirect) } (next + 1) := by
  simp only [addSepNew, mkE, newReq, sepNewLine]

theorem addSepNew_sim {h : Heap} {o : File} {e0 : EFile} {rqs : List Modfile.Require} {syn : Modfile.FileSyntax} {next : Nat}
    (R : RepFAt h o (mkE e0 rqs syn next)) {r3 : Int} {w : Want} {idx : Nat} {bp : Int} {fo : FileSyntax}
    (hobj : heapGet h.requires r3 = .ok (requireG (wantReq w))) (hfresh : r3 ∉ o.Require)
    (hfile : heapGet h.files o.Syntax = .ok fo) (hidx : fo.Stmt[idx]? = some (Expr.LineBlock bp)) (ml : List File) :
    ∃ blk, heapGet h.blocks bp = .ok blk ∧
      RepFAt { newHeap h r3 (wantReq w) bp blk with mods := ml } { o with Require := o.Require ++ [r3] }
        (mkE e0 (rqs ++ [newReq w next])
          { syn with stmts := appendToBlock syn.stmts idx (sepNewLine next [Modfile.autoQuote w.path, w.vers] w.indirect) }
          (next + 1)) := by
  have hnext : next = h.lines.length + 1 := R.next
  obtain ⟨es, r1⟩ := R.syn
  have hes : fo.Stmt = es := RepSynAt_stmt_eq r1 hfile
  rw [hes] at hidx
  have hlen := r1.stmts.length
  have hlt : idx < es.length := (List.getElem?_eq_some_iff.1 hidx).1
  have hlt2 : idx < syn.stmts.length := by
    have : es.length = syn.stmts.length := hlen
    omega
  have hs : syn.stmts[idx]? = some (syn.stmts[idx]'hlt2) := List.getElem?_eq_getElem _
  have hre := RStmts.get r1.stmts idx _ _ hidx hs
  generalize syn.stmts[idx]'hlt2 = s0 at hre
  cases s0 <;> simp only [RExpr] at hre <;> try exact hre.elim
  rename_i b0
  obtain ⟨ps, hb, _⟩ := hre
  refine ⟨blockG b0 ps, hb, ?_⟩
  have r2 := RepSynAt_appendLine r1 hidx hb (sepNewLine next [Modfile.autoQuote w.path, w.vers] w.indirect)
    (by rw [sepNewLine_id, hnext])
  have hH : ({ newHeap h r3 (wantReq w) bp (blockG b0 ps) with mods := ml } : Heap) =
      { appHeap h (lineG (sepNewLine next [Modfile.autoQuote w.path, w.vers] w.indirect)) bp (blockG b0 ps) with
        requires := h.requires.set (r3.toNat - 1) (requireG (newReq w next)), mods := ml } := by
    simp [newHeap, appHeap, hnext, wantReq, newReq]
  rw [hH]
  have hreq : REnts (h.requires.set (r3.toNat - 1) (requireG (newReq w next))) requireG (·.lineId)
      (h.lines.length + 1) (o.Require ++ [r3]) (rqs ++ [newReq w next]) := by
    have hm := R.require.mono (objs' := h.requires) (nl' := h.lines.length + 1) (fun _ _ x => x) (Nat.le_succ _)
    refine ⟨REntsL.append (hm.rel.setOther hobj _ hfresh) ⟨⟨heapGet_listSet_same _ hobj, by simp [newReq, hnext]⟩, trivial⟩, ?_⟩
    rw [List.nodup_append]
    refine ⟨hm.nodup, by simp, ?_⟩
    intro a ha b hb'
    simp only [List.mem_singleton] at hb'; subst hb'
    intro e; subst e; exact hfresh ha
  refine RepFAt_rebuild' R (o.Require ++ [r3]) ⟨es, ?_⟩ ?_ ?_ ?_ ?_ ?_ ⟨rfl, rfl, rfl, rfl, rfl, rfl, rfl, rfl⟩
  · refine RepSynAt.congr (h := appHeap h (lineG (sepNewLine next [Modfile.autoQuote w.path, w.vers] w.indirect)) bp (blockG b0 ps))
      ?_ ?_ ?_ ?_ (by simpa using r2) <;> rfl
  · exact BlockTokOK_appendToBlock (by simpa using R.tok) _ _
  · exact LinesG.allocLine (h := h) R.linesG _
  · simp [appHeap, hnext]
  · simp [appHeap]
  · simpa [appHeap] using hreq

end ModVerif.Tie.FnEditSetJ
